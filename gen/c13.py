"""C13 case generator: tracker tier layouts x op lists (client calls, tracker replies, clock).

Case line:  T <t0_us> G <k> g1..gk ; op op ...      (see harness/c13.cc for the op tokens)
Reply ops may address a tracker by insertion index, or 'b' / 'B' = first / last busy tracker in
current list order (resolved identically by both drivers from their own state), so that random
replies actually hit in-flight requests.

Streams:
  hand        hand-written timelines (incl. regression witnesses of repaired defects and of the listed findings)
  client      mostly-valid client behaviour: start ... (timers, replies) ... completed/stop, restarts
  primitive   arbitrary interleavings of controller primitives (enable/disable/close/send_*),
              `sp` always followed by `di` (the only way the client API issues it)
  boundary    interval values on both sides of every clamp, failure runs 0..9 on one tracker,
              sub-second clock offsets around ceil_seconds
  udp_wire    one REAL TrackerUdp + UdpRouter announcing to an in-process BEP-15 socket: event code and
              downloaded/left/uploaded fields of the 98-byte announce packet for every client event
  http        one REAL TrackerHttp + curl against an in-process HTTP tracker, the main thread's callback queue run by
              hand: replies whose callback is still queued when the client issues the next event
  download    the REAL torrent::Download (start / stop / manual_request / send_completed, harness/c13d.cc on the
              session harness) with uploads between sessions: figures handed to the tracker worker
  exhaustive  (thorough) every op list of length <= 5 over a 10-op alphabet for 2 trackers / 2 tiers
"""
import itertools
import os
import random

# clamp constants: only used to aim values at the boundaries (the oracle re-reads Params_gen.v)
MIN_MIN, MAX_MIN, MIN_NORMAL, MAX_NORMAL = 300, 4 * 3600, 600, 8 * 3600
BOUND_IV = sorted({0, 1, 299, 300, 301, 599, 600, 601, 1799, 1800, 1801, 14399, 14400, 14401, 28799, 28800, 28801,
                   -1, -600, 2 ** 31 - 1, 2 ** 31, 2 ** 32 - 1, 2 ** 32, 2 ** 62, -(2 ** 62), 5, 30, 3})

HAND = [
    # single tracker: start, success, periodic update, failures with back-off
    "T 0 G 1 0 ; en ss ad:0 ok:0:1800:600:3 nx fl:0 nx fl:0 nx fl:0 nx fl:0 nx fl:0 nx fl:0 nx fl:0 nx fl:0 nx fl:0 nx ok:0:1800:600:1 nx",
    # three trackers in two tiers: promiscuous mode 3 s after start
    "T 500000 G 3 0 0 1 ; en ss ad:0 fl:0 ad:3000000 fl:1 nx ok:2:100:100:0 sp di",
    # regression (fixed d5b8825): manual request while 'started' is pending after a failure
    "T 0 G 1 0 ; en ss fl:0 mr ok:0:1800:600:0 nx",
    # regression (fixed d5b8825, eed7d46): completed pending + manual request
    "T 0 G 1 0 ; en ss ok:0:1800:600:0 sc fl:0 mr ok:0:1800:600:0 nx",
    # regression (fixed b6c5394, fabe449): min interval above interval
    "T 0 G 1 0 ; en ss ok:0:600:3000:0 nx",
    # listed finding tier-skipped-not-due (tier_order_strict_refuted): tier 2 contacted although tier 1 has a working tracker (not yet due)
    "T 0 G 3 0 1 2 ; en ss fl:0 ok:1:1800:600:0 nx nx ok:b:1800:600:0 nx",
    "T 0 G 1 0 ; en ss ok:0:600:3000:0 rq ad:0 nx",
    "T 0 G 2 0 1 ; en rq ad:0 ss ok:1:1800:600:0 fl:0 nx nx",
    # tier skipped because the earlier tracker is still in flight (tracker disable re-arms the timer)
    "T 0 G 3 0 1 1 ; en ss td:2 ad:0",
    # stop reaches only used trackers; restart keeps stats or not
    "T 0 G 2 0 1 ; en ss ok:0:1800:600:0 sp di ek ss ok:0:1800:600:0 sp di en ss",
    "T 0 G 2 0 1 ; ST ok:0:1800:600:0 SP STK nx ok:b:1800:600:0 SPK ST fl:b nx ok:b:900:300:0 SP",
    # requesting mode: 30 s rounds over all tiers
    "T 999999 G 4 0 0 1 2 ; en ss ok:0:1800:600:0 rq ad:0 ok:b:1800:600:0 ok:b:1800:600:0 nx fl:b fl:b nx sq nx",
    # completed goes to used trackers only, newer event replaces a pending one
    "T 0 G 2 0 0 ; en ss ok:0:1800:600:0 nx sc sp di",
    "T 0 G 2 0 0 ; en ss sc ok:b:1800:600:0 ss sc sp di",
    # cycle_group / promote
    "T 0 G 3 0 0 0 ; en cy:0 ss fl:b fl:b ok:b:1800:600:0 cy:0 cy:1 nx",
    # failure replies carrying intervals (min interval raised => back-off replaced by min interval)
    "T 0 G 1 0 ; en ss fi:0:900:900 nx fl:0 nx fi:0:0:0 nx",
    # statistics reported at send time
    "T 0 G 1 0 ; st:5:6:7 en st:1000:2000:3000 ss ok:0:1800:600:0 st:1:2:3 nx",
    # baselines (Download::start resets them): adjusted = max(total - baseline, 0)
    "T 0 G 1 0 ; st:1000:2000:3000 bl:400:2500 en ss ok:0:1800:600:0 st:5000:2600:1 nx ok:b:1800:600:0 bl:5000:0 nx",
    # trackers added while running (insert after start): idle controller re-arms its timer, new tier order
    "T 0 G 1 1 ; en ss fl:0 in:0 nx nx fl:b in:2 nx ok:b:1800:600:0 in:1 nx",
    "T 0 G 0 ; in:3 en in:0 ss ok:b:900:300:0 in:3 nx",
    # no reply: the worker's own timeout (HTTP 60 s, UDP 15+30+45 s) arrives as a failure much later; slow reply
    "T 0 G 2 0 1 ; en ss ad:3000000 ad:60000000 fl:0 nx ad:90000000 fl:b nx ad:600000000 ok:b:1800:600:0 nx",
    "T 0 G 1 0 ; en ss ad:3600000000 ok:0:1800:600:0 nx ad:7200000000 fl:0 nx",
    # scrapes: a due announce replaces a scrape in flight on tier 0 (tier 1 untouched); 600 s scrape gap; scrape reply
    "T 0 G 2 0s 1 ; en nx ok:0:1800:600:0 ad:1790000000 sr:0 ad:0 ad:15000000 ok:b:1800:600:0",
    "T 0 G 1 0s ; en nx ok:0:1800:600:0 ad:1790000000 sr:0 ad:0 nx ok:0:1800:600:0 nx",
    "T 0 G 3 0s 0 1s ; en ss sr:5 ok:b:1800:600:0 nxs fl:b nxs sr:0 ad:0 ok:b:1:1:1 ok:b:1:1:1 sr:0 ad:0 nx dfl:b sr:0 ad:0 dr",
    "T 0 G 2 0s 1s ; en ss ok:b:1800:600:0 sr:0 ad:0 ok:b:0:0:0 ok:b:0:0:0 ad:599000000 sr:0 ad:0 ad:1000000 sr:0 ad:0 fl:b fl:b sr:0 ad:0 sp di sr:0 ad:0",
    "T 0 G 2 0s 0s ; sr:0 ad:0 en sr:0 ad:0 nx td:0 sr:0 ad:0 mr ss",
    # timer and scrape task due at the same instant
    "T 0 G 1 0s ; en sr:0 ad:0 ok:b:600:300:0 ok:b:600:300:0 sr:600 nx nx ok:b:600:300:0",
    # a worker's result callback still queued for the main thread when the client issues a new event (cancelled),
    # when a timer fires, when another reply arrives
    "T 0 G 1 0 ; en nx dok:0:1800:600:0 ss dr fl:0 nx",
    "T 0 G 2 0 1 ; en ss dfl:0 mr dr nx dok:b:1800:600:0 sc dr dr",
    "T 0 G 2 0 1 ; en ss dfl:0 ad:3000000 dr dok:b:900:300:0 nx dr sp di dr",
    # a tracker disabled across a restart: its statistics are reset with the others, 'stopped' must not reach it later
    "T 0 G 2 0 1 ; ST ok:b:1800:600:0 SP td:0 ST ok:b:1800:600:0 te:0 SP",
    "T 0 G 2 0 0 ; en ss ok:0:1800:600:0 sp di td:0 en ss fl:b ok:b:900:300:0 te:0 nx sp di",
    "T 0 G 3 0 0 1 ; ST ok:b:600:300:0 td:0 td:1 SP ST ok:b:600:300:0 te:0 te:1 sc SP",
    # unsorted insertion order, sparse tier numbers
    "T 0 G 4 5 0 5 2 ; en ss fl:b fl:b fl:b fl:b nx nx nx nx",
    # tracker disabled while in flight, reply still counted
    "T 0 G 2 0 0 ; en ss td:0 ok:0:1800:600:0 ad:0 te:0 nx",
]


def rand_iv(r):
    x = r.random()
    if x < 0.45:
        return r.choice((1800, 600, 900, 1200, 3600))
    if x < 0.85:
        return r.choice(BOUND_IV)
    return r.randrange(0, 40000)


def rand_mv(r):
    x = r.random()
    if x < 0.5:
        return r.choice((600, 300, 0, 900))
    if x < 0.9:
        return r.choice(BOUND_IV)
    return r.randrange(0, 20000)


def rand_layout(r):
    ngroups = r.choice((1, 1, 2, 2, 3, 4))
    groups = []
    g = 0
    for _ in range(ngroups):
        groups += [g] * r.choice((1, 1, 2, 3))
        g += r.choice((1, 1, 1, 2, 5))
    if r.random() < 0.15:
        r.shuffle(groups)
    return groups


def rand_target(r, k):
    x = r.random()
    if x < 0.55:
        return "b"
    if x < 0.7:
        return "B"
    return str(r.randrange(k))


def rand_reply(r, k, pfail):
    tgt = rand_target(r, k)
    x = r.random()
    if x < pfail:
        return "fl:%s" % tgt if r.random() < 0.8 else "fi:%s:%d:%d" % (tgt, rand_iv(r), rand_mv(r))
    return "ok:%s:%d:%d:%d" % (tgt, rand_iv(r), rand_mv(r), r.choice((0, 0, 1, 5, 50)))


def rand_advance(r):
    x = r.random()
    if x < 0.04:
        return "ad:%d" % (r.choice((60, 90, 120)) * 1000000)     # worker-side timeouts (HTTP 60 s, UDP 90 s)
    if x < 0.5:
        return "nx"
    if x < 0.6:
        return "ad:0"
    if x < 0.8:
        return "ad:%d" % (r.choice((1, 3, 5, 10, 30, 299, 300, 301, 600, 1800)) * 1000000)
    if x < 0.9:
        return "ad:%d" % r.choice((1, 999999, 1000000, 1000001, 500000, 2999999, 3000001))
    return "ad:%d" % r.randrange(0, 4000 * 1000000)


def client_stream(r, n):
    """A plausible client: start, then a mix of timers/replies/occasional client actions."""
    groups = rand_layout(r)
    k = len(groups)
    ops = []
    if r.random() < 0.2:
        ops.append("st:%d:%d:%d" % (r.randrange(10 ** 9), r.randrange(10 ** 9), r.randrange(10 ** 12)))
    active = False
    pfail = r.choice((0.1, 0.3, 0.5, 0.8, 0.95))
    while len(ops) < n:
        x = r.random()
        if active and r.random() < 0.10:
            ops.append(rand_scrape_op(r))
        elif active and r.random() < 0.08:
            ops.append(rand_deferred(r, k, pfail))
        elif not active:
            x2 = r.random()
            ops += ["STK"] if x2 < 0.1 else ["ek"] if x2 < 0.15 else ["ST"] if x2 < 0.55 else ["en", "ss"] if x2 < 0.95 else ["ek", "ss"]
            active = True
        elif x < 0.38:
            ops.append(rand_advance(r))
        elif x < 0.72:
            ops.append(rand_reply(r, k, pfail))
        elif x < 0.76:
            ops.append("mr")
        elif x < 0.79:
            ops.append("sc")
        elif x < 0.83:
            ops.append(r.choice(("rq", "rq", "sq")))
        elif x < 0.87:
            ops.append("%s:%d" % (r.choice(("td", "te")), r.randrange(k)))
        elif x < 0.89:
            ops.append("cy:%d" % r.choice(groups + [9]))
        elif x < 0.893:
            ops.append("in:%d%s" % (r.choice(groups + [0, max(groups) + 1]), r.choice(("", "", "s"))))
            k += 1
        elif x < 0.897:
            ops.append("STB")
        elif x < 0.905:
            ops.append("bl:%d:%d" % (r.choice((0, 500000000, 10 ** 9, r.randrange(10 ** 9))), r.choice((0, 500000000, r.randrange(10 ** 9)))))
        elif x < 0.92:
            ops.append("st:%d:%d:%d" % (r.randrange(10 ** 9), r.randrange(10 ** 9), r.randrange(10 ** 12)))
        elif x < 0.95:
            x2 = r.random()
            if r.random() < 0.25:
                ops.append("td:%d" % r.randrange(k))
            ops += ["SP"] if x2 < 0.45 else ["sp", "di"] if x2 < 0.85 else ["SPK"] if x2 < 0.93 else ["di"]
            if r.random() < 0.25:
                ops.append("td:%d" % r.randrange(k))
            active = False
        elif x < 0.97:
            ops.append("cl")
        else:
            ops.append("ss")
    return groups, ops[:n + 1]


PRIMS = ["en", "ek", "di", "cl", "ss", "sc", "su", "mr", "rq", "sq", "SPDI", "ST", "SP", "STK", "SPK", "STB"]


def primitive_stream(r, n):
    groups = rand_layout(r)
    k = len(groups)
    ops = []
    pfail = r.choice((0.2, 0.5, 0.9))
    while len(ops) < n:
        x = r.random()
        if x < 0.4:
            o = r.choice(PRIMS)
            ops += ["sp", "di"] if o == "SPDI" else [o]
        elif x < 0.65:
            ops.append(rand_reply(r, k, pfail))
        elif x < 0.9:
            ops.append(rand_advance(r))
        elif x < 0.95:
            ops.append("%s:%d" % (r.choice(("td", "te")), r.randrange(k + 1)))
        elif x < 0.96:
            ops.append("in:%d%s" % (r.randrange(4), r.choice(("", "s"))))
            k += 1
        elif x < 0.965:
            ops.append(rand_scrape_op(r))
        elif x < 0.975:
            ops.append(rand_deferred(r, k, pfail))
        else:
            ops.append("cy:%d" % r.randrange(4))
    return groups, ops


def boundary_cases(r):
    out = []
    # every interval boundary as normal and as min interval, success and failure-with-intervals
    for v in BOUND_IV:
        out.append(([0], ["en", "ss", "ok:0:%d:600:0" % v, "nx", "ok:0:1800:%d:1" % v, "nx", "rq", "ad:0", "nx"]))
        out.append(([0, 0], ["en", "ss", "fi:b:%d:%d" % (v, v), "nx", "nx", "fl:b", "nx"]))
    # failure runs of length 0..9 then success, on time and late timers, promiscuous and not
    for run in range(0, 10):
        for groups in ([0], [0, 1], [0, 0, 1]):
            ops = ["en", "ss"]
            for _ in range(run):
                ops += ["fl:b", r.choice(("nx", "nx", "ad:1000000", "ad:400000000"))]
                if len(groups) > 1:
                    ops += ["fl:b", "nx"]
            ops += ["ok:b:1800:600:0", "nx", "fl:b", "nx"]
            out.append((groups, ops))
    # long failure runs: the back-off shift must stay capped (5 << 29.. would overflow int; << 32.. wraps the shift count)
    for run in (28, 29, 30, 31, 32, 33, 34, 36, 40, 62, 63, 64, 65, 66, 70):
        out.append(([0], ["en", "ss"] + ["fl:0", "nx"] * run + ["ok:0:1800:600:0", "nx"]))
    out.append(([0, 1], ["en", "ss"] + ["fl:b", "nx", "fl:b", "nx"] * 35))
    # sub-second offsets around ceil_seconds
    for off in (0, 1, 499999, 999999):
        out.append(([0, 1], ["en", "ss", "ad:%d" % off, "fl:b", "nx", "ad:1", "ad:999999", "ok:b:600:300:0", "nx"], off))
    return out


UDP_HAND = [
    # silent tracker: UdpRouter retransmits (15/30/45 s on the tracker thread's clock), the worker reports the
    # failure, the controller backs off and the retry still carries the pending event
    "U 11 22 33 ; ss! nx sc mr sp",
    "U 5 6 7 ; ss ss! nx nx! nx sc! nx SP",
    "U 1 2 3 ; ss sc! mr nx sp",
    "U 11 22 33 ; ss sc mr sp",
    "U 5 6 7 ; ss ss mr SP ST sc SP",
    "U 1 2 3 ; sp sc mr ss sp",
    "U 0 0 0 ; ST sc SP",
    "U 4294967296 1099511627776 9223372036854775807 ; ss mr sc mr sp",
]


def udp_cases(r, n):
    """UDP wire observation: one real TrackerUdp, every client event, figures at field boundaries"""
    out = list(UDP_HAND)
    for _ in range(n):
        figs = [r.choice((0, 1, 255, 65536, 2 ** 32 - 1, 2 ** 32, 2 ** 40 + 7, r.randrange(2 ** 62))) for _ in range(3)]
        ops = ["ss"] if r.random() < 0.8 else []
        for _ in range(r.randrange(1, 6)):
            ops.append(r.choice(("ss", "sc", "sp", "mr", "mr", "sc", "ST", "SP", "nx")))
        if r.random() < 0.12:
            i = r.randrange(len(ops))
            if ops[i] not in ("sp", "SP"):
                ops[i] += "!"
                ops.insert(i + 1, "nx")
        out.append("U %d %d %d ; %s" % (figs[0], figs[1], figs[2], " ".join(ops)))
    return out


DL_HAND = [
    # real Download::start/stop (harness/c13d.cc): restart after transfer must report 0 / 0 again
    "D 49152 16384 ; start ok up:50000 stop ok start ok up:1234 mr",
    "D 49152 16384 ; starts mr startk stop",
    "D 49152 16384 ; start fl up:7 mr cmp ok stop stop start up:9 fl mr ok stops startk mr ok cmp",
    "D 49152 16384 ; up:5 start ok stop ok up:3 startk ok up:1 mr ok stop ok start",
]


def download_cases(r, n):
    out = list(DL_HAND)
    for _ in range(n):
        ops = []
        for _ in range(r.randrange(3, 14)):
            x = r.random()
            if x < 0.22:
                ops.append(r.choice(("start", "start", "start", "startk", "starts")))
            elif x < 0.36:
                ops.append(r.choice(("stop", "stop", "stops")))
            elif x < 0.56:
                ops.append("up:%d" % r.choice((1, 1234, 50000, 2 ** 32, r.randrange(10 ** 9))))
            elif x < 0.8:
                ops.append(r.choice(("ok", "ok", "fl")))
            elif x < 0.93:
                ops.append("mr")
            else:
                ops.append("cmp")
        out.append("D 49152 16384 ; " + " ".join(ops))
    return out


HTTP_HAND = [
    # real TrackerHttp, main thread drained by hand: a reply whose callback is still queued when the client issues a
    # new event must NOT count as the acceptance of that event (TrackerHttp::close_directly -> remove_events)
    "H 11 22 33 ; en nx ok ss dr fl dr nx",
    "H 1 2 3 ; en ss ok dr nx",
    "H 5 6 7 ; en nx ok dr ss ok sc dr fl dr nx ok dr",
    "H 0 0 0 ; en ss fl mr dr nx ok dr sp",
]


def http_cases(r, n):
    out = list(HTTP_HAND)
    for _ in range(n):
        ops = ["en"]
        pending = False
        for _ in range(r.randrange(3, 9)):
            x = r.random()
            if x < 0.3:
                ops.append(r.choice(("ss", "sc", "mr", "ss")))
            elif x < 0.55 and not pending:
                ops.append(r.choice(("ok", "ok", "fl")))
                pending = True
            elif x < 0.8:
                ops.append("dr")
                pending = False
            else:
                ops.append("nx")
        ops.append("dr")
        out.append("H %d %d %d ; %s" % (r.randrange(1000), r.randrange(1000), r.randrange(1000), " ".join(ops)))
    return out


def line(groups, ops, t0=0, scr=None):
    toks = [str(g) + ("s" if scr and i < len(scr) and scr[i] else "") for i, g in enumerate(groups)]
    return "T %d G %d %s ; %s" % (t0, len(groups), " ".join(toks), " ".join(ops))


def rand_scrapable(r, groups):
    p = r.choice((0.0, 0.3, 0.6, 1.0))
    return [r.random() < p for _ in groups]


def rand_scrape_op(r):
    x = r.random()
    if x < 0.55:
        return "sr:%d" % r.choice((0, 0, 1, 5, 10, 590, 599, 600, 601, 1790, 1800))
    return "nxs"


def rand_deferred(r, k, pfail):
    x = r.random()
    if x < 0.45:
        return "dr"
    tgt = rand_target(r, k)
    if r.random() < pfail:
        return "dfl:%s" % tgt if r.random() < 0.8 else "dfi:%s:%d:%d" % (tgt, rand_iv(r), rand_mv(r))
    return "dok:%s:%d:%d:0" % (tgt, rand_iv(r), rand_mv(r))


EX_ALPHA = ["ST", "ss", "SP", "sc", "mr", "rq", "fl:b", "ok:b:600:3000:0", "nx", "td:0", "in:0s", "sr:0", "dok:b:600:300:0", "dr"]


def gen(seed, tier):
    r = random.Random(seed)
    cases = []
    stats = {"corpus": 0, "hand": 0, "client": 0, "primitive": 0, "boundary": 0, "exhaustive": 0}
    cdir = os.path.join(os.path.dirname(os.path.dirname(os.path.abspath(__file__))), "corpus", "C13")
    if os.path.isdir(cdir):
        for f in sorted(os.listdir(cdir)):
            for l in open(os.path.join(cdir, f)):
                l = l.strip()
                if l and not l.startswith("#"):
                    cases.append(l)
                    stats["corpus"] += 1
    for h in HAND:
        cases.append(h)
        stats["hand"] += 1
    for b in boundary_cases(r):
        cases.append(line(*b))
        stats["boundary"] += 1
    nclient, nprim = (1500, 700) if tier == "quick" else (12000, 6000)
    for _ in range(nclient):
        g, ops = client_stream(r, r.choice((8, 15, 25, 40, 60)))
        cases.append(line(g, ops, r.choice((0, 0, 1, 999999, r.randrange(1000000))), rand_scrapable(r, g)))
        stats["client"] += 1
    for _ in range(nprim):
        g, ops = primitive_stream(r, r.choice((6, 12, 25, 60)))
        cases.append(line(g, ops, r.choice((0, r.randrange(1000000))), rand_scrapable(r, g)))
        stats["primitive"] += 1
    for u in udp_cases(r, 25 if tier == "quick" else 200):
        cases.append(u)
        stats["udp_wire"] = stats.get("udp_wire", 0) + 1
    for hcase in http_cases(r, 6 if tier == "quick" else 40):
        cases.append(hcase)
        stats["http_stale_callback"] = stats.get("http_stale_callback", 0) + 1
    for d in download_cases(r, 40 if tier == "quick" else 400):
        cases.append(d)
        stats["download_api"] = stats.get("download_api", 0) + 1
    if tier != "quick":
        # every op list of length <= 4 over the full alphabet, of length 5 over the announce-only part of it
        core = [o for o in EX_ALPHA if o not in ("sr:0", "dok:b:600:300:0", "dr")]
        for n in range(1, 6):
            for tup in itertools.product(EX_ALPHA if n <= 4 else core, repeat=n):
                ops = []
                for o in tup:
                    ops += ["sp", "di"] if o == "SPDI" else [o]
                cases.append(line([0, 1], ops, 0, [True, False]))
                stats["exhaustive"] += 1
        stats["exhaustive_scope"] = "all op lists of length <= 4 over %r and of length 5 over %r, 2 trackers in 2 tiers (tier 0 scrapable)" % (EX_ALPHA, core)
    hist = {}
    for c in cases:
        n = len(c.split(" ; ", 1)[1].split()) if " ; " in c else 0
        b = "ops<=5" if n <= 5 else "ops<=15" if n <= 15 else "ops<=30" if n <= 30 else "ops>30"
        hist[b] = hist.get(b, 0) + 1
    stats["length_hist"] = hist
    return cases, stats


if __name__ == "__main__":
    import sys
    cs, st = gen(int(sys.argv[1]) if len(sys.argv) > 1 else 1, sys.argv[2] if len(sys.argv) > 2 else "quick")
    print("\n".join(cs))
