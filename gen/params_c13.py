"""C13: tracker interval clamps, back-off table and controller timer constants, re-extracted from
/repo on every run (see gen/params.py). A declaration that is no longer found yields 0 and the
params_ok_now obligation of C13 fails."""
import re


def _prod(m):
    v = 1
    for f in m.group(1).split("*"):
        v *= int(f.strip())
    return v


_H = "src/torrent/tracker/tracker_state.h"
_C = "src/torrent/tracker/tracker_state.cc"
_T = "src/tracker/tracker_controller.cc"

def _enum_pos(name):
    """position of an enumerator inside `enum event_enum { ... }` (enumerators without initialisers)"""
    def conv(m):
        names = [x.strip() for x in m.group(1).split(",") if x.strip()]
        if any("=" in x for x in names):
            raise ValueError("explicit enumerator values")
        return names.index(name)
    return conv


_E = r"enum event_enum \{([^}]*)\}"
_U = "src/tracker/tracker_udp.cc"

ENTRIES = [
    # numeric values of TrackerState::event_enum; TrackerUdp::prepare_announce writes m_send_state raw as the
    # BEP-15 event code (trk_udp_event_raw = 1 iff that line is still there)
    ("trk_event_none", _H, _E, "Z", _enum_pos("EVENT_NONE")),
    ("trk_event_completed", _H, _E, "Z", _enum_pos("EVENT_COMPLETED")),
    ("trk_event_started", _H, _E, "Z", _enum_pos("EVENT_STARTED")),
    ("trk_event_stopped", _H, _E, "Z", _enum_pos("EVENT_STOPPED")),
    ("trk_udp_event_raw", _U, r"buffer\.write_32\((m_send_state)\);", "Z", lambda m: 1),
    ("trk_default_min_interval", _H, r"\bdefault_min_interval\s*=\s*([\d\s*]+)s;", "Z", _prod),
    ("trk_min_min_interval", _H, r"\bmin_min_interval\s*=\s*([\d\s*]+)s;", "Z", _prod),
    ("trk_max_min_interval", _H, r"\bmax_min_interval\s*=\s*([\d\s*]+)s;", "Z", _prod),
    ("trk_default_normal_interval", _H, r"\bdefault_normal_interval\s*=\s*([\d\s*]+)s;", "Z", _prod),
    ("trk_min_normal_interval", _H, r"\bmin_normal_interval\s*=\s*([\d\s*]+)s;", "Z", _prod),
    ("trk_max_normal_interval", _H, r"\bmax_normal_interval\s*=\s*([\d\s*]+)s;", "Z", _prod),
    # failed_time_next():  shift = min(failed_counter - 1, uint32_t(CAP));  min((BASE << shift) * 1s, min_min_interval)
    ("trk_backoff_shift_cap", _C, r"failed_counter - 1, uint32_t\((\d+)\)\)", "Z"),
    ("trk_backoff_base", _C, r"std::min\(\((\d+) << shift\) \* 1s, min_min_interval\)", "Z"),
    # TrackerList::send_scrape(): no scrape within N s of the last one
    ("trk_scrape_min_gap", "src/tracker/tracker_list.cc", r"scrape_time_last\(\)\) \+ (\d+)s;", "Z"),
    # tracker_next_timeout_promiscuous(): max(min_interval, FLOOR s)
    ("trk_promisc_floor", _T, r"std::max\(tracker_state\.min_interval\(\), (\d+)s\)", "Z"),
    # send_start_event(): second usable tracker -> promiscuous mode after N seconds
    ("trk_start_promisc_timeout", _T, r"m_flags \|= flag_promiscuous_mode;\s*update_timeout\((\d+)\);", "Z"),
    # receive_success(): requesting mode -> next round after N seconds
    ("trk_requesting_success_timeout", _T, r"if \(\(m_flags & flag_requesting\)\)\s*update_timeout\((\d+)\);", "Z"),
]
