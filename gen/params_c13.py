"""C13: tracker interval clamps, back-off table, controller timer constants and event codes.

The values are PROBED FROM THE COMPILED CODE of the tree under check (ROBUSTNESS.md rule 3):
  * `harness/c13.cc --params` prints the static constants and enumerator values it was compiled against;
  * behavioural constants (back-off table, promiscuous floor, the 3 s / 30 s controller timers, the scrape gap)
    are measured by running the real TrackerController on short scripted histories (the harness' own T cases).
The source-text regexes are kept only as a fallback when probing is impossible (harness does not build), and
for `trk_udp_event_raw`, which is a statement about the text of tracker_udp.cc (it may legitimately be absent:
the obligation event_codes_bep15 is conditional on it, the UDP wire cases check the codes behaviourally)."""
import os
import re
import subprocess
import sys

_H = "src/torrent/tracker/tracker_state.h"
_C = "src/torrent/tracker/tracker_state.cc"
_T = "src/tracker/tracker_controller.cc"
_U = "src/tracker/tracker_udp.cc"
_L = "src/tracker/tracker_list.cc"
_E = r"enum event_enum \{([^}]*)\}"

_cache = {}


def _run(binary, lines, args=()):
    r = subprocess.run([binary] + list(args), input=("\n".join(lines) + "\n").encode(), stdout=subprocess.PIPE,
                       stderr=subprocess.PIPE, timeout=120,
                       env=dict(os.environ, ASAN_OPTIONS="detect_leaks=0"))
    return r.stdout.decode().split("\n")[:-1]


def _seg(line, i):
    f = line.split(" | ")[i].split(" ")
    return dict(now=int(f[0]), tmo=None if f[2] == "-" else int(f[2]), trs=f[5], scr=f[7])


def _cache_file(ltv):
    return os.path.join(ltv.BUILD, "params_c13-%s.json" % ltv.repo_tree_hash())


def probe(build=False):
    """dict name -> int. With build=False (the converters below, which may run inside another property's Coq
    lock) only a previously stored probe of this very tree is used; props/c13.py calls probe(build=True) before
    it asks for the Coq build. {} if nothing is available: the converters then fall back to the source text."""
    import json
    sys.path.insert(0, os.path.join(os.path.dirname(os.path.dirname(os.path.abspath(__file__))), "lib"))
    import ltv
    key = ltv.repo_tree_hash()
    if key in _cache:
        return _cache[key]
    cf = _cache_file(ltv)
    if os.path.exists(cf):
        try:
            _cache[key] = json.load(open(cf))
            return _cache[key]
        except Exception:
            pass
    if not build:
        return {}
    out = {}
    try:
        h = ltv.build_harness("c13", ["c13.cc"])
        for l in _run(h, [], ["--params"]):
            k, _, v = l.partition("=")
            out[k] = int(v)
        S = 1000000
        # send_start_event with two usable trackers: promiscuous mode after N s
        a = _run(h, ["T 0 G 2 0 0 ; en ss"])[0]
        out["trk_start_promisc_timeout"] = (_seg(a, 1)["tmo"] - _seg(a, 1)["now"]) // S
        # receive_success in requesting mode: next round after N s
        a = _run(h, ["T 0 G 1 0 ; en rq ad:0 ok:0:1800:600:0"])[0]
        out["trk_requesting_success_timeout"] = (_seg(a, 3)["tmo"] - _seg(a, 3)["now"]) // S
        # requesting mode, success with a huge interval and the smallest min interval: wait = max(min interval, FLOOR)
        a = _run(h, ["T 0 G 1 0 ; en ss ok:0:28800:0:0 rq ad:0"])[0]
        out["trk_promisc_floor"] = (_seg(a, 4)["tmo"] - _seg(a, 4)["now"]) // S
        # back-off table: k consecutive failures of the only tracker -> retry after table[k-1] s
        ops = ["en", "ss"] + ["fl:0", "nx"] * 12
        a = _run(h, ["T 0 G 1 0 ; " + " ".join(ops)])[0]
        table = []
        for k in range(12):
            sg = _seg(a, 2 + 2 * k)
            table.append((sg["tmo"] - sg["now"]) // S)
        base, mm = table[0], out["trk_min_min_interval"]
        cap = 0
        while (base << cap) < mm and cap < 40:
            cap += 1
        if base > 0 and all(table[k] == min(base << min(k, cap), mm) for k in range(12)):
            out["trk_backoff_base"], out["trk_backoff_shift_cap"] = base, cap
        # scrape gap: smallest g such that a scrape is sent g s after the previous scrape reply (binary search)
        def scraped(g):
            a = _run(h, ["T 0 G 1 0s ; en sr:0 ad:0 ok:b:0:0:0 ok:b:0:0:0 ad:%d sr:0 ad:0" % (g * S)])[0]
            return _seg(a, 7)["scr"] != "S"
        lo, hi = 0, 1 << 17
        if scraped(hi) and not scraped(lo):
            while hi - lo > 1:
                mid = (lo + hi) // 2
                if scraped(mid):
                    hi = mid
                else:
                    lo = mid
            out["trk_scrape_min_gap"] = hi
    except Exception as e:      # harness does not build / run: fall back to the source text
        sys.stderr.write("[params_c13] probing failed (%s); falling back to source text\n" % (str(e)[:200],))
    _cache[key] = out
    if out:
        try:
            tmp = cf + ".%d.tmp" % os.getpid()
            json.dump(out, open(tmp, "w"))
            os.replace(tmp, cf)
        except OSError:
            pass
    return out


def _prod(m):
    v = 1
    for f in m.group(1).split("*"):
        v *= int(f.strip())
    return v


def _enum_pos(name):
    def conv(m):
        names = [x.strip() for x in m.group(1).split(",") if x.strip()]
        if any("=" in x for x in names):
            raise ValueError("explicit enumerator values")
        return names.index(name)
    return conv


def _probed(name, rx, conv=None):
    """(regex, converter): the regex only has to locate the file; the value comes from the compiled code, the old
    source-text extraction is the fallback"""
    def f(m):
        p = probe()
        if name in p:
            return p[name]
        m2 = re.search(rx, m.string, flags=re.S)
        if not m2:
            raise ValueError("not found")
        return conv(m2) if conv else int(m2.group(1))
    return r"\A(.)", f


def _entry(name, rel, rx, conv=None):
    r, f = _probed(name, rx, conv)
    return (name, rel, r, "Z", f)


ENTRIES = [
    _entry("trk_event_none", _H, _E, _enum_pos("EVENT_NONE")),
    _entry("trk_event_completed", _H, _E, _enum_pos("EVENT_COMPLETED")),
    _entry("trk_event_started", _H, _E, _enum_pos("EVENT_STARTED")),
    _entry("trk_event_stopped", _H, _E, _enum_pos("EVENT_STOPPED")),
    # statement about the source text (cross-check that may be absent)
    ("trk_udp_event_raw", _U, r"\A(.)", "Z", lambda m: 1 if re.search(r"buffer\.write_32\((m_send_state)\);", m.string) else 0),
    _entry("trk_default_min_interval", _H, r"\bdefault_min_interval\s*=\s*([\d\s*]+)s;", _prod),
    _entry("trk_min_min_interval", _H, r"\bmin_min_interval\s*=\s*([\d\s*]+)s;", _prod),
    _entry("trk_max_min_interval", _H, r"\bmax_min_interval\s*=\s*([\d\s*]+)s;", _prod),
    _entry("trk_default_normal_interval", _H, r"\bdefault_normal_interval\s*=\s*([\d\s*]+)s;", _prod),
    _entry("trk_min_normal_interval", _H, r"\bmin_normal_interval\s*=\s*([\d\s*]+)s;", _prod),
    _entry("trk_max_normal_interval", _H, r"\bmax_normal_interval\s*=\s*([\d\s*]+)s;", _prod),
    _entry("trk_backoff_shift_cap", _C, r"failed_counter - 1, uint32_t\((\d+)\)\)"),
    _entry("trk_backoff_base", _C, r"std::min\(\((\d+) << shift\) \* 1s, min_min_interval\)"),
    _entry("trk_scrape_min_gap", _L, r"scrape_time_last\(\)\) \+ (\d+)s;"),
    _entry("trk_promisc_floor", _T, r"std::max\(tracker_state\.min_interval\(\), (\d+)s\)"),
    _entry("trk_start_promisc_timeout", _T, r"m_flags \|= flag_promiscuous_mode;\s*update_timeout\((\d+)\);"),
    _entry("trk_requesting_success_timeout", _T, r"if \(\(m_flags & flag_requesting\)\)\s*update_timeout\((\d+)\);"),
]
