#!/bin/sh
# Run once after a fresh restore (offline): build the instrumented library from /repo's working
# tree and compile the whole Coq development. Every check rebuilds what it needs anyway.
set -e
cd "$(dirname "$0")"
python3 - <<'PY'
import sys
sys.path.insert(0, "lib")
import ltv, subprocess, os
ltv.build_lib("asan")
with ltv.Lock("coq"):
    ltv.coq_prepare()
    r = subprocess.run(["timeout", "3000", "make", "-k", "-j%d" % ltv.NCPU], cwd=ltv.COQ)
print("setup done")
PY
