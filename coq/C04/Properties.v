(* C04 — theorems (statements only; proofs in Proofs*.v). *)
From Coq Require Import NArith List Bool.
From LTV.C04 Require Import ParamsGen Model Proofs ProofsTrace ProofsVoid ProofsLive ProofsSlots ProofsEndgame ProofsFair ProofsReissue.
Import ListNotations.
Open Scope N_scope.

Theorem request_legal : forall plen total comp w evs s p i o l s',
  run (init plen total comp w) evs = Some s ->
  accept s (SRequest p i o l) = Some s' ->
  exists c, get_conn s p = Some c /\
    valid_block s i o l = true /\
    getb (c_have c) i = true /\
    getb (s_completed s) i = false /\
    mem_blk i o (s_fin s) = false /\
    (memN i (s_active s) = true \/ getb (s_wanted s) i = true).
Proof. exact Proofs.request_legal. Qed.
Print Assumptions request_legal.

Theorem valid_block_bounds : forall s i o l, valid_block s i o l = true ->
  i < npieces s /\ o mod block_size = 0 /\ o + l <= piece_size s i /\ 0 < l /\ l <= block_size.
Proof. exact Proofs.valid_block_bounds. Qed.
Print Assumptions valid_block_bounds.

Theorem no_duplicate_outstanding : forall s p i o l s',
  accept s (SRequest p i o l) = Some s' ->
  exists c, get_conn s p = Some c /\
    forall e, In e (all_entries c) -> e_i e = i -> e_o e = o -> e_valid e = false.
Proof. exact Proofs.no_duplicate_at_request. Qed.
Print Assumptions no_duplicate_outstanding.

Theorem not_while_choked_or_uninterested : forall plen total comp w evs s p i o l s',
  run (init plen total comp w) evs = Some s ->
  accept s (SRequest p i o l) = Some s' ->
  (exists before after, evs = before ++ SInterested p :: after /\ Forall (int_neutral p) after) /\
  (exists before after, evs = before ++ Unchoke p :: after /\ Forall (unch_neutral p) after).
Proof. exact ProofsTrace.request_preceded_by_interested_and_unchoke. Qed.
Print Assumptions not_while_choked_or_uninterested.

Theorem voided_reissued_disconnect : forall s p cp q cq i o l s',
  get_conn s p = Some cp -> accept s (Disc p) = Some s' -> p <> q ->
  get_conn s q = Some cq -> c_interested cq = true -> c_unchoked cq = true ->
  valid_block s i o l = true -> getb (c_have cq) i = true -> getb (s_completed s) i = false ->
  (memN i (s_active s) = true \/ getb (s_wanted s) i = true) ->
  mem_blk i o (s_fin s) = false -> holds cq i o = false -> listed_any cq i o = false ->
  not_stalled s i o = not_stalled_in cp i o ->
  exists s'', accept s' (SRequest q i o l) = Some s''.
Proof. exact ProofsVoid.reissue_after_disconnect. Qed.
Print Assumptions voided_reissued_disconnect.

Theorem voided_reissued_choke : forall s p c s', get_conn s p = Some c -> accept s (Choke p) = Some s' ->
  exists c', get_conn s' p = Some c' /\ c_unchoked c' = false /\ c_q c' = [] /\ c_u c' = [] /\
    (forall e, In e (c_q c ++ c_u c) -> In e (c_c c')).
Proof. exact ProofsVoid.voided_by_choke. Qed.
Print Assumptions voided_reissued_choke.

Theorem voided_reissued_choke_timer : forall s p c s', get_conn s p = Some c -> accept s (DropChoked p) = Some s' ->
  exists c', get_conn s' p = Some c' /\ c_c c' = [] /\ c_q c' = c_q c /\ c_u c' = c_u c /\ c_s c' = c_s c.
Proof. exact ProofsVoid.released_by_choke_timer. Qed.
Print Assumptions voided_reissued_choke_timer.

Theorem voided_reissued_stall : forall s p c t s', get_conn s p = Some c -> accept s (StallTick p t) = Some s' ->
  exists c', get_conn s' p = Some c' /\ c_q c' = [] /\ c_u c' = [] /\
    forall e, In e (map mark_stalled (c_q c) ++ map mark_stalled (c_u c)) -> In e (c_s c') /\ (e_valid e = true -> e_stalled e = true).
Proof. exact ProofsVoid.voided_by_stall. Qed.
Print Assumptions voided_reissued_stall.

Theorem never_queued_behind_stale : forall s p i o l s',
  accept s (SRequest p i o l) = Some s' ->
  exists c, get_conn s p = Some c /\
    forall e, In e (c_q c ++ c_u c ++ c_s c ++ c_c c) -> ~ (e_i e = i /\ e_o e = o).
Proof. exact Proofs.never_queued_behind_stale. Qed.
Print Assumptions never_queued_behind_stale.



Theorem no_fatal : forall plen total comp w evs s p i o l s',
  run (init plen total comp w) evs = Some s ->
  accept s (SRequest p i o l) = Some s' ->
  exists c, get_conn s p = Some c /\ try_request_fatal s c i o l = false.
Proof. exact Proofs.no_fatal. Qed.
Print Assumptions no_fatal.

Theorem eventually_requested_partial : forall s p c i o l,
  get_conn s p = Some c -> c_interested c = true -> c_unchoked c = true ->
  valid_block s i o l = true -> getb (c_have c) i = true -> getb (s_completed s) i = false ->
  getb (s_wanted s) i = true -> mem_blk i o (s_fin s) = false -> holds c i o = false -> listed_any c i o = false ->
  not_stalled s i o = 0 ->
  exists s', accept s (SRequest p i o l) = Some s' /\ memN i (s_active s') = true.
Proof. exact ProofsVoid.eventually_requested_partial. Qed.
Print Assumptions eventually_requested_partial.

Theorem fin_progress : forall s i s', accept s (Fin i) = Some s' ->
  count_true (s_completed s') = count_true (s_completed s) + 1.
Proof. exact ProofsVoid.fin_progress. Qed.
Print Assumptions fin_progress.

Theorem wire_no_duplicate_refuted :
  exists pre mid s, run s0 (pre ++ SRequest 0 0 0 16384 :: mid ++ [SRequest 0 0 0 16384]) = Some s /\
                    forallb (wire_neutral 0 0 0) mid = true.
Proof. exact ProofsVoid.wire_no_duplicate_refuted. Qed.
Print Assumptions wire_no_duplicate_refuted.

Theorem request_wanted_now_refuted :
  exists evs s s', run s0 evs = Some s /\ accept s (SRequest 0 0 16384 16384) = Some s' /\ getb (s_wanted s) 0 = false.
Proof. exact ProofsVoid.request_wanted_now_refuted. Qed.
Print Assumptions request_wanted_now_refuted.

(* ---- what the repaired liveness mechanisms guarantee (liveness layer xaccept over the same traces) ---- *)
Theorem xrun_refines_run : forall evs x x', xrun x evs = Some x' -> run (x_s x) evs = Some (x_s x').
Proof. exact ProofsLive.xrun_run. Qed.
Print Assumptions xrun_refines_run.

Theorem interested_unchoked_is_queued : fix_update_interested_queues = true ->
  forall plen total comp w evs x p c,
  xrun (xinit plen total comp w) evs = Some x ->
  get_conn (x_s x) p = Some c -> dint x p = true -> c_unchoked c = true -> dq x p = true.
Proof. exact ProofsLive.interested_unchoked_is_queued. Qed.
Print Assumptions interested_unchoked_is_queued.

Theorem have_raises_interest : fix_have_listed_raises = true ->
  forall x p c i x', inv_queued x ->
  get_conn (x_s x) p = Some c -> xaccept x (Have p i) = Some x' ->
  getb (c_have c) i = false -> all_done (x_s x) = false ->
  getb (s_completed (x_s x)) i = false ->
  (memN i (s_active (x_s x)) = true \/ getb (s_wanted (x_s x)) i = true) ->
  (p < length (x_dl x))%nat ->
  dint x' p = true /\ (c_unchoked c = true -> dq x' p = true).
Proof. exact ProofsLive.have_raises_interest. Qed.
Print Assumptions have_raises_interest.

Theorem choke_leaves_nothing_live : choke_checks_stalled = true ->
  forall s p c s', get_conn s p = Some c -> accept s (Choke p) = Some s' ->
  exists c', get_conn s' p = Some c' /\ c_q c' = [] /\ c_u c' = [] /\ c_s c' = [] /\
    (forall e, In e (c_q c ++ c_u c ++ c_s c) -> In e (c_c c')).
Proof. exact ProofsLive.choke_leaves_nothing_live. Qed.
Print Assumptions choke_leaves_nothing_live.

Theorem choke_then_timer_empty : choke_checks_stalled = true ->
  forall s p c s1 s2, get_conn s p = Some c -> accept s (Choke p) = Some s1 -> accept s1 (DropChoked p) = Some s2 ->
  exists c2, get_conn s2 p = Some c2 /\ c_q c2 = [] /\ c_u c2 = [] /\ c_s c2 = [] /\ c_c c2 = [].
Proof. exact ProofsLive.choke_then_timer_empty. Qed.
Print Assumptions choke_then_timer_empty.

Theorem pipe_counts_only_valid : forall pipe : bool -> N -> N, (forall aggr rate, 1 <= pipe aggr rate) ->
  fix_pipe_counts_valid = true ->
  forall c aggr rate, (forall e, In e (c_q c) -> e_valid e = false) ->
  pipe_has_room c (pipe aggr rate) = true.
Proof. exact ProofsLive.pipe_counts_only_valid. Qed.
Print Assumptions pipe_counts_only_valid.

Theorem interest_loss_justified : forall x p x', xaccept x (LoseInterest p) = Some x' ->
  exists c, get_conn (x_s x) p = Some c /\ dint x p = true /\ c_unchoked c = true /\
    interested_in_active (x_s x) c = false /\
    (delegatable (x_s x) c = false \/ 0 < queued_for_pipe c \/ min_gate <= pipe_size c).
Proof. exact ProofsLive.interest_loss_justified. Qed.
Print Assumptions interest_loss_justified.

Theorem interest_kept_while_requestable : fix_pipe_counts_valid = true ->
  forall x p c i k, get_conn (x_s x) p = Some c ->
  (N.to_nat i < length (s_completed (x_s x)))%nat -> (k < N.to_nat (nblocks (x_s x) i))%nat ->
  blk_ok (x_s x) c i (N.of_nat k * block_size) = true ->
  (forall e, In e (c_q c) -> e_valid e = false) -> pipe_size c < min_gate ->
  xaccept x (LoseInterest p) = None.
Proof. exact ProofsLive.interest_kept_while_requestable. Qed.
Print Assumptions interest_kept_while_requestable.

(* repairs (A), (C), (D) are in the current sources. Repair (E) (pipe counts only valid transfers) was committed and
   reverted again (a2b5039: it let a new request queue behind a stale cancelled one): the (E) theorems stay conditional
   on fix_pipe_counts_valid and class no-completion-cancelled-pipe is a listed finding. *)
Theorem fixes_present_now :
  fix_update_interested_queues = true /\ fix_have_listed_raises = true /\ choke_checks_stalled = true.
Proof. exact ProofsLive.fixes_present_now. Qed.
Print Assumptions fixes_present_now.

(* ---- own download slots only gate requests ---- *)
Theorem own_slot_gates_requests : forall y p i o l y', yaccept y (SRequest p i o l) = Some y' -> dun y p = true.
Proof. exact ProofsSlots.own_slot_gates_requests. Qed.
Print Assumptions own_slot_gates_requests.

Theorem own_unchoke_needs_queue : forall y p y', yaccept y (QueueUnchoke p) = Some y' -> dq (y_x y) p = true.
Proof. exact ProofsSlots.own_unchoke_needs_queue. Qed.
Print Assumptions own_unchoke_needs_queue.

Theorem own_unchoke_revoked : forall y ev p y',
  (ev = Choke p \/ ev = LoseInterest p \/ ev = QueueChoke p \/ ev = Disc p) ->
  yaccept y ev = Some y' -> dun y' p = false.
Proof. exact ProofsSlots.own_unchoke_revoked. Qed.
Print Assumptions own_unchoke_revoked.

Theorem not_while_choked_with_slots : forall plen total comp w evs y p i o l y',
  yrun (yinit plen total comp w) evs = Some y ->
  yaccept y (SRequest p i o l) = Some y' ->
  (exists before after, evs = before ++ SInterested p :: after /\ Forall (int_neutral p) after) /\
  (exists before after, evs = before ++ Unchoke p :: after /\ Forall (unch_neutral p) after) /\
  dun y p = true /\ dint (y_x y) p = true.
Proof. exact ProofsSlots.not_while_choked_with_slots. Qed.
Print Assumptions not_while_choked_with_slots.

(* ---- endgame ---- *)
Theorem endgame_cancels_losers : forall s p cp e s',
  get_conn s p = Some cp -> c_t cp = Some e -> e_valid e = true -> piece_end s p = Some s' ->
  mem_blk (e_i e) (e_o e) (s_fin s') = true /\
  forall q cq, q <> p -> get_conn s q = Some cq ->
    exists cq', get_conn s' q = Some cq' /\
      (forall e', In e' (all_entries cq') -> same_blk (e_i e) (e_o e) e' = true -> e_valid e' = false) /\
      c_cancels cq' = c_cancels cq ++ repeat (e_i e, e_o e) (n_valid (e_i e) (e_o e) (c_q cq ++ c_u cq ++ c_s cq ++ c_c cq)).
Proof. exact ProofsEndgame.endgame_cancels_losers. Qed.
Print Assumptions endgame_cancels_losers.

Theorem overlap_bounded_at_request : forall s p i o l s', accept s (SRequest p i o l) = Some s' ->
  (s_aggr s = false -> not_stalled s i o = 0) /\ (s_aggr s = true -> not_stalled s i o < overlapped).
Proof. exact ProofsEndgame.overlap_bounded_at_request. Qed.
Print Assumptions overlap_bounded_at_request.

Theorem cancel_only_queued : forall s p i o l s', accept s (SCancel p i o l) = Some s' ->
  exists c r, get_conn s p = Some c /\ c_cancels c = (i, o) :: r.
Proof. exact ProofsEndgame.cancel_only_queued. Qed.
Print Assumptions cancel_only_queued.

(* ---- eventually_requested: the client-internal steps QueueUnchoke, SInterested, SRequest are enabled in sequence.
   Remains _partial (hypotheses, not theorems): (F1) the scheduler is fair to these three steps (choke_queue really gives
   the slot to a queued connection: its rotation policy, cf. the finding class no-completion-queue-choked-unqueued and the
   slot-starvation observation; ticks keep firing; the write buffer has room); (F2) the environment keeps the hypotheses
   true until they are taken (the peer stays connected and unchoking; if another connection takes the block first the
   piece is requested anyway); (F3) `dint` is up: given at connect, by have_raises_interest and update_interested, and
   not dropped while the block is delegatable (interest_kept_while_requestable, conditional on repair (E)); (F4) holders of
   the block stall or are voided (voided_reissued_*: state predicates, the timers are observed events). ---- *)
Theorem eventually_requested : forall y p c i o l,
  let x := y_x y in let s := x_s x in
  get_conn s p = Some c ->
  c_unchoked c = true -> getb (c_have c) i = true -> getb (s_completed s) i = false ->
  (memN i (s_active s) = true \/ getb (s_wanted s) i = true) ->
  dint x p = true -> dq x p = true ->
  valid_block s i o l = true -> mem_blk i o (s_fin s) = false -> holds c i o = false -> listed_any c i o = false ->
  not_stalled s i o = 0 ->
  (p < length (x_dl x))%nat -> (p < length (y_du y))%nat ->
  exists y', yrun y [QueueUnchoke p; SInterested p; SRequest p i o l] = Some y' /\
             Forall (client_step p) [QueueUnchoke p; SInterested p; SRequest p i o l] /\
             memN i (s_active (x_s (y_x y'))) = true.
Proof. exact ProofsFair.eventually_requested. Qed.
Print Assumptions eventually_requested.

(* ---- (F4) as theorems: the holder of the block is voided by CHOKE + the 6 s timer, or by a disconnect, and the block is
   re-issued at another connection q within a bounded number of accepted steps of the FULL acceptor (yaccept).
   The explicit fair trace is the list in the conclusion: the peer's CHOKE, the delay_remove_choked timer, then the three
   client-internal steps of eventually_requested at q. Needs repair (D) (choke_checks_stalled, present: fixes_present_now).
   Still hypotheses: (F1) scheduler fairness, (F2) environment stability, (F3) dint. The stall path of (F4) follows below
   (reissued_after_stall). ---- *)
Theorem choke_timer_frees_block : choke_checks_stalled = true ->
  forall s p c s1 s2 i o, get_conn s p = Some c -> c_t c = None ->
  accept s (Choke p) = Some s1 -> accept s1 (DropChoked p) = Some s2 ->
  not_stalled s i o = not_stalled_in c i o ->
  not_stalled s2 i o = 0 /\
  (forall q, p <> q -> get_conn s2 q = get_conn s q) /\
  s_completed s2 = s_completed s /\ s_active s2 = s_active s /\ s_fin s2 = s_fin s /\ s_wanted s2 = s_wanted s /\
  s_plen s2 = s_plen s /\ s_total s2 = s_total s /\ s_aggr s2 = s_aggr s.
Proof. exact ProofsReissue.choke_timer_frees_block. Qed.
Print Assumptions choke_timer_frees_block.

Theorem reissued_after_choke_timeout : choke_checks_stalled = true ->
  forall y p cp q cq i o l,
  let x := y_x y in let s := x_s x in
  p <> q -> get_conn s p = Some cp -> c_t cp = None ->
  not_stalled s i o = not_stalled_in cp i o ->
  get_conn s q = Some cq ->
  c_unchoked cq = true -> getb (c_have cq) i = true -> getb (s_completed s) i = false ->
  (memN i (s_active s) = true \/ getb (s_wanted s) i = true) ->
  dint x q = true -> dq x q = true ->
  valid_block s i o l = true -> mem_blk i o (s_fin s) = false -> holds cq i o = false -> listed_any cq i o = false ->
  (q < length (x_dl x))%nat -> (q < length (y_du y))%nat ->
  exists y', yrun y [Choke p; DropChoked p; QueueUnchoke q; SInterested q; SRequest q i o l] = Some y' /\
             memN i (s_active (x_s (y_x y'))) = true.
Proof. exact ProofsReissue.reissued_after_choke_timeout. Qed.
Print Assumptions reissued_after_choke_timeout.

Theorem reissued_after_disconnect : forall y p cp q cq i o l,
  let x := y_x y in let s := x_s x in
  p <> q -> get_conn s p = Some cp ->
  not_stalled s i o = not_stalled_in cp i o ->
  get_conn s q = Some cq ->
  c_unchoked cq = true -> getb (c_have cq) i = true -> getb (s_completed s) i = false ->
  (memN i (s_active s) = true \/ getb (s_wanted s) i = true) ->
  dint x q = true -> dq x q = true ->
  valid_block s i o l = true -> mem_blk i o (s_fin s) = false -> holds cq i o = false -> listed_any cq i o = false ->
  (q < length (x_dl x))%nat -> (q < length (y_du y))%nat ->
  exists y', yrun y [Disc p; QueueUnchoke q; SInterested q; SRequest q i o l] = Some y' /\
             memN i (s_active (x_s (y_x y'))) = true.
Proof. exact ProofsReissue.reissued_after_disconnect. Qed.
Print Assumptions reissued_after_disconnect.

(* stall path of (F4): the stall tick (stall_initial / stall_prolonged, StallTick p true) on the only holder p frees the block;
   4 accepted steps to the REQUEST at q. Hypothesis stalled_ok cp (a valid entry of p's stalled bucket carries the stalled
   mark: what the stall ticks themselves establish) is a state predicate here; stalled_ok_reachable below proves it for
   every state reached by an accepted trace (reissued_after_stall_reachable). *)
Theorem stall_frees_block : forall s p c s' i o, get_conn s p = Some c -> c_c c = [] -> stalled_ok c ->
  accept s (StallTick p true) = Some s' ->
  not_stalled s i o = not_stalled_in c i o ->
  not_stalled s' i o = 0 /\
  (forall q, p <> q -> get_conn s' q = get_conn s q) /\
  s_completed s' = s_completed s /\ s_active s' = s_active s /\ s_fin s' = s_fin s /\ s_wanted s' = s_wanted s /\
  s_plen s' = s_plen s /\ s_total s' = s_total s /\ s_aggr s' = s_aggr s.
Proof. exact ProofsReissue.stall_frees_block. Qed.
Print Assumptions stall_frees_block.

Theorem reissued_after_stall : forall y p cp q cq i o l,
  let x := y_x y in let s := x_s x in
  p <> q -> get_conn s p = Some cp -> c_c cp = [] -> stalled_ok cp ->
  not_stalled s i o = not_stalled_in cp i o ->
  get_conn s q = Some cq ->
  c_unchoked cq = true -> getb (c_have cq) i = true -> getb (s_completed s) i = false ->
  (memN i (s_active s) = true \/ getb (s_wanted s) i = true) ->
  dint x q = true -> dq x q = true ->
  valid_block s i o l = true -> mem_blk i o (s_fin s) = false -> holds cq i o = false -> listed_any cq i o = false ->
  (q < length (x_dl x))%nat -> (q < length (y_du y))%nat ->
  exists y', yrun y [StallTick p true; QueueUnchoke q; SInterested q; SRequest q i o l] = Some y' /\
             memN i (s_active (x_s (y_x y'))) = true.
Proof. exact ProofsReissue.reissued_after_stall. Qed.
Print Assumptions reissued_after_stall.

(* stalled_ok is an invariant of every accepted trace, so the hypothesis disappears for reachable states *)
Theorem stalled_ok_reachable : forall plen total comp w evs y p cp,
  yrun (yinit plen total comp w) evs = Some y -> get_conn (x_s (y_x y)) p = Some cp -> stalled_ok cp.
Proof. exact ProofsReissue.stalled_ok_reachable. Qed.
Print Assumptions stalled_ok_reachable.

Theorem reissued_after_stall_reachable : forall plen total comp w evs y p cp q cq i o l,
  yrun (yinit plen total comp w) evs = Some y ->
  let x := y_x y in let s := x_s x in
  p <> q -> get_conn s p = Some cp -> c_c cp = [] ->
  not_stalled s i o = not_stalled_in cp i o ->
  get_conn s q = Some cq ->
  c_unchoked cq = true -> getb (c_have cq) i = true -> getb (s_completed s) i = false ->
  (memN i (s_active s) = true \/ getb (s_wanted s) i = true) ->
  dint x q = true -> dq x q = true ->
  valid_block s i o l = true -> mem_blk i o (s_fin s) = false -> holds cq i o = false -> listed_any cq i o = false ->
  (q < length (x_dl x))%nat -> (q < length (y_du y))%nat ->
  exists y', yrun y [StallTick p true; QueueUnchoke q; SInterested q; SRequest q i o l] = Some y' /\
             memN i (s_active (x_s (y_x y'))) = true.
Proof. exact ProofsReissue.reissued_after_stall_reachable. Qed.
Print Assumptions reissued_after_stall_reachable.

Theorem params_ok_now : params_ok = true.
Proof. exact Proofs.params_ok_now. Qed.
Print Assumptions params_ok_now.
