(* C04 proofs, part 5: the client's OWN download slots (ResourceManager::max_download_unchoked, choke_queue) only
   gate requests: a REQUEST needs the own unchoke, the own unchoke is only ever given to a queued connection, and the
   peer-choke theorem (not_while_choked_or_uninterested) holds unchanged for traces with QueueChoke/QueueUnchoke. *)
From Coq Require Import NArith List Bool Lia Arith.
From LTV.C04 Require Import ParamsGen Model Proofs ProofsTrace ProofsVoid ProofsLive.
Import ListNotations.
Open Scope N_scope.

Lemma yaccept_xaccept : forall y ev y', yaccept y ev = Some y' -> xaccept (y_x y) ev = Some (y_x y').
Proof.
  intros y ev y' H. destruct ev; cbn [yaccept] in H;
    repeat match type of H with
           | option_map _ ?o = _ => destruct o eqn:?; cbn in H; [|discriminate]
           | (if ?b then _ else _) = _ => destruct b; [|discriminate]
           end; inversion H; subst; reflexivity.
Qed.

Lemma yrun_xrun : forall evs y y', yrun y evs = Some y' -> xrun (y_x y) evs = Some (y_x y').
Proof.
  induction evs; intros y y' H; cbn in *.
  - inversion H. reflexivity.
  - destruct (yaccept y a) eqn:A; [|discriminate]. rewrite (yaccept_xaccept _ _ _ A). apply IHevs. assumption.
Qed.

(* should_request: no REQUEST without the own unchoke *)
Theorem own_slot_gates_requests : forall y p i o l y', yaccept y (SRequest p i o l) = Some y' -> dun y p = true.
Proof. intros y p i o l y' H. cbn [yaccept] in H. destruct (dun y p); [reflexivity|discriminate]. Qed.

(* the own unchoke is only ever GIVEN to a member of the download choke queue (choke_queue unchokes queued connections) *)
Theorem own_unchoke_needs_queue : forall y p y', yaccept y (QueueUnchoke p) = Some y' -> dq (y_x y) p = true.
Proof.
  intros y p y' H. cbn [yaccept xaccept] in H. destruct (get_conn (x_s (y_x y)) p); cbn in H; [|discriminate].
  destruct (dq (y_x y) p); [reflexivity|discriminate].
Qed.

Lemma du_set_same : forall y x' p v, dun (set_du y x' p v) p = v \/ dun (set_du y x' p v) p = false.
Proof. intros. unfold dun, set_du. cbn. apply nth_set_nth_eq. Qed.

(* a CHOKE from the peer, the interest drop, and the queue's own choke all take the own unchoke away *)
Theorem own_unchoke_revoked : forall y ev p y',
  (ev = Choke p \/ ev = LoseInterest p \/ ev = QueueChoke p \/ ev = Disc p) ->
  yaccept y ev = Some y' -> dun y' p = false.
Proof.
  intros y ev p y' E H. destruct E as [E|[E|[E|E]]]; subst ev; cbn [yaccept] in H;
    repeat match type of H with
           | (if ?b then _ else _) = _ => destruct b; [|discriminate]
           | option_map _ ?o = _ => destruct o eqn:?; cbn in H; [|discriminate]
           end; inversion H; subst; destruct (du_set_same y x p false) as [K|K]; exact K.
Qed.

(* the peer-choke theorem is untouched by the slot logic: in every trace accepted by the full acceptor (own slots
   included) a REQUEST to p is preceded by INTERESTED to p with no later NOT_INTERESTED, and by UNCHOKE from p with no
   later CHOKE -- QueueChoke / QueueUnchoke are neutral events for both -- and additionally needs the own unchoke. *)
Theorem not_while_choked_with_slots : forall plen total comp w evs y p i o l y',
  yrun (yinit plen total comp w) evs = Some y ->
  yaccept y (SRequest p i o l) = Some y' ->
  (exists before after, evs = before ++ SInterested p :: after /\ Forall (int_neutral p) after) /\
  (exists before after, evs = before ++ Unchoke p :: after /\ Forall (unch_neutral p) after) /\
  dun y p = true /\ dint (y_x y) p = true.
Proof.
  intros plen total comp w evs y p i o l y' R A.
  pose proof (xrun_run _ _ _ (yrun_xrun _ _ _ R)) as R0. cbn in R0.
  pose proof (xaccept_accept _ _ _ (yaccept_xaccept _ _ _ A)) as A0.
  destruct (request_preceded_by_interested_and_unchoke _ _ _ _ _ _ _ _ _ _ _ R0 A0) as [H1 H2].
  split; [assumption|]. split; [assumption|]. split; [eapply own_slot_gates_requests; eassumption|].
  pose proof (yaccept_xaccept _ _ _ A) as AX. cbn [xaccept] in AX. destruct (dint (y_x y) p); [reflexivity|discriminate].
Qed.

Example ex_slots : exists y, yrun (yinit 32768 98304 [false; false; false] t3)
    [Join 0 t3; Join 1 t3; SInterested 0; SInterested 1; Unchoke 0; Unchoke 1; QueueUnchoke 0; SRequest 0 1 0 16384;
     QueueChoke 0; QueueUnchoke 1; SRequest 1 2 0 16384] = Some y /\ dun y 0%nat = false /\ dun y 1%nat = true.
Proof. eexists. split; [vm_compute; reflexivity|]. split; vm_compute; reflexivity. Qed.
