(* C04 proofs, part 8: hypothesis (F4) of eventually_requested as theorems about the model.
   "Holders of the block stall or are voided": when connection p is the only un-stalled holder of block (i,o) and the
   peer chokes the client (RequestList::choked) and the 6 s timer fires (delay_remove_choked), or p disconnects
   (RequestList::clear), the block's m_notStalled count is 0 again, nothing else in the state of another connection q
   moves, and the three client-internal steps of eventually_requested are enabled at q. The result is a
   BOUNDED-STEPS statement over the full acceptor (yaccept: buckets + interest/queue flags + own slots): the explicit
   traces  [Choke p; DropChoked p; QueueUnchoke q; SInterested q; SRequest q i o l]  (5 steps) and
   [Disc p; QueueUnchoke q; SInterested q; SRequest q i o l]  (4 steps)  are accepted and end with the piece listed. *)
From Coq Require Import NArith List Bool Lia Arith.
From LTV.C04 Require Import ParamsGen Model Proofs ProofsTrace ProofsVoid ProofsLive ProofsSlots ProofsFair.
Import ListNotations.
Open Scope N_scope.

(* ---------- m_notStalled when one connection's request list is replaced ---------- *)
Lemma ns_replace : forall l p c c' i o, nth_error l p = Some (Some c) ->
  not_stalled_sum (set_nth l p (Some c')) i o + not_stalled_in c i o = not_stalled_sum l i o + not_stalled_in c' i o.
Proof.
  induction l as [|x l IH]; intros p c c' i o H; destruct p; cbn in *; try discriminate.
  - inversion H. subst. lia.
  - destruct x as [c0|]; specialize (IH _ _ c' i o H); lia.
Qed.

Lemma ns_empty : forall c i o, c_q c = [] -> c_u c = [] -> c_s c = [] -> c_c c = [] -> c_t c = None ->
  not_stalled_in c i o = 0.
Proof. intros c i o Q U S C T. unfold not_stalled_in, all_entries. rewrite Q, U, S, C, T. reflexivity. Qed.

(* ---------- shape of the state after CHOKE and after the choke timer ---------- *)
Lemma choke_form : forall s p c s', get_conn s p = Some c -> accept s (Choke p) = Some s' ->
  exists c1, s' = set_conn s p (Some c1) /\ c_t c1 = c_t c /\
    (choke_checks_stalled = true -> c_q c1 = [] /\ c_u c1 = [] /\ c_s c1 = []).
Proof.
  intros s p c s' G A. cbn [accept] in A. rewrite G in A.
  destruct (c_q c) as [|eq lq] eqn:Q; destruct (c_u c) as [|eu lu] eqn:U;
    destruct (if choke_checks_stalled then c_s c else []) as [|es ls] eqn:S3; inversion A; subst s';
    eexists; (split; [reflexivity|]); (split; [reflexivity|]); intros FD; rewrite FD in S3;
    cbn [c_q c_u c_s]; repeat split; try reflexivity; try assumption.
Qed.

Lemma drop_form : forall s p c s', get_conn s p = Some c -> accept s (DropChoked p) = Some s' ->
  exists c2, s' = set_conn s p (Some c2) /\ c_t c2 = c_t c /\ c_q c2 = c_q c /\ c_u c2 = c_u c /\ c_s c2 = c_s c /\ c_c c2 = [].
Proof.
  intros s p c s' G A. cbn [accept] in A. rewrite G in A. inversion A. subst s'.
  eexists. split; [reflexivity|]. cbn. repeat split.
Qed.

Lemma get_conn_set_same : forall s p c x, get_conn s p = Some c -> get_conn (set_conn s p (Some x)) p = Some x.
Proof.
  intros s p c x G. pose proof (get_conn_lt _ _ _ G) as L. unfold get_conn, set_conn. cbn.
  rewrite nth_error_set_nth_eq by assumption. reflexivity.
Qed.

(* (F4), choke path, at the level of `accept`: p the only un-stalled holder, not in the middle of a PIECE *)
Theorem choke_timer_frees_block : choke_checks_stalled = true ->
  forall s p c s1 s2 i o, get_conn s p = Some c -> c_t c = None ->
  accept s (Choke p) = Some s1 -> accept s1 (DropChoked p) = Some s2 ->
  not_stalled s i o = not_stalled_in c i o ->
  not_stalled s2 i o = 0 /\
  (forall q, p <> q -> get_conn s2 q = get_conn s q) /\
  s_completed s2 = s_completed s /\ s_active s2 = s_active s /\ s_fin s2 = s_fin s /\ s_wanted s2 = s_wanted s /\
  s_plen s2 = s_plen s /\ s_total s2 = s_total s /\ s_aggr s2 = s_aggr s.
Proof.
  intros FD s p c s1 s2 i o G T A1 A2 Hn.
  destruct (choke_form _ _ _ _ G A1) as (c1 & E1 & T1 & B1). destruct (B1 FD) as (Q1 & U1 & S1). subst s1.
  pose proof (get_conn_set_same _ _ _ c1 G) as G1.
  destruct (drop_form _ _ _ _ G1 A2) as (c2 & E2 & T2 & Q2 & U2 & S2 & C2). subst s2.
  split; [|split; [|repeat split]].
  - unfold not_stalled in *. cbn.
    pose proof (ns_replace _ _ _ c1 i o (proj1 (get_conn_nth _ _ _) G)) as R1.
    pose proof (ns_replace _ _ _ c2 i o (proj1 (get_conn_nth _ _ _) G1)) as R2. cbn in R2.
    assert (Z : not_stalled_in c2 i o = 0) by (apply ns_empty; congruence). lia.
  - intros q Hq. rewrite !get_conn_set_other by assumption. reflexivity.
Qed.

(* ---------- the flag tables of the liveness layers: only p's row moves ---------- *)
Lemma yaccept_choke : forall y p c, get_conn (x_s (y_x y)) p = Some c ->
  exists s1, accept (x_s (y_x y)) (Choke p) = Some s1 /\
    yaccept y (Choke p) =
      Some (set_du y (set_dl (y_x y) s1 p (dint (y_x y) p || (fix_choke_restores_interest && dq (y_x y) p), false)) p false).
Proof.
  intros y p c G. destruct (accept (x_s (y_x y)) (Choke p)) as [s1|] eqn:A.
  - exists s1. split; [reflexivity|]. cbn [yaccept xaccept]. rewrite A. reflexivity.
  - cbn [accept] in A. rewrite G in A.
    destruct (c_q c); destruct (c_u c); destruct (if choke_checks_stalled then c_s c else []); discriminate.
Qed.

Lemma yaccept_drop : forall y p s', accept (x_s (y_x y)) (DropChoked p) = Some s' ->
  yaccept y (DropChoked p) = Some (mkY (mkX s' (x_dl (y_x y))) (y_du y)).
Proof. intros y p s' A. cbn [yaccept xaccept]. rewrite A. reflexivity. Qed.

Lemma yaccept_disc : forall y p s', accept (x_s (y_x y)) (Disc p) = Some s' ->
  yaccept y (Disc p) = Some (set_du y (set_dl (y_x y) s' p (false, false)) p false).
Proof. intros y p s' A. cbn [yaccept xaccept]. rewrite A. reflexivity. Qed.

Lemma tables_other : forall y s' p q v w, p <> q ->
  let y' := set_du y (set_dl (y_x y) s' p v) p w in
  dint (y_x y') q = dint (y_x y) q /\ dq (y_x y') q = dq (y_x y) q /\
  length (x_dl (y_x y')) = length (x_dl (y_x y)) /\ length (y_du y') = length (y_du y).
Proof.
  intros y s' p q v w Hpq. cbn. unfold dint, dq. rewrite dl_set_other by assumption.
  repeat split; apply set_nth_length.
Qed.

(* ---------- the frame: everything eventually_requested needs at q survives the voiding of p ---------- *)
Lemma reissue_from_frame : forall y y2 q cq i o l,
  let s := x_s (y_x y) in let s2 := x_s (y_x y2) in
  get_conn s q = Some cq -> get_conn s2 q = Some cq ->
  s_completed s2 = s_completed s -> s_active s2 = s_active s -> s_fin s2 = s_fin s -> s_wanted s2 = s_wanted s ->
  s_plen s2 = s_plen s -> s_total s2 = s_total s ->
  dint (y_x y2) q = dint (y_x y) q -> dq (y_x y2) q = dq (y_x y) q ->
  length (x_dl (y_x y2)) = length (x_dl (y_x y)) -> length (y_du y2) = length (y_du y) ->
  not_stalled s2 i o = 0 ->
  c_unchoked cq = true -> getb (c_have cq) i = true -> getb (s_completed s) i = false ->
  (memN i (s_active s) = true \/ getb (s_wanted s) i = true) ->
  dint (y_x y) q = true -> dq (y_x y) q = true ->
  valid_block s i o l = true -> mem_blk i o (s_fin s) = false -> holds cq i o = false -> listed_any cq i o = false ->
  (q < length (x_dl (y_x y)))%nat -> (q < length (y_du y))%nat ->
  exists y', yrun y2 [QueueUnchoke q; SInterested q; SRequest q i o l] = Some y' /\
             memN i (s_active (x_s (y_x y'))) = true.
Proof.
  intros y y2 q cq i o l s s2 G G2 Ec Ea Ef Ew Ep Et Ed Eq Lx Ly Hn Hu Hh Hc Hw Hd Hq V Hf Ho Hla L1 L2.
  assert (V2 : valid_block s2 i o l = true).
  { unfold valid_block, piece_size, npieces in *. rewrite Ec, Ep, Et. exact V. }
  destruct (eventually_requested y2 q cq i o l) as (y' & R & _ & M); try assumption; try congruence.
  - fold s2. rewrite Ec. assumption.
  - fold s2. rewrite Ea, Ew. assumption.
  - fold s2. rewrite Ef. assumption.
  - exists y'. split; assumption.
Qed.

(* ---------- (F4) choke path: 5 accepted steps from "p alone holds the block" to the REQUEST at q ---------- *)
Theorem reissued_after_choke_timeout : choke_checks_stalled = true ->
  forall y p cp q cq i o l,
  let x := y_x y in let s := x_s x in
  p <> q -> get_conn s p = Some cp -> c_t cp = None ->
  not_stalled s i o = not_stalled_in cp i o ->            (* p is the only un-stalled holder of the block *)
  get_conn s q = Some cq ->
  c_unchoked cq = true -> getb (c_have cq) i = true -> getb (s_completed s) i = false ->
  (memN i (s_active s) = true \/ getb (s_wanted s) i = true) ->
  dint x q = true -> dq x q = true ->
  valid_block s i o l = true -> mem_blk i o (s_fin s) = false -> holds cq i o = false -> listed_any cq i o = false ->
  (q < length (x_dl x))%nat -> (q < length (y_du y))%nat ->
  exists y', yrun y [Choke p; DropChoked p; QueueUnchoke q; SInterested q; SRequest q i o l] = Some y' /\
             memN i (s_active (x_s (y_x y'))) = true.
Proof.
  intros FD y p cp q cq i o l x s Hpq Gp T Hn Gq Hu Hh Hc Hw Hd Hq V Hf Ho Hla L1 L2.
  destruct (yaccept_choke y p cp Gp) as (s1 & A1 & Y1).
  destruct (choke_form _ _ _ _ Gp A1) as (c1 & E1 & _ & _).
  assert (G1 : get_conn s1 p = Some c1) by (subst s1; eapply get_conn_set_same; exact Gp).
  destruct (accept s1 (DropChoked p)) as [s2|] eqn:A2; [|cbn [accept] in A2; rewrite G1 in A2; discriminate].
  set (y1 := set_du y (set_dl (y_x y) s1 p (dint (y_x y) p || (fix_choke_restores_interest && dq (y_x y) p), false)) p false) in *.
  assert (Y2 : yaccept y1 (DropChoked p) = Some (mkY (mkX s2 (x_dl (y_x y1))) (y_du y1))) by (apply yaccept_drop; exact A2).
  destruct (choke_timer_frees_block FD s p cp s1 s2 i o Gp T A1 A2 Hn) as (N2 & Fr & Ec & Ea & Ef & Ew & Ep & Et & _).
  destruct (tables_other y s1 p q (dint (y_x y) p || (fix_choke_restores_interest && dq (y_x y) p), false) false Hpq)
    as (Td & Tq & Tl1 & Tl2). fold y1 in Td, Tq, Tl1, Tl2.
  destruct (reissue_from_frame y (mkY (mkX s2 (x_dl (y_x y1))) (y_du y1)) q cq i o l) as (y' & R & M); try assumption.
  - cbn. rewrite Fr by assumption. exact Gq.
  - exists y'. split; [|exact M].
    change [Choke p; DropChoked p; QueueUnchoke q; SInterested q; SRequest q i o l]
      with ([Choke p; DropChoked p] ++ [QueueUnchoke q; SInterested q; SRequest q i o l]).
    cbn [yrun app]. rewrite Y1. fold y1. rewrite Y2. exact R.
Qed.

(* ---------- (F4) disconnect path: 4 accepted steps ---------- *)
Theorem reissued_after_disconnect : forall y p cp q cq i o l,
  let x := y_x y in let s := x_s x in
  p <> q -> get_conn s p = Some cp ->
  not_stalled s i o = not_stalled_in cp i o ->
  get_conn s q = Some cq ->
  c_unchoked cq = true -> getb (c_have cq) i = true -> getb (s_completed s) i = false ->
  (memN i (s_active s) = true \/ getb (s_wanted s) i = true) ->
  dint x q = true -> dq x q = true ->
  valid_block s i o l = true -> mem_blk i o (s_fin s) = false -> holds cq i o = false -> listed_any cq i o = false ->
  (q < length (x_dl x))%nat -> (q < length (y_du y))%nat ->
  exists y', yrun y [Disc p; QueueUnchoke q; SInterested q; SRequest q i o l] = Some y' /\
             memN i (s_active (x_s (y_x y'))) = true.
Proof.
  intros y p cp q cq i o l x s Hpq Gp Hn Gq Hu Hh Hc Hw Hd Hq V Hf Ho Hla L1 L2.
  assert (A1 : accept s (Disc p) = Some (set_conn s p None)) by (cbn [accept]; rewrite Gp; reflexivity).
  destruct (voided_by_disconnect _ _ _ _ Gp A1) as (_ & Fr & Hns & Ec & Ea & Ef & Ew).
  pose proof (yaccept_disc y p _ A1) as Y1.
  set (y1 := set_du y (set_dl (y_x y) (set_conn s p None) p (false, false)) p false) in *.
  destruct (tables_other y (set_conn s p None) p q (false, false) false Hpq) as (Td & Tq & Tl1 & Tl2).
  fold y1 in Td, Tq, Tl1, Tl2.
  destruct (reissue_from_frame y y1 q cq i o l) as (y' & R & M); try assumption; try reflexivity.
  - cbn. fold s. rewrite Fr by assumption. exact Gq.
  - change (not_stalled (set_conn s p None) i o = 0). specialize (Hns i o). lia.
  - exists y'. split; [|exact M]. cbn [yrun]. rewrite Y1. exact R.
Qed.

(* ---------- satisfiability: both theorems' hypotheses hold in a reachable state of the full acceptor ---------- *)
Definition y0r := yinit 32768 98304 [false; false; false] t3.
Definition reissue_prefix : list event :=
  [Join 0 t3; Join 1 t3; Unchoke 0; Unchoke 1; QueueUnchoke 0; SInterested 0; SRequest 0 1 0 16384].

Example ex_reissue_hyps : exists y cp cq,
  yrun y0r reissue_prefix = Some y /\
  get_conn (x_s (y_x y)) 0%nat = Some cp /\ c_t cp = None /\
  not_stalled (x_s (y_x y)) 1 0 = not_stalled_in cp 1 0 /\ not_stalled (x_s (y_x y)) 1 0 = 1 /\
  get_conn (x_s (y_x y)) 1%nat = Some cq /\ c_unchoked cq = true /\ getb (c_have cq) 1 = true /\
  dint (y_x y) 1%nat = true /\ dq (y_x y) 1%nat = true /\
  valid_block (x_s (y_x y)) 1 0 16384 = true /\ holds cq 1 0 = false /\ listed_any cq 1 0 = false.
Proof. do 3 eexists. repeat (match goal with |- _ /\ _ => split end); vm_compute; reflexivity. Qed.

Example ex_reissue_choke_run : exists y',
  yrun y0r (reissue_prefix ++ [Choke 0; DropChoked 0; QueueUnchoke 1; SInterested 1; SRequest 1 1 0 16384]) = Some y'.
Proof. eexists. vm_compute. reflexivity. Qed.

Example ex_reissue_disc_run : exists y',
  yrun y0r (reissue_prefix ++ [Disc 0; QueueUnchoke 1; SInterested 1; SRequest 1 1 0 16384]) = Some y'.
Proof. eexists. vm_compute. reflexivity. Qed.

(* ---------- (F4) stall path: stall_initial / stall_prolonged (StallTick p true) ---------- *)
(* what the stall ticks establish for their own bucket: a valid entry of bucket_stalled carries the stalled mark *)
Definition stalled_ok (c : conn) : Prop := forall e, In e (c_s c) -> e_valid e = true -> e_stalled e = true.

Lemma ns_all_stalled : forall c i o,
  (forall e, In e (all_entries c) -> e_valid e = true -> e_stalled e = true) -> not_stalled_in c i o = 0.
Proof.
  intros c i o H. unfold not_stalled_in.
  assert (E : filter (fun e => same_blk i o e && e_valid e && negb (e_stalled e)) (all_entries c) = []).
  { induction (all_entries c) as [|e l IH]; [reflexivity|]. cbn [filter].
    assert (F : same_blk i o e && e_valid e && negb (e_stalled e) = false).
    { destruct (e_valid e) eqn:V; [rewrite (H e (or_introl eq_refl) V)|]; destruct (same_blk i o e); reflexivity. }
    rewrite F. apply IH. intros e0 I0. apply H. right. exact I0. }
  rewrite E. reflexivity.
Qed.

Lemma mark_stalled_ok : forall e, e_valid (mark_stalled e) = true -> e_stalled (mark_stalled e) = true.
Proof. intros e. unfold mark_stalled. destruct (e_valid e) eqn:V; cbn; [reflexivity|]. rewrite V. discriminate. Qed.

Theorem stall_frees_block : forall s p c s' i o, get_conn s p = Some c -> c_c c = [] -> stalled_ok c ->
  accept s (StallTick p true) = Some s' ->
  not_stalled s i o = not_stalled_in c i o ->
  not_stalled s' i o = 0 /\
  (forall q, p <> q -> get_conn s' q = get_conn s q) /\
  s_completed s' = s_completed s /\ s_active s' = s_active s /\ s_fin s' = s_fin s /\ s_wanted s' = s_wanted s /\
  s_plen s' = s_plen s /\ s_total s' = s_total s /\ s_aggr s' = s_aggr s.
Proof.
  intros s p c s' i o G C K A Hn. cbn [accept] in A. rewrite G in A. inversion A. subst s'. clear A.
  split; [|split; [|repeat split]].
  - unfold not_stalled in *. cbn.
    match goal with |- not_stalled_sum (set_nth _ _ (Some ?c')) _ _ = 0 =>
      pose proof (ns_replace _ _ _ c' i o (proj1 (get_conn_nth _ _ _) G)) as R;
      assert (Z : not_stalled_in c' i o = 0) end.
    { apply ns_all_stalled. unfold all_entries. cbn. rewrite C. cbn. intros e I.
      rewrite !in_app_iff in I. destruct I as [[I|[I|I]]|I].
      - apply K. exact I.
      - apply in_map_iff in I. destruct I as (e0 & <- & _). apply mark_stalled_ok.
      - apply in_map_iff in I. destruct I as (e0 & <- & _). apply mark_stalled_ok.
      - destruct (c_t c) as [e0|]; cbn in I; [|contradiction]. destruct I as [<-|[]]. apply mark_stalled_ok. }
    lia.
  - intros q Hq. rewrite get_conn_set_other by assumption. reflexivity.
Qed.

Lemma yaccept_stall : forall y p t s', accept (x_s (y_x y)) (StallTick p t) = Some s' ->
  yaccept y (StallTick p t) = Some (mkY (mkX s' (x_dl (y_x y))) (y_du y)).
Proof. intros y p t s' A. cbn [yaccept xaccept]. rewrite A. reflexivity. Qed.

(* 4 accepted steps: the stall tick on the only holder p, then the three client-internal steps at q *)
Theorem reissued_after_stall : forall y p cp q cq i o l,
  let x := y_x y in let s := x_s x in
  p <> q -> get_conn s p = Some cp -> c_c cp = [] -> stalled_ok cp ->
  not_stalled s i o = not_stalled_in cp i o ->
  get_conn s q = Some cq ->
  c_unchoked cq = true -> getb (c_have cq) i = true -> getb (s_completed s) i = false ->
  (memN i (s_active s) = true \/ getb (s_wanted s) i = true) ->
  dint x q = true -> dq x q = true ->
  valid_block s i o l = true -> mem_blk i o (s_fin s) = false -> holds cq i o = false -> listed_any cq i o = false ->
  (q < length (x_dl x))%nat -> (q < length (y_du y))%nat ->
  exists y', yrun y [StallTick p true; QueueUnchoke q; SInterested q; SRequest q i o l] = Some y' /\
             memN i (s_active (x_s (y_x y'))) = true.
Proof.
  intros y p cp q cq i o l x s Hpq Gp C K Hn Gq Hu Hh Hc Hw Hd Hq V Hf Ho Hla L1 L2.
  destruct (accept s (StallTick p true)) as [s1|] eqn:A1; [|cbn [accept] in A1; rewrite Gp in A1; discriminate].
  pose proof (yaccept_stall y p true s1 A1) as Y1.
  destruct (stall_frees_block s p cp s1 i o Gp C K A1 Hn) as (N1 & Fr & Ec & Ea & Ef & Ew & Ep & Et & _).
  destruct (reissue_from_frame y (mkY (mkX s1 (x_dl (y_x y))) (y_du y)) q cq i o l) as (y' & R & M); try assumption; try reflexivity.
  - cbn. rewrite Fr by assumption. exact Gq.
  - exists y'. split; [|exact M]. cbn [yrun]. rewrite Y1. exact R.
Qed.

Example ex_reissue_stall_hyps : exists y cp,
  yrun y0r reissue_prefix = Some y /\ get_conn (x_s (y_x y)) 0%nat = Some cp /\ c_c cp = [] /\ stalled_ok cp /\
  not_stalled (x_s (y_x y)) 1 0 = not_stalled_in cp 1 0.
Proof. do 2 eexists. split; [vm_compute; reflexivity|]. split; [vm_compute; reflexivity|]. split; [reflexivity|].
  split; [intros e I; cbn in I; contradiction | vm_compute; reflexivity]. Qed.

Example ex_reissue_stall_run : exists y',
  yrun y0r (reissue_prefix ++ [StallTick 0 true; QueueUnchoke 1; SInterested 1; SRequest 1 1 0 16384]) = Some y'.
Proof. eexists. vm_compute. reflexivity. Qed.

(* ---------- stalled_ok is an invariant of every accepted trace ---------- *)
Definition inv_stalled (s : state) : Prop := allc stalled_ok (s_conns s).

Lemma in_remove_ix : forall A (l : list A) k e, In e (remove_ix l k) -> In e l.
Proof.
  unfold remove_ix. induction l as [|a l IH]; intros k e I.
  - destruct k; cbn in I; contradiction.
  - destruct k; cbn in I.
    + right. exact I.
    + destruct I as [<-|I]; [left; reflexivity|right; eapply IH; exact I].
Qed.

Lemma downloading_s : forall c i o e, In e (c_s (downloading c i o)) -> In e (c_s c).
Proof.
  intros c i o e. unfold downloading.
  destruct (find_ix i o (c_q c)); cbn; [tauto|].
  destruct (find_ix i o (c_u c)); cbn; [tauto|].
  destruct (find_ix i o (c_s c)); cbn; [apply in_remove_ix|].
  destruct (find_ix i o (c_c c)); cbn; tauto.
Qed.

Lemma stalled_ok_invalidate : forall i o c, stalled_ok c -> stalled_ok (invalidate_conn i o c).
Proof.
  unfold stalled_ok, invalidate_conn. cbn. intros i o c H e1 I V. apply in_map_iff in I. destruct I as (e0 & E & I0).
  unfold inval in E. destruct (same_blk i o e0 && e_valid e0); subst e1; cbn in *; [discriminate|]. apply H; assumption.
Qed.

Lemma piece_begin_stalled : forall s p i o l s', inv_stalled s -> piece_begin s p i o l = Some s' -> inv_stalled s'.
Proof.
  intros s p i o l s' H A. unfold piece_begin in A. destruct (get_conn s p) as [c|] eqn:G; [|discriminate].
  destruct (c_t c); [discriminate|]. destruct (c_t (downloading c i o)); [|discriminate].
  match type of A with (if ?b then _ else _) = _ => destruct b end; [discriminate|]. inversion A. unfold inv_stalled. cbn.
  apply allc_set; [assumption|]. intros c0 E. inversion E. pose proof (allc_get _ _ _ _ H G) as Hc.
  intros e9 I V. apply Hc; [eapply downloading_s; exact I|exact V].
Qed.

Lemma piece_end_stalled : forall s p s', inv_stalled s -> piece_end s p = Some s' -> inv_stalled s'.
Proof.
  intros s p s' H A. unfold piece_end in A. destruct (get_conn s p) as [c|] eqn:G; [|discriminate].
  destruct (c_t c) as [e|]; [|discriminate]. pose proof (allc_get _ _ _ _ H G) as Hc.
  assert (H1 : allc stalled_ok (set_nth (s_conns s) p (Some (with_t c None)))).
  { apply allc_set; [assumption|]. intros c0 E. inversion E. exact Hc. }
  destruct (e_valid e); inversion A; unfold inv_stalled; cbn; [|exact H1].
  unfold invalidate_all. apply allc_map; [intros; apply stalled_ok_invalidate; assumption|exact H1].
Qed.

Ltac keep_s H G A := let Hc := fresh "Hc" in
  pose proof (allc_get _ _ _ _ H G) as Hc; inversion A; unfold inv_stalled; cbn; (apply allc_set; [assumption|]);
  let c0 := fresh "c0" in let E := fresh "E" in intros c0 E; inversion E; unfold stalled_ok in *; cbn; try assumption.

Lemma accept_stalled : forall s ev s', inv_stalled s -> accept s ev = Some s' -> inv_stalled s'.
Proof.
  intros s ev s' H A. destruct ev; cbn [accept] in A;
    try (eapply piece_begin_stalled; eassumption); try (eapply piece_end_stalled; eassumption).
  - (* Join *) destruct (nth_error (s_conns s) p) as [[|]|]; try discriminate.
    destruct (Nat.eqb _ _); [|discriminate]. inversion A. unfold inv_stalled. cbn.
    apply allc_set; [assumption|]. intros c E. inversion E. unfold stalled_ok. cbn. intros e [].
  - (* Have *) conn_case s p G. destruct (i <? npieces s); [|discriminate]. keep_s H G A.
  - (* Choke *) conn_case s p G.
    destruct (c_q c), (c_u c), (if choke_checks_stalled then c_s c else []); keep_s H G A; intros ? [].
  - (* Unchoke *) conn_case s p G. keep_s H G A.
  - (* Piece *) destruct (piece_begin s p i o l) as [s1|] eqn:B; [|discriminate].
    eapply piece_end_stalled; [|eassumption]. eapply piece_begin_stalled; eassumption.
  - (* Disc *) conn_case s p G. inversion A. unfold inv_stalled. cbn. apply allc_set; [assumption|]. intros; discriminate.
  - (* Advance *) inversion A. subst. assumption.
  - (* Wanted *) destruct (Nat.eqb _ _); [|discriminate]. inversion A. assumption.
  - (* SInterested *) conn_case s p G. keep_s H G A.
  - (* SNotInterested *) conn_case s p G. keep_s H G A.
  - (* SRequest *) conn_case s p G.
    match type of A with (if ?b then _ else _) = _ => destruct b end; [|discriminate]. keep_s H G A.
  - (* SCancel *) conn_case s p G.
    destruct (c_cancels c) as [|[i' o'] r]; [discriminate|]. destruct ((i' =? i) && (o' =? o)); [|discriminate]. keep_s H G A.
  - (* Fin *) match type of A with (if ?b then _ else _) = _ => destruct b end; [|discriminate]. inversion A. assumption.
  - (* DropChoked *) conn_case s p G. keep_s H G A.
  - (* DropUnordered *) conn_case s p G. destruct (Nat.leb _ _); [|discriminate]. keep_s H G A.
  - (* StallTick *) conn_case s p G. keep_s H G A.
    intros e9 I V. rewrite !in_app_iff in I. destruct I as [I|[I|I]]; [auto| |];
      apply in_map_iff in I; destruct I as (e8 & <- & _); apply mark_stalled_ok; exact V.
  - (* Endgame *) inversion A. assumption.
  - (* LoseInterest *) conn_case s p G. inversion A. subst. assumption.
  - (* QueueChoke *) conn_case s p G. inversion A. subst. assumption.
  - (* QueueUnchoke *) conn_case s p G. inversion A. subst. assumption.
  - (* SnapConn *) conn_case s p G. match type of A with (if ?b then _ else _) = _ => destruct b end; [|discriminate]. inversion A. subst. assumption.
  - (* SnapGlobal *) match type of A with (if ?b then _ else _) = _ => destruct b end; [|discriminate]. inversion A. subst. assumption.
Qed.

Lemma init_stalled : forall plen total comp w, inv_stalled (init plen total comp w).
Proof.
  unfold inv_stalled, init, allc. cbn. intros plen total comp w p c H.
  do 4 (destruct p; cbn in H; [discriminate|]). destruct p; discriminate.
Qed.

(* for every trace accepted by the full acceptor from the initial state, every connection satisfies stalled_ok *)
Theorem stalled_ok_reachable : forall plen total comp w evs y p cp,
  yrun (yinit plen total comp w) evs = Some y -> get_conn (x_s (y_x y)) p = Some cp -> stalled_ok cp.
Proof.
  intros plen total comp w evs y p cp R G. apply yrun_xrun in R. apply xrun_run in R. cbn in R.
  eapply allc_get; [|exact G]. eapply (run_inv inv_stalled accept_stalled); [apply init_stalled|exact R].
Qed.

(* reissued_after_stall without the stalled_ok hypothesis, for reachable states *)
Theorem reissued_after_stall_reachable : forall plen total comp w evs y p cp q cq i o l,
  yrun (yinit plen total comp w) evs = Some y ->
  let x := y_x y in let s := x_s x in
  p <> q -> get_conn s p = Some cp -> c_c cp = [] ->
  not_stalled s i o = not_stalled_in cp i o ->
  get_conn s q = Some cq ->
  c_unchoked cq = true -> getb (c_have cq) i = true -> getb (s_completed s) i = false ->
  (memN i (s_active s) = true \/ getb (s_wanted s) i = true) ->
  dint x q = true -> dq x q = true ->
  valid_block s i o l = true -> mem_blk i o (s_fin s) = false -> holds cq i o = false -> listed_any cq i o = false ->
  (q < length (x_dl x))%nat -> (q < length (y_du y))%nat ->
  exists y', yrun y [StallTick p true; QueueUnchoke q; SInterested q; SRequest q i o l] = Some y' /\
             memN i (s_active (x_s (y_x y'))) = true.
Proof.
  intros plen total comp w evs y p cp q cq i o l R x s Hpq Gp C. intros.
  eapply reissued_after_stall; try eassumption. eapply stalled_ok_reachable; eassumption.
Qed.
