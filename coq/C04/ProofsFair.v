(* C04 proofs, part 7: eventually_requested. The client's internal steps towards a REQUEST for connection p are
   QueueUnchoke p (choke_queue gives the slot), SInterested p (fill_write_buffer writes the pending INTERESTED) and
   SRequest p .. (try_request_pieces). An abstract FAIR scheduler is one that eventually performs the client-internal
   steps that stay enabled. The theorem shows that from every state that satisfies the statement's hypotheses these
   three steps are enabled IN SEQUENCE and end in the REQUEST, whatever the scheduler did before. *)
From Coq Require Import NArith List Bool Lia Arith.
From LTV.C04 Require Import ParamsGen Model Proofs ProofsTrace ProofsVoid ProofsLive ProofsSlots.
Import ListNotations.
Open Scope N_scope.

Definition client_step (p : nat) (e : event) : Prop :=
  match e with QueueUnchoke q | SInterested q | SRequest q _ _ _ => q = p | _ => False end.

Lemma nth_set_nth_same : forall A (l : list A) p v d, (p < length l)%nat -> nth p (set_nth l p v) d = v.
Proof. induction l; intros p v d H; cbn in *; [lia|]. destruct p; cbn; [reflexivity|]. apply IHl. lia. Qed.

Lemma not_stalled_sum_same_entries : forall l p c c' i o, nth_error l p = Some (Some c) -> all_entries c' = all_entries c ->
  not_stalled_sum (set_nth l p (Some c')) i o = not_stalled_sum l i o.
Proof.
  induction l as [|x l IH]; intros p c c' i o H E; destruct p; cbn in *; try discriminate.
  - inversion H. subst. unfold not_stalled_in. rewrite E. reflexivity.
  - destruct x; rewrite (IH _ _ _ i o H E); reflexivity.
Qed.

Theorem eventually_requested : forall y p c i o l,
  let x := y_x y in let s := x_s x in
  get_conn s p = Some c ->
  (* the peer announced the piece, keeps the client unchoked; the piece is wanted (or listed) and incomplete *)
  c_unchoked c = true -> getb (c_have c) i = true -> getb (s_completed s) i = false ->
  (memN i (s_active s) = true \/ getb (s_wanted s) i = true) ->
  (* the client's interest flag is up and the connection sits in the download choke queue (invariant (A)) *)
  dint x p = true -> dq x p = true ->
  (* the block is there to be asked for: not finished, not listed at p, nobody holds it un-stalled *)
  valid_block s i o l = true -> mem_blk i o (s_fin s) = false -> holds c i o = false -> listed_any c i o = false ->
  not_stalled s i o = 0 ->
  (p < length (x_dl x))%nat -> (p < length (y_du y))%nat ->
  exists y', yrun y [QueueUnchoke p; SInterested p; SRequest p i o l] = Some y' /\
             Forall (client_step p) [QueueUnchoke p; SInterested p; SRequest p i o l] /\
             memN i (s_active (x_s (y_x y'))) = true.
Proof.
  intros y p c i o l x s G Hu Hh Hc Hw Hd Hq V Hf Ho Hla Hn Lx Ly.
  pose proof (get_conn_lt _ _ _ G) as Lc.
  (* step 1: own unchoke *)
  set (x1 := set_dl x s p (true, true)). set (y1 := set_du y x1 p true).
  assert (A1 : yaccept y (QueueUnchoke p) = Some y1).
  { cbn [yaccept xaccept]. fold x. fold s. rewrite G, Hq. reflexivity. }
  (* step 2: INTERESTED on the wire *)
  set (c2 := mkC (c_have c) true (c_unchoked c) (c_q c) (c_u c) (c_s c) (c_c c) (c_t c) (c_cancels c) (c_aff c)).
  set (s2 := set_conn s p (Some c2)). set (x2 := mkX s2 (x_dl x1)). set (y2 := mkY x2 (y_du y1)).
  assert (A2 : yaccept y1 (SInterested p) = Some y2).
  { cbn [yaccept xaccept accept]. unfold y1, x1. cbn. fold s. rewrite G. reflexivity. }
  (* step 3: the REQUEST *)
  assert (G2 : get_conn s2 p = Some c2).
  { unfold get_conn, s2, set_conn. cbn. rewrite nth_error_set_nth_eq by assumption. reflexivity. }
  assert (N2 : not_stalled s2 i o = 0).
  { unfold not_stalled, s2, set_conn. cbn. rewrite (not_stalled_sum_same_entries _ _ c c2); [exact Hn| apply get_conn_nth; exact G | reflexivity]. }
  assert (Hov : 0 < overlapped).
  { exact overlapped_pos. }
  destruct (request_enabled s2 p c2 i o l G2 eq_refl Hu V Hh Hc Hw Hf Ho Hla N2 Hov) as (s3 & A3).
  assert (D2 : dint x2 p = true).
  { unfold dint, dl_get, x2, x1, set_dl. cbn. rewrite nth_set_nth_same by assumption. reflexivity. }
  assert (U2 : dun y2 p = true).
  { unfold dun, y2, y1, set_du. cbn. rewrite nth_set_nth_same by assumption. reflexivity. }
  exists (mkY (mkX s3 (x_dl x2)) (y_du y2)). split; [|split].
  - cbn [yrun]. rewrite A1, A2.
    assert (A3' : yaccept y2 (SRequest p i o l) = Some (mkY (mkX s3 (x_dl x2)) (y_du y2))).
    { cbn [yaccept]. rewrite U2. change (y_x y2) with x2. cbn [xaccept]. rewrite D2. change (x_s x2) with s2. rewrite A3. reflexivity. }
    rewrite A3'. reflexivity.
  - repeat constructor.
  - cbn. cbn [accept] in A3. rewrite G2 in A3.
    match type of A3 with (if ?b then _ else _) = _ => destruct b end; [|discriminate]. inversion A3. cbn.
    clear. induction (s_active s) as [|a r IH]; cbn.
    + rewrite N.eqb_refl. reflexivity.
    + destruct (i <? a) eqn:L; cbn; [rewrite N.eqb_refl; reflexivity|].
      destruct (i =? a) eqn:E; cbn; [rewrite E; reflexivity|]. rewrite E. assumption.
Qed.
