(* C04 proofs, part 6: endgame (aggressive mode). Overlapped requests across connections are bounded by `overlapped`
   at admission, and when a block completes every OTHER connection's entry for it is invalidated and gets a CANCEL
   queued (unless it is that connection's transfer in progress, PeerConnectionBase::cancel_transfer). *)
From Coq Require Import NArith List Bool Lia Arith.
From LTV.C04 Require Import ParamsGen Model Proofs ProofsTrace ProofsVoid.
Import ListNotations.
Open Scope N_scope.

Lemma inval_same : forall i o e, same_blk i o (inval i o e) = true -> e_valid (inval i o e) = false.
Proof.
  intros i o e H. unfold inval in *. destruct (same_blk i o e && e_valid e) eqn:C; cbn in *; [reflexivity|].
  rewrite H in C. cbn in C. assumption.
Qed.

Lemma in_map_inval : forall i o l e', In e' (map (inval i o) l) -> same_blk i o e' = true -> e_valid e' = false.
Proof. intros i o l e' H S. apply in_map_iff in H. destruct H as (e0 & E & _). subst. apply inval_same. assumption. Qed.

Theorem endgame_cancels_losers : forall s p cp e s',
  get_conn s p = Some cp -> c_t cp = Some e -> e_valid e = true -> piece_end s p = Some s' ->
  mem_blk (e_i e) (e_o e) (s_fin s') = true /\
  forall q cq, q <> p -> get_conn s q = Some cq ->
    exists cq', get_conn s' q = Some cq' /\
      (forall e', In e' (all_entries cq') -> same_blk (e_i e) (e_o e) e' = true -> e_valid e' = false) /\
      c_cancels cq' = c_cancels cq ++ repeat (e_i e, e_o e) (n_valid (e_i e) (e_o e) (c_q cq ++ c_u cq ++ c_s cq ++ c_c cq)).
Proof.
  intros s p cp e s' G T V PE. unfold piece_end in PE. rewrite G, T, V in PE. inversion PE; subst s'; clear PE. split.
  - cbn. destruct (mem_blk (e_i e) (e_o e) (s_fin s)) eqn:M; [assumption|]. cbn. rewrite !N.eqb_refl. reflexivity.
  - intros q cq Hq Gq. exists (invalidate_conn (e_i e) (e_o e) cq). split; [|split].
    + unfold get_conn. cbn. unfold invalidate_all. rewrite nth_error_map.
      rewrite nth_error_set_nth_neq by congruence. apply get_conn_nth in Gq. rewrite Gq. reflexivity.
    + intros e' In1 S. unfold all_entries, invalidate_conn in In1. cbn in In1.
      repeat (apply in_app_or in In1; destruct In1 as [In1|In1]); try (eapply in_map_inval; eassumption).
      destruct (c_t cq) as [t|]; cbn in In1; [|contradiction]. destruct In1 as [E|[]]. subst e'. apply inval_same. assumption.
    + reflexivity.
Qed.

(* the exclusivity rule at admission: outside endgame nobody un-stalled holds the block; in endgame fewer than
   `overlapped` connections do *)
Theorem overlap_bounded_at_request : forall s p i o l s', accept s (SRequest p i o l) = Some s' ->
  (s_aggr s = false -> not_stalled s i o = 0) /\ (s_aggr s = true -> not_stalled s i o < overlapped).
Proof.
  intros s p i o l s' A. destruct (srequest_conds _ _ _ _ _ _ A) as (c & _ & _ & _ & _ & _ & _ & _ & _ & _ & X).
  split; intro E; rewrite E in X; [apply N.eqb_eq|apply N.ltb_lt]; assumption.
Qed.

(* a queued CANCEL is the only thing SCancel can send, in queue order *)
Theorem cancel_only_queued : forall s p i o l s', accept s (SCancel p i o l) = Some s' ->
  exists c r, get_conn s p = Some c /\ c_cancels c = (i, o) :: r.
Proof.
  intros s p i o l s' A. cbn [accept] in A. destruct (get_conn s p) as [c|]; [|discriminate].
  destruct (c_cancels c) as [|[i' o'] r] eqn:CC; [discriminate|]. destruct ((i' =? i) && (o' =? o)) eqn:E; [|discriminate].
  apply andb_prop in E. destruct E as [E1 E2]. apply N.eqb_eq in E1, E2. subst. exists c, r. split; [reflexivity|assumption].
Qed.

Example ex_endgame : exists s cp e s' c1,
  run s0 [Endgame; Join 0 t3; Join 1 t3; SInterested 0; SInterested 1; Unchoke 0; Unchoke 1;
          SRequest 0 1 0 16384; SRequest 1 1 0 16384; PieceBegin 0 1 0 16384] = Some s /\
  get_conn s 0%nat = Some cp /\ c_t cp = Some e /\ e_valid e = true /\ piece_end s 0%nat = Some s' /\
  get_conn s' 1%nat = Some c1 /\ c_cancels c1 = [(1, 0)].
Proof.
  do 5 eexists. split; [vm_compute; reflexivity|]. split; [vm_compute; reflexivity|]. split; [vm_compute; reflexivity|].
  split; [vm_compute; reflexivity|]. split; [vm_compute; reflexivity|]. split; vm_compute; reflexivity.
Qed.
