(* C04 proofs, part 1: frame lemmas, the affinity invariant, request_legal, no_fatal,
   no_duplicate (acceptance form), params. *)
From Coq Require Import NArith List Bool Lia Arith.
From LTV.C04 Require Import ParamsGen Model.
Import ListNotations.
Open Scope N_scope.

(* ---------- lists ---------- *)
Lemma nth_error_set_nth_eq : forall A (l : list A) p x, (p < length l)%nat -> nth_error (set_nth l p x) p = Some x.
Proof. induction l; intros p x H; cbn in *; [lia|]. destruct p; cbn; [reflexivity|]. apply IHl. lia. Qed.

Lemma nth_error_set_nth_neq : forall A (l : list A) p q x, p <> q -> nth_error (set_nth l p x) q = nth_error l q.
Proof. induction l; intros p q x H; cbn; [reflexivity|]. destruct p, q; cbn; try reflexivity; try congruence. apply IHl. congruence. Qed.

Lemma set_nth_length : forall A (l : list A) p x, length (set_nth l p x) = length l.
Proof. induction l; intros; cbn; [reflexivity|]. destruct p; cbn; [reflexivity|]. f_equal. apply IHl. Qed.

Lemma get_conn_lt : forall s p c, get_conn s p = Some c -> (p < length (s_conns s))%nat.
Proof. unfold get_conn. intros s p c H. destruct (nth_error (s_conns s) p) eqn:E; [|discriminate]. apply nth_error_Some. congruence. Qed.

Lemma get_conn_nth : forall s p c, get_conn s p = Some c <-> nth_error (s_conns s) p = Some (Some c).
Proof. unfold get_conn. intros. destruct (nth_error (s_conns s) p) as [[x|]|]; split; intro H; try discriminate; congruence. Qed.

(* ---------- a per-connection predicate lifted to the connection table ---------- *)
Section PerConn.
  Variable P : conn -> Prop.
  Definition allc (l : list (option conn)) : Prop := forall p c, nth_error l p = Some (Some c) -> P c.

  Lemma allc_set : forall l p x, allc l -> (forall c, x = Some c -> P c) -> allc (set_nth l p x).
  Proof.
    intros l p x H Hx q c Hq. destruct (Nat.eq_dec p q) as [->|Hne].
    - destruct (Nat.lt_ge_cases q (length l)) as [Hl|Hl].
      + rewrite nth_error_set_nth_eq in Hq by assumption. inversion Hq. apply Hx. assumption.
      + assert (nth_error (set_nth l q x) q = None) by (apply nth_error_None; rewrite set_nth_length; assumption). congruence.
    - rewrite nth_error_set_nth_neq in Hq by assumption. eapply H; eassumption.
  Qed.

  Lemma allc_get : forall s p c, allc (s_conns s) -> get_conn s p = Some c -> P c.
  Proof. intros s p c H G. apply get_conn_nth in G. eapply H; eassumption. Qed.

  Lemma allc_map : forall (f : conn -> conn) l, (forall c, P c -> P (f c)) -> allc l -> allc (map (option_map f) l).
  Proof.
    intros f l Hf H q c Hq. rewrite nth_error_map in Hq. destruct (nth_error l q) as [[c0|]|] eqn:E; cbn in Hq; try discriminate.
    inversion Hq. apply Hf. eapply H; eassumption.
  Qed.
End PerConn.

(* ---------- the affinity invariant: RequestList::m_affinity is a piece the peer announced ---------- *)
Definition aff_ok (c : conn) : Prop := forall a, c_aff c = Some a -> getb (c_have c) a = true.
Definition inv_aff (s : state) : Prop := allc aff_ok (s_conns s).

Lemma getb_setb_mono : forall l k a, getb l a = true -> getb (setb l k) a = true.
Proof.
  unfold getb. intros l k a. generalize (N.to_nat a). revert k. induction l; intros k n H; cbn in *.
  - destruct n; discriminate.
  - destruct k, n; cbn in *; auto.
Qed.

Lemma downloading_have : forall c i o, c_have (downloading c i o) = c_have c.
Proof. intros. unfold downloading. repeat (match goal with |- context[match ?x with _ => _ end] => destruct x end); reflexivity. Qed.
Lemma downloading_aff : forall c i o, c_aff (downloading c i o) = c_aff c.
Proof. intros. unfold downloading. repeat (match goal with |- context[match ?x with _ => _ end] => destruct x end); reflexivity. Qed.
Lemma downloading_flags : forall c i o, c_interested (downloading c i o) = c_interested c /\ c_unchoked (downloading c i o) = c_unchoked c.
Proof. intros. unfold downloading. repeat (match goal with |- context[match ?x with _ => _ end] => destruct x end); split; reflexivity. Qed.

Lemma aff_ok_downloading : forall c i o, aff_ok c -> aff_ok (downloading c i o).
Proof. unfold aff_ok. intros c i o H a. rewrite downloading_aff, downloading_have. apply H. Qed.

Lemma aff_ok_invalidate : forall i o c, aff_ok c -> aff_ok (invalidate_conn i o c).
Proof. unfold aff_ok, invalidate_conn. intros i o c H a. cbn. apply H. Qed.

Lemma piece_begin_aff : forall s p i o l s', inv_aff s -> piece_begin s p i o l = Some s' -> inv_aff s'.
Proof.
  unfold piece_begin, inv_aff. intros s p i o l s' H A.
  destruct (get_conn s p) as [c|] eqn:G; [|discriminate].
  destruct (c_t c); [discriminate|].
  destruct (c_t (downloading c i o)); [|discriminate].
  destruct (e_valid e && negb (valid_block s i o l)); [discriminate|]. inversion A. cbn.
  apply allc_set; [assumption|]. intros c0 E. inversion E. apply aff_ok_downloading. eapply allc_get; eassumption.
Qed.

Lemma piece_end_aff : forall s p s', inv_aff s -> piece_end s p = Some s' -> inv_aff s'.
Proof.
  unfold piece_end, inv_aff. intros s p s' H A.
  destruct (get_conn s p) as [c|] eqn:G; [|discriminate].
  destruct (c_t c) as [e|]; [|discriminate].
  assert (K : allc aff_ok (set_nth (s_conns s) p (Some (with_t c None)))).
  { apply allc_set; [assumption|]. intros c0 E. inversion E. pose proof (allc_get _ _ _ _ H G) as Hc. unfold aff_ok, with_t in *. cbn. assumption. }
  destruct (e_valid e); inversion A; cbn.
  - unfold invalidate_all. apply allc_map; [apply aff_ok_invalidate | assumption].
  - assumption.
Qed.

(* ---------- what an accepted REQUEST satisfies ---------- *)
Lemma srequest_conds : forall s p i o l s', accept s (SRequest p i o l) = Some s' ->
  exists c, get_conn s p = Some c /\
    c_interested c = true /\ c_unchoked c = true /\
    valid_block s i o l = true /\
    getb (s_completed s) i = false /\
    mem_blk i o (s_fin s) = false /\
    holds c i o = false /\
    (getb (c_have c) i = true \/ c_aff c = Some i) /\
    (memN i (s_active s) = true \/ (getb (s_wanted s) i = true /\ getb (c_have c) i = true)) /\
    (if s_aggr s then not_stalled s i o <? overlapped else not_stalled s i o =? 0) = true.
Proof.
  intros s p i o l s' A. cbn [accept] in A. destruct (get_conn s p) as [c|] eqn:G; [|discriminate].
  match type of A with (if ?b then _ else _) = _ => destruct b eqn:Cond end; [|discriminate].
  repeat (apply andb_prop in Cond; destruct Cond as [Cond ?]).
  exists c. repeat split; try assumption.
  - apply negb_true_iff. assumption.
  - apply negb_true_iff. assumption.
  - apply negb_true_iff. assumption.
  - match goal with K : (getb (c_have c) i || _) = true |- _ => apply orb_prop in K; rename K into K1 end.
    destruct K1 as [K1|K1]; [left; assumption|].
    right. destruct (c_aff c); [|discriminate]. apply N.eqb_eq in K1. congruence.
  - match goal with K : (memN i (s_active s) || _) = true |- _ => apply orb_prop in K; rename K into K2 end.
    destruct K2 as [K2|K2]; [left; assumption|].
    right. apply andb_prop in K2. assumption.
Qed.


Ltac conn_case s p G :=
  destruct (get_conn s p) as [?c|] eqn:G; [|discriminate].

Lemma accept_aff : forall s ev s', inv_aff s -> accept s ev = Some s' -> inv_aff s'.
Proof.
  intros s ev s' H A. destruct ev; cbn [accept] in A;
    try (eapply piece_begin_aff; eassumption); try (eapply piece_end_aff; eassumption).
  - (* Join *) destruct (nth_error (s_conns s) p) as [[|]|]; try discriminate.
    destruct (Nat.eqb _ _); [|discriminate]. inversion A. unfold inv_aff. cbn.
    apply allc_set; [assumption|]. intros c E. inversion E. unfold aff_ok. cbn. discriminate.
  - (* Have *) conn_case s p G. destruct (i <? npieces s); [|discriminate]. inversion A. unfold inv_aff. cbn.
    apply allc_set; [assumption|]. intros c0 E. inversion E. pose proof (allc_get _ _ _ _ H G) as Hc.
    unfold aff_ok in *. cbn. intros a Ha. apply getb_setb_mono. auto.
  - (* Choke *) conn_case s p G. pose proof (allc_get _ _ _ _ H G) as Hc.
    destruct (c_q c), (c_u c), (if choke_checks_stalled then c_s c else []); inversion A; unfold inv_aff; cbn; (apply allc_set; [assumption|]);
      intros c0 E; inversion E; unfold aff_ok in *; cbn; assumption.
  - (* Unchoke *) conn_case s p G. pose proof (allc_get _ _ _ _ H G) as Hc. inversion A. unfold inv_aff. cbn.
    apply allc_set; [assumption|]. intros c0 E. inversion E. unfold aff_ok in *. cbn. assumption.
  - (* Piece *) destruct (piece_begin s p i o l) as [s1|] eqn:B; [|discriminate].
    eapply piece_end_aff; [|eassumption]. eapply piece_begin_aff; eassumption.
  - (* Disc *) conn_case s p G. inversion A. unfold inv_aff. cbn. apply allc_set; [assumption|]. intros; discriminate.
  - (* Advance *) inversion A. subst. assumption.
  - (* Wanted *) destruct (Nat.eqb _ _); [|discriminate]. inversion A. assumption.
  - (* SInterested *) conn_case s p G. pose proof (allc_get _ _ _ _ H G) as Hc. inversion A. unfold inv_aff. cbn.
    apply allc_set; [assumption|]. intros c0 E. inversion E. unfold aff_ok in *. cbn. assumption.
  - (* SNotInterested *) conn_case s p G. pose proof (allc_get _ _ _ _ H G) as Hc. inversion A. unfold inv_aff. cbn.
    apply allc_set; [assumption|]. intros c0 E. inversion E. unfold aff_ok in *. cbn. assumption.
  - (* SRequest *) assert (A0 : accept s (SRequest p i o l) = Some s') by exact A.
    destruct (srequest_conds _ _ _ _ _ _ A0) as (c & G & _ & _ & _ & _ & _ & _ & Hh & _).
    pose proof (allc_get _ _ _ _ H G) as Hc. rewrite G in A.
    match type of A with (if ?b then _ else _) = _ => destruct b end; [|discriminate].
    inversion A. unfold inv_aff. cbn. apply allc_set; [assumption|]. intros c0 E. inversion E. unfold aff_ok in *. cbn.
    intros a Ha. inversion Ha. subst a. destruct Hh as [Hh|Hh]; [exact Hh | exact (Hc _ Hh)].
  - (* SCancel *) conn_case s p G. pose proof (allc_get _ _ _ _ H G) as Hc.
    destruct (c_cancels c) as [|[i' o'] r]; [discriminate|]. destruct ((i' =? i) && (o' =? o)); [|discriminate].
    inversion A. unfold inv_aff. cbn. apply allc_set; [assumption|]. intros c0 E. inversion E. unfold aff_ok in *. cbn. assumption.
  - (* Fin *) match type of A with (if ?b then _ else _) = _ => destruct b end; [|discriminate]. inversion A. assumption.
  - (* DropChoked *) conn_case s p G. pose proof (allc_get _ _ _ _ H G) as Hc. inversion A. unfold inv_aff. cbn.
    apply allc_set; [assumption|]. intros c0 E. inversion E. unfold aff_ok in *. cbn. assumption.
  - (* DropUnordered *) conn_case s p G. pose proof (allc_get _ _ _ _ H G) as Hc. destruct (Nat.leb _ _); [|discriminate].
    inversion A. unfold inv_aff. cbn. apply allc_set; [assumption|]. intros c0 E. inversion E. unfold aff_ok in *. cbn. assumption.
  - (* StallTick *) conn_case s p G. pose proof (allc_get _ _ _ _ H G) as Hc. inversion A. unfold inv_aff. cbn.
    apply allc_set; [assumption|]. intros c0 E. inversion E. unfold aff_ok in *. cbn. assumption.
  - (* Endgame *) inversion A. assumption.
  - (* LoseInterest *) conn_case s p G. inversion A. subst. assumption.
  - (* QueueChoke *) conn_case s p G. inversion A. subst. assumption.
  - (* QueueUnchoke *) conn_case s p G. inversion A. subst. assumption.
  - (* SnapConn *) conn_case s p G. match type of A with (if ?b then _ else _) = _ => destruct b end; [|discriminate]. inversion A. subst. assumption.
  - (* SnapGlobal *) match type of A with (if ?b then _ else _) = _ => destruct b end; [|discriminate]. inversion A. subst. assumption.
Qed.

Lemma init_aff : forall plen total comp w, inv_aff (init plen total comp w).
Proof.
  unfold inv_aff, init, allc. cbn. intros plen total comp w p c H.
  do 4 (destruct p; cbn in H; [discriminate|]). destruct p; discriminate.
Qed.

Lemma run_inv : forall (I : state -> Prop), (forall s ev s', I s -> accept s ev = Some s' -> I s') ->
  forall evs s s', I s -> run s evs = Some s' -> I s'.
Proof.
  intros I Hstep. induction evs; intros s s' Hi R; cbn in R.
  - inversion R. subst. assumption.
  - destruct (accept s a) eqn:A; [|discriminate]. eapply IHevs; [|eassumption]. eapply Hstep; eassumption.
Qed.

Lemma run_aff : forall evs plen total comp w s, run (init plen total comp w) evs = Some s -> inv_aff s.
Proof. intros. eapply (run_inv inv_aff accept_aff); [apply init_aff | eassumption]. Qed.

(* request_legal: for every trace accepted from the initial state, a REQUEST that is accepted next lies on
   the block grid inside its piece, names a piece the peer announced (BITFIELD/HAVE), that is not completed,
   and that is either already being downloaded (listed in the TransferList) or wanted by the priorities. *)
Theorem request_legal : forall plen total comp w evs s p i o l s',
  run (init plen total comp w) evs = Some s ->
  accept s (SRequest p i o l) = Some s' ->
  exists c, get_conn s p = Some c /\
    valid_block s i o l = true /\
    getb (c_have c) i = true /\
    getb (s_completed s) i = false /\
    mem_blk i o (s_fin s) = false /\
    (memN i (s_active s) = true \/ getb (s_wanted s) i = true).
Proof.
  intros plen total comp w evs s p i o l s' R A.
  destruct (srequest_conds _ _ _ _ _ _ A) as (c & G & _ & _ & V & C & F & _ & Hh & Hw & _).
  exists c. repeat split; try assumption.
  - destruct Hh as [Hh|Hh]; [assumption|]. pose proof (run_aff _ _ _ _ _ _ R) as I.
    eapply (allc_get aff_ok); eassumption.
  - destruct Hw as [Hw|[Hw _]]; [left|right]; assumption.
Qed.

(* valid_block spelled out: inside the piece, on the grid, length exactly the block's *)
Lemma valid_block_bounds : forall s i o l, valid_block s i o l = true ->
  i < npieces s /\ o mod block_size = 0 /\ o + l <= piece_size s i /\ 0 < l /\ l <= block_size.
Proof.
  unfold valid_block. intros s i o l H. repeat (apply andb_prop in H; destruct H as [H ?]).
  repeat match goal with
         | K : (_ <? _) = true |- _ => apply N.ltb_lt in K
         | K : (_ =? _) = true |- _ => apply N.eqb_eq in K
         end.
  repeat split; try assumption; lia.
Qed.

(* no_fatal: the test that makes PeerConnectionBase::try_request_pieces throw internal_error
   ("tried to use an invalid piece") is false for every request of every accepted trace. *)
Definition try_request_fatal (s : state) (c : conn) (i o l : N) : bool :=
  negb (valid_block s i o l) || negb (getb (c_have c) i).

Theorem no_fatal : forall plen total comp w evs s p i o l s',
  run (init plen total comp w) evs = Some s ->
  accept s (SRequest p i o l) = Some s' ->
  exists c, get_conn s p = Some c /\ try_request_fatal s c i o l = false.
Proof.
  intros. destruct (request_legal _ _ _ _ _ _ _ _ _ _ _ H H0) as (c & G & V & Hh & _).
  exists c. split; [assumption|]. unfold try_request_fatal. rewrite V, Hh. reflexivity.
Qed.

(* no_duplicate_outstanding, acceptance form (Block::insert's refusal): a REQUEST is only accepted for a
   block on which this connection holds no valid entry in ANY bucket (queued, unordered, stalled, choked)
   nor as the transfer in progress. *)
Theorem no_duplicate_at_request : forall s p i o l s',
  accept s (SRequest p i o l) = Some s' ->
  exists c, get_conn s p = Some c /\
    forall e, In e (all_entries c) -> e_i e = i -> e_o e = o -> e_valid e = false.
Proof.
  intros s p i o l s' A. destruct (srequest_conds _ _ _ _ _ _ A) as (c & G & _ & _ & _ & _ & _ & Hh & _).
  exists c. split; [assumption|]. intros e In1 Ei Eo. unfold holds in Hh.
  destruct (e_valid e) eqn:V; [|reflexivity]. exfalso.
  assert (existsb (fun e0 => same_blk i o e0 && e_valid e0) (all_entries c) = true).
  { apply existsb_exists. exists e. split; [assumption|]. unfold same_blk. rewrite V, Ei, Eo, !N.eqb_refl. reflexivity. }
  congruence.
Qed.

Lemma overlapped_pos : 0 < overlapped.
Proof. unfold overlapped. destruct (Params.c04_overlapped =? 0) eqn:E; [lia|]. apply N.eqb_neq in E. lia. Qed.

Theorem params_ok_now : params_ok = true.
Proof. vm_compute. reflexivity. Qed.

(* liveness, enabledness part: whenever a connected peer that announced piece i keeps the client
   unchoked, the client is interested, the piece is wanted (or already listed) and not complete, and
   block (i,o) is neither finished, nor held by this connection, nor held un-stalled by anyone,
   the delegate relation admits the REQUEST. *)
Theorem request_enabled : forall s p c i o l,
  get_conn s p = Some c ->
  c_interested c = true -> c_unchoked c = true ->
  valid_block s i o l = true ->
  getb (c_have c) i = true ->
  getb (s_completed s) i = false ->
  (memN i (s_active s) = true \/ getb (s_wanted s) i = true) ->
  mem_blk i o (s_fin s) = false ->
  holds c i o = false ->
  listed_any c i o = false ->
  not_stalled s i o = 0 ->
  0 < overlapped ->
  exists s', accept s (SRequest p i o l) = Some s'.
Proof.
  intros s p c i o l G Hi Hu V Hh Hc Hw Hf Ho Hla Hn Hov. cbn [accept]. rewrite G, Hi, Hu, V, Hh, Hc, Hf, Ho, Hla, Hn.
  assert (W : (memN i (s_active s) || getb (s_wanted s) i && true) = true).
  { destruct Hw as [Hw|Hw]; rewrite Hw; [reflexivity|]. rewrite orb_true_r. reflexivity. }
  rewrite W.
  assert (X : (if s_aggr s then 0 <? overlapped else 0 =? 0) = true).
  { destruct (s_aggr s); [apply N.ltb_lt; assumption|reflexivity]. }
  rewrite X. cbn. eexists. reflexivity.
Qed.

(* The lesson of the reverted repair (E): a REQUEST is only admitted for a block for which this connection has NO entry
   at all -- valid or cancelled -- in its queued / unordered / stalled / choked buckets; so RequestList::downloading
   (first entry for the same piece and offset wins) can never match a stale entry in front of a live one. *)
Theorem never_queued_behind_stale : forall s p i o l s',
  accept s (SRequest p i o l) = Some s' ->
  exists c, get_conn s p = Some c /\
    forall e, In e (c_q c ++ c_u c ++ c_s c ++ c_c c) -> ~ (e_i e = i /\ e_o e = o).
Proof.
  intros s p i o l s' A. cbn [accept] in A. destruct (get_conn s p) as [c|] eqn:G; [|discriminate].
  match type of A with (if ?b then _ else _) = _ => destruct b eqn:Cond end; [|discriminate].
  repeat (apply andb_prop in Cond; destruct Cond as [Cond ?]).
  exists c. split; [reflexivity|]. intros e In1 [Ei Eo].
  match goal with K : negb (listed_any c i o) = true |- _ => apply negb_true_iff in K; rename K into K1 end.
  assert (X : listed_any c i o = true).
  { unfold listed_any. apply existsb_exists. exists e. split; [assumption|]. unfold same_blk. rewrite Ei, Eo, !N.eqb_refl. reflexivity. }
  congruence.
Qed.
