(* C04 proofs, part 3: voided_reissued (state predicates), progress of Fin, refuted full-strength
   variants with computed witnesses, satisfiability examples. *)
From Coq Require Import NArith List Bool Lia Arith.
From LTV.C04 Require Import ParamsGen Model Proofs ProofsTrace.
Import ListNotations.
Open Scope N_scope.

Lemma not_stalled_sum_remove : forall l p c i o, nth_error l p = Some (Some c) ->
  not_stalled_sum l i o = not_stalled_in c i o + not_stalled_sum (set_nth l p None) i o.
Proof.
  induction l as [|x l IH]; intros p c i o H; destruct p; cbn in *; try discriminate.
  - inversion H. subst. reflexivity.
  - destruct x as [c0|]; rewrite (IH _ _ i o H); lia.
Qed.

Lemma get_conn_set_other : forall s p q x, p <> q -> get_conn (set_conn s p x) q = get_conn s q.
Proof. intros. unfold get_conn, set_conn. cbn. rewrite nth_error_set_nth_neq by assumption. reflexivity. Qed.

Lemma get_conn_set_same_none : forall s p, get_conn (set_conn s p None) p = None.
Proof.
  intros. unfold get_conn, set_conn. cbn. destruct (Nat.lt_ge_cases p (length (s_conns s))) as [Hl|Hl].
  - rewrite nth_error_set_nth_eq by assumption. reflexivity.
  - assert (E : nth_error (set_nth (s_conns s) p None) p = None) by (apply nth_error_None; rewrite set_nth_length; assumption).
    rewrite E. reflexivity.
Qed.

(* voided_reissued, disconnect: when connection p goes away every request it held stops counting towards
   Block::m_notStalled of every block, p's slot is empty and no other connection changes. *)
Theorem voided_by_disconnect : forall s p cp s', get_conn s p = Some cp -> accept s (Disc p) = Some s' ->
  get_conn s' p = None /\
  (forall q, p <> q -> get_conn s' q = get_conn s q) /\
  (forall i o, not_stalled s i o = not_stalled_in cp i o + not_stalled s' i o) /\
  s_completed s' = s_completed s /\ s_active s' = s_active s /\ s_fin s' = s_fin s /\ s_wanted s' = s_wanted s.
Proof.
  intros s p cp s' G A. cbn [accept] in A. rewrite G in A. inversion A. subst s'. repeat split.
  - apply get_conn_set_same_none.
  - intros q Hq. apply get_conn_set_other. assumption.
  - intros i o. unfold not_stalled. cbn. apply not_stalled_sum_remove. apply get_conn_nth. assumption.
Qed.

(* ... hence a block that only p was fetching is at once requestable from any other peer q that announced
   the piece, keeps the client unchoked and has been told INTERESTED ("re-issued elsewhere"). *)
Theorem reissue_after_disconnect : forall s p cp q cq i o l s',
  get_conn s p = Some cp -> accept s (Disc p) = Some s' -> p <> q ->
  get_conn s q = Some cq -> c_interested cq = true -> c_unchoked cq = true ->
  valid_block s i o l = true -> getb (c_have cq) i = true -> getb (s_completed s) i = false ->
  (memN i (s_active s) = true \/ getb (s_wanted s) i = true) ->
  mem_blk i o (s_fin s) = false -> holds cq i o = false -> listed_any cq i o = false ->
  not_stalled s i o = not_stalled_in cp i o ->          (* p was the only un-stalled holder *)
  exists s'', accept s' (SRequest q i o l) = Some s''.
Proof.
  intros s p cp q cq i o l s' G A Hpq Gq Hi Hu V Hh Hc Hw Hf Ho Hla Hn.
  destruct (voided_by_disconnect _ _ _ _ G A) as (_ & Hoth & Hns & E1 & E2 & E3 & E4).
  assert (s' = set_conn s p None) by (cbn [accept] in A; rewrite G in A; inversion A; reflexivity). subst s'.
  eapply request_enabled with (c := cq); try eassumption.
  - rewrite Hoth by assumption. assumption.
  - specialize (Hns i o). lia.
  - exact overlapped_pos.
Qed.

(* voided_reissued, choke: RequestList::choked moves EVERY live request to the choked bucket (unless
   only stalled ones exist, which do not block anyone), and delay_remove_choked releases that bucket. *)
Lemma in_mid : forall A (e : A) a b x y, In e (a ++ b) -> In e (x ++ a ++ b ++ y).
Proof. intros. rewrite !in_app_iff in *. tauto. Qed.

Theorem voided_by_choke : forall s p c s', get_conn s p = Some c -> accept s (Choke p) = Some s' ->
  exists c', get_conn s' p = Some c' /\ c_unchoked c' = false /\ c_q c' = [] /\ c_u c' = [] /\
    (forall e, In e (c_q c ++ c_u c) -> In e (c_c c')).
Proof.
  intros s p c s' G A. cbn [accept] in A. rewrite G in A. pose proof (get_conn_lt _ _ _ G) as L.
  destruct (c_q c) as [|eq lq] eqn:Q; destruct (c_u c) as [|eu lu] eqn:U;
    destruct (if choke_checks_stalled then c_s c else []) as [|es ls] eqn:S3; inversion A; subst s'; eexists;
    (split; [unfold get_conn, set_conn; cbn; rewrite nth_error_set_nth_eq by assumption; reflexivity|]); cbn;
    repeat split; try reflexivity; try assumption;
    intros e0 In0; repeat (progress (rewrite ?in_app_iff in *; cbn [In app] in * )); tauto.
Qed.

Theorem released_by_choke_timer : forall s p c s', get_conn s p = Some c -> accept s (DropChoked p) = Some s' ->
  exists c', get_conn s' p = Some c' /\ c_c c' = [] /\ c_q c' = c_q c /\ c_u c' = c_u c /\ c_s c' = c_s c.
Proof.
  intros s p c s' G A. cbn [accept] in A. rewrite G in A. pose proof (get_conn_lt _ _ _ G) as L. inversion A. subst s'.
  eexists. split; [unfold get_conn, set_conn; cbn; rewrite nth_error_set_nth_eq by assumption; reflexivity|].
  cbn. repeat split.
Qed.

(* voided_reissued, stall: after a stall tick nothing of this connection is queued or unordered, and every
   valid entry it moved is marked stalled (so it no longer counts in m_notStalled). *)
Theorem voided_by_stall : forall s p c t s', get_conn s p = Some c -> accept s (StallTick p t) = Some s' ->
  exists c', get_conn s' p = Some c' /\ c_q c' = [] /\ c_u c' = [] /\
    forall e, In e (map mark_stalled (c_q c) ++ map mark_stalled (c_u c)) -> In e (c_s c') /\ (e_valid e = true -> e_stalled e = true).
Proof.
  intros s p c t s' G A. cbn [accept] in A. rewrite G in A. pose proof (get_conn_lt _ _ _ G) as L. inversion A. subst s'.
  eexists. split; [unfold get_conn, set_conn; cbn; rewrite nth_error_set_nth_eq by assumption; reflexivity|].
  cbn. repeat split; try reflexivity.
  - apply in_or_app. right. assumption.
  - intro V. apply in_app_or in H. destruct H as [H|H]; apply in_map_iff in H; destruct H as (e0 & E & _); subst e;
      unfold mark_stalled in *; destruct (e_valid e0) eqn:V0; cbn in *; congruence.
Qed.

(* progress measure for the liveness argument: an accepted hash completion strictly increases the number of
   completed pieces, and nothing ever un-completes a piece. *)
Lemma count_setb : forall l k, nth k l true = false -> count_true (setb l k) = count_true l + 1.
Proof.
  unfold count_true. induction l as [|b l IH]; intros k H; destruct k; cbn in *; try discriminate.
  - subst. cbn. lia.
  - destruct b; cbn; rewrite ?Nat2N.inj_succ; specialize (IH k H); lia.
Qed.

Theorem fin_progress : forall s i s', accept s (Fin i) = Some s' ->
  count_true (s_completed s') = count_true (s_completed s) + 1.
Proof.
  intros s i s' A. cbn [accept] in A.
  match type of A with (if ?b then _ else _) = _ => destruct b eqn:C end; [|discriminate]. inversion A. cbn.
  repeat (apply andb_prop in C; destruct C as [C ?]).
  apply N.ltb_lt in C. unfold npieces in C.
  match goal with K : negb (getb _ _) = true |- _ => apply negb_true_iff in K; unfold getb in K; rename K into K1 end.
  apply count_setb. rewrite (nth_indep _ true false); [assumption|]. lia.
Qed.

(* eventually_requested_partial.  What is proved, for the code as repaired by the four fix: commits:
   (1) enabledness: request_enabled / reissue_after_disconnect -- under the statement's hypotheses a REQUEST for a
       missing block is ENABLED in the delegate relation (this theorem);
   (2) the client is in a position to take it (ProofsLive.v, over the liveness layer xaccept):
       interested_unchoked_is_queued  interested /\ peer-unchoked ==> member of the download choke queue (A);
       have_raises_interest           a HAVE for a wanted-or-listed missing piece raises interest and queues (C);
       choke_leaves_nothing_live / choke_then_timer_empty   a CHOKE leaves no request in a live bucket, the 6 s
                                      timer then none at all: nothing pins a block to a peer that forgot it (D);
       pipe_counts_only_valid / interest_kept_while_requestable   cancelled entries never fill the pipe, and the
                                      acceptor refuses "interest dropped" while a block is delegatable, no valid
                                      request is queued and the pipe gate is open (E);
   (3) fin_progress: completions are strictly monotone.
   What is still NOT a theorem (outside the acceptor; checked dynamically by the completion phase of every run):
   that choke_queue actually unchokes a queued connection (its slot policy, the 10 s rule and the 30 s balance
   tick), that ticks/timers keep firing, that the write buffer has room (can_write_request), and the should_request
   heuristics on m_down_stall in endgame mode. *)
Theorem eventually_requested_partial : forall s p c i o l,
  get_conn s p = Some c -> c_interested c = true -> c_unchoked c = true ->
  valid_block s i o l = true -> getb (c_have c) i = true -> getb (s_completed s) i = false ->
  getb (s_wanted s) i = true -> mem_blk i o (s_fin s) = false -> holds c i o = false -> listed_any c i o = false ->
  not_stalled s i o = 0 ->
  exists s', accept s (SRequest p i o l) = Some s' /\ memN i (s_active s') = true.
Proof.
  intros s p c i o l G Hi Hu V Hh Hc Hw Hf Ho Hla Hn.
  assert (Hov : 0 < overlapped).
  { exact overlapped_pos. }
  destruct (request_enabled s p c i o l G Hi Hu V Hh Hc (or_intror Hw) Hf Ho Hla Hn Hov) as (s' & A).
  exists s'. split; [assumption|]. cbn [accept] in A. rewrite G in A.
  match type of A with (if ?b then _ else _) = _ => destruct b end; [|discriminate]. inversion A. cbn.
  clear. induction (s_active s) as [|x r IH]; cbn.
  - rewrite N.eqb_refl. reflexivity.
  - destruct (i <? x) eqn:L; cbn; [rewrite N.eqb_refl; reflexivity|].
    destruct (i =? x) eqn:E; cbn; [rewrite E; reflexivity|]. rewrite E. assumption.
Qed.

(* ---------- refuted full-strength variants (faithful model of what the code does) ---------- *)
Definition t3 := [true; true; true].
Definition s0 := init 32768 98304 [false; false; false] t3.

(* events that would void / answer REQUEST (p,i,o) on the wire *)
Definition wire_neutral (p : nat) (i o : N) (e : event) : bool :=
  match e with
  | Piece q a b _ | PieceBegin q a b _ | SCancel q a b _ => negb (Nat.eqb q p && (a =? i) && (b =? o))
  | Choke q | Disc q | Join q _ => negb (Nat.eqb q p)
  | _ => true
  end.

Definition dup_witness : list event :=
  [Join 0 t3; SInterested 0; Unchoke 0; SRequest 0 0 0 16384; SRequest 0 0 16384 16384;
   Piece 0 0 16384 16384;          (* served out of order: (0,0) goes to the unordered bucket *)
   Advance 60; DropUnordered 0 1;  (* delay_process_unordered releases it; no CANCEL is queued *)
   SRequest 0 0 0 16384].          (* same block requested again on the same connection *)

(* Wire-level "no two outstanding requests for one block on one connection" is FALSE of the faithful model:
   the trace is accepted, and between the two identical REQUESTs there is no PIECE, CANCEL, CHOKE, or
   disconnect that would have voided the first. (Replayed on the real code: corpus/C04/witnesses.case #1.) *)
Theorem wire_no_duplicate_refuted :
  exists pre mid s, run s0 (pre ++ SRequest 0 0 0 16384 :: mid ++ [SRequest 0 0 0 16384]) = Some s /\
                    forallb (wire_neutral 0 0 0) mid = true.
Proof.
  exists [Join 0 t3; SInterested 0; Unchoke 0], [SRequest 0 0 16384 16384; Piece 0 0 16384 16384; Advance 60; DropUnordered 0 1].
  eexists. split; vm_compute; reflexivity.
Qed.

Definition off_witness : list event :=
  [Join 0 t3; SInterested 0; Unchoke 0; SRequest 0 0 0 16384; Wanted [false; false; false]].

(* "every requested piece is wanted NOW" is FALSE of the faithful model: a piece already listed keeps being
   requested after its files were switched off. (Replayed on the real code: corpus/C04/witnesses.case #2.) *)
Theorem request_wanted_now_refuted :
  exists evs s s', run s0 evs = Some s /\ accept s (SRequest 0 0 16384 16384) = Some s' /\ getb (s_wanted s) 0 = false.
Proof. exists off_witness. eexists. eexists. split; [vm_compute; reflexivity|]. split; vm_compute; reflexivity. Qed.

(* ---------- satisfiability of the hypotheses used above ---------- *)
Example ex_accepted_trace : exists s, run s0 dup_witness = Some s.
Proof. eexists. vm_compute. reflexivity. Qed.

Example ex_request_accepted : exists s s', run s0 [Join 0 t3; SInterested 0; Unchoke 0] = Some s /\
                                           accept s (SRequest 0 2 0 16384) = Some s'.
Proof. eexists. eexists. split; vm_compute; reflexivity. Qed.

Example ex_disconnect_reissue : exists s cp s', run s0 [Join 0 t3; Join 1 t3; SInterested 0; SInterested 1; Unchoke 0; Unchoke 1;
                                                       SRequest 0 1 0 16384] = Some s /\
  get_conn s 0%nat = Some cp /\ accept s (Disc 0) = Some s' /\ not_stalled s 1 0 = not_stalled_in cp 1 0 /\ not_stalled s 1 0 = 1.
Proof.
  eexists. eexists. eexists. split; [vm_compute; reflexivity|]. split; [vm_compute; reflexivity|].
  split; [vm_compute; reflexivity|]. split; vm_compute; reflexivity.
Qed.

Example ex_choke_stall_fin : exists s1 s2 s3 s4,
  run s0 [Join 0 t3; SInterested 0; Unchoke 0; SRequest 0 2 0 16384; SRequest 0 2 16384 16384] = Some s1 /\
  accept s1 (StallTick 0 false) = Some s2 /\ accept s1 (Choke 0) = Some s3 /\ accept s3 (DropChoked 0) = Some s4.
Proof.
  do 4 eexists. split; [vm_compute; reflexivity|]. split; [vm_compute; reflexivity|]. split; vm_compute; reflexivity.
Qed.

Example ex_fin : exists s s', run s0 [Join 0 t3; SInterested 0; Unchoke 0; SRequest 0 2 0 16384; SRequest 0 2 16384 16384;
                                      Piece 0 2 0 16384; Piece 0 2 16384 16384] = Some s /\ accept s (Fin 2) = Some s'.
Proof. do 2 eexists. split; vm_compute; reflexivity. Qed.
