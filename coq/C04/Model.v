(* C04 — block requests are legal, never duplicated, eventually cover the torrent.
   Shape A (acceptor / trace refinement), DESIGN.md section 1 and "### C04".

   The automaton below is deterministic and runs over MECHANISM-LEVEL events observed on the real
   library by harness/c04.cc:  wire messages received from / sent to each scripted peer, the timer
   driven transitions of RequestList (observed through private snapshots), hash completion, and
   snapshot CHECK events that tie the model's per-connection request buckets, choke flag and the
   global transfer list / completed set / endgame flag to the library's private state.

   What `accept` encodes is the code AS IT IS:
     RequestList::{delegate (queue push), downloading (bucket search order, prepare_process_unordered),
       finished/skipped, choked (early return when queued and unordered are empty), unchoked,
       delay_remove_choked, delay_process_unordered, stall_initial/stall_prolonged, clear}
     Block::{insert (refusal for a peer already on the block), completed (invalidate + cancel the
       others), stalled_transfer (m_notStalled), release}
     Delegator::delegate as a RELATION: which (piece, block) may be handed to which peer
       (affinity branch without bitfield test; is_stalled for the normal branches;
        size_not_stalled < overlapped in aggressive mode; new chunks only from ChunkSelector::find)
     PeerConnectionBase::should_request (interested, unchoked), try_request_pieces' validity test,
       cancel_transfer / cancel queue, DownloadMain::update_endgame, TransferList insert/erase.
   It does NOT encode the user-level property; Proofs*.v derive that for every accepted trace. *)
From Coq Require Import NArith List Bool.
From LTV.C04 Require Import ParamsGen.
Import ListNotations.
Open Scope N_scope.

Definition block_size : N := Params.c04_block_size.
(* Delegator::delegate's local `overlapped`; when the declaration is not found (refactor) the acceptor falls back to
   'no bound' instead of rejecting every endgame request: the property does not fix this tuning constant *)
Definition overlapped : N := if Params.c04_overlapped =? 0 then 4294967296 else Params.c04_overlapped.
Definition endgame_slack : N := Params.c04_endgame_slack.
(* RequestList::choked: does the early return also require an empty stalled bucket? (extracted from the source) *)
Definition choke_checks_stalled : bool := 0 <? Params.c04_choked_checks_stalled.

(* ---- request-list entries (BlockTransfer as seen from one RequestList) ---- *)
Record entry := mkE { e_i : N; e_o : N; e_valid : bool; e_stalled : bool }.

Definition same_blk (i o : N) (e : entry) : bool := (e_i e =? i) && (e_o e =? o).
Definition entry_eqb (a b : entry) : bool :=
  (e_i a =? e_i b) && (e_o a =? e_o b) && Bool.eqb (e_valid a) (e_valid b) && Bool.eqb (e_stalled a) (e_stalled b).

Fixpoint list_eqb {A} (f : A -> A -> bool) (a b : list A) : bool :=
  match a, b with
  | [], [] => true
  | x :: a', y :: b' => f x y && list_eqb f a' b'
  | _, _ => false
  end.

Definition opt_eqb {A} (f : A -> A -> bool) (a b : option A) : bool :=
  match a, b with
  | None, None => true
  | Some x, Some y => f x y
  | _, _ => false
  end.

(* ---- one connection ---- *)
Record conn := mkC {
  c_have : list bool;          (* PeerChunks::bitfield *)
  c_interested : bool;         (* last INTERESTED / NOT_INTERESTED written to this peer *)
  c_unchoked : bool;           (* m_down_unchoked: last CHOKE / UNCHOKE read from this peer *)
  c_q : list entry;            (* bucket_queued *)
  c_u : list entry;            (* bucket_unordered *)
  c_s : list entry;            (* bucket_stalled *)
  c_c : list entry;            (* bucket_choked *)
  c_t : option entry;          (* RequestList::m_transfer *)
  c_cancels : list (N * N);    (* PeerChunks::cancel_queue *)
  c_aff : option N             (* RequestList::m_affinity *)
}.

Record state := mkS {
  s_plen : N;
  s_total : N;
  s_completed : list bool;     (* FileList bitfield *)
  s_wanted : list bool;        (* priority ranges: normal or high *)
  s_active : list N;           (* TransferList: indices, kept sorted *)
  s_fin : list (N * N);        (* finished blocks of listed pieces *)
  s_aggr : bool;               (* Delegator::m_aggressive *)
  s_conns : list (option conn) (* four slots *)
}.

Definition getb (l : list bool) (i : N) : bool := nth (N.to_nat i) l false.
Fixpoint setb (l : list bool) (i : nat) : list bool :=
  match l, i with
  | [], _ => []
  | _ :: r, O => true :: r
  | x :: r, S k => x :: setb r k
  end.

Definition npieces (s : state) : N := N.of_nat (length (s_completed s)).

Definition piece_size (s : state) (i : N) : N :=
  if i + 1 =? npieces s then s_total s - i * s_plen s else s_plen s.

(* BlockList::BlockList geometry + FileList::is_valid_piece *)
Definition valid_block (s : state) (i o l : N) : bool :=
  (i <? npieces s) && (o mod block_size =? 0) && (o <? piece_size s i) &&
  (l =? N.min block_size (piece_size s i - o)) && (0 <? l).

Definition nblocks (s : state) (i : N) : N := (piece_size s i + block_size - 1) / block_size.

Definition mem_blk (i o : N) (l : list (N * N)) : bool :=
  existsb (fun b => (fst b =? i) && (snd b =? o)) l.
Definition memN (i : N) (l : list N) : bool := existsb (N.eqb i) l.

Fixpoint insert_sorted (i : N) (l : list N) : list N :=
  match l with
  | [] => [i]
  | x :: r => if i <? x then i :: l else if i =? x then l else x :: insert_sorted i r
  end.

Definition get_conn (s : state) (p : nat) : option conn :=
  match nth_error (s_conns s) p with Some (Some c) => Some c | _ => None end.

Fixpoint set_nth {A} (l : list A) (p : nat) (x : A) : list A :=
  match l, p with
  | [], _ => []
  | _ :: r, O => x :: r
  | y :: r, S k => y :: set_nth r k x
  end.

Definition set_conn (s : state) (p : nat) (c : option conn) : state :=
  mkS (s_plen s) (s_total s) (s_completed s) (s_wanted s) (s_active s) (s_fin s) (s_aggr s)
      (set_nth (s_conns s) p c).

Definition all_entries (c : conn) : list entry :=
  c_q c ++ c_u c ++ c_s c ++ c_c c ++ (match c_t c with Some e => [e] | None => [] end).

(* Block::find_queued / find_transfer for this peer: a VALID entry on the block *)
Definition holds (c : conn) (i o : N) : bool :=
  existsb (fun e => same_blk i o e && e_valid e) (all_entries c).

(* ANY entry (valid or cancelled) for the block in one of the four buckets. The code has no explicit test for it; it
   is what keeps RequestList::downloading (first same-piece entry wins) sound: a new request must never queue behind a
   stale cancelled entry for the same block (that is what the reverted repair 2fa3dae broke). *)
Definition listed_any (c : conn) (i o : N) : bool :=
  existsb (same_blk i o) (c_q c ++ c_u c ++ c_s c ++ c_c c).

(* contribution of one connection to Block::m_notStalled *)
Definition not_stalled_in (c : conn) (i o : N) : N :=
  N.of_nat (length (filter (fun e => same_blk i o e && e_valid e && negb (e_stalled e)) (all_entries c))).

Fixpoint not_stalled_sum (l : list (option conn)) (i o : N) : N :=
  match l with
  | [] => 0
  | Some c :: r => not_stalled_in c i o + not_stalled_sum r i o
  | None :: r => not_stalled_sum r i o
  end.
Definition not_stalled (s : state) (i o : N) : N := not_stalled_sum (s_conns s) i o.

(* ---- events ---- *)
Inductive event :=
| Join (p : nat) (bits : list bool)
| Have (p : nat) (i : N)
| Choke (p : nat)
| Unchoke (p : nat)
| Piece (p : nat) (i o l : N)
| PieceBegin (p : nat) (i o l : N)
| PieceEnd (p : nat)
| Disc (p : nat)
| Advance (secs : N)
| Wanted (bits : list bool)
| SInterested (p : nat)
| SNotInterested (p : nat)
| SRequest (p : nat) (i o l : N)
| SCancel (p : nat) (i o l : N)
| Fin (i : N)
| DropChoked (p : nat)
| DropUnordered (p : nat) (n : nat)
| StallTick (p : nat) (t : bool)
| Endgame
| LoseInterest (p : nat)      (* fill_write_buffer: nothing to request and not interested in a listed piece *)
| QueueChoke (p : nat)        (* our own download choke queue choked the connection (receive_download_choke(true)) *)
| QueueUnchoke (p : nat)      (* ... unchoked it again (receive_download_choke(false)) *)
| SnapConn (p : nat) (unch : bool) (q u s c : list entry) (t : option entry) (dint dq dun : bool)
| SnapGlobal (aggr : bool) (active : list N) (completed : list bool).

(* ---- DownloadMain::update_endgame ---- *)
Definition count_true (l : list bool) : N := N.of_nat (length (filter (fun b => b) l)).
Definition endgame_now (completed : list bool) (active : list N) : bool :=
  N.of_nat (length completed) <=? count_true completed + N.of_nat (length active) + endgame_slack.

Definition init (plen total : N) (completed wanted : list bool) : state :=
  mkS plen total completed wanted [] [] false [None; None; None; None].

(* ---- RequestList::downloading: search queued, unordered, stalled, choked in that order ---- *)
Fixpoint find_ix (i o : N) (l : list entry) : option nat :=
  match l with
  | [] => None
  | e :: r => if same_blk i o e then Some O else option_map S (find_ix i o r)
  end.

Definition remove_ix {A} (l : list A) (k : nat) : list A := firstn k l ++ skipn (S k) l.

Definition dummy (i o : N) : entry := mkE i o false false.

Definition downloading (c : conn) (i o : N) : conn :=
  match find_ix i o (c_q c) with
  | Some k =>
      (* entries in front of it are moved to the unordered bucket *)
      mkC (c_have c) (c_interested c) (c_unchoked c) (skipn (S k) (c_q c)) (c_u c ++ firstn k (c_q c)) (c_s c) (c_c c)
          (nth_error (c_q c) k) (c_cancels c) (c_aff c)
  | None =>
  match find_ix i o (c_u c) with
  | Some k => mkC (c_have c) (c_interested c) (c_unchoked c) (c_q c) (remove_ix (c_u c) k) (c_s c) (c_c c)
                  (nth_error (c_u c) k) (c_cancels c) (c_aff c)
  | None =>
  match find_ix i o (c_s c) with
  | Some k => mkC (c_have c) (c_interested c) (c_unchoked c) (c_q c) (c_u c) (remove_ix (c_s c) k) (c_c c)
                  (nth_error (c_s c) k) (c_cancels c) (c_aff c)
  | None =>
  match find_ix i o (c_c c) with
  | Some k => mkC (c_have c) (c_interested c) (c_unchoked c) (c_q c) (c_u c) (c_s c) (remove_ix (c_c c) k)
                  (nth_error (c_c c) k) (c_cancels c) (c_aff c)
  | None => mkC (c_have c) (c_interested c) (c_unchoked c) (c_q c) (c_u c) (c_s c) (c_c c)
                (Some (dummy i o)) (c_cancels c) (c_aff c)
  end end end end.

(* Block::completed -> invalidate_transfer of every other transfer on the block:
   the entry stays in its bucket but is no longer valid; a CANCEL is queued unless it is the
   connection's current transfer (PeerConnectionBase::cancel_transfer). *)
Definition inval (i o : N) (e : entry) : entry :=
  if same_blk i o e && e_valid e then mkE (e_i e) (e_o e) false (e_stalled e) else e.

Definition n_valid (i o : N) (l : list entry) : nat :=
  length (filter (fun e => same_blk i o e && e_valid e) l).

Definition invalidate_conn (i o : N) (c : conn) : conn :=
  let k := n_valid i o (c_q c ++ c_u c ++ c_s c ++ c_c c) in
  mkC (c_have c) (c_interested c) (c_unchoked c)
      (map (inval i o) (c_q c)) (map (inval i o) (c_u c)) (map (inval i o) (c_s c)) (map (inval i o) (c_c c))
      (option_map (inval i o) (c_t c))
      (c_cancels c ++ repeat (i, o) k) (c_aff c).

Definition invalidate_all (i o : N) (l : list (option conn)) : list (option conn) :=
  map (option_map (invalidate_conn i o)) l.

Definition with_t (c : conn) (t : option entry) : conn :=
  mkC (c_have c) (c_interested c) (c_unchoked c) (c_q c) (c_u c) (c_s c) (c_c c) t (c_cancels c) (c_aff c).

(* PeerConnectionBase::down_chunk_finished for connection p *)
Definition piece_end (s : state) (p : nat) : option state :=
  match get_conn s p with
  | None => None
  | Some c =>
    match c_t c with
    | None => None
    | Some e =>
      let s1 := set_conn s p (Some (with_t c None)) in
      if e_valid e then
        (* RequestList::finished -> TransferList::finished -> Block::completed *)
        Some (mkS (s_plen s1) (s_total s1) (s_completed s1) (s_wanted s1) (s_active s1)
                  (if mem_blk (e_i e) (e_o e) (s_fin s1) then s_fin s1 else (e_i e, e_o e) :: s_fin s1)
                  (s_aggr s1) (invalidate_all (e_i e) (e_o e) (s_conns s1)))
      else Some s1   (* RequestList::skipped *)
    end
  end.

Definition piece_begin (s : state) (p : nat) (i o l : N) : option state :=
  match get_conn s p with
  | None => None
  | Some c =>
    match c_t c with
    | Some _ => None    (* RequestList::downloading: m_transfer != nullptr -> internal_error *)
    | None =>
      let c' := downloading c i o in
      (* a listed entry always carries the block's own length; a conforming peer answers with it *)
      match c_t c' with
      | Some e => if e_valid e && negb (valid_block s i o l) then None else Some (set_conn s p (Some c'))
      | None => None
      end
    end
  end.

Definition mark_stalled (e : entry) : entry :=
  if e_valid e then mkE (e_i e) (e_o e) true true else e.

Definition all_blocks_fin (s : state) (i : N) : bool :=
  forallb (fun k => mem_blk i (N.of_nat k * block_size) (s_fin s)) (seq 0 (N.to_nat (nblocks s i))).

Definition bits_eqb := list_eqb Bool.eqb.
Definition ents_eqb := list_eqb entry_eqb.

(* ---- the acceptor ---- *)
Definition accept (s : state) (ev : event) : option state :=
  match ev with
  | Join p bits =>
      match nth_error (s_conns s) p with
      | Some None =>
          if Nat.eqb (length bits) (length (s_completed s)) then
            Some (set_conn s p (Some (mkC bits false false [] [] [] [] None [] None)))
          else None
      | _ => None
      end
  | Have p i =>
      match get_conn s p with
      | Some c =>
          if i <? npieces s then
            Some (set_conn s p (Some (mkC (setb (c_have c) (N.to_nat i)) (c_interested c) (c_unchoked c) (c_q c) (c_u c)
                                         (c_s c) (c_c c) (c_t c) (c_cancels c) (c_aff c))))
          else None
      | None => None
      end
  | Choke p =>
      match get_conn s p with
      | Some c =>
          (* RequestList::choked: nothing moves when queued and unordered are both empty
             (and, in the repaired code, the stalled bucket too) *)
          match c_q c, c_u c, (if choke_checks_stalled then c_s c else []) with
          | [], [], [] => Some (set_conn s p (Some (mkC (c_have c) (c_interested c) false (c_q c) (c_u c) (c_s c) (c_c c)
                                                   (c_t c) (c_cancels c) (c_aff c))))
          | _, _, _ => Some (set_conn s p (Some (mkC (c_have c) (c_interested c) false [] [] []
                                                 (c_c c ++ c_q c ++ c_u c ++ c_s c) (c_t c) (c_cancels c) (c_aff c))))
          end
      | None => None
      end
  | Unchoke p =>
      match get_conn s p with
      | Some c => Some (set_conn s p (Some (mkC (c_have c) (c_interested c) true (c_q c) (c_u c) (c_s c) (c_c c)
                                               (c_t c) (c_cancels c) (c_aff c))))
      | None => None
      end
  | PieceBegin p i o l => piece_begin s p i o l
  | PieceEnd p => piece_end s p
  | Piece p i o l =>
      match piece_begin s p i o l with
      | Some s1 => piece_end s1 p
      | None => None
      end
  | Disc p =>
      match get_conn s p with
      | Some _ => Some (set_conn s p None)     (* RequestList::clear releases every entry *)
      | None => None
      end
  | Advance _ => Some s
  | Wanted bits =>
      if Nat.eqb (length bits) (length (s_completed s)) then
        Some (mkS (s_plen s) (s_total s) (s_completed s) bits (s_active s) (s_fin s) (s_aggr s) (s_conns s))
      else None
  | SInterested p =>
      match get_conn s p with
      | Some c => Some (set_conn s p (Some (mkC (c_have c) true (c_unchoked c) (c_q c) (c_u c) (c_s c) (c_c c)
                                               (c_t c) (c_cancels c) (c_aff c))))
      | None => None
      end
  | SNotInterested p =>
      match get_conn s p with
      | Some c => Some (set_conn s p (Some (mkC (c_have c) false (c_unchoked c) (c_q c) (c_u c) (c_s c) (c_c c)
                                               (c_t c) (c_cancels c) (c_aff c))))
      | None => None
      end
  | SRequest p i o l =>
      match get_conn s p with
      | None => None
      | Some c =>
          let listed := memN i (s_active s) in
          if c_interested c && c_unchoked c                         (* should_request *)
             && valid_block s i o l                                  (* BlockList geometry *)
             && negb (getb (s_completed s) i)
             && negb (mem_blk i o (s_fin s))                         (* !is_finished *)
             && negb (holds c i o)                                   (* Block::insert refusal *)
             && negb (listed_any c i o)                              (* never behind a stale entry for the same block *)
             && (getb (c_have c) i || match c_aff c with Some a => a =? i | None => false end)
             && (listed || (getb (s_wanted s) i && getb (c_have c) i))   (* ChunkSelector::find for a new chunk *)
             && (if s_aggr s then not_stalled s i o <? overlapped else not_stalled s i o =? 0)
          then
            let c' := mkC (c_have c) (c_interested c) (c_unchoked c) (c_q c ++ [mkE i o true false]) (c_u c) (c_s c)
                          (c_c c) (c_t c) (c_cancels c) (Some i) in
            let s1 := set_conn s p (Some c') in
            Some (mkS (s_plen s1) (s_total s1) (s_completed s1) (s_wanted s1) (insert_sorted i (s_active s1))
                      (s_fin s1) (s_aggr s1) (s_conns s1))
          else None
      end
  | SCancel p i o l =>
      match get_conn s p with
      | None => None
      | Some c =>
          match c_cancels c with
          | (i', o') :: r =>
              if (i' =? i) && (o' =? o) then
                Some (set_conn s p (Some (mkC (c_have c) (c_interested c) (c_unchoked c) (c_q c) (c_u c) (c_s c) (c_c c)
                                             (c_t c) r (c_aff c))))
              else None
          | [] => None
          end
      end
  | Fin i =>
      if (i <? npieces s) && negb (getb (s_completed s) i) && memN i (s_active s) && all_blocks_fin s i then
        let comp := setb (s_completed s) (N.to_nat i) in
        let act := filter (fun x => negb (x =? i)) (s_active s) in
        Some (mkS (s_plen s) (s_total s) comp (s_wanted s) act
                  (filter (fun b => negb (fst b =? i)) (s_fin s))
                  (s_aggr s) (s_conns s))
      else None
  | DropChoked p =>
      match get_conn s p with
      | Some c => Some (set_conn s p (Some (mkC (c_have c) (c_interested c) (c_unchoked c) (c_q c) (c_u c) (c_s c) []
                                               (c_t c) (c_cancels c) (c_aff c))))
      | None => None
      end
  | DropUnordered p n =>
      match get_conn s p with
      | Some c =>
          if Nat.leb n (length (c_u c)) then
            Some (set_conn s p (Some (mkC (c_have c) (c_interested c) (c_unchoked c) (c_q c) (skipn n (c_u c)) (c_s c)
                                         (c_c c) (c_t c) (c_cancels c) (c_aff c))))
          else None
      | None => None
      end
  | StallTick p t =>
      match get_conn s p with
      | Some c =>
          Some (set_conn s p (Some (mkC (c_have c) (c_interested c) (c_unchoked c) [] []
                                       (c_s c ++ map mark_stalled (c_q c) ++ map mark_stalled (c_u c)) (c_c c)
                                       (if t then option_map mark_stalled (c_t c) else c_t c) (c_cancels c) (c_aff c))))
      | None => None
      end
  | LoseInterest p | QueueChoke p | QueueUnchoke p =>
      match get_conn s p with Some _ => Some s | None => None end
  | SnapConn p unch q u s' c' t _ _ _ =>
      match get_conn s p with
      | Some c =>
          if Bool.eqb unch (c_unchoked c) && ents_eqb q (c_q c) && ents_eqb u (c_u c) && ents_eqb s' (c_s c)
             && ents_eqb c' (c_c c) && opt_eqb entry_eqb t (c_t c)
          then Some s else None
      | None => None
      end
  | Endgame =>
      (* DownloadMain::update_endgame switched the delegator to aggressive mode. It runs inside
         receive_hash_done / start, whose position relative to the REQUESTs of the same lock step is
         not observable; completed + listed never decreases, so the threshold is checked at the
         next global snapshot instead (SnapGlobal). *)
      Some (mkS (s_plen s) (s_total s) (s_completed s) (s_wanted s) (s_active s) (s_fin s) true (s_conns s))
  | SnapGlobal aggr act comp =>
      if Bool.eqb aggr (s_aggr s) && list_eqb N.eqb act (s_active s) && bits_eqb comp (s_completed s)
         && (negb aggr || endgame_now (s_completed s) (s_active s))
      then Some s else None
  end.

Fixpoint run (s : state) (evs : list event) : option state :=
  match evs with
  | [] => Some s
  | e :: r => match accept s e with Some s' => run s' r | None => None end
  end.

(* index of the first rejected event, for the driver *)
Fixpoint run_ix (s : state) (evs : list event) (k : nat) : nat + state :=
  match evs with
  | [] => inr s
  | e :: r => match accept s e with Some s' => run_ix s' r (S k) | None => inl k end
  end.

(* ---- RequestList::calculate_pipe_size ----
   The property does not fix the pipe-size formula. It is NOT modelled: the theorems that mention a pipe size are
   proved for EVERY policy `pipe : bool -> N -> N` (endgame flag, rate) with  forall a r, 1 <= pipe a r  (Section
   PipePolicy in ProofsLive.v); the implementation's policy is probed from the compiled code on every run
   (harness line `probe-pipe`) and the side condition is checked on the probed table by props/c04.py. *)
Definition params_ok : bool := (0 <? block_size).


(* =====================================================================================================
   Liveness layer: the client's INTERNAL interest flag (m_down_interested) and the connection's membership
   of the download choke queue (m_down_choke.queued()), per peer slot, on top of `accept`.
   Code modelled: PeerConnectionBase::initialize (interest at connect), PeerConnection<>::read_message
   (UNCHOKE queues an interested connection, CHOKE un-queues), read_have_chunk (interest raised by a HAVE),
   update_interested (Download::update_priorities), fill_write_buffer (interest dropped when
   try_request_pieces finds nothing and no listed piece is announced), receive_download_choke (own queue),
   should_request (m_down_interested), try_request_pieces (pipe gate and loop guard).
   The four repairs of this property are source-extracted flags (ParamsGen):                              *)
Definition fix_update_interested_queues : bool := 0 <? Params.c04_update_interested_queues.
Definition fix_have_listed_raises : bool := 0 <? Params.c04_have_listed_raises.
Definition fix_pipe_counts_valid : bool := 0 <? Params.c04_pipe_counts_valid.
Definition fix_choke_restores_interest : bool := 0 <? Params.c04_choke_restores_interest.

Record xstate := mkX { x_s : state; x_dl : list (bool * bool) }.   (* (m_down_interested, queued) per slot *)

Definition dl_get (x : xstate) (p : nat) : bool * bool := nth p (x_dl x) (false, false).
Definition dint (x : xstate) (p : nat) : bool := fst (dl_get x p).
Definition dq (x : xstate) (p : nat) : bool := snd (dl_get x p).

Definition all_done (s : state) : bool := forallb (fun b => b) (s_completed s).

Definition xinit (plen total : N) (completed wanted : list bool) : xstate :=
  mkX (init plen total completed wanted) [(false, false); (false, false); (false, false); (false, false)].

(* RequestList::is_interested_in_active *)
Definition interested_in_active (s : state) (c : conn) : bool := existsb (fun i => getb (c_have c) i) (s_active s).

(* what Delegator::delegate could hand to this connection: the REQUEST guard of `accept` without the flags *)
Definition blk_ok (s : state) (c : conn) (i o : N) : bool :=
  let l := N.min block_size (piece_size s i - o) in
  valid_block s i o l
  && negb (getb (s_completed s) i) && negb (mem_blk i o (s_fin s)) && negb (holds c i o) && negb (listed_any c i o)
  && (getb (c_have c) i || match c_aff c with Some a => a =? i | None => false end)
  && (memN i (s_active s) || (getb (s_wanted s) i && getb (c_have c) i))
  && (if s_aggr s then not_stalled s i o <? overlapped else not_stalled s i o =? 0).

Definition delegatable (s : state) (c : conn) : bool :=
  existsb (fun pi => let i := N.of_nat pi in
                     existsb (fun k => blk_ok s c i (N.of_nat k * block_size)) (seq 0 (N.to_nat (nblocks s i))))
          (seq 0 (length (s_completed s))).

(* RequestList::pipe_size and the two places of try_request_pieces that look at it *)
Definition pipe_size (c : conn) : N :=
  N.of_nat (length (c_q c)) + N.of_nat (length (c_s c)) + N.of_nat (length (c_u c)) / 4.
Definition queued_for_pipe (c : conn) : N :=
  if fix_pipe_counts_valid then N.of_nat (length (filter e_valid (c_q c))) else N.of_nat (length (c_q c)).
Definition pipe_gate_closed (c : conn) (pipe : N) : bool :=
  (pipe + Params.c04_pipe_gate_add) / Params.c04_pipe_gate_div <=? pipe_size c.
Definition pipe_has_room (c : conn) (pipe : N) : bool := queued_for_pipe c <? pipe.
(* smallest value the gate can have: pipe >= 1 *)
Definition min_gate : N := (1 + Params.c04_pipe_gate_add) / Params.c04_pipe_gate_div.

(* ChunkSelector::received_have_chunk, and the listed-piece clause of the repaired read_have_chunk *)
Definition have_raises (s : state) (i : N) : bool :=
  (negb (getb (s_completed s) i) && negb (memN i (s_active s)) && getb (s_wanted s) i)
  || (fix_have_listed_raises && memN i (s_active s)).

Definition set_dl (x : xstate) (s' : state) (p : nat) (v : bool * bool) : xstate :=
  mkX s' (set_nth (x_dl x) p v).

Definition unch_of (s : state) (p : nat) : bool :=
  match get_conn s p with Some c => c_unchoked c | None => false end.

(* update_interested on every connection *)
Fixpoint upd_all (s : state) (l : list (bool * bool)) (p : nat) : list (bool * bool) :=
  match l with
  | [] => []
  | (di, q) :: r =>
      (match get_conn s p with
       | Some c => if di then (di, q) else (true, q || (fix_update_interested_queues && c_unchoked c))
       | None => (di, q)
       end) :: upd_all s r (S p)
  end.

Definition xaccept (x : xstate) (ev : event) : option xstate :=
  let s := x_s x in
  match ev with
  | SRequest p _ _ _ =>
      if dint x p then option_map (fun s' => mkX s' (x_dl x)) (accept s ev) else None   (* should_request *)
  | Join p _ =>
      option_map (fun s' => set_dl x s' p (negb (all_done s), false)) (accept s ev)
  | Unchoke p =>
      option_map (fun s' => set_dl x s' p (dint x p, dq x p || dint x p)) (accept s ev)
  | Choke p =>
      (* a connection choked by our own queue (queued, not interested) gets its interest back in the repaired code *)
      option_map (fun s' => set_dl x s' p (dint x p || (fix_choke_restores_interest && dq x p), false)) (accept s ev)
  | Disc p =>
      option_map (fun s' => set_dl x s' p (false, false)) (accept s ev)
  | Have p i =>
      match get_conn s p with
      | None => None
      | Some c =>
          let raise := negb (getb (c_have c) i) && negb (all_done s) && negb (dint x p) && have_raises s i in
          option_map (fun s' => if raise then set_dl x s' p (true, dq x p || c_unchoked c) else mkX s' (x_dl x)) (accept s ev)
      end
  | Wanted _ =>
      option_map (fun s' => mkX s' (upd_all s (x_dl x) 0)) (accept s ev)
  | LoseInterest p =>
      match get_conn s p with
      | None => None
      | Some c =>
          if dint x p && c_unchoked c && negb (interested_in_active s c)
             && (negb (delegatable s c) || (0 <? queued_for_pipe c) || (min_gate <=? pipe_size c))
          then Some (set_dl x s p (false, false)) else None
      end
  | QueueChoke p =>
      match get_conn s p with
      | None => None
      | Some c => if dint x p && dq x p && c_unchoked c then Some (set_dl x s p (false, true)) else None
      end
  | QueueUnchoke p =>
      match get_conn s p with
      | None => None
      | Some c => if dq x p then Some (set_dl x s p (true, true)) else None   (* receive_download_choke(false) *)
      end
  | SnapConn p _ _ _ _ _ _ di q _ =>
      if Bool.eqb di (dint x p) && Bool.eqb q (dq x p) then option_map (fun s' => mkX s' (x_dl x)) (accept s ev) else None
  | _ => option_map (fun s' => mkX s' (x_dl x)) (accept s ev)
  end.

Fixpoint xrun (x : xstate) (evs : list event) : option xstate :=
  match evs with
  | [] => Some x
  | e :: r => match xaccept x e with Some x' => xrun x' r | None => None end
  end.

Fixpoint xrun_ix (x : xstate) (evs : list event) (k : nat) : nat + xstate :=
  match evs with
  | [] => inr x
  | e :: r => match xaccept x e with Some x' => xrun_ix x' r (S k) | None => inl k end
  end.

(* =====================================================================================================
   Own download slots: m_down_choke.unchoked() per slot (the client's OWN choke queue, limited by
   ResourceManager::max_download_unchoked). It only GATES requests (should_request's m_down_choke.choked());
   the peer-choke rule of `accept` is untouched. QueueUnchoke / QueueChoke are the queue's decisions (observed). *)
Record ystate := mkY { y_x : xstate; y_du : list bool }.
Definition dun (y : ystate) (p : nat) : bool := nth p (y_du y) false.
Definition yinit (plen total : N) (completed wanted : list bool) : ystate :=
  mkY (xinit plen total completed wanted) [false; false; false; false].
Definition set_du (y : ystate) (x' : xstate) (p : nat) (v : bool) : ystate := mkY x' (set_nth (y_du y) p v).

Definition yaccept (y : ystate) (ev : event) : option ystate :=
  let x := y_x y in
  match ev with
  | SRequest p _ _ _ => if dun y p then option_map (fun x' => mkY x' (y_du y)) (xaccept x ev) else None
  | QueueUnchoke p => option_map (fun x' => set_du y x' p true) (xaccept x ev)
  | QueueChoke p => if dun y p then option_map (fun x' => set_du y x' p false) (xaccept x ev) else None
  | LoseInterest p => if dun y p then option_map (fun x' => set_du y x' p false) (xaccept x ev) else None
  | Choke p | Join p _ | Disc p => option_map (fun x' => set_du y x' p false) (xaccept x ev)
  | SnapConn p _ _ _ _ _ _ _ _ du =>
      if Bool.eqb du (dun y p) then option_map (fun x' => mkY x' (y_du y)) (xaccept x ev) else None
  | _ => option_map (fun x' => mkY x' (y_du y)) (xaccept x ev)
  end.

Fixpoint yrun (y : ystate) (evs : list event) : option ystate :=
  match evs with
  | [] => Some y
  | e :: r => match yaccept y e with Some y' => yrun y' r | None => None end
  end.

Fixpoint yrun_ix (y : ystate) (evs : list event) (k : nat) : nat + ystate :=
  match evs with
  | [] => inr y
  | e :: r => match yaccept y e with Some y' => yrun_ix y' r (S k) | None => inl k end
  end.
