(* C04 proofs, part 2: the wire-visible flags of a connection equal what the TRACE says
   (last INTERESTED / NOT_INTERESTED sent, last UNCHOKE / CHOKE received), hence
   not_while_choked_or_uninterested as a statement about traces; voided_reissued. *)
From Coq Require Import NArith List Bool Lia Arith.
From LTV.C04 Require Import ParamsGen Model Proofs.
Import ListNotations.
Open Scope N_scope.

(* What a wire observer knows about peer p after a trace, scanning from the most recent event. *)
Definition int_step (e : event) (p : nat) (b : bool) : bool :=
  match e with
  | SInterested q => if Nat.eqb q p then true else b
  | SNotInterested q => if Nat.eqb q p then false else b
  | Join q _ => if Nat.eqb q p then false else b
  | _ => b
  end.
Definition unch_step (e : event) (p : nat) (b : bool) : bool :=
  match e with
  | Unchoke q => if Nat.eqb q p then true else b
  | Choke q => if Nat.eqb q p then false else b
  | Join q _ => if Nat.eqb q p then false else b
  | _ => b
  end.
(* argument: the trace REVERSED (most recent first) *)
Fixpoint last_interested (p : nat) (r : list event) : bool :=
  match r with [] => false | e :: r' => int_step e p (last_interested p r') end.
Fixpoint last_unchoked (p : nat) (r : list event) : bool :=
  match r with [] => false | e :: r' => unch_step e p (last_unchoked p r') end.

Definition agrees (l : list (option conn)) (g : nat -> bool * bool) : Prop :=
  forall p c, nth_error l p = Some (Some c) -> c_interested c = fst (g p) /\ c_unchoked c = snd (g p).
Definition gnext (e : event) (g : nat -> bool * bool) : nat -> bool * bool :=
  fun p => (int_step e p (fst (g p)), unch_step e p (snd (g p))).

Lemma agrees_set : forall l g g' p x, agrees l g ->
  (forall c, x = Some c -> c_interested c = fst (g' p) /\ c_unchoked c = snd (g' p)) ->
  (forall q, p <> q -> g' q = g q) -> agrees (set_nth l p x) g'.
Proof.
  intros l g g' p x H Hx Hq q c Hn. destruct (Nat.eq_dec p q) as [->|Hne].
  - destruct (Nat.lt_ge_cases q (length l)) as [Hl|Hl].
    + rewrite nth_error_set_nth_eq in Hn by assumption. inversion Hn. apply Hx. assumption.
    + assert (nth_error (set_nth l q x) q = None) by (apply nth_error_None; rewrite set_nth_length; assumption). congruence.
  - rewrite nth_error_set_nth_neq in Hn by assumption. rewrite (Hq q Hne). apply H. assumption.
Qed.

Lemma agrees_ext : forall l g g', agrees l g -> (forall q, g' q = g q) -> agrees l g'.
Proof. intros l g g' H E q c Hn. rewrite E. apply H. assumption. Qed.

Lemma agrees_map : forall (f : conn -> conn) l g,
  (forall c, c_interested (f c) = c_interested c /\ c_unchoked (f c) = c_unchoked c) ->
  agrees l g -> agrees (map (option_map f) l) g.
Proof.
  intros f l g Hf H q c Hn. rewrite nth_error_map in Hn. destruct (nth_error l q) as [[c0|]|] eqn:E; cbn in Hn; try discriminate.
  inversion Hn. destruct (Hf c0) as [A B]. rewrite A, B. apply H. assumption.
Qed.

Lemma pair_eta : forall (x : bool * bool), (fst x, snd x) = x.
Proof. destruct x; reflexivity. Qed.

Lemma piece_begin_flags : forall s p i o l s' g e,
  (forall q, gnext e g q = g q) ->
  agrees (s_conns s) g -> piece_begin s p i o l = Some s' -> agrees (s_conns s') (gnext e g).
Proof.
  unfold piece_begin. intros s p i o l s' g e0 He H A.
  destruct (get_conn s p) as [c|] eqn:G; [|discriminate].
  destruct (c_t c); [discriminate|].
  destruct (c_t (downloading c i o)); [|discriminate].
  destruct (e_valid e && negb (valid_block s i o l)); [discriminate|]. inversion A. cbn.
  apply agrees_set with (g := g); [assumption| |intros; apply He].
  intros c0 E. inversion E. rewrite He. destruct (downloading_flags c i o) as [A1 A2]. rewrite A1, A2.
  apply H. apply get_conn_nth. assumption.
Qed.

Lemma piece_end_flags : forall s p s' g e,
  (forall q, gnext e g q = g q) ->
  agrees (s_conns s) g -> piece_end s p = Some s' -> agrees (s_conns s') (gnext e g).
Proof.
  unfold piece_end. intros s p s' g e0 He H A.
  destruct (get_conn s p) as [c|] eqn:G; [|discriminate].
  destruct (c_t c) as [e|]; [|discriminate].
  assert (K : agrees (set_nth (s_conns s) p (Some (with_t c None))) (gnext e0 g)).
  { apply agrees_set with (g := g); [assumption| |intros; apply He].
    intros c0 E. inversion E. rewrite He. unfold with_t. cbn. apply H. apply get_conn_nth. assumption. }
  destruct (e_valid e); inversion A; cbn.
  - unfold invalidate_all. apply agrees_map; [|assumption]. intros c0. unfold invalidate_conn. cbn. split; reflexivity.
  - assumption.
Qed.

Ltac old_flags H G := let X := fresh "OF" in
  pose proof (H _ _ (proj1 (get_conn_nth _ _ _) G)) as X; destruct X as [?Hi ?Hu].

Ltac same_conn_flags H G g :=
  apply agrees_set with (g := g);
  [ assumption
  | let c0 := fresh "c0" in let E := fresh "E" in
    intros c0 E; inversion E; old_flags H G; unfold gnext; cbn; rewrite ?Nat.eqb_refl; cbn; split; congruence
  | let q := fresh "q" in let Hq := fresh "Hq" in
    intros q Hq; unfold gnext; cbn; rewrite ?(proj2 (Nat.eqb_neq _ _) Hq); apply pair_eta ].

Lemma accept_flags : forall s ev s' g, agrees (s_conns s) g -> accept s ev = Some s' -> agrees (s_conns s') (gnext ev g).
Proof.
  intros s ev s' g H A. destruct ev; cbn [accept] in A.
  - (* Join *) destruct (nth_error (s_conns s) p) as [[|]|]; try discriminate.
    destruct (Nat.eqb _ _); [|discriminate]. inversion A. cbn.
    apply agrees_set with (g := g); [assumption| |].
    + intros c0 E. inversion E. unfold gnext. cbn. rewrite Nat.eqb_refl. split; reflexivity.
    + intros q Hq. unfold gnext. cbn. rewrite (proj2 (Nat.eqb_neq _ _) Hq). apply pair_eta.
  - (* Have *) conn_case s p G. destruct (i <? npieces s); [|discriminate]. inversion A. cbn. same_conn_flags H G g.
  - (* Choke *) conn_case s p G. destruct (c_q c), (c_u c), (if choke_checks_stalled then c_s c else []); inversion A; cbn; same_conn_flags H G g.
  - (* Unchoke *) conn_case s p G. inversion A. cbn. same_conn_flags H G g.
  - (* Piece *) destruct (piece_begin s p i o l) as [s1|] eqn:B; [|discriminate].
    assert (E1 : forall q, gnext (Piece p i o l) g q = g q) by (intro; unfold gnext; cbn; apply pair_eta).
    pose proof (piece_begin_flags _ _ _ _ _ _ _ _ E1 H B) as H1.
    apply agrees_ext with (g := gnext (Piece p i o l) (gnext (Piece p i o l) g)).
    + eapply piece_end_flags; [|eassumption|eassumption]. intro q. unfold gnext. cbn. reflexivity.
    + intro q. unfold gnext. cbn. reflexivity.
  - (* PieceBegin *) eapply piece_begin_flags; [|eassumption|eassumption]. intro; unfold gnext; cbn; apply pair_eta.
  - (* PieceEnd *) eapply piece_end_flags; [|eassumption|eassumption]. intro; unfold gnext; cbn; apply pair_eta.
  - (* Disc *) conn_case s p G. inversion A. cbn. apply agrees_set with (g := g); [assumption|intros; discriminate|].
    intros q Hq. unfold gnext. cbn. apply pair_eta.
  - (* Advance *) inversion A. subst. eapply agrees_ext; [eassumption|]. intro; unfold gnext; cbn; apply pair_eta.
  - (* Wanted *) destruct (Nat.eqb _ _); [|discriminate]. inversion A. cbn.
    eapply agrees_ext; [eassumption|]. intro; unfold gnext; cbn; apply pair_eta.
  - (* SInterested *) conn_case s p G. inversion A. cbn. same_conn_flags H G g.
  - (* SNotInterested *) conn_case s p G. inversion A. cbn. same_conn_flags H G g.
  - (* SRequest *) conn_case s p G.
    match type of A with (if ?b then _ else _) = _ => destruct b end; [|discriminate].
    inversion A. cbn. same_conn_flags H G g.
  - (* SCancel *) conn_case s p G.
    destruct (c_cancels c) as [|[i' o'] r]; [discriminate|]. destruct ((i' =? i) && (o' =? o)); [|discriminate].
    inversion A. cbn. same_conn_flags H G g.
  - (* Fin *) match type of A with (if ?b then _ else _) = _ => destruct b end; [|discriminate]. inversion A. cbn.
    eapply agrees_ext; [eassumption|]. intro; unfold gnext; cbn; apply pair_eta.
  - (* DropChoked *) conn_case s p G. inversion A. cbn. same_conn_flags H G g.
  - (* DropUnordered *) conn_case s p G. destruct (Nat.leb _ _); [|discriminate]. inversion A. cbn. same_conn_flags H G g.
  - (* StallTick *) conn_case s p G. inversion A. cbn. same_conn_flags H G g.
  - (* Endgame *) inversion A. cbn. eapply agrees_ext; [eassumption|]. intro; unfold gnext; cbn; apply pair_eta.
  - (* LoseInterest *) conn_case s p G. inversion A. subst. eapply agrees_ext; [eassumption|]. intro; unfold gnext; cbn; apply pair_eta.
  - (* QueueChoke *) conn_case s p G. inversion A. subst. eapply agrees_ext; [eassumption|]. intro; unfold gnext; cbn; apply pair_eta.
  - (* QueueUnchoke *) conn_case s p G. inversion A. subst. eapply agrees_ext; [eassumption|]. intro; unfold gnext; cbn; apply pair_eta.
  - (* SnapConn *) conn_case s p G. match type of A with (if ?b then _ else _) = _ => destruct b end; [|discriminate].
    inversion A. subst. eapply agrees_ext; [eassumption|]. intro; unfold gnext; cbn; apply pair_eta.
  - (* SnapGlobal *) match type of A with (if ?b then _ else _) = _ => destruct b end; [|discriminate].
    inversion A. subst. eapply agrees_ext; [eassumption|]. intro; unfold gnext; cbn; apply pair_eta.
Qed.

Lemma run_snoc : forall evs s e s', run s (evs ++ [e]) = Some s' -> exists s1, run s evs = Some s1 /\ accept s1 e = Some s'.
Proof.
  induction evs; intros s e s' R; cbn in *.
  - destruct (accept s e) eqn:A; [|discriminate]. inversion R. subst. exists s. split; [reflexivity|assumption].
  - destruct (accept s a) eqn:A; [|discriminate]. apply IHevs. assumption.
Qed.

Lemma run_flags : forall evs plen total comp w s,
  run (init plen total comp w) evs = Some s ->
  agrees (s_conns s) (fun p => (last_interested p (rev evs), last_unchoked p (rev evs))).
Proof.
  induction evs using rev_ind; intros plen total comp w s R.
  - cbn in R. inversion R. cbn. intros p c Hn. do 4 (destruct p; cbn in Hn; [discriminate|]). destruct p; discriminate.
  - apply run_snoc in R. destruct R as (s1 & R1 & A). specialize (IHevs _ _ _ _ _ R1).
    pose proof (accept_flags _ _ _ _ IHevs A) as K. eapply agrees_ext; [eassumption|].
    intro q. rewrite rev_app_distr. cbn. reflexivity.
Qed.

(* not_while_choked_or_uninterested: in every accepted trace, when a REQUEST to peer p is accepted, the most
   recent of {INTERESTED, NOT_INTERESTED} sent to p (since it joined) is INTERESTED and the most recent of
   {UNCHOKE, CHOKE} received from p is UNCHOKE. *)
Theorem not_while_choked_or_uninterested : forall plen total comp w evs s p i o l s',
  run (init plen total comp w) evs = Some s ->
  accept s (SRequest p i o l) = Some s' ->
  last_interested p (rev evs) = true /\ last_unchoked p (rev evs) = true.
Proof.
  intros plen total comp w evs s p i o l s' R A.
  destruct (srequest_conds _ _ _ _ _ _ A) as (c & G & Hi & Hu & _).
  pose proof (run_flags _ _ _ _ _ _ R) as F. destruct (F p c (proj1 (get_conn_nth _ _ _) G)) as [F1 F2]. cbn in F1, F2.
  split; congruence.
Qed.

(* ... and what "last_* = true" means, as a statement about positions in the trace *)
Definition int_neutral (p : nat) (e : event) : Prop :=
  match e with SNotInterested q | Join q _ => q <> p | _ => True end.
Definition unch_neutral (p : nat) (e : event) : Prop :=
  match e with Choke q | Join q _ => q <> p | _ => True end.

Lemma last_interested_split : forall p r, last_interested p r = true ->
  exists a b, r = a ++ SInterested p :: b /\ Forall (int_neutral p) a.
Proof.
  induction r as [|e r IH]; cbn; intro H; [discriminate|].
  destruct e; cbn in H;
    try (destruct (IH H) as (a & b & E & F); eexists (_ :: a), b; split; [rewrite E; reflexivity| constructor; [exact I|assumption]]).
  - (* Join *) destruct (Nat.eqb p0 p) eqn:Q; [discriminate|]. apply Nat.eqb_neq in Q.
    destruct (IH H) as (a & b & E & F). eexists (_ :: a), b. split; [rewrite E; reflexivity|constructor; [exact Q|assumption]].
  - (* SInterested *) destruct (Nat.eqb p0 p) eqn:Q.
    + apply Nat.eqb_eq in Q. subst. exists [], r. split; [reflexivity|constructor].
    + destruct (IH H) as (a & b & E & F). eexists (_ :: a), b. split; [rewrite E; reflexivity|constructor; [exact I|assumption]].
  - (* SNotInterested *) destruct (Nat.eqb p0 p) eqn:Q; [discriminate|]. apply Nat.eqb_neq in Q.
    destruct (IH H) as (a & b & E & F). eexists (_ :: a), b. split; [rewrite E; reflexivity|constructor; [exact Q|assumption]].
Qed.

Lemma last_unchoked_split : forall p r, last_unchoked p r = true ->
  exists a b, r = a ++ Unchoke p :: b /\ Forall (unch_neutral p) a.
Proof.
  induction r as [|e r IH]; cbn; intro H; [discriminate|].
  destruct e; cbn in H;
    try (destruct (IH H) as (a & b & E & F); eexists (_ :: a), b; split; [rewrite E; reflexivity| constructor; [exact I|assumption]]).
  - (* Join *) destruct (Nat.eqb p0 p) eqn:Q; [discriminate|]. apply Nat.eqb_neq in Q.
    destruct (IH H) as (a & b & E & F). eexists (_ :: a), b. split; [rewrite E; reflexivity|constructor; [exact Q|assumption]].
  - (* Choke *) destruct (Nat.eqb p0 p) eqn:Q; [discriminate|]. apply Nat.eqb_neq in Q.
    destruct (IH H) as (a & b & E & F). eexists (_ :: a), b. split; [rewrite E; reflexivity|constructor; [exact Q|assumption]].
  - (* Unchoke *) destruct (Nat.eqb p0 p) eqn:Q.
    + apply Nat.eqb_eq in Q. subst. exists [], r. split; [reflexivity|constructor].
    + destruct (IH H) as (a & b & E & F). eexists (_ :: a), b. split; [rewrite E; reflexivity|constructor; [exact I|assumption]].
Qed.

(* the REQUEST is preceded by an INTERESTED to p with no later NOT_INTERESTED (or re-join), and by an UNCHOKE
   from p with no later CHOKE (or re-join):  evs = before ++ [INTERESTED p] ++ after, `after` neutral. *)
Theorem request_preceded_by_interested_and_unchoke : forall plen total comp w evs s p i o l s',
  run (init plen total comp w) evs = Some s ->
  accept s (SRequest p i o l) = Some s' ->
  (exists before after, evs = before ++ SInterested p :: after /\ Forall (int_neutral p) after) /\
  (exists before after, evs = before ++ Unchoke p :: after /\ Forall (unch_neutral p) after).
Proof.
  intros plen total comp w evs s p i o l s' R A.
  destruct (not_while_choked_or_uninterested _ _ _ _ _ _ _ _ _ _ _ R A) as [H1 H2].
  split.
  - destruct (last_interested_split _ _ H1) as (a & b & E & F). exists (rev b), (rev a). split.
    + rewrite <- (rev_involutive evs), E, rev_app_distr. cbn. rewrite <- app_assoc. reflexivity.
    + apply Forall_rev. assumption.
  - destruct (last_unchoked_split _ _ H2) as (a & b & E & F). exists (rev b), (rev a). split.
    + rewrite <- (rev_involutive evs), E, rev_app_distr. cbn. rewrite <- app_assoc. reflexivity.
    + apply Forall_rev. assumption.
Qed.
