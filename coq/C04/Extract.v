From Coq Require Import Extraction ExtrOcamlBasic NArith ZArith List.
From LTV.C04 Require Import Model.
Set Extraction Optimize.
Extraction Language OCaml.
Extraction "extracted/c04_model.ml" init accept run run_ix xinit xaccept xrun xrun_ix yinit yaccept yrun yrun_ix delegatable params_ok valid_block not_stalled holds Z.of_N.
