(* C04 proofs, part 4: what the repaired liveness mechanisms guarantee, as theorems over the acceptor's
   liveness layer (xaccept): the four repairs are source-extracted flags; each theorem names the flag it needs
   and fixes_present_now shows that all flags are set for the current sources. *)
From Coq Require Import NArith List Bool Lia Arith.
From LTV.C04 Require Import ParamsGen Model Proofs ProofsTrace ProofsVoid.
Import ListNotations.
Open Scope N_scope.

(* keep the source-extracted repair flags symbolic: the theorems are stated for the flag, fixes_present_now evaluates it *)
Opaque fix_update_interested_queues fix_have_listed_raises fix_pipe_counts_valid choke_checks_stalled.

Lemma xaccept_accept : forall x ev x', xaccept x ev = Some x' ->
  (accept (x_s x) ev = Some (x_s x')).
Proof.
  intros x ev x' H. destruct ev; cbn [xaccept] in H;
    repeat match type of H with
           | option_map _ ?o = _ => destruct o eqn:?; cbn in H; [|discriminate]
           | match ?o with Some _ => _ | None => _ end = _ => destruct o eqn:?; [|try discriminate]
           | (if ?b then _ else _) = _ => destruct b; [|try discriminate]
           end; try discriminate; try (inversion H; subst; cbn; try assumption; try reflexivity).
  all: try (cbn [accept]; match goal with G : get_conn _ _ = Some _ |- _ => rewrite G; reflexivity end).
  all: try (match goal with |- context[if ?b then _ else _] => destruct b end; reflexivity).
Qed.

Lemma xrun_run : forall evs x x', xrun x evs = Some x' -> run (x_s x) evs = Some (x_s x').
Proof.
  induction evs; intros x x' H; cbn in *.
  - inversion H. reflexivity.
  - destruct (xaccept x a) eqn:A; [|discriminate]. rewrite (xaccept_accept _ _ _ A). apply IHevs. assumption.
Qed.

(* ---------- peer-unchoked flag after one step ---------- *)
Lemma unch_of_some : forall s p, unch_of s p = true -> exists c, get_conn s p = Some c /\ c_unchoked c = true.
Proof. unfold unch_of. intros s p H. destruct (get_conn s p) as [c|]; [|discriminate]. exists c. split; [reflexivity|assumption]. Qed.

Lemma unch_after : forall s ev s' p c', accept s ev = Some s' -> get_conn s' p = Some c' ->
  c_unchoked c' = unch_step ev p (unch_of s p).
Proof.
  intros s ev s' p c' A G.
  set (g := fun q => (match get_conn s q with Some c => c_interested c | None => false end, unch_of s q)).
  assert (Ag : agrees (s_conns s) g).
  { intros q c Hn. apply get_conn_nth in Hn. unfold g, unch_of. rewrite Hn. split; reflexivity. }
  pose proof (accept_flags _ _ _ _ Ag A) as K. destruct (K p c' (proj1 (get_conn_nth _ _ _) G)) as [_ K2]. exact K2.
Qed.

(* ---------- the flag table ---------- *)
Lemma nth_set_nth_neq : forall A (l : list A) p q v d, p <> q -> nth q (set_nth l p v) d = nth q l d.
Proof. induction l; intros p q v d H; cbn; [reflexivity|]. destruct p, q; cbn; try reflexivity; try congruence. apply IHl. congruence. Qed.

Lemma nth_set_nth_eq : forall A (l : list A) p v d, nth p (set_nth l p v) d = v \/ nth p (set_nth l p v) d = d.
Proof. induction l; intros p v d; cbn; [right; destruct p; reflexivity|]. destruct p; cbn; [left; reflexivity|]. apply IHl. Qed.

Lemma dl_set_other : forall x s' p q v, p <> q -> dl_get (set_dl x s' p v) q = dl_get x q.
Proof. intros. unfold dl_get, set_dl. cbn. apply nth_set_nth_neq. assumption. Qed.

Lemma dl_set_same : forall x s' p v, dl_get (set_dl x s' p v) p = v \/ dl_get (set_dl x s' p v) p = (false, false).
Proof. intros. unfold dl_get, set_dl. cbn. apply nth_set_nth_eq. Qed.

Lemma upd_all_nth : forall s l k p,
  nth p (upd_all s l k) (false, false) =
    match nth_error l p with
    | None => (false, false)
    | Some (di, q) =>
        match get_conn s (k + p)%nat with
        | Some c => if di then (di, q) else (true, q || (fix_update_interested_queues && c_unchoked c))
        | None => (di, q)
        end
    end.
Proof.
  intros s l. induction l as [|[di q] r IH]; intros k p; cbn.
  - destruct p; reflexivity.
  - destruct p; cbn.
    + rewrite Nat.add_0_r. reflexivity.
    + rewrite IH. replace (S k + p)%nat with (k + S p)%nat by lia. reflexivity.
Qed.

(* ---------- (A) interested /\ peer-unchoked ==> queued in the download choke queue ---------- *)
Definition inv_queued (x : xstate) : Prop :=
  forall p c, get_conn (x_s x) p = Some c -> dint x p = true -> c_unchoked c = true -> dq x p = true.

Ltac split_peer p q := destruct (Nat.eq_dec p q) as [?EQ|?NE]; [subst|].

Lemma step_default : forall x s' ev, inv_queued x -> accept (x_s x) ev = Some s' ->
  (forall p b, unch_step ev p b = b) -> inv_queued (mkX s' (x_dl x)).
Proof.
  intros x s' ev I A U p c G Hd Hu. cbn in G.
  rewrite (unch_after _ _ _ _ _ A G), U in Hu. destruct (unch_of_some _ _ Hu) as (c0 & G0 & U0).
  exact (I p c0 G0 Hd U0).
Qed.

Lemma step_set : forall x s' ev p0 v, inv_queued x -> accept (x_s x) ev = Some s' ->
  (forall p b, p0 <> p -> unch_step ev p b = b) ->
  (forall c', get_conn s' p0 = Some c' -> fst v = true -> c_unchoked c' = true -> snd v = true) ->
  inv_queued (set_dl x s' p0 v).
Proof.
  intros x s' ev p0 v I A U Hv p c G Hd Hu. cbn in G. split_peer p0 p.
  - unfold dint, dq in *. destruct (dl_set_same x s' p v) as [E|E]; rewrite E in *; cbn in *; [|discriminate].
    eapply Hv; eassumption.
  - unfold dint, dq in *. rewrite dl_set_other in * by assumption.
    rewrite (unch_after _ _ _ _ _ A G), U in Hu by assumption. destruct (unch_of_some _ _ Hu) as (c0 & G0 & U0).
    exact (I p c0 G0 Hd U0).
Qed.

Ltac om H := match type of H with option_map _ ?o = _ => destruct o eqn:?A0; cbn in H; [|discriminate]; inversion H; subst; clear H end.

Theorem queued_invariant_step : fix_update_interested_queues = true ->
  forall x ev x', inv_queued x -> xaccept x ev = Some x' -> inv_queued x'.
Proof.
  intros FA x ev x' I H. destruct ev; cbn [xaccept] in H;
    try (om H; eapply step_default; [eassumption|eassumption|intros; reflexivity]).
  - (* Join *) om H. eapply step_set; [eassumption|eassumption| |].
    + intros q b Hq. cbn. rewrite (proj2 (Nat.eqb_neq _ _) Hq). reflexivity.
    + intros c' G _ Hu. rewrite (unch_after _ _ _ _ _ A0 G) in Hu. cbn in Hu. rewrite Nat.eqb_refl in Hu. discriminate.
  - (* Have *) destruct (get_conn (x_s x) p) as [c|] eqn:G; [|discriminate]. om H.
    match goal with |- inv_queued (if ?b then _ else _) => destruct b eqn:R end.
    + eapply step_set; [eassumption|eassumption|intros; reflexivity|].
      intros c' G' _ Hu. cbn. rewrite (unch_after _ _ _ _ _ A0 G') in Hu. cbn in Hu. unfold unch_of in Hu. rewrite G in Hu.
      rewrite Hu. apply orb_true_r.
    + eapply step_default; [eassumption|eassumption|intros; reflexivity].
  - (* Choke *) om H. eapply step_set; [eassumption|eassumption| |].
    + intros q b Hq. cbn. rewrite (proj2 (Nat.eqb_neq _ _) Hq). reflexivity.
    + intros c' G _ Hu. rewrite (unch_after _ _ _ _ _ A0 G) in Hu. cbn in Hu. rewrite Nat.eqb_refl in Hu. discriminate.
  - (* Unchoke *) om H. eapply step_set; [eassumption|eassumption| |].
    + intros q b Hq. cbn. rewrite (proj2 (Nat.eqb_neq _ _) Hq). reflexivity.
    + intros c' G Hd _. cbn in *. rewrite Hd. apply orb_true_r.
  - (* Disc *) om H. eapply step_set; [eassumption|eassumption|intros; reflexivity|]. intros c' _ Hd. cbn in Hd. discriminate.
  - (* Wanted *) om H. intros p c G Hd Hu. cbn in G.
    rewrite (unch_after _ _ _ _ _ A0 G) in Hu. cbn in Hu. destruct (unch_of_some _ _ Hu) as (c0 & G0 & U0).
    unfold dint, dq, dl_get in *. cbn in *. rewrite upd_all_nth in *. cbn in *.
    destruct (nth_error (x_dl x) p) as [[di q]|] eqn:N; [|cbn in Hd; discriminate].
    rewrite G0 in *. pose proof (I p c0 G0) as Ip. unfold dint, dq, dl_get in Ip.
    rewrite (nth_error_nth _ _ _ N) in Ip. cbn in Ip.
    destruct di; cbn in *; [apply Ip; [reflexivity|assumption]|]. rewrite FA, U0. apply orb_true_r.
  - (* SRequest *) destruct (dint x p); [|discriminate]. om H. eapply step_default; [eassumption|eassumption|intros; reflexivity].
  - (* LoseInterest *) destruct (get_conn (x_s x) p) as [c|] eqn:G; [|discriminate].
    match type of H with (if ?b then _ else _) = _ => destruct b end; [|discriminate]. inversion H; subst.
    eapply step_set with (ev := LoseInterest p); [eassumption|cbn [accept]; rewrite G; reflexivity|intros; reflexivity|].
    intros c' _ Hd. cbn in Hd. discriminate.
  - (* QueueChoke *) destruct (get_conn (x_s x) p) as [c|] eqn:G; [|discriminate].
    match type of H with (if ?b then _ else _) = _ => destruct b end; [|discriminate]. inversion H; subst.
    eapply step_set with (ev := QueueChoke p); [eassumption|cbn [accept]; rewrite G; reflexivity|intros; reflexivity|].
    intros c' _ Hd. cbn in Hd. discriminate.
  - (* QueueUnchoke *) destruct (get_conn (x_s x) p) as [c|] eqn:G; [|discriminate].
    match type of H with (if ?b then _ else _) = _ => destruct b end; [|discriminate]. inversion H; subst.
    eapply step_set with (ev := QueueUnchoke p); [eassumption|cbn [accept]; rewrite G; reflexivity|intros; reflexivity|].
    intros; reflexivity.
  - (* SnapConn *) match type of H with (if ?b then _ else _) = _ => destruct b end; [|discriminate]. om H.
    eapply step_default; [eassumption|eassumption|intros; reflexivity].
Qed.

Lemma xinit_inv : forall plen total comp w, inv_queued (xinit plen total comp w).
Proof.
  intros plen total comp w p c G. unfold xinit, get_conn, init in G. cbn in G.
  do 4 (destruct p; cbn in G; [discriminate|]). destruct p; discriminate.
Qed.

Lemma xrun_inv : forall (I : xstate -> Prop), (forall x ev x', I x -> xaccept x ev = Some x' -> I x') ->
  forall evs x x', I x -> xrun x evs = Some x' -> I x'.
Proof.
  intros I Hstep. induction evs; intros x x' Hi R; cbn in R.
  - inversion R. subst. assumption.
  - destruct (xaccept x a) eqn:A; [|discriminate]. eapply IHevs; [|eassumption]. eapply Hstep; eassumption.
Qed.

(* For every accepted trace: a connection whose internal interest flag is set while the peer has the client
   unchoked is a member of the download choke queue (so the next choke-queue balance / the 10 s rule of
   choke_queue::set_queued can unchoke it and should_request becomes true). Needs repair (A). *)
Theorem interested_unchoked_is_queued : fix_update_interested_queues = true ->
  forall plen total comp w evs x p c,
  xrun (xinit plen total comp w) evs = Some x ->
  get_conn (x_s x) p = Some c -> dint x p = true -> c_unchoked c = true -> dq x p = true.
Proof.
  intros FA plen total comp w evs x p c R. revert p c.
  change (inv_queued x). eapply (xrun_inv inv_queued (queued_invariant_step FA)); [apply xinit_inv|eassumption].
Qed.

(* ---------- (C) a HAVE for a wanted-or-listed piece raises interest ---------- *)
Theorem have_raises_interest : fix_have_listed_raises = true ->
  forall x p c i x', inv_queued x ->
  get_conn (x_s x) p = Some c -> xaccept x (Have p i) = Some x' ->
  getb (c_have c) i = false -> all_done (x_s x) = false ->
  getb (s_completed (x_s x)) i = false ->
  (memN i (s_active (x_s x)) = true \/ getb (s_wanted (x_s x)) i = true) ->
  (p < length (x_dl x))%nat ->
  dint x' p = true /\ (c_unchoked c = true -> dq x' p = true).
Proof.
  intros FC x p c i x' I G H Hb Hd Hc Hw Hl. cbn [xaccept] in H. rewrite G in H.
  destruct (accept (x_s x) (Have p i)) as [s'|] eqn:A; cbn in H; [|discriminate]. inversion H; subst; clear H.
  assert (HR : have_raises (x_s x) i = true).
  { unfold have_raises. rewrite FC, Hc. cbn. destruct (memN i (s_active (x_s x))) eqn:M; cbn; [reflexivity|].
    destruct Hw as [Hw|Hw]; [discriminate|]. rewrite Hw. reflexivity. }
  rewrite Hb, Hd, HR. cbn. destruct (dint x p) eqn:D; cbn.
  - (* already interested: unchanged; queued by the invariant *)
    split; [exact D|]. intros U. exact (I p c G D U).
  - unfold dint, dq, dl_get, set_dl. cbn.
    assert (E : nth p (set_nth (x_dl x) p (true, snd (nth p (x_dl x) (false, false)) || c_unchoked c)) (false, false)
                = (true, snd (nth p (x_dl x) (false, false)) || c_unchoked c)).
    { clear -Hl. revert p Hl. induction (x_dl x); intros p Hl; cbn in *; [lia|]. destruct p; cbn; [reflexivity|]. apply IHl. lia. }
    unfold dl_get in *. rewrite E. cbn. split; [reflexivity|]. intros U. rewrite U. apply orb_true_r.
Qed.

(* ---------- (D) after CHOKE no request of that connection stays in a live bucket ---------- *)
Theorem choke_leaves_nothing_live : choke_checks_stalled = true ->
  forall s p c s', get_conn s p = Some c -> accept s (Choke p) = Some s' ->
  exists c', get_conn s' p = Some c' /\ c_q c' = [] /\ c_u c' = [] /\ c_s c' = [] /\
    (forall e, In e (c_q c ++ c_u c ++ c_s c) -> In e (c_c c')).
Proof.
  intros FD s p c s' G A. cbn [accept] in A. rewrite G, FD in A. pose proof (get_conn_lt _ _ _ G) as L.
  destruct (c_q c) as [|eq lq] eqn:Q; destruct (c_u c) as [|eu lu] eqn:U; destruct (c_s c) as [|es ls] eqn:S3;
    inversion A; subst s'; eexists;
    (split; [unfold get_conn, set_conn; cbn; rewrite nth_error_set_nth_eq by assumption; reflexivity|]); cbn;
    repeat split; try reflexivity; try assumption;
    intros e0 In0; repeat (progress (rewrite ?in_app_iff in *; cbn [In app] in * )); tauto.
Qed.

(* ... and the 6 s timer (delay_remove_choked) then leaves the connection with no request in any bucket *)
Theorem choke_then_timer_empty : choke_checks_stalled = true ->
  forall s p c s1 s2, get_conn s p = Some c -> accept s (Choke p) = Some s1 -> accept s1 (DropChoked p) = Some s2 ->
  exists c2, get_conn s2 p = Some c2 /\ c_q c2 = [] /\ c_u c2 = [] /\ c_s c2 = [] /\ c_c c2 = [].
Proof.
  intros FD s p c s1 s2 G A1 A2. destruct (choke_leaves_nothing_live FD _ _ _ _ G A1) as (c1 & G1 & Q & U & S3 & _).
  destruct (released_by_choke_timer _ _ _ _ G1 A2) as (c2 & G2 & C & Q2 & U2 & S2).
  exists c2. repeat split; congruence.
Qed.

(* ---------- (E) the pipe counts only valid transfers ---------- *)
Section PipePolicy.
  (* any pipe-size policy (endgame flag, rate) that never returns 0 -- RequestList::calculate_pipe_size is probed, not modelled *)
  Variable pipe : bool -> N -> N.
  Hypothesis pipe_pos : forall aggr rate, 1 <= pipe aggr rate.

  Theorem pipe_counts_only_valid : fix_pipe_counts_valid = true ->
    forall c aggr rate, (forall e, In e (c_q c) -> e_valid e = false) ->
    pipe_has_room c (pipe aggr rate) = true.
  Proof.
    intros FE c aggr rate H. unfold pipe_has_room, queued_for_pipe. rewrite FE.
    assert (E : filter e_valid (c_q c) = []).
    { induction (c_q c) as [|e l IH]; [reflexivity|]. cbn. rewrite (H e (or_introl eq_refl)). apply IH. intros e0 I0. apply H. right. assumption. }
    rewrite E. cbn. apply N.ltb_lt. pose proof (pipe_pos aggr rate). lia.
  Qed.

  (* with a pipe of at least 1 the smallest value the request gate can take is min_gate *)
  Theorem gate_at_least_min : Params.c04_pipe_gate_div <> 0 -> forall aggr rate,
    min_gate <= (pipe aggr rate + Params.c04_pipe_gate_add) / Params.c04_pipe_gate_div.
  Proof.
    intros D aggr rate. unfold min_gate. apply N.div_le_mono; [assumption|]. pose proof (pipe_pos aggr rate). lia.
  Qed.
End PipePolicy.

(* When the acceptor admits "the client dropped its interest in p" (fill_write_buffer), then no listed piece is
   announced by p, and either nothing at all can be delegated to p, or a VALID request is queued at p, or the
   pipe gate is closed by at least min_gate listed requests. With (E): cancelled entries alone never do it. *)
Theorem interest_loss_justified : forall x p x', xaccept x (LoseInterest p) = Some x' ->
  exists c, get_conn (x_s x) p = Some c /\ dint x p = true /\ c_unchoked c = true /\
    interested_in_active (x_s x) c = false /\
    (delegatable (x_s x) c = false \/ 0 < queued_for_pipe c \/ min_gate <= pipe_size c).
Proof.
  intros x p x' H. cbn [xaccept] in H. destruct (get_conn (x_s x) p) as [c|] eqn:G; [|discriminate].
  match type of H with (if ?b then _ else _) = _ => destruct b eqn:C end; [|discriminate].
  repeat (apply andb_prop in C; destruct C as [C ?]).
  exists c. repeat split; try assumption.
  - apply negb_true_iff. assumption.
  - match goal with K : (_ || _ || _) = true |- _ => apply orb_prop in K; destruct K as [K|K]; [apply orb_prop in K; destruct K as [K|K]|] end.
    + left. apply negb_true_iff. assumption.
    + right. left. apply N.ltb_lt. assumption.
    + right. right. apply N.leb_le. assumption.
Qed.

(* a block that passes blk_ok makes the connection delegatable: interest cannot be dropped while such a block
   exists, no valid request is queued and fewer than min_gate requests are listed *)
Lemma delegatable_intro : forall s c i k, (N.to_nat i < length (s_completed s))%nat -> (k < N.to_nat (nblocks s i))%nat ->
  blk_ok s c i (N.of_nat k * block_size) = true -> delegatable s c = true.
Proof.
  intros s c i k Hi Hk B. unfold delegatable. apply existsb_exists. exists (N.to_nat i). split; [apply in_seq; lia|].
  rewrite N2Nat.id. apply existsb_exists. exists k. split; [apply in_seq; lia|assumption].
Qed.

Theorem interest_kept_while_requestable : fix_pipe_counts_valid = true ->
  forall x p c i k, get_conn (x_s x) p = Some c ->
  (N.to_nat i < length (s_completed (x_s x)))%nat -> (k < N.to_nat (nblocks (x_s x) i))%nat ->
  blk_ok (x_s x) c i (N.of_nat k * block_size) = true ->
  (forall e, In e (c_q c) -> e_valid e = false) -> pipe_size c < min_gate ->
  xaccept x (LoseInterest p) = None.
Proof.
  intros FE x p c i k G Hi Hk B Hq Hp. destruct (xaccept x (LoseInterest p)) as [x'|] eqn:A; [|reflexivity]. exfalso.
  destruct (interest_loss_justified _ _ _ A) as (c0 & G0 & _ & _ & _ & [D|[Q|P]]); rewrite G in G0; inversion G0; subst c0.
  - rewrite (delegatable_intro _ _ _ _ Hi Hk B) in D. discriminate.
  - unfold queued_for_pipe in Q. rewrite FE in Q.
    assert (E : filter e_valid (c_q c) = []).
    { clear -Hq. induction (c_q c) as [|e l IH]; [reflexivity|]. cbn. rewrite (Hq e (or_introl eq_refl)). apply IH. intros e0 I0. apply Hq. right. assumption. }
    rewrite E in Q. cbn in Q. lia.
  - lia.
Qed.

(* repairs (A), (C), (D) are in the current sources. Repair (E) (pipe counts only valid transfers) was committed and
   reverted again (a2b5039: it let a new request queue behind a stale cancelled one): the (E) theorems stay conditional
   on fix_pipe_counts_valid and class no-completion-cancelled-pipe is a listed finding. *)
Theorem fixes_present_now :
  fix_update_interested_queues = true /\ fix_have_listed_raises = true /\ choke_checks_stalled = true.
Proof. vm_compute. repeat split. Qed.

(* satisfiability *)
Definition x0 := xinit 32768 98304 [false; false; false] t3.
Example ex_live_trace : exists x, xrun x0 [Join 0 [false;false;false]; SInterested 0; Unchoke 0; LoseInterest 0; Wanted t3;
                                          Have 0 2; SRequest 0 2 0 16384] = Some x /\ dint x 0%nat = true /\ dq x 0%nat = true.
Proof. eexists. split; [vm_compute; reflexivity|]. split; vm_compute; reflexivity. Qed.
