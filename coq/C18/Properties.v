From Coq Require Import List Bool.
From LTV.C18 Require Import Model Proofs ProofsA ProofsB ProofsC ProofsD ProofsE ProofsF ProofsG.
Import ListNotations.

(* All theorems below: for ALL main-thread programs p0 and disk-thread programs p1 (hypotheses: each chunk id is
   pushed at most once = distinct HashChunk objects; the disk thread only runs process_callbacks), for ALL
   schedules (reachable = closure under [step s t] for both threads). Model assumptions: sequentially
   consistent atomics, atomic<bool>::wait(false) enabled iff the flag is true, mutex sections atomic except
   chunk_done (lock modelled explicitly). *)

Theorem params_ok_now : Proofs.params_ok = true.
Proof. exact Proofs.params_ok_now. Qed.
Print Assumptions params_ok_now.

(* the inductive invariant itself: per chunk id,  #check queue + #hands + #done map = #nodes   and
   #pushes to come + #nodes + #notifications <= 1 ; and the orphan error flag is clear *)
Theorem counting_invariant : forall p0 p1 s, distinct_pushes p0 p1 -> reachable (init p0 p1) s -> inv s.
Proof. exact ProofsB.reachable_inv. Qed.
Print Assumptions counting_invariant.

(* LOCATION_INV: a pending chunk (one with a HashQueue node) is in exactly one of {check queue, disk thread's
   hands, done map}; a chunk without a node is in none of them *)
Theorem location_inv : forall p0 p1 s c, distinct_pushes p0 p1 -> reachable (init p0 p1) s ->
  (has_node c (hq s) = true -> cnt c (cq s) + in_hands_n c s + cnt c (dn s) = 1) /\
  (has_node c (hq s) = false -> cnt c (cq s) = 0 /\ in_hands_n c s = 0 /\ cnt c (dn s) = 0).
Proof. exact ProofsB.location_inv. Qed.
Print Assumptions location_inv.

(* NO_ORPHAN_RESULT: work()'s internal_error("Could not find done chunk's node.") is unreachable *)
Theorem no_orphan_result : forall p0 p1 s, distinct_pushes p0 p1 -> reachable (init p0 p1) s -> err s = false.
Proof. exact ProofsB.no_orphan_result. Qed.
Print Assumptions no_orphan_result.

(* ONE_NOTIFICATION (trace level: [notes] is the list of all notifications delivered so far): every chunk is
   notified at most once, never both with a digest and with a cancellation, and a notified chunk has no node
   and is in none of the three places (so the disk thread can no longer touch it) *)
Theorem one_notification : forall p0 p1 s c, distinct_pushes p0 p1 -> reachable (init p0 p1) s ->
  cnt c (nchunks (notes s)) <= 1 /\
  (1 <= cnt c (nchunks (notes s)) ->
     has_node c (hq s) = false /\ cnt c (cq s) = 0 /\ in_hands_n c s = 0 /\ cnt c (dn s) = 0).
Proof. exact ProofsB.one_notification. Qed.
Print Assumptions one_notification.
Theorem never_both_digest_and_cancel : forall p0 p1 s c, distinct_pushes p0 p1 -> reachable (init p0 p1) s ->
  ~ (In (Digest c) (notes s) /\ In (Cancelled c) (notes s)).
Proof. exact ProofsB.not_both. Qed.
Print Assumptions never_both_digest_and_cancel.

(* REMOVE_RETURNS_SAFE: while remove(t) scans, every node of t is still on its list (nothing is skipped); the
   step that ends the call leaves no node of t, hence (location_inv) no chunk of t in the check queue, in the
   disk thread's hands or in the done map; each of those chunks was notified exactly once (one_notification:
   that notification is where the mapping reference is released; the count itself is observed by the
   harness: blocking handles = remaining nodes) *)
Theorem remove_scan_complete : forall p0 p1 s t l, distinct_pushes p0 p1 -> disk_only p1 -> reachable (init p0 p1) s ->
  rem_view (td0 s) = Some (t, l) -> forall n, In n (hq s) -> snd n = t -> In n l.
Proof. exact ProofsC.remove_scan_complete. Qed.
Print Assumptions remove_scan_complete.
Theorem remove_returns_safe : forall p0 p1 s s2 t l, distinct_pushes p0 p1 -> disk_only p1 -> reachable (init p0 p1) s ->
  rem_view (td0 s) = Some (t, l) -> step s 0 = Some s2 ->
  (forall l', rem_view (td0 s2) <> Some (t, l')) ->
  forall n, In n (hq s2) -> snd n <> t.
Proof. exact ProofsC.remove_returns_safe. Qed.
Print Assumptions remove_returns_safe.

(* NO_LOST_WAKEUP: whenever main sits in remove's wait with the flag clear, the awaited chunk still has its node,
   is NOT already in the done map, and is either in the disk thread's hands or in the check queue with a
   perform() callback running / queued on the disk thread *)
Theorem no_lost_wakeup : forall p0 p1 s c t l rest,
  distinct_pushes p0 p1 -> disk_only p1 -> reachable (init p0 p1) s ->
  td0 s = IRemWait c t l :: rest -> flag s = false ->
  has_node c (hq s) = true /\ cnt c (dn s) = 0 /\
  ((in_hands_n c s = 1 /\ cnt c (cq s) = 0) \/
   (cnt c (cq s) = 1 /\ in_hands_n c s = 0 /\ (0 < dq s \/ perf_in (td1 s) = true))).
Proof. exact ProofsD.no_lost_wakeup. Qed.
Print Assumptions no_lost_wakeup.
(* ... and a chunk in the disk thread's hands is published by ONE always-enabled disk step that sets the flag *)
Theorem wakeup_progress : forall s c rest,
  td1 s = IPublish c :: rest -> exists s', step s 1 = Some s' /\ flag s' = true.
Proof. exact ProofsD.wakeup_progress. Qed.
Print Assumptions wakeup_progress.

(* MAPPING REFERENCES: [refs s] = one blocking ChunkList reference per pending node (the owner releases it inside the
   notification). When remove(t) returns every remaining node is of another torrent and still holds its reference;
   a notified piece holds none (so, with one_notification, each reference is released exactly once). The harness
   compares ChunkListNode::blocking summed over the chunk list with the model's count at the end of every case. *)
Theorem remove_returns_released : forall p0 p1 s s2 t l, distinct_pushes p0 p1 -> disk_only p1 -> reachable (init p0 p1) s ->
  rem_view (td0 s) = Some (t, l) -> step s 0 = Some s2 ->
  (forall l', rem_view (td0 s2) <> Some (t, l')) ->
  forall c x, In (c, x) (hq s2) -> In c (refs s2) /\ x <> t.
Proof. exact ProofsC.remove_returns_released. Qed.
Print Assumptions remove_returns_released.
Theorem refs_released_with_notification : forall p0 p1 s c, distinct_pushes p0 p1 -> reachable (init p0 p1) s ->
  1 <= cnt c (nchunks (notes s)) -> cnt c (refs s) = 0.
Proof. exact ProofsC.refs_released_with_notification. Qed.
Print Assumptions refs_released_with_notification.

(* NO LOST WAKE-UP AS LIVENESS, disk thread = its event loop (program [Loop]: process_callbacks forever), ALL main
   programs and ALL schedules: whenever the main thread sits in HashQueue::remove's wait with the flag clear (it is
   then not enabled, so only the disk thread can move), at most 4 steps of the disk thread - finishing pc_store /
   pc_lock, popping the next piece in perform(), chunk_done - set the flag, which enables the main thread. So under
   fairness of the disk thread the wait always ends. [disk_shape_invariant] is the invariant used: the disk
   thread's stack has one of six shapes, m_done_chunks_lock is held exactly in the two shapes inside chunk_done,
   and then the flag is set. *)
Theorem disk_shape_invariant : forall p0 s, reachable (init p0 [Loop]) s -> linv s.
Proof. exact ProofsE.reachable_linv. Qed.
Print Assumptions disk_shape_invariant.
Theorem wakeup_within_4_disk_steps : forall p0 s c t l rest,
  distinct_pushes p0 [Loop] -> reachable (init p0 [Loop]) s ->
  td0 s = IRemWait c t l :: rest -> flag s = false ->
  exists n, n <= 4 /\ flag (run s (repeat 1 n)) = true.
Proof. exact ProofsE.wakeup_within_4. Qed.
Print Assumptions wakeup_within_4_disk_steps.

(* TERMINATION OF HashQueue::remove, disk thread = its event loop [Loop], ALL main programs.
   The variant is lexicographic: (number of nodes of the torrent still in the HashQueue, [mu s c]) where [mu] bounds the
   disk-thread steps until the awaited piece c is in the done map (4 per piece in front of c in the check queue plus the
   phase of the disk thread's loop).
   - [disk_progress]: while main awaits c and c is not published, the disk thread is ENABLED and each of its steps strictly
     decreases mu, leaving the main thread and the nodes untouched;
   - [main_stutters]: main's own steps in that situation only alternate between the locked probe and the wait (the busy
     wait of the real code) and change neither mu nor the nodes;
   - [results_pending_flag_set]: a non-empty done map implies the flag, so once c is published the wait is passable;
   - [remove_terminates]: from EVERY reachable state inside remove(t) there is a schedule (fair: the disk thread gets the
     bounded number of steps the variant asks for, then main one or two) after which remove(t) has returned, no node of t
     is left and hence (location_inv) none of its pieces is in the check queue, the disk thread's hands or the done map.
   Together: under every schedule that is fair to the disk thread remove terminates (standard variant argument: mu never
   increases while main awaits c, decreases with every disk step, and at 0 with the lock free main completes the node).
   Not formalised: infinite schedules / the fairness predicate itself. *)
Theorem results_pending_flag_set : forall p0 p1 s, reachable (init p0 p1) s -> dn s <> [] -> flag s = true.
Proof. exact ProofsF.reachable_flag_dn. Qed.
Print Assumptions results_pending_flag_set.
Theorem disk_progress : forall p0 s c t,
  distinct_pushes p0 [Loop] -> reachable (init p0 [Loop]) s ->
  awaiting s c t -> mem c (dn s) = false ->
  exists s', step s 1 = Some s' /\ mu s' c < mu s c /\ td0 s' = td0 s /\ hq s' = hq s.
Proof. exact ProofsF.disk_progress. Qed.
Print Assumptions disk_progress.
Theorem main_stutters : forall s c t s1, dshape (td1 s) -> awaiting s c t -> mem c (dn s) = false -> step s 0 = Some s1 ->
  awaiting s1 c t /\ mu s1 c = mu s c /\ hq s1 = hq s.
Proof. exact ProofsF.main_stutters. Qed.
Print Assumptions main_stutters.
Theorem remove_terminates : forall p0, distinct_pushes p0 [Loop] -> forall k s t L,
  reachable (init p0 [Loop]) s -> rem_view (td0 s) = Some (t, L) -> nt t (hq s) <= k ->
  exists sched, Forall (fun x => x < 2) sched /\
    (forall L', rem_view (td0 (run s sched)) <> Some (t, L')) /\
    (forall n, In n (hq (run s sched)) -> snd n <> t).
Proof. exact ProofsF.remove_terminates. Qed.
Print Assumptions remove_terminates.

(* DEADLOCK FREEDOM OF THE HAND-OFF AUTOMATON, UNBOUNDED (supersedes the bounded exploration below as the general
   statement): disk thread = its event loop [Loop], ALL main-thread programs - any number of pushes, removes and
   dispatches, hence any number of queued chunks - and ALL schedules (every reachable state).
   - [main_stack_settled]: the main thread's stack is always settled ([ProofsG.mwf]: below a command or an item of remove
     there are only commands; the head is an item with a real step), which is what makes the case analysis of a disabled
     main thread complete;
   - [handoff_disk_always_enabled]: the disk thread can step in every reachable state, so NO reachable state is a deadlock;
   - [handoff_main_blocked_only_at]: the main thread is disabled only at the three blocking points of the real code:
     hq_wait with m_has_done_chunks clear, or an acquisition of m_done_chunks_lock (remove's probe hq_done_lock / work()'s
     hq_pop_lock) while the disk thread holds it inside chunk_done;
   - [hashing_handoff_no_deadlock]: whenever the main thread still has something to do, at most 4 steps of the disk thread
     - which leave the main thread's stack untouched - make it enabled. So under every schedule that is fair to the disk
     thread the main thread is never blocked for ever, wherever it is in its program (remove_terminates adds that the
     busy-wait loop of remove itself ends). The glue evaluates exactly this clause on the implementation's step log
     (props/c18.py oracle 'main-stuck' / 'disk-stuck'). *)
Theorem main_stack_settled : forall p0 p1 s, reachable (init p0 p1) s -> ProofsG.minv s.
Proof. exact ProofsG.reachable_minv. Qed.
Print Assumptions main_stack_settled.
Theorem handoff_disk_always_enabled : forall p0 s, reachable (init p0 [Loop]) s -> exists s', step s 1 = Some s'.
Proof. exact ProofsG.disk_always_enabled. Qed.
Print Assumptions handoff_disk_always_enabled.
Theorem handoff_main_blocked_only_at : forall p0 s,
  distinct_pushes p0 [Loop] -> reachable (init p0 [Loop]) s -> td0 s <> [] -> step s 0 = None ->
  (exists c t l rest, td0 s = IRemWait c t l :: rest /\ flag s = false) \/
  (dlk s = true /\ ((exists c t l rest, td0 s = IRemDone c t l :: rest) \/ (exists rest, td0 s = IWorkPop :: rest))).
Proof. exact ProofsG.main_blocked_only_at. Qed.
Print Assumptions handoff_main_blocked_only_at.
Theorem hashing_handoff_no_deadlock : forall p0 s,
  distinct_pushes p0 [Loop] -> reachable (init p0 [Loop]) s -> td0 s <> [] ->
  exists n, n <= 4 /\ td0 (run s (repeat 1 n)) = td0 s /\ exists s', step (run s (repeat 1 n)) 0 = Some s'.
Proof. exact ProofsG.main_never_stuck. Qed.
Print Assumptions hashing_handoff_no_deadlock.

(* sanity instance (finite, bound in the statement): every interleaving of one small program explored inside Coq. Kept
   beside the unbounded theorems above because it is about a FINITE disk program ([Dispatch], not the event loop) and
   also bounds the length of every maximal run (40 steps), which hashing_handoff_no_deadlock does not imply. *)
Theorem hashing_handoff_instance_partial : explore 40 prog_a = true.
Proof. exact Proofs.instance_a. Qed.
Print Assumptions hashing_handoff_instance_partial.
