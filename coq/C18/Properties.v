From Coq Require Import List Bool.
From LTV.C18 Require Import Model Proofs.
Import ListNotations.

Theorem params_ok_now : Proofs.params_ok = true.
Proof. exact Proofs.params_ok_now. Qed.
Print Assumptions params_ok_now.

(* ONE_NOTIFICATION / LOCATION_INV / REMOVE_RETURNS_SAFE / NO_ORPHAN_RESULT / NO_LOST_WAKEUP - PARTIAL.
   Proved: for the program  main: push(chunk 0, torrent 0); remove(torrent 0); process_callbacks
                            disk: process_callbacks
   EVERY interleaving (explored inside Coq, bound 40 steps in the statement) keeps, in every state:
   loc_ok (each node's chunk is in exactly one of {check queue, disk thread's hands, done map}, and those
   places hold only chunks that have a node), notes_ok (no chunk notified twice; a notified chunk is in
   none of those places and has no node), err = false ("could not find done chunk's node" not thrown);
   and every maximal run ends with both threads finished (no deadlock, no lost wake-up between
   remove's wait and chunk_done's notify).
   MISSING: the same as inductive invariants for ALL programs and schedules (the state predicates
   loc_ok / notes_ok are written for that purpose; their preservation proof over Model.step is not
   done), digest correctness (the digest value is checked against OpenSSL by the harness only),
   mapping release counts (observed by the harness: blocking count = number of nodes at the end).
   Larger programs are covered by the correspondence run + oracle only. *)
Theorem hashing_handoff_instance_partial : explore 40 prog_a = true.
Proof. exact Proofs.instance_a. Qed.
Print Assumptions hashing_handoff_instance_partial.
