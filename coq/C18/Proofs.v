(* C18 proofs: constants, and finite-instance theorems obtained by exploring EVERY interleaving of
   small programs inside Coq (vm_compute over a genuinely finite state space; bound in the statement).
   The for-all-programs inductive invariants are NOT done (see the _partial comments in Properties.v). *)
From Coq Require Import List Bool Arith NArith Lia.
From LTV.C18 Require Import ParamsGen.
From LTV.C18 Require Import Model.
Import ListNotations.

Definition params_ok : bool := (Params.c18_wait_while =? 0)%N && (Params.c18_cas_to_true =? 0)%N.
Lemma params_ok_now : params_ok = true.
Proof. vm_compute. reflexivity. Qed.

(* where a pending chunk can be *)
Definition in_hands (c : chunk) (s : st) : bool :=
  existsb (fun it => match it with IPublish x => Nat.eqb x c | _ => false end) (td1 s).
Definition count (c : chunk) (l : list chunk) : nat := length (filter (Nat.eqb c) l).
Definition hands_count (c : chunk) (s : st) : nat :=
  length (filter (fun it => match it with IPublish x => Nat.eqb x c | _ => false end) (td1 s)).
(* location_inv: every node's chunk is in exactly one of {check queue, disk thread's hands, done map};
   and nothing else is in those places *)
Definition loc_ok (s : st) : bool :=
  forallb (fun n => Nat.eqb (count (fst n) (cq s) + hands_count (fst n) s + count (fst n) (dn s)) 1) (hq s) &&
  forallb (fun c => has_node c (hq s)) (cq s) && forallb (fun c => has_node c (hq s)) (dn s) &&
  forallb (fun it => match it with IPublish x => has_node x (hq s) | _ => true end) (td1 s).
(* one_notification: no chunk is notified twice (digest and/or cancel) *)
Definition note_chunk (n : note) : chunk := match n with Digest c => c | Cancelled c => c end.
Fixpoint nodup_b (l : list nat) : bool := match l with [] => true | x :: r => negb (existsb (Nat.eqb x) r) && nodup_b r end.
Definition notes_ok (s : st) : bool :=
  nodup_b (map note_chunk (notes s)) &&
  (* a notified chunk is gone from every place: remove_returns_safe / no use after notification *)
  forallb (fun n => negb (mem (note_chunk n) (cq s)) && negb (mem (note_chunk n) (dn s)) && negb (in_hands (note_chunk n) s) &&
                    negb (has_node (note_chunk n) (hq s))) (notes s).
Definition state_ok (s : st) : bool := loc_ok s && notes_ok s && negb (err s).

(* explore every interleaving: every state is ok, and every maximal run ends with both threads finished
   (no deadlock / lost wake-up) within [fuel] steps *)
Fixpoint explore (fuel : nat) (s : st) : bool :=
  match fuel with
  | O => false
  | S f =>
      state_ok s &&
      match step s 0, step s 1 with
      | None, None => finished s
      | Some a, None => explore f a
      | None, Some b => explore f b
      | Some a, Some b => explore f a && explore f b
      end
  end.

Definition prog_a := init [Push 0 0; Remove 0; Dispatch] [Dispatch].
Definition prog_b := init [Push 0 0; Push 1 1; Remove 0; Dispatch] [Dispatch; Dispatch].
Definition prog_c := init [Push 0 0; Dispatch; Push 1 0; Remove 0; Dispatch] [Dispatch; Dispatch].

Lemma instance_a : explore 40 prog_a = true. Proof. vm_compute. reflexivity. Qed.

