(* C18 proofs, part D: no lost wake-up between HashQueue::remove's wait and chunk_done. *)
From Coq Require Import List Bool Arith Lia.
From LTV.C18 Require Import Model ProofsA ProofsB ProofsC.
Import ListNotations.

Definition is_perf (it : item) : bool := match it with IPerfPop | IBatch (S _) => true | _ => false end.
Definition perf_in (td : list item) : bool := existsb is_perf td.
Definition post_perform_head (td : list item) : bool := match td with IPostPerform :: _ => true | _ => false end.

(* the three extra invariants *)
Definition sub_ok (s : st) : Prop :=
  match rem_view (td0 s) with Some (_, L) => NoDup L /\ incl L (hq s) | None => True end.
Definition wait_ok (s : st) : Prop :=
  match td0 s with IRemWait c _ _ :: _ => flag s = false -> cnt c (dn s) = 0 | _ => True end.
Definition perf_ok (s : st) : Prop :=
  cq s <> [] -> 0 < dq s \/ perf_in (td1 s) = true \/ post_perform_head (td0 s) = true.
Definition inv3 (s : st) : Prop := sub_ok s /\ wait_ok s /\ perf_ok s.

Lemma uniq_nodup h : (forall c, cnt c (chunks h) <= 1) -> NoDup h.
Proof.
  induction h as [|[a b] h IH]; intros U. constructor. constructor.
  - intros H. pose proof (in_chunks_cnt _ _ _ H). specialize (U a).
    change (chunks ((a, b) :: h)) with (a :: chunks h) in U. rewrite cnt_cons in U. destruct (Nat.eq_dec a a); try congruence. lia.
  - apply IH. intros c. specialize (U c). change (chunks ((a, b) :: h)) with (a :: chunks h) in U. rewrite cnt_cons in U. lia.
Qed.
Lemma skip_scan_suffix t l : exists pre, l = pre ++ skip_scan t l.
Proof.
  induction l as [|a l (pre & IH)]; simpl. exists []; auto. destruct (Nat.eqb (snd a) t). exists []; auto.
  exists (a :: pre). simpl. congruence.
Qed.
Lemma skip_scan_nodup t l : NoDup l -> NoDup (skip_scan t l).
Proof.
  intros H. destruct (skip_scan_suffix t l) as (pre & E). rewrite E in H. clear E.
  induction pre; simpl in *; auto. inversion H; auto.
Qed.
Lemma skip_scan_incl t l : incl (skip_scan t l) l.
Proof. destruct (skip_scan_suffix t l) as (pre & E). intros x H. rewrite E. apply in_or_app; auto. Qed.
Lemma remove_node_keeps c n l : In n l -> fst n <> c -> In n (remove_node c l).
Proof.
  induction l as [|a l IH]; simpl; auto. intros [-> | H] N.
  - assert (Nat.eqb (fst n) c = false) as -> by (apply Nat.eqb_neq; auto). left; auto.
  - destruct (Nat.eqb (fst a) c); simpl; auto.
Qed.
Lemma uniq_same c x y h : cnt c (chunks h) <= 1 -> In (c, x) h -> In (c, y) h -> x = y.
Proof.
  induction h as [|[a b] h IH]; intros U H1 H2. inversion H1.
  change (chunks ((a, b) :: h)) with (a :: chunks h) in U. rewrite cnt_cons in U.
  destruct H1 as [H1 | H1]; destruct H2 as [H2 | H2].
  - congruence.
  - injection H1 as -> ->. pose proof (in_chunks_cnt _ _ _ H2). destruct (Nat.eq_dec c c); try congruence. lia.
  - injection H2 as -> ->. pose proof (in_chunks_cnt _ _ _ H1). destruct (Nat.eq_dec c c); try congruence. lia.
  - apply IH; auto. lia.
Qed.

(* generic: a property of the main stack preserved by one normalisation is preserved by [norm] *)
Lemma norm_pres (P : list item -> Prop) s :
  (forall td, norem (tl td) = true -> P td -> P (norm1 0 s td)) ->
  forall fuel td, norem (tl td) = true -> P td -> P (norm fuel 0 s td).
Proof.
  intros K. induction fuel; simpl; intros td N H; auto.
  pose proof (K td N H) as H1. pose proof (norm1_norem 0 s td N) as N1.
  destruct (norm1 0 s td) as [|it r] eqn:E; auto. destruct it; auto. destruct c; auto.
Qed.

Lemma settle_inv3 s : inv s -> clean s -> inv3 s -> inv3 (settle s).
Proof.
  intros (_ & I) (Cd & Cn) (A & B & Q). destruct (settle_shared s) as (Eh & Ec & Ed & Ef & _ & _ & Eq & _).
  assert (forall c, cnt c (chunks (hq s)) <= 1) as U by (intros c; destruct (I c); lia).
  split; [|split].
  - unfold sub_ok. rewrite Eh, settle_td0.
    apply (norm_pres (fun td => match rem_view td with Some (_, L) => NoDup L /\ incl L (hq s) | None => True end) s); auto.
    intros td N H. destruct td as [|it r]; simpl; auto. simpl in N. destruct it; simpl; auto.
    + destruct c; simpl; auto. destruct (skip_scan t (hq s)) as [|x l'] eqn:E.
      * destruct (norem_head_view _ N) as (V & _). rewrite V. auto.
      * simpl. rewrite <- E. split. apply skip_scan_nodup. apply uniq_nodup; auto. apply skip_scan_incl.
    + simpl in H. destruct H as (Hn & Hi). destruct (skip_scan t l) as [|x l'] eqn:E.
      * destruct (norem_head_view _ N) as (V & _). rewrite V. auto.
      * simpl. rewrite <- E. split. apply skip_scan_nodup; auto. intros y Hy. apply Hi. eapply skip_scan_incl; eauto.
    + destruct n; simpl; auto.
  - unfold wait_ok. rewrite Ef, Ed, settle_td0.
    apply (norm_pres (fun td => match td with IRemWait c _ _ :: _ => flag s = false -> cnt c (dn s) = 0 | _ => True end) s); auto.
    intros td N H. destruct td as [|it r]; simpl; auto. simpl in N. destruct it; simpl; auto.
    + destruct c; simpl; auto. destruct (skip_scan t (hq s)); simpl; auto.
      destruct r; simpl in *; auto. apply andb_true_iff in N. destruct N as (N & _). destruct i; simpl in *; auto; discriminate.
    + destruct (skip_scan t l); simpl; auto.
      destruct r; simpl in *; auto. apply andb_true_iff in N. destruct N as (N & _). destruct i; simpl in *; auto; discriminate.
    + destruct n; simpl; auto.
  - unfold perf_ok. rewrite Ec, Eq. intros Hc. specialize (Q Hc).
    destruct Q as [Q | [Q | Q]]; auto.
    + right; left. rewrite settle_td1. generalize (set_td s 0 (norm (S (length (td0 s))) 0 s (td0 s))). intros s'.
      assert (forall td, perf_in td = true -> perf_in (norm1 1 s' td) = true) as K.
      { intros td H. destruct td as [|it r]; simpl in *; auto. destruct it; simpl in *; auto.
        - destruct c; simpl in *; auto. destruct (skip_scan t (hq s')); simpl; auto.
        - destruct (skip_scan t l); simpl; auto.
        - destruct n; simpl in *; auto. }
      simpl. pose proof (K _ Q) as Q1. destruct (norm1 1 s' (td1 s)) as [|it r] eqn:E; auto.
      destruct it; auto. destruct c; auto. pose proof (K _ Q1). destruct (norm1 1 s' (ICmd (Remove t) :: r)) as [|it2 r2]; auto.
      destruct it2; auto. destruct c; auto.
    + right; right. rewrite settle_td0.
      apply (norm_pres (fun td => post_perform_head td = true) s); auto.
      intros td N H. destruct td as [|it r]; simpl in *; try discriminate. destruct it; simpl in *; try discriminate. auto.
Qed.

Lemma sub_tail c t l0 h : NoDup ((c, t) :: l0) -> incl ((c, t) :: l0) h -> cnt c (chunks h) <= 1 ->
  NoDup l0 /\ incl l0 (remove_node c h).
Proof.
  intros N Hi U. inversion N as [|? ? Nin N0]; subst. split; auto.
  intros [a b] Hn. apply remove_node_keeps. apply Hi; right; auto.
  simpl. intros ->. assert (b = t). { eapply uniq_same; eauto. apply Hi; right; auto. apply Hi; left; auto. }
  subst. contradiction.
Qed.

Lemma perf_in_cons it r : perf_in (it :: r) = is_perf it || perf_in r. Proof. reflexivity. Qed.

Lemma step_raw_inv3 s t s' : inv s -> clean s -> headed s -> inv3 s -> step_raw s t = Some s' -> inv3 s'.
Proof.
  intros (_ & I) (Cd & Cn) Hd (A & B & Q) St. unfold step_raw in St.
  assert (forall c, cnt c (chunks (hq s)) <= 1) as U by (intros c; destruct (I c); lia).
  destruct t as [|t]; [rewrite get_td_0 in St | rewrite get_td_S in St].
  - unfold inv3, sub_ok, wait_ok, perf_ok, headed in *.
    destruct (td0 s) as [|it rest] eqn:Htd; try discriminate. simpl in Cn.
    destruct (norem_head_view _ Cn) as (V & _).
    more_cases St; simpl in *; rewrite ?V.
    all: repeat split; auto; try discriminate; try tauto.
    all: try (destruct rest as [|[] ?]; simpl in *; auto; discriminate).
    all: try (intros Hc; first [left; lia
         | destruct (cq s) eqn:?; try discriminate; try congruence;
           destruct Q as [Q|[Q|Q]]; try discriminate; try congruence; auto; fail]).
    all: try (destruct A as (An & Ai); destruct (sub_tail _ _ _ _ An Ai (U _)); assumption).
    all: try (intros _; match goal with Hm : mem ?c ?l = false |- cnt ?c ?l = 0 =>
           destruct (cnt c l) eqn:En; auto; assert (mem c l = true) by (apply mem_cnt; lia); congruence end).
  - unfold inv3, sub_ok, wait_ok, perf_ok in *.
    destruct (td1 s) as [|it rest] eqn:Htd; try discriminate. simpl in Cd. apply andb_true_iff in Cd. destruct Cd as (Ch & Cr).
    more_cases St; simpl in *; try discriminate.
    all: repeat split; auto; try discriminate; try tauto.
    all: try (destruct (td0 s) as [|[] ?]; auto; intros; discriminate).
    all: try (intros Hc; try congruence; try (right; left; reflexivity);
              match type of Q with _ -> _ => idtac end;
              first [ specialize (Q Hc) | assert (cq s <> []) as Hc' by congruence; specialize (Q Hc') ];
              rewrite ?perf_in_cons in *; simpl in *;
              destruct Q as [Q|[Q|Q]]; auto; try lia; fail).
Qed.

Lemma reachable_inv3 p0 p1 s : distinct_pushes p0 p1 -> disk_only p1 -> reachable (init p0 p1) s -> inv3 s.
Proof.
  intros D K R. induction R.
  - unfold init. set (s0 := mkSt (map ICmd p0) (map ICmd p1) [] [] [] false false 0 0 false false [] false).
    assert (inv s0) as I0. { split; simpl; auto. intros c. rewrite !hands_cmds. simpl. split; auto. specialize (D c). lia. }
    assert (clean s0) as C0.
    { split; simpl.
      - clear -K. induction p1 as [|c p IH]; simpl in *; auto. apply andb_true_iff in K. destruct K as (K1 & K2). destruct c; try discriminate; simpl; auto.
      - clear. destruct p0; simpl; auto. induction p0; simpl; auto. }
    apply settle_inv3; auto. unfold inv3, sub_ok, wait_ok, perf_ok; simpl. repeat split; auto; try congruence.
    destruct p0; simpl; auto. destruct p0; simpl; auto.
  - destruct (reachable_inv2 _ _ _ D K R) as ((I & C & S) & Hd).
    unfold step in H. destruct (step_raw s t) as [r|] eqn:E; try discriminate. injection H as <-.
    apply settle_inv3.
    + eapply step_raw_inv; eauto.
    + eapply step_raw_clean; eauto.
    + eapply step_raw_inv3; eauto.
Qed.

(* NO LOST WAKE-UP: whenever the main thread sits in HashQueue::remove's wait with the flag clear, the chunk
   it waits for still has its node and is EITHER in the disk thread's hands (popped, being hashed: the disk
   thread's next shared step is chunk_done, which sets the flag) OR still in the check queue with a perform()
   callback running or queued on the disk thread. It is never already in the done map (that would be the
   lost wake-up). *)
Lemma no_lost_wakeup p0 p1 s c t l rest :
  distinct_pushes p0 p1 -> disk_only p1 -> reachable (init p0 p1) s ->
  td0 s = IRemWait c t l :: rest -> flag s = false ->
  has_node c (hq s) = true /\ cnt c (dn s) = 0 /\
  ((in_hands_n c s = 1 /\ cnt c (cq s) = 0) \/
   (cnt c (cq s) = 1 /\ in_hands_n c s = 0 /\ (0 < dq s \/ perf_in (td1 s) = true))).
Proof.
  intros D K R Htd Hf. destruct (reachable_inv3 _ _ _ D K R) as (A & B & Q).
  destruct (reachable_inv2 _ _ _ D K R) as (((_ & I) & C & S) & Hd).
  unfold sub_ok, wait_ok, perf_ok in *. rewrite Htd in *. simpl in A. destruct A as (An & Ai).
  assert (In (c, t) (hq s)) as Hin by (apply Ai; left; auto).
  assert (has_node c (hq s) = true) as Hn by (apply has_node_cnt; eapply in_chunks_cnt; eauto).
  specialize (B Hf). destruct (I c) as (I1 & I2). unfold in_hands_n. rewrite Htd.
  assert (cnt c (chunks (hq s)) = 1) by (apply has_node_cnt in Hn; lia).
  split; auto. split; auto.
  destruct (cnt c (cq s)) eqn:Ecq.
  - left. lia.
  - right. assert (cq s <> []) as Hne by (intros E0; rewrite E0 in Ecq; discriminate).
    destruct (Q Hne) as [Q1 | [Q1 | Q1]]; try discriminate; repeat split; try lia; auto.
Qed.

(* progress: if the chunk is in the disk thread's hands, ONE step of the disk thread (chunk_done's locked
   section, always enabled) sets the flag, which enables the waiting main thread *)
Lemma wakeup_progress s c rest :
  td1 s = IPublish c :: rest -> exists s', step s 1 = Some s' /\ flag s' = true.
Proof.
  intros H. unfold step, step_raw. rewrite get_td_S, H. destruct (flag s) eqn:F; eexists; split; try reflexivity;
  destruct (settle_shared (set_td (upd_shared s (hq s) (cq s) (dn s ++ [c]) true false (mq s) (dq s) (intr0 s) (intr1 s) (notes s) (err s)) 1 rest)) as (_ & _ & _ & Ef & _);
  destruct (settle_shared (set_td (upd_shared s (hq s) (cq s) (dn s ++ [c]) true true (mq s) (dq s) (intr0 s) (intr1 s) (notes s) (err s)) 1 (IPostWork :: rest))) as (_ & _ & _ & Ef2 & _);
  first [rewrite Ef | rewrite Ef2]; reflexivity.
Qed.
