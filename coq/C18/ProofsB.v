(* C18 proofs, part B: reachability and the corollaries of the counting invariant *)
From Coq Require Import List Bool Arith Lia.
From LTV.C18 Require Import Model ProofsA.
Import ListNotations.

Inductive reachable (s0 : st) : st -> Prop :=
| r_init : reachable s0 s0
| r_step s t s' : reachable s0 s -> step s t = Some s' -> reachable s0 s'.

Lemma run_reachable s0 sched : forall s, reachable s0 s -> reachable s0 (run s sched).
Proof.
  induction sched; simpl; intros; auto. apply IHsched. unfold sstep. destruct (step s a) eqn:E; auto. econstructor; eauto.
Qed.

(* client programs push each chunk id at most once (distinct HashChunk objects) *)
Definition distinct_pushes (p0 p1 : list cmd) : Prop :=
  forall c, cnt c (pushes (map ICmd p0)) + cnt c (pushes (map ICmd p1)) <= 1.

Lemma hands_cmds p : hands (map ICmd p) = [].
Proof. induction p; simpl; auto. Qed.

Lemma init_inv p0 p1 : distinct_pushes p0 p1 -> inv (init p0 p1).
Proof.
  intros D. unfold init. apply settle_inv. split; simpl; auto. intros c. rewrite !hands_cmds. simpl.
  split; auto. specialize (D c). lia.
Qed.

Lemma step_inv s t s' : inv s -> step s t = Some s' -> inv s'.
Proof.
  unfold step. intros I H. destruct (step_raw s t) eqn:E; try discriminate. injection H as <-.
  apply settle_inv. eapply step_raw_inv; eauto.
Qed.

Lemma reachable_inv p0 p1 s : distinct_pushes p0 p1 -> reachable (init p0 p1) s -> inv s.
Proof. intros D R. induction R. apply init_inv; auto. eapply step_inv; eauto. Qed.

(* chunks in the disk thread's hands *)
Definition in_hands_n (c : chunk) (s : st) : nat := cnt c (hands (td0 s)) + cnt c (hands (td1 s)).

(* LOCATION: a chunk with a node is in exactly one of the three places; a chunk without a node in none *)
Lemma location_inv p0 p1 s c : distinct_pushes p0 p1 -> reachable (init p0 p1) s ->
  (has_node c (hq s) = true -> cnt c (cq s) + in_hands_n c s + cnt c (dn s) = 1) /\
  (has_node c (hq s) = false -> cnt c (cq s) = 0 /\ in_hands_n c s = 0 /\ cnt c (dn s) = 0).
Proof.
  intros D R. destruct (reachable_inv _ _ _ D R) as (_ & H). destruct (H c) as (H1 & H2). unfold in_hands_n. split; intros N.
  - apply has_node_cnt in N. lia.
  - assert (cnt c (chunks (hq s)) = 0).
    { destruct (cnt c (chunks (hq s))) eqn:E; auto. assert (has_node c (hq s) = true) by (apply has_node_cnt; lia). congruence. }
    lia.
Qed.

(* NO ORPHAN RESULT: work()'s "Could not find done chunk's node" is unreachable *)
Lemma no_orphan_result p0 p1 s : distinct_pushes p0 p1 -> reachable (init p0 p1) s -> err s = false.
Proof. intros D R. apply (reachable_inv _ _ _ D R). Qed.

(* ONE NOTIFICATION: a chunk is notified at most once - in particular never both with a digest and with
   a cancellation - and once notified it has no node and is in none of the three places *)
Lemma one_notification p0 p1 s c : distinct_pushes p0 p1 -> reachable (init p0 p1) s ->
  cnt c (nchunks (notes s)) <= 1 /\
  (1 <= cnt c (nchunks (notes s)) ->
     has_node c (hq s) = false /\ cnt c (cq s) = 0 /\ in_hands_n c s = 0 /\ cnt c (dn s) = 0).
Proof.
  intros D R. destruct (reachable_inv _ _ _ D R) as (_ & H). destruct (H c) as (H1 & H2). split. lia.
  intros N. assert (cnt c (chunks (hq s)) = 0) by lia. unfold in_hands_n. repeat split; try lia.
  destruct (has_node c (hq s)) eqn:E; auto. apply has_node_cnt in E. lia.
Qed.
Lemma in_notes_cnt n l : In n l -> 1 <= cnt (note_chunk n) (nchunks l).
Proof.
  induction l as [|a l IH]; intros H; [inversion H|].
  change (nchunks (a :: l)) with (note_chunk a :: nchunks l). rewrite cnt_cons. destruct H as [-> | H].
  - destruct (Nat.eq_dec (note_chunk n) (note_chunk n)); try congruence; lia.
  - specialize (IH H). lia.
Qed.
Lemma not_both p0 p1 s c : distinct_pushes p0 p1 -> reachable (init p0 p1) s ->
  ~ (In (Digest c) (notes s) /\ In (Cancelled c) (notes s)).
Proof.
  intros D R (A & B). destruct (one_notification _ _ _ c D R) as (L & _).
  assert (forall l, In (Digest c) l -> In (Cancelled c) l -> 2 <= cnt c (nchunks l)) as K.
  { induction l as [|a l IHl]; intros Ha Hb; [inversion Ha|].
    change (nchunks (a :: l)) with (note_chunk a :: nchunks l). rewrite cnt_cons.
    destruct Ha as [-> | Ha]; destruct Hb as [Hb | Hb]; try discriminate; simpl.
    - destruct (Nat.eq_dec c c); try congruence. pose proof (in_notes_cnt _ _ Hb). simpl in H. lia.
    - subst a. simpl. destruct (Nat.eq_dec c c); try congruence. pose proof (in_notes_cnt _ _ Ha). simpl in H. lia.
    - specialize (IHl Ha Hb). lia. }
  specialize (K _ A B). lia.
Qed.
