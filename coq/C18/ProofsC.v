(* C18 proofs, part C: HashQueue::remove - when it returns, no node of the torrent is left. *)
From Coq Require Import List Bool Arith Lia.
From LTV.C18 Require Import Model ProofsA ProofsB.
Import ListNotations.

Definition is_rem (it : item) : bool :=
  match it with IRemScan _ _ | IRemDone _ _ _ | IRemWait _ _ _ => true | _ => false end.
(* items the disk thread may hold: it only dispatches *)
Definition disk_item (it : item) : bool :=
  match it with
  | ICmd Dispatch | ICmd Loop | IPcLock | IBatch _ | IPerfPop | IPublish _ | IPostWork | IPostIntrUnlock => true
  | _ => false
  end.
Definition norem (td : list item) : bool := forallb (fun it => negb (is_rem it)) td.

Definition rem_view (td : list item) : option (tor * list (chunk * tor)) :=
  match td with
  | IRemScan t l :: _ => Some (t, l)
  | IRemDone c t l :: _ => Some (t, (c, t) :: l)
  | IRemWait c t l :: _ => Some (t, (c, t) :: l)
  | _ => None
  end.
Definition sc (s : st) : Prop :=
  match rem_view (td0 s) with
  | Some (t, l) => forall n, In n (hq s) -> snd n = t -> In n l
  | None => True
  end.
Definition headed (s : st) : Prop :=
  match td0 s with IRemScan t ((_, x) :: _) :: _ => x = t | IRemScan _ [] :: _ => False | _ => True end.
Definition clean (s : st) : Prop := forallb disk_item (td1 s) = true /\ norem (tl (td0 s)) = true.

Lemma skip_scan_keeps t l n : In n l -> snd n = t -> In n (skip_scan t l).
Proof.
  induction l as [|a l IH]; simpl; auto. intros [-> | H] E.
  - rewrite E, Nat.eqb_refl. left; auto.
  - destruct (Nat.eqb (snd a) t). right; auto. auto.
Qed.
Lemma skip_scan_head t l c x l' : skip_scan t l = (c, x) :: l' -> x = t.
Proof.
  induction l as [|a l IH]; simpl; try discriminate. destruct (Nat.eqb (snd a) t) eqn:E; auto.
  intros H. injection H as Ha _. subst a. simpl in E. apply Nat.eqb_eq in E. auto.
Qed.
Lemma skip_scan_nil t l : skip_scan t l = [] -> forall n, In n l -> snd n <> t.
Proof.
  induction l as [|a l IH]; simpl; intros H n []; destruct (Nat.eqb (snd a) t) eqn:E; try discriminate.
  - subst. apply Nat.eqb_neq; auto.
  - auto.
Qed.
Lemma remove_node_incl c l n : In n (remove_node c l) -> In n l.
Proof. induction l as [|a l IH]; simpl; auto. destruct (Nat.eqb (fst a) c); simpl; intuition. Qed.
Lemma in_chunks_cnt c y l : In (c, y) l -> 1 <= cnt c (chunks l).
Proof.
  induction l as [|[a b] l IH]; intros H; [inversion H|].
  change (chunks ((a, b) :: l)) with (a :: chunks l). rewrite cnt_cons. destruct H as [H | H].
  - injection H as -> _. destruct (Nat.eq_dec c c); try congruence; lia.
  - specialize (IH H). lia.
Qed.
Lemma remove_node_gone c y l : cnt c (chunks l) <= 1 -> ~ In (c, y) (remove_node c l).
Proof.
  induction l as [|[ca ta] l IH]; [simpl; auto|].
  change (chunks ((ca, ta) :: l)) with (ca :: chunks l). rewrite cnt_cons. cbn [remove_node fst].
  destruct (Nat.eq_dec ca c) as [->|N].
  - rewrite Nat.eqb_refl. intros L H. pose proof (in_chunks_cnt _ _ _ H). lia.
  - assert (Nat.eqb ca c = false) as -> by (apply Nat.eqb_neq; auto). intros L H. destruct H as [H | H]; [congruence | revert H; apply IH; lia].
Qed.

Definition inv2 (s : st) : Prop := inv s /\ clean s /\ sc s.

(* ------------------------------------------------------------------ settle *)
Lemma norm1_norem who s td : norem (tl td) = true -> norem (tl (norm1 who s td)) = true.
Proof.
  destruct td as [|it r]; simpl; auto. intros H. destruct it; simpl; auto.
  - destruct c; simpl; auto. destruct (skip_scan t (hq s)); simpl; auto. destruct r; simpl in *; auto.
    apply andb_true_iff in H. tauto.
  - destruct (skip_scan t l); simpl; auto. destruct r; simpl in *; auto. apply andb_true_iff in H. tauto.
  - destruct n; simpl; auto; destruct who; simpl; auto.
Qed.
Lemma norm_norem fuel who s : forall td, norem (tl td) = true -> norem (tl (norm fuel who s td)) = true.
Proof.
  induction fuel; simpl; auto. intros td H. pose proof (norm1_norem who s td H) as K.
  destruct (norm1 who s td) as [|it r] eqn:E; auto. destruct it; auto. destruct c; auto.
Qed.
Lemma norm1_disk s td : forallb disk_item td = true -> forallb disk_item (norm1 1 s td) = true.
Proof.
  destruct td as [|it r]; simpl; auto. intros H. apply andb_true_iff in H. destruct H as (Hh & Hr).
  destruct it; simpl in *; try discriminate; rewrite ?Hr; auto.
  - destruct c; simpl in *; try discriminate; rewrite Hr; auto.
  - destruct n; simpl; rewrite Hr; auto.
Qed.
Lemma norm_disk fuel s : forall td, forallb disk_item td = true -> forallb disk_item (norm fuel 1 s td) = true.
Proof.
  induction fuel; simpl; auto. intros td H. pose proof (norm1_disk s td H) as K.
  destruct (norm1 1 s td) as [|it r] eqn:E; auto. destruct it; auto. destruct c; auto.
Qed.
Lemma settle_clean s : clean s -> clean (settle s).
Proof.
  intros (A & B). unfold clean. rewrite settle_td0, settle_td1. split.
  - apply norm_disk; auto.
  - apply norm_norem; auto.
Qed.

Definition scv (h : list (chunk * tor)) (td : list item) : Prop :=
  match rem_view td with
  | Some (t, l) => forall n, In n h -> snd n = t -> In n l
  | None => True
  end.
Definition headedv (td : list item) : Prop :=
  match td with IRemScan t ((_, x) :: _) :: _ => x = t | IRemScan _ [] :: _ => False | _ => True end.
Lemma sc_scv s : sc s <-> scv (hq s) (td0 s). Proof. reflexivity. Qed.

Lemma norem_head_view td : norem td = true -> rem_view td = None /\ headedv td.
Proof. destruct td as [|it r]; simpl; auto. intros H. apply andb_true_iff in H. destruct H as (H & _). destruct it; simpl in *; auto; discriminate. Qed.

Lemma norm1_scv s td : norem (tl td) = true -> scv (hq s) td ->
  scv (hq s) (norm1 0 s td) /\ headedv (norm1 0 s td).
Proof.
  destruct td as [|it r]; simpl; auto. intros N S. destruct it; simpl; auto; try (split; [exact S | exact I]).
  - destruct c; try (split; [exact S | exact I]).
    destruct (skip_scan t (hq s)) as [|[c x] l'] eqn:E.
    + destruct (norem_head_view _ N) as (V & Hd). unfold scv. rewrite V. auto.
    + split. unfold scv, rem_view. intros n Hn Ht. rewrite <- E. apply skip_scan_keeps; auto.
      simpl. eapply skip_scan_head; eauto.
  - destruct (skip_scan t l) as [|[c x] l'] eqn:E.
    + destruct (norem_head_view _ N) as (V & Hd). unfold scv. rewrite V. auto.
    + split. unfold scv, rem_view in *. intros n Hn Ht. rewrite <- E. apply skip_scan_keeps; auto.
      simpl. eapply skip_scan_head; eauto.
  - destruct n; simpl; split; auto; exact I.
Qed.
Lemma norm_scv fuel s : forall td, norem (tl td) = true -> scv (hq s) td ->
  scv (hq s) (norm fuel 0 s td) /\ (fuel <> 0 -> headedv (norm fuel 0 s td)).
Proof.
  induction fuel; simpl; intros td N S. split; auto; congruence.
  destruct (norm1_scv s td N S) as (S1 & H1). pose proof (norm1_norem 0 s td N) as N1.
  destruct (norm1 0 s td) as [|it r] eqn:E; auto. destruct it; auto. destruct c; auto.
  destruct (IHfuel _ N1 S1) as (S2 & H2). split; auto. intros _.
  destruct fuel; simpl in *; auto.
Qed.

Lemma settle_sc s : clean s -> sc s -> sc (settle s) /\ headed (settle s).
Proof.
  intros (_ & N) Hs. unfold sc, headed. destruct (settle_shared s) as (E1 & _). rewrite E1, settle_td0.
  destruct (norm_scv (S (length (td0 s))) s (td0 s) N Hs) as (A & B). split. exact A. apply B. congruence.
Qed.

(* ------------------------------------------------------------------ raw steps *)
Lemma norem_tl l : norem l = true -> norem (tl l) = true.
Proof. destruct l; simpl; auto. intros H. apply andb_true_iff in H. tauto. Qed.

Lemma step_raw_clean s t s' : clean s -> step_raw s t = Some s' -> clean s'.
Proof.
  intros (A & B) St. unfold step_raw in St.
  destruct t as [|t]; [rewrite get_td_0 in St | rewrite get_td_S in St].
  - destruct (td0 s) as [|it rest] eqn:Htd; try discriminate. simpl in B.
    pose proof (norem_tl _ B) as B'.
    more_cases St; unfold clean; simpl; split; auto.
  - destruct (td1 s) as [|it rest] eqn:Htd; try discriminate. simpl in A. apply andb_true_iff in A. destruct A as (Ah & Ar).
    more_cases St; unfold clean; simpl in *; try discriminate; rewrite ?Ar; split; auto.
Qed.

Lemma step_raw_sc s t s' : inv s -> clean s -> sc s -> headed s -> step_raw s t = Some s' -> sc s'.
Proof.
  intros (_ & I) (A & B) S Hd St. unfold step_raw in St.
  destruct t as [|t]; [rewrite get_td_0 in St | rewrite get_td_S in St].
  - unfold sc, headed in *. destruct (td0 s) as [|it rest] eqn:Htd; try discriminate. simpl in B.
    destruct (norem_head_view _ B) as (V & _).
    more_cases St; simpl in *; rewrite ?V; auto.
    all: try match goal with |- match rem_view ?r with _ => _ end => destruct r as [|[] ?]; simpl in *; auto; try discriminate end.
    all: intros n Hn Ht; pose proof (remove_node_incl _ _ _ Hn) as Hin; destruct (S n Hin Ht) as [<- | ?]; auto;
         exfalso; eapply remove_node_gone; [|exact Hn]; destruct (I c) as (_ & ?); lia.
  - unfold sc in *. destruct (td1 s) as [|it rest] eqn:Htd; try discriminate. simpl in A. apply andb_true_iff in A. destruct A as (Ah & Ar).
    more_cases St; simpl in *; try discriminate; auto.
Qed.

Lemma step_inv2 s t s' : inv2 s -> headed s -> step s t = Some s' -> inv2 s' /\ headed s'.
Proof.
  intros (I & C & S) Hd H. unfold step in H. destruct (step_raw s t) as [r|] eqn:E; try discriminate. injection H as <-.
  pose proof (step_raw_inv _ _ _ I E) as I'. pose proof (step_raw_clean _ _ _ C E) as C'.
  pose proof (step_raw_sc _ _ _ I C S Hd E) as S'. destruct (settle_sc _ C' S') as (S2 & H2).
  split; auto. split; [apply settle_inv; auto | split; [apply settle_clean; auto | auto]].
Qed.

Definition disk_only (p1 : list cmd) : Prop := forallb (fun c => match c with Dispatch | Loop => true | _ => false end) p1 = true.

Lemma init_inv2 p0 p1 : distinct_pushes p0 p1 -> disk_only p1 -> inv2 (init p0 p1) /\ headed (init p0 p1).
Proof.
  intros D K. unfold init.
  set (s0 := mkSt (map ICmd p0) (map ICmd p1) [] [] [] false false 0 0 false false [] false).
  assert (inv s0) as I0. { split; simpl; auto. intros c. rewrite !hands_cmds. simpl. split; auto. specialize (D c). lia. }
  assert (clean s0) as C0.
  { split; simpl.
    - clear -K. induction p1 as [|c p IH]; simpl in *; auto. apply andb_true_iff in K. destruct K as (K1 & K2). destruct c; try discriminate; simpl; auto.
    - clear. destruct p0; simpl; auto. induction p0; simpl; auto. }
  assert (sc s0) as S0. { unfold sc; simpl. destruct p0; simpl; auto. }
  destruct (settle_sc _ C0 S0). split; auto. split; [apply settle_inv; auto | split; [apply settle_clean; auto | auto]].
Qed.

Lemma reachable_inv2 p0 p1 s : distinct_pushes p0 p1 -> disk_only p1 -> reachable (init p0 p1) s -> inv2 s /\ headed s.
Proof.
  intros D K R. induction R. apply init_inv2; auto. destruct IHR. eapply step_inv2; eauto.
Qed.

(* every node of the torrent being removed is still on the scan list: nothing is skipped *)
Lemma remove_scan_complete p0 p1 s t l : distinct_pushes p0 p1 -> disk_only p1 -> reachable (init p0 p1) s ->
  rem_view (td0 s) = Some (t, l) -> forall n, In n (hq s) -> snd n = t -> In n l.
Proof.
  intros D K R V. destruct (reachable_inv2 _ _ _ D K R) as ((_ & _ & S) & _). unfold sc in S. rewrite V in S. exact S.
Qed.

(* REMOVE RETURNS SAFE: a step of the main thread that ends a HashQueue::remove(t) call (the thread is no
   longer scanning for t afterwards) leaves no node of t - hence, by location_inv, no chunk of t in the check
   queue, in the disk thread's hands or in the done map; each removed chunk got exactly one notification
   (one_notification), which is where the harness releases the mapping. *)
Lemma remove_returns_safe p0 p1 s s2 t l : distinct_pushes p0 p1 -> disk_only p1 -> reachable (init p0 p1) s ->
  rem_view (td0 s) = Some (t, l) -> step s 0 = Some s2 ->
  (forall l', rem_view (td0 s2) <> Some (t, l')) ->
  forall n, In n (hq s2) -> snd n <> t.
Proof.
  intros D K R V St Ret n Hn Ht.
  assert (reachable (init p0 p1) s2) as R2 by (econstructor; eauto).
  destruct (reachable_inv2 _ _ _ D K R) as ((I & C & Sc) & Hd).
  unfold step in St. destruct (step_raw s 0) as [r|] eqn:E; try discriminate. injection St as <-.
  pose proof (step_raw_sc _ _ _ I C Sc Hd E) as Sr. pose proof (step_raw_clean _ _ _ C E) as (_ & Nr).
  destruct (settle_shared r) as (Eh & _). rewrite Eh in Hn.
  (* the raw successor is still scanning for t (or waiting), with all t-nodes on its list *)
  assert (exists lr, rem_view (td0 r) = Some (t, lr)) as (lr & Vr).
  { unfold step_raw in E. rewrite get_td_0 in E. destruct (td0 s) as [|it rest] eqn:Htd; try discriminate.
    unfold headed in Hd; rewrite Htd in Hd.
    destruct it; simpl in V; try discriminate; injection V as <- <-; more_cases E; simpl; try contradiction; eauto. }
  unfold sc in Sr. rewrite Vr in Sr. specialize (Sr n Hn Ht).
  (* settle: the scan continues unless skip_scan finds nothing *)
  rewrite settle_td0 in Ret. cbn [norm] in Ret.
  destruct (td0 r) as [|it rest] eqn:Htd; try discriminate. destruct it; simpl in Vr; try discriminate.
  - injection Vr as <- <-. simpl in Ret. destruct (skip_scan t0 l0) as [|x l'] eqn:Es.
    + eapply skip_scan_nil; eauto.
    + apply (Ret (x :: l')). reflexivity.
  - injection Vr as <- <-. simpl in Ret. apply (Ret ((c, t0) :: l0)). reflexivity.
  - injection Vr as <- <-. simpl in Ret. apply (Ret ((c, t0) :: l0)). reflexivity.
Qed.

(* MAPPING REFERENCES. In the implementation every pending piece holds one blocking ChunkList reference
   (ChunkList::get(get_blocking) before push_back) which the owner releases inside the notification it receives
   (slot_done -> ChunkList::release); the model therefore carries the references as "one per node": *)
Definition refs (s : st) : list chunk := chunks (hq s).
(* ... so a reference is released exactly when its piece is notified, i.e. (one_notification) at most once, and
   when remove(t) returns no reference of a piece of t is left *)
Lemma remove_returns_released p0 p1 s s2 t l : distinct_pushes p0 p1 -> disk_only p1 -> reachable (init p0 p1) s ->
  rem_view (td0 s) = Some (t, l) -> step s 0 = Some s2 ->
  (forall l', rem_view (td0 s2) <> Some (t, l')) ->
  forall c x, In (c, x) (hq s2) -> In c (refs s2) /\ x <> t.
Proof.
  intros D K R V St Ret c x Hin. split.
  - unfold refs, chunks. apply in_map_iff. exists (c, x). auto.
  - apply (remove_returns_safe _ _ _ _ _ _ D K R V St Ret (c, x) Hin).
Qed.
Lemma refs_released_with_notification p0 p1 s c : distinct_pushes p0 p1 -> reachable (init p0 p1) s ->
  1 <= cnt c (nchunks (notes s)) -> cnt c (refs s) = 0.
Proof.
  intros D R N. destruct (one_notification _ _ _ c D R) as (_ & H). destruct (H N) as (Hn & _).
  unfold refs. destruct (cnt c (chunks (hq s))) eqn:E; auto.
  assert (has_node c (hq s) = true) by (apply has_node_cnt; lia). congruence.
Qed.
