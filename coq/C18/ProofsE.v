(* C18 proofs, part E: liveness of HashQueue::remove's wait with a LOOPING disk thread. *)
From Coq Require Import List Bool Arith Lia.
From LTV.C18 Require Import Model ProofsA ProofsB ProofsC ProofsD.
Import ListNotations.

(* the disk thread's stack when its program is the event loop [Loop] *)
Inductive dshape : list item -> Prop :=
| ds0 : dshape [ICmd Loop]
| ds1 : dshape [IPcLock; ICmd Loop]
| ds2 n : dshape [IPerfPop; IBatch n; ICmd Loop]
| ds3 c n : dshape [IPublish c; IPerfPop; IBatch n; ICmd Loop]
| ds4 n : dshape [IPostWork; IPerfPop; IBatch n; ICmd Loop]
| ds5 n : dshape [IPostIntrUnlock; IPerfPop; IBatch n; ICmd Loop].

Definition disk_only_item (it : item) : bool :=
  match it with IPerfPop | IPublish _ | IPostWork | IPostIntrUnlock => true | _ => false end.
Definition mclean (td : list item) : bool := forallb (fun it => negb (disk_only_item it)) td.
Definition lock_head (td : list item) : bool := match td with IPostWork :: _ | IPostIntrUnlock :: _ => true | _ => false end.

Definition linv (s : st) : Prop :=
  dshape (td1 s) /\ mclean (td0 s) = true /\ dlk s = lock_head (td1 s) /\ (dlk s = true -> flag s = true).

Lemma dshape_norm s td : dshape td -> norm 2 1 s td = td.
Proof. intros H; destruct H; reflexivity. Qed.
Lemma mclean_norm1 s td : mclean td = true -> mclean (norm1 0 s td) = true.
Proof.
  destruct td as [|it r]; simpl; auto. intros H. apply andb_true_iff in H. destruct H as (Hh & Hr).
  destruct it; simpl in *; rewrite ?Hh, ?Hr; auto.
  - destruct c; simpl; rewrite ?Hr; auto. destruct (skip_scan t (hq s)); simpl; rewrite ?Hr; auto.
  - destruct (skip_scan t l); simpl; rewrite ?Hr; auto.
  - destruct n; simpl; rewrite ?Hr; auto.
Qed.
Lemma mclean_norm fuel s : forall td, mclean td = true -> mclean (norm fuel 0 s td) = true.
Proof.
  induction fuel; simpl; auto. intros td H. pose proof (mclean_norm1 s td H) as K.
  destruct (norm1 0 s td) as [|it r] eqn:E; auto. destruct it; auto. destruct c; auto.
Qed.
Lemma settle_linv s : linv s -> linv (settle s).
Proof.
  intros (A & B & C & D). destruct (settle_shared s) as (_ & _ & _ & Ef & El & _).
  unfold linv. rewrite settle_td0, settle_td1, Ef, El. rewrite dshape_norm by auto. repeat split; auto. apply mclean_norm; auto.
Qed.

Lemma flag_settle s : flag (settle s) = flag s. Proof. reflexivity. Qed.
Lemma dlk_settle s : dlk (settle s) = dlk s. Proof. reflexivity. Qed.

Lemma step_linv s t s' : linv s -> step s t = Some s' -> linv s'.
Proof.
  intros (A & B & C & D) H. unfold step in H. destruct (step_raw s t) as [r|] eqn:E; try discriminate. injection H as <-.
  destruct t as [|t].
  - apply settle_linv. unfold step_raw in E. rewrite get_td_0 in E.
    destruct (td0 s) as [|it rest] eqn:Htd; try discriminate. simpl in B. apply andb_true_iff in B. destruct B as (Bh & Br).
    more_cases E; unfold linv; simpl in *; try discriminate; rewrite ?Br; repeat split; auto; try congruence.
  - unfold step_raw in E. rewrite get_td_S in E. destruct A; simpl in *; more_cases E.
    all: try match goal with |- context [IBatch ?n :: [ICmd Loop]] => is_var n; destruct n end.
    all: unfold linv; rewrite settle_td0, settle_td1, flag_settle, dlk_settle.
    all: split; [simpl; try constructor | split; [apply mclean_norm; simpl; auto | simpl; split; auto; try congruence]].
Qed.

Lemma mclean_cmds p : mclean (map ICmd p) = true.
Proof. induction p; simpl; auto. Qed.
Lemma init_linv p0 : linv (init p0 [Loop]).
Proof.
  unfold init. apply settle_linv. unfold linv; simpl. repeat split; try constructor; auto using mclean_cmds; discriminate.
Qed.
Lemma reachable_linv p0 s : reachable (init p0 [Loop]) s -> linv s.
Proof. induction 1. apply init_linv. eapply step_linv; eauto. Qed.

(* ------------------------------------------------------------------ progress of the disk thread *)
Lemma td1_settle_id r : dshape (td1 r) -> td1 (settle r) = td1 r.
Proof. intros H. rewrite settle_td1. apply dshape_norm; auto. Qed.

Lemma disk_step_loop s : td1 s = [ICmd Loop] ->
  exists s', step s 1 = Some s' /\ td1 s' = [IPcLock; ICmd Loop] /\ cq s' = cq s /\ dq s' = dq s /\ flag s' = flag s.
Proof.
  intros H. unfold step, step_raw. rewrite get_td_S, H. eexists; split; [reflexivity|].
  rewrite settle_td1. simpl. repeat split.
Qed.
Lemma disk_step_lock s n : td1 s = [IPcLock; ICmd Loop] -> dq s = S n ->
  exists s', step s 1 = Some s' /\ td1 s' = [IPerfPop; IBatch n; ICmd Loop] /\ cq s' = cq s /\ flag s' = flag s.
Proof.
  intros H Hd. unfold step, step_raw. rewrite get_td_S, H, Hd. eexists; split; [reflexivity|].
  rewrite settle_td1. simpl. repeat split.
Qed.
Lemma disk_step_pop s n c0 q : td1 s = [IPerfPop; IBatch n; ICmd Loop] -> cq s = c0 :: q ->
  exists s', step s 1 = Some s' /\ td1 s' = [IPublish c0; IPerfPop; IBatch n; ICmd Loop].
Proof.
  intros H Hc. unfold step, step_raw. rewrite get_td_S, H, Hc. eexists; split; [reflexivity|].
  rewrite settle_td1. simpl. reflexivity.
Qed.

Lemma run_app s a b : run s (a ++ b) = run (run s a) b.
Proof. unfold run. apply fold_left_app. Qed.
Lemma run_one s s' : step s 1 = Some s' -> run s [1] = s'.
Proof. intros H. simpl. unfold sstep. rewrite H. reflexivity. Qed.

(* NO LOST WAKE-UP as LIVENESS, with the disk thread running its event loop: whenever the main thread sits in
   HashQueue::remove's wait with the flag clear (so it is NOT enabled and only the disk thread can move), at most
   4 steps of the disk thread - finishing pc_store / pc_lock, popping the next piece in perform(), chunk_done -
   set the flag, which enables the main thread. Under fairness of the disk thread remove's wait therefore always
   ends; each round of the wait loop either finds the awaited piece or is followed by another such round while
   the check queue strictly shrinks (perform() pops one piece per publish). *)
Lemma wakeup_within_4 p0 s c t l rest :
  distinct_pushes p0 [Loop] -> reachable (init p0 [Loop]) s ->
  td0 s = IRemWait c t l :: rest -> flag s = false ->
  exists n, n <= 4 /\ flag (run s (repeat 1 n)) = true.
Proof.
  intros D R Htd Hf.
  assert (disk_only [Loop]) as K by reflexivity.
  destruct (no_lost_wakeup _ _ _ _ _ _ _ D K R Htd Hf) as (Hn & Hdn & Hw).
  destruct (reachable_linv _ _ R) as (A & B & C & E).
  assert (cnt c (hands (td0 s)) = 0) as Hm.
  { clear -B. induction (td0 s) as [|it r IH]; simpl in *; auto. apply andb_true_iff in B. destruct B as (B1 & B2).
    destruct it; simpl in *; auto; discriminate. }
  unfold in_hands_n in Hw. rewrite Hm in Hw. simpl in Hw.
  (* from a stack [IPublish ..]: one step *)
  assert (forall s1 c1 r1, td1 s1 = IPublish c1 :: r1 -> flag (run s1 [1]) = true) as P1.
  { intros s1 c1 r1 H1. destruct (wakeup_progress _ _ _ H1) as (s' & St & F'). rewrite (run_one _ _ St). auto. }
  assert (forall s1 n1 c0 q, td1 s1 = [IPerfPop; IBatch n1; ICmd Loop] -> cq s1 = c0 :: q -> flag (run s1 [1; 1]) = true) as P2.
  { intros s1 n1 c0 q H1 H2. destruct (disk_step_pop _ _ _ _ H1 H2) as (s' & St & T').
    change [1; 1] with ([1] ++ [1]). rewrite run_app, (run_one _ _ St). eapply P1; eauto. }
  assert (cq s <> [] -> exists c0 q, cq s = c0 :: q) as Hcq by (destruct (cq s); [congruence | eauto]).
  inversion A as [E0 | E0 | n E0 | c1 n E0 | n E0 | n E0]; symmetry in E0.
  - (* [ICmd Loop] *)
    destruct Hw as [(Hh & _) | (Hc & _ & Hp)]. rewrite E0 in Hh; simpl in Hh; discriminate.
    destruct Hp as [Hp | Hp]; [|rewrite E0 in Hp; discriminate].
    destruct (disk_step_loop _ E0) as (s1 & S1 & T1 & Q1 & D1 & F1).
    destruct (dq s) as [|n] eqn:Ed; [lia|].
    destruct (disk_step_lock _ _ T1 D1) as (s2 & S2 & T2 & Q2 & F2).
    destruct Hcq as (c0 & q & Eq). { intros E1. rewrite E1 in Hc. discriminate. }
    exists 4. split; auto. change (repeat 1 4) with ([1] ++ [1] ++ [1; 1]).
    rewrite !run_app, (run_one _ _ S1), (run_one _ _ S2). eapply (P2 s2 n c0 q); [exact T2 | rewrite Q2, Q1; exact Eq].
  - (* [IPcLock; ICmd Loop] *)
    destruct Hw as [(Hh & _) | (Hc & _ & Hp)]. rewrite E0 in Hh; simpl in Hh; discriminate.
    destruct Hp as [Hp | Hp]; [|rewrite E0 in Hp; discriminate].
    destruct (dq s) as [|n] eqn:Ed; [lia|].
    destruct (disk_step_lock _ _ E0 Ed) as (s2 & S2 & T2 & Q2 & F2).
    destruct Hcq as (c0 & q & Eq). { intros E1. rewrite E1 in Hc. discriminate. }
    exists 3. split; auto. change (repeat 1 3) with ([1] ++ [1; 1]).
    rewrite !run_app, (run_one _ _ S2). eapply (P2 s2 n c0 q); [exact T2 | rewrite Q2; exact Eq].
  - (* [IPerfPop; ...] *)
    destruct Hw as [(Hh & _) | (Hc & _ & _)]. rewrite E0 in Hh; simpl in Hh; discriminate.
    destruct Hcq as (c0 & q & Eq). { intros E1. rewrite E1 in Hc. discriminate. }
    exists 2. split; auto. eapply P2; eauto.
  - exists 1. split; auto. eapply P1; eauto.
  - rewrite E0 in C. simpl in C. rewrite (E C) in Hf. discriminate.
  - rewrite E0 in C. simpl in C. rewrite (E C) in Hf. discriminate.
Qed.
