(* C18 proofs, part G: DEADLOCK FREEDOM of the hand-off automaton, unbounded - disk thread = its event loop [Loop],
   ALL main-thread programs (any number of pushes / removes / dispatches, hence any number of queued chunks) and ALL
   schedules. Replaces the bounded exploration [explore 40 prog_a] by an invariant argument:
   - [mwf]: the main thread's stack is always SETTLED (its head is an item with a real step) - so the only ways
     [step s 0] can be None are the three blocking points of the real code: hq_wait with the flag clear, and the two
     acquisitions of m_done_chunks_lock (remove's probe, work()'s pop) while the disk thread holds it in chunk_done;
   - the disk thread is always enabled, never touches the main thread's stack, and removes each of the three obstacles
     within at most 4 of its own steps. *)
From Coq Require Import List Bool Arith Lia.
From LTV.C18 Require Import Model ProofsA ProofsB ProofsC ProofsD ProofsE ProofsF.
Import ListNotations.

Definition is_cmd (it : item) : bool := match it with ICmd _ => true | _ => false end.
Definition all_cmd (td : list item) : bool := forallb is_cmd td.
(* below a command / an item of remove there are only commands (remove is never called from a callback) *)
Fixpoint mwf (td : list item) : bool :=
  match td with
  | [] => true
  | it :: r => if is_cmd it || is_rem it then all_cmd r else mwf r
  end.
Definition good_head (td : list item) : bool :=
  match td with ICmd (Remove _) :: _ | IBatch _ :: _ => false | _ => true end.

Lemma all_cmd_mwf r : all_cmd r = true -> mwf r = true.
Proof.
  induction r as [|it r IH]; simpl; auto. intros H. apply andb_true_iff in H. destruct H as (H1 & H2).
  rewrite H1. simpl. exact H2.
Qed.
Lemma mwf_tail it r : mwf (it :: r) = true -> mwf r = true.
Proof. simpl. destruct (is_cmd it || is_rem it); auto using all_cmd_mwf. Qed.

Lemma norm1_mwf s td : mwf td = true -> mwf (norm1 0 s td) = true.
Proof.
  destruct td as [|it r]; simpl; auto. destruct it; simpl; auto.
  - destruct c; simpl; auto. intros H. destruct (skip_scan t (hq s)); simpl; auto using all_cmd_mwf.
  - intros H. destruct (skip_scan t l); simpl; auto using all_cmd_mwf.
  - destruct n; simpl; auto.
Qed.
Lemma norm_mwf fuel s : forall td, mwf td = true -> mwf (norm fuel 0 s td) = true.
Proof.
  induction fuel; simpl; auto. intros td H. pose proof (norm1_mwf s td H) as K.
  destruct (norm1 0 s td) as [|it r] eqn:E; auto. destruct it; auto. destruct c; auto.
Qed.

Lemma all_cmd_good fuel s : forall r, all_cmd r = true -> length r < fuel -> good_head (norm fuel 0 s r) = true.
Proof.
  induction fuel; intros r H L. lia.
  destruct r as [|it r]; [reflexivity|]. simpl in H. apply andb_true_iff in H. destruct H as (H1 & H2).
  destruct it; try discriminate. simpl in L.
  destruct c; try reflexivity.
  simpl norm. simpl norm1. destruct (skip_scan t (hq s)) eqn:Es.
  - destruct r as [|it2 r2]; [reflexivity|].
    pose proof H2 as H3. simpl in H3. apply andb_true_iff in H3. destruct H3 as (H3 & H4).
    destruct it2; try discriminate.
    destruct c; try reflexivity. apply IHfuel; auto. lia.
  - reflexivity.
Qed.

Lemma norm_good fuel s td : mwf td = true -> length td < fuel -> good_head (norm fuel 0 s td) = true.
Proof.
  destruct fuel; [lia|]. intros H L.
  destruct td as [|it r]; [reflexivity|].
  destruct it; try reflexivity.
  - (* ICmd *) apply all_cmd_good; auto.
  - (* IRemScan *)
    simpl in H. simpl norm. simpl norm1. destruct (skip_scan t l) eqn:Es; [|reflexivity].
    destruct r as [|it2 r2]; [reflexivity|].
    pose proof H as H3. simpl in H3. apply andb_true_iff in H3. destruct H3 as (H3 & H4).
    destruct it2; try discriminate. destruct c; try reflexivity.
    apply all_cmd_good; auto. simpl in L |- *. lia.
  - (* IBatch *) simpl. destruct n; reflexivity.
Qed.

Definition minv (s : st) : Prop := mwf (td0 s) = true /\ good_head (td0 s) = true.

Lemma settle_minv s : mwf (td0 s) = true -> minv (settle s).
Proof.
  intros H. unfold minv. rewrite settle_td0. split. apply norm_mwf; auto. apply norm_good; auto.
Qed.

Lemma step_raw_td0_disk s k r : step_raw s (S k) = Some r -> td0 r = td0 s.
Proof.
  unfold step_raw. rewrite get_td_S. intros H. more_cases H; reflexivity.
Qed.

Lemma step_raw_mwf s t r : mwf (td0 s) = true -> step_raw s t = Some r -> mwf (td0 r) = true.
Proof.
  intros W H. destruct t as [|k]; [|rewrite (step_raw_td0_disk _ _ _ H); exact W].
  unfold step_raw in H. rewrite get_td_0 in H.
  destruct (td0 s) as [|it rest] eqn:Htd; try discriminate.
  pose proof (mwf_tail _ _ W) as Wt.
  simpl in W.
  more_cases H; simpl in *; auto; try (rewrite W; reflexivity).
Qed.

Lemma step_minv s t s' : mwf (td0 s) = true -> step s t = Some s' -> minv s'.
Proof.
  intros W H. unfold step in H. destruct (step_raw s t) as [r|] eqn:E; try discriminate. injection H as <-.
  apply settle_minv. eapply step_raw_mwf; eauto.
Qed.

Lemma all_cmd_map p : all_cmd (map ICmd p) = true.
Proof. induction p; simpl; auto. Qed.
Lemma init_minv p0 p1 : minv (init p0 p1).
Proof. unfold init. apply settle_minv. simpl. apply all_cmd_mwf, all_cmd_map. Qed.
Lemma reachable_minv p0 p1 s : reachable (init p0 p1) s -> minv s.
Proof. induction 1. apply init_minv. eapply step_minv; eauto. apply IHreachable. Qed.

(* a settled main stack is left alone by settle, whatever the shared state *)
Lemma norm_stable fuel s td : good_head td = true -> headedv td -> norm (S fuel) 0 s td = td.
Proof.
  intros G Hh. destruct td as [|it r]; [reflexivity|]. destruct it; try reflexivity; try discriminate.
  - destruct c; try reflexivity. discriminate.
  - simpl in Hh. destruct l as [|(c, x) l]; [contradiction|]. subst x.
    simpl. rewrite Nat.eqb_refl. reflexivity.
Qed.

Lemma disk_step_td0 p0 s s' : distinct_pushes p0 [Loop] -> reachable (init p0 [Loop]) s -> step s 1 = Some s' -> td0 s' = td0 s.
Proof.
  intros D R H. assert (disk_only [Loop]) as K by reflexivity.
  destruct (reachable_inv2 _ _ _ D K R) as (_ & Hh). destruct (reachable_minv _ _ _ R) as (_ & G).
  unfold step in H. destruct (step_raw s 1) as [r|] eqn:E; try discriminate. injection H as <-.
  rewrite settle_td0, (step_raw_td0_disk _ _ _ E). apply norm_stable; auto.
Qed.

Lemma disk_run_td0 p0 : distinct_pushes p0 [Loop] -> forall n s, reachable (init p0 [Loop]) s ->
  td0 (run s (repeat 1 n)) = td0 s.
Proof.
  intros D. induction n; intros s R; [reflexivity|].
  change (repeat 1 (S n)) with (1 :: repeat 1 n).
  change (run s (1 :: repeat 1 n)) with (run (sstep s 1) (repeat 1 n)). unfold sstep.
  destruct (step s 1) as [s'|] eqn:E.
  - rewrite IHn by (econstructor; eauto). eapply disk_step_td0; eauto.
  - apply IHn; auto.
Qed.

(* the disk thread (event loop) is enabled in every reachable state *)
Lemma disk_always_enabled p0 s : reachable (init p0 [Loop]) s -> exists s', step s 1 = Some s'.
Proof.
  intros R. destruct (reachable_linv _ _ R) as (A & _).
  unfold step, step_raw. rewrite get_td_S.
  inversion A as [E0 | E0 | n E0 | c n E0 | n E0 | n E0]; simpl.
  - eexists; reflexivity.
  - destruct (dq s); eexists; reflexivity.
  - destruct (cq s); eexists; reflexivity.
  - destruct (flag s); eexists; reflexivity.
  - destruct (Nat.eqb (mq s) 0); eexists; reflexivity.
  - eexists; reflexivity.
Qed.

(* m_done_chunks_lock is released within two disk steps *)
Lemma disk_unlocks_gen p0 s : distinct_pushes p0 [Loop] -> reachable (init p0 [Loop]) s -> dlk s = true ->
  exists n, n <= 2 /\ dlk (run s (repeat 1 n)) = false.
Proof.
  intros D R Hl. destruct (reachable_linv _ _ R) as (A & B & C & E).
  assert (forall s1, td1 s1 = [IPostIntrUnlock; IPerfPop; IBatch 0; ICmd Loop] \/ (exists n, td1 s1 = [IPostIntrUnlock; IPerfPop; IBatch n; ICmd Loop]) ->
          dlk (run s1 [1]) = false) as P1.
  { intros s1 H1. assert (exists n, td1 s1 = [IPostIntrUnlock; IPerfPop; IBatch n; ICmd Loop]) as (n & H2) by (destruct H1; eauto).
    simpl. unfold sstep, step, step_raw. rewrite get_td_S, H2. rewrite dlk_settle. reflexivity. }
  inversion A as [E0 | E0 | n E0 | x n E0 | n E0 | n E0]; symmetry in E0; rewrite E0 in C; simpl in C; try congruence.
  - destruct (Nat.eqb (mq s) 0) eqn:Em.
    + exists 2. split; auto. change (repeat 1 2) with ([1] ++ [1]). rewrite run_app.
      apply P1. right. exists n. simpl. unfold sstep, step, step_raw. rewrite get_td_S, E0, Em.
      rewrite settle_td1. reflexivity.
    + exists 1. split; auto. simpl. unfold sstep, step, step_raw. rewrite get_td_S, E0, Em. rewrite dlk_settle. reflexivity.
  - exists 1. split; auto. apply P1. eauto.
Qed.

(* MAIN IS NEVER STUCK: in every reachable state in which the main thread still has something to do, at most 4 steps of
   the disk thread (which leave the main thread's stack as it is) make the main thread enabled. *)
Lemma main_never_stuck p0 s : distinct_pushes p0 [Loop] -> reachable (init p0 [Loop]) s -> td0 s <> [] ->
  exists n, n <= 4 /\ td0 (run s (repeat 1 n)) = td0 s /\ exists s', step (run s (repeat 1 n)) 0 = Some s'.
Proof.
  intros D R Hne.
  assert (forall s2, step_raw s2 0 <> None -> exists s', step s2 0 = Some s') as Lift.
  { intros s2 H. unfold step. destruct (step_raw s2 0); [eauto | congruence]. }
  destruct (reachable_minv _ _ _ R) as (W & G).
  assert (disk_only [Loop]) as K by reflexivity.
  destruct (reachable_inv2 _ _ _ D K R) as (_ & Hh).
  destruct (step_raw s 0) as [r|] eqn:E0.
  { exists 0. split; [lia|]. split; [reflexivity|]. apply Lift. simpl. congruence. }
  (* blocked: which item? *)
  unfold step_raw in E0. rewrite get_td_0 in E0.
  destruct (td0 s) as [|it rest] eqn:Htd; [congruence|].
  assert (forall n, td0 (run s (repeat 1 n)) = it :: rest) as Keep.
  { intros n. rewrite (disk_run_td0 _ D n s R). exact Htd. }
  assert (dlk s = true -> exists n, n <= 4 /\ dlk (run s (repeat 1 n)) = false) as UL.
  { intros Hl. destruct (disk_unlocks_gen _ _ D R Hl) as (n & Ln & Hn). exists n. split; [lia | auto]. }
  destruct it; simpl in G; try discriminate; more_cases E0.
  - (* IRemDone, lock held *)
    destruct UL as (n & Ln & Hn); auto. exists n. split; auto. split; [apply Keep|].
    apply Lift. unfold step_raw. rewrite get_td_0, Keep, Hn.
    destruct (mem c (dn (run s (repeat 1 n)))); discriminate.
  - (* IRemWait, flag clear *)
    destruct (wakeup_within_4 _ _ _ _ _ _ D R Htd Heqb) as (n & Ln & Hn). exists n. split; auto. split; [apply Keep|].
    apply Lift. unfold step_raw. rewrite get_td_0, Keep, Hn. discriminate.
  - (* IWorkPop, lock held *)
    destruct UL as (n & Ln & Hn); auto. exists n. split; auto. split; [apply Keep|].
    apply Lift. unfold step_raw. rewrite get_td_0, Keep, Hn.
    destruct (dn (run s (repeat 1 n))); [discriminate|]. destruct (has_node c (hq (run s (repeat 1 n)))); discriminate.
Qed.

(* DEADLOCK FREEDOM: no reachable state is a deadlock - the disk thread can always step; and the main thread is blocked
   only at one of the three blocking points of the real code *)
Lemma main_blocked_only_at p0 s : distinct_pushes p0 [Loop] -> reachable (init p0 [Loop]) s -> td0 s <> [] -> step s 0 = None ->
  (exists c t l rest, td0 s = IRemWait c t l :: rest /\ flag s = false) \/
  (dlk s = true /\ ((exists c t l rest, td0 s = IRemDone c t l :: rest) \/ (exists rest, td0 s = IWorkPop :: rest))).
Proof.
  intros D R Hne H0.
  destruct (reachable_minv _ _ _ R) as (W & G).
  assert (disk_only [Loop]) as K by reflexivity.
  destruct (reachable_inv2 _ _ _ D K R) as (_ & Hh).
  unfold step in H0. destruct (step_raw s 0) as [r|] eqn:E0; [discriminate|].
  unfold step_raw in E0. rewrite get_td_0 in E0.
  destruct (td0 s) as [|it rest] eqn:Htd; [congruence|].
  destruct it; simpl in G; try discriminate; more_cases E0.
  - right. split; auto. left. eauto.
  - left. eauto 8.
  - right. split; auto.  right. eauto.
Qed.

(* non-vacuity: the three blocking points are reachable with the looping disk thread, and the hypotheses hold *)
Definition ex_p0 := [Push 0 0; Remove 0; Dispatch].
Lemma ex_distinct : distinct_pushes ex_p0 [Loop].
Proof. intros c. unfold ex_p0, cnt. simpl. destruct c; simpl; lia. Qed.
Example main_blocked_in_wait_reachable :
  let s := run (init ex_p0 [Loop]) [0;0;0;1;1;1;0;0] in
  distinct_pushes ex_p0 [Loop] /\ reachable (init ex_p0 [Loop]) s /\ td0 s <> [] /\ step s 0 = None /\
  td0 s = [IRemWait 0 0 []; ICmd Dispatch] /\ flag s = false.
Proof.
  split; [exact ex_distinct|]. split; [apply run_reachable; constructor|].
  vm_compute. repeat split; congruence.
Qed.
Example main_blocked_on_lock_in_remove_reachable :
  let s := run (init ex_p0 [Loop]) [0;0;0;1;1;1;1;0] in
  reachable (init ex_p0 [Loop]) s /\ step s 0 = None /\ td0 s = [IRemDone 0 0 []; ICmd Dispatch] /\ dlk s = true.
Proof. split; [apply run_reachable; constructor|]. vm_compute. repeat split. Qed.
Example main_blocked_on_lock_in_work_reachable :
  let s := run (init [Push 0 0; Dispatch] [Loop]) [0;0;0;1;1;1;1;1;0;0] in
  reachable (init [Push 0 0; Dispatch] [Loop]) s /\ step s 0 = None /\ td0 s = [IWorkPop; IBatch 0] /\ dlk s = true.
Proof. split; [apply run_reachable; constructor|]. vm_compute. repeat split. Qed.
