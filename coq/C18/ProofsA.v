(* C18 proofs, part A: counting invariants for ALL programs and ALL schedules.
     LOC   every chunk id occurs in {check queue, disk thread's hands, done map} exactly as often as
           it has a HashQueue node
     UNIQ  a chunk id occurs at most once among {pushes still to come, nodes, notifications}
     ERR   the "could not find done chunk's node" internal_error has not been thrown *)
From Coq Require Import List Bool Arith Lia.
From LTV.C18 Require Import Model.
Import ListNotations.

Definition cnt (c : chunk) (l : list chunk) : nat := count_occ Nat.eq_dec l c.
Definition chunks (l : list (chunk * tor)) : list chunk := map fst l.
Definition hands (td : list item) : list chunk :=
  flat_map (fun it => match it with IPublish c => [c] | _ => [] end) td.
Definition pushes (td : list item) : list chunk :=
  flat_map (fun it => match it with ICmd (Push c _) => [c] | _ => [] end) td.
Definition note_chunk (n : note) : chunk := match n with Digest c => c | Cancelled c => c end.
Definition nchunks (l : list note) : list chunk := map note_chunk l.

Lemma cnt_app c a b : cnt c (a ++ b) = cnt c a + cnt c b.
Proof. apply count_occ_app. Qed.
Lemma cnt_cons c x l : cnt c (x :: l) = (if Nat.eq_dec x c then 1 else 0) + cnt c l.
Proof. unfold cnt. simpl. destruct (Nat.eq_dec x c); lia. Qed.
Lemma mem_cnt c l : mem c l = true <-> 1 <= cnt c l.
Proof.
  unfold mem, cnt. induction l; simpl. split; [discriminate | lia].
  destruct (Nat.eq_dec a c) as [e|n].
  - subst a. rewrite Nat.eqb_refl. simpl. split; intros; [lia | reflexivity].
  - assert (Nat.eqb c a = false) as -> by (apply Nat.eqb_neq; congruence). simpl. exact IHl.
Qed.
Lemma has_node_cnt c l : has_node c l = true <-> 1 <= cnt c (chunks l).
Proof.
  unfold has_node, cnt, chunks. induction l as [|[ca ta] l IHl]; simpl. split; [discriminate | lia].
  destruct (Nat.eq_dec ca c) as [e|n].
  - subst ca. rewrite Nat.eqb_refl. simpl. split; intros; [lia | reflexivity].
  - assert (Nat.eqb ca c = false) as -> by (apply Nat.eqb_neq; congruence). simpl. exact IHl.
Qed.
Lemma cnt_remove_first_same c l : mem c l = true -> cnt c (remove_first c l) + 1 = cnt c l.
Proof.
  unfold mem, cnt. induction l; simpl; try discriminate. intros H.
  destruct (Nat.eq_dec a c) as [e|n].
  - subst a. rewrite Nat.eqb_refl. lia.
  - assert (Nat.eqb a c = false) as E by (apply Nat.eqb_neq; congruence). rewrite E.
    assert (Nat.eqb c a = false) as E2 by (apply Nat.eqb_neq; congruence). rewrite E2 in H. simpl in H.
    simpl. destruct (Nat.eq_dec a c); try congruence. auto.
Qed.
Lemma cnt_remove_first_other c c' l : c' <> c -> cnt c' (remove_first c l) = cnt c' l.
Proof.
  unfold cnt. intros N. induction l; simpl; auto.
  destruct (Nat.eq_dec a c) as [e|n].
  - subst a. rewrite Nat.eqb_refl. destruct (Nat.eq_dec c c'); congruence.
  - assert (Nat.eqb a c = false) as -> by (apply Nat.eqb_neq; congruence). simpl. rewrite IHl. reflexivity.
Qed.
Lemma cnt_remove_node_same c l : has_node c l = true -> cnt c (chunks (remove_node c l)) + 1 = cnt c (chunks l).
Proof.
  unfold has_node, cnt, chunks. induction l as [|[ca ta] l IHl]; simpl; try discriminate. intros H.
  destruct (Nat.eq_dec ca c) as [e|n].
  - subst ca. rewrite Nat.eqb_refl. lia.
  - assert (Nat.eqb ca c = false) as E by (apply Nat.eqb_neq; congruence). rewrite E in *. simpl in H.
    simpl. destruct (Nat.eq_dec ca c); try congruence. auto.
Qed.
Lemma cnt_remove_node_other c c' l : c' <> c -> cnt c' (chunks (remove_node c l)) = cnt c' (chunks l).
Proof.
  unfold cnt, chunks. intros N. induction l as [|[ca ta] l IHl]; simpl; auto.
  destruct (Nat.eq_dec ca c) as [e|n].
  - subst ca. rewrite Nat.eqb_refl. destruct (Nat.eq_dec c c'); congruence.
  - assert (Nat.eqb ca c = false) as -> by (apply Nat.eqb_neq; congruence). simpl. rewrite IHl. reflexivity.
Qed.
Lemma chunks_app a b : chunks (a ++ b) = chunks a ++ chunks b.
Proof. apply map_app. Qed.

(* ------------------------------------------------------------------ settle does not touch what we count *)
Lemma hands_norm1 who s td : hands (norm1 who s td) = hands td.
Proof.
  destruct td as [|it rest]; simpl; auto. destruct it; simpl; auto.
  - destruct c; simpl; auto. destruct (skip_scan t (hq s)); simpl; auto.
  - destruct (skip_scan t l); simpl; auto.
  - destruct n; simpl; auto. destruct who; simpl; auto.
Qed.
Lemma pushes_norm1 who s td : pushes (norm1 who s td) = pushes td.
Proof.
  destruct td as [|it rest]; simpl; auto. destruct it; simpl; auto.
  - destruct c; simpl; auto. destruct (skip_scan t (hq s)); simpl; auto.
  - destruct (skip_scan t l); simpl; auto.
  - destruct n; simpl; auto. destruct who; simpl; auto.
Qed.
Lemma hands_norm fuel who s : forall td, hands (norm fuel who s td) = hands td.
Proof.
  induction fuel; simpl; auto. intros td. pose proof (hands_norm1 who s td) as H.
  destruct (norm1 who s td) as [|it r] eqn:E; auto. destruct it; auto. destruct c; auto. rewrite IHfuel. auto.
Qed.
Lemma pushes_norm fuel who s : forall td, pushes (norm fuel who s td) = pushes td.
Proof.
  induction fuel; simpl; auto. intros td. pose proof (pushes_norm1 who s td) as H.
  destruct (norm1 who s td) as [|it r] eqn:E; auto. destruct it; auto. destruct c; auto. rewrite IHfuel. auto.
Qed.

Lemma settle_shared s :
  hq (settle s) = hq s /\ cq (settle s) = cq s /\ dn (settle s) = dn s /\ flag (settle s) = flag s /\
  dlk (settle s) = dlk s /\ mq (settle s) = mq s /\ dq (settle s) = dq s /\ notes (settle s) = notes s /\ err (settle s) = err s.
Proof. unfold settle, set_td; simpl. repeat split. Qed.
Lemma settle_td0 s : td0 (settle s) = norm (S (length (td0 s))) 0 s (td0 s).
Proof. reflexivity. Qed.
Lemma settle_td1 s : td1 (settle s) = norm 2 1 (set_td s 0 (norm (S (length (td0 s))) 0 s (td0 s))) (td1 s).
Proof. reflexivity. Qed.

(* ------------------------------------------------------------------ the counting invariant *)
Definition inv (s : st) : Prop :=
  err s = false /\
  forall c,
    cnt c (cq s) + cnt c (hands (td0 s)) + cnt c (hands (td1 s)) + cnt c (dn s) = cnt c (chunks (hq s)) /\
    cnt c (pushes (td0 s)) + cnt c (pushes (td1 s)) + cnt c (chunks (hq s)) + cnt c (nchunks (notes s)) <= 1.

Lemma settle_inv s : inv s -> inv (settle s).
Proof.
  intros (E & H). unfold inv. destruct (settle_shared s) as (E1 & E2 & E3 & _ & _ & _ & _ & E4 & E5).
  rewrite E1, E2, E3, E4, E5. split; auto. intros c. rewrite settle_td0, settle_td1, !hands_norm, !pushes_norm. apply H.
Qed.

Ltac more_cases H :=
  repeat match type of H with
  | context [match ?x with _ => _ end] => destruct x eqn:?; try discriminate
  end;
  try (injection H as H); subst.

Lemma get_td_0 s : get_td s 0 = td0 s. Proof. reflexivity. Qed.
Lemma get_td_S s n : get_td s (S n) = td1 s. Proof. reflexivity. Qed.

Ltac fin_inv H c' :=
  let H1 := fresh "H1" in let H2 := fresh "H2" in
  pose proof (H c') as (H1 & H2); simpl in H1, H2;
  repeat match goal with
  | Hm : mem ?c _ = true |- _ => pose proof (cnt_remove_first_same _ _ Hm); apply mem_cnt in Hm
  end;
  repeat match goal with
  | Hq : ?l = _ :: _ |- _ => rewrite Hq in *
  | Hq : cq _ = [] |- _ => rewrite Hq in *
  | Hq : dn _ = [] |- _ => rewrite Hq in *
  end;
  try match goal with
  | |- context [remove_node ?c (hq ?s)] =>
      let Hc1 := fresh "Hc1" in let Hc2 := fresh "Hc2" in let Hn := fresh "Hn" in
      pose proof (H c) as (Hc1 & Hc2); simpl in Hc1, Hc2;
      rewrite ?cnt_app, ?cnt_cons in Hc1; simpl in Hc1;
      assert (has_node c (hq s) = true) as Hn by (apply has_node_cnt; repeat match goal with Hx : context [Nat.eq_dec ?a ?a] |- _ => destruct (Nat.eq_dec a a); try congruence end; lia);
      pose proof (cnt_remove_node_same _ _ Hn);
      destruct (Nat.eq_dec c' c); [subst c' | rewrite ?cnt_remove_first_other, ?cnt_remove_node_other by assumption]
  end;
  rewrite ?cnt_app, ?chunks_app, ?cnt_app, ?cnt_cons in *; simpl in *; rewrite ?cnt_cons in *; simpl in *;
  repeat match goal with
  | |- context [Nat.eq_dec ?a ?b] => destruct (Nat.eq_dec a b); subst
  | Hx : context [Nat.eq_dec ?a ?b] |- _ => destruct (Nat.eq_dec a b); subst
  end;
  try lia.

Lemma step_raw_inv s t s' : inv s -> step_raw s t = Some s' -> inv s'.
Proof.
  intros (E & H) St. unfold step_raw in St.
  destruct t as [|t]; [rewrite get_td_0 in St | rewrite get_td_S in St].
  - destruct (td0 s) as [|it rest] eqn:Htd; try discriminate.
    more_cases St; unfold inv; simpl.
    all: try match goal with Hn : has_node ?c _ = false |- _ =>
           exfalso; destruct (H c) as (Hc1 & _); rewrite ?cnt_cons in Hc1;
           destruct (Nat.eq_dec c c); try congruence;
           assert (has_node c (hq s) = true) by (apply has_node_cnt; lia); congruence end.
    all: try (split; [assumption|]; intros c'; split; fin_inv H c').
  - destruct (td1 s) as [|it rest] eqn:Htd; try discriminate.
    more_cases St; unfold inv; simpl.
    all: try match goal with Hn : has_node ?c _ = false |- _ =>
           exfalso; destruct (H c) as (Hc1 & _); rewrite ?cnt_cons in Hc1;
           destruct (Nat.eq_dec c c); try congruence;
           assert (has_node c (hq s) = true) by (apply has_node_cnt; lia); congruence end.
    all: try (split; [assumption|]; intros c'; split; fin_inv H c').
Qed.
