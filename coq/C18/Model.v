(* C18 — transition-system model (shape T) of the asynchronous piece hashing hand-off:
   src/data/hash_queue.cc  HashQueue::{push_back, remove, work, chunk_done}
   src/data/hash_check_queue.cc  HashCheckQueue::{push_back, remove, perform}
   with the two cross-thread posts (disk_thread::callback(perform), main_thread::callback(work))
   reduced to C17's id-less post: a lock step on the target's callback queue (label cbn_lock) and,
   when that queue was empty, a do_interrupt step (cb_interrupt); and process_callbacks reduced to
   pc_store / pc_lock(swap) / run batch / pc_lock ... (C17 model, id-less callbacks only).
   Two threads: 0 = main, 1 = disk. One step = one LT_VERIF_SCHED label (hooks/c18.patch + the
   committed C17 points). Mutex sections are single steps EXCEPT chunk_done, whose section contains
   the post to main (two more schedule points while m_done_chunks_lock is held): the lock is a state
   component [dlk] and steps that need it are disabled while it is held.
   m_done_chunks is a std::map keyed by pointer: work() pops the lowest address. The model keeps
   the done set as a list in publication order; which element a pop delivers is not part of the
   compared output (only per-chunk outcomes are).  Definitions only. *)
From Coq Require Import List Bool Arith.
Import ListNotations.

Definition chunk := nat.
Definition tor := nat.

Inductive cmd :=
| Push (c : chunk) (t : tor)     (* main: HashQueue::push_back *)
| Remove (t : tor)               (* main: HashQueue::remove(id) *)
| Dispatch                       (* either thread: process_callbacks() *)
| Loop.                          (* disk thread's event loop: process_callbacks() forever *)

Inductive item :=
| ICmd (c : cmd)
| IPostPerform                     (* cbn_lock on disk's queue *)
| IPostIntr (tgt : nat)            (* cb_interrupt *)
| IRemScan (t : tor) (l : list (chunk * tor))   (* remaining nodes to visit in remove_if *)
| IRemDone (c : chunk) (t : tor) (l : list (chunk * tor))   (* m:hq_done_lock *)
| IRemWait (c : chunk) (t : tor) (l : list (chunk * tor))   (* b:hq_wait *)
| IPcLock                          (* pc_lock *)
| IBatch (n : nat)                 (* n callbacks of the local batch still to run *)
| IWorkPop                         (* m:hq_pop_lock *)
| IPerfPop                         (* m:hcq_pop_lock *)
| IPublish (c : chunk)             (* m:hq_publish_lock ; chunk is in the disk thread's hands *)
| IPostWork                        (* cbn_lock on main's queue, m_done_chunks_lock held *)
| IPostIntrUnlock.                 (* cb_interrupt, then notify_all and unlock *)

Inductive note := Digest (c : chunk) | Cancelled (c : chunk).

Record st := mkSt {
  td0 : list item;                 (* main thread pending operations *)
  td1 : list item;                 (* disk thread pending operations *)
  hq : list (chunk * tor);         (* HashQueue nodes (main thread only) *)
  cq : list chunk;                 (* HashCheckQueue deque, under m_lock *)
  dn : list chunk;                 (* m_done_chunks, under m_done_chunks_lock *)
  flag : bool;                     (* m_has_done_chunks *)
  dlk : bool;                      (* m_done_chunks_lock held by the disk thread across steps *)
  mq : nat;                        (* work() callbacks queued on main *)
  dq : nat;                        (* perform() callbacks queued on disk *)
  intr0 : bool; intr1 : bool;      (* poll interrupted flags *)
  notes : list note;               (* notifications delivered in the main thread, newest first *)
  err : bool                       (* internal_error("Could not find done chunk's node.") *)
}.

Inductive label :=
| L_hcq_push_lock | L_cbn_lock | L_cb_interrupt | L_hcq_remove_lock | L_hq_done_lock | L_hq_wait
| L_pc_store | L_pc_lock | L_hq_pop_lock | L_hcq_pop_lock | L_hq_publish_lock.

Definition set_td (s : st) (t : nat) (td : list item) : st :=
  match t with
  | O => mkSt td (td1 s) (hq s) (cq s) (dn s) (flag s) (dlk s) (mq s) (dq s) (intr0 s) (intr1 s) (notes s) (err s)
  | _ => mkSt (td0 s) td (hq s) (cq s) (dn s) (flag s) (dlk s) (mq s) (dq s) (intr0 s) (intr1 s) (notes s) (err s)
  end.
Definition get_td (s : st) (t : nat) : list item := match t with O => td0 s | _ => td1 s end.

Fixpoint remove_first (c : chunk) (l : list chunk) : list chunk :=
  match l with [] => [] | x :: r => if Nat.eqb x c then r else x :: remove_first c r end.
Definition mem (c : chunk) (l : list chunk) : bool := existsb (Nat.eqb c) l.
Fixpoint remove_node (c : chunk) (l : list (chunk * tor)) : list (chunk * tor) :=
  match l with [] => [] | x :: r => if Nat.eqb (fst x) c then r else x :: remove_node c r end.
Definition has_node (c : chunk) (l : list (chunk * tor)) : bool := existsb (fun x => Nat.eqb (fst x) c) l.

Definition label_of (t : nat) (it : item) : label :=
  match it with
  | ICmd (Push _ _) => L_hcq_push_lock
  | ICmd (Remove _) => L_hcq_remove_lock      (* only when a node matches; see [norm] *)
  | ICmd Dispatch => L_pc_store
  | ICmd Loop => L_pc_store
  | IPostPerform | IPostWork => L_cbn_lock
  | IPostIntr _ | IPostIntrUnlock => L_cb_interrupt
  | IRemScan _ _ => L_hcq_remove_lock
  | IRemDone _ _ _ => L_hq_done_lock
  | IRemWait _ _ _ => L_hq_wait
  | IPcLock => L_pc_lock
  | IBatch _ => match t with O => L_hq_pop_lock | _ => L_hcq_pop_lock end
  | IWorkPop => L_hq_pop_lock
  | IPerfPop => L_hcq_pop_lock
  | IPublish _ => L_hq_publish_lock
  end.

(* thread-local normalisation: expand items that perform no shared-memory operation.
   - Remove t  -> scan of the current nodes;  a scan skips nodes of other torrents without a step
   - IBatch 0  -> back to pc_lock;  IBatch (S n) -> the callback body (work / perform) then IBatch n *)
Fixpoint skip_scan (t : tor) (l : list (chunk * tor)) : list (chunk * tor) :=
  match l with
  | [] => []
  | x :: r => if Nat.eqb (snd x) t then l else skip_scan t r
  end.
Definition norm1 (who : nat) (s : st) (td : list item) : list item :=
  match td with
  | ICmd (Remove t) :: rest =>
      match skip_scan t (hq s) with [] => rest | l => IRemScan t l :: rest end
  | IRemScan t l :: rest =>
      match skip_scan t l with [] => rest | l' => IRemScan t l' :: rest end
  | IBatch O :: rest => IPcLock :: rest
  | IBatch (S n) :: rest => (match who with O => IWorkPop | _ => IPerfPop end) :: IBatch n :: rest
  | _ => td
  end.
(* norm1 can expose another expandable head (Remove with no matching node followed by Remove ...) *)
Fixpoint norm (fuel : nat) (who : nat) (s : st) (td : list item) : list item :=
  match fuel with
  | O => td
  | S f => let td' := norm1 who s td in
           match td' with
           | ICmd (Remove _) :: _ => norm f who s td'
           | _ => td'
           end
  end.
Definition settle (s : st) : st :=
  let s1 := set_td s 0 (norm (S (length (td0 s))) 0 s (td0 s)) in
  set_td s1 1 (norm 2 1 s1 (td1 s1)).

Definition upd_shared (s : st) hq' cq' dn' flag' dlk' mq' dq' i0 i1 notes' err' : st :=
  mkSt (td0 s) (td1 s) hq' cq' dn' flag' dlk' mq' dq' i0 i1 notes' err'.

(* one step of thread t (0 main, 1 disk) on a SETTLED state; None = not enabled *)
Definition step_raw (s : st) (t : nat) : option st :=
  match get_td s t with
  | [] => None
  | it :: rest =>
    match it with
    | ICmd (Push c x) =>
        let si := match cq s with [] => true | _ => false end in
        let s' := upd_shared s (hq s ++ [(c, x)]) (cq s ++ [c]) (dn s) (flag s) (dlk s) (mq s) (dq s) (intr0 s) (intr1 s) (notes s) (err s) in
        Some (set_td s' t (if si then IPostPerform :: rest else rest))
    | IPostPerform =>
        let first := Nat.eqb (dq s) 0 in
        let s' := upd_shared s (hq s) (cq s) (dn s) (flag s) (dlk s) (mq s) (S (dq s)) (intr0 s) (intr1 s) (notes s) (err s) in
        Some (set_td s' t (if first then IPostIntr 1 :: rest else rest))
    | IPostIntr tgt =>
        let s' := upd_shared s (hq s) (cq s) (dn s) (flag s) (dlk s) (mq s) (dq s)
                    (match tgt with O => true | _ => intr0 s end) (match tgt with O => intr1 s | _ => true end) (notes s) (err s) in
        Some (set_td s' t rest)
    | IRemScan x [] => Some (set_td s t rest)
    | IRemScan x ((c, _) :: l) =>
        if mem c (cq s) then
          let s' := upd_shared s (remove_node c (hq s)) (remove_first c (cq s)) (dn s) (flag s) (dlk s) (mq s) (dq s) (intr0 s) (intr1 s) (Cancelled c :: notes s) (err s) in
          Some (set_td s' t (IRemScan x l :: rest))
        else Some (set_td s t (IRemDone c x l :: rest))
    | IRemDone c x l =>
        if dlk s then None
        else if mem c (dn s) then
          let s' := upd_shared s (remove_node c (hq s)) (cq s) (remove_first c (dn s)) (flag s) (dlk s) (mq s) (dq s) (intr0 s) (intr1 s) (Cancelled c :: notes s) (err s) in
          Some (set_td s' t (IRemScan x l :: rest))
        else Some (set_td s t (IRemWait c x l :: rest))
    | IRemWait c x l =>
        if flag s then Some (set_td s t (IRemDone c x l :: rest)) else None
    | ICmd (Remove _) => None      (* unreachable on a settled state *)
    | ICmd Dispatch => Some (set_td s t (IPcLock :: rest))
    | ICmd Loop => Some (set_td s t (IPcLock :: ICmd Loop :: rest))
    | IPcLock =>
        match t with
        | O => match mq s with
               | O => Some (set_td s t rest)
               | n => Some (set_td (upd_shared s (hq s) (cq s) (dn s) (flag s) (dlk s) 0 (dq s) (intr0 s) (intr1 s) (notes s) (err s)) t (IBatch n :: rest))
               end
        | _ => match dq s with
               | O => Some (set_td s t rest)
               | n => Some (set_td (upd_shared s (hq s) (cq s) (dn s) (flag s) (dlk s) (mq s) 0 (intr0 s) (intr1 s) (notes s) (err s)) t (IBatch n :: rest))
               end
        end
    | IBatch _ => None             (* unreachable on a settled state *)
    | IWorkPop =>
        if dlk s then None
        else match dn s with
        | [] => Some (set_td (upd_shared s (hq s) (cq s) (dn s) false (dlk s) (mq s) (dq s) (intr0 s) (intr1 s) (notes s) (err s)) t rest)
        | c :: dn' =>
            if has_node c (hq s) then
              Some (set_td (upd_shared s (remove_node c (hq s)) (cq s) dn' (flag s) (dlk s) (mq s) (dq s) (intr0 s) (intr1 s) (Digest c :: notes s) (err s)) t (IWorkPop :: rest))
            else
              Some (set_td (upd_shared s (hq s) (cq s) dn' (flag s) (dlk s) (mq s) (dq s) (intr0 s) (intr1 s) (notes s) true) t [])
        end
    | IPerfPop =>
        match cq s with
        | [] => Some (set_td s t rest)
        | c :: cq' => Some (set_td (upd_shared s (hq s) cq' (dn s) (flag s) (dlk s) (mq s) (dq s) (intr0 s) (intr1 s) (notes s) (err s)) t (IPublish c :: IPerfPop :: rest))
        end
    | IPublish c =>
        if flag s then
          Some (set_td (upd_shared s (hq s) (cq s) (dn s ++ [c]) true false (mq s) (dq s) (intr0 s) (intr1 s) (notes s) (err s)) t rest)
        else
          Some (set_td (upd_shared s (hq s) (cq s) (dn s ++ [c]) true true (mq s) (dq s) (intr0 s) (intr1 s) (notes s) (err s)) t (IPostWork :: rest))
    | IPostWork =>
        let first := Nat.eqb (mq s) 0 in
        if first then
          Some (set_td (upd_shared s (hq s) (cq s) (dn s) (flag s) true (S (mq s)) (dq s) (intr0 s) (intr1 s) (notes s) (err s)) t (IPostIntrUnlock :: rest))
        else
          Some (set_td (upd_shared s (hq s) (cq s) (dn s) (flag s) false (S (mq s)) (dq s) (intr0 s) (intr1 s) (notes s) (err s)) t rest)
    | IPostIntrUnlock =>
        Some (set_td (upd_shared s (hq s) (cq s) (dn s) (flag s) false (mq s) (dq s) true (intr1 s) (notes s) (err s)) t rest)
    end
  end.

Definition step (s : st) (t : nat) : option st :=
  match step_raw s t with Some s' => Some (settle s') | None => None end.

Definition label_at (s : st) (t : nat) : option label :=
  match get_td s t with [] => None | it :: _ => Some (label_of t it) end.

Definition init (p0 p1 : list cmd) : st :=
  settle (mkSt (map ICmd p0) (map ICmd p1) [] [] [] false false 0 0 false false [] false).

Definition sstep (s : st) (t : nat) : st := match step s t with Some s' => s' | None => s end.
Definition run (s : st) (sched : list nat) : st := fold_left sstep sched s.
Definition finished (s : st) : bool := match td0 s, td1 s with [], [] => true | _, _ => false end.
