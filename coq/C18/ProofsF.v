(* C18 proofs, part F: termination of HashQueue::remove with the disk thread running its event loop. *)
From Coq Require Import List Bool Arith Lia.
From LTV.C18 Require Import Model ProofsA ProofsB ProofsC ProofsD ProofsE.
Import ListNotations.

(* ------------------------------------------------------------------ results pending => flag set *)
Definition flag_dn (s : st) : Prop := dn s <> [] -> flag s = true.

Lemma step_raw_flag_dn s t s' : flag_dn s -> step_raw s t = Some s' -> flag_dn s'.
Proof.
  unfold flag_dn. intros F H. unfold step_raw in H.
  destruct t as [|t]; simpl in H.
  all: match type of H with context [match ?x with _ => _ end] => destruct x as [|it rest]; try discriminate end.
  all: more_cases H; simpl in *; auto; try congruence.
  all: try (intros Hd; apply F; intros E; rewrite E in *; simpl in *; congruence).
  all: try (intros _; destruct (dn s); simpl in *; congruence).
Qed.
Lemma step_flag_dn s t s' : flag_dn s -> step s t = Some s' -> flag_dn s'.
Proof.
  unfold step. intros F H. destruct (step_raw s t) as [r|] eqn:E; try discriminate. injection H as <-.
  pose proof (step_raw_flag_dn _ _ _ F E) as Fr. unfold flag_dn in *. destruct (settle_shared r) as (_ & _ & -> & -> & _). auto.
Qed.
Lemma reachable_flag_dn p0 p1 s : reachable (init p0 p1) s -> flag_dn s.
Proof. induction 1. unfold flag_dn, init; simpl. congruence. eapply step_flag_dn; eauto. Qed.

(* ------------------------------------------------------------------ the variant *)
Fixpoint idx (c : chunk) (l : list chunk) : nat :=
  match l with [] => 0 | x :: r => if Nat.eqb x c then 0 else S (idx c r) end.

(* an upper bound on the number of disk-thread steps until piece c is in the done map *)
Definition mu (s : st) (c : chunk) : nat :=
  if mem c (dn s) then 0 else
  match td1 s with
  | IPublish x :: _ => if Nat.eqb x c then 1 else 4 * idx c (cq s) + 6
  | IPerfPop :: _ => 4 * idx c (cq s) + 3
  | IPostWork :: _ => 4 * idx c (cq s) + 5
  | IPostIntrUnlock :: _ => 4 * idx c (cq s) + 4
  | IPcLock :: _ => 4 * idx c (cq s) + 7
  | ICmd Loop :: _ => 4 * idx c (cq s) + 8
  | _ => 0
  end.

Definition awaiting (s : st) (c : chunk) (t : tor) : Prop :=
  exists l rest, td0 s = IRemDone c t l :: rest \/ td0 s = IRemWait c t l :: rest.

Lemma norm_await_id fuel s td c t l rest :
  td = IRemDone c t l :: rest \/ td = IRemWait c t l :: rest -> norm (S fuel) 0 s td = td.
Proof. intros [-> | ->]; reflexivity. Qed.

Lemma mem_app_other c x l : x <> c -> mem c (l ++ [x]) = mem c l.
Proof.
  intros N. unfold mem. rewrite existsb_app. simpl. assert (Nat.eqb c x = false) as -> by (apply Nat.eqb_neq; congruence).
  rewrite orb_false_r. reflexivity.
Qed.
Lemma mem_app_same c l : mem c (l ++ [c]) = true.
Proof. unfold mem. rewrite existsb_app. simpl. rewrite Nat.eqb_refl. rewrite orb_true_r. reflexivity. Qed.

Lemma dn_settle r : dn (settle r) = dn r. Proof. reflexivity. Qed.
Lemma cq_settle r : cq (settle r) = cq r. Proof. reflexivity. Qed.

(* DISK PROGRESS: while the main thread awaits piece c in remove() and c is not yet in the done map, the disk thread is
   enabled and each of its steps strictly decreases the variant [mu]; it leaves the main thread where it is *)
Lemma disk_progress p0 s c t :
  distinct_pushes p0 [Loop] -> reachable (init p0 [Loop]) s ->
  awaiting s c t -> mem c (dn s) = false ->
  exists s', step s 1 = Some s' /\ mu s' c < mu s c /\ td0 s' = td0 s /\ hq s' = hq s.
Proof.
  intros D R (l & rest & Hw) Hdn.
  assert (disk_only [Loop]) as K by reflexivity.
  destruct (reachable_linv _ _ R) as (A & B & C & E).
  destruct (reachable_inv3 _ _ _ D K R) as (Sub & _ & Perf).
  destruct (reachable_inv2 _ _ _ D K R) as (((_ & I) & _ & _) & _).
  (* c has a node, is not in the done map, hence in the check queue or in the disk thread's hands *)
  assert (rem_view (td0 s) = Some (t, (c, t) :: l)) as V by (destruct Hw as [-> | ->]; reflexivity).
  unfold sub_ok in Sub. rewrite V in Sub. destruct Sub as (_ & Incl).
  assert (In (c, t) (hq s)) as Hin by (apply Incl; left; auto).
  pose proof (in_chunks_cnt _ _ _ Hin) as Hn. destruct (I c) as (I1 & I2).
  assert (cnt c (dn s) = 0) as Hd0. { destruct (cnt c (dn s)) eqn:E0; auto. assert (mem c (dn s) = true) by (apply mem_cnt; lia). congruence. }
  assert (cnt c (hands (td0 s)) = 0) as Hm.
  { clear -B. induction (td0 s) as [|it r IH]; simpl in *; auto. apply andb_true_iff in B. destruct B as (B1 & B2).
    destruct it; simpl in *; auto; discriminate. }
  assert (forall r2, td0 r2 = td0 s -> td0 (settle r2) = td0 s) as Ts.
  { intros r2 E2. rewrite settle_td0, E2. destruct Hw as [Hw | Hw]; rewrite Hw; reflexivity. }
  unfold mu. rewrite Hdn.
  inversion A as [E0 | E0 | n E0 | x n E0 | n E0 | n E0]; symmetry in E0; rewrite E0 in *; simpl in I1.
  - (* [ICmd Loop] *)
    eexists. split. unfold step, step_raw. rewrite get_td_S, E0. reflexivity.
    split; [unfold mu; rewrite settle_td1; simpl; rewrite Hdn; lia | split; [apply Ts; reflexivity | reflexivity]].
  - (* [IPcLock; ICmd Loop] *)
    assert (cq s <> []) as Hc. { intros E1. rewrite E1 in I1. simpl in I1. lia. }
    destruct (Perf Hc) as [Hq | [Hq | Hq]]; try (rewrite E0 in Hq; discriminate);
      try (destruct Hw as [Hw | Hw]; rewrite Hw in Hq; discriminate).
    destruct (dq s) as [|m] eqn:Edq; [lia|].
    eexists. split. unfold step, step_raw. rewrite get_td_S, E0, Edq. reflexivity.
    split; [unfold mu; rewrite settle_td1; simpl; rewrite Hdn; destruct m; simpl; lia | split; [apply Ts; reflexivity | reflexivity]].
  - (* [IPerfPop; ...] *)
    destruct (cq s) as [|x q] eqn:Ecq. { simpl in I1. lia. }
    eexists. split. unfold step, step_raw. rewrite get_td_S, E0, Ecq. reflexivity.
    split; [unfold mu; rewrite settle_td1; simpl; rewrite Hdn; destruct (Nat.eqb x c) eqn:Ex; simpl; lia | split; [apply Ts; reflexivity | reflexivity]].
  - (* [IPublish x; ...] *)
    destruct (Nat.eqb x c) eqn:Ex.
    + apply Nat.eqb_eq in Ex. subst x.
      destruct (flag s) eqn:Ef; (eexists; split; [unfold step, step_raw; rewrite get_td_S, E0, Ef; reflexivity|]);
      (split; [unfold mu; rewrite dn_settle; simpl dn; rewrite mem_app_same; lia | split; [apply Ts; reflexivity | reflexivity]]).
    + apply Nat.eqb_neq in Ex.
      destruct (flag s) eqn:Ef; (eexists; split; [unfold step, step_raw; rewrite get_td_S, E0, Ef; reflexivity|]);
      (split; [unfold mu; rewrite settle_td1; simpl; rewrite mem_app_other, Hdn by auto; lia | split; [apply Ts; reflexivity | reflexivity]]).
  - (* [IPostWork; ...] *)
    destruct (Nat.eqb (mq s) 0) eqn:Em; (eexists; split; [unfold step, step_raw; rewrite get_td_S, E0, Em; reflexivity|]);
    (split; [unfold mu; rewrite settle_td1; simpl; rewrite Hdn; lia | split; [apply Ts; reflexivity | reflexivity]]).
  - (* [IPostIntrUnlock; ...] *)
    eexists. split. unfold step, step_raw. rewrite get_td_S, E0. reflexivity.
    split; [unfold mu; rewrite settle_td1; simpl; rewrite Hdn; lia | split; [apply Ts; reflexivity | reflexivity]].
Qed.

Lemma run_reach p0 s sched : reachable (init p0 [Loop]) s -> reachable (init p0 [Loop]) (run s sched).
Proof. intros R. apply run_reachable; auto. Qed.
Lemma run_cons_step s t s' sch : step s t = Some s' -> run s (t :: sch) = run s' sch.
Proof. intros H. simpl. unfold sstep. rewrite H. reflexivity. Qed.

(* the disk thread alone brings the awaited piece into the done map, within [mu] of its steps *)
Lemma disk_delivers p0 : distinct_pushes p0 [Loop] -> forall k s c t,
  reachable (init p0 [Loop]) s -> awaiting s c t -> mu s c <= k ->
  exists n, n <= k /\ mem c (dn (run s (repeat 1 n))) = true /\
            td0 (run s (repeat 1 n)) = td0 s /\ hq (run s (repeat 1 n)) = hq s.
Proof.
  intros D. induction k; intros s c t R Aw Hk.
  - exists 0. simpl. repeat split; auto. destruct (mem c (dn s)) eqn:E; auto.
    destruct (disk_progress _ _ _ _ D R Aw E) as (s' & _ & Lt & _). lia.
  - destruct (mem c (dn s)) eqn:E. exists 0. simpl. repeat split; auto; lia.
    destruct (disk_progress _ _ _ _ D R Aw E) as (s' & St & Lt & Etd & Ehq).
    assert (reachable (init p0 [Loop]) s') as R' by (econstructor; eauto).
    assert (awaiting s' c t) as Aw' by (destruct Aw as (l & r & Hw); exists l, r; rewrite Etd; auto).
    destruct (IHk s' c t R' Aw') as (n & Ln & Hm & Ht & Hh). lia.
    exists (S n). change (repeat 1 (S n)) with (1 :: repeat 1 n). rewrite (run_cons_step _ _ _ _ St).
    repeat split; try lia; auto; congruence.
Qed.

(* while m_done_chunks_lock is held (inside chunk_done) the disk thread is enabled and releases it within two steps,
   keeping the done map, the flag, the nodes and the (awaiting) main thread as they are *)
Definition lockm (s : st) : nat := match td1 s with IPostWork :: _ => 2 | IPostIntrUnlock :: _ => 1 | _ => 0 end.
Lemma disk_unlock_step p0 s c t : reachable (init p0 [Loop]) s -> awaiting s c t -> dlk s = true ->
  exists s', step s 1 = Some s' /\ lockm s' < lockm s /\ dn s' = dn s /\ td0 s' = td0 s /\ hq s' = hq s /\ flag s' = flag s.
Proof.
  intros R (l & rest & Hw) Hl. destruct (reachable_linv _ _ R) as (A & B & C & E).
  assert (forall r2, td0 r2 = td0 s -> td0 (settle r2) = td0 s) as Ts.
  { intros r2 E2. rewrite settle_td0, E2. destruct Hw as [Hw | Hw]; rewrite Hw; reflexivity. }
  unfold lockm.
  inversion A as [E0 | E0 | n E0 | x n E0 | n E0 | n E0]; symmetry in E0; rewrite E0 in *; simpl in C; try congruence.
  - destruct (Nat.eqb (mq s) 0) eqn:Em; (eexists; split; [unfold step, step_raw; rewrite get_td_S, E0, Em; reflexivity|]);
    (split; [rewrite settle_td1; simpl; lia | split; [reflexivity | split; [apply Ts; reflexivity | split; reflexivity]]]).
  - eexists; split; [unfold step, step_raw; rewrite get_td_S, E0; reflexivity|].
    split; [rewrite settle_td1; simpl; lia | split; [reflexivity | split; [apply Ts; reflexivity | split; reflexivity]]].
Qed.
Lemma disk_unlocks p0 : forall k s c t, reachable (init p0 [Loop]) s -> awaiting s c t -> lockm s <= k ->
  exists n, n <= k /\ dlk (run s (repeat 1 n)) = false /\ dn (run s (repeat 1 n)) = dn s /\
            td0 (run s (repeat 1 n)) = td0 s /\ hq (run s (repeat 1 n)) = hq s /\ flag (run s (repeat 1 n)) = flag s.
Proof.
  induction k; intros s c t R Aw Hk.
  - exists 0. simpl. repeat split; auto. destruct (dlk s) eqn:E; auto.
    destruct (disk_unlock_step _ _ _ _ R Aw E) as (s' & _ & Lt & _). lia.
  - destruct (dlk s) eqn:E. 2: { exists 0. simpl. repeat split; auto; lia. }
    destruct (disk_unlock_step _ _ _ _ R Aw E) as (s' & St & Lt & Edn & Etd & Ehq & Efl).
    assert (reachable (init p0 [Loop]) s') as R' by (econstructor; eauto).
    assert (awaiting s' c t) as Aw' by (destruct Aw as (l & r & Hw); exists l, r; rewrite Etd; auto).
    destruct (IHk s' c t R' Aw') as (n & Ln & Hd & Hdn & Ht & Hh & Hf). lia.
    exists (S n). change (repeat 1 (S n)) with (1 :: repeat 1 n). rewrite (run_cons_step _ _ _ _ St).
    repeat split; try lia; auto; congruence.
Qed.

(* ------------------------------------------------------------------ the main thread's steps inside remove *)
Definition nt (t : tor) (h : list (chunk * tor)) : nat := length (filter (fun n => Nat.eqb (snd n) t) h).

Lemma nt_remove c t h : (forall x, cnt x (chunks h) <= 1) -> In (c, t) h -> nt t (remove_node c h) + 1 = nt t h.
Proof.
  unfold nt. induction h as [|[a b] h IH]; intros U Hin. inversion Hin.
  cbn [remove_node fst]. destruct (Nat.eq_dec a c) as [-> | N].
  - rewrite Nat.eqb_refl. assert (b = t). { eapply uniq_same; [apply U | left; reflexivity | exact Hin]. }
    subst b. simpl. rewrite Nat.eqb_refl. simpl. lia.
  - assert (Nat.eqb a c = false) as -> by (apply Nat.eqb_neq; auto).
    destruct Hin as [Hin | Hin]. congruence.
    assert (forall x, cnt x (chunks h) <= 1) as U'.
    { intros x. specialize (U x). change (chunks ((a, b) :: h)) with (a :: chunks h) in U. rewrite cnt_cons in U. lia. }
    specialize (IH U' Hin). simpl. destruct (Nat.eqb b t); simpl; lia.
Qed.

Lemma hq_settle r : hq (settle r) = hq r. Proof. reflexivity. Qed.

Lemma main_completes_node s c t l rest : td0 s = IRemDone c t l :: rest -> mem c (dn s) = true -> dlk s = false ->
  exists s1, step s 0 = Some s1 /\ hq s1 = remove_node c (hq s).
Proof.
  intros H Hm Hl. unfold step, step_raw. rewrite get_td_0, H, Hl, Hm. eexists; split; [reflexivity|]. rewrite hq_settle. reflexivity.
Qed.
Lemma main_wait_to_done s c t l rest : td0 s = IRemWait c t l :: rest -> flag s = true ->
  exists s1, step s 0 = Some s1 /\ td0 s1 = IRemDone c t l :: rest /\ dn s1 = dn s /\ dlk s1 = dlk s /\ hq s1 = hq s.
Proof.
  intros H Hf. unfold step, step_raw. rewrite get_td_0, H, Hf. eexists; split; [reflexivity|].
  rewrite settle_td0. simpl. repeat split.
Qed.
Lemma main_scan_step s c x t l rest : td0 s = IRemScan t ((c, x) :: l) :: rest ->
  exists s1, step s 0 = Some s1 /\
    ((mem c (cq s) = true /\ hq s1 = remove_node c (hq s)) \/
     (mem c (cq s) = false /\ td0 s1 = IRemDone c t l :: rest /\ hq s1 = hq s)).
Proof.
  intros H. unfold step, step_raw. rewrite get_td_0, H. destruct (mem c (cq s)) eqn:E; (eexists; split; [reflexivity|]).
  - left. split; auto.
  - right. split; auto.
Qed.

Lemma forall_lt2_app a b : Forall (fun x => x < 2) a -> Forall (fun x => x < 2) b -> Forall (fun x => x < 2) (a ++ b).
Proof. intros; apply Forall_app; auto. Qed.
Lemma forall_lt2_rep1 n : Forall (fun x => x < 2) (repeat 1 n).
Proof. induction n; simpl; constructor; auto. Qed.

(* one node of the torrent gets done: from any state inside remove(t) there is a schedule - the disk thread runs until the
   awaited piece is published and the lock released (bounded by the variant), then the main thread takes at most two
   steps - after which the HashQueue has one node of t less *)
Lemma await_node_done p0 s c t : distinct_pushes p0 [Loop] -> reachable (init p0 [Loop]) s -> awaiting s c t ->
  exists sched spre s1 L0, Forall (fun x => x < 2) sched /\ spre = run s sched /\
    rem_view (td0 spre) = Some (t, L0) /\ step spre 0 = Some s1 /\ nt t (hq s1) < nt t (hq s).
Proof.
  intros D R Aw. assert (disk_only [Loop]) as K by reflexivity.
  destruct (reachable_inv3 _ _ _ D K R) as (Sub & _ & _).
  destruct (reachable_inv2 _ _ _ D K R) as (((_ & I) & _ & _) & _).
  assert (forall x, cnt x (chunks (hq s)) <= 1) as U by (intros x; destruct (I x); lia).
  destruct Aw as (l & rest & Hw).
  assert (rem_view (td0 s) = Some (t, (c, t) :: l)) as V by (destruct Hw as [-> | ->]; reflexivity).
  unfold sub_ok in Sub. rewrite V in Sub. destruct Sub as (_ & Incl).
  assert (In (c, t) (hq s)) as Hin by (apply Incl; left; auto).
  assert (awaiting s c t) as Aw by (exists l, rest; auto).
  destruct (disk_delivers _ D _ _ _ _ R Aw (le_n _)) as (n1 & _ & M1 & T1 & H1).
  set (sA := run s (repeat 1 n1)) in *. assert (reachable (init p0 [Loop]) sA) as RA by (apply run_reach; auto).
  assert (awaiting sA c t) as AwA by (exists l, rest; rewrite T1; auto).
  destruct (disk_unlocks p0 _ _ _ _ RA AwA (le_n _)) as (n2 & _ & L2 & D2 & T2 & H2 & F2).
  set (sB := run sA (repeat 1 n2)) in *. assert (reachable (init p0 [Loop]) sB) as RB by (apply run_reach; auto).
  assert (mem c (dn sB) = true) as MB by (rewrite D2; auto).
  assert (nt t (remove_node c (hq s)) < nt t (hq s)) as Lt by (pose proof (nt_remove _ _ _ U Hin); lia).
  destruct Hw as [Hw | Hw].
  - (* at the locked probe of the done map *)
    destruct (main_completes_node sB c t l rest) as (s1 & S1 & Hq1); auto. rewrite T2, T1; auto.
    exists (repeat 1 n1 ++ repeat 1 n2), sB, s1, ((c, t) :: l). repeat split; auto using forall_lt2_app, forall_lt2_rep1.
    + unfold sB, sA. rewrite run_app. reflexivity.
    + rewrite T2, T1, Hw. reflexivity.
    + rewrite Hq1, H2, H1. auto.
  - (* in the wait: the flag is set because the done map is not empty *)
    assert (flag sB = true) as FB.
    { apply (reachable_flag_dn _ _ _ RB). intros E0. rewrite E0 in MB. discriminate. }
    destruct (main_wait_to_done sB c t l rest) as (sC & SC & TC & DC & LC & HC); auto. rewrite T2, T1; auto.
    destruct (main_completes_node sC c t l rest) as (s1 & S1 & Hq1); auto. rewrite DC; auto. rewrite LC; auto.
    exists (repeat 1 n1 ++ repeat 1 n2 ++ [0]), sC, s1, ((c, t) :: l). repeat split; auto using forall_lt2_app, forall_lt2_rep1.
    + repeat apply forall_lt2_app; auto using forall_lt2_rep1.
    + rewrite !run_app. fold sA. fold sB. simpl. unfold sstep. rewrite SC. reflexivity.
    + rewrite TC. reflexivity.
    + rewrite Hq1, HC, H2, H1. auto.
Qed.

Lemma node_done p0 s t L : distinct_pushes p0 [Loop] -> reachable (init p0 [Loop]) s -> rem_view (td0 s) = Some (t, L) ->
  exists sched spre s1 L0, Forall (fun x => x < 2) sched /\ spre = run s sched /\
    rem_view (td0 spre) = Some (t, L0) /\ step spre 0 = Some s1 /\ nt t (hq s1) < nt t (hq s).
Proof.
  intros D R V. assert (disk_only [Loop]) as K by reflexivity.
  destruct (td0 s) as [|it rest] eqn:Htd; try discriminate. destruct it; simpl in V; try discriminate.
  - (* the locked probe of the check queue is the next step *)
    injection V as <- <-.
    destruct (reachable_inv2 _ _ _ D K R) as (((_ & I) & _ & _) & Hd).
    destruct (reachable_inv3 _ _ _ D K R) as (Sub & _ & _).
    unfold headed in Hd. rewrite Htd in Hd. destruct l as [|[c x] l]; try contradiction. subst x.
    unfold sub_ok in Sub. rewrite Htd in Sub. simpl in Sub. destruct Sub as (_ & Incl).
    assert (In (c, t0) (hq s)) as Hin by (apply Incl; left; auto).
    assert (forall y, cnt y (chunks (hq s)) <= 1) as U by (intros y; destruct (I y); lia).
    destruct (main_scan_step s c t0 t0 l rest Htd) as (s1 & S1 & [(Hm & Hq) | (Hm & Td & Hq)]).
    + exists [], s, s1, ((c, t0) :: l). repeat split; auto. rewrite Htd; reflexivity.
      rewrite Hq. pose proof (nt_remove _ _ _ U Hin). lia.
    + assert (reachable (init p0 [Loop]) s1) as R1 by (econstructor; eauto).
      assert (awaiting s1 c t0) as Aw by (exists l, rest; auto).
      destruct (await_node_done _ _ _ _ D R1 Aw) as (sch & spre & s2 & L0 & Fs & Es & Vs & Ss & Lt).
      exists (0 :: sch), spre, s2, L0. repeat split; auto. rewrite (run_cons_step _ _ _ _ S1). auto. rewrite <- Hq. auto.
  - injection V as <- <-. match goal with Hx : td0 s = IRemDone ?c ?tt ?ll :: ?r |- _ => apply (await_node_done p0 s c tt D R); exists ll, r; auto end.
  - injection V as <- <-. match goal with Hx : td0 s = IRemWait ?c ?tt ?ll :: ?r |- _ => apply (await_node_done p0 s c tt D R); exists ll, r; auto end.
Qed.

(* TERMINATION OF HashQueue::remove, disk thread = its event loop, ALL main programs: from every reachable state in which
   the main thread is inside remove(t) there is a schedule - a fair one: the disk thread gets the (bounded) number of steps
   the variant asks for, then the main thread one or two - after which remove(t) has returned, no node of t is left, and
   (location_inv) none of its pieces is in the check queue, in the disk thread's hands or in the done map. *)
Lemma remove_terminates p0 : distinct_pushes p0 [Loop] -> forall k s t L,
  reachable (init p0 [Loop]) s -> rem_view (td0 s) = Some (t, L) -> nt t (hq s) <= k ->
  exists sched, Forall (fun x => x < 2) sched /\
    (forall L', rem_view (td0 (run s sched)) <> Some (t, L')) /\
    (forall n, In n (hq (run s sched)) -> snd n <> t).
Proof.
  intros D. assert (disk_only [Loop]) as K by reflexivity.
  induction k; intros s t L R V Hk.
  - destruct (node_done _ _ _ _ D R V) as (sch & spre & s1 & L0 & _ & _ & _ & _ & Lt). lia.
  - destruct (node_done _ _ _ _ D R V) as (sch & spre & s1 & L0 & Fs & Es & Vs & Ss & Lt).
    assert (reachable (init p0 [Loop]) spre) as Rp by (subst spre; apply run_reach; auto).
    assert (reachable (init p0 [Loop]) s1) as R1 by (econstructor; eauto).
    destruct (rem_view (td0 s1)) as [[t' L1]|] eqn:V1.
    + destruct (Nat.eq_dec t' t) as [-> | N].
      * destruct (IHk s1 t L1 R1 V1) as (sch2 & F2 & Ret & Nn). lia.
        exists (sch ++ 0 :: sch2). split. apply Forall_app; split; auto.
        rewrite run_app, <- Es, (run_cons_step _ _ _ _ Ss). auto.
      * exists (sch ++ [0]). split. apply Forall_app; split; auto.
        rewrite run_app, <- Es, (run_cons_step _ _ _ _ Ss). simpl.
        assert (forall L', rem_view (td0 s1) <> Some (t, L')) as Ret by (intros L' E; rewrite V1 in E; congruence).
        split; auto. eapply (remove_returns_safe _ _ spre s1 t L0); eauto.
    + exists (sch ++ [0]). split. apply Forall_app; split; auto.
      rewrite run_app, <- Es, (run_cons_step _ _ _ _ Ss). simpl.
      assert (forall L', rem_view (td0 s1) <> Some (t, L')) as Ret by (intros L' E; rewrite V1 in E; congruence).
      split; auto. eapply (remove_returns_safe _ _ spre s1 t L0); eauto.
Qed.

(* the main thread's own steps while the awaited piece is not yet published only alternate between the locked probe and
   the wait: they change neither the variant nor the nodes (stutter); so under ANY schedule the variant never increases
   while main awaits c, every disk step strictly decreases it (disk_progress), and once it is 0 (c published) and the lock
   is free the main thread's next one or two steps complete the node: remove terminates under every schedule that is
   fair to the disk thread. *)
Lemma main_stutters s c t s1 : dshape (td1 s) -> awaiting s c t -> mem c (dn s) = false -> step s 0 = Some s1 ->
  awaiting s1 c t /\ mu s1 c = mu s c /\ hq s1 = hq s.
Proof.
  intros Ds (l & rest & Hw) Hm H. unfold step, step_raw in H. rewrite get_td_0 in H. destruct Hw as [Hw | Hw]; rewrite Hw in H.
  - destruct (dlk s); try discriminate. rewrite Hm in H. injection H as <-.
    split. exists l, rest. right. rewrite settle_td0. reflexivity. split; [|reflexivity]. unfold mu. rewrite td1_settle_id by (simpl; auto). reflexivity.
  - destruct (flag s); try discriminate. injection H as <-.
    split. exists l, rest. left. rewrite settle_td0. reflexivity. split; [|reflexivity]. unfold mu. rewrite td1_settle_id by (simpl; auto). reflexivity.
Qed.
