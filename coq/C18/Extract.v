From Coq Require Import Extraction ExtrOcamlBasic ZArith.
From LTV.C18 Require Import Model.
Set Extraction Optimize.
Extraction Language OCaml.
Extraction "extracted/c18_model.ml" init step label_at finished Z.of_N.
