(* C12 proofs, part E: the ThrottleInternal hierarchy (root + slaves): invariant, exact accounting of
   m_unused_quota through receive_quota, global conservation. *)
From Coq Require Import List NArith Bool Lia PeanoNat.
From LTV.C12 Require Import ParamsGen PolicyGen.
From LTV.C12 Require Import Model ProofsA ProofsB ProofsC.
Import ListNotations.
Local Open Scope N_scope.

Definition EB : N := 2 * Qmax + HB.             (* most a slave can hand back in one tick *)
Definition W : N := 2 * Qmax + Kmax * EB.       (* bound on the root's m_unused_quota during a tick *)
Lemma W_lt : W < w32. Proof. vm_compute. reflexivity. Qed.
Lemma EB_val : EB = 335544320. Proof. reflexivity. Qed.
Lemma W_val : W = 2818572288. Proof. reflexivity. Qed.
Lemma Qmax_val : Qmax = 67108864. Proof. reflexivity. Qed.

(* quota a slave throttle holds: its own m_unused_quota + everything in its list *)
Definition Hof (s : slave) : N := s_unused s + held (s_tl s).
Definition Hs (l : list slave) : N := fold_right (fun s a => Hof s + a) 0 l.
(* all quota in the hierarchy *)
Definition G (x : st) : N := unused x + held (rtl x) + Hs (slaves x).

Definition slv_inv (en : bool) (s : slave) : Prop :=
  tl_inv (s_tl s) /\ enabled (s_tl s) = en /\ s_unused s <= Qmax.

Record sinv (x : st) : Prop := {
  s_root : tl_inv (rtl x);
  s_slaves : Forall (slv_inv (enabled (rtl x))) (slaves x);      (* enabled-sync *)
  s_en : enabled (rtl x) = negb (mrate x =? 0);                  (* limited <-> enabled *)
  s_rate_lt : mrate x < w32;
  s_next : (next x <= length (slaves x))%nat;                    (* cursor in range *)
  s_unused_le : unused x <= Qmax;
  s_count : N.of_nat (length (slaves x)) <= Kmax;
  s_now : 1000000 <= now x }.

Lemma Hs_app a b : Hs (a ++ b) = Hs a + Hs b.
Proof. induction a as [|s a IH]; cbn [Hs fold_right app] in *; [reflexivity|]. fold (Hs (a ++ b)) (Hs a). rewrite IH. lia. Qed.
Lemma Hs_cons s l : Hs (s :: l) = Hof s + Hs l. Proof. reflexivity. Qed.

Lemma same_quota_refl t : same_quota t t.
Proof. unfold same_quota. splits; reflexivity. Qed.
Lemma same_quota_trans a b c : same_quota a b -> same_quota b c -> same_quota a c.
Proof. unfold same_quota. intros (A1&A2&A3&A4&A5&A6&A7&A8&A9) (B1&B2&B3&B4&B5&B6&B7&B8&B9). splits; congruence. Qed.

Lemma need_le q f r : need_of q f r <= q. Proof. unfold need_of. destruct (r =? 0); lia. Qed.

(* ------------------------------------------------------------------ receive_quota on a slave *)
Lemma slave_rq_spec s quota f : slv_inv true s -> quota <= Qmax ->
  exists s' used acts e,
    slave_receive_quota s quota f = Ok (s', used, acts) /\ slv_inv true s' /\ s_rate s' = s_rate s /\
    used = signed_used quota e /\ Hof s' + e = Hof s + quota /\ e <= EB /\
    held (s_tl s') <= held (s_tl s) + need_of quota f (s_rate s) /\
    minc (s_tl s') = minc (s_tl s) /\
    (forall id qq r, inact (s_tl s) = (id, qq) :: r ->
       minc (s_tl s) <= qq + unalloc (s_tl s) + uu (s_tl s) -> In id acts).
Proof.
  intros (I & En & Hu) Hq. unfold slave_receive_quota.
  pose proof HB_lt as HBw. pose proof W_lt as Ww. pose proof Qmax_val as Qv. pose proof HB_val as Hv. pose proof EB_val as Ev.
  rewrite (add32_small (s_unused s) quota) by (rewrite w32_val; lia).
  set (need := need_of quota f (s_rate s)). assert (Hn : need <= quota) by apply need_le.
  destruct (N.leb_spec need (s_unused s + quota)) as [_|Hc]; [|lia].
  assert (Hnq : need <= Qmax) by lia.
  destruct (update_spec (s_tl s) need I En Hnq) as (t' & usedu & acts & E & I' & En' & Hh & Hmn & _ & _ & _ & _ & _ & Hre).
  destruct (update_exact _ _ _ _ _ I En Hnq E) as (eu & -> & Hex & Heu).
  rewrite E. cbn [bind].
  rewrite (sub32_signed (s_unused s + quota) need eu) by (rewrite ?w32_val; lia).
  destruct (cap_used_spec quota (s_unused s + quota + eu - need) ltac:(rewrite w32_val; lia)) as (e & Ec & E1 & E2 & _).
  rewrite Ec.
  eexists _, _, acts, e. split; [reflexivity|]. unfold slv_inv, Hof. cbn [s_tl s_unused s_rate].
  splits; auto; try lia.
Qed.

(* ------------------------------------------------------------------ the loop over slaves *)
Lemma Forall_snoc {A} (P : A -> Prop) l a : Forall P l -> P a -> Forall P (l ++ [a]).
Proof. intros. apply Forall_app. split; [assumption|constructor; [assumption|constructor]]. Qed.

Definition Rsl (quota f : N) (a b : slave) : Prop :=
  s_rate b = s_rate a /\ held (s_tl b) <= held (s_tl a) + need_of quota f (s_rate a) /\
  minc (s_tl b) = minc (s_tl a).

Lemma Rsl_refl quota f l : Forall2 (Rsl quota f) l l.
Proof. induction l; constructor; auto. unfold Rsl. splits; [reflexivity|lia|reflexivity]. Qed.

Lemma Rsl_rates quota f a b : Forall2 (Rsl quota f) a b -> map s_rate b = map s_rate a.
Proof. induction 1 as [|x y a b (H & _) _ IH]; cbn [map]; [reflexivity|]. rewrite H, IH. reflexivity. Qed.

Lemma slaves_loop_spec quota f ns : quota <= Qmax ->
  forall rest done un root idx acts,
  Forall (slv_inv true) done -> Forall (slv_inv true) rest -> tl_inv root ->
  un + N.of_nat (length rest) * EB <= W ->
  (exists done' rest' un' root' acts',
     slaves_loop quota f ns done rest un root idx acts = Ok (done', rest', un', root', acts') /\
     Forall (slv_inv true) done' /\ Forall (slv_inv true) rest' /\ same_quota root root' /\
     un' + Hs done' + Hs rest' = un + Hs done + Hs rest /\
     un' + N.of_nat (length rest') * EB <= W /\
     (* per-slave: the processed prefix of rest, nobody gets more than its own rate share *)
     exists pre mid, rest = pre ++ rest' /\ done' = done ++ mid /\ Forall2 (Rsl quota f) pre mid)
  \/ slaves_loop quota f ns done rest un root idx acts = Err E_rate_insert.
Proof.
  intros Hq. pose proof W_lt as Ww. pose proof EB_val as Ev.
  induction rest as [|s rest IH]; intros done un root idx acts Fd Fr Ir Hun; cbn [slaves_loop].
  - left. eexists _, _, _, _, _. split; [reflexivity|]. splits; auto using same_quota_refl.
    exists [], []. rewrite !app_nil_r. cbn [app]. splits; auto.
  - set (need := need_of quota f (s_rate s)). assert (Hn : need <= quota) by apply need_le.
    destruct (N.ltb_spec un need) as [Hlt|Hge].
    + left. eexists _, _, _, _, _. split; [reflexivity|]. splits; auto using same_quota_refl.
      exists [], []. rewrite !app_nil_r. cbn [app]. splits; auto.
    + inversion Fr as [|? ? Is Fr']; subst.
      assert (Hnq : need <= Qmax) by lia.
      destruct (slave_rq_spec s need f Is Hnq) as (s' & used & a & e & E & Is' & Hr & -> & Hh & He & Hhl & Hmn & _).
      pose proof (need_le need f (s_rate s)) as Hnn.
      rewrite E. cbn [bind].
      destruct (take_radded (s_tl s')) as [t' ra] eqn:Et.
      pose proof (take_radded_same (s_tl s')) as Sq. rewrite Et in Sq. cbn [fst] in Sq.
      destruct (add_rate_spec root ns ra) as [(root1 & Ea & Sr)|Ea]; rewrite Ea; cbn [bind]; [|right; reflexivity].
      cbn [length] in Hun. rewrite Nat2N.inj_succ in Hun.
      rewrite (sub32_signed un need e) by lia.
      set (s2 := {| s_rate := s_rate s'; s_unused := s_unused s'; s_tl := t' |}).
      assert (Is2 : slv_inv true s2).
      { destruct Is' as (A & B & C). unfold slv_inv, s2. cbn [s_tl s_unused].
        splits; [eapply same_quota_inv; eassumption| |assumption].
        destruct Sq as (Q1 & _). congruence. }
      assert (Hof2 : Hof s2 = Hof s').
      { unfold Hof, s2. cbn [s_tl s_unused]. rewrite (same_quota_held _ _ Sq). reflexivity. }
      assert (HR : Rsl quota f s s2).
      { unfold Rsl, s2. cbn [s_tl s_rate]. rewrite (same_quota_held _ _ Sq).
        destruct Sq as (_ & _ & _ & _ & _ & Q6 & _). fold need. splits; [assumption|lia|congruence]. }
      destruct (IH (done ++ [s2]) (un + e - need) root1 (S idx) (acts ++ map (fun k => (S idx, k)) a))
        as [(done' & rest' & un' & root' & acts' & EL & F1 & F2 & S2 & Hc & Hb & pre & mid & Hp & Hd & HF)|EL].
      * apply Forall_snoc; assumption.
      * assumption.
      * eapply same_quota_inv; eassumption.
      * lia.
      * left. rewrite EL. eexists _, _, _, _, _. split; [reflexivity|].
        splits; auto.
        -- eapply same_quota_trans; eassumption.
        -- rewrite Hs_app in Hc. cbn [Hs fold_right] in Hc. rewrite Hs_cons. rewrite Hof2 in Hc. lia.
        -- exists (s :: pre), (s2 :: mid). splits.
           ++ rewrite Hp. reflexivity.
           ++ rewrite Hd, <- app_assoc. reflexivity.
           ++ constructor; assumption.
      * right. exact EL.
Qed.

(* ------------------------------------------------------------------ receive_quota on the root *)
Lemma firstn_skipn_Forall {A} (P : A -> Prop) n l : Forall P l -> Forall P (firstn n l) /\ Forall P (skipn n l).
Proof. intros H. rewrite <- (firstn_skipn n l) in H. apply Forall_app in H. exact H. Qed.

Definition tick_pre (x : st) : Prop :=
  tl_inv (rtl x) /\ enabled (rtl x) = true /\ Forall (slv_inv true) (slaves x) /\
  (next x <= length (slaves x))%nat /\ unused x <= Qmax /\ N.of_nat (length (slaves x)) <= Kmax.

Lemma receive_quota_spec x quota f : tick_pre x -> quota <= Qmax ->
  (exists x' acts, receive_quota x quota f = Ok (x', acts) /\ tick_pre x' /\
     now x' = now x /\ mrate x' = mrate x /\ last_tick x' = last_tick x /\
     G x' <= G x + quota /\
     held (rtl x') <= held (rtl x) + need_of quota f (mrate x) /\ minc (rtl x') = minc (rtl x) /\
     Forall2 (Rsl quota f) (slaves x) (slaves x'))
  \/ receive_quota x quota f = Err E_rate_insert.
Proof.
  intros (Ir & En & Fs & Hnx & Hu & Hk) Hq. unfold receive_quota.
  pose proof W_lt as Ww. pose proof EB_val as Ev. pose proof W_val as Wv. pose proof Qmax_val as Qv.
  pose proof HB_lt as HBw. pose proof HB_val as Hv. pose proof w32_val as W32v.
  rewrite (add32_small (unused x) quota) by (rewrite w32_val; lia).
  destruct (firstn_skipn_Forall _ (next x) _ Fs) as [Ff Fk].
  assert (Hlen : N.of_nat (length (skipn (next x) (slaves x))) <= Kmax).
  { rewrite skipn_length. lia. }
  destruct (slaves_loop_spec quota f (secs (now x)) Hq (skipn (next x) (slaves x)) (firstn (next x) (slaves x))
              (unused x + quota) (rtl x) (next x) [] Ff Fk Ir)
    as [(done & rest & un1 & root1 & acts & EL & F1 & F2 & Sq & Hc & Hb & pre & mid & Hp & Hd & HF)|EL];
    [unfold Kmax in *; lia| |rewrite EL; right; reflexivity].
  rewrite EL. cbn [bind].
  assert (H2 : Forall2 (Rsl quota f) (slaves x) (done ++ rest)).
  { rewrite <- (firstn_skipn (next x) (slaves x)) at 1. rewrite Hp, Hd, <- app_assoc.
    apply Forall2_app; [apply Rsl_refl|]. apply Forall2_app; [assumption|apply Rsl_refl]. }
  pose proof (Rsl_rates _ _ _ _ H2) as Hm.
  assert (Hc' : un1 + Hs done + Hs rest = unused x + quota + Hs (slaves x)).
  { rewrite <- (firstn_skipn (next x) (slaves x)) at 1. rewrite Hs_app. lia. }
  clear Hc. rename Hc' into Hc.
  assert (Ir1 : tl_inv root1) by (eapply same_quota_inv; eassumption).
  assert (En1 : enabled root1 = true) by (destruct Sq as (Q1 & _); congruence).
  pose proof (same_quota_held _ _ Sq) as Hh1.
  assert (Hmn1 : minc root1 = minc (rtl x)) by (destruct Sq as (_&_&_&_&_&Q6&_); exact Q6).
  set (need := need_of quota f (mrate x)). assert (Hn : need <= quota) by apply need_le.
  assert (Hlens : length (done ++ rest) = length (slaves x)).
  { rewrite <- (map_length s_rate), Hm, map_length. reflexivity. }
  assert (Hun1 : un1 <= W) by lia.
  (* the three ways the middle part can end *)
  assert (Hmid : exists root2 un2 nx acts2,
     (match rest with
      | [] => if need <=? un1
              then '(t', used, a) <- update_quota root1 need ;; Ok (t', sub32 un1 used, 0%nat, acts ++ map (fun k => (0%nat, k)) a)
              else Ok (root1, un1, length done, acts)
      | _ :: _ => Ok (root1, un1, length done, acts)
      end) = Ok (root2, un2, nx, acts2) /\
     tl_inv root2 /\ enabled root2 = true /\ un2 + held root2 = un1 + held root1 /\ un2 <= W + HB /\
     (nx <= length (done ++ rest))%nat /\ held root2 <= held root1 + need /\ minc root2 = minc root1).
  { assert (Hskip : exists root2 un2 nx acts2, Ok (root1, un1, length done, acts) = Ok (root2, un2, nx, acts2) /\
       tl_inv root2 /\ enabled root2 = true /\ un2 + held root2 = un1 + held root1 /\ un2 <= W + HB /\
       (nx <= length (done ++ rest))%nat /\ held root2 <= held root1 + need /\ minc root2 = minc root1).
    { eexists _, _, _, _. split; [reflexivity|]. splits; auto; try lia. rewrite app_length. lia. }
    destruct rest as [|r0 rest0]; [|exact Hskip].
    destruct (N.leb_spec need un1) as [Hle|Hgt]; [|exact Hskip].
    assert (Hnq : need <= Qmax) by lia.
    destruct (update_spec root1 need Ir1 En1 Hnq) as (t' & usedu & a & E & I' & En' & Hh & Hmn & _).
    destruct (update_exact _ _ _ _ _ Ir1 En1 Hnq E) as (eu & -> & Hex & Heu).
    rewrite E. cbn [bind]. rewrite (sub32_signed un1 need eu) by lia.
    eexists _, _, _, _. split; [reflexivity|]. splits; auto; try lia. }
  destruct Hmid as (root2 & un2 & nx & acts2 & Em & Ir2 & En2 & Hc2 & Hb2 & Hnx2 & Hh2 & Hmn2).
  rewrite Em. cbn [bind].
  destruct (cap_used_spec quota un2 ltac:(lia)) as (e3 & Ec & E1 & E2 & _). rewrite Ec.
  left. eexists _, _. split; [reflexivity|].
  unfold tick_pre, G. cbn [rtl slaves next unused now mrate last_tick].
  rewrite Hlens in *.
  splits; auto; try lia.
  - apply Forall_app; split; assumption.
  - rewrite Hs_app. lia.
Qed.
