(* C12 — executable model of the throttle (token bucket) code of libtorrent:
     src/net/throttle_list.{h,cc}      ThrottleList (all methods)
     src/net/throttle_internal.{h,cc}  ThrottleInternal::{enable,disable,create_slave,receive_tick,receive_quota}
     src/torrent/throttle.cc           Throttle::{set_max_rate,calculate_min/max_chunk_size,calculate_interval}
     src/torrent/rate.cc               Rate::{discard_old,rate,insert}  (the list's m_rateSlow only)
   Definitions only.  uint32/uint64 arithmetic is written explicitly (add32/sub32/mod) wherever
   the C++ computes in a fixed width.  A thrown internal_error is [Err e]; the op list stops there.
   Not modelled: the per-node Rate (node->rate()->insert, same argument as the list's add_rate so
   its bytes > 2^28 throw coincides; its own m_current > 2^40 throw is not modelled), the scheduler
   entry of the tick task (the harness calls receive_tick directly with a controlled clock),
   slaves of slaves (create_slave is only applied to the root). *)
From Coq Require Import List NArith Bool.
From LTV.C12 Require Import ParamsGen PolicyGen.
Import ListNotations.
Local Open Scope N_scope.

Definition w32 : N := 4294967296.
Definition w64 : N := 18446744073709551616.
Definition add32 (a b : N) : N := (a + b) mod w32.
Definition sub32 (a b : N) : N := (a + w32 - b mod w32) mod w32.
Definition int32_max : N := 2147483647.
Definition uint_max : N := 4294967295.

Inductive err : Type :=
| E_enable_split      (* ThrottleList::enable() m_splitActive is invalid *)
| E_update_disabled   (* ThrottleList::update_quota(...) called but the object is not enabled *)
| E_quota_inactive    (* node_quota called on an inactive node *)
| E_quota_notfound    (* node_quota could not find node *)
| E_used_too_much     (* node_used(...) used too much quota *)
| E_deact_inactive    (* node_deactivate called on an inactive node *)
| E_deact_notfound    (* node_deactivate could not find node *)
| E_erase_empty       (* erase(...) called on an empty list *)
| E_erase_outstanding (* erase(...) node->quota() > m_outstandingQuota *)
| E_rate_insert       (* Rate::insert(bytes) received out-of-bounds values *)
| E_tick_short.       (* receive_tick() called at a to short interval *)

Inductive res (A : Type) : Type := Ok (a : A) | Err (e : err).
Arguments Ok {A} a.
Arguments Err {A} e.

Definition bind {A B} (r : res A) (f : A -> res B) : res B :=
  match r with Ok a => f a | Err e => Err e end.
Notation "x <- r ;; k" := (bind r (fun x => k)) (at level 61, r at next level, right associativity).
Notation "' p <- r ;; k" := (bind r (fun p => k)) (at level 61, p pattern, r at next level, right associativity).

(* ------------------------------------------------------------------ Rate (src/torrent/rate.cc) *)
(* r_q: the deque, front (newest) first, entries (second, bytes). *)
Record rate : Type := { r_q : list (N * N); r_cur : N; r_span : N }.

Fixpoint drop_old (rq : list (N * N)) (lim cur : N) : list (N * N) * N :=
  match rq with
  | [] => ([], cur)
  | (t, b) :: r => if t <? lim then drop_old r lim (cur - b) else (rq, cur)
  end.

Definition rate_discard (r : rate) (now_s : N) : rate :=
  let '(rq, c) := drop_old (rev (r_q r)) (now_s - r_span r) (r_cur r) in
  {| r_q := rev rq; r_cur := c; r_span := r_span r |}.

Definition rate_limit_cur : N := 2 ^ Policy.rate_cur_shift.  (* 1 << 40 *)
Definition rate_limit_bytes : N := 2 ^ Policy.rate_bytes_shift.    (* 1 << 28 *)

Definition rate_insert (r : rate) (now_s bytes : N) : res rate :=
  let r1 := rate_discard r now_s in
  if (rate_limit_cur <? r_cur r1) || (rate_limit_bytes <? bytes) then Err E_rate_insert
  else
    let q' := match r_q r1 with
              | (t, b) :: rest => if t =? now_s then (t, b + bytes) :: rest else (now_s, bytes) :: (t, b) :: rest
              | [] => [(now_s, bytes)]
              end in
    Ok {| r_q := q'; r_cur := r_cur r1 + bytes; r_span := r_span r1 |}.

Definition rate_value (r : rate) (now_s : N) : N := r_cur (rate_discard r now_s) / r_span r.

(* ------------------------------------------------------------------ ThrottleList *)
(* act = [begin, m_splitActive), inact = [m_splitActive, end), both in list order; entries are
   (node id, node quota). A node that is not in the list has quota 0 (constructor / erase clear it). *)
Record tl : Type := {
  enabled : bool; size : N;
  outst : N; unalloc : N; uu : N;      (* m_outstandingQuota m_unallocatedQuota m_unusedUnthrottledQuota *)
  radded : N;                          (* m_rateAdded *)
  minc : N; maxc : N;                  (* m_minChunkSize m_maxChunkSize *)
  rslow : rate;
  act : list (N * N); inact : list (N * N) }.

Definition tl_init : tl :=
  {| enabled := false; size := 0; outst := 0; unalloc := 0; uu := 0; radded := 0;
     minc := Policy.list_min_init; maxc := Policy.list_max_init; rslow := {| r_q := []; r_cur := 0; r_span := 60 |};
     act := []; inact := [] |}.

Fixpoint lookup (id : N) (l : list (N * N)) : option N :=
  match l with
  | [] => None
  | (i, q) :: r => if i =? id then Some q else lookup id r
  end.

Fixpoint setq (id v : N) (l : list (N * N)) : list (N * N) :=
  match l with
  | [] => []
  | (i, q) :: r => if i =? id then (i, v) :: r else (i, q) :: setq id v r
  end.

Fixpoint remove_id (id : N) (l : list (N * N)) : list (N * N) :=
  match l with
  | [] => []
  | (i, q) :: r => if i =? id then r else (i, q) :: remove_id id r
  end.

Definition zeroq (l : list (N * N)) : list (N * N) := map (fun p => (fst p, 0)) l.

(* allocate_quota on a node holding q: returns (q', outstanding', unallocated') *)
Definition alloc (mn mx q o u : N) : N * N * N :=
  if mn <=? q then (q, o, u)
  else let g := N.min (sub32 mx q) u in (add32 q g, add32 o g, sub32 u g).

(* the while loop of update_quota: (moved (reversed), remaining inactive, outstanding, unallocated) *)
Fixpoint uq_loop (mn mx : N) (ina : list (N * N)) (o u : N) (moved : list (N * N))
  : list (N * N) * list (N * N) * N * N :=
  match ina with
  | [] => (moved, [], o, u)
  | (id, q) :: rest =>
      let '(q', o', u') := alloc mn mx q o u in
      if q' <? mn then (moved, (id, q') :: rest, o', u')
      else uq_loop mn mx rest o' u' ((id, q') :: moved)
  end.

(* returns (list', used as the uint32 bit pattern of the int32 result, activated ids in order) *)
Definition update_quota (t : tl) (q : N) : res (tl * N * list N) :=
  if negb (enabled t) then Err E_update_disabled
  else
    let ua := add32 (unalloc t) (uu t) in
    let '(moved, ina', o', ua') := uq_loop (minc t) (maxc t) (inact t) (outst t) ua [] in
    let '(used, ua'') := if q <? ua' then (sub32 q (sub32 ua' q), q) else (q, ua') in
    Ok ({| enabled := true; size := size t; outst := o'; unalloc := ua''; uu := q; radded := radded t;
           minc := minc t; maxc := maxc t; rslow := rslow t;
           act := act t ++ rev moved; inact := ina' |}, used, map fst (rev moved)).

Definition node_quota (t : tl) (id : N) : res N :=
  if negb (enabled t) then Ok int32_max
  else match lookup id (act t) with
       | None => match lookup id (inact t) with Some _ => Err E_quota_inactive | None => Err E_quota_notfound end
       | Some q => let s := add32 q (unalloc t) in Ok (if minc t <=? s then s else 0)
       end.

Definition add_rate (t : tl) (now_s used : N) : res tl :=
  r <- rate_insert (rslow t) now_s used ;;
  Ok {| enabled := enabled t; size := size t; outst := outst t; unalloc := unalloc t; uu := uu t;
        radded := add32 (radded t) used; minc := minc t; maxc := maxc t; rslow := r;
        act := act t; inact := inact t |}.

Definition with_quota (t : tl) (o u : N) (a i : list (N * N)) : tl :=
  {| enabled := enabled t; size := size t; outst := o; unalloc := u; uu := uu t;
     radded := radded t; minc := minc t; maxc := maxc t; rslow := rslow t; act := a; inact := i |}.

Definition node_used (t : tl) (now_s id used : N) : res tl :=
  t1 <- add_rate t now_s used ;;
  if (used =? 0) || negb (enabled t1) then Ok t1
  else
    let go (nq : N) (in_act : bool) :=
      let q := N.min used nq in
      if outst t1 <? q then Err E_used_too_much
      else
        let o' := sub32 (outst t1) q in
        let u' := sub32 (unalloc t1) (N.min (sub32 used q) (unalloc t1)) in
        Ok (if in_act then with_quota t1 o' u' (setq id (sub32 nq q) (act t1)) (inact t1)
            else with_quota t1 o' u' (act t1) (setq id (sub32 nq q) (inact t1))) in
    match lookup id (act t1) with
    | Some nq => go nq true
    | None => match lookup id (inact t1) with
              | Some nq => go nq false
              | None => Ok t1
              end
    end.

Definition node_used_unthrottled (t : tl) (now_s used : N) : res tl :=
  t1 <- add_rate t now_s used ;;
  let avail := N.min used (uu t1) in
  Ok {| enabled := enabled t1; size := size t1; outst := outst t1;
        unalloc := sub32 (unalloc t1) (N.min (sub32 used avail) (unalloc t1));
        uu := sub32 (uu t1) avail; radded := radded t1; minc := minc t1; maxc := maxc t1;
        rslow := rslow t1; act := act t1; inact := inact t1 |}.

Definition node_deactivate (t : tl) (id : N) : res tl :=
  match lookup id (act t) with
  | Some q => Ok (with_quota t (outst t) (unalloc t) (remove_id id (act t)) (inact t ++ [(id, q)]))
  | None => match lookup id (inact t) with Some _ => Err E_deact_inactive | None => Err E_deact_notfound end
  end.

Definition in_list (t : tl) (id : N) : bool :=
  match lookup id (act t), lookup id (inact t) with None, None => false | _, _ => true end.

Definition with_size (t : tl) (s : N) : tl :=
  {| enabled := enabled t; size := s; outst := outst t; unalloc := unalloc t; uu := uu t;
     radded := radded t; minc := minc t; maxc := maxc t; rslow := rslow t; act := act t; inact := inact t |}.

Definition tl_insert (t : tl) (id : N) : tl :=
  if in_list t id then t
  else if negb (enabled t) then
    (* base_type::insert(end(), node): lands in the inactive range iff that range is non-empty *)
    with_size (match inact t with
               | [] => with_quota t (outst t) (unalloc t) (act t ++ [(id, 0)]) []
               | _ => with_quota t (outst t) (unalloc t) (act t) (inact t ++ [(id, 0)])
               end) (add32 (size t) 1)
  else
    let '(q', o', u') := alloc (minc t) (maxc t) 0 (outst t) (unalloc t) in
    with_size (with_quota t o' u' (act t ++ [(id, q')]) (inact t)) (add32 (size t) 1).

Definition tl_erase (t : tl) (id : N) : res tl :=
  let go (q : N) :=
    if size t =? 0 then Err E_erase_empty
    else if negb (q =? 0) && (outst t <? q) then Err E_erase_outstanding
    else
      let o' := if q =? 0 then outst t else sub32 (outst t) q in
      let u' := if q =? 0 then unalloc t else add32 (unalloc t) q in
      Ok (with_size (with_quota t o' u' (remove_id id (act t)) (remove_id id (inact t))) (sub32 (size t) 1)) in
  match lookup id (act t) with
  | Some q => go q
  | None => match lookup id (inact t) with Some q => go q | None => Ok t end
  end.

Definition set_enabled (t : tl) (b : bool) : tl :=
  {| enabled := b; size := size t; outst := outst t; unalloc := unalloc t; uu := uu t;
     radded := radded t; minc := minc t; maxc := maxc t; rslow := rslow t; act := act t; inact := inact t |}.

Definition take_radded (t : tl) : tl * N :=
  ({| enabled := enabled t; size := size t; outst := outst t; unalloc := unalloc t; uu := uu t;
      radded := 0; minc := minc t; maxc := maxc t; rslow := rslow t; act := act t; inact := inact t |}, radded t).

Definition tl_enable (t : tl) : res tl :=
  if enabled t then Ok t
  else match act t, inact t with
       | [], _ :: _ => Err E_enable_split
       | _, _ => Ok (fst (take_radded (set_enabled t true)))   (* m_rateAdded = 0 (commit 36e16d0) *)
       end.

(* returns the new list and the ids whose activate() slot ran, in order *)
Definition tl_disable (t : tl) : tl * list N :=
  if negb (enabled t) then (t, [])
  else ({| enabled := false; size := size t; outst := 0; unalloc := 0; uu := 0; radded := radded t;
           minc := minc t; maxc := maxc t; rslow := rslow t;
           act := zeroq (act t) ++ zeroq (inact t); inact := [] |}, map fst (inact t)).

Definition set_chunks (t : tl) (mn mx : N) : tl :=
  {| enabled := enabled t; size := size t; outst := outst t; unalloc := unalloc t; uu := uu t;
     radded := radded t; minc := mn; maxc := mx; rslow := rslow t; act := act t; inact := inact t |}.

(* ------------------------------------------------------------------ Throttle::calculate_* *)
(* Chunk-size policy. The property does not fix min/max chunk sizes, so the model runs with the policy
   PROBED from the compiled code (coq/C12/PolicyGen.v, written by props/c12.py from `c12 --params`):
   Policy.chunk_probe maps every rate the cases use to (min chunk, max chunk). For a rate that was not
   probed the table re-extracted from throttle.cc by regex (ParamsGen, optional cross-check) is used,
   clamped into the side conditions the proofs need (0 < min <= max <= 65536). *)
Fixpoint chunk_lookup (tab : list (N * N)) (dflt rate : N) : N :=
  match tab with
  | [] => dflt
  | (lim, v) :: r => if rate <=? lim then v else chunk_lookup r dflt rate
  end.
Fixpoint assoc_rate (rate : N) (tab : list (N * (N * N))) : option (N * N) :=
  match tab with
  | [] => None
  | (r, p) :: rest => if r =? rate then Some p else assoc_rate rate rest
  end.
Definition fb_min_chunk (rate : N) : N :=
  let v := chunk_lookup Params.throttle_chunk_table Params.throttle_chunk_default rate in
  if (0 <? v) && (v <=? 16384) then v else 512.
Definition fb_max_chunk (rate : N) : N :=
  let m := (fb_min_chunk rate * Params.throttle_max_chunk_factor) mod w32 in
  if (fb_min_chunk rate <=? m) && (m <=? 65536) then m else fb_min_chunk rate.
Definition calc_min_chunk (rate : N) : N :=
  match assoc_rate rate Policy.chunk_probe with Some p => fst p | None => fb_min_chunk rate end.
Definition calc_max_chunk (rate : N) : N :=
  match assoc_rate rate Policy.chunk_probe with Some p => snd p | None => fb_max_chunk rate end.

Definition calc_interval (t : tl) (now_s : N) : N :=
  let r := rate_value (rslow t) now_s mod w32 in
  if r <? 1024 then 1000000
  else let iv := ((5 * maxc t) mod w32) / r in
       if iv =? 0 then 100000 else if 10 <? iv then 1000000 else iv * 100000.

(* ------------------------------------------------------------------ ThrottleInternal *)
Record slave : Type := { s_rate : N; s_unused : N; s_tl : tl }.
Record st : Type := {
  now : N;            (* cached_time, microseconds *)
  mrate : N;          (* root m_maxRate *)
  unused : N;         (* root m_unused_quota *)
  next : nat;         (* m_next_slave as an index; length slaves = end() *)
  last_tick : N;      (* m_time_last_tick *)
  rtl : tl;           (* root's ThrottleList *)
  slaves : list slave }.

Definition t0 : N := 32000000000000.   (* virtual epoch of the harness, > 365 days *)
Definition init : st :=
  {| now := t0; mrate := 0; unused := 0; next := 0; last_tick := t0; rtl := tl_init; slaves := [] |}.

Definition secs (us : N) : N := us / 1000000.
Definition fraction_base : N := 2 ^ Policy.fraction_bits.

(* commit 5638f7b: max rate 0 (unlimited) shares the parent's quota *)
Definition need_of (quota fraction rate : N) : N :=
  if rate =? 0 then quota
  else N.min quota ((((fraction * rate) mod w64) / fraction_base) mod w32).

Definition cap_used (quota unused : N) : N * N :=   (* (used bits, unused') *)
  if quota <? unused then (sub32 quota (sub32 unused quota), quota) else (quota, unused).

(* ThrottleInternal::receive_quota on a slave (no slaves of its own: m_next_slave == end() == begin()) *)
Definition slave_receive_quota (s : slave) (quota fraction : N) : res (slave * N * list N) :=
  let un := add32 (s_unused s) quota in
  let need := need_of quota fraction (s_rate s) in
  '(t', un', acts) <-
     (if need <=? un then
        '(t', used, acts) <- update_quota (s_tl s) need ;; Ok (t', sub32 un used, acts)
      else Ok (s_tl s, un, [])) ;;
  let '(used, un'') := cap_used quota un' in
  Ok ({| s_rate := s_rate s; s_unused := un''; s_tl := t' |}, used, acts).

(* the while loop over slaves starting at index [length done]:
   returns (done', rest', unused', root list', activations) *)
Fixpoint slaves_loop (quota fraction now_s : N) (done rest : list slave) (un : N) (root : tl)
         (idx : nat) (acts : list (nat * N))
  : res (list slave * list slave * N * tl * list (nat * N)) :=
  match rest with
  | [] => Ok (done, [], un, root, acts)
  | s :: rest' =>
      let need := need_of quota fraction (s_rate s) in
      if un <? need then Ok (done, rest, un, root, acts)
      else
        '(s', used, a) <- slave_receive_quota s need fraction ;;
        let '(t', ra) := take_radded (s_tl s') in
        root' <- add_rate root now_s ra ;;
        slaves_loop quota fraction now_s
                    (done ++ [{| s_rate := s_rate s'; s_unused := s_unused s'; s_tl := t' |}]) rest'
                    (sub32 un used) root' (S idx) (acts ++ map (fun k => (S idx, k)) a)
  end.

Definition receive_quota (x : st) (quota fraction : N) : res (st * list (nat * N)) :=
  let un := add32 (unused x) quota in
  '(done, rest, un1, root1, acts) <-
     slaves_loop quota fraction (secs (now x)) (firstn (next x) (slaves x)) (skipn (next x) (slaves x))
                 un (rtl x) (next x) [] ;;
  let need := need_of quota fraction (mrate x) in
  '(root2, un2, nx, acts2) <-
     (match rest with
      | [] => if need <=? un1 then
                '(t', used, a) <- update_quota root1 need ;;
                Ok (t', sub32 un1 used, O, acts ++ map (fun k => (O, k)) a)
              else Ok (root1, un1, length done, acts)
      | _ => Ok (root1, un1, length done, acts)
      end) ;;
  let '(_, un3) := cap_used quota un2 in
  Ok ({| now := now x; mrate := mrate x; unused := un3; next := nx; last_tick := last_tick x;
         rtl := root2; slaves := done ++ rest |}, acts2).

Definition tick_quota (count rate : N) : N := (((count * rate) mod w64) / 1000000) mod w32.
Definition tick_fraction (count : N) : N := (((count * fraction_base) mod w64) / 1000000) mod w32.

Definition receive_tick (x : st) : res (st * list (nat * N)) :=
  if now x <? last_tick x + Policy.tick_min_us then Err E_tick_short
  else
    let count := now x - last_tick x in
    '(x', acts) <- receive_quota x (tick_quota count (mrate x)) (tick_fraction count) ;;
    Ok ({| now := now x'; mrate := mrate x'; unused := unused x'; next := next x'; last_tick := now x';
           rtl := rtl x'; slaves := slaves x' |}, acts).

Fixpoint enable_slaves (l : list slave) : res (list slave) :=
  match l with
  | [] => Ok []
  | s :: r => t <- tl_enable (s_tl s) ;; r' <- enable_slaves r ;;
              Ok ({| s_rate := s_rate s; s_unused := s_unused s; s_tl := t |} :: r')
  end.

Fixpoint disable_slaves (l : list slave) (idx : nat) : list slave * list (nat * N) :=
  match l with
  | [] => ([], [])
  | s :: r => let '(t, a) := tl_disable (s_tl s) in
              let '(r', a') := disable_slaves r (S idx) in
              ({| s_rate := s_rate s; s_unused := s_unused s; s_tl := t |} :: r', map (fun k => (S idx, k)) a ++ a')
  end.

Definition with_lists (x : st) (r : tl) (sl : list slave) : st :=
  {| now := now x; mrate := mrate x; unused := unused x; next := next x; last_tick := last_tick x;
     rtl := r; slaves := sl |}.

Definition ti_enable (x : st) : res (st * list (nat * N)) :=
  r <- tl_enable (rtl x) ;;
  sl <- enable_slaves (slaves x) ;;
  receive_tick {| now := now x; mrate := mrate x; unused := unused x; next := next x;
                  last_tick := now x - 1000000; rtl := r; slaves := sl |}.

Definition ti_disable (x : st) : st * list (nat * N) :=
  let '(sl, a) := disable_slaves (slaves x) O in
  let '(r, a0) := tl_disable (rtl x) in
  (with_lists x r sl, a ++ map (fun k => (O, k)) a0).

Inductive out : Type :=
| OutOk | OutQ (q : N) | OutAct (acts : list (nat * N)) | OutInputErr | OutNoList
| OutIdle | OutDeact | OutUsed (n : N).

Definition set_rate_root (x : st) (v : N) : res (st * out) :=
  if v =? mrate x then Ok (x, OutOk)
  else if uint_max - 1 <? v then Ok (x, OutInputErr)
  else
    let old := mrate x in
    let x1 := {| now := now x; mrate := v; unused := unused x; next := next x; last_tick := last_tick x;
                 rtl := set_chunks (rtl x) (calc_min_chunk v) (calc_max_chunk v); slaves := slaves x |} in
    if old =? 0 then '(x2, a) <- ti_enable x1 ;; Ok (x2, OutAct a)
    else if v =? 0 then let '(x2, a) := ti_disable x1 in Ok (x2, OutAct a)
    else Ok (x1, OutOk).

Fixpoint upd_nth {A} (n : nat) (l : list A) (f : A -> A) : list A :=
  match l, n with
  | [], _ => []
  | a :: r, O => f a :: r
  | a :: r, S n' => a :: upd_nth n' r f
  end.

Definition set_rate_slave (x : st) (i : nat) (v : N) : st * out :=
  match nth_error (slaves x) i with
  | None => (x, OutNoList)
  | Some s =>
      if v =? s_rate s then (x, OutOk)
      else if uint_max - 1 <? v then (x, OutInputErr)
      else (with_lists x (rtl x)
              (upd_nth i (slaves x) (fun s => {| s_rate := v; s_unused := s_unused s;
                                                 s_tl := set_chunks (s_tl s) (calc_min_chunk v) (calc_max_chunk v) |})),
            OutOk)
  end.

Definition create_slave (x : st) : res st :=
  t <- (if enabled (rtl x) then tl_enable tl_init else Ok tl_init) ;;
  let sl := slaves x ++ [{| s_rate := mrate x; s_unused := 0; s_tl := t |}] in
  Ok {| now := now x; mrate := mrate x; unused := unused x; next := length sl; last_tick := last_tick x;
        rtl := rtl x; slaves := sl |}.

Definition get_tl (x : st) (l : nat) : option tl :=
  match l with
  | O => Some (rtl x)
  | S i => match nth_error (slaves x) i with Some s => Some (s_tl s) | None => None end
  end.

Definition put_tl (x : st) (l : nat) (t : tl) : st :=
  match l with
  | O => with_lists x t (slaves x)
  | S i => with_lists x (rtl x)
             (upd_nth i (slaves x) (fun s => {| s_rate := s_rate s; s_unused := s_unused s; s_tl := t |}))
  end.

Inductive op : Type :=
| OInsert (l : nat) (k : N)
| OErase (l : nat) (k : N)
| OQuota (l : nat) (k : N)
| ODeact (l : nat) (k : N)
| OUsed (l : nat) (k n : N)
| OUnthr (l : nat) (n : N)
| OTick (dt : N)
| OAdvance (dt : N)
| OSetRate (l : nat) (v : N)
| OSlave
| OConsume (l : nat) (k want : N).

Definition advance (x : st) (dt : N) : st :=
  {| now := now x + dt; mrate := mrate x; unused := unused x; next := next x; last_tick := last_tick x;
     rtl := rtl x; slaves := slaves x |}.

Definition on_list (x : st) (l : nat) (f : tl -> res (tl * out)) : res (st * out) :=
  match get_tl x l with
  | None => Ok (x, OutNoList)
  | Some t => '(t', o) <- f t ;; Ok (put_tl x l t', o)
  end.

(* one consumer step as in PeerConnectionBase::down_chunk / up_chunk: a connection that is in the
   list and polled (active, or the list is disabled) asks node_quota; 0 => it leaves the poll set and
   calls node_deactivate; otherwise it moves at most min(quota, want) bytes and reports node_used. *)
Definition is_act (t : tl) (id : N) : bool := match lookup id (act t) with Some _ => true | None => false end.
Definition consume (t : tl) (now_s k want : N) : res (tl * out) :=
  if negb (in_list t k) then Ok (t, OutIdle)
  else if enabled t && negb (is_act t k) then Ok (t, OutIdle)
  else
    q <- node_quota t k ;;
    if q =? 0 then t' <- node_deactivate t k ;; Ok (t', OutDeact)
    else t' <- node_used t now_s k (N.min q want) ;; Ok (t', OutUsed (N.min q want)).

Definition step (x : st) (o : op) : res (st * out) :=
  match o with
  | OInsert l k => on_list x l (fun t => Ok (tl_insert t k, OutOk))
  | OErase l k => on_list x l (fun t => t' <- tl_erase t k ;; Ok (t', OutOk))
  | OQuota l k => on_list x l (fun t => q <- node_quota t k ;; Ok (t, OutQ q))
  | ODeact l k => on_list x l (fun t => t' <- node_deactivate t k ;; Ok (t', OutOk))
  | OUsed l k n => on_list x l (fun t => t' <- node_used t (secs (now x)) k n ;; Ok (t', OutOk))
  | OUnthr l n => on_list x l (fun t => t' <- node_used_unthrottled t (secs (now x)) n ;; Ok (t', OutOk))
  | OTick dt => '(x', a) <- receive_tick (advance x dt) ;; Ok (x', OutAct a)
  | OAdvance dt => Ok (advance x dt, OutOk)
  | OSetRate O v => set_rate_root x v
  | OSetRate (S i) v => Ok (set_rate_slave x i v)
  | OSlave => x' <- create_slave x ;; Ok (x', OutOk)
  | OConsume l k want => on_list x l (fun t => consume t (secs (now x)) k want)
  end.

(* run an op list; the trace holds (state after op, output) for every op that completed; an
   internal_error ends the run *)
Fixpoint run (x : st) (ops : list op) : list (st * out) * option err :=
  match ops with
  | [] => ([], None)
  | o :: r => match step x o with
              | Err e => ([], Some e)
              | Ok (x', ou) => let '(tr, e) := run x' r in ((x', ou) :: tr, e)
              end
  end.

Definition interval_of (x : st) : N := calc_interval (rtl x) (secs (now x)).
Definition rate_slow_of (t : tl) (x : st) : N := rate_value (rslow t) (secs (now x)).
