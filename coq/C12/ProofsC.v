(* C12 proofs, part C: update_quota (grant, cap, reactivation), the consumer step, enable/disable. *)
From Coq Require Import List NArith Bool Lia PeanoNat.
From LTV.C12 Require Import ParamsGen PolicyGen.
From LTV.C12 Require Import Model ProofsA ProofsB.
Import ListNotations.
Local Open Scope N_scope.

Lemma sumq_rev l : sumq (rev l) = sumq l.
Proof. induction l as [|[i q] l IH]; [reflexivity|]. cbn [rev]. rewrite sumq_app, IH, !sumq_cons. cbn. lia. Qed.

Lemma capped_rev l : capped l -> capped (rev l).
Proof. unfold capped. intros H. apply Forall_rev. exact H. Qed.

Lemma HB_lt : HB < w32. Proof. rewrite HB_val, w32_val. lia. Qed.

Lemma update_spec t q : tl_inv t -> enabled t = true -> q <= Qmax ->
  exists t' used acts, update_quota t q = Ok (t', used, acts) /\ tl_inv t' /\ enabled t' = true /\
    held t' <= held t + q /\ minc t' = minc t /\ maxc t' = maxc t /\ uu t' = q /\ unalloc t' <= q /\
    (* after an update either nobody waits, or nothing is left to hand out *)
    (inact t' = [] \/ (unalloc t' = 0 /\ exists id qq r, inact t' = (id, qq) :: r /\ qq < minc t)) /\
    (* every node activated by the update holds at least min_chunk *)
    (forall id, In id acts -> exists q1, In (id, q1) (act t') /\ minc t <= q1) /\
    (* reactivation: the longest-waiting node is activated as soon as min_chunk can be given to it *)
    (forall id qq r, inact t = (id, qq) :: r -> minc t <= qq + unalloc t + uu t -> In id acts).
Proof.
  intros I En Hq. unfold update_quota. rewrite En. cbn [negb].
  destruct (inv_parts _ I) as (P1 & P2 & P3 & P4 & P5 & (K1 & K2 & K3) & P7 & P8).
  pose proof HB_lt as HBw.
  rewrite (add32_small (unalloc t) (uu t)) by lia.
  destruct (uq_loop (minc t) (maxc t) (inact t) (outst t) (unalloc t + uu t) []) as [[[moved ina'] o'] u'] eqn:EL.
  assert (Hw : outst t + (unalloc t + uu t) < w32) by lia.
  assert (Hcn : capped []) by constructor.
  destruct (uq_loop_spec _ _ K2 K3 K1 _ _ _ _ _ _ _ _ Hw P5 Hcn EL)
    as (Hid & Hou & Hsum & Hc1 & Hc2 & Hlen & Hre & (new & Hnew & Hfn) & Hhead).
  cbn [rev ids map app sumq fold_right length] in Hid, Hsum, Hlen. rewrite app_nil_r in Hnew. subst new.
  set (r := if q <? u' then (sub32 q (sub32 u' q), q) else (q, u')).
  assert (Hr : snd r <= q /\ snd r <= u' /\ (u' = 0 -> snd r = 0)).
  { unfold r. destruct (N.ltb_spec q u'); cbn [snd]; lia. }
  destruct r as [used ua2] eqn:Er. cbn [snd] in Hr. destruct Hr as (R1 & R2 & R3).
  eexists _, used, _. split; [reflexivity|].
  assert (Ho' : o' = sumq (act t) + sumq moved + sumq ina') by lia.
  assert (Hcnt : (length (act t ++ rev moved) + length ina' = length (act t) + length (inact t))%nat).
  { rewrite app_length, rev_length. lia. }
  assert (Hcapn : o' <= cap * Nmax).
  { rewrite Ho'. pose proof (sumq_capped _ P4). pose proof (sumq_capped _ Hc1). pose proof (sumq_capped _ Hc2).
    assert (N.of_nat (length (act t)) + N.of_nat (length moved) + N.of_nat (length ina') <= Nmax) by lia.
    unfold cap, Nmax in *. lia. }
  split.
  { apply mk_inv; simp_tl; rewrite ?Hcnt; auto; try lia; try (intros; congruence).
    all: try (rewrite sumq_app, sumq_rev; lia).
    all: try (unfold ids in *; rewrite map_app, <- app_assoc; rewrite Hid; exact P3).
    all: try (unfold capped; apply Forall_app; split; [exact P4|apply capped_rev; exact Hc1]).
    all: try (unfold HB, Qmax, cap, Nmax in *; lia). }
  simp_tl. unfold held. simp_tl. splits; auto; try lia.
  - destruct Hre as [->|(Hz & id & qq & rr & -> & Hlt)]; [left; reflexivity|right].
    split; [auto|]. exists id, qq, rr. auto.
  - intros id Hin. apply in_map_iff in Hin as ((i & q1) & <- & Hin). cbn [fst].
    exists q1. split; [apply in_or_app; right; exact Hin|].
    apply in_rev in Hin. rewrite Forall_forall in Hfn. apply (Hfn _ Hin).
  - intros id qq rr Hi Hm. assert (Hm' : minc t <= qq + (unalloc t + uu t)) by lia.
    destruct (Hhead id qq rr Hi Hm') as (q1 & Hin & _).
    apply in_map_iff. exists (id, q1). split; [reflexivity|]. apply -> in_rev. exact Hin.
Qed.

(* ------------------------------------------------------------------ node_deactivate / consume *)
Lemma deact_spec t k q : tl_inv t -> enabled t = true -> lookup k (act t) = Some q ->
  exists t', node_deactivate t k = Ok t' /\ tl_inv t' /\ held t' = held t /\
             enabled t' = true /\ minc t' = minc t /\ maxc t' = maxc t.
Proof.
  intros I En L. unfold node_deactivate. rewrite L. eexists. split; [reflexivity|].
  destruct (inv_parts _ I) as (P1 & P2 & P3 & P4 & P5 & P6 & P7 & P8).
  pose proof (remove_sumq _ _ _ L) as Hs. pose proof (remove_length _ _ _ L) as Hl.
  split; [apply mk_inv; simp_tl; rewrite ?app_length, ?sumq_app; cbn [length sumq fold_right snd]; auto; try lia;
          try (intros; congruence)|].
  all: try (apply remove_capped; assumption).
  all: try (unfold capped; apply Forall_app; split; [exact P5|]; constructor; [cbn [snd]; exact (lookup_capped _ _ _ P4 L)|constructor]).
  all: try (unfold held; simp_tl; splits; auto; fail).
  unfold ids. rewrite map_app. cbn [map fst]. apply nodup_insert_end.
  - pose proof (nodup_remove_both k (act t) (inact t) P3) as H.
    assert (Hn : lookup k (inact t) = None).
    { destruct (lookup k (inact t)) eqn:B; [|reflexivity]. exfalso.
      apply (nodup_app_disj _ _ k P3); eapply lookup_in; eassumption. }
    rewrite (remove_none _ _ Hn) in H. exact H.
  - intros Hin. apply in_app_or in Hin as [Hin|Hin].
    + revert Hin. apply remove_not_in. eapply nodup_app_l; eassumption.
    + apply (nodup_app_disj _ _ k P3); [eapply lookup_in; eassumption|exact Hin].
Qed.

Lemma consume_spec t s k want : tl_inv t ->
  (exists t' ou, consume t s k want = Ok (t', ou) /\ tl_inv t' /\
                 enabled t' = enabled t /\ minc t' = minc t /\ maxc t' = maxc t /\
                 held t' <= held t /\
                 (forall n, ou = OutUsed n -> enabled t = true -> held t' + n = held t) /\
                 (* with the limit removed the connection moves everything it wanted *)
                 (enabled t = false -> in_list t k = true -> ou = OutUsed (N.min int32_max want)) /\
                 (* a connection is only taken out of the poll set when min_chunk is not available *)
                 (ou = OutDeact -> exists q, lookup k (act t) = Some q /\ q + unalloc t < minc t))
  \/ consume t s k want = Err E_rate_insert.
Proof.
  intros I. unfold consume.
  assert (Hidle : exists t' ou, Ok (t, OutIdle) = Ok (t', ou) /\ tl_inv t' /\
                 enabled t' = enabled t /\ minc t' = minc t /\ maxc t' = maxc t /\ held t' <= held t /\
                 (forall n, ou = OutUsed n -> enabled t = true -> held t' + n = held t) /\
                 (ou = OutDeact -> exists q, lookup k (act t) = Some q /\ q + unalloc t < minc t)).
  { exists t, OutIdle. splits; auto; try lia; try discriminate. }
  destruct (in_list t k) eqn:Hin; cbn [negb].
  2:{ left. destruct Hidle as (t' & ou & E & R). exists t', ou. split; [exact E|].
      splits; try apply R; try (intros; congruence). }
  destruct (inv_parts _ I) as (P1 & P2 & P3 & P4 & P5 & (K1 & K2 & K3) & P7 & P8).
  pose proof HB_lt as HBw.
  destruct (enabled t) eqn:En; cbn [andb negb].
  - unfold is_act, node_quota. rewrite En. cbn [negb].
    destruct (lookup k (act t)) as [q|] eqn:L; cbn [negb]; [|left; destruct Hidle as (t' & ou & E & R); exists t', ou; split; [exact E|]; splits; try apply R; try (intros; congruence)].
    pose proof (lookup_le_sumq _ _ _ L) as Hqs.
    rewrite (add32_small q (unalloc t)) by lia. cbn [bind].
    destruct (N.leb_spec (minc t) (q + unalloc t)) as [Hge|Hlt].
    + destruct (N.eqb_spec (q + unalloc t) 0) as [Hz0|Hnz0]; [lia|].
      set (n := N.min (q + unalloc t) want).
      assert (Hn : n < w32) by (unfold n; lia).
      destruct (node_used_spec t s k n I Hn) as [(t' & E & I' & H1 & H2 & He & Hmn & Hmx & _ & _ & Hex)|E];
        rewrite E; cbn [bind]; [left|right; reflexivity].
      exists t', (OutUsed n). split; [reflexivity|]. splits; auto; try discriminate; try congruence.
      intros n0 Hn0 _. injection Hn0 as <-. apply (Hex q); auto. unfold n. lia.
    + cbn [N.eqb]. destruct (deact_spec t k q I En L) as (t' & E & I' & Hh & He & Hmn & Hmx).
      rewrite E. cbn [bind]. left. exists t', OutDeact. split; [reflexivity|].
      splits; auto; try lia; try discriminate. intros _. exists q. auto.
  - unfold node_quota. rewrite En. cbn [negb bind].
    change (int32_max =? 0) with false. cbv iota.
    set (n := N.min int32_max want).
    assert (Hn : n < w32) by (unfold n, int32_max; rewrite w32_val; lia).
    destruct (node_used_spec t s k n I Hn) as [(t' & E & I' & H1 & H2 & He & Hmn & Hmx & _)|E];
      rewrite E; cbn [bind]; [left|right; reflexivity].
    exists t', (OutUsed n). split; [reflexivity|]. splits; auto; try discriminate; try congruence.
Qed.

(* ------------------------------------------------------------------ enable / disable / chunks *)
Lemma enable_spec t : tl_inv t ->
  exists t', tl_enable t = Ok t' /\ tl_inv t' /\ enabled t' = true /\ held t' = held t /\
             minc t' = minc t /\ maxc t' = maxc t /\ (enabled t = false -> radded t' = 0) /\
             act t' = act t /\ inact t' = inact t.
Proof.
  intros I. unfold tl_enable. destruct (enabled t) eqn:En.
  - exists t. splits; auto. discriminate.
  - destruct (i_dis _ I En) as (D1 & D2 & D3 & D4). rewrite D3.
    exists (fst (take_radded (set_enabled t true))). split; [destruct (act t); reflexivity|].
    destruct (inv_parts _ I) as (P1 & P2 & P3 & P4 & P5 & P6 & P7 & P8).
    split; [apply mk_inv; simp_tl; auto; intros; discriminate|].
    unfold held. simp_tl. splits; auto.
Qed.

Lemma disable_spec t : tl_inv t ->
  tl_inv (fst (tl_disable t)) /\ enabled (fst (tl_disable t)) = false /\ held (fst (tl_disable t)) = 0 /\
  minc (fst (tl_disable t)) = minc t /\ maxc (fst (tl_disable t)) = maxc t.
Proof.
  intros I. unfold tl_disable. destruct (enabled t) eqn:En; cbn [negb fst].
  - destruct (inv_parts _ I) as (P1 & P2 & P3 & P4 & P5 & P6 & P7 & P8).
    split; [apply mk_inv; simp_tl; rewrite ?app_length, ?sumq_app, ?zeroq_sumq; cbn [length sumq fold_right]; auto; try lia|].
    all: try (unfold zeroq; rewrite !map_length, Nat.add_0_r; assumption).
    all: try (apply zero_capped; apply Forall_app; split; apply zeroq_zero).
    all: try (constructor; fail).
    all: try (rewrite HB_val; lia).
    all: try (intros _; splits; auto; apply Forall_app; split; apply zeroq_zero).
    all: try (unfold held; simp_tl; splits; auto; fail).
    cbn [ids map]. rewrite app_nil_r. unfold ids. rewrite map_app.
    fold (ids (zeroq (act t))) (ids (zeroq (inact t))). rewrite !zeroq_ids. exact P3.
  - destruct (i_dis _ I En) as (D1 & D2 & D3 & D4).
    destruct (inv_parts _ I) as (P1 & P2 & P3 & P4 & P5 & P6 & P7 & P8).
    splits; auto. unfold held. rewrite P1, D1, D2, D3, (zero_sumq _ D4). reflexivity.
Qed.

Lemma set_chunks_spec t r : tl_inv t ->
  tl_inv (set_chunks t (calc_min_chunk r) (calc_max_chunk r)) /\
  held (set_chunks t (calc_min_chunk r) (calc_max_chunk r)) = held t /\
  enabled (set_chunks t (calc_min_chunk r) (calc_max_chunk r)) = enabled t.
Proof.
  intros I. destruct (inv_parts _ I) as (P1 & P2 & P3 & P4 & P5 & P6 & P7 & P8).
  split; [apply mk_inv; simp_tl; auto; [apply calc_chunks|apply (i_dis _ I)]|].
  unfold held. simp_tl. auto.
Qed.

Lemma take_radded_same t : same_quota t (fst (take_radded t)).
Proof. unfold same_quota, take_radded. simp_tl. splits; reflexivity. Qed.

(* exact accounting of update_quota: the int32 result is q - e where e is what the one-tick cap
   on carried-over unallocated quota dropped *)
Lemma update_exact t q t' used acts : tl_inv t -> enabled t = true -> q <= Qmax ->
  update_quota t q = Ok (t', used, acts) ->
  exists e, used = signed_used q e /\ held t' + e = held t + q /\ e <= HB.
Proof.
  intros I En Hq. unfold update_quota. rewrite En. cbn [negb].
  destruct (inv_parts _ I) as (P1 & P2 & P3 & P4 & P5 & (K1 & K2 & K3) & P7 & P8).
  pose proof HB_lt as HBw.
  rewrite (add32_small (unalloc t) (uu t)) by lia.
  destruct (uq_loop (minc t) (maxc t) (inact t) (outst t) (unalloc t + uu t) []) as [[[moved ina'] o'] u'] eqn:EL.
  assert (Hw : outst t + (unalloc t + uu t) < w32) by lia.
  assert (Hcn : capped []) by constructor.
  destruct (uq_loop_spec _ _ K2 K3 K1 _ _ _ _ _ _ _ _ Hw P5 Hcn EL) as (_ & Hou & _).
  change (if q <? u' then (sub32 q (sub32 u' q), q) else (q, u')) with (cap_used q u').
  destruct (cap_used_spec q u' ltac:(lia)) as (e & Ec & E1 & E2 & _).
  rewrite Ec. intros E. injection E as <- <- _.
  exists e. unfold held. simp_tl. splits; [reflexivity|lia|lia].
Qed.
