(* C12 proofs, part K: per-list rate bound through ticks as a run-level total, for windows in which
   the root limit stays set (rate changes allowed, enable/disable not). *)
From Coq Require Import List NArith Bool Lia PeanoNat.
From LTV.C12 Require Import ParamsGen PolicyGen.
From LTV.C12 Require Import Model ProofsA ProofsB ProofsC ProofsD ProofsE ProofsF ProofsG ProofsJ.
Import ListNotations.
Local Open Scope N_scope.

Lemma nth_upd_same {A} (f : A -> A) l i a : nth_error l i = Some a -> nth_error (upd_nth i l f) i = Some (f a).
Proof. revert i. induction l as [|b l IH]; intros [|i]; cbn [nth_error upd_nth]; try discriminate; [intros E; injection E as ->; reflexivity|apply IH]. Qed.

Lemma nth_upd_other {A} (f : A -> A) l i j : i <> j -> nth_error (upd_nth j l f) i = nth_error l i.
Proof. revert i j. induction l as [|b l IH]; intros [|i] [|j] H; cbn [nth_error upd_nth]; try reflexivity; try contradiction. apply IH. congruence. Qed.

Lemma get_put_same x l t t' : get_tl x l = Some t -> get_tl (put_tl x l t') l = Some t'.
Proof.
  destruct l as [|i]; cbn [get_tl put_tl with_lists rtl slaves]; [reflexivity|].
  destruct (nth_error (slaves x) i) as [s|] eqn:E; [|discriminate]. intros _.
  rewrite (nth_upd_same _ _ _ _ E). reflexivity.
Qed.

Lemma get_put_other x l l' t' : l <> l' -> get_tl (put_tl x l' t') l = get_tl x l.
Proof.
  intros H. destruct l as [|i], l' as [|j]; cbn [get_tl put_tl with_lists rtl slaves]; try reflexivity; [contradiction|].
  rewrite nth_upd_other by congruence. reflexivity.
Qed.

Definition lrate (x : st) (l : nat) : N :=
  match l with
  | O => mrate x
  | S i => match nth_error (slaves x) i with Some s => s_rate s | None => 0 end
  end.

Definition lpayload (l : nat) (x : st) (o : op) (ou : out) : N :=
  match o, ou with
  | OConsume l' _ _, OutUsed n => if (l' =? l)%nat && enabled (rtl x) then n else 0
  | _, _ => 0
  end.

(* the share of a tick that list l can get: need_of(tick quota, fraction, its own rate) *)
Definition lgrant (l : nat) (x : st) (o : op) : N :=
  match o with
  | OTick dt => let c := now x + dt - last_tick x in need_of (tick_quota c (mrate x)) (tick_fraction c) (lrate x l)
  | _ => 0
  end.

(* the root limit stays set: set_max_rate on the root only between two non-zero rates *)
Definition stable_opb (x : st) (o : op) : bool :=
  match o with
  | OSetRate O v => negb (mrate x =? 0) && negb (v =? 0)
  | _ => true
  end.

Lemma on_list_l x l' f p l t x' ou : sinv x -> get_tl x l = Some t ->
  on_list x l' f = Ok (x', ou) ->
  (forall t0 t1 ou0, get_tl x l' = Some t0 -> tl_inv t0 -> f t0 = Ok (t1, ou0) -> held t1 + p ou0 <= held t0) ->
  exists t', get_tl x' l = Some t' /\ held t' + (if (l' =? l)%nat then p ou else 0) <= held t.
Proof.
  intros S Eg E Hf. revert E. unfold on_list. destruct (get_tl x l') as [t0|] eqn:E0.
  - destruct (f t0) as [[t1 ou0]|] eqn:Ef; cbn [bind]; [|discriminate]. intros E. injection E as <- <-.
    destruct (Nat.eqb_spec l' l) as [->|Hne].
    + rewrite Eg in E0. injection E0 as <-. exists t1. split; [eapply get_put_same; eassumption|].
      eapply Hf; eauto. eapply get_tl_inv; eassumption.
    + exists t. split; [rewrite get_put_other by congruence; assumption|lia].
  - intros E. injection E as <- <-. exists t. split; [assumption|].
    destruct (Nat.eqb_spec l' l) as [->|]; [congruence|lia].
Qed.

Lemma lstep x o l x' ou t : sinv x -> valid_opb x o = true -> stable_opb x o = true ->
  step x o = Ok (x', ou) -> get_tl x l = Some t ->
  exists t', get_tl x' l = Some t' /\ held t' + lpayload l x o ou <= held t + lgrant l x o.
Proof.
  intros S V St E Eg. pose proof S as [S1 S2 S3 S4 S5 S6 S7 S8].
  destruct o as [l' k|l' k|l' k|l' k|l' k n|l' n|dt|dt|l' v| |l' k want]; cbn [step valid_opb stable_opb lpayload lgrant] in *;
    try discriminate.
  - edestruct (on_list_l x l' _ (fun _ => 0) l t x' ou S Eg E) as (t' & A & B).
    + intros t0 t1 ou0 E0 I0 Ef. injection Ef as <- _. rewrite E0 in V. apply N.ltb_lt in V.
      destruct (insert_spec t0 k I0 V) as (_ & Hh & _). lia.
    + exists t'. split; [assumption|]. destruct (l' =? l)%nat; lia.
  - edestruct (on_list_l x l' _ (fun _ => 0) l t x' ou S Eg E) as (t' & A & B).
    + intros t0 t1 ou0 E0 I0 Ef. destruct (erase_spec t0 k I0) as (t2 & Ee & _ & Hh & _). rewrite Ee in Ef. cbn [bind] in Ef.
      injection Ef as <- _. lia.
    + exists t'. split; [assumption|]. destruct (l' =? l)%nat; lia.
  - apply N.ltb_lt in V.
    edestruct (on_list_l x l' _ (fun _ => 0) l t x' ou S Eg E) as (t' & A & B).
    + intros t0 t1 ou0 E0 I0 Ef. destruct (node_used_spec t0 (secs (now x)) k n I0 V) as [(t2 & Ee & _ & Hh & _)|Ee]; rewrite Ee in Ef; cbn [bind] in Ef; [|discriminate].
      injection Ef as <- _. lia.
    + exists t'. split; [assumption|]. destruct (l' =? l)%nat; lia.
  - apply N.ltb_lt in V.
    edestruct (on_list_l x l' _ (fun _ => 0) l t x' ou S Eg E) as (t' & A & B).
    + intros t0 t1 ou0 E0 I0 Ef. destruct (unthr_spec t0 (secs (now x)) n I0 V) as [(t2 & Ee & _ & Hh & _)|Ee]; rewrite Ee in Ef; cbn [bind] in Ef; [|discriminate].
      injection Ef as <- _. lia.
    + exists t'. split; [assumption|]. destruct (l' =? l)%nat; lia.
  - (* tick *)
    apply andb_prop in V as [V V3]. apply andb_prop in V as [V1 V2]. apply N.leb_le in V2, V3.
    destruct (sinv_advance x dt S) as [Sa _].
    assert (Hr : mrate x <> 0). { rewrite V1 in S3. destruct (N.eqb_spec (mrate x) 0); [discriminate|assumption]. }
    destruct (receive_tick (advance x dt)) as [[x2 a]|] eqn:Et; cbn [bind] in E; [|discriminate]. injection E as <- _.
    destruct (receive_tick_spec (advance x dt) (sinv_tick_pre _ Sa V1)) as [(x3 & a3 & E3 & _ & _ & _ & _ & _ & Hh & HF)|E3];
      cbn [advance now mrate last_tick] in *; auto; try lia; rewrite Et in E3; [|discriminate].
    injection E3 as <- _. cbn [advance rtl slaves] in Hh, HF.
    destruct l as [|i]; cbn [get_tl lrate] in *.
    + injection Eg as <-. eexists. split; [reflexivity|]. lia.
    + destruct (nth_error (slaves x) i) as [s|] eqn:Es; [|discriminate]. injection Eg as <-.
      destruct (Forall2_nth_error _ _ _ _ _ HF Es) as (s2 & E2 & (_ & Hs2 & _)). rewrite E2. eexists. split; [reflexivity|]. lia.
  - (* advance *)
    injection E as <- _. exists t. split; [destruct l; exact Eg|lia].
  - (* set_max_rate *)
    destruct l' as [|i].
    + apply andb_prop in St as [St1 St2]. unfold set_rate_root in E.
      destruct (v =? mrate x); [injection E as <- _; exists t; split; [assumption|lia]|].
      destruct (uint_max - 1 <? v); [injection E as <- _; exists t; split; [assumption|lia]|].
      destruct (mrate x =? 0); [discriminate|]. destruct (v =? 0); [discriminate|]. injection E as <- _.
      destruct l as [|j]; cbn [get_tl rtl slaves] in *.
      * injection Eg as <-. eexists. split; [reflexivity|]. destruct (set_chunks_spec (rtl x) v S1) as (_ & C2 & _). lia.
      * exists t. split; [assumption|lia].
    + injection E as E. unfold set_rate_slave in E. destruct (nth_error (slaves x) i) as [s|] eqn:Es; [|injection E as <- _; exists t; split; [assumption|lia]].
      destruct (v =? s_rate s); [injection E as <- _; exists t; split; [assumption|lia]|].
      destruct (uint_max - 1 <? v); [injection E as <- _; exists t; split; [assumption|lia]|].
      injection E as <- _. destruct l as [|j]; cbn [get_tl with_lists rtl slaves] in *; [exists t; split; [assumption|lia]|].
      destruct (Nat.eq_dec j i) as [->|Hji].
      * rewrite Es in Eg. injection Eg as <-. rewrite (nth_upd_same _ _ _ _ Es). cbn [s_tl]. eexists. split; [reflexivity|].
        pose proof (nth_error_Forall _ _ _ _ S2 Es) as (A & _). destruct (set_chunks_spec (s_tl s) v A) as (_ & C2 & _). lia.
      * rewrite nth_upd_other by assumption. exists t. split; [assumption|lia].
  - (* create_slave *)
    unfold create_slave in E. destruct (if enabled (rtl x) then tl_enable tl_init else Ok tl_init) as [t0|]; cbn [bind] in E; [|discriminate].
    injection E as <- _. destruct l as [|j]; cbn [get_tl rtl slaves] in *; [exists t; split; [assumption|lia]|].
    destruct (nth_error (slaves x) j) as [s|] eqn:Es; [|discriminate].
    rewrite nth_error_app1 by (apply nth_error_Some; congruence). rewrite Es. exists t. split; [assumption|lia].
  - (* consumer step *)
    set (p := fun ou => match ou with OutUsed n => if enabled (rtl x) then n else 0 | _ => 0 end).
    edestruct (on_list_l x l' _ p l t x' ou S Eg E) as (t' & A & B).
    + intros t0 t1 ou0 E0 I0 Ef. pose proof (get_tl_enabled _ _ _ S E0) as Het.
      destruct (consume_spec t0 (secs (now x)) k want I0) as [(t2 & ou2 & Ee & _ & _ & _ & _ & Hh & Hex & _)|Ee]; rewrite Ee in Ef; [|discriminate].
      injection Ef as <- <-. unfold p. destruct ou2; try lia. destruct (enabled (rtl x)) eqn:Er; [|lia].
      rewrite <- (Hex n eq_refl Het). lia.
    + exists t'. split; [assumption|]. unfold p in B. destruct (l' =? l)%nat; cbn [andb]; destruct ou; try lia.
Qed.

Fixpoint stable_opsb (x : st) (ops : list op) : bool :=
  match ops with
  | [] => true
  | o :: r => stable_opb x o && match step x o with Ok (x', _) => stable_opsb x' r | Err _ => true end
  end.

(* per-list totals along a run: payload moved through list l, and the shares of the ticks *)
Fixpoint ltotals (l : nat) (x : st) (ops : list op) : N * N :=
  match ops with
  | [] => (0, 0)
  | o :: r => match step x o with
              | Ok (x', ou) => let '(p, g) := ltotals l x' r in (lpayload l x o ou + p, lgrant l x o + g)
              | Err _ => (0, 0)
              end
  end.

Definition lheld (x : st) (l : nat) : N := match get_tl x l with Some t => held t | None => 0 end.

(* per-list rate bound as a run-level total: payload through list l (root list or any slave) over
   any window of valid ops in which the root limit stays set <= quota held by the list at the start
   + the sum over the ticks of its share need_of(tick quota, fraction, its own rate) *)
Theorem rate_bound_per_list : forall ops x l t, sinv x -> valid_opsb x ops = true -> stable_opsb x ops = true ->
  get_tl x l = Some t ->
  lheld (final x ops) l + fst (ltotals l x ops) <= held t + snd (ltotals l x ops).
Proof.
  induction ops as [|o ops IH]; intros x l t S V St Eg; cbn [final ltotals valid_opsb stable_opsb] in *.
  - unfold lheld. rewrite Eg. cbn. lia.
  - apply andb_prop in V as [V1 V2]. apply andb_prop in St as [St1 St2].
    destruct (step_spec x o S V1) as [(x' & ou & E & S' & _)|E]; rewrite E in *.
    + destruct (lstep x o l x' ou t S V1 St1 E Eg) as (t' & Eg' & Hl).
      specialize (IH x' l t' S' V2 St2 Eg'). destruct (ltotals l x' ops) as [p g]. cbn [fst snd] in *. lia.
    + unfold lheld. rewrite Eg. cbn [fst snd]. lia.
Qed.

(* each share is at most elapsed x (the list's own rate) / 10^6 when that rate is set, and at most
   the root's tick quota in any case *)
Lemma lgrant_le x o l : lrate x l <> 0 ->
  lgrant l x o <= match o with OTick dt => (now x + dt - last_tick x) * lrate x l / 1000000 | _ => 0 end.
Proof. intros Hr. destruct o; cbn [lgrant]; try lia. apply tick_grant. exact Hr. Qed.


(* non-vacuity: a limited root with a 5000 B/s slave, four ticks, then demand on the slave list.
   (Efficiency note, see gen/c12.py HAND: while a slave list is still filling its own two-tick reserve,
   root and slave are served on alternate ticks; this costs throughput for a bounded number of ticks and
   touches neither the upper bounds proved here nor bounded reactivation.) *)
Definition ex_pre : list op := [OSetRate 0 10000; OSlave; OSetRate 1 5000].
Definition ex_ops : list op :=
  [OInsert 1 0; OTick 1000000; OTick 1000000; OTick 1000000; OTick 1000000; OConsume 1 0 3000; OSetRate 0 20000; OTick 1000000].
Example ex_per_list :
  sinv (final init ex_pre) /\ valid_opsb (final init ex_pre) ex_ops = true /\ stable_opsb (final init ex_pre) ex_ops = true /\
  match get_tl (final init ex_pre) 1 with Some _ => True | None => False end /\
  ltotals 1 (final init ex_pre) ex_ops = (3000, 25000).
Proof.
  split; [destruct (hierarchy_run ex_pre init sinv_init) as (_ & _ & H & _); [vm_compute; reflexivity|exact H]|].
  split; [vm_compute; reflexivity|]. split; [vm_compute; reflexivity|]. split; [vm_compute; exact I|vm_compute; reflexivity].
Qed.

(* Rate only matters to the property through (a) Rate::insert's range check (ProofsH) and (b) the
   tick spacing: calculate_interval never asks for less than 100 ms, so the scheduler-driven tick
   (wait_for_ceil_seconds of it) can never hit receive_tick's 90 ms "too short interval" throw, and
   never for more than one second, so the quota of one tick stays one-to-two seconds' worth. *)
Lemma calc_interval_bounds t s : 100000 <= calc_interval t s <= 1000000.
Proof.
  unfold calc_interval. destruct (_ <? 1024); [lia|].
  set (iv := (5 * maxc t) mod w32 / (rate_value (rslow t) s mod w32)).
  destruct (N.eqb_spec iv 0); [lia|]. destruct (N.ltb_spec 10 iv); lia.
Qed.
