(* C12 proofs, part B: every ThrottleList method preserves the invariant; accounting of held quota. *)
From Coq Require Import List NArith Bool Lia PeanoNat.
From LTV.C12 Require Import ParamsGen PolicyGen.
From LTV.C12 Require Import Model ProofsA.
Import ListNotations.
Local Open Scope N_scope.

Ltac simp_tl := cbn [enabled size outst unalloc uu radded minc maxc rslow act inact
                     with_quota with_size set_enabled set_chunks take_radded fst snd] in *.

Lemma inv_parts t : tl_inv t ->
  outst t = sumq (act t) + sumq (inact t) /\
  size t = N.of_nat (length (act t) + length (inact t)) /\
  NoDup (ids (act t) ++ ids (inact t)) /\ capped (act t) /\ capped (inact t) /\
  (0 < minc t /\ minc t <= maxc t /\ maxc t <= cap) /\
  N.of_nat (length (act t) + length (inact t)) <= Nmax /\
  outst t + unalloc t + uu t <= HB.
Proof.
  intros [Ho Hs Hn Hc Hk Hcnt Hh _]. unfold nodes in *.
  rewrite sumq_app in Ho. rewrite app_length in Hs, Hcnt. unfold ids in Hn. rewrite map_app in Hn.
  apply Forall_app in Hc as [Hc1 Hc2]. splits; auto; apply Hk.
Qed.

Lemma mk_inv t :
  outst t = sumq (act t) + sumq (inact t) ->
  size t = N.of_nat (length (act t) + length (inact t)) ->
  NoDup (ids (act t) ++ ids (inact t)) -> capped (act t) -> capped (inact t) ->
  (0 < minc t /\ minc t <= maxc t /\ maxc t <= cap) ->
  N.of_nat (length (act t) + length (inact t)) <= Nmax ->
  outst t + unalloc t + uu t <= HB ->
  (enabled t = false -> unalloc t = 0 /\ uu t = 0 /\ inact t = [] /\ Forall (fun p => snd p = 0) (act t)) ->
  tl_inv t.
Proof.
  intros Ho Hs Hn Hc1 Hc2 Hk Hcnt Hh Hd. constructor; unfold nodes; auto.
  - rewrite sumq_app; auto.
  - rewrite app_length; auto.
  - unfold ids. rewrite map_app. auto.
  - apply Forall_app; split; auto.
  - rewrite app_length; auto.
Qed.

(* two lists that agree on everything the quota accounting reads *)
Definition same_quota (t t' : tl) : Prop :=
  enabled t' = enabled t /\ size t' = size t /\ outst t' = outst t /\ unalloc t' = unalloc t /\
  uu t' = uu t /\ minc t' = minc t /\ maxc t' = maxc t /\ act t' = act t /\ inact t' = inact t.

Lemma same_quota_inv t t' : same_quota t t' -> tl_inv t -> tl_inv t'.
Proof.
  intros (He & Hs & Ho & Hu & Huu & Hmn & Hmx & Ha & Hi) I.
  destruct (inv_parts _ I) as (P1 & P2 & P3 & P4 & P5 & P6 & P7 & P8).
  apply mk_inv; rewrite ?He, ?Hs, ?Ho, ?Hu, ?Huu, ?Hmn, ?Hmx, ?Ha, ?Hi; auto.
  apply (i_dis _ I).
Qed.

Lemma same_quota_held t t' : same_quota t t' -> held t' = held t.
Proof. intros (He & Hs & Ho & Hu & Huu & _). unfold held. congruence. Qed.

Lemma rate_insert_err r s n e : rate_insert r s n = Err e -> e = E_rate_insert.
Proof. unfold rate_insert. destruct (_ || _); [intros H; injection H; auto|discriminate]. Qed.

Lemma add_rate_spec t s n :
  (exists t', add_rate t s n = Ok t' /\ same_quota t t') \/ add_rate t s n = Err E_rate_insert.
Proof.
  unfold add_rate. destruct (rate_insert (rslow t) s n) as [r|e] eqn:E; cbn [bind].
  - left. eexists. split; [reflexivity|]. unfold same_quota. simp_tl. splits; reflexivity.
  - right. apply rate_insert_err in E. subst. reflexivity.
Qed.

(* ------------------------------------------------------------------ node_used *)
Lemma node_used_spec t s id n : tl_inv t -> n < w32 ->
  (exists t', node_used t s id n = Ok t' /\ tl_inv t' /\
              held t' <= held t /\ held t <= held t' + n /\
              enabled t' = enabled t /\ minc t' = minc t /\ maxc t' = maxc t /\
              ids (act t') = ids (act t) /\ ids (inact t') = ids (inact t) /\
              (forall q, enabled t = true -> lookup id (act t) = Some q -> n <= q + unalloc t ->
                         held t' + n = held t))
  \/ node_used t s id n = Err E_rate_insert.
Proof.
  intros I Hn. unfold node_used.
  destruct (add_rate_spec t s n) as [(t1 & E1 & S1)|E1]; rewrite E1; cbn [bind]; [|right; reflexivity].
  left. pose proof (same_quota_inv _ _ S1 I) as I1. pose proof (same_quota_held _ _ S1) as H1.
  destruct S1 as (He & Hs & Ho & Hu & Huu & Hmn & Hmx & Ha & Hi).
  destruct (inv_parts _ I1) as (P1 & P2 & P3 & P4 & P5 & P6 & P7 & P8).
  assert (Hsame : exists t', Ok t1 = Ok t' /\ tl_inv t' /\ held t' <= held t /\ held t <= held t' + n /\
              enabled t' = enabled t /\ minc t' = minc t /\ maxc t' = maxc t /\
              ids (act t') = ids (act t) /\ ids (inact t') = ids (inact t)).
  { exists t1. rewrite H1, He, Hmn, Hmx, Ha, Hi. splits; auto; lia. }
  destruct (N.eqb_spec n 0) as [Hz|Hnz]; cbn [orb].
  { destruct Hsame as (t' & Et & R). exists t'. split; [exact Et|]. injection Et as <-.
    splits; try apply R. intros. subst n. rewrite H1. lia. }
  destruct (enabled t1) eqn:En; cbn [negb].
  2:{ destruct Hsame as (t' & Et & R). exists t'. split; [exact Et|]. injection Et as <-.
      splits; try apply R. intros q Hq. congruence. }
  assert (Hgo : forall nq (b : bool),
     (if b then lookup id (act t1) else lookup id (inact t1)) = Some nq ->
     exists t', (let q := N.min n nq in
       if outst t1 <? q then Err E_used_too_much
       else Ok (if b then with_quota t1 (sub32 (outst t1) q) (sub32 (unalloc t1) (N.min (sub32 n q) (unalloc t1)))
                            (setq id (sub32 nq q) (act t1)) (inact t1)
                else with_quota t1 (sub32 (outst t1) q) (sub32 (unalloc t1) (N.min (sub32 n q) (unalloc t1)))
                            (act t1) (setq id (sub32 nq q) (inact t1)))) = Ok t' /\
       tl_inv t' /\ held t' <= held t /\ held t <= held t' + n /\
       enabled t' = enabled t /\ minc t' = minc t /\ maxc t' = maxc t /\
       ids (act t') = ids (act t) /\ ids (inact t') = ids (inact t) /\
       (b = true -> n <= nq + unalloc t -> held t' + n = held t)).
  { intros nq b Hl. cbv zeta.
    set (q := N.min n nq).
    assert (Hq1 : q <= nq) by (unfold q; lia). assert (Hq2 : q <= n) by (unfold q; lia).
    assert (Hnq : nq <= outst t1 /\ nq <= cap).
    { destruct b; [pose proof (lookup_le_sumq _ _ _ Hl); pose proof (lookup_capped _ _ _ P4 Hl)
                  |pose proof (lookup_le_sumq _ _ _ Hl); pose proof (lookup_capped _ _ _ P5 Hl)]; lia. }
    destruct Hnq as [Hnq Hnc].
    destruct (N.ltb_spec (outst t1) q); [lia|].
    assert (HBw : HB < w32) by (rewrite HB_val, w32_val; lia).
    rewrite (sub32_small (outst t1) q) by lia.
    rewrite (sub32_small n q) by lia.
    rewrite (sub32_small nq q) by (unfold cap in *; rewrite ?w32_val; lia).
    rewrite (sub32_small (unalloc t1)) by lia.
    eexists. split; [reflexivity|].
    destruct b.
    - pose proof (setq_sumq id (nq - q) _ _ Hl) as Hsq.
      split; [apply mk_inv; simp_tl; rewrite ?setq_length, ?setq_ids; auto; try lia; try (intros; congruence);
              try (apply setq_capped; auto; lia)|].
      unfold held in *. simp_tl. rewrite ?setq_ids, <- ?Ha, <- ?Hi. rewrite <- H1.
        splits; auto; try lia; try congruence.
    - pose proof (setq_sumq id (nq - q) _ _ Hl) as Hsq.
      split; [apply mk_inv; simp_tl; rewrite ?setq_length, ?setq_ids; auto; try lia; try (intros; congruence);
              try (apply setq_capped; auto; lia)|].
      unfold held in *. simp_tl. rewrite ?setq_ids, <- ?Ha, <- ?Hi. rewrite <- H1.
        splits; auto; try lia; try congruence. }
  destruct (lookup id (act t1)) as [nq|] eqn:La.
  - destruct (Hgo nq true eq_refl) as (t' & Et & R). exists t'. split; [exact Et|].
    splits; try apply R. intros q _ Hq Hle. rewrite <- Ha, La in Hq. injection Hq as <-.
    apply R; auto.
  - destruct (lookup id (inact t1)) as [nq|] eqn:Li.
    + destruct (Hgo nq false eq_refl) as (t' & Et & R). exists t'. split; [exact Et|].
      splits; try apply R. intros q _ Hq. rewrite <- Ha, La in Hq. discriminate.
    + destruct Hsame as (t' & Et & R). exists t'. split; [exact Et|]. injection Et as <-.
      splits; try apply R. intros q _ Hq. rewrite <- Ha, La in Hq. discriminate.
Qed.

(* ------------------------------------------------------------------ node_used_unthrottled *)
Lemma unthr_spec t s n : tl_inv t -> n < w32 ->
  (exists t', node_used_unthrottled t s n = Ok t' /\ tl_inv t' /\ held t' <= held t /\
              enabled t' = enabled t /\ minc t' = minc t /\ maxc t' = maxc t)
  \/ node_used_unthrottled t s n = Err E_rate_insert.
Proof.
  intros I Hn. unfold node_used_unthrottled.
  destruct (add_rate_spec t s n) as [(t1 & E1 & S1)|E1]; rewrite E1; cbn [bind]; [|right; reflexivity].
  left. pose proof (same_quota_inv _ _ S1 I) as I1. pose proof (same_quota_held _ _ S1) as H1.
  destruct S1 as (He & Hs & Ho & Hu & Huu & Hmn & Hmx & Ha & Hi).
  destruct (inv_parts _ I1) as (P1 & P2 & P3 & P4 & P5 & P6 & P7 & P8).
  assert (HBw : HB < w32) by (rewrite HB_val, w32_val; lia).
  set (av := N.min n (uu t1)).
  assert (av <= n /\ av <= uu t1) as [Hav1 Hav2] by (unfold av; lia).
  rewrite (sub32_small n av) by lia.
  rewrite (sub32_small (unalloc t1)) by lia.
  rewrite (sub32_small (uu t1)) by lia.
  eexists. split; [reflexivity|]. split.
  - apply mk_inv; simp_tl; auto; try lia.
    intros Hd. destruct (i_dis _ I1 Hd) as (D1 & D2 & D3 & D4). rewrite D1, D2 in *. splits; auto; lia.
  - unfold held in *. simp_tl. splits; auto; lia.
Qed.

(* ------------------------------------------------------------------ insert / erase *)
Lemma in_list_false t id : in_list t id = false -> ~ In id (ids (act t) ++ ids (inact t)).
Proof.
  unfold in_list. destruct (lookup id (act t)) eqn:A; [discriminate|].
  destruct (lookup id (inact t)) eqn:B; [discriminate|]. intros _ H.
  apply in_app_or in H as [H|H]; [eapply lookup_none in A|eapply lookup_none in B]; eauto.
Qed.

Lemma nodup_insert_mid (a b : list N) x : NoDup (a ++ b) -> ~ In x (a ++ b) -> NoDup ((a ++ [x]) ++ b).
Proof.
  intros H Hn. rewrite <- app_assoc. cbn [app].
  apply (NoDup_Add (Add_app x a b)). split; assumption.
Qed.

Lemma nodup_insert_end (a b : list N) x : NoDup (a ++ b) -> ~ In x (a ++ b) -> NoDup (a ++ b ++ [x]).
Proof.
  intros H Hn. rewrite app_assoc.
  pose proof (Add_app x (a ++ b) []) as HA. rewrite app_nil_r in HA.
  apply (NoDup_Add HA). split; assumption.
Qed.

Lemma nodup_app_l (a b : list N) : NoDup (a ++ b) -> NoDup a.
Proof.
  induction a as [|x a IH]; cbn [app]; intros H; [constructor|]. inversion H; subst.
  constructor; [|auto]. intros Hin. match goal with H : ~ In _ _ |- _ => apply H end. apply in_or_app. left. assumption.
Qed.
Lemma nodup_app_r (a b : list N) : NoDup (a ++ b) -> NoDup b.
Proof. induction a as [|x a IH]; cbn [app]; intros H; [assumption|]. inversion H; auto. Qed.

Lemma nodup_app_disj (a b : list N) x : NoDup (a ++ b) -> In x a -> In x b -> False.
Proof.
  induction a as [|y a IH]; cbn [app]; intros H Ha Hb; [destruct Ha|].
  inversion H; subst. destruct Ha as [->|Ha]; [|auto].
  match goal with H : ~ In _ _ |- _ => apply H end. apply in_or_app. right. assumption.
Qed.

Lemma nodup_app_sub (a b a' b' : list N) :
  NoDup (a ++ b) -> NoDup a' -> NoDup b' -> incl a' a -> incl b' b -> NoDup (a' ++ b').
Proof.
  intros H Ha' Hb' Ia Ib. induction Ha' as [|x a' Hx Ha' IH]; cbn [app]; [assumption|].
  constructor.
  - intros Hin. apply in_app_or in Hin as [Hin|Hin]; [contradiction|].
    apply (nodup_app_disj a b x H); [apply Ia; left; reflexivity|apply Ib; assumption].
  - apply IH. intros y Hy. apply Ia. right. assumption.
Qed.

Lemma nodup_remove_both ida (a b : list (N * N)) :
  NoDup (ids a ++ ids b) -> NoDup (ids (remove_id ida a) ++ ids (remove_id ida b)).
Proof.
  intros H. apply nodup_app_sub with (a := ids a) (b := ids b); auto.
  - apply remove_nodup. eapply nodup_app_l; eassumption.
  - apply remove_nodup. eapply nodup_app_r; eassumption.
  - intros x. apply remove_ids_incl.
  - intros x. apply remove_ids_incl.
Qed.

Lemma insert_spec t id : tl_inv t -> N.of_nat (length (nodes t)) < Nmax ->
  tl_inv (tl_insert t id) /\ held (tl_insert t id) = held t /\
  enabled (tl_insert t id) = enabled t /\ minc (tl_insert t id) = minc t /\ maxc (tl_insert t id) = maxc t.
Proof.
  intros I Hc. unfold tl_insert.
  destruct (in_list t id) eqn:Hin; [auto|].
  pose proof (in_list_false _ _ Hin) as Hni.
  destruct (inv_parts _ I) as (P1 & P2 & P3 & P4 & P5 & P6 & P7 & P8).
  unfold nodes in Hc. rewrite app_length in Hc.
  assert (HBw : HB < w32) by (rewrite HB_val, w32_val; lia).
  assert (Hsz : add32 (size t) 1 = size t + 1).
  { apply add32_small. rewrite P2, w32_val. unfold Nmax in *. lia. }
  destruct (enabled t) eqn:En; cbn [negb].
  - destruct (alloc (minc t) (maxc t) 0 (outst t) (unalloc t)) as [[q' o'] u'] eqn:Ea.
    assert (Hw : outst t + unalloc t < w32) by lia.
    destruct (alloc_spec _ _ _ _ _ _ _ _ (proj1 (proj2 P6)) (proj2 (proj2 P6)) Hw Ea)
      as (g & -> & -> & Hu & _ & Hcap).
    assert (Hcap' : 0 + g <= cap) by (apply Hcap; unfold cap; lia).
    split; [apply mk_inv; simp_tl; rewrite ?app_length, ?sumq_app; cbn [length sumq fold_right snd]; auto; try lia|].
    + unfold ids. rewrite map_app. cbn [map fst]. apply nodup_insert_mid; auto.
    + unfold capped. apply Forall_app; split; auto; repeat constructor; cbn; unfold cap in *; lia.
    + intros; congruence.
    + unfold held. simp_tl. splits; auto; lia.
  - destruct (i_dis _ I En) as (D1 & D2 & D3 & D4). rewrite D3 in *.
    cbn [sumq fold_right length ids map] in *. rewrite ?app_nil_r, ?Nat.add_0_r, ?N.add_0_r in *.
    split; [apply mk_inv; simp_tl; rewrite ?app_length, ?sumq_app, ?Hsz;
            cbn [length sumq fold_right snd ids map]; rewrite ?app_nil_r; auto; try lia|].
    + unfold ids. rewrite map_app. cbn [map fst].
      pose proof (nodup_insert_mid (map fst (act t)) [] id) as HN. rewrite !app_nil_r in HN. apply HN; auto.
    + unfold capped. apply Forall_app; split; auto; repeat constructor; cbn; unfold cap in *; lia.
    + intros _. splits; auto. apply Forall_app; split; auto.
    + unfold held. simp_tl. splits; auto.
Qed.

Lemma erase_spec t id : tl_inv t ->
  exists t', tl_erase t id = Ok t' /\ tl_inv t' /\ held t' = held t /\
             enabled t' = enabled t /\ minc t' = minc t /\ maxc t' = maxc t.
Proof.
  intros I. unfold tl_erase.
  destruct (inv_parts _ I) as (P1 & P2 & P3 & P4 & P5 & P6 & P7 & P8).
  assert (HBw : HB < w32) by (rewrite HB_val, w32_val; lia).
  assert (Hgo : forall q, (lookup id (act t) = Some q /\ lookup id (inact t) = None \/
                           lookup id (act t) = None /\ lookup id (inact t) = Some q) ->
    exists t', (if size t =? 0 then Err E_erase_empty
      else if negb (q =? 0) && (outst t <? q) then Err E_erase_outstanding
      else Ok (with_size (with_quota t (if q =? 0 then outst t else sub32 (outst t) q)
                                     (if q =? 0 then unalloc t else add32 (unalloc t) q)
                                     (remove_id id (act t)) (remove_id id (inact t))) (sub32 (size t) 1))) = Ok t' /\
      tl_inv t' /\ held t' = held t /\ enabled t' = enabled t /\ minc t' = minc t /\ maxc t' = maxc t).
  { intros q Hl.
    assert (Hlen : (S (length (remove_id id (act t)) + length (remove_id id (inact t))) = length (act t) + length (inact t))%nat).
    { destruct Hl as [[A B]|[A B]].
      - rewrite (remove_none _ _ B). pose proof (remove_length _ _ _ A). lia.
      - rewrite (remove_none _ _ A). pose proof (remove_length _ _ _ B). lia. }
    assert (Hsum : sumq (remove_id id (act t)) + sumq (remove_id id (inact t)) + q = sumq (act t) + sumq (inact t)).
    { destruct Hl as [[A B]|[A B]].
      - rewrite (remove_none _ _ B). pose proof (remove_sumq _ _ _ A). lia.
      - rewrite (remove_none _ _ A). pose proof (remove_sumq _ _ _ B). lia. }
    destruct (N.eqb_spec (size t) 0) as [Hz|Hnz]; [lia|].
    assert (Hq : q <= outst t) by lia.
    destruct (N.ltb_spec (outst t) q); [lia|]. rewrite andb_false_r.
    rewrite (sub32_small (size t) 1) by (rewrite ?w32_val; unfold Nmax in *; lia).
    eexists. split; [reflexivity|].
    assert (Ho : (if q =? 0 then outst t else sub32 (outst t) q) = outst t - q).
    { destruct (N.eqb_spec q 0); [lia|]. apply sub32_small; lia. }
    assert (Hu : (if q =? 0 then unalloc t else add32 (unalloc t) q) = unalloc t + q).
    { destruct (N.eqb_spec q 0); [lia|]. apply add32_small; lia. }
    rewrite Ho, Hu.
    split; [apply mk_inv; simp_tl; auto; try lia|].
    - apply nodup_remove_both; auto.
    - apply remove_capped; auto.
    - apply remove_capped; auto.
    - intros Hd. destruct (i_dis _ I Hd) as (D1 & D2 & D3 & D4). rewrite D3 in *. cbn [remove_id].
      assert (q = 0).
      { destruct Hl as [[A B]|[A B]]; [|cbn in B; discriminate].
        clear - A D4. induction (act t) as [|[i w] l IH]; cbn [lookup] in A; [discriminate|].
        inversion D4; subst. destruct (i =? id); [injection A as <-; assumption|auto]. }
      subst q. splits; auto; try lia.
      clear - D4. induction D4 as [|[i w] l Hq Hl IH]; cbn [remove_id]; [constructor|].
      destruct (i =? id); [exact Hl|constructor; assumption].
    - unfold held. simp_tl. splits; auto. lia. }
  destruct (lookup id (act t)) as [q|] eqn:A.
  - apply Hgo. left. split; auto.
    destruct (lookup id (inact t)) eqn:B; [|reflexivity]. exfalso.
    apply lookup_in in A. apply lookup_in in B.
    clear - P3 A B. induction (ids (act t)) as [|x l IH]; [destruct A|].
    cbn [app] in P3. inversion P3; subst. destruct A as [->|A]; [|auto].
    match goal with H : ~ In _ _ |- _ => apply H end. apply in_or_app. right. assumption.
  - destruct (lookup id (inact t)) as [q|] eqn:B.
    + apply Hgo. right. split; auto.
    + exists t. splits; auto.
Qed.
