(* C12 proofs, part G: all op lists on the hierarchy. *)
From Coq Require Import List NArith Bool Lia PeanoNat.
From LTV.C12 Require Import ParamsGen PolicyGen.
From LTV.C12 Require Import Model ProofsA ProofsB ProofsC ProofsD ProofsE ProofsF.
Import ListNotations.
Local Open Scope N_scope.

Lemma sinv_init : sinv init.
Proof.
  constructor; cbn [init rtl slaves mrate next unused now]; auto using tl_init_inv; try (vm_compute; congruence).
Qed.

Lemma G_init : G init = 0. Proof. reflexivity. Qed.

(* state reached, payload moved under throttling, quota granted by ticks, and rate x elapsed time
   (piecewise: each tick with the rate in force at that tick) *)
Fixpoint final (x : st) (ops : list op) : st :=
  match ops with
  | [] => x
  | o :: r => match step x o with Ok (x', _) => final x' r | Err _ => x end
  end.

Definition ideal (x : st) (o : op) : N :=
  match o with
  | OTick dt => (now x + dt - last_tick x) * mrate x / 1000000
  | OSetRate O v => if mrate x =? 0 then 1000000 * v / 1000000 else 0
  | _ => 0
  end.

Fixpoint totals (x : st) (ops : list op) : N * N * N :=
  match ops with
  | [] => (0, 0, 0)
  | o :: r => match step x o with
              | Ok (x', ou) => let '(p, g, i) := totals x' r in (payload x o ou + p, sgrant x o + g, ideal x o + i)
              | Err _ => (0, 0, 0)
              end
  end.

Lemma tick_quota_le c r : tick_quota c r <= c * r / 1000000.
Proof.
  unfold tick_quota.
  etransitivity; [apply N.mod_le; rewrite w32_val; lia|].
  apply N.div_le_mono; [lia|]. apply N.mod_le. unfold w64. lia.
Qed.

Lemma sgrant_le x o : sgrant x o <= ideal x o.
Proof.
  destruct o as [| | | | | | | |[|i] v| |]; cbn [sgrant ideal]; try lia.
  - apply tick_quota_le.
  - destruct (mrate x =? 0); [apply tick_quota_le|lia].
Qed.

(* Main hierarchy theorem: for EVERY op list a client + connections can produce (valid_opsb:
   I E X U V T A R S, ticks only while limited and >= 90 ms apart, per-tick quota <= 2^26,
   <= 1024 nodes per list, <= 8 slaves), from any state satisfying the invariant:
   - no internal_error other than Rate::insert's own range check is raised,
   - the invariant (per-list conservation/split/bounds, enabled-sync root<->slaves,
     limited <-> enabled, cursor in range, m_unused_quota <= one tick) holds at the end,
   - all quota held anywhere in the hierarchy + payload moved under throttling
     <= quota held at the start + what the ticks granted <= burst + rate x elapsed. *)
Theorem hierarchy_run : forall ops x, sinv x -> valid_opsb x ops = true ->
  (snd (run x ops) = None \/ snd (run x ops) = Some E_rate_insert) /\
  Forall (fun p => sinv (fst p)) (fst (run x ops)) /\
  sinv (final x ops) /\
  (let '(p, g, i) := totals x ops in G (final x ops) + p <= G x + g /\ g <= i).
Proof.
  induction ops as [|o ops IH]; intros x S V; cbn [run final totals valid_opsb] in *.
  - cbn [fst snd]. cbv beta iota zeta. splits; auto; try lia.
  - apply andb_prop in V as [V1 V2].
    destruct (step_spec x o S V1) as [(x' & ou & E & S' & HG)|E]; rewrite E in *.
    + destruct (IH x' S' V2) as (A & B & C & D).
      destruct (run x' ops) as [tr e] eqn:Er. cbn [fst snd] in *.
      destruct (totals x' ops) as [[p g] i]. destruct D as [D1 D2].
      pose proof (sgrant_le x o).
      cbv beta iota zeta. splits; auto; lia.
    + cbn [fst snd]. cbv beta iota zeta. splits; auto; lia.
Qed.

(* rate bound over a window of ops (= any interval made of ticks): payload <= burst + rate x time,
   burst = everything held in the hierarchy at the start of the window *)
Corollary rate_bound_hierarchy ops x : sinv x -> valid_opsb x ops = true ->
  fst (fst (totals x ops)) <= G x + snd (totals x ops).
Proof.
  intros S V. destruct (hierarchy_run ops x S V) as (_ & _ & _ & D).
  destruct (totals x ops) as [[p g] i]. cbn [fst snd]. lia.
Qed.

(* explicit burst bound: a list holds at most 65536*1024 + 2*2^26, each throttle at most one tick
   of unused quota on top *)
Lemma G_bound x : sinv x -> G x <= (1 + N.of_nat (length (slaves x))) * (HB + Qmax).
Proof.
  intros [S1 S2 S3 S4 S5 S6 S7 S8]. unfold G.
  assert (Hs (slaves x) <= N.of_nat (length (slaves x)) * (HB + Qmax)).
  { clear - S2. induction S2 as [|s l (A & B & C) _ IH]; cbn [length]; [cbn; lia|].
    rewrite Hs_cons, Nat2N.inj_succ. unfold Hof. pose proof (i_held _ A). unfold held. lia. }
  pose proof (i_held _ S1). unfold held. lia.
Qed.

(* reactivation at the hierarchy level: whenever a tick reaches a list (its update_quota runs with
   some need), the longest-waiting connection is activated if min_chunk can be given to it; this is
   ProofsC.update_spec / ProofsE.slave_rq_spec's last clause. What is missing for full liveness is
   the fairness argument that every list is reached by infinitely many ticks with need > 0. *)
