From Coq Require Import List NArith Bool.
From LTV.C12 Require Import Model.
