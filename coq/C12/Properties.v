From Coq Require Import List NArith Bool.
From LTV.C12 Require Import Model ProofsA ProofsB ProofsC ProofsD ProofsE ProofsF ProofsG ProofsH ProofsI ProofsJ ProofsK.
Import ListNotations.
Local Open Scope N_scope.

(* constants re-extracted from /repo (chunk table <= 16384, factor 4, defaults, 90 ms, 2^16, 2^28, 2^40) *)
Theorem params_ok_now : ProofsA.params_ok = true.
Proof. exact ProofsA.params_ok_now. Qed.
Print Assumptions params_ok_now.

(* quota_conservation + split_inv + no_internal_error + "nothing created", for ALL event lists on a
   ThrottleList that follow the consumers' discipline (tl_inv: outstanding = sum of node quotas,
   size = |active|+|inactive|, ids distinct, every quota <= 65536, counters below 2^32, disabled =>
   all zero and nobody inactive). The only reachable throw is Rate::insert's. *)
Theorem quota_conservation_no_internal_error :
  forall l t, tl_inv t -> valid_run t l ->
  (exists t' p, ev_run t l = Ok (t', p) /\ tl_inv t' /\ held t' + p <= held t + grants l)
  \/ ev_run t l = Err E_rate_insert.
Proof. exact ProofsD.list_run_spec. Qed.
Print Assumptions quota_conservation_no_internal_error.

Theorem init_list_inv : tl_inv tl_init.
Proof. exact ProofsA.tl_init_inv. Qed.
Print Assumptions init_list_inv.

(* rate bound over any window of events: payload moved under throttling <= burst + granted, with
   burst = 65536*|nodes| + unallocated + unused-unthrottled at the start of the window *)
Theorem rate_bound_list :
  forall l t t' p, tl_inv t -> valid_run t l -> ev_run t l = Ok (t', p) ->
  p <= cap * N.of_nat (length (nodes t)) + unalloc t + uu t + grants l.
Proof. exact ProofsD.rate_bound_list. Qed.
Print Assumptions rate_bound_list.

(* tick_grant: what receive_quota asks for a list with rate r after count microseconds is at most
   count*r/10^6 (fixed-point fraction rounds down), and at most the tick's own quota *)
Theorem tick_grant :
  forall count r q, r <> 0 -> need_of q (tick_fraction count) r <= count * r / 1000000.
Proof. exact ProofsD.tick_grant. Qed.
Print Assumptions tick_grant.

Theorem tick_quota_exact :
  forall count r, count * r < w64 -> count * r / 1000000 < w32 -> tick_quota count r = count * r / 1000000.
Proof. exact ProofsD.tick_quota_exact. Qed.
Print Assumptions tick_quota_exact.

(* update_quota: grant, carry-over cap of one tick, reactivation *)
Theorem update_quota_reactivation :
  forall t q, tl_inv t -> enabled t = true -> q <= Qmax ->
  exists t' used acts, update_quota t q = Ok (t', used, acts) /\ tl_inv t' /\ enabled t' = true /\
    held t' <= held t + q /\ minc t' = minc t /\ maxc t' = maxc t /\ uu t' = q /\ unalloc t' <= q /\
    (inact t' = [] \/ (unalloc t' = 0 /\ exists id qq r, inact t' = (id, qq) :: r /\ qq < minc t)) /\
    (forall id, In id acts -> exists q1, In (id, q1) (act t') /\ minc t <= q1) /\
    (forall id qq r, inact t = (id, qq) :: r -> minc t <= qq + unalloc t + uu t -> In id acts).
Proof. exact ProofsC.update_spec. Qed.
Print Assumptions update_quota_reactivation.

(* the consumer step: exact accounting, disabled_is_unlimited, deactivation only below min_chunk *)
Theorem consumer_step :
  forall t s k want, tl_inv t ->
  (exists t' ou, consume t s k want = Ok (t', ou) /\ tl_inv t' /\
                 enabled t' = enabled t /\ minc t' = minc t /\ maxc t' = maxc t /\
                 held t' <= held t /\
                 (forall n, ou = OutUsed n -> enabled t = true -> held t' + n = held t) /\
                 (enabled t = false -> in_list t k = true -> ou = OutUsed (N.min int32_max want)) /\
                 (ou = OutDeact -> exists q, lookup k (act t) = Some q /\ q + unalloc t < minc t))
  \/ consume t s k want = Err E_rate_insert.
Proof. exact ProofsC.consume_spec. Qed.
Print Assumptions consumer_step.

Theorem disabled_is_unlimited :
  forall t k, enabled t = false -> node_quota t k = Ok int32_max.
Proof. exact ProofsD.disabled_quota. Qed.
Print Assumptions disabled_is_unlimited.

(* erase never throws (both internal_errors of ThrottleList::erase are unreachable) *)
Theorem erase_never_throws :
  forall t id, tl_inv t ->
  exists t', tl_erase t id = Ok t' /\ tl_inv t' /\ held t' = held t /\
             enabled t' = enabled t /\ minc t' = minc t /\ maxc t' = maxc t.
Proof. exact ProofsB.erase_spec. Qed.
Print Assumptions erase_never_throws.

(* node_used with ANY byte count (buffered-data paths included) never throws "used too much quota"
   and never underflows *)
Theorem node_used_never_underflows :
  forall t s id n, tl_inv t -> n < w32 ->
  (exists t', node_used t s id n = Ok t' /\ tl_inv t' /\
              held t' <= held t /\ held t <= held t' + n /\
              enabled t' = enabled t /\ minc t' = minc t /\ maxc t' = maxc t /\
              ids (act t') = ids (act t) /\ ids (inact t') = ids (inact t) /\
              (forall q, enabled t = true -> lookup id (act t) = Some q -> n <= q + unalloc t ->
                         held t' + n = held t))
  \/ node_used t s id n = Err E_rate_insert.
Proof. exact ProofsB.node_used_spec. Qed.
Print Assumptions node_used_never_underflows.

(* regression: the op list that raised internal_error before commit 36e16d0 now runs clean *)
Theorem rate_added_regression :
  valid_opsb init witness_rate_added = true /\ snd (run init witness_rate_added) = None.
Proof. exact ProofsD.rate_added_regression. Qed.
Print Assumptions rate_added_regression.

(* REFUTED: a slave limit is not enforced while the root is unlimited *)
Theorem slave_limit_needs_root_limit_refuted :
  valid_opsb init witness_slave_unlimited = true /\
  map snd (fst (run init witness_slave_unlimited)) = [OutOk; OutOk; OutOk; OutUsed 131072; OutUsed 131072] /\
  (exists x, nth_error (map fst (fst (run init witness_slave_unlimited))) 4 = Some x /\
             now x = t0 /\ option_map s_rate (nth_error (slaves x) 0) = Some 1000).
Proof. exact ProofsD.slave_limit_needs_root_limit_refuted. Qed.
Print Assumptions slave_limit_needs_root_limit_refuted.

(* regression: a rate-0 slave under a limited root is no longer starved (commit 5638f7b) *)
Theorem slave_rate0_regression :
  valid_opsb init witness_slave_starves = true /\
  snd (run init witness_slave_starves) = None /\
  exists x, last (map (fun p => Some (fst p)) (fst (run init witness_slave_starves))) None = Some x /\
            option_map (fun s => inact (s_tl s)) (nth_error (slaves x) 0) = Some [].
Proof. exact ProofsD.slave_rate0_regression. Qed.
Print Assumptions slave_rate0_regression.

(* ------------------------------------------------------------------ hierarchy (root + slaves) *)
Theorem hierarchy_invariant_init : sinv init.
Proof. exact ProofsG.sinv_init. Qed.
Print Assumptions hierarchy_invariant_init.

(* no_internal_error + invariant + global conservation for ALL valid op lists at the
   ThrottleInternal level (this is the positive form of the former no_internal_error_refuted; the
   residual class is Rate::insert's own range check, see rate_insert_only_by_range) *)
Theorem hierarchy_run :
  forall ops x, sinv x -> valid_opsb x ops = true ->
  (snd (run x ops) = None \/ snd (run x ops) = Some E_rate_insert) /\
  Forall (fun p => sinv (fst p)) (fst (run x ops)) /\
  sinv (final x ops) /\
  (let '(p, g, i) := totals x ops in G (final x ops) + p <= G x + g /\ g <= i).
Proof. exact ProofsG.hierarchy_run. Qed.
Print Assumptions hierarchy_run.

(* one op: invariant preserved, quota enters only through ticks *)
Theorem hierarchy_step :
  forall x o, sinv x -> valid_opb x o = true ->
  (exists x' ou, step x o = Ok (x', ou) /\ sinv x' /\ G x' + payload x o ou <= G x + sgrant x o)
  \/ step x o = Err E_rate_insert.
Proof. exact ProofsF.step_spec. Qed.
Print Assumptions hierarchy_step.

(* rate_bound over a window: payload through ALL lists <= burst (quota held at the start) +
   sum over the ticks of elapsed x root rate / 10^6 (rate changes handled piecewise) *)
Theorem rate_bound_hierarchy :
  forall ops x, sinv x -> valid_opsb x ops = true ->
  fst (fst (totals x ops)) <= G x + snd (totals x ops).
Proof. exact ProofsG.rate_bound_hierarchy. Qed.
Print Assumptions rate_bound_hierarchy.

Theorem burst_bound :
  forall x, sinv x -> G x <= (1 + N.of_nat (length (slaves x))) * (HB + Qmax).
Proof. exact ProofsG.G_bound. Qed.
Print Assumptions burst_bound.

(* what one tick does to the hierarchy: exact m_unused_quota accounting, every list gets at most
   need_of(quota, fraction, its rate) *)
Theorem tick_distribution :
  forall x quota f, tick_pre x -> quota <= Qmax ->
  (exists x' acts, receive_quota x quota f = Ok (x', acts) /\ tick_pre x' /\
     now x' = now x /\ mrate x' = mrate x /\ last_tick x' = last_tick x /\
     G x' <= G x + quota /\
     held (rtl x') <= held (rtl x) + need_of quota f (mrate x) /\ minc (rtl x') = minc (rtl x) /\
     Forall2 (Rsl quota f) (slaves x) (slaves x'))
  \/ receive_quota x quota f = Err E_rate_insert.
Proof. exact ProofsE.receive_quota_spec. Qed.
Print Assumptions tick_distribution.

(* a slave reached by the tick: exact accounting (Hof = its unused + everything in its list),
   share <= need_of, and reactivation of its longest-waiting connection *)
Theorem slave_tick_reactivation :
  forall s quota f, slv_inv true s -> quota <= Qmax ->
  exists s' used acts e,
    slave_receive_quota s quota f = Ok (s', used, acts) /\ slv_inv true s' /\ s_rate s' = s_rate s /\
    used = signed_used quota e /\ Hof s' + e = Hof s + quota /\ e <= EB /\
    held (s_tl s') <= held (s_tl s) + need_of quota f (s_rate s) /\
    minc (s_tl s') = minc (s_tl s) /\
    (forall id qq r, inact (s_tl s) = (id, qq) :: r ->
       minc (s_tl s) <= qq + unalloc (s_tl s) + uu (s_tl s) -> In id acts).
Proof. exact ProofsE.slave_rq_spec. Qed.
Print Assumptions slave_tick_reactivation.

(* no_internal_error at full strength (positive form of the former no_internal_error_refuted): all
   op lists at the ThrottleInternal level (root + slaves, enable/disable through set_max_rate,
   ticks, create_slave, every consumer-side call). The carved-out input class (rate_quietb) is
   exactly Rate::insert's own argument range: <= 2^28 bytes reported to a list in one call or
   collected from one slave by one tick, <= 2^40 accumulated in a list's rate window. Consumers
   report at most one chunk per call; for the enabling set_max_rate nothing is asked of the slaves'
   uncollected counters (that is the 36e16d0 repair). *)
Theorem no_internal_error :
  forall ops x, sinv x -> valid_opsb x ops = true -> rate_quietb x ops = true -> snd (run x ops) = None.
Proof. exact ProofsH.no_internal_error. Qed.
Print Assumptions no_internal_error.

Theorem no_internal_error_covers_old_witness :
  valid_opsb init witness_rate_added = true /\ rate_quietb init witness_rate_added = true.
Proof. exact ProofsH.no_internal_error_covers_old_witness. Qed.
Print Assumptions no_internal_error_covers_old_witness.

(* reactivation_liveness on one list: for EVERY valid event list (any interleaving of inserts,
   erases, consumer steps, buffered/unthrottled bytes and updates), a deactivated connection with n
   connections waiting ahead of it is active again (or has left the throttle) before the (n+1)-th
   update_quota that finds min_chunk in the pool (unallocated + the previous tick's grant) *)
Theorem list_reactivation_liveness :
  forall l t id, tl_inv t -> enabled t = true -> valid_run t l ->
  In id (ids (inact t)) -> (ahead id (ids (inact t)) < goods t l)%nat -> reactivated id t l.
Proof. exact ProofsI.list_reactivation_liveness. Qed.
Print Assumptions list_reactivation_liveness.

(* fairness of the slave cursor: one tick always serves the list at the cursor (its need never
   exceeds unused + quota) and moves on in the cyclic order slave 0 .. slave k-1, root *)
Theorem tick_cursor :
  forall x q f x' acts, tick_pre x -> q <= Qmax -> receive_quota x q f = Ok (x', acts) ->
  exists m : nat,
    length (slaves x') = length (slaves x) /\
    (next x + m <= length (slaves x))%nat /\
    (next x' = 0%nat /\ (next x + m = length (slaves x))%nat \/ next x' = (next x + m)%nat) /\
    ((next x < length (slaves x))%nat -> (1 <= m)%nat) /\
    ((next x = length (slaves x))%nat -> next x' = 0%nat) /\
    (forall i s, (next x <= i < next x + m)%nat -> nth_error (slaves x) i = Some s ->
       exists s2, nth_error (slaves x') i = Some s2 /\ proc q f s s2).
Proof. exact ProofsJ.receive_quota_cursor. Qed.
Print Assumptions tick_cursor.

(* hence every slave list is served within |slaves| + 1 consecutive ticks (any quotas <= 2^26) *)
Theorem cursor_reaches_every_list :
  forall qs x i, tick_pre x -> Forall (fun p => fst p <= Qmax) qs ->
  (i < length (slaves x))%nat -> runs_ok x qs -> (length (slaves x) < length qs)%nat -> served i x qs.
Proof. exact ProofsJ.cursor_reaches_every_list. Qed.
Print Assumptions cursor_reaches_every_list.

(* served = the list's update_quota ran with exactly its share need_of(q, f, rate) of the tick;
   with list_reactivation_liveness: a deactivated connection on slave list i with n connections
   ahead of it is active again after at most (n+1)*(|slaves|+1) ticks, provided each time its list
   is served the pool (unallocated + previous grant) holds min_chunk and rates/slaves do not change *)
Theorem served_means_updated :
  forall q f s s2, slv_inv true s -> q <= Qmax -> proc q f s s2 ->
  exists t' u a, update_quota (s_tl s) (need_of q f (s_rate s)) = Ok (t', u, a) /\
                 same_quota t' (s_tl s2) /\ s_rate s2 = s_rate s.
Proof. exact ProofsJ.proc_updates. Qed.
Print Assumptions served_means_updated.

(* per-list rate bound through ticks as a run-level total (root list l = 0 or slave i = l-1): over
   any window of valid ops in which the root limit stays set (rate changes allowed), payload moved
   through the list + what it still holds <= what it held at the start + the sum over the ticks of
   its share need_of(tick quota, fraction, its own rate); each share <= elapsed x own rate / 10^6 *)
Theorem rate_bound_per_list :
  forall ops x l t, sinv x -> valid_opsb x ops = true -> stable_opsb x ops = true -> get_tl x l = Some t ->
  lheld (final x ops) l + fst (ltotals l x ops) <= held t + snd (ltotals l x ops).
Proof. exact ProofsK.rate_bound_per_list. Qed.
Print Assumptions rate_bound_per_list.

Theorem per_list_share_le :
  forall x o l, lrate x l <> 0 ->
  lgrant l x o <= match o with OTick dt => (now x + dt - last_tick x) * lrate x l / 1000000 | _ => 0 end.
Proof. exact ProofsK.lgrant_le. Qed.
Print Assumptions per_list_share_le.

(* tick spacing chosen by the code itself (Throttle::calculate_interval over m_rateSlow) *)
Theorem calc_interval_bounds : forall t s, 100000 <= calc_interval t s <= 1000000.
Proof. exact ProofsK.calc_interval_bounds. Qed.
Print Assumptions calc_interval_bounds.

(* waiting_queue_fifo: whatever one event does (insert, erase, any consumer step incl. buffered bytes
   beyond the grant, unthrottled bytes, update_quota), a connection that is waiting either becomes
   active / leaves, or stays waiting with NO MORE connections ahead of it than before; an update that
   finds min_chunk in the pool takes at least one connection off the front. Newly deactivated
   connections therefore always queue up behind it. *)
Theorem waiting_queue_fifo :
  forall id t s e t1 p, tl_inv t -> enabled t = true -> ev_valid t e ->
  In id (ids (inact t)) -> ev_step t s e = Ok (t1, p) ->
  In id (ids (act t1)) \/ in_list t1 id = false \/
  (In id (ids (inact t1)) /\ (ahead id (ids (inact t1)) + good t e <= ahead id (ids (inact t)))%nat).
Proof. exact ProofsI.ev_progress. Qed.
Print Assumptions waiting_queue_fifo.

(* every_waiter_served_within: EVERY waiting connection (not only the head of the queue) with n
   connections ahead of it is active again before the (n+1)-th update that finds min_chunk in the pool *)
Theorem every_waiter_served_within :
  forall l t id, tl_inv t -> enabled t = true -> valid_run t l ->
  In id (ids (inact t)) -> (ahead id (ids (inact t)) < goods t l)%nat -> reactivated id t l.
Proof. exact ProofsI.list_reactivation_liveness. Qed.
Print Assumptions every_waiter_served_within.
