From Coq Require Import List NArith Bool.
From LTV.C12 Require Import Model ProofsA ProofsB ProofsC ProofsD.
Import ListNotations.
Local Open Scope N_scope.

(* constants re-extracted from /repo (chunk table <= 16384, factor 4, defaults, 90 ms, 2^16, 2^28, 2^40) *)
Theorem params_ok_now : ProofsA.params_ok = true.
Proof. exact ProofsA.params_ok_now. Qed.
Print Assumptions params_ok_now.

(* quota_conservation + split_inv + no_internal_error + "nothing created", for ALL event lists on a
   ThrottleList that follow the consumers' discipline (tl_inv: outstanding = sum of node quotas,
   size = |active|+|inactive|, ids distinct, every quota <= 65536, counters below 2^32, disabled =>
   all zero and nobody inactive). The only reachable throw is Rate::insert's. *)
Theorem quota_conservation_no_internal_error :
  forall l t, tl_inv t -> valid_run t l ->
  (exists t' p, ev_run t l = Ok (t', p) /\ tl_inv t' /\ held t' + p <= held t + grants l)
  \/ ev_run t l = Err E_rate_insert.
Proof. exact ProofsD.list_run_spec. Qed.
Print Assumptions quota_conservation_no_internal_error.

Theorem init_list_inv : tl_inv tl_init.
Proof. exact ProofsA.tl_init_inv. Qed.
Print Assumptions init_list_inv.

(* rate bound over any window of events: payload moved under throttling <= burst + granted, with
   burst = 65536*|nodes| + unallocated + unused-unthrottled at the start of the window *)
Theorem rate_bound_list :
  forall l t t' p, tl_inv t -> valid_run t l -> ev_run t l = Ok (t', p) ->
  p <= cap * N.of_nat (length (nodes t)) + unalloc t + uu t + grants l.
Proof. exact ProofsD.rate_bound_list. Qed.
Print Assumptions rate_bound_list.

(* tick_grant: what receive_quota asks for a list with rate r after count microseconds is at most
   count*r/10^6 (fixed-point fraction rounds down), and at most the tick's own quota *)
Theorem tick_grant :
  forall count r, need_of (tick_quota count r) (tick_fraction count) r <= count * r / 1000000.
Proof. exact ProofsD.tick_grant. Qed.
Print Assumptions tick_grant.

Theorem tick_quota_exact :
  forall count r, count * r < w64 -> count * r / 1000000 < w32 -> tick_quota count r = count * r / 1000000.
Proof. exact ProofsD.tick_quota_exact. Qed.
Print Assumptions tick_quota_exact.

(* update_quota: grant, carry-over cap of one tick, reactivation *)
Theorem update_quota_reactivation :
  forall t q, tl_inv t -> enabled t = true -> q <= Qmax ->
  exists t' used acts, update_quota t q = Ok (t', used, acts) /\ tl_inv t' /\ enabled t' = true /\
    held t' <= held t + q /\ minc t' = minc t /\ maxc t' = maxc t /\ uu t' = q /\ unalloc t' <= q /\
    (inact t' = [] \/ (unalloc t' = 0 /\ exists id qq r, inact t' = (id, qq) :: r /\ qq < minc t)) /\
    (forall id, In id acts -> exists q1, In (id, q1) (act t') /\ minc t <= q1) /\
    (forall id qq r, inact t = (id, qq) :: r -> minc t <= qq + unalloc t + uu t -> In id acts).
Proof. exact ProofsC.update_spec. Qed.
Print Assumptions update_quota_reactivation.

(* the consumer step: exact accounting, disabled_is_unlimited, deactivation only below min_chunk *)
Theorem consumer_step :
  forall t s k want, tl_inv t ->
  (exists t' ou, consume t s k want = Ok (t', ou) /\ tl_inv t' /\
                 enabled t' = enabled t /\ minc t' = minc t /\ maxc t' = maxc t /\
                 held t' <= held t /\
                 (forall n, ou = OutUsed n -> enabled t = true -> held t' + n = held t) /\
                 (enabled t = false -> in_list t k = true -> ou = OutUsed (N.min int32_max want)) /\
                 (ou = OutDeact -> exists q, lookup k (act t) = Some q /\ q + unalloc t < minc t))
  \/ consume t s k want = Err E_rate_insert.
Proof. exact ProofsC.consume_spec. Qed.
Print Assumptions consumer_step.

Theorem disabled_is_unlimited :
  forall t k, enabled t = false -> node_quota t k = Ok int32_max.
Proof. exact ProofsD.disabled_quota. Qed.
Print Assumptions disabled_is_unlimited.

(* erase never throws (both internal_errors of ThrottleList::erase are unreachable) *)
Theorem erase_never_throws :
  forall t id, tl_inv t ->
  exists t', tl_erase t id = Ok t' /\ tl_inv t' /\ held t' = held t /\
             enabled t' = enabled t /\ minc t' = minc t /\ maxc t' = maxc t.
Proof. exact ProofsB.erase_spec. Qed.
Print Assumptions erase_never_throws.

(* node_used with ANY byte count (buffered-data paths included) never throws "used too much quota"
   and never underflows *)
Theorem node_used_never_underflows :
  forall t s id n, tl_inv t -> n < w32 ->
  (exists t', node_used t s id n = Ok t' /\ tl_inv t' /\
              held t' <= held t /\ held t <= held t' + n /\
              enabled t' = enabled t /\ minc t' = minc t /\ maxc t' = maxc t /\
              ids (act t') = ids (act t) /\ ids (inact t') = ids (inact t) /\
              (forall q, enabled t = true -> lookup id (act t) = Some q -> n <= q + unalloc t ->
                         held t' + n = held t))
  \/ node_used t s id n = Err E_rate_insert.
Proof. exact ProofsB.node_used_spec. Qed.
Print Assumptions node_used_never_underflows.

(* REFUTED on the faithful model (and replayed on the real code): an internal_error IS reachable
   from an op list a client can produce *)
Theorem no_internal_error_refuted :
  exists ops, valid_opsb init ops = true /\ snd (run init ops) = Some E_rate_insert.
Proof. exact ProofsD.no_internal_error_refuted. Qed.
Print Assumptions no_internal_error_refuted.

(* REFUTED: a slave limit is not enforced while the root is unlimited *)
Theorem slave_limit_needs_root_limit_refuted :
  valid_opsb init witness_slave_unlimited = true /\
  map snd (fst (run init witness_slave_unlimited)) = [OutOk; OutOk; OutOk; OutUsed 131072; OutUsed 131072] /\
  (exists x, nth_error (map fst (fst (run init witness_slave_unlimited))) 4 = Some x /\
             now x = t0 /\ option_map s_rate (nth_error (slaves x) 0) = Some 1000).
Proof. exact ProofsD.slave_limit_needs_root_limit_refuted. Qed.
Print Assumptions slave_limit_needs_root_limit_refuted.

(* bounded witness: a slave with rate 0 under a limited root receives nothing in 5 ticks *)
Theorem slave_rate0_starves_witness :
  valid_opsb init witness_slave_starves = true /\
  exists x, last (map (fun p => Some (fst p)) (fst (run init witness_slave_starves))) None = Some x /\
            option_map (fun s => (inact (s_tl s), held (s_tl s))) (nth_error (slaves x) 0) = Some ([(0, 0)], 0).
Proof. exact ProofsD.slave_rate0_starves_witness. Qed.
Print Assumptions slave_rate0_starves_witness.
