(* C12 proofs, part I: reactivation liveness on one ThrottleList. A deactivated connection is
   activated after at most (number of connections waiting ahead of it + 1) update_quota calls that
   find min_chunk in the pool (unallocated + last tick's unused-unthrottled), whatever else the
   connections do in between. *)
From Coq Require Import List NArith Bool Lia PeanoNat.
From LTV.C12 Require Import ParamsGen PolicyGen.
From LTV.C12 Require Import Model ProofsA ProofsB ProofsC ProofsD.
Import ListNotations.
Local Open Scope N_scope.

(* connections waiting ahead of id in a queue of ids *)
Fixpoint ahead (id : N) (l : list N) : nat :=
  match l with
  | [] => 0
  | i :: r => if i =? id then 0 else S (ahead id r)
  end.

Lemma ahead_app_in id a b : In id a -> ahead id (a ++ b) = ahead id a.
Proof.
  induction a as [|i a IH]; cbn [ahead app]; [intros []|].
  destruct (N.eqb_spec i id); [reflexivity|]. intros [E|E]; [contradiction|]. f_equal. auto.
Qed.

Lemma ahead_app_notin id a b : ~ In id a -> ahead id (a ++ b) = (length a + ahead id b)%nat.
Proof.
  induction a as [|i a IH]; cbn [ahead app length]; [reflexivity|]. intros H.
  destruct (N.eqb_spec i id) as [->|]; [exfalso; apply H; left; reflexivity|].
  cbn. f_equal. apply IH. intros Hc. apply H. right. exact Hc.
Qed.

Lemma ids_remove_ahead id k l : k <> id -> In id (ids l) ->
  In id (ids (remove_id k l)) /\ (ahead id (ids (remove_id k l)) <= ahead id (ids l))%nat.
Proof.
  intros Hk. induction l as [|[i q] l IH]; cbn [ids map fst remove_id ahead]; [intros []|].
  intros Hin. destruct (N.eqb_spec i k) as [->|Hik].
  - destruct Hin as [E|E]; [contradiction|]. fold (ids l). split; [exact E|].
    destruct (N.eqb_spec k id); [contradiction|]. lia.
  - cbn [ids map fst ahead]. fold (ids (remove_id k l)) (ids l).
    destruct (N.eqb_spec i id) as [->|Hid]; [split; [left; reflexivity|lia]|].
    destruct Hin as [E|E]; [contradiction|]. destruct (IH E) as [A B]. split; [right; exact A|lia].
Qed.

Definition good (t : tl) (e : ev) : nat :=
  match e with EvUpdate _ => if minc t <=? unalloc t + uu t then 1%nat else 0%nat | _ => 0%nat end.

(* number of updates in the run that found min_chunk in the pool *)
Fixpoint goods (t : tl) (l : list (N * ev)) : nat :=
  match l with
  | [] => 0
  | (s, e) :: r => match ev_step t s e with Ok (t', _) => (good t e + goods t' r)%nat | Err _ => 0%nat end
  end.

(* at some point of the run the connection is active again (or has left the throttle) *)
Fixpoint reactivated (id : N) (t : tl) (l : list (N * ev)) : Prop :=
  match l with
  | [] => False
  | (s, e) :: r => match ev_step t s e with
                   | Ok (t', _) => In id (ids (act t')) \/ in_list t' id = false \/ reactivated id t' r
                   | Err _ => False
                   end
  end.

Lemma in_list_false_iff t id : NoDup (ids (act t) ++ ids (inact t)) ->
  ~ In id (ids (act t)) -> ~ In id (ids (inact t)) -> in_list t id = false.
Proof.
  intros _ A B. unfold in_list.
  destruct (lookup id (act t)) eqn:E1; [exfalso; apply A; eapply lookup_in; eassumption|].
  destruct (lookup id (inact t)) eqn:E2; [exfalso; apply B; eapply lookup_in; eassumption|reflexivity].
Qed.

Lemma update_shape t q t' u a : tl_inv t -> enabled t = true -> update_quota t q = Ok (t', u, a) ->
  exists m, ids (inact t) = m ++ ids (inact t') /\ ids (act t') = ids (act t) ++ m /\
            (minc t <= unalloc t + uu t -> inact t <> [] -> m <> []).
Proof.
  intros I En. unfold update_quota. rewrite En. cbn [negb].
  destruct (inv_parts _ I) as (P1 & P2 & P3 & P4 & P5 & (K1 & K2 & K3) & P7 & P8).
  pose proof HB_lt as HBw.
  rewrite (add32_small (unalloc t) (uu t)) by lia.
  destruct (uq_loop (minc t) (maxc t) (inact t) (outst t) (unalloc t + uu t) []) as [[[moved ina'] o'] u'] eqn:EL.
  assert (Hw : outst t + (unalloc t + uu t) < w32) by lia.
  assert (Hcn : capped []) by constructor.
  destruct (uq_loop_spec _ _ K2 K3 K1 _ _ _ _ _ _ _ _ Hw P5 Hcn EL) as (Hid & _ & _ & _ & _ & _ & _ & _ & Hhead).
  cbn [rev ids map app] in Hid.
  destruct (q <? u'); intros E; injection E as <- _ _; cbn [inact act].
  all: exists (ids (rev moved)); split; [symmetry; exact Hid|]; split; [unfold ids; rewrite map_app; reflexivity|].
  all: intros Hp Hne; destruct (inact t) as [|[i qq] r] eqn:Ei; [contradiction|];
       destruct (Hhead i qq r eq_refl ltac:(lia)) as (q1 & Hin & _);
       intros Hm; apply in_rev in Hin; apply (in_map fst) in Hin; fold (ids (rev moved)) in Hin; rewrite Hm in Hin; destruct Hin.
Qed.

Lemma node_quota_lt t k q : node_quota t k = Ok q -> q < w32.
Proof.
  unfold node_quota. destruct (negb (enabled t)); [intros E; injection E as <-; vm_compute; reflexivity|].
  destruct (lookup k (act t)) as [n|]; [|destruct (lookup k (inact t)); discriminate].
  intros E. injection E as <-. destruct (_ <=? _); [|rewrite w32_val; lia].
  unfold add32. apply N.mod_lt. rewrite w32_val. lia.
Qed.

Lemma ev_progress id t s e t1 p : tl_inv t -> enabled t = true -> ev_valid t e ->
  In id (ids (inact t)) -> ev_step t s e = Ok (t1, p) ->
  In id (ids (act t1)) \/ in_list t1 id = false \/
  (In id (ids (inact t1)) /\ (ahead id (ids (inact t1)) + good t e <= ahead id (ids (inact t)))%nat).
Proof.
  intros I En V Hin E.
  destruct (inv_parts _ I) as (P1 & P2 & P3 & P4 & P5 & P6 & P7 & P8).
  destruct e as [k|k|k w|k n|n|q]; cbn [ev_step good] in *.
  - (* insert: goes to the active side *)
    injection E as <- _. right. right. unfold tl_insert. destruct (in_list t k); [split; [assumption|lia]|].
    rewrite En. cbn [negb]. destruct (alloc _ _ _ _ _) as [[? ?] ?]. cbn [with_size with_quota inact]. split; [assumption|lia].
  - (* erase *)
    destruct (tl_erase t k) as [t'|] eqn:Ee; cbn [bind] in E; [|discriminate]. injection E as <- _.
    unfold tl_erase in Ee.
    assert (Hgo : forall q0, (if size t =? 0 then Err E_erase_empty
        else if negb (q0 =? 0) && (outst t <? q0) then Err E_erase_outstanding
        else Ok (with_size (with_quota t (if q0 =? 0 then outst t else sub32 (outst t) q0)
                            (if q0 =? 0 then unalloc t else add32 (unalloc t) q0)
                            (remove_id k (act t)) (remove_id k (inact t))) (sub32 (size t) 1))) = Ok t' ->
        act t' = remove_id k (act t) /\ inact t' = remove_id k (inact t)).
    { intros q0. destruct (size t =? 0); [discriminate|]. destruct (_ && _); [discriminate|].
      intros H; injection H as <-. split; reflexivity. }
    assert (Hsh : (act t' = remove_id k (act t) /\ inact t' = remove_id k (inact t)) \/ t' = t).
    { destruct (lookup k (act t)); [left; eapply Hgo; eassumption|].
      destruct (lookup k (inact t)); [left; eapply Hgo; eassumption|right; injection Ee; auto]. }
    destruct Hsh as [[Ha Hi]| ->]; [|right; right; split; [assumption|lia]].
    destruct (N.eq_dec k id) as [->|Hk].
    + right. left. apply in_list_false_iff.
      * rewrite Ha, Hi. apply nodup_remove_both. assumption.
      * rewrite Ha. intros Hc. apply remove_ids_incl in Hc. eapply nodup_app_disj; eassumption.
      * rewrite Hi. apply remove_not_in. eapply nodup_app_r; eassumption.
    + right. right. rewrite Hi. destruct (ids_remove_ahead id k (inact t) Hk Hin). split; [assumption|lia].
  - (* consumer step *)
    destruct (consume t s k w) as [[t' ou]|] eqn:Ec; cbn [bind] in E; [|discriminate]. injection E as <- _.
    unfold consume in Ec. destruct (negb (in_list t k)); [injection Ec as <- _; right; right; split; [assumption|lia]|].
    destruct (enabled t && negb (is_act t k)); [injection Ec as <- _; right; right; split; [assumption|lia]|].
    destruct (node_quota t k) as [q0|] eqn:Eq; cbn [bind] in Ec; [|discriminate].
    destruct (q0 =? 0).
    + unfold node_deactivate in Ec. destruct (lookup k (act t)) as [qk|] eqn:Lk; [|destruct (lookup k (inact t)); discriminate].
      cbn [bind] in Ec. injection Ec as <- _. cbn [with_quota inact]. right. right.
      unfold ids. rewrite map_app. fold (ids (inact t)). split; [apply in_or_app; left; assumption|].
      rewrite ahead_app_in by assumption. lia.
    + destruct (node_used t s k (N.min q0 w)) as [t''|] eqn:Eu; cbn [bind] in Ec; [|discriminate]. injection Ec as <- _.
      assert (Hn : N.min q0 w < w32) by (pose proof (node_quota_lt _ _ _ Eq); lia).
      destruct (node_used_spec t s k _ I Hn) as [(tx & Ex & _ & _ & _ & _ & _ & _ & Ha & Hi & _)|Ex]; rewrite Ex in Eu; [|discriminate].
      injection Eu as <-. right. right. rewrite Hi. split; [assumption|lia].
  - destruct (node_used t s k n) as [t'|] eqn:Eu; cbn [bind] in E; [|discriminate]. injection E as <- _.
    destruct (node_used_spec t s k n I V) as [(tx & Ex & _ & _ & _ & _ & _ & _ & Ha & Hi & _)|Ex]; rewrite Ex in Eu; [|discriminate].
    injection Eu as <-. right. right. rewrite Hi. split; [assumption|lia].
  - destruct (node_used_unthrottled t s n) as [t'|] eqn:Eu; cbn [bind] in E; [|discriminate]. injection E as <- _.
    unfold node_used_unthrottled in Eu. destruct (add_rate t s n) as [t1'|] eqn:Ea; cbn [bind] in Eu; [|discriminate].
    injection Eu as <-. cbn [inact]. unfold add_rate in Ea. destruct (rate_insert _ _ _); cbn [bind] in Ea; [|discriminate].
    injection Ea as <-. cbn [inact]. right. right. split; [assumption|lia].
  - (* update_quota *)
    destruct (update_quota t q) as [[[t' u] a]|] eqn:Eu; cbn [bind] in E; [|discriminate]. injection E as <- _.
    destruct (update_shape t q t' u a I En Eu) as (m & Hm & Ha & Hg).
    destruct (in_dec N.eq_dec id m) as [Him|Hnm].
    + left. rewrite Ha. apply in_or_app. right. assumption.
    + right. right. rewrite Hm in Hin. apply in_app_or in Hin as [Hc|Hin]; [contradiction|].
      split; [assumption|]. rewrite Hm, ahead_app_notin by assumption.
      destruct (N.leb_spec (minc t) (unalloc t + uu t)); [|lia].
      assert (m <> []). { apply Hg; [assumption|]. intros Hc. rewrite Hc in Hm. cbn in Hm. destruct m; [|discriminate]. cbn in Hm. rewrite <- Hm in Hin. destruct Hin. }
      destruct m; [contradiction|]. cbn [length]. lia.
Qed.

Lemma ev_step_keeps t s e t1 p : tl_inv t -> enabled t = true -> ev_valid t e -> ev_step t s e = Ok (t1, p) ->
  tl_inv t1 /\ enabled t1 = true.
Proof.
  intros I En V E. destruct e as [k|k|k w|k n|n|q]; cbn [ev_step ev_valid] in *.
  - injection E as <- _. destruct (insert_spec t k I V) as (A & _ & B & _). split; [assumption|congruence].
  - destruct (erase_spec t k I) as (t' & Ee & A & _ & B & _). rewrite Ee in E. cbn [bind] in E. injection E as <- _. split; [assumption|congruence].
  - destruct (consume_spec t s k w I) as [(t' & ou & Ee & A & B & _)|Ee]; rewrite Ee in E; cbn [bind] in E; [|discriminate].
    injection E as <- _. split; [assumption|congruence].
  - destruct (node_used_spec t s k n I V) as [(t' & Ee & A & _ & _ & B & _)|Ee]; rewrite Ee in E; cbn [bind] in E; [|discriminate].
    injection E as <- _. split; [assumption|congruence].
  - destruct (unthr_spec t s n I V) as [(t' & Ee & A & _ & B & _)|Ee]; rewrite Ee in E; cbn [bind] in E; [|discriminate].
    injection E as <- _. split; [assumption|congruence].
  - destruct V as [_ Hq]. destruct (update_spec t q I En Hq) as (t' & u & a & Ee & A & B & _). rewrite Ee in E. cbn [bind] in E.
    injection E as <- _. split; assumption.
Qed.

(* reactivation_liveness on a list: for EVERY valid event list, a connection waiting with n others
   ahead of it is active again (or gone) before the (n+1)-th update that finds min_chunk in the pool *)
Theorem list_reactivation_liveness : forall l t id, tl_inv t -> enabled t = true -> valid_run t l ->
  In id (ids (inact t)) -> (ahead id (ids (inact t)) < goods t l)%nat -> reactivated id t l.
Proof.
  induction l as [|[s e] l IH]; intros t id I En V Hin Hg; cbn [goods reactivated valid_run] in *; [lia|].
  destruct V as [V1 V2].
  destruct (ev_step t s e) as [[t1 p]|] eqn:E; [|lia].
  destruct (ev_step_keeps t s e t1 p I En V1 E) as [I1 En1].
  destruct (ev_progress id t s e t1 p I En V1 Hin E) as [A|[A|[A B]]]; [left; assumption|right; left; assumption|].
  right. right. apply IH; auto; [apply (V2 _ _ eq_refl)|lia].
Qed.

(* non-vacuity: a deactivated connection, two updates, the second finds the first one's grant *)
Example ex_liveness :
  match ev_run ex_list [(0, EvInsert 1); (0, EvConsume 1 100)] with
  | Ok (t, _) => enabled t = true /\ In 1 (ids (inact t)) /\
                 (ahead 1 (ids (inact t)) < goods t [(1, EvUpdate 3000); (2, EvUpdate 3000)]%N)%nat /\
                 valid_run t [(1, EvUpdate 3000); (2, EvUpdate 3000)]
  | Err _ => False
  end.
Proof.
  vm_compute. split; [reflexivity|]. split; [left; reflexivity|]. split; [constructor|].
  split; [split; [reflexivity|discriminate]|]. intros t' p E. injection E as <- <-.
  split; [split; [reflexivity|discriminate]|]. intros; exact I.
Qed.
