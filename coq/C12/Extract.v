From Coq Require Import Extraction ExtrOcamlBasic ZArith.
From LTV.C12 Require Import Model.
Set Extraction Optimize.
Extraction Language OCaml.
Extraction "extracted/c12_model.ml" init step run interval_of rate_slow_of Z.of_N.
