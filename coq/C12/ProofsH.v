(* C12 proofs, part H: the residual error class. Rate::insert's own range check (bytes > 2^28 in
   one call, or more than 2^40 accumulated in the rate span) is the only internal_error left;
   it is excluded under an explicit condition on the bytes reported between ticks. *)
From Coq Require Import List NArith Bool Lia PeanoNat.
From LTV.C12 Require Import ParamsGen PolicyGen.
From LTV.C12 Require Import Model ProofsA ProofsB ProofsC ProofsD ProofsE ProofsF ProofsG.
Import ListNotations.
Local Open Scope N_scope.

Definition RB : N := 268435456.        (* 2^28 *)
Definition RC : N := 1099511627776.    (* 2^40 *)
Lemma RB_eq : rate_limit_bytes = RB. Proof. reflexivity. Qed.
Lemma RC_eq : rate_limit_cur = RC. Proof. reflexivity. Qed.

Lemma drop_old_le rq lim cur : snd (drop_old rq lim cur) <= cur.
Proof.
  revert cur. induction rq as [|[t b] rq IH]; intros cur; cbn [drop_old snd]; [lia|].
  destruct (t <? lim); [|cbn; lia]. specialize (IH (cur - b)). lia.
Qed.

Lemma rate_discard_le r s : r_cur (rate_discard r s) <= r_cur r.
Proof.
  unfold rate_discard. pose proof (drop_old_le (rev (r_q r)) (s - r_span r) (r_cur r)) as H.
  destruct (drop_old (rev (r_q r)) (s - r_span r) (r_cur r)) as [rq c]. cbn [snd r_cur] in *. exact H.
Qed.

Lemma add_rate_ok t s n : n <= RB -> r_cur (rslow t) <= RC ->
  exists t', add_rate t s n = Ok t' /\ r_cur (rslow t') <= r_cur (rslow t) + n /\ radded t' = add32 (radded t) n.
Proof.
  intros Hn Hc. unfold add_rate, rate_insert. rewrite RB_eq, RC_eq.
  pose proof (rate_discard_le (rslow t) s) as Hd.
  destruct (N.ltb_spec RC (r_cur (rate_discard (rslow t) s))); [lia|].
  destruct (N.ltb_spec RB n); [lia|]. cbn [orb bind].
  eexists. split; [reflexivity|]. cbn [rslow radded r_cur]. split; [lia|reflexivity].
Qed.

(* where an internal_error of the consumer-side methods can come from *)
Lemma node_used_noerr t s k n t1 : add_rate t s n = Ok t1 -> node_used t s k n <> Err E_rate_insert.
Proof.
  intros E. unfold node_used. rewrite E. cbn [bind].
  repeat match goal with
         | |- context [if ?c then _ else _] => destruct c
         | |- context [match ?c with _ => _ end] => destruct c
         end; discriminate.
Qed.

Lemma unthr_noerr t s n t1 : add_rate t s n = Ok t1 -> node_used_unthrottled t s n <> Err E_rate_insert.
Proof. intros E. unfold node_used_unthrottled. rewrite E. cbn [bind]. discriminate. Qed.

Lemma consume_noerr t s k want : want <= RB -> r_cur (rslow t) <= RC -> consume t s k want <> Err E_rate_insert.
Proof.
  intros Hw Hc. unfold consume.
  destruct (negb (in_list t k)); [discriminate|]. destruct (enabled t && negb (is_act t k)); [discriminate|].
  destruct (node_quota t k) as [q|e] eqn:Eq; cbn [bind].
  - destruct (q =? 0).
    + unfold node_deactivate. destruct (lookup k (act t)); cbn [bind]; [discriminate|]. destruct (lookup k (inact t)); discriminate.
    + destruct (add_rate_ok t s (N.min q want) ltac:(lia) Hc) as (t1 & E1 & _).
      pose proof (node_used_noerr t s k _ _ E1) as H.
      destruct (node_used t s k (N.min q want)) as [t'|e] eqn:Eu; cbn [bind]; [discriminate|]. congruence.
  - unfold node_quota in Eq. destruct (negb (enabled t)); [discriminate|].
    destruct (lookup k (act t)); [discriminate|]. destruct (lookup k (inact t)); injection Eq as <-; discriminate.
Qed.

Lemma update_rr t q t' u a : update_quota t q = Ok (t', u, a) -> radded t' = radded t /\ rslow t' = rslow t.
Proof.
  unfold update_quota. destruct (negb (enabled t)); [discriminate|].
  destruct (uq_loop _ _ _ _ _ _) as [[[? ?] ?] ?]. destruct (q <? _); intros E; injection E as <- _ _; split; reflexivity.
Qed.

Lemma update_err t q e : update_quota t q = Err e -> e = E_update_disabled.
Proof.
  unfold update_quota. destruct (negb (enabled t)); [intros E; injection E; auto|].
  destruct (uq_loop _ _ _ _ _ _) as [[[? ?] ?] ?]. destruct (q <? _); discriminate.
Qed.

Lemma slave_rr s q f s' u a : slave_receive_quota s q f = Ok (s', u, a) ->
  radded (s_tl s') = radded (s_tl s) /\ rslow (s_tl s') = rslow (s_tl s).
Proof.
  unfold slave_receive_quota. destruct (_ <=? _).
  - destruct (update_quota (s_tl s) _) as [[[t' uu] aa]|e] eqn:E; cbn [bind]; [|discriminate].
    destruct (cap_used _ _). intros H. injection H as <- _ _. cbn [s_tl]. eapply update_rr; eassumption.
  - cbn [bind]. destruct (cap_used _ _). intros H. injection H as <- _ _. cbn [s_tl]. split; reflexivity.
Qed.

Lemma slave_err s q f e : slave_receive_quota s q f = Err e -> e = E_update_disabled.
Proof.
  unfold slave_receive_quota. destruct (_ <=? _).
  - destruct (update_quota (s_tl s) _) as [[[t' uu] aa]|e'] eqn:E; cbn [bind].
    + destruct (cap_used _ _). discriminate.
    + intros H. injection H as <-. eapply update_err; eassumption.
  - cbn [bind]. destruct (cap_used _ _). discriminate.
Qed.

Definition sumr (l : list slave) : N := fold_right (fun s a => radded (s_tl s) + a) 0 l.
Definition radded_ok (l : list slave) : Prop := Forall (fun s => radded (s_tl s) <= RB) l.

Lemma slaves_loop_noerr quota f ns : forall rest done un root idx acts,
  radded_ok rest -> r_cur (rslow root) + sumr rest <= RC ->
  slaves_loop quota f ns done rest un root idx acts <> Err E_rate_insert.
Proof.
  induction rest as [|s rest IH]; intros done un root idx acts Fr Hc; cbn [slaves_loop]; [discriminate|].
  destruct (un <? _); [discriminate|].
  inversion Fr as [|? ? Hs Fr']; subst. cbn [sumr fold_right] in Hc. fold (sumr rest) in Hc.
  destruct (slave_receive_quota s _ f) as [[[s' used] a]|e] eqn:E; cbn [bind].
  - destruct (slave_rr _ _ _ _ _ _ E) as [R1 _].
    unfold take_radded. cbn [fst snd]. rewrite R1.
    destruct (add_rate_ok root ns (radded (s_tl s)) Hs ltac:(lia)) as (root1 & Ea & Hr & _). rewrite Ea. cbn [bind].
    apply IH; [assumption|lia].
  - apply slave_err in E. subst. discriminate.
Qed.

Lemma sumr_app a b : sumr (a ++ b) = sumr a + sumr b.
Proof. induction a as [|s a IH]; cbn [sumr fold_right app] in *; [reflexivity|]. fold (sumr (a ++ b)) (sumr a). rewrite IH. lia. Qed.

Lemma receive_quota_noerr x q f : radded_ok (slaves x) -> r_cur (rslow (rtl x)) + sumr (slaves x) <= RC ->
  receive_quota x q f <> Err E_rate_insert.
Proof.
  intros Fr Hc. unfold receive_quota.
  destruct (firstn_skipn_Forall _ (next x) _ Fr) as [_ Fk].
  assert (Hs : sumr (skipn (next x) (slaves x)) <= sumr (slaves x)).
  { rewrite <- (firstn_skipn (next x) (slaves x)) at 2. rewrite sumr_app. lia. }
  pose proof (slaves_loop_noerr q f (secs (now x)) (skipn (next x) (slaves x)) (firstn (next x) (slaves x))
                (add32 (unused x) q) (rtl x) (next x) [] Fk ltac:(lia)) as H.
  destruct (slaves_loop _ _ _ _ _ _ _ _ _) as [[[[[done rest] un1] root1] acts]|e]; cbn [bind]; [|congruence].
  destruct rest.
  - destruct (_ <=? _).
    + destruct (update_quota root1 _) as [[[t' u] a]|e] eqn:E; cbn [bind].
      * destruct (cap_used _ _). discriminate.
      * apply update_err in E. subst. discriminate.
    + cbn [bind]. destruct (cap_used _ _). discriminate.
  - cbn [bind]. destruct (cap_used _ _). discriminate.
Qed.

Lemma receive_tick_noerr x : radded_ok (slaves x) -> r_cur (rslow (rtl x)) + sumr (slaves x) <= RC ->
  receive_tick x <> Err E_rate_insert.
Proof.
  intros Fr Hc. unfold receive_tick. destruct (_ <? _); [discriminate|].
  pose proof (receive_quota_noerr x (tick_quota (now x - last_tick x) (mrate x)) (tick_fraction (now x - last_tick x)) Fr Hc) as H.
  destruct (receive_quota _ _ _) as [[x' a]|e]; cbn [bind]; [discriminate|congruence].
Qed.

(* enable() resets the uncollected byte counters (commit 36e16d0): this is what makes the first
   ticks after a limit is set safe whatever was transferred while unlimited *)
Lemma enable_slaves_radded l l' : Forall (fun s => enabled (s_tl s) = false) l -> enable_slaves l = Ok l' ->
  Forall (fun s => radded (s_tl s) = 0) l'.
Proof.
  revert l'. induction l as [|s l IH]; intros l' F; cbn [enable_slaves].
  - intros E. injection E as <-. constructor.
  - inversion F as [|? ? Hd F']; subst.
    destruct (tl_enable (s_tl s)) as [t|e] eqn:Et; cbn [bind]; [|discriminate].
    destruct (enable_slaves l) as [r|e] eqn:Er; cbn [bind]; [|discriminate].
    intros E. injection E as <-. constructor; [|apply IH; auto].
    cbn [s_tl]. unfold tl_enable in Et. rewrite Hd in Et.
    destruct (act (s_tl s)); destruct (inact (s_tl s)); try discriminate; injection Et as <-; reflexivity.
Qed.

Lemma zero_radded_ok l : Forall (fun s => radded (s_tl s) = 0) l -> radded_ok l /\ sumr l = 0.
Proof.
  induction 1 as [|s l H _ [IH1 IH2]]; [split; [constructor|reflexivity]|].
  split; [constructor; [rewrite H; unfold RB; lia|assumption]|]. cbn [sumr fold_right]. fold (sumr l). lia.
Qed.

Lemma tl_enable_err t e : tl_enable t = Err e -> e = E_enable_split.
Proof. unfold tl_enable. destruct (enabled t); [discriminate|]. destruct (act t); destruct (inact t); try discriminate. intros H; injection H; auto. Qed.

Lemma tl_enable_rslow t t' : tl_enable t = Ok t' -> rslow t' = rslow t.
Proof. unfold tl_enable. destruct (enabled t); [intros H; injection H as <-; reflexivity|]. destruct (act t); destruct (inact t); try discriminate; intros H; injection H as <-; reflexivity. Qed.

Lemma enable_slaves_err l e : enable_slaves l = Err e -> e = E_enable_split.
Proof.
  induction l as [|s l IH]; cbn [enable_slaves]; [discriminate|].
  destruct (tl_enable (s_tl s)) as [t|e'] eqn:Et; cbn [bind]; [|intros H; injection H as <-; eapply tl_enable_err; eassumption].
  destruct (enable_slaves l) as [r|e'']; cbn [bind]; [discriminate|]. intros H; injection H as <-. auto.
Qed.

Lemma ti_enable_noerr x : Forall (fun s => enabled (s_tl s) = false) (slaves x) -> r_cur (rslow (rtl x)) <= RC ->
  ti_enable x <> Err E_rate_insert.
Proof.
  intros Fd Hc. unfold ti_enable.
  destruct (tl_enable (rtl x)) as [r|e] eqn:Er; cbn [bind]; [|apply tl_enable_err in Er; subst; discriminate].
  destruct (enable_slaves (slaves x)) as [sl|e] eqn:Es; cbn [bind]; [|apply enable_slaves_err in Es; subst; discriminate].
  destruct (zero_radded_ok _ (enable_slaves_radded _ _ Fd Es)) as [Z1 Z2].
  apply receive_tick_noerr; cbn [rtl slaves]; [assumption|]. rewrite (tl_enable_rslow _ _ Er), Z2. lia.
Qed.

(* the explicit input class that is carved out: before each op, Rate's own bounds are respected by
   the bytes about to be reported. Note that for the enabling set_max_rate NOTHING is asked of the
   slaves' uncollected counters. *)
Definition rate_preb (x : st) (o : op) : bool :=
  match o with
  | OUsed l _ n | OUnthr l n | OConsume l _ n =>
      (n <=? RB) && match get_tl x l with Some t => r_cur (rslow t) <=? RC | None => true end
  | OTick _ => forallb (fun s => radded (s_tl s) <=? RB) (slaves x) && (r_cur (rslow (rtl x)) + sumr (slaves x) <=? RC)
  | OSetRate O _ => r_cur (rslow (rtl x)) <=? RC
  | _ => true
  end.

Lemma on_list_noerr x l f : (forall t, get_tl x l = Some t -> f t <> Err E_rate_insert) -> on_list x l f <> Err E_rate_insert.
Proof.
  intros H. unfold on_list. destruct (get_tl x l) as [t|] eqn:Eg; [|discriminate].
  specialize (H t eq_refl). destruct (f t) as [[t' o]|e]; cbn [bind]; [discriminate|congruence].
Qed.

Lemma step_noerr x o : sinv x -> rate_preb x o = true -> step x o <> Err E_rate_insert.
Proof.
  intros S R. destruct o as [l k|l k|l k|l k|l k n|l n|dt|dt|l v| |l k want]; cbn [step rate_preb] in *.
  - apply on_list_noerr. intros; discriminate.
  - apply on_list_noerr. intros t _. unfold tl_erase.
    repeat match goal with
           | |- context [if ?c then _ else _] => destruct c
           | |- context [match ?c with _ => _ end] => destruct c
           end; cbn [bind]; discriminate.
  - apply on_list_noerr. intros t _. unfold node_quota.
    repeat match goal with
           | |- context [if ?c then _ else _] => destruct c
           | |- context [match ?c with _ => _ end] => destruct c
           end; cbn [bind]; discriminate.
  - apply on_list_noerr. intros t _. unfold node_deactivate.
    repeat match goal with
           | |- context [match ?c with _ => _ end] => destruct c
           end; cbn [bind]; discriminate.
  - apply andb_prop in R as [R1 R2]. apply N.leb_le in R1. apply on_list_noerr. intros t Eg. rewrite Eg in R2. apply N.leb_le in R2.
    destruct (add_rate_ok t (secs (now x)) n R1 R2) as (t1 & E1 & _). pose proof (node_used_noerr t (secs (now x)) k n t1 E1).
    destruct (node_used t (secs (now x)) k n); cbn [bind]; [discriminate|congruence].
  - apply andb_prop in R as [R1 R2]. apply N.leb_le in R1. apply on_list_noerr. intros t Eg. rewrite Eg in R2. apply N.leb_le in R2.
    destruct (add_rate_ok t (secs (now x)) n R1 R2) as (t1 & E1 & _). pose proof (unthr_noerr t (secs (now x)) n t1 E1).
    destruct (node_used_unthrottled t (secs (now x)) n); cbn [bind]; [discriminate|congruence].
  - apply andb_prop in R as [R1 R2]. apply N.leb_le in R2.
    assert (Fr : radded_ok (slaves x)).
    { unfold radded_ok. rewrite Forall_forall. rewrite forallb_forall in R1. intros s Hs. apply N.leb_le. auto. }
    pose proof (receive_tick_noerr (advance x dt) Fr R2) as H.
    destruct (receive_tick (advance x dt)) as [[x' a]|e]; cbn [bind]; [discriminate|congruence].
  - discriminate.
  - destruct l as [|i]; [|discriminate]. apply N.leb_le in R. unfold set_rate_root.
    destruct (v =? mrate x); [discriminate|]. destruct (uint_max - 1 <? v); [discriminate|].
    destruct (N.eqb_spec (mrate x) 0) as [Hz|Hnz].
    + set (x1 := {| now := now x; mrate := v; unused := unused x; next := next x; last_tick := last_tick x;
                    rtl := set_chunks (rtl x) (calc_min_chunk v) (calc_max_chunk v); slaves := slaves x |}).
      assert (Hd : enabled (rtl x) = false). { rewrite (s_en _ S), Hz. reflexivity. }
      assert (H : ti_enable x1 <> Err E_rate_insert).
      { apply ti_enable_noerr; unfold x1; cbn [rtl slaves set_chunks rslow]; [|assumption].
        pose proof (s_slaves _ S) as F. rewrite Hd in F. eapply Forall_impl; [|exact F]. intros s (_ & B & _). exact B. }
      destruct (ti_enable x1) as [[x2 a]|e]; cbn [bind]; [discriminate|congruence].
    + destruct (v =? 0); [destruct (ti_disable _); discriminate|discriminate].
  - unfold create_slave. destruct (enabled (rtl x)).
    + destruct (tl_enable tl_init) as [t|e] eqn:E; cbn [bind]; [discriminate|]. apply tl_enable_err in E. subst. discriminate.
    + cbn [bind]. discriminate.
  - apply andb_prop in R as [R1 R2]. apply N.leb_le in R1. apply on_list_noerr. intros t Eg. rewrite Eg in R2. apply N.leb_le in R2.
    apply consume_noerr; assumption.
Qed.

Fixpoint rate_quietb (x : st) (ops : list op) : bool :=
  match ops with
  | [] => true
  | o :: r => rate_preb x o && match step x o with Ok (x', _) => rate_quietb x' r | Err _ => true end
  end.

(* no_internal_error at full strength: every op list a client can produce, on which Rate's own
   argument range is respected (<= 2^28 bytes reported to one list in one call / between two
   collections by a tick, <= 2^40 in the rate span), runs without ANY internal_error. *)
Theorem no_internal_error : forall ops x, sinv x -> valid_opsb x ops = true -> rate_quietb x ops = true ->
  snd (run x ops) = None.
Proof.
  induction ops as [|o ops IH]; intros x S V R; cbn [run valid_opsb rate_quietb] in *; [reflexivity|].
  apply andb_prop in V as [V1 V2]. apply andb_prop in R as [R1 R2].
  destruct (step_spec x o S V1) as [(x' & ou & E & S' & _)|E].
  - rewrite E in *. specialize (IH x' S' V2 R2). destruct (run x' ops) as [tr e]. cbn [snd] in *. exact IH.
  - exfalso. exact (step_noerr x o S R1 E).
Qed.

(* the op list that raised internal_error before 36e16d0 is inside the hypothesis class *)
Example no_internal_error_covers_old_witness :
  valid_opsb init witness_rate_added = true /\ rate_quietb init witness_rate_added = true.
Proof. split; vm_compute; reflexivity. Qed.
