(* C12 proofs, part A: arithmetic, list helpers, ThrottleList invariant and its preservation by
   every ThrottleList method under the consumers' discipline. *)
From Coq Require Import List NArith Bool Lia Permutation.
From LTV.C12 Require Import ParamsGen PolicyGen.
From LTV.C12 Require Import Model.
Import ListNotations.
Local Open Scope N_scope.

Ltac splits := repeat match goal with |- _ /\ _ => split end.

(* ------------------------------------------------------------------ bounds used by the theorems *)
Definition cap : N := 65536.          (* largest max_chunk of the chunk table *)
Definition Nmax : N := 1024.          (* nodes per list *)
Definition Qmax : N := 67108864.      (* 2^26: quota handed to one list by one tick *)
Definition HB : N := cap * Nmax + 2 * Qmax.
Definition Kmax : N := 8.             (* slaves per root *)

Lemma w32_val : w32 = 4294967296. Proof. reflexivity. Qed.
Lemma HB_val : HB = 201326592. Proof. reflexivity. Qed.

Lemma add32_small a b : a + b < w32 -> add32 a b = a + b.
Proof. intros; unfold add32; apply N.mod_small; assumption. Qed.

Definition signed_used (q e : N) : N := if e =? 0 then q else sub32 q e.

Lemma sub32_small a b : b <= a -> a < w32 -> sub32 a b = a - b.
Proof.
  intros Hb Ha. unfold sub32.
  assert (Hbw : b < w32) by lia.
  rewrite (N.mod_small b w32) by assumption.
  replace (a + w32 - b) with ((a - b) + 1 * w32) by lia.
  rewrite N.mod_add by (rewrite w32_val; lia).
  apply N.mod_small. lia.
Qed.

(* subtracting the int32 "used" result (q - e, possibly negative) from a uint32 counter *)
Lemma sub32_signed un q e : q <= un -> un < w32 -> e < w32 -> un + e - q < w32 ->
  sub32 un (signed_used q e) = un + e - q.
Proof.
  intros H1 H2 H3 H4. unfold signed_used. destruct (N.eqb_spec e 0) as [->|He].
  - rewrite sub32_small by lia. lia.
  - destruct (N.le_gt_cases e q) as [Hle|Hgt].
    + rewrite (sub32_small q e) by lia. rewrite sub32_small by lia. lia.
    + assert (Hv : sub32 q e = q + w32 - e).
      { unfold sub32. rewrite (N.mod_small e w32) by assumption. apply N.mod_small. lia. }
      rewrite Hv. unfold sub32. rewrite (N.mod_small (q + w32 - e) w32) by lia.
      replace (un + w32 - (q + w32 - e)) with (un + e - q) by lia. apply N.mod_small. assumption.
Qed.

Lemma cap_used_spec q un : un < w32 ->
  exists e, cap_used q un = (signed_used q e, un - e) /\ e <= un /\ un - e <= q /\ (un <= q -> e = 0) /\ (q < un -> e = un - q).
Proof.
  intros Hu. unfold cap_used. destruct (N.ltb_spec q un) as [Hlt|Hge].
  - exists (un - q). unfold signed_used. destruct (N.eqb_spec (un - q) 0); [lia|].
    rewrite (sub32_small un q) by lia. replace (un - (un - q)) with q by lia. splits; try reflexivity; lia.
  - exists 0. unfold signed_used. cbn [N.eqb]. rewrite N.sub_0_r. splits; try reflexivity; lia.
Qed.

(* ------------------------------------------------------------------ node lists *)
Definition sumq (l : list (N * N)) : N := fold_right (fun p a => snd p + a) 0 l.
Definition ids (l : list (N * N)) : list N := map fst l.
Definition nodes (t : tl) : list (N * N) := act t ++ inact t.
Definition capped (l : list (N * N)) : Prop := Forall (fun p => snd p <= cap) l.

Lemma sumq_app a b : sumq (a ++ b) = sumq a + sumq b.
Proof. induction a as [|[i q] a IH]; cbn [sumq fold_right app snd] in *; [reflexivity|]. fold (sumq (a ++ b)) (sumq a). rewrite IH. lia. Qed.

Lemma sumq_cons i q l : sumq ((i, q) :: l) = q + sumq l.
Proof. reflexivity. Qed.

Lemma sumq_capped l : capped l -> sumq l <= cap * N.of_nat (length l).
Proof.
  induction 1 as [|[i q] l Hq _ IH]; cbn [length]; [cbn; lia|].
  rewrite sumq_cons. cbn [snd] in Hq. lia.
Qed.

Lemma lookup_in id l q : lookup id l = Some q -> In id (ids l).
Proof.
  induction l as [|[i v] l IH]; cbn [lookup ids map fst]; [discriminate|].
  destruct (N.eqb_spec i id); intros H; [left; assumption|right; apply IH; assumption].
Qed.

Lemma lookup_none id l : lookup id l = None -> ~ In id (ids l).
Proof.
  induction l as [|[i v] l IH]; cbn [lookup ids map fst]; [intros _ []|].
  destruct (N.eqb_spec i id); [discriminate|]. intros H [E|E]; [contradiction|]. apply IH; assumption.
Qed.

Lemma lookup_le_sumq id l q : lookup id l = Some q -> q <= sumq l.
Proof.
  induction l as [|[i v] l IH]; cbn [lookup]; [discriminate|].
  rewrite sumq_cons. destruct (i =? id); intros H.
  - injection H as ->. lia.
  - specialize (IH H). lia.
Qed.

Lemma lookup_capped id l q : capped l -> lookup id l = Some q -> q <= cap.
Proof.
  induction 1 as [|[i v] l Hq _ IH]; cbn [lookup]; [discriminate|].
  destruct (i =? id); intros H; [injection H as <-; exact Hq|auto].
Qed.

Lemma setq_sumq id v l q : lookup id l = Some q -> sumq (setq id v l) + q = sumq l + v.
Proof.
  induction l as [|[i w] l IH]; cbn [lookup setq]; [discriminate|].
  destruct (i =? id); intros H; rewrite !sumq_cons.
  - injection H as ->. lia.
  - specialize (IH H). lia.
Qed.

Lemma setq_ids id v l : ids (setq id v l) = ids l.
Proof.
  induction l as [|[i w] l IH]; cbn [setq ids map fst]; [reflexivity|].
  destruct (i =? id); cbn [ids map fst]; [reflexivity|]. f_equal. exact IH.
Qed.

Lemma setq_length id v l : length (setq id v l) = length l.
Proof. rewrite <- (map_length fst), <- (map_length fst l). apply (f_equal (@length N)). apply setq_ids. Qed.

Lemma setq_capped id v l : capped l -> v <= cap -> capped (setq id v l).
Proof.
  unfold capped. induction 1 as [|[i w] l Hq Hl IH]; cbn [setq]; intros Hv; [constructor|].
  destruct (i =? id); constructor; cbn [snd] in *; auto.
Qed.

Lemma remove_sumq id l q : lookup id l = Some q -> sumq (remove_id id l) + q = sumq l.
Proof.
  induction l as [|[i w] l IH]; cbn [lookup remove_id]; [discriminate|].
  destruct (i =? id); intros H; rewrite ?sumq_cons.
  - injection H as ->. lia.
  - specialize (IH H). lia.
Qed.

Lemma remove_none id l : lookup id l = None -> remove_id id l = l.
Proof.
  induction l as [|[i w] l IH]; cbn [lookup remove_id]; [reflexivity|].
  destruct (i =? id); [discriminate|]. intros H. f_equal. auto.
Qed.

Lemma remove_length id l q : lookup id l = Some q -> S (length (remove_id id l)) = length l.
Proof.
  induction l as [|[i w] l IH]; cbn [lookup remove_id]; [discriminate|].
  destruct (i =? id); intros H; cbn [length]; [reflexivity|]. f_equal. auto.
Qed.

Lemma remove_capped id l : capped l -> capped (remove_id id l).
Proof.
  induction 1 as [|[i w] l Hq Hl IH]; cbn [remove_id]; [constructor|].
  destruct (i =? id); [assumption|constructor; assumption].
Qed.

Lemma remove_ids_incl id l x : In x (ids (remove_id id l)) -> In x (ids l).
Proof.
  induction l as [|[i w] l IH]; cbn [remove_id ids map fst]; [auto|].
  destruct (i =? id); cbn [ids map fst In]; [auto|]. intros [E|E]; [left; assumption|right; apply IH; assumption].
Qed.

Lemma remove_nodup id l : NoDup (ids l) -> NoDup (ids (remove_id id l)).
Proof.
  induction l as [|[i w] l IH]; cbn [remove_id ids map fst]; [auto|].
  intros H. inversion H as [|? ? Hn Hd]; subst.
  destruct (i =? id); [assumption|]. cbn [ids map fst]. constructor; [|apply IH; assumption].
  intros Hc. apply Hn. eapply remove_ids_incl; eassumption.
Qed.

Lemma remove_not_in id l : NoDup (ids l) -> ~ In id (ids (remove_id id l)).
Proof.
  induction l as [|[i w] l IH]; cbn [remove_id ids map fst]; [auto|].
  intros H. inversion H as [|? ? Hn Hd]; subst.
  destruct (N.eqb_spec i id); [subst; assumption|].
  cbn [ids map fst In]. intros [E|E]; [contradiction|]. apply IH; assumption.
Qed.

Lemma zeroq_ids l : ids (zeroq l) = ids l.
Proof. unfold zeroq, ids. rewrite map_map. reflexivity. Qed.
Lemma zeroq_sumq l : sumq (zeroq l) = 0.
Proof. induction l as [|[i w] l IH]; [reflexivity|]. cbn [zeroq map]. rewrite sumq_cons. fold (zeroq l). rewrite IH. reflexivity. Qed.
Lemma zeroq_zero l : Forall (fun p : N * N => snd p = 0) (zeroq l).
Proof. induction l; constructor; auto. Qed.
Lemma zero_capped l : Forall (fun p : N * N => snd p = 0) l -> capped l.
Proof. intros H. eapply Forall_impl; [|exact H]. cbn. intros a ->. unfold cap. lia. Qed.
Lemma zero_sumq l : Forall (fun p : N * N => snd p = 0) l -> sumq l = 0.
Proof. induction 1 as [|[i w] l Hq _ IH]; [reflexivity|]. rewrite sumq_cons. cbn in Hq. lia. Qed.

(* ------------------------------------------------------------------ allocate_quota *)
Lemma alloc_spec mn mx q o u q' o' u' :
  mn <= mx -> mx <= cap -> o + u < w32 ->
  alloc mn mx q o u = (q', o', u') ->
  exists g, q' = q + g /\ o' = o + g /\ u = u' + g /\
            (q' < mn -> u' = 0) /\ (q <= cap -> q' <= cap).
Proof.
  intros Hmm Hcap Hw. unfold alloc.
  destruct (N.leb_spec mn q) as [Hge|Hlt].
  - intros E; injection E as <- <- <-. exists 0. repeat split; try lia.
  - intros E.
    assert (Hs : sub32 mx q = mx - q) by (apply sub32_small; rewrite ?w32_val; unfold cap in *; lia).
    rewrite Hs in E.
    set (g := N.min (mx - q) u) in *.
    assert (Hg1 : g <= mx - q) by (unfold g; lia).
    assert (Hg2 : g <= u) by (unfold g; lia).
    rewrite add32_small in E by (rewrite w32_val; unfold cap in *; lia).
    rewrite add32_small in E by lia.
    rewrite sub32_small in E by lia.
    injection E as <- <- <-. exists g. repeat split; try lia.
Qed.

(* ------------------------------------------------------------------ the update_quota loop *)
Lemma uq_loop_spec mn mx : mn <= mx -> mx <= cap -> 0 < mn ->
  forall ina o u moved moved' ina' o' u',
  o + u < w32 -> capped ina -> capped moved ->
  uq_loop mn mx ina o u moved = (moved', ina', o', u') ->
  ids (rev moved') ++ ids ina' = ids (rev moved) ++ ids ina /\
  o' + u' = o + u /\
  o' + sumq moved + sumq ina = o + sumq moved' + sumq ina' /\
  capped moved' /\ capped ina' /\
  (length moved' + length ina' = length moved + length ina)%nat /\
  (ina' = [] \/ (u' = 0 /\ exists id q r, ina' = (id, q) :: r /\ q < mn)) /\
  (exists new, moved' = new ++ moved /\ Forall (fun p => mn <= snd p) new) /\
  (* the head of the inactive queue is activated iff it can be brought up to min_chunk *)
  (forall id q r, ina = (id, q) :: r -> mn <= q + u -> exists q1, In (id, q1) moved' /\ mn <= q1).
Proof.
  intros Hmm Hcap Hmn. induction ina as [|[id q] rest IH]; intros o u moved moved' ina' o' u' Hw Hci Hcm; cbn [uq_loop].
  - intros E; injection E as <- <- <- <-. repeat split; auto; try lia.
    + exists []. split; [reflexivity|constructor].
    + intros ? ? ? Hx; discriminate.
  - destruct (alloc mn mx q o u) as [[q1 o1] u1] eqn:Ea.
    destruct (alloc_spec _ _ _ _ _ _ _ _ Hmm Hcap Hw Ea) as (g & -> & -> & Hu & Hz & Hc).
    inversion Hci as [|? ? Hq Hci']; subst. cbn [snd] in Hq. specialize (Hc Hq).
    destruct (N.ltb_spec (q + g) mn) as [Hlt|Hge].
    + intros E; injection E as <- <- <- <-.
      rewrite !sumq_cons. repeat split; try lia; auto.
      * constructor; auto.
      * right. split; [auto|]. exists id, (q + g), rest. auto.
      * exists []. split; [reflexivity|constructor].
      * intros ? ? ? Hx Hm. injection Hx as <- <- <-. specialize (Hz Hlt). lia.
    + intros E. apply IH in E; [|lia|assumption|constructor; auto].
      destruct E as (Hid & Hou & Hsum & Hc1 & Hc2 & Hlen & Hre & (new & Hnew & Hfn) & _).
      rewrite sumq_cons in *. cbn [rev ids length] in *.
      repeat split; try lia; auto.
      * rewrite Hid. unfold ids. rewrite map_app, <- app_assoc. reflexivity.
      * exists (new ++ [(id, q + g)]). split; [rewrite <- app_assoc; exact Hnew|].
        apply Forall_app; split; [assumption|constructor; [cbn; lia|constructor]].
      * intros ? ? ? Hx Hm. injection Hx as <- <- <-. exists (q + g). split; [|lia].
        rewrite Hnew. apply in_or_app. right. left. reflexivity.
Qed.

(* ------------------------------------------------------------------ the ThrottleList invariant *)
Record tl_inv (t : tl) : Prop := {
  i_out : outst t = sumq (nodes t);                         (* conservation *)
  i_size : size t = N.of_nat (length (nodes t));
  i_nodup : NoDup (ids (nodes t));                          (* active/inactive split is a partition *)
  i_cap : capped (nodes t);
  i_chunk : 0 < minc t /\ minc t <= maxc t /\ maxc t <= cap;
  i_count : N.of_nat (length (nodes t)) <= Nmax;
  i_held : outst t + unalloc t + uu t <= HB;
  i_dis : enabled t = false ->
          unalloc t = 0 /\ uu t = 0 /\ inact t = [] /\ Forall (fun p => snd p = 0) (act t) }.

Definition held (t : tl) : N := outst t + unalloc t + uu t.

Lemma tl_inv_outst_le t : tl_inv t -> outst t <= cap * Nmax.
Proof.
  intros I. rewrite (i_out _ I). pose proof (sumq_capped _ (i_cap _ I)). pose proof (i_count _ I).
  unfold cap, Nmax in *. lia.
Qed.

Lemma chunk_lookup_bounds tab d r :
  forallb (fun p => (0 <? snd p) && (snd p <=? 16384)) tab = true -> 0 < d -> d <= 16384 ->
  0 < chunk_lookup tab d r /\ chunk_lookup tab d r <= 16384.
Proof.
  induction tab as [|[lim v] tab IH]; cbn [chunk_lookup forallb]; intros H Hd1 Hd2; [lia|].
  apply andb_prop in H as [H1 H2]. apply andb_prop in H1 as [Ha Hb]. cbn [snd] in *.
  destruct (r <=? lim); [|auto]. apply N.ltb_lt in Ha. apply N.leb_le in Hb. lia.
Qed.

(* side conditions on the PROBED policy/constants (coq/C12/PolicyGen.v); everything below is proved for
   every policy table that passes this check, so the theorems keep covering a tree whose chunk-size
   policy, initial chunk sizes or minimal tick interval changed within these conditions *)
Definition probe_ok (p : N * (N * N)) : bool :=
  (0 <? fst (snd p)) && (fst (snd p) <=? snd (snd p)) && (snd (snd p) <=? 65536).
Definition params_ok : bool :=
  forallb probe_ok Policy.chunk_probe &&
  (0 <? Policy.list_min_init) && (Policy.list_min_init <=? Policy.list_max_init) && (Policy.list_max_init <=? 65536) &&
  (Policy.tick_min_us <=? 1000000) && (Policy.fraction_bits =? 16) &&
  (Policy.rate_bytes_shift =? 28) && (Policy.rate_cur_shift =? 40).
Lemma params_ok_now : params_ok = true.
Proof. vm_compute. reflexivity. Qed.

Lemma assoc_rate_in r tab p : assoc_rate r tab = Some p -> In (r, p) tab.
Proof.
  induction tab as [|[r0 p0] tab IH]; cbn [assoc_rate]; [discriminate|].
  destruct (N.eqb_spec r0 r) as [->|]; [intros E; injection E as ->; left; reflexivity|right; auto].
Qed.

Lemma fb_chunks r : 0 < fb_min_chunk r /\ fb_min_chunk r <= fb_max_chunk r /\ fb_max_chunk r <= cap.
Proof.
  assert (Hm : 0 < fb_min_chunk r /\ fb_min_chunk r <= 16384).
  { unfold fb_min_chunk. destruct (_ && _) eqn:E; [|lia]. apply andb_prop in E as [A B].
    apply N.ltb_lt in A. apply N.leb_le in B. lia. }
  unfold fb_max_chunk, cap. destruct (_ && _) eqn:E; [|lia]. apply andb_prop in E as [A B].
  apply N.leb_le in A, B. lia.
Qed.

Lemma calc_chunks r :
  0 < calc_min_chunk r /\ calc_min_chunk r <= calc_max_chunk r /\ calc_max_chunk r <= cap.
Proof.
  unfold calc_min_chunk, calc_max_chunk. destruct (assoc_rate r Policy.chunk_probe) as [p|] eqn:E; [|apply fb_chunks].
  pose proof params_ok_now as P. unfold params_ok in P. do 7 (apply andb_prop in P as [P ?]).
  rewrite forallb_forall in P. specialize (P _ (assoc_rate_in _ _ _ E)). unfold probe_ok in P. cbn [snd fst] in P.
  apply andb_prop in P as [P C]. apply andb_prop in P as [A B].
  apply N.ltb_lt in A. apply N.leb_le in B, C. unfold cap. lia.
Qed.

Lemma tick_min_le : Policy.tick_min_us <= 1000000.
Proof.
  pose proof params_ok_now as P. unfold params_ok in P. do 7 (apply andb_prop in P as [P ?]).
  match goal with H : (Policy.tick_min_us <=? 1000000) = true |- _ => apply N.leb_le in H; exact H end.
Qed.

Lemma tl_init_inv : tl_inv tl_init.
Proof.
  constructor.
  - reflexivity.
  - reflexivity.
  - constructor.
  - constructor.
  - repeat split; cbv; congruence.
  - cbv; congruence.
  - cbv; congruence.
  - intros _. repeat split; constructor.
Qed.
