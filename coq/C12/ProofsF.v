(* C12 proofs, part F: every ThrottleInternal-level op preserves the system invariant; global
   conservation and the rate bound over a window of ticks; no internal_error. *)
From Coq Require Import List NArith Bool Lia PeanoNat.
From LTV.C12 Require Import ParamsGen PolicyGen.
From LTV.C12 Require Import Model ProofsA ProofsB ProofsC ProofsD ProofsE.
Import ListNotations.
Local Open Scope N_scope.



(* ------------------------------------------------------------------ upd_nth *)
Lemma upd_nth_length {A} (f : A -> A) l i : length (upd_nth i l f) = length l.
Proof. revert i. induction l as [|a l IH]; intros [|i]; cbn [upd_nth length]; auto. Qed.

Lemma Forall_upd_nth {A} (P : A -> Prop) (f : A -> A) l i a :
  Forall P l -> nth_error l i = Some a -> P (f a) -> Forall P (upd_nth i l f).
Proof.
  revert i. induction l as [|b l IH]; intros [|i] H E Pf; cbn [upd_nth nth_error] in *; try discriminate.
  - injection E as ->. inversion H; subst. constructor; assumption.
  - inversion H; subst. constructor; [assumption|eapply IH; eassumption].
Qed.

Lemma Hs_upd_nth f l i a : nth_error l i = Some a -> Hs (upd_nth i l f) + Hof a = Hs l + Hof (f a).
Proof.
  revert i. induction l as [|b l IH]; intros [|i] E; cbn [upd_nth nth_error] in *; try discriminate.
  - injection E as ->. rewrite !Hs_cons. lia.
  - rewrite !Hs_cons. specialize (IH _ E). lia.
Qed.

Lemma nth_error_Forall {A} (P : A -> Prop) l i a : Forall P l -> nth_error l i = Some a -> P a.
Proof. intros H E. rewrite Forall_forall in H. apply H. eapply nth_error_In; eassumption. Qed.

(* ------------------------------------------------------------------ an op on one list *)
Lemma put_tl_spec x l t t' : sinv x -> get_tl x l = Some t -> tl_inv t' -> enabled t' = enabled t ->
  sinv (put_tl x l t') /\ G (put_tl x l t') + held t = G x + held t' /\
  now (put_tl x l t') = now x /\ mrate (put_tl x l t') = mrate x /\ last_tick (put_tl x l t') = last_tick x /\
  enabled (rtl (put_tl x l t')) = enabled (rtl x).
Proof.
  intros [S1 S2 S3 S4 S5 S6 S7 S8] Eg I' En. destruct l as [|i]; cbn [get_tl put_tl] in *.
  - injection Eg as <-. unfold with_lists, G. cbn [rtl slaves unused now mrate last_tick next].
    split; [constructor; cbn [rtl slaves unused now mrate last_tick next]; auto; try congruence;
            try (rewrite En; assumption)|splits; auto; lia].
  - destruct (nth_error (slaves x) i) as [s|] eqn:En'; [|discriminate]. injection Eg as <-.
    pose proof (nth_error_Forall _ _ _ _ S2 En') as (A & B & C).
    unfold with_lists, G. cbn [rtl slaves unused now mrate last_tick next].
    split; [constructor; cbn [rtl slaves unused now mrate last_tick next]; rewrite ?upd_nth_length; auto|].
    + eapply Forall_upd_nth; [eassumption|eassumption|]. unfold slv_inv. cbn [s_tl s_unused]. splits; auto. congruence.
    + pose proof (Hs_upd_nth (fun s0 => {| s_rate := s_rate s0; s_unused := s_unused s0; s_tl := t' |}) _ _ _ En') as H.
      unfold Hof in H. cbn [s_tl s_unused] in H. splits; auto. lia.
Qed.

Lemma get_tl_enabled x l t : sinv x -> get_tl x l = Some t -> enabled t = enabled (rtl x).
Proof.
  intros S Eg. destruct l as [|i]; cbn [get_tl] in Eg.
  - injection Eg as <-. reflexivity.
  - destruct (nth_error (slaves x) i) as [s|] eqn:En'; [|discriminate]. injection Eg as <-.
    pose proof (nth_error_Forall _ _ _ _ (s_slaves _ S) En') as (A & B & C). exact B.
Qed.

Lemma get_tl_inv x l t : sinv x -> get_tl x l = Some t -> tl_inv t.
Proof.
  intros S Eg. destruct l as [|i]; cbn [get_tl] in Eg.
  - injection Eg as <-. apply (s_root _ S).
  - destruct (nth_error (slaves x) i) as [s|] eqn:En'; [|discriminate]. injection Eg as <-.
    pose proof (nth_error_Forall _ _ _ _ (s_slaves _ S) En') as (A & B & C). exact A.
Qed.

(* ------------------------------------------------------------------ receive_tick / enable / disable *)
Lemma sinv_tick_pre x : sinv x -> enabled (rtl x) = true -> tick_pre x.
Proof. intros [S1 S2 S3 S4 S5 S6 S7 S8] En. unfold tick_pre. rewrite En in S2. splits; auto. Qed.

Lemma receive_tick_spec x : tick_pre x -> mrate x <> 0 -> mrate x < w32 -> 1000000 <= now x ->
  last_tick x + Policy.tick_min_us <= now x -> tick_quota (now x - last_tick x) (mrate x) <= Qmax ->
  (exists x' acts, receive_tick x = Ok (x', acts) /\ sinv x' /\ now x' = now x /\ mrate x' = mrate x /\
     last_tick x' = now x /\
     G x' <= G x + tick_quota (now x - last_tick x) (mrate x) /\
     held (rtl x') <= held (rtl x) + need_of (tick_quota (now x - last_tick x) (mrate x)) (tick_fraction (now x - last_tick x)) (mrate x) /\
     Forall2 (Rsl (tick_quota (now x - last_tick x) (mrate x)) (tick_fraction (now x - last_tick x))) (slaves x) (slaves x'))
  \/ receive_tick x = Err E_rate_insert.
Proof.
  intros P Hr Hrl Hnow Ht Hq. unfold receive_tick.
  destruct (N.ltb_spec (now x) (last_tick x + Policy.tick_min_us)); [lia|].
  destruct (receive_quota_spec x _ (tick_fraction (now x - last_tick x)) P Hq)
    as [(x' & acts & E & (Q1 & Q2 & Q3 & Q4 & Q5 & Q6) & Hn & Hm & Hl & HG & Hh & _ & HF)|E]; rewrite E; cbn [bind];
    [left|right; reflexivity].
  eexists _, _. split; [reflexivity|]. cbn [now mrate last_tick rtl slaves].
  split; [constructor; cbn [now mrate last_tick rtl slaves unused next]; auto; try congruence;
          try (rewrite Q2; assumption); try lia|].
  - rewrite Q2, Hm. destruct (N.eqb_spec (mrate x) 0); [contradiction|reflexivity].
  - splits; auto.
Qed.

Lemma enable_slaves_spec l : Forall (slv_inv false) l ->
  exists l', enable_slaves l = Ok l' /\ Forall (slv_inv true) l' /\ Hs l' = Hs l /\ length l' = length l.
Proof.
  induction 1 as [|s l (A & B & C) _ (l' & E & F & H & Hl)]; cbn [enable_slaves].
  - exists []. splits; auto.
  - destruct (enable_spec _ A) as (t' & Et & It & En & Hh & _). rewrite Et, E. cbn [bind].
    eexists. split; [reflexivity|]. splits.
    + constructor; [|assumption]. unfold slv_inv. cbn [s_tl s_unused]. splits; auto.
    + rewrite !Hs_cons, H. unfold Hof. cbn [s_tl s_unused]. rewrite Hh. reflexivity.
    + cbn [length]. congruence.
Qed.

Lemma disable_slaves_spec l idx en : Forall (slv_inv en) l ->
  Forall (slv_inv false) (fst (disable_slaves l idx)) /\ Hs (fst (disable_slaves l idx)) <= Hs l /\
  length (fst (disable_slaves l idx)) = length l.
Proof.
  revert idx. induction l as [|s l IH]; intros idx F; cbn [disable_slaves].
  - cbn. splits; auto; lia.
  - inversion F as [|? ? (A & B & C) F']; subst.
    destruct (tl_disable (s_tl s)) as [t a] eqn:Et.
    destruct (disable_slaves l (S idx)) as [r' a'] eqn:Er. cbn [fst].
    specialize (IH (S idx) F'). rewrite Er in IH. cbn [fst] in IH. destruct IH as (I1 & I2 & I3).
    pose proof (disable_spec _ A) as (D1 & D2 & D3 & _). rewrite Et in D1, D2, D3. cbn [fst] in D1, D2, D3.
    splits.
    + constructor; [|assumption]. unfold slv_inv. cbn [s_tl s_unused]. splits; auto.
    + rewrite !Hs_cons. unfold Hof at 1 2. cbn [s_tl s_unused]. rewrite D3. lia.
    + cbn [length]. congruence.
Qed.

(* ------------------------------------------------------------------ one op *)
Definition payload (x : st) (o : op) (ou : out) : N :=
  match o, ou with
  | OConsume _ _ _, OutUsed n => if enabled (rtl x) then n else 0
  | _, _ => 0
  end.

(* quota entering the hierarchy: only ticks (the first one is made by enable()) *)
Definition sgrant (x : st) (o : op) : N :=
  match o with
  | OTick dt => tick_quota (now x + dt - last_tick x) (mrate x)
  | OSetRate O v => if mrate x =? 0 then tick_quota 1000000 v else 0
  | _ => 0
  end.

Lemma on_list_step x l (f : tl -> res (tl * out)) (p : out -> N) :
  sinv x -> p OutNoList = 0 ->
  (forall t, get_tl x l = Some t -> tl_inv t ->
     (exists t' ou, f t = Ok (t', ou) /\ tl_inv t' /\ enabled t' = enabled t /\ held t' + p ou <= held t)
     \/ f t = Err E_rate_insert) ->
  (exists x' ou, on_list x l f = Ok (x', ou) /\ sinv x' /\ G x' + p ou <= G x)
  \/ on_list x l f = Err E_rate_insert.
Proof.
  intros S Hp Hf. unfold on_list. destruct (get_tl x l) as [t|] eqn:Eg.
  - destruct (Hf t eq_refl (get_tl_inv _ _ _ S Eg)) as [(t' & ou & E & I' & En & Hh)|E]; rewrite E; cbn [bind];
      [left|right; reflexivity].
    destruct (put_tl_spec x l t t' S Eg I' En) as (S' & HG & _).
    eexists _, _. split; [reflexivity|]. splits; auto; lia.
  - left. exists x, OutNoList. splits; auto. lia.
Qed.

Lemma held_init : held tl_init = 0. Proof. reflexivity. Qed.

Lemma sinv_advance x dt : sinv x -> sinv (advance x dt) /\ G (advance x dt) = G x.
Proof.
  intros [S1 S2 S3 S4 S5 S6 S7 S8]. split; [constructor; cbn [advance now mrate last_tick rtl slaves unused next]; auto; lia|reflexivity].
Qed.

Lemma set_rate_root_spec x v : sinv x -> (if mrate x =? 0 then tick_quota 1000000 v <=? Qmax else true) = true ->
  (exists x' ou, set_rate_root x v = Ok (x', ou) /\ sinv x' /\
                 G x' <= G x + (if mrate x =? 0 then tick_quota 1000000 v else 0))
  \/ set_rate_root x v = Err E_rate_insert.
Proof.
  intros S V. pose proof S as [S1 S2 S3 S4 S5 S6 S7 S8]. pose proof tick_min_le as Htm. unfold set_rate_root.
  destruct (N.eqb_spec v (mrate x)) as [Hv|Hv]; [left; exists x, OutOk; splits; auto; lia|].
  destruct (N.ltb_spec (uint_max - 1) v) as [Hbig|Hsm]; [left; exists x, OutInputErr; splits; auto; lia|].
  assert (Hvw : v < w32) by (unfold uint_max in Hsm; rewrite w32_val; lia).
  destruct (set_chunks_spec (rtl x) v S1) as (C1 & C2 & C3).
  set (r1 := set_chunks (rtl x) (calc_min_chunk v) (calc_max_chunk v)) in *.
  destruct (N.eqb_spec (mrate x) 0) as [Hz|Hnz].
  - (* enable *)
    cbn [negb] in S3. cbv iota in V |- *. apply N.leb_le in V.
    unfold ti_enable. cbn [rtl slaves now mrate unused next last_tick].
    assert (Hd1 : enabled r1 = false) by congruence.
    destruct (enable_spec r1 C1) as (r & Er & Ir & Enr & Hhr & _). rewrite Er. cbn [bind].
    rewrite S3 in S2.
    destruct (enable_slaves_spec _ S2) as (sl & Es & Fs & Hss & Hls). rewrite Es. cbn [bind].
    set (x2 := {| now := now x; mrate := v; unused := unused x; next := next x;
                  last_tick := now x - 1000000; rtl := r; slaves := sl |}).
    assert (P2 : tick_pre x2).
    { unfold tick_pre, x2. cbn [rtl slaves next unused]. rewrite Hls. splits; auto. }
    assert (Hcnt : now x2 - last_tick x2 = 1000000) by (unfold x2; cbn [now last_tick]; lia).
    destruct (receive_tick_spec x2 P2) as [(x' & acts & E & S' & _ & _ & _ & HG & _)|E].
    + unfold x2; cbn [mrate]. lia.
    + unfold x2; cbn [mrate]. assumption.
    + unfold x2; cbn [now]. assumption.
    + unfold x2; cbn [now last_tick]. lia.
    + rewrite Hcnt. unfold x2; cbn [mrate]. assumption.
    + rewrite E. cbn [bind]. left. eexists _, _. split; [reflexivity|]. split; [assumption|].
      rewrite Hcnt in HG. change (mrate x2) with v in HG.
      assert (G x2 = G x). { unfold G, x2. cbn [rtl slaves unused]. rewrite Hhr, C2, Hss. reflexivity. }
      lia.
    + rewrite E. right. reflexivity.
  - destruct (N.eqb_spec v 0) as [Hv0|Hv0].
    + (* disable *)
      cbv iota. left. unfold ti_disable. cbn [rtl slaves].
      destruct (disable_slaves (slaves x) 0) as [sl a] eqn:Ed.
      destruct (tl_disable r1) as [r a0] eqn:Er.
      pose proof (disable_slaves_spec (slaves x) 0%nat _ S2) as (D1 & D2 & D3). rewrite Ed in D1, D2, D3. cbn [fst] in D1, D2, D3.
      pose proof (disable_spec r1 C1) as (T1 & T2 & T3 & _). rewrite Er in T1, T2, T3. cbn [fst] in T1, T2, T3.
      eexists _, _. split; [reflexivity|]. unfold with_lists, G. cbn [rtl slaves unused now mrate last_tick next].
      split; [constructor; cbn [rtl slaves unused now mrate last_tick next]; auto; try lia|].
      * rewrite T2. assumption.
      * rewrite T2, Hv0. reflexivity.
      * rewrite T3. unfold G in *. lia.
    + (* both limited: only chunk sizes change *)
      cbv iota. left. eexists _, _. split; [reflexivity|]. unfold G. cbn [rtl slaves unused now mrate last_tick next].
      fold r1. split; [constructor; cbn [rtl slaves unused now mrate last_tick next]; auto|].
      all: try (rewrite C3; assumption).
      all: try (rewrite C3, S3; destruct (N.eqb_spec v 0); [contradiction|reflexivity]).
      all: try (rewrite C2; unfold G; lia).
Qed.

Lemma step_spec x o : sinv x -> valid_opb x o = true ->
  (exists x' ou, step x o = Ok (x', ou) /\ sinv x' /\ G x' + payload x o ou <= G x + sgrant x o)
  \/ step x o = Err E_rate_insert.
Proof.
  intros S V. pose proof S as [S1 S2 S3 S4 S5 S6 S7 S8].
  destruct o as [l k|l k|l k|l k|l k n|l n|dt|dt|l v| |l k want]; cbn [step valid_opb payload sgrant] in *;
    try discriminate.
  - (* insert *)
    destruct (on_list_step x l (fun t => Ok (tl_insert t k, OutOk)) (fun _ => 0) S eq_refl) as [(x' & ou & E & S' & HG)|E].
    + intros t Eg It. rewrite Eg in V. apply N.ltb_lt in V. left.
      destruct (insert_spec t k It V) as (I' & Hh & He & _). eexists _, _. split; [reflexivity|]. splits; auto. lia.
    + left. exists x', ou. splits; auto. destruct ou; lia.
    + right. exact E.
  - (* erase *)
    destruct (on_list_step x l (fun t => t' <- tl_erase t k;; Ok (t', OutOk)) (fun _ => 0) S eq_refl) as [(x' & ou & E & S' & HG)|E].
    + intros t Eg It. left. destruct (erase_spec t k It) as (t' & Ee & I' & Hh & He & _). rewrite Ee. cbn [bind].
      eexists _, _. split; [reflexivity|]. splits; auto. lia.
    + left. exists x', ou. splits; auto. destruct ou; lia.
    + right. exact E.
  - (* node_used *)
    apply N.ltb_lt in V.
    destruct (on_list_step x l (fun t => t' <- node_used t (secs (now x)) k n;; Ok (t', OutOk)) (fun _ => 0) S eq_refl) as [(x' & ou & E & S' & HG)|E].
    + intros t Eg It. destruct (node_used_spec t (secs (now x)) k n It V) as [(t' & Ee & I' & Hh & _ & He & _)|Ee]; rewrite Ee; cbn [bind];
        [left|right; reflexivity].
      eexists _, _. split; [reflexivity|]. splits; auto. lia.
    + left. exists x', ou. splits; auto. destruct ou; lia.
    + right. exact E.
  - (* unthrottled *)
    apply N.ltb_lt in V.
    destruct (on_list_step x l (fun t => t' <- node_used_unthrottled t (secs (now x)) n;; Ok (t', OutOk)) (fun _ => 0) S eq_refl) as [(x' & ou & E & S' & HG)|E].
    + intros t Eg It. destruct (unthr_spec t (secs (now x)) n It V) as [(t' & Ee & I' & Hh & He & _)|Ee]; rewrite Ee; cbn [bind];
        [left|right; reflexivity].
      eexists _, _. split; [reflexivity|]. splits; auto. lia.
    + left. exists x', ou. splits; auto. destruct ou; lia.
    + right. exact E.
  - (* tick *)
    apply andb_prop in V as [V V3]. apply andb_prop in V as [V1 V2].
    apply N.leb_le in V2, V3.
    destruct (sinv_advance x dt S) as [Sa Ga].
    assert (Hr : mrate x <> 0). { rewrite V1 in S3. destruct (N.eqb_spec (mrate x) 0); [discriminate|assumption]. }
    destruct (receive_tick_spec (advance x dt) (sinv_tick_pre _ Sa V1)) as [(x' & acts & E & S' & _ & _ & _ & HG & _)|E];
      cbn [advance now mrate last_tick] in *; auto; try lia.
    + rewrite E. cbn [bind]. left. eexists _, _. split; [reflexivity|]. split; [assumption|]. rewrite Ga in HG. lia.
    + rewrite E. right. reflexivity.
  - (* advance *)
    left. destruct (sinv_advance x dt S) as [Sa Ga]. eexists _, _. split; [reflexivity|]. split; [assumption|]. lia.
  - (* set_max_rate *)
    destruct l as [|i].
    + destruct (set_rate_root_spec x v S V) as [(x' & ou & E & S' & HG)|E]; [left|right; exact E].
      exists x', ou. splits; auto. lia.
    + left. unfold set_rate_slave. destruct (nth_error (slaves x) i) as [s|] eqn:En; [|exists x, OutNoList; splits; auto; lia].
      destruct (v =? s_rate s); [exists x, OutOk; splits; auto; lia|].
      destruct (uint_max - 1 <? v); [exists x, OutInputErr; splits; auto; lia|].
      pose proof (nth_error_Forall _ _ _ _ S2 En) as (A & B & C).
      destruct (set_chunks_spec (s_tl s) v A) as (C1 & C2 & C3).
      eexists _, _. split; [reflexivity|]. unfold with_lists, G. cbn [rtl slaves unused now mrate last_tick next].
      split; [constructor; cbn [rtl slaves unused now mrate last_tick next]; rewrite ?upd_nth_length; auto|].
      * eapply Forall_upd_nth; [eassumption|eassumption|]. unfold slv_inv. cbn [s_tl s_unused]. splits; auto; congruence.
      * pose proof (Hs_upd_nth (fun s0 => {| s_rate := v; s_unused := s_unused s0;
                      s_tl := set_chunks (s_tl s0) (calc_min_chunk v) (calc_max_chunk v) |}) _ _ _ En) as H.
        unfold Hof in H. cbn [s_tl s_unused] in H. rewrite C2 in H. unfold G. lia.
  - (* create_slave *)
    apply N.ltb_lt in V. left. unfold create_slave.
    assert (Ht : exists t, (if enabled (rtl x) then tl_enable tl_init else Ok tl_init) = Ok t /\ tl_inv t /\
                           enabled t = enabled (rtl x) /\ held t = 0).
    { destruct (enabled (rtl x)).
      - destruct (enable_spec tl_init tl_init_inv) as (t & E & I & En & Hh & _). exists t. splits; auto.
      - exists tl_init. splits; auto using tl_init_inv. }
    destruct Ht as (t & Et & It & Ent & Hht). rewrite Et. cbn [bind].
    eexists _, _. split; [reflexivity|]. unfold G. cbn [rtl slaves unused now mrate last_tick next].
    split; [constructor; cbn [rtl slaves unused now mrate last_tick next]; rewrite ?app_length; cbn [length]; auto; try lia|].
    + apply Forall_snoc; [assumption|]. unfold slv_inv. cbn [s_tl s_unused]. splits; auto. lia.
    + rewrite Hs_app. cbn [Hs fold_right]. unfold Hof. cbn [s_tl s_unused]. rewrite Hht. unfold G. lia.
  - (* consumer step *)
    set (p := fun ou => match ou with OutUsed n => if enabled (rtl x) then n else 0 | _ => 0 end).
    destruct (on_list_step x l (fun t => consume t (secs (now x)) k want) p S eq_refl) as [(x' & ou & E & S' & HG)|E].
    + intros t Eg It. pose proof (get_tl_enabled _ _ _ S Eg) as Het.
      destruct (consume_spec t (secs (now x)) k want It) as [(t' & ou & Ee & I' & He & _ & _ & Hh & Hex & _)|Ee];
        [left|right; exact Ee].
      exists t', ou. splits; auto. unfold p. destruct ou; try lia.
      destruct (enabled (rtl x)) eqn:Er; [|lia]. rewrite <- (Hex n eq_refl Het). lia.
    + left. exists x', ou. splits; auto. unfold p in HG. destruct ou; lia.
    + right. exact E.
Qed.
