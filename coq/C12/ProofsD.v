(* C12 proofs, part D: all event lists on one ThrottleList (accounting, no internal_error, rate
   bound), tick arithmetic, system-level facts and computed witnesses. *)
From Coq Require Import List NArith Bool Lia PeanoNat.
From LTV.C12 Require Import ParamsGen PolicyGen.
From LTV.C12 Require Import Model ProofsA ProofsB ProofsC.
Import ListNotations.
Local Open Scope N_scope.

(* What can happen to one ThrottleList: what connections do (insert, erase, consumer step,
   node_used on already buffered bytes, unthrottled protocol bytes) and what its ThrottleInternal
   does (update_quota with the tick's grant). *)
Inductive ev : Type :=
| EvInsert (k : N) | EvErase (k : N) | EvConsume (k want : N) | EvUsed (k n : N) | EvUnthr (n : N)
| EvUpdate (q : N).

(* second component: payload bytes moved by a consumer step while the list is throttling *)
Definition ev_step (t : tl) (s : N) (e : ev) : res (tl * N) :=
  match e with
  | EvInsert k => Ok (tl_insert t k, 0)
  | EvErase k => t' <- tl_erase t k ;; Ok (t', 0)
  | EvConsume k w => '(t', ou) <- consume t s k w ;;
                     Ok (t', match ou with OutUsed n => if enabled t then n else 0 | _ => 0 end)
  | EvUsed k n => t' <- node_used t s k n ;; Ok (t', 0)
  | EvUnthr n => t' <- node_used_unthrottled t s n ;; Ok (t', 0)
  | EvUpdate q => '(t', _, _) <- update_quota t q ;; Ok (t', 0)
  end.

Definition ev_valid (t : tl) (e : ev) : Prop :=
  match e with
  | EvInsert _ => N.of_nat (length (nodes t)) < Nmax
  | EvUsed _ n | EvUnthr n => n < w32
  | EvUpdate q => enabled t = true /\ q <= Qmax
  | _ => True
  end.

Definition grant (e : ev) : N := match e with EvUpdate q => q | _ => 0 end.

Fixpoint ev_run (t : tl) (l : list (N * ev)) : res (tl * N) :=
  match l with
  | [] => Ok (t, 0)
  | (s, e) :: r => '(t1, p1) <- ev_step t s e ;; '(t2, p2) <- ev_run t1 r ;; Ok (t2, p1 + p2)
  end.

Fixpoint valid_run (t : tl) (l : list (N * ev)) : Prop :=
  match l with
  | [] => True
  | (s, e) :: r => ev_valid t e /\ forall t' p, ev_step t s e = Ok (t', p) -> valid_run t' r
  end.

Definition grants (l : list (N * ev)) : N := fold_right (fun x a => grant (snd x) + a) 0 l.

Lemma ev_step_spec t s e : tl_inv t -> ev_valid t e ->
  (exists t' p, ev_step t s e = Ok (t', p) /\ tl_inv t' /\ held t' + p <= held t + grant e)
  \/ ev_step t s e = Err E_rate_insert.
Proof.
  intros I V. destruct e as [k|k|k w|k n|n|q]; cbn [ev_step ev_valid grant] in *.
  - left. destruct (insert_spec t k I V) as (I' & H & _). eexists _, 0. split; [reflexivity|]. split; [exact I'|lia].
  - left. destruct (erase_spec t k I) as (t' & E & I' & H & _). rewrite E. cbn [bind].
    eexists _, 0. split; [reflexivity|]. split; [exact I'|lia].
  - destruct (consume_spec t s k w I) as [(t' & ou & E & I' & He & _ & _ & Hh & Hex & _)|E]; rewrite E; cbn [bind];
      [left|right; reflexivity].
    eexists _, _. split; [reflexivity|]. split; [exact I'|].
    destruct ou; try lia. destruct (enabled t) eqn:En; [|lia]. rewrite <- (Hex n eq_refl eq_refl). lia.
  - destruct (node_used_spec t s k n I V) as [(t' & E & I' & H1 & _)|E]; rewrite E; cbn [bind]; [left|right; reflexivity].
    eexists _, 0. split; [reflexivity|]. split; [exact I'|lia].
  - destruct (unthr_spec t s n I V) as [(t' & E & I' & H1 & _)|E]; rewrite E; cbn [bind]; [left|right; reflexivity].
    eexists _, 0. split; [reflexivity|]. split; [exact I'|lia].
  - left. destruct V as [En Hq]. destruct (update_spec t q I En Hq) as (t' & used & acts & E & I' & _ & H & _).
    rewrite E. cbn [bind]. eexists _, 0. split; [reflexivity|]. split; [exact I'|lia].
Qed.

(* Main list-level theorem: for EVERY event list that respects the consumers' discipline, no
   internal_error other than Rate::insert's is thrown, the invariant (conservation, split, bounds)
   holds at the end, and payload moved under throttling + quota still held <= quota held at the
   start + quota granted by update_quota: nothing is created. *)
Theorem list_run_spec : forall l t, tl_inv t -> valid_run t l ->
  (exists t' p, ev_run t l = Ok (t', p) /\ tl_inv t' /\ held t' + p <= held t + grants l)
  \/ ev_run t l = Err E_rate_insert.
Proof.
  induction l as [|[s e] l IH]; intros t I V; cbn [ev_run valid_run grants fold_right snd] in *.
  - left. exists t, 0. split; [reflexivity|]. split; [exact I|lia].
  - destruct V as [V1 V2].
    destruct (ev_step_spec t s e I V1) as [(t1 & p1 & E & I1 & H1)|E]; rewrite E; cbn [bind]; [|right; reflexivity].
    destruct (IH t1 I1 (V2 _ _ E)) as [(t2 & p2 & E2 & I2 & H2)|E2]; rewrite E2; cbn [bind]; [left|right; reflexivity].
    exists t2, (p1 + p2). split; [reflexivity|]. split; [exact I2|]. fold (grants l). lia.
Qed.

(* burst term: what a list can hold at any time *)
Lemma held_bound t : tl_inv t -> held t <= cap * N.of_nat (length (nodes t)) + unalloc t + uu t.
Proof.
  intros I. unfold held. rewrite (i_out _ I). pose proof (sumq_capped _ (i_cap _ I)). lia.
Qed.

(* rate bound over a window of events: payload <= burst + sum of grants *)
Corollary rate_bound_list l t t' p : tl_inv t -> valid_run t l -> ev_run t l = Ok (t', p) ->
  p <= cap * N.of_nat (length (nodes t)) + unalloc t + uu t + grants l.
Proof.
  intros I V E. destruct (list_run_spec l t I V) as [(t2 & p2 & E2 & _ & H)|E2]; rewrite E in *; [|discriminate].
  injection E2 as <- <-. pose proof (held_bound t I). lia.
Qed.

(* ------------------------------------------------------------------ tick arithmetic *)
Lemma need_le_quota q f r : need_of q f r <= q.
Proof. unfold need_of. destruct (r =? 0); lia. Qed.

Lemma mod_le' a b : b <> 0 -> a mod b <= a.
Proof. intros. apply N.mod_le. assumption. Qed.

(* what a tick hands to a list with rate r after [count] microseconds never exceeds count*r/10^6 *)
Lemma tick_grant count r q : r <> 0 ->
  need_of q (tick_fraction count) r <= count * r / 1000000.
Proof.
  intros Hr0. unfold need_of, tick_fraction, fraction_base.
  destruct (N.eqb_spec r 0) as [|_]; [contradiction|].
  pose proof params_ok_now as P. unfold params_ok in P. do 7 (apply andb_prop in P as [P ?]).
  match goal with H : (Policy.fraction_bits =? 16) = true |- _ => apply N.eqb_eq in H; rewrite H end.
  change (2 ^ 16) with 65536.
  set (F := ((count * 65536) mod w64 / 1000000) mod w32).
  assert (HF : F * 1000000 <= count * 65536).
  { unfold F. pose proof (mod_le' ((count * 65536) mod w64 / 1000000) w32 ltac:(rewrite w32_val; lia)).
    pose proof (mod_le' (count * 65536) w64 ltac:(unfold w64; lia)).
    pose proof (N.mul_div_le ((count * 65536) mod w64) 1000000 ltac:(lia)). lia. }
  set (X := ((F * r) mod w64 / 65536) mod w32).
  assert (HX : X * 65536 <= F * r).
  { unfold X. pose proof (mod_le' ((F * r) mod w64 / 65536) w32 ltac:(rewrite w32_val; lia)).
    pose proof (mod_le' (F * r) w64 ltac:(unfold w64; lia)).
    pose proof (N.mul_div_le ((F * r) mod w64) 65536 ltac:(lia)). lia. }
  transitivity X; [lia|].
  apply N.div_le_lower_bound; [lia|].
  assert (X * 65536 * 1000000 <= count * 65536 * r) by nia. nia.
Qed.

Lemma tick_quota_exact count r : count * r < w64 -> count * r / 1000000 < w32 ->
  tick_quota count r = count * r / 1000000.
Proof. intros H1 H2. unfold tick_quota. rewrite (N.mod_small _ _ H1). apply N.mod_small. exact H2. Qed.

(* ------------------------------------------------------------------ disabled = unlimited *)
Lemma disabled_quota t k : enabled t = false -> node_quota t k = Ok int32_max.
Proof. intros E. unfold node_quota. rewrite E. reflexivity. Qed.

(* root rate 0 <-> every list disabled, on every state reachable by set_max_rate from init is part
   of the system invariant below *)

(* ------------------------------------------------------------------ system-level: decidable validity + witnesses *)
Definition valid_opb (x : st) (o : op) : bool :=
  match o with
  | OInsert l _ => match get_tl x l with Some t => N.of_nat (length (nodes t)) <? Nmax | None => true end
  | OErase _ _ | OConsume _ _ _ | OAdvance _ => true
  | OSlave => N.of_nat (length (slaves x)) <? Kmax
  | OUsed _ _ n | OUnthr _ n => n <? w32
  | OSetRate O v => if mrate x =? 0 then tick_quota 1000000 v <=? Qmax else true
  | OSetRate (S _) _ => true
  | OTick dt => enabled (rtl x) && (last_tick x + Policy.tick_min_us <=? now x + dt) &&
                (tick_quota (now x + dt - last_tick x) (mrate x) <=? Qmax)
  | OQuota _ _ | ODeact _ _ => false
  end.

Fixpoint valid_opsb (x : st) (ops : list op) : bool :=
  match ops with
  | [] => true
  | o :: r => valid_opb x o && match step x o with Ok (x', _) => valid_opsb x' r | Err _ => true end
  end.

(* Regression witness of the repaired defect (commit 36e16d0): m_rateAdded of a slave list used to
   accumulate while the root was unlimited and was pushed into the root's Rate on the second tick
   after a limit was set (Rate::insert threw above 2^28). enable() now resets it. *)
Definition witness_rate_added : list op :=
  [OSlave; OInsert 1 0; OConsume 1 0 268435456; OConsume 1 0 1; OSetRate 0 1000; OTick 1000000].

Lemma rate_added_regression :
  valid_opsb init witness_rate_added = true /\ snd (run init witness_rate_added) = None.
Proof. split; vm_compute; reflexivity. Qed.

(* A slave (per-torrent) limit is not enforced while the root is unlimited: 262144 payload bytes
   move at one instant through a slave limited to 1000 B/s. *)
Definition witness_slave_unlimited : list op :=
  [OSlave; OSetRate 1 1000; OInsert 1 0; OConsume 1 0 131072; OConsume 1 0 131072].


Lemma slave_limit_needs_root_limit_refuted :
  valid_opsb init witness_slave_unlimited = true /\
  map snd (fst (run init witness_slave_unlimited)) = [OutOk; OutOk; OutOk; OutUsed 131072; OutUsed 131072] /\
  (exists x, nth_error (map fst (fst (run init witness_slave_unlimited))) 4 = Some x /\
             now x = t0 /\ option_map s_rate (nth_error (slaves x) 0) = Some 1000).
Proof.
  split; [vm_compute; reflexivity|]. split; [vm_compute; reflexivity|].
  eexists. split; [vm_compute; reflexivity|]. split; vm_compute; reflexivity.
Qed.

(* Regression witness of the repaired starvation (commit 5638f7b): a slave with rate 0 (= unlimited,
   also what create_slave copies from an unlimited root) under a limited root used to get need = 0
   on every tick; it now shares the root's tick quota and its deactivated node is reactivated. *)
Definition witness_slave_starves : list op :=
  [OSetRate 0 100000; OSlave; OSetRate 1 0; OInsert 1 0; OTick 1000000; OTick 1000000; OConsume 1 0 1;
   OTick 1000000; OTick 1000000; OTick 1000000; OTick 1000000; OTick 1000000].

Lemma slave_rate0_regression :
  valid_opsb init witness_slave_starves = true /\
  snd (run init witness_slave_starves) = None /\
  exists x, last (map (fun p => Some (fst p)) (fst (run init witness_slave_starves))) None = Some x /\
            option_map (fun s => inact (s_tl s)) (nth_error (slaves x) 0) = Some [].
Proof. split; [vm_compute; reflexivity|]. split; [vm_compute; reflexivity|]. eexists. split; vm_compute; reflexivity. Qed.

(* non-vacuity examples *)
Example ex_valid_run :
  valid_opsb init [OSetRate 0 10000; OInsert 0 1; OTick 1000000; OConsume 0 1 5000; OConsume 0 1 50000;
                   OConsume 0 1 1; OTick 1000000; OErase 0 1] = true /\
  snd (run init [OSetRate 0 10000; OInsert 0 1; OTick 1000000; OConsume 0 1 5000; OConsume 0 1 50000;
                 OConsume 0 1 1; OTick 1000000; OErase 0 1]) = None.
Proof. split; vm_compute; reflexivity. Qed.

Definition ex_list : tl := set_enabled tl_init true.
Example ex_list_inv : tl_inv ex_list.
Proof. destruct (enable_spec tl_init tl_init_inv) as (t' & E & I & _). vm_compute in E. injection E as <-. exact I. Qed.
Example ex_list_run : valid_run ex_list [(0, EvInsert 1); (0, EvUpdate 3000); (1, EvUpdate 3000); (1, EvConsume 1 100)] /\
  exists t' p, ev_run ex_list [(0, EvInsert 1); (0, EvUpdate 3000); (1, EvUpdate 3000); (1, EvConsume 1 100)] = Ok (t', p) /\ p = 100.
Proof.
  split.
  - cbn [valid_run]. split; [vm_compute; reflexivity|]. intros t1 p1 E1. vm_compute in E1. injection E1 as <- <-.
    split; [split; [reflexivity|vm_compute; discriminate]|]. intros t2 p2 E2. vm_compute in E2. injection E2 as <- <-.
    split; [split; [reflexivity|vm_compute; discriminate]|]. intros t3 p3 E3. vm_compute in E3. injection E3 as <- <-.
    split; [exact I|]. intros; exact I.
  - eexists _, _. split; vm_compute; reflexivity.
Qed.
