(* C12 proofs, part J: fairness of the slave cursor (m_next_slave). Every tick serves at least the
   list at the cursor (its need never exceeds unused + quota), in cyclic order slave 0 .. slave k-1,
   root; hence every slave list is served within k+1 consecutive ticks. *)
From Coq Require Import List NArith Bool Lia PeanoNat.
From LTV.C12 Require Import ParamsGen PolicyGen.
From LTV.C12 Require Import Model ProofsA ProofsB ProofsC ProofsD ProofsE.
Import ListNotations.
Local Open Scope N_scope.

(* slave s was served by a tick with root quota q: its receive_quota ran with its share *)
Definition proc (q f : N) (s s2 : slave) : Prop :=
  exists s' u a, slave_receive_quota s (need_of q f (s_rate s)) f = Ok (s', u, a) /\
    s2 = {| s_rate := s_rate s'; s_unused := s_unused s'; s_tl := fst (take_radded (s_tl s')) |}.

Lemma slaves_loop_struct q f ns : forall rest done un root idx acts done' rest' un' root' acts',
  slaves_loop q f ns done rest un root idx acts = Ok (done', rest', un', root', acts') ->
  exists pre mid, rest = pre ++ rest' /\ done' = done ++ mid /\ Forall2 (proc q f) pre mid /\
    (forall s r, rest = s :: r -> need_of q f (s_rate s) <= un -> pre <> []) /\
    (rest = [] -> un' = un).
Proof.
  induction rest as [|s rest IH]; intros done un root idx acts done' rest' un' root' acts'; cbn [slaves_loop].
  - intros E. injection E as <- <- <- _ _. exists [], []. cbn [app]. rewrite ?app_nil_r. splits; auto. intros ? ? Hx; discriminate Hx.
  - destruct (N.ltb_spec un (need_of q f (s_rate s))) as [Hlt|Hge].
    + intros E. injection E as <- <- <- _ _. exists [], []. cbn [app]. rewrite ?app_nil_r. splits; auto;
        first [intros s0 r E; injection E as <- <-; lia | intros Hx; discriminate Hx].
    + destruct (slave_receive_quota s (need_of q f (s_rate s)) f) as [[[s' used] a]|] eqn:Es; cbn [bind]; [|discriminate].
      destruct (take_radded (s_tl s')) as [t' ra] eqn:Et.
      destruct (add_rate root ns ra) as [root1|]; cbn [bind]; [|discriminate].
      intros E. apply IH in E. destruct E as (pre & mid & Hp & Hd & HF & _ & _).
      exists (s :: pre), ({| s_rate := s_rate s'; s_unused := s_unused s'; s_tl := t' |} :: mid).
      splits.
      * rewrite Hp. reflexivity.
      * rewrite Hd, <- app_assoc. reflexivity.
      * constructor; [|assumption]. exists s', used, a. split; [assumption|]. rewrite Et. reflexivity.
      * intros ? ? _ _ Hx. discriminate Hx.
      * intros Hx. discriminate Hx.
Qed.

Lemma Forall2_nth_error {A B} (R : A -> B -> Prop) a b j x :
  Forall2 R a b -> nth_error a j = Some x -> exists y, nth_error b j = Some y /\ R x y.
Proof.
  intros H. revert j. induction H as [|x0 y0 a b HR _ IH]; intros [|j]; cbn [nth_error]; try discriminate.
  - intros E. injection E as <-. eauto.
  - apply IH.
Qed.

Lemma Forall2_len {A B} (R : A -> B -> Prop) a b : Forall2 R a b -> length a = length b.
Proof. induction 1; cbn [length]; congruence. Qed.

(* what one tick does to the cursor *)
Lemma receive_quota_cursor x q f x' acts : tick_pre x -> q <= Qmax -> receive_quota x q f = Ok (x', acts) ->
  exists m : nat,
    length (slaves x') = length (slaves x) /\
    (next x + m <= length (slaves x))%nat /\
    (next x' = 0%nat /\ (next x + m = length (slaves x))%nat \/ next x' = (next x + m)%nat) /\
    ((next x < length (slaves x))%nat -> (1 <= m)%nat) /\
    ((next x = length (slaves x))%nat -> next x' = 0%nat) /\
    (forall i s, (next x <= i < next x + m)%nat -> nth_error (slaves x) i = Some s ->
       exists s2, nth_error (slaves x') i = Some s2 /\ proc q f s s2).
Proof.
  intros (Ir & En & Fs & Hnx & Hu & Hk) Hq. unfold receive_quota.
  pose proof Qmax_val as Qv. pose proof w32_val as W32v.
  rewrite (add32_small (unused x) q) by lia.
  destruct (slaves_loop q f (secs (now x)) (firstn (next x) (slaves x)) (skipn (next x) (slaves x))
              (unused x + q) (rtl x) (next x) []) as [[[[[done rest] un1] root1] acts1]|] eqn:EL; cbn [bind]; [|discriminate].
  destruct (slaves_loop_struct _ _ _ _ _ _ _ _ _ _ _ _ _ _ EL) as (pre & mid & Hp & Hd & HF & Hne & Hun).
  pose proof (Forall2_len _ _ _ HF) as Hlen.
  assert (Hfl : length (firstn (next x) (slaves x)) = next x) by (apply firstn_length_le; lia).
  assert (Hsl : slaves x = firstn (next x) (slaves x) ++ pre ++ rest).
  { rewrite <- Hp. symmetry. apply firstn_skipn. }
  assert (Hk2 : (next x + length pre + length rest = length (slaves x))%nat).
  { rewrite Hsl at 1. rewrite !app_length, Hfl. lia. }
  set (need := need_of q f (mrate x)). assert (Hn : need <= q) by apply need_le.
  assert (Hdl : length done = (next x + length pre)%nat) by (rewrite Hd, app_length, Hfl; lia).
  assert (Hnth : forall i s, (next x <= i < next x + length pre)%nat -> nth_error (slaves x) i = Some s ->
            exists s2, nth_error (done ++ rest) i = Some s2 /\ proc q f s s2).
  { intros i s Hi Hs. rewrite Hsl in Hs. rewrite nth_error_app2 in Hs by lia. rewrite Hfl in Hs.
    rewrite nth_error_app1 in Hs by lia.
    destruct (Forall2_nth_error _ _ _ _ _ HF Hs) as (y & Hy & HR). exists y. split; [|exact HR].
    rewrite Hd, <- app_assoc. rewrite nth_error_app2 by lia. rewrite Hfl. rewrite nth_error_app1 by lia. exact Hy. }
  assert (Hpos : (next x < length (slaves x))%nat -> (1 <= length pre)%nat).
  { intros Hlt. destruct (skipn (next x) (slaves x)) as [|s0 r0] eqn:Esk.
    - pose proof (skipn_length (next x) (slaves x)) as Hsk. rewrite Esk in Hsk. cbn in Hsk. lia.
    - assert (pre <> []). { eapply Hne; [reflexivity|]. pose proof (need_le q f (s_rate s0)). lia. }
      destruct pre; [contradiction|cbn; lia]. }
  assert (Hend : (next x = length (slaves x))%nat -> un1 = unused x + q /\ rest = []).
  { intros He. assert (Esk : skipn (next x) (slaves x) = []).
    { apply length_zero_iff_nil. rewrite skipn_length. lia. }
    split; [apply Hun; exact Esk|]. rewrite Esk in Hp. destruct pre; [|discriminate]. destruct rest; [reflexivity|discriminate]. }
  assert (Hlx : length (done ++ rest) = length (slaves x)) by (rewrite app_length; lia).
  destruct rest as [|r0 rest0].
  - destruct (N.leb_spec need un1) as [Hle|Hgt].
    + destruct (update_quota root1 need) as [[[t' used] a]|]; cbn [bind]; [|discriminate].
      destruct (cap_used q _) as [? un3]. intros E. injection E as <- _. cbn [slaves next].
      exists (length pre). cbn [length] in Hk2. splits; auto; try lia; try (left; split; [reflexivity|lia]).
    + cbn [bind]. destruct (cap_used q _) as [? un3]. intros E. injection E as <- _. cbn [slaves next].
      exists (length pre). cbn [length] in Hk2. splits; auto; try lia;
        try (intros He; destruct (Hend He) as [Hu1 _]; lia).
  - cbn [bind]. destruct (cap_used q _) as [? un3]. intros E. injection E as <- _. cbn [slaves next].
    exists (length pre). cbn [length] in Hk2. splits; auto; try lia;
      try (intros He; destruct (Hend He) as [_ Hc]; discriminate).
Qed.

(* ------------------------------------------------------------------ fairness over a sequence of ticks *)
Fixpoint runs_ok (x : st) (qs : list (N * N)) : Prop :=
  match qs with
  | [] => True
  | (q, f) :: r => match receive_quota x q f with Ok (x', _) => runs_ok x' r | Err _ => False end
  end.

Fixpoint served (i : nat) (x : st) (qs : list (N * N)) : Prop :=
  match qs with
  | [] => False
  | (q, f) :: r =>
      match receive_quota x q f with
      | Ok (x', _) => (exists s s2, nth_error (slaves x) i = Some s /\ nth_error (slaves x') i = Some s2 /\ proc q f s s2)
                      \/ served i x' r
      | Err _ => False
      end
  end.

(* positions the cursor still has to pass before reaching slave i, in the cyclic order
   slave 0 .. slave k-1, root *)
Definition dist (x : st) (i : nat) : nat :=
  if (next x <=? i)%nat then i - next x else (length (slaves x) + 1 - next x) + i.

Theorem cursor_fairness : forall qs x i, tick_pre x -> Forall (fun p => fst p <= Qmax) qs ->
  (i < length (slaves x))%nat -> runs_ok x qs -> (dist x i < length qs)%nat -> served i x qs.
Proof.
  induction qs as [|[q f] qs IH]; intros x i P Fq Hi Hr Hd; cbn [runs_ok served length] in *; [lia|].
  inversion Fq as [|? ? Hq Fq']; subst. cbn [fst] in Hq.
  destruct (receive_quota x q f) as [[x' acts]|] eqn:E; [|contradiction].
  destruct (receive_quota_cursor x q f x' acts P Hq E) as (m & Hl & Hm & Hnx & Hpos & Hend & Hnth).
  assert (P' : tick_pre x').
  { destruct (receive_quota_spec x q f P Hq) as [(x2 & a2 & E2 & P2 & _)|E2]; rewrite E in E2; [|discriminate].
    injection E2 as <- _. exact P2. }
  pose proof P as (_ & _ & _ & Hnk & _).
  destruct (Nat.leb_spec (next x) i) as [Hle|Hgt].
  - (* cursor at or before i *)
    destruct (Nat.lt_ge_cases i (next x + m)) as [Hin|Hout].
    + left. destruct (nth_error (slaves x) i) as [s|] eqn:Es; [|apply nth_error_None in Es; lia].
      destruct (Hnth i s ltac:(lia) Es) as (s2 & H2 & HP). exists s, s2. auto.
    + right. apply IH; auto; [lia|]. unfold dist in *. rewrite Hl.
      destruct Hnx as [[H0 Hall]|Hn']; [lia|]. rewrite Hn'.
      destruct (Nat.leb_spec (next x) i); [|lia]. destruct (Nat.leb_spec (next x + m) i); [|lia].
      assert (1 <= m)%nat by (apply Hpos; lia). lia.
  - (* cursor already past i: it has to wrap first *)
    right. apply IH; auto; [lia|]. unfold dist in *. rewrite Hl.
    destruct (Nat.leb_spec (next x) i); [lia|].
    destruct Hnx as [[H0 Hall]|Hn']; rewrite ?H0, ?Hn'.
    + cbn [Nat.leb]. lia.
    + destruct (Nat.leb_spec (next x + m) i); [lia|].
      destruct (Nat.eq_dec (next x) (length (slaves x))) as [He|Hne].
      * specialize (Hend He). lia.
      * assert (1 <= m)%nat by (apply Hpos; lia). lia.
Qed.

Lemma dist_le x i : (next x <= length (slaves x))%nat -> (i < length (slaves x))%nat -> (dist x i <= length (slaves x))%nat.
Proof. intros. unfold dist. destruct (Nat.leb_spec (next x) i); lia. Qed.

(* every slave list is served within |slaves| + 1 consecutive ticks *)
Corollary cursor_reaches_every_list qs x i : tick_pre x -> Forall (fun p => fst p <= Qmax) qs ->
  (i < length (slaves x))%nat -> runs_ok x qs -> (length (slaves x) < length qs)%nat -> served i x qs.
Proof.
  intros P Fq Hi Hr Hl. apply cursor_fairness; auto. pose proof P as (_ & _ & _ & Hnk & _).
  pose proof (dist_le x i Hnk Hi). lia.
Qed.

(* being served means: the list's update_quota ran with exactly its share of the tick, so its
   longest-waiting connection is activated if min_chunk is in the pool (slave_rq_spec) *)
Lemma need_of_idem q f r : need_of (need_of q f r) f r = need_of q f r.
Proof. unfold need_of. destruct (r =? 0); [reflexivity|]. lia. Qed.

Lemma proc_updates q f s s2 : slv_inv true s -> q <= Qmax -> proc q f s s2 ->
  exists t' u a, update_quota (s_tl s) (need_of q f (s_rate s)) = Ok (t', u, a) /\
                 same_quota t' (s_tl s2) /\ s_rate s2 = s_rate s.
Proof.
  intros Is Hq (s' & u & a & E & ->). cbn [s_tl s_rate].
  pose proof (need_le q f (s_rate s)) as Hn.
  unfold slave_receive_quota in E. rewrite need_of_idem in E.
  destruct Is as (I & En & Hu). pose proof Qmax_val. pose proof w32_val.
  rewrite (add32_small (s_unused s)) in E by lia.
  destruct (N.leb_spec (need_of q f (s_rate s)) (s_unused s + need_of q f (s_rate s))); [|lia].
  destruct (update_quota (s_tl s) (need_of q f (s_rate s))) as [[[t' uu] aa]|] eqn:Eu; cbn [bind] in E; [|discriminate].
  destruct (cap_used _ _) in E. injection E as <- _ _. cbn [s_tl s_rate].
  exists t', uu, aa. splits; auto. apply take_radded_same.
Qed.
