(* C07 — property theorems. Statements only; proofs are in Proofs*.v. Each theorem is followed by
   Print Assumptions. Models: coq/C07/Model.v (tied to /repo by the correspondence check). *)
From Coq Require Import List NArith ZArith Bool.
From LTV Require Import Common.Bytes.
From LTV.C07 Require Import Model Proofs ProofsDec ProofsSafe ProofsRT ProofsFaith ProofsAgree ProofsSkip ProofsRTS WriteBuf ProofsWB ProofsWB2.
Import ListNotations.
Local Open Scope N_scope.

(* constants re-extracted from the source satisfy the side conditions *)
Theorem params_ok_now : Proofs.params_ok = true.
Proof. exact Proofs.params_ok_now. Qed.
Print Assumptions params_ok_now.

(* Round trip, buffer reader: for every well-formed tree (ints in int64, string lengths < 2^32,
   strictly sorted keys — what std::map guarantees), nesting below the depth limit, followed by ANY
   bytes r: decoding returns exactly the tree, flag clear, and stops exactly at r. *)
Theorem enc_dec_c : forall v r,
  wf v -> height v < depth_limit_c -> N.of_nat (length (enc v ++ r)) < two32 ->
  decode_c (enc v ++ r) = Ok (v, false) r.
Proof. exact ProofsRT.enc_dec_c. Qed.
Print Assumptions enc_dec_c.

Example enc_dec_c_nonvacuous :
  let v := VMap [([97], VList [VInt (-5); VStr [0; 255]]); ([98], VInt 9223372036854775807)] in
  wf v /\ height v < depth_limit_c /\ decode_c (enc v ++ [120]) = Ok (v, false) [120].
Proof. cbn [wf height]. repeat split; try reflexivity; vm_compute; reflexivity. Qed.

(* Round trip, skip reader (used for unknown keys and raw values by the static-map reader): skipping
   the encoding of a well-formed tree nested below the 128-level stack consumes exactly the encoding *)
Theorem enc_skip : forall v r,
  wf v -> height v < skip_stack_limit -> N.of_nat (length (enc v ++ r)) < two32 ->
  skip_c (enc v ++ r) = Ok tt r.
Proof. exact ProofsSkip.enc_skip. Qed.
Print Assumptions enc_skip.

(* Canonical output: the encoding of a well-formed tree is canonical bencode (minimal decimal
   integers and lengths, keys strictly increasing) *)
Theorem enc_canonical : forall v, wf v -> canon v (enc v).
Proof. exact ProofsRT.enc_canonical_all. Qed.
Print Assumptions enc_canonical.

(* ... and the encoder is injective, so equal trees are the only ones with equal encodings and an
   info dictionary re-encodes (hence hashes, for any hash function) identically after a round trip *)
Theorem enc_injective : forall v1 v2,
  wf v1 -> wf v2 -> height v1 < depth_limit_c -> height v2 < depth_limit_c ->
  N.of_nat (length (enc v1)) < two32 -> enc v1 = enc v2 -> v1 = v2.
Proof. exact ProofsRT.enc_injective. Qed.
Print Assumptions enc_injective.

Theorem reencode_stable : forall v l v' fl r,
  wf v -> height v < depth_limit_c -> N.of_nat (length (enc v ++ l)) < two32 ->
  decode_c (enc v ++ l) = Ok (v', fl) r -> enc v' = enc v /\ fl = false /\ r = l.
Proof. exact ProofsRT.reencode_stable. Qed.
Print Assumptions reencode_stable.

(* Totality and in-range reads on ARBITRARY input (shorter than 2^32 bytes): every reader
   terminates within the fuel of its top-level definition and never dereferences past 'last'
   (Fault); an accepting run consumes at least one byte. *)
Theorem decode_c_total : forall l, short l ->
  decode_c l <> Fault /\ decode_c l <> OutOfFuel /\
  (forall x r, decode_c l = Ok x r -> (length r < length l)%nat).
Proof. exact ProofsSafe.decode_c_total. Qed.
Print Assumptions decode_c_total.

Theorem decode_stream_total : forall l,
  decode_stream l <> Fault /\ decode_stream l <> OutOfFuel /\
  (forall x r, decode_stream l = Ok x r -> (length r < length l)%nat).
Proof. exact ProofsSafe.decode_stream_total. Qed.
Print Assumptions decode_stream_total.

Theorem skip_c_total : forall l, short l ->
  skip_c l <> Fault /\ skip_c l <> OutOfFuel /\ (forall u r, skip_c l = Ok u r -> (length r < length l)%nat).
Proof. exact ProofsSafe.skip_c_total. Qed.
Print Assumptions skip_c_total.

(* Faithful decoding: what the buffer reader accepts is the value the consumed prefix denotes in
   (liberal) bencode: integers and string lengths are the true decimal values, never wrapped
   (input shorter than 2^31 bytes: the marker-bit trick of object_read_bencode_c_string needs it) *)
Theorem decode_c_faithful : forall l v fl r,
  small l -> decode_c l = Ok (v, fl) r -> exists pre, l = pre ++ r /\ denotes pre v.
Proof. exact ProofsFaith.decode_c_faithful. Qed.
Print Assumptions decode_c_faithful.

(* accepted integers lie in int64: the unbounded arithmetic of the model never leaves the range
   in which the code's int64 arithmetic is exact *)
Theorem c_value_in_range : forall l z rest, c_value l = Some (z, rest) -> in_int64 z = true.
Proof. exact ProofsFaith.c_value_in_range. Qed.
Print Assumptions c_value_in_range.

(* The decoders agree on every input both accept *)
Theorem decoders_agree : forall l v1 f1 r1 v2 f2 r2,
  small l -> decode_c l = Ok (v1, f1) r1 -> decode_stream l = Ok (v2, f2) r2 ->
  v1 = v2 /\ f1 = f2 /\ r1 = r2.
Proof. exact ProofsAgree.decoders_agree. Qed.
Print Assumptions decoders_agree.

(* Stream round trip (full): for well-formed trees whose strings and keys are within the stream
   reader's 32 MiB cap (sok), the stream reader returns exactly the tree and stops at r *)
Theorem enc_dec_stream : forall v r,
  wf v -> ProofsRTS.sok v -> height v < depth_limit_stream -> N.of_nat (length (enc v ++ r)) < two31 ->
  decode_stream (enc v ++ r) = Ok (v, false) r.
Proof. exact ProofsRTS.enc_dec_stream. Qed.
Print Assumptions enc_dec_stream.

(* The full faithfulness statement is FALSE for the stream reader (libstdc++ number parsing):
   recorded finding class stream-istream-number-liberal; witness "i 1e" decodes to 1. *)
Theorem decode_stream_faithful_refuted :
  exists l v fl r, decode_stream l = Ok (v, fl) r /\ decode_c l = Reject.
Proof. exists [105; 32; 49; 101], (VInt 1), false, []. split; vm_compute; reflexivity. Qed.
Print Assumptions decode_stream_faithful_refuted.

(* ---------------------------------------------------------------- buffered writer (WriteBuf.v)
   object_write_bencode_c with a bounded buffer and a flush callback that hands the SAME buffer back
   (object_write_to_stream on a good stream, _to_sha1, _to_size): for EVERY tree and EVERY buffer
   capacity C > 0 the writer finishes without error, nothing stays pending, the concatenation of the
   chunks the callback saw is exactly enc v — flush-chunking never changes the byte stream — and the
   chunks are C bytes each except the last, which has 1..C bytes (w_chunks is most-recent-first). *)
Theorem write_chunking_preserves_stream : forall (C : nat) v, (0 < C)%nat ->
  let st := wb_run SinkKeep C v in
  w_status st = WbOk /\ w_pend st = [] /\ concat (rev (w_chunks st)) = enc v /\ chunks_shape C (w_chunks st).
Proof. exact ProofsWB.wb_keep_stream. Qed.
Print Assumptions write_chunking_preserves_stream.

Theorem write_chunking_irrelevant : forall (C1 C2 : nat) v, (0 < C1)%nat -> (0 < C2)%nat ->
  concat (rev (w_chunks (wb_run SinkKeep C1 v))) = concat (rev (w_chunks (wb_run SinkKeep C2 v))).
Proof. exact ProofsWB.wb_keep_chunking_irrelevant. Qed.
Print Assumptions write_chunking_irrelevant.

Example write_chunking_nonvacuous :
  wb_encode SinkKeep 3%nat (VList [VInt 10; VStr [97; 98]]) = (WbOk, [[108; 105; 49]; [48; 101; 50]; [58; 97; 98]; [101]]) /\
  enc (VList [VInt 10; VStr [97; 98]]) = [108; 105; 49; 48; 101; 50; 58; 97; 98; 101].
Proof. split; vm_compute; reflexivity. Qed.

(* object_write_bencode(first, last, object) (callback object_write_to_buffer): whenever the encoding
   fits the buffer, the call returns normally and the buffer holds exactly enc v. *)
Theorem write_to_buffer_fits : forall (C : nat) v, (length (enc v) <= C)%nat ->
  let st := wb_run SinkBuffer C v in
  w_status st = WbOk /\ w_pend st = [] /\ concat (rev (w_chunks st)) = enc v.
Proof. exact ProofsWB.wb_buffer_fits. Qed.
Print Assumptions write_to_buffer_fits.

(* The converse — an encoding that does NOT fit raises internal_error("buffer overflow") — is FALSE of
   the code: if the buffer is filled exactly by object_write_bencode_c_char and exactly one more
   _c_char follows, object_write_to_buffer hands back the empty buffer, the byte is dropped and the call
   returns normally with a truncated encoding ("le" into 1 byte -> "l"; "i0e" into 2 bytes -> "i0").
   Replayed on the real code by the B cases of the correspondence run (oracle class
   write-buffer-silent-truncation). *)
Theorem write_to_buffer_overflow_detected_refuted : exists (C : nat) v,
  (C < length (enc v))%nat /\ w_status (wb_run SinkBuffer C v) = WbOk /\
  concat (rev (w_chunks (wb_run SinkBuffer C v))) = firstn C (enc v).
Proof. exact ProofsWB.wb_buffer_overflow_detected_refuted. Qed.
Print Assumptions write_to_buffer_overflow_detected_refuted.

Example write_to_buffer_examples :
  wb_encode SinkBuffer 2%nat (VInt 0) = (WbOk, [[105; 48]]) /\
  wb_encode SinkBuffer 2%nat (VInt 5) = (WbInternal, [[105; 53]]) /\
  wb_encode SinkBuffer 3%nat (VInt 5) = (WbOk, [[105; 53; 101]]) /\
  (* more than one byte can be lost: "5:hello" into 2 bytes returns normally with "5:" *)
  wb_encode SinkBuffer 2%nat (VStr [104; 101; 108; 108; 111]) = (WbOk, [[53; 58]]).
Proof. repeat split; vm_compute; reflexivity. Qed.

(* ... but for EVERY capacity, fitting or not, object_write_bencode(first, last, object) ends normally or
   with internal_error (the string loop never runs out of fuel), writes at most C bytes — nothing behind
   `last` — and what it wrote is a prefix of the encoding. (`written` = chunks handed to the callback
   followed by the bytes still pending in the buffer.) *)
Theorem write_to_buffer_prefix : forall (C : nat) v,
  let st := wb_run SinkBuffer C v in
  w_status st <> WbFuel /\ (length (written st) <= C)%nat /\ exists k, written st = firstn k (enc v).
Proof. exact ProofsWB2.wb_buffer_prefix. Qed.
Print Assumptions write_to_buffer_prefix.
