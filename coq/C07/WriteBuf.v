(* C07 — executable model of the BUFFERED bencode writer of src/torrent/object_stream.cc:
   object_write_data_t { writeFunc, data, buffer = (first, second), pos }, object_write_bencode_c_char,
   _c_string (memcpy in chunks of the room left), _c_value (decimal digits), _c_obj_value,
   _c_obj_string, _c_object (value / string / list / map; skip_mask = 0, no TYPE_NONE / raw types),
   object_write_bencode_c (final partial flush) and the flush callbacks
     SinkKeep   : object_write_to_stream (stream good) / _to_sha1 / _to_size — consume the chunk,
                  hand the SAME buffer back;
     SinkBuffer : object_write_to_buffer — throws internal_error on an empty buffer, otherwise hands
                  back the empty buffer (second, second), so that the next byte throws.
   Definitions only. The state keeps the capacity of the current buffer (second - first), the pending
   bytes [first, pos), the chunks handed to the callback so far (most recent first) and a status
   (a thrown internal_error makes every later operation a no-op: the exception propagates). *)
From Coq Require Import List NArith ZArith Bool Arith.
From LTV Require Import Common.Bytes.
From LTV.C07 Require Import Model.
Import ListNotations.

Inductive sink := SinkKeep | SinkBuffer.
Inductive wstatus := WbOk | WbInternal | WbFuel.

Record wst := mkw { w_sink : sink; w_cap : nat; w_pend : bytes; w_chunks : list bytes; w_status : wstatus }.

Definition w_is_ok (st : wst) : bool := match w_status st with WbOk => true | _ => false end.
Definition set_pend (st : wst) (p : bytes) : wst := mkw (w_sink st) (w_cap st) p (w_chunks st) (w_status st).
Definition set_status (st : wst) (s : wstatus) : wst := mkw (w_sink st) (w_cap st) (w_pend st) (w_chunks st) s.

(* output->buffer = output->writeFunc(output->data, output->buffer); output->pos = output->buffer.first;
   called when pos == buffer.second, i.e. the pending bytes are the whole buffer *)
Definition wb_flush (st : wst) : wst :=
  match w_sink st with
  | SinkKeep => mkw SinkKeep (w_cap st) [] (w_pend st :: w_chunks st) (w_status st)
  | SinkBuffer =>
      if Nat.eqb (w_cap st) 0 then set_status st WbInternal
      else mkw SinkBuffer 0 [] (w_pend st :: w_chunks st) (w_status st)
  end.

(* object_write_bencode_c_char *)
Definition wb_char (st : wst) (c : N) : wst :=
  if negb (w_is_ok st) then st
  else if Nat.eqb (length (w_pend st)) (w_cap st) then
    let st2 := wb_flush st in
    if negb (w_is_ok st2) then st2
    else if Nat.eqb (w_cap st2) 0 then st2
    else set_pend st2 (w_pend st2 ++ [c])
  else set_pend st (w_pend st ++ [c]).

(* object_write_bencode_c_string: one fuel unit per iteration of while (srcLength != 0) *)
Fixpoint wb_string_f (fuel : nat) (st : wst) (bs : bytes) : wst :=
  match bs with
  | [] => st
  | _ =>
      match fuel with
      | O => set_status st WbFuel
      | S f =>
          let len := Nat.min (length bs) (w_cap st - length (w_pend st)) in
          let st1 := set_pend st (w_pend st ++ firstn len bs) in
          if Nat.eqb (length (w_pend st1)) (w_cap st1) then
            let st2 := wb_flush st1 in
            if negb (w_is_ok st2) then st2
            else if Nat.eqb (w_cap st2) 0 then st2
            else wb_string_f f st2 (skipn len bs)
          else wb_string_f f st1 (skipn len bs)
      end
  end.

Definition wb_string (st : wst) (bs : bytes) : wst :=
  if negb (w_is_ok st) then st else wb_string_f (S (length bs)) st bs.

(* object_write_bencode_c_value (int64_t src): '0' | ['-'] digits of |src| as uint64 via _c_string *)
Definition wb_value (st : wst) (z : Z) : wst :=
  if (z =? 0)%Z then wb_char st 48%N
  else if (z <? 0)%Z then wb_string (wb_char st ch_minus) (dec_of_N (Z.to_N (- z)))
  else wb_string st (dec_of_N (Z.to_N z)).

(* object_write_bencode_c_obj_string: size passes through uint32_t *)
Definition wb_obj_string (st : wst) (s : bytes) : wst :=
  let n := (N.of_nat (length s) mod two32)%N in
  wb_string (wb_char (wb_value st (Z.of_N n)) ch_colon) (firstn (N.to_nat n) s).

(* object_write_bencode_c_object *)
Fixpoint wb_object (st : wst) (v : value) : wst :=
  match v with
  | VInt z => wb_char (wb_value (wb_char st ch_i) z) ch_e
  | VStr s => wb_obj_string st s
  | VList l => wb_char (fold_left wb_object l (wb_char st ch_l)) ch_e
  | VMap m => wb_char (fold_left (fun s kv => wb_object (wb_obj_string s (fst kv)) (snd kv)) m (wb_char st ch_d)) ch_e
  end.

(* object_write_bencode_c: "Don't flush the buffer" when pos == buffer.first, otherwise
   writeFunc(data, (first, pos)) — neither callback can fail on a non-empty range *)
Definition wb_finish (st : wst) : wst :=
  if negb (w_is_ok st) then st
  else match w_pend st with
       | [] => st
       | p => mkw (w_sink st) (match w_sink st with SinkKeep => w_cap st | SinkBuffer => 0 end) [] (p :: w_chunks st) (w_status st)
       end.

Definition wb_init (k : sink) (cap : nat) : wst := mkw k cap [] [] WbOk.

Definition wb_run (k : sink) (cap : nat) (v : value) : wst := wb_finish (wb_object (wb_init k cap) v).

(* the byte stream the sink has seen plus what is still pending *)
Definition written (st : wst) : bytes := concat (rev (w_chunks st)) ++ w_pend st.

(* what the driver prints: status and the chunks in order; the tree is normalised first like `encode` *)
Definition wb_encode (k : sink) (cap : nat) (v : value) : wstatus * list bytes :=
  let st := wb_run k cap (normalize v) in (w_status st, rev (w_chunks st)).
