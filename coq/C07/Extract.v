From Coq Require Import Extraction ExtrOcamlBasic.
From LTV.C07 Require Import Model WriteBuf.
Set Extraction Optimize.
Extraction Language OCaml.
Extraction "extracted/c07_model.ml" encode decode_c decode_stream skip_c raw_c normalize wb_encode.
