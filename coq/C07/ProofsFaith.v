(* Faithful decoding: whatever the buffer reader accepts is a value the consumed input denotes
   in (liberal) bencode — in particular integers and string lengths are the true decimal values,
   never wrapped. *)
From Coq Require Import List NArith ZArith Bool Lia ZifyBool ZifyNat ZifyN.
Ltac Zify.zify_post_hook ::= Z.to_euclidean_division_equations.
From LTV Require Import Common.Bytes.
From LTV.C07 Require Import Model ProofsDec ProofsSafe.
Import ListNotations.
Local Open Scope N_scope.

Definition digits_of (ds : bytes) (n : N) : Prop := ds <> [] /\ all_digits ds /\ dval 0 ds = n.

Definition ins_ent (m : list (bytes * value)) (e : bytes * bytes * bytes * value) : list (bytes * value) :=
  let '(kb, k, vb, v) := e in map_insert k v m.
Definition ent_bytes (e : bytes * bytes * bytes * value) : bytes := let '(kb, k, vb, v) := e in kb ++ vb.

(* the liberal bencode relation: leading zeros allowed, dictionary keys in any order, the last
   duplicate wins; "-0", empty digit strings, signs/whitespace are NOT bencode *)
Inductive denotes : bytes -> value -> Prop :=
| den_int ds n : digits_of ds n -> denotes (ch_i :: ds ++ [ch_e]) (VInt (Z.of_N n))
| den_neg c ds n : digits_of (c :: ds) n -> c <> 48 ->
    denotes (ch_i :: ch_minus :: (c :: ds) ++ [ch_e]) (VInt (- Z.of_N n))
| den_str ds s : digits_of ds (N.of_nat (length s)) -> denotes (ds ++ ch_colon :: s) (VStr s)
| den_list bs vs : Forall2 denotes bs vs -> denotes (ch_l :: concat bs ++ [ch_e]) (VList vs)
| den_map ents : den_ents ents ->
    denotes (ch_d :: concat (map ent_bytes ents) ++ [ch_e]) (VMap (fold_left ins_ent ents []))
with den_ents : list (bytes * bytes * bytes * value) -> Prop :=
| de_nil : den_ents []
| de_cons kb k vb v ents : denotes kb (VStr k) -> denotes vb v -> den_ents ents ->
    den_ents ((kb, k, vb, v) :: ents).

(* ---------------------------------------------------------------- leaf parsers *)
Lemma c_len_digits_spec : forall l acc len l1,
  acc < two32 -> c_len_digits l acc true = Some (len, l1) ->
  exists ds, all_digits ds /\ l = ds ++ l1 /\ len = dval acc ds.
Proof.
  induction l as [|c l IH]; intros acc len l1 Ha H; cbn [c_len_digits] in H.
  - inversion H; subst. exists []. repeat split; constructor.
  - destruct (is_digit c) eqn:Hc.
    + cbn [andb] in H. unfold two32 in *.
      destruct (N.ltb_spec ((4294967296 - 1 - digit_val c) / 10) acc) as [|Hle]; [discriminate|].
      assert (Hd : digit_val c <= 9) by (apply is_digit_spec in Hc; unfold digit_val; lia).
      rewrite N.mod_small in H by lia.
      apply IH in H; [|lia]. destruct H as (ds & Hds & -> & ->).
      exists (c :: ds). repeat split; try reflexivity; constructor; assumption.
    + inversion H; subst. exists []. repeat split; constructor.
Qed.

Lemma c_string_spec l s rest :
  N.of_nat (length l) < two31 -> c_string l = Ok s rest ->
  exists ds, digits_of ds (N.of_nat (length s)) /\ l = ds ++ ch_colon :: s ++ rest.
Proof.
  intros Hshort H. unfold c_string in H.
  destruct l as [|c l'].
  { cbn in H. discriminate. }
  cbn [c_len_digits] in H. destruct (is_digit c) eqn:Hc.
  - cbn [andb] in H.
    assert (E : (two31 * 10 + digit_val c) mod two32 = digit_val c).
    { unfold two31, two32, digit_val. apply is_digit_spec in Hc. lia. }
    rewrite E in H.
    destruct (c_len_digits l' (digit_val c) true) as [[len l1]|] eqn:E1; [|discriminate].
    apply c_len_digits_spec in E1; [|apply is_digit_spec in Hc; unfold digit_val, two32; lia].
    destruct E1 as (ds & Hds & -> & ->).
    destruct (_ || _); [discriminate|].
    destruct l1 as [|c1 l2]; [discriminate|].
    destruct (N.eqb_spec c1 ch_colon) as [->|]; [|discriminate].
    destruct (N.ltb_spec (N.of_nat (length l2)) (dval (digit_val c) ds)) as [|Hge]; [discriminate|].
    inversion H; subst. exists (c :: ds). split.
    + repeat split; [discriminate|constructor; assumption|].
      rewrite firstn_length. change (dval 0 (c :: ds)) with (dval (0 * 10 + digit_val c) ds).
      rewrite N.mul_0_l, N.add_0_l. lia.
    + cbn [app]. rewrite firstn_skipn. reflexivity.
  - (* no digits: the marker bit makes the length check fail on buffers shorter than 2^31 *)
    exfalso.
    assert (Hd : N.of_nat (length (c :: l')) mod two32 = N.of_nat (length (c :: l'))).
    { apply N.mod_small. unfold two31, two32 in *. lia. }
    rewrite Hd in H.
    assert (Hl : (two31 + 1) mod two32 = two31 + 1) by reflexivity. rewrite Hl in H.
    destruct (N.ltb_spec (N.of_nat (length (c :: l'))) (two31 + 1)) as [|Hge]; [cbn [orb] in H; discriminate|].
    unfold two31 in *. lia.
Qed.

Lemma c_digits_pos_spec : forall l a z rest,
  (Z.of_N a <= int64_max)%Z -> c_digits_pos l (Z.of_N a) = Some (z, rest) ->
  exists ds, all_digits ds /\ l = ds ++ rest /\ z = Z.of_N (dval a ds) /\ (z <= int64_max)%Z.
Proof.
  induction l as [|c l IH]; intros a z rest Ha H; cbn [c_digits_pos] in H.
  - inversion H; subst. exists []. repeat split; [constructor|exact Ha].
  - destruct (is_digit c) eqn:Hc.
    + unfold int64_max in *.
      destruct (Z.gtb_spec (Z.of_N a) ((9223372036854775807 - Z.of_N (digit_val c)) / 10)) as [|Hle]; [discriminate|].
      replace (Z.of_N a * 10 + Z.of_N (digit_val c))%Z with (Z.of_N (a * 10 + digit_val c)) in H by lia.
      apply IH in H; [|lia]. destruct H as (ds & Hds & -> & -> & Hr).
      exists (c :: ds). repeat split; [constructor; assumption|exact Hr].
    + inversion H; subst. exists []. repeat split; [constructor|exact Ha].
Qed.

Lemma c_digits_neg_spec : forall l a z rest,
  (Z.of_N a <= - int64_min)%Z -> c_digits_neg l (- Z.of_N a) = Some (z, rest) ->
  exists ds, all_digits ds /\ l = ds ++ rest /\ z = (- Z.of_N (dval a ds))%Z /\ (int64_min <= z)%Z.
Proof.
  induction l as [|c l IH]; intros a z rest Ha H; cbn [c_digits_neg] in H.
  - inversion H; subst. exists []. repeat split; [constructor|cbn [dval fold_left]; lia].
  - destruct (is_digit c) eqn:Hc.
    + unfold int64_min in *.
      destruct (Z.ltb_spec (- Z.of_N a) (Z.quot (-9223372036854775808 + Z.of_N (digit_val c)) 10)) as [|Hle]; [discriminate|].
      replace (- Z.of_N a * 10 - Z.of_N (digit_val c))%Z with (- Z.of_N (a * 10 + digit_val c))%Z in H by lia.
      assert (Hd : digit_val c <= 9) by (apply is_digit_spec in Hc; unfold digit_val; lia).
      apply IH in H; [|lia]. destruct H as (ds & Hds & -> & -> & Hr).
      exists (c :: ds). repeat split; [constructor; assumption|exact Hr].
    + inversion H; subst. exists []. repeat split; [constructor|cbn [dval fold_left]; lia].
Qed.

(* what c_value accepts: digits+ or '-' [1-9] digits*, with the exact value, inside int64 *)
Lemma c_value_spec l z rest :
  c_value l = Some (z, rest) ->
  in_int64 z = true /\
  ((exists ds n, digits_of ds n /\ l = ds ++ rest /\ z = Z.of_N n) \/
   (exists c ds n, digits_of (c :: ds) n /\ c <> 48 /\ l = ch_minus :: (c :: ds) ++ rest /\ z = (- Z.of_N n)%Z)).
Proof.
  unfold c_value. destruct l as [|c l']; [discriminate|].
  destruct (N.eqb_spec c ch_minus) as [->|Hcm].
  - destruct l' as [|c1 l'']; [discriminate|].
    destruct (N.leb_spec c1 48) as [|H48]; [discriminate|].
    destruct (N.ltb_spec 57 c1) as [|H57]; [discriminate|]. cbn [orb].
    assert (Hc1 : is_digit c1 = true) by (apply is_digit_spec; lia).
    cbn [c_digits_neg]. rewrite Hc1.
    assert (Hd : 1 <= digit_val c1 <= 9) by (unfold digit_val; lia).
    unfold int64_min.
    destruct (Z.ltb_spec 0 (Z.quot (-9223372036854775808 + Z.of_N (digit_val c1)) 10)) as [|_]; [lia|].
    replace (0 * 10 - Z.of_N (digit_val c1))%Z with (- Z.of_N (digit_val c1))%Z by lia.
    intros H. apply c_digits_neg_spec in H; [|unfold int64_min; lia].
    destruct H as (ds & Hds & -> & -> & Hr).
    split.
    + unfold in_int64, int64_min, int64_max in *. apply andb_true_iff. split; apply Z.leb_le; lia.
    + right. exists c1, ds, (dval (digit_val c1) ds).
      repeat split; try discriminate; try (constructor; assumption); try reflexivity; lia.
  - destruct (is_digit c) eqn:Hc; [|discriminate].
    cbn [c_digits_pos]. rewrite Hc.
    assert (Hd : digit_val c <= 9) by (apply is_digit_spec in Hc; unfold digit_val; lia).
    unfold int64_max.
    destruct (Z.gtb_spec 0 ((9223372036854775807 - Z.of_N (digit_val c)) / 10)) as [|_]; [lia|].
    replace (0 * 10 + Z.of_N (digit_val c))%Z with (Z.of_N (digit_val c)) by lia.
    intros H. apply c_digits_pos_spec in H; [|unfold int64_max; lia].
    destruct H as (ds & Hds & -> & -> & Hr).
    split.
    + unfold in_int64, int64_min, int64_max in *. apply andb_true_iff. split; apply Z.leb_le; lia.
    + left. exists (c :: ds), (dval (digit_val c) ds).
      repeat split; try discriminate; try (constructor; assumption); reflexivity.
Qed.

(* ---------------------------------------------------------------- the decoder *)
Definition small (l : bytes) : Prop := N.of_nat (length l) < two31.

Lemma small_suffix pre r : small (pre ++ r) -> small r.
Proof. unfold small. rewrite app_length. lia. Qed.

Lemma dec_c_faithful_all : forall f,
  (forall d l x r, small l -> dec_c f d l = Ok x r -> exists pre, l = pre ++ r /\ denotes pre (fst x)) /\
  (forall d l acc fl x r, small l -> items_c f d l acc fl = Ok x r ->
     exists bs vs, l = concat bs ++ ch_e :: r /\ Forall2 denotes bs vs /\ fst x = VList (rev acc ++ vs)) /\
  (forall d l m prev fl x r, small l -> entries_c f d l m prev fl = Ok x r ->
     exists ents, l = concat (map ent_bytes ents) ++ ch_e :: r /\
       den_ents ents /\
       fst x = VMap (fold_left ins_ent ents m)).
Proof.
  induction f as [|f (IHd & IHi & IHe)].
  - repeat split; intros; cbn in *; discriminate.
  - split; [|split].
    + intros d l x r Hs H. cbn [dec_c] in H. destruct l as [|c l']; [discriminate|].
      destruct (N.eqb_spec c ch_i) as [->|Hi].
      { destruct (c_value l') as [[z [|e rest]]|] eqn:E; try discriminate.
        destruct (N.eqb_spec e ch_e) as [->|]; [|discriminate]. inversion H; subst. cbn [fst].
        apply c_value_spec in E. destruct E as [_ [(ds & n & Hds & -> & ->)|(c & ds & n & Hds & Hc & -> & ->)]].
        - exists (ch_i :: ds ++ [ch_e]). split; [cbn [app]; rewrite <- app_assoc; reflexivity|]. apply den_int, Hds.
        - exists (ch_i :: ch_minus :: (c :: ds) ++ [ch_e]). split; [cbn [app]; rewrite <- app_assoc; reflexivity|].
          apply den_neg; assumption. }
      destruct (N.eqb_spec c ch_l) as [->|Hl].
      { destruct (_ <=? _); [discriminate|].
        apply IHi in H; [|apply (small_suffix [ch_l]); exact Hs]. destruct H as (bs & vs & -> & HF & Hx).
        exists (ch_l :: concat bs ++ [ch_e]). split; [cbn [app]; rewrite <- app_assoc; reflexivity|].
        rewrite Hx. cbn [rev app]. apply den_list, HF. }
      destruct (N.eqb_spec c ch_d) as [->|Hd].
      { destruct (_ <=? _); [discriminate|].
        apply IHe in H; [|apply (small_suffix [ch_d]); exact Hs]. destruct H as (ents & -> & HF & Hx).
        exists (ch_d :: concat (map ent_bytes ents) ++ [ch_e]). split; [cbn [app]; rewrite <- app_assoc; reflexivity|].
        rewrite Hx. apply den_map, HF. }
      destruct (is_digit c); [|discriminate].
      destruct (c_string (c :: l')) as [s rest| | |] eqn:E; try discriminate.
      inversion H; subst. cbn [fst].
      apply c_string_spec in E; [|exact Hs]. destruct E as (ds & Hds & ->).
      exists (ds ++ ch_colon :: s). split; [rewrite <- app_assoc; reflexivity|]. apply den_str, Hds.
    + intros d l acc fl x r Hs H. cbn [items_c] in H. destruct l as [|c l']; [discriminate|].
      destruct (N.eqb_spec c ch_e) as [->|He].
      { inversion H; subst. exists [], []. cbn [concat app fst]. rewrite app_nil_r. repeat split. constructor. }
      destruct (dec_c f d (c :: l')) as [[v uf] rest| | |] eqn:E; try discriminate.
      apply IHd in E; [|exact Hs]. destruct E as (pre & Epre & Hden). cbn [fst] in Hden.
      apply IHi in H; [|rewrite Epre in Hs; eapply small_suffix; exact Hs].
      destruct H as (bs & vs & -> & HF & Hx).
      exists (pre :: bs), (v :: vs). split; [rewrite Epre; cbn [concat]; rewrite <- app_assoc; reflexivity|].
      split; [constructor; assumption|]. rewrite Hx. cbn [rev]. rewrite <- app_assoc. reflexivity.
    + intros d l m prev fl x r Hs H. cbn [entries_c] in H. destruct l as [|c l']; [discriminate|].
      destruct (N.eqb_spec c ch_e) as [->|He].
      { inversion H; subst. exists []. cbn [map concat app fst fold_left]. repeat split. constructor. }
      destruct (c_string (c :: l')) as [k rest| | |] eqn:E0; try discriminate.
      apply c_string_spec in E0; [|exact Hs]. destruct E0 as (ds & Hds & E0).
      destruct (dec_c f d rest) as [[v uf] rest'| | |] eqn:E; try discriminate.
      assert (Hsr : small rest).
      { rewrite E0 in Hs. replace (ds ++ ch_colon :: k ++ rest) with ((ds ++ ch_colon :: k) ++ rest) in Hs
          by (rewrite <- app_assoc; reflexivity). eapply small_suffix; exact Hs. }
      apply IHd in E; [|exact Hsr]. destruct E as (pre & Epre & Hden). cbn [fst] in Hden.
      apply IHe in H; [|rewrite Epre in Hsr; eapply small_suffix; exact Hsr].
      destruct H as (ents & -> & HF & Hx).
      exists ((ds ++ ch_colon :: k, k, pre, v) :: ents). split.
      { rewrite E0, Epre. cbn [map concat ent_bytes]. rewrite <- ?app_assoc. cbn [app]. rewrite <- ?app_assoc. reflexivity. }
      split; [constructor; [apply den_str, Hds|exact Hden|exact HF]|].
      rewrite Hx. reflexivity.
Qed.

Theorem decode_c_faithful l v fl r :
  small l -> decode_c l = Ok (v, fl) r -> exists pre, l = pre ++ r /\ denotes pre v.
Proof.
  intros Hs H. unfold decode_c in H.
  apply (proj1 (dec_c_faithful_all _)) in H; [|exact Hs]. exact H.
Qed.

(* integers returned are in int64 range: the model's unbounded Z arithmetic in c_digits_pos /
   c_digits_neg coincides with the code's int64 arithmetic (no overflow can occur) *)
Theorem c_value_in_range l z rest : c_value l = Some (z, rest) -> in_int64 z = true.
Proof. intros H. apply c_value_spec in H. tauto. Qed.
