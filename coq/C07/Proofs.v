From Coq Require Import List NArith ZArith Bool Lia.
From LTV Require Import Common.Bytes.
From LTV.C07 Require Import ParamsGen.
From LTV.C07 Require Import Model.
Import ListNotations.
Local Open Scope N_scope.

(* the generated constants satisfy the side conditions the theorems need *)
Definition params_ok : bool :=
  (Params.bencode_c_depth_limit =? 1024) && (Params.bencode_stream_depth_limit =? 1024) &&
  (Params.bencode_skip_stack =? 128) && (Params.bencode_stream_string_limit =? 33554432).
Lemma params_ok_now : params_ok = true.
Proof. vm_compute. reflexivity. Qed.
