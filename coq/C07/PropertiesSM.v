(* C07 — static-map / raw reader theorems. Statements only; proofs are in ProofsSM*.v. *)
From Coq Require Import List NArith ZArith Bool.
From LTV Require Import Common.Bytes.
From LTV.C07 Require Import Model StaticMap ProofsSM.
Import ListNotations.
Local Open Scope N_scope.

Theorem sm_params_ok_now : ProofsSM.sm_params_ok = true.
Proof. exact ProofsSM.sm_params_ok_now. Qed.
Print Assumptions sm_params_ok_now.

Theorem real_tables_ok : forallb table_ok [ext_handshake; ext_pex; ext_metadata; dht] = true.
Proof. exact ProofsSM.real_tables_ok. Qed.
Print Assumptions real_tables_ok.
