(* C07 — static-map / raw reader theorems. Statements only; proofs are in ProofsSM*.v. Each theorem
   is followed by Print Assumptions. Model: coq/C07/StaticMap.v (+ Model.v), tied to /repo by the
   correspondence check props/c07sm.py. *)
From Coq Require Import List NArith ZArith Bool.
From LTV Require Import Common.Bytes.
From LTV.C07 Require Import Model ProofsDec ProofsSafe ProofsFaith StaticMap ProofsSM ProofsSMTotal ProofsSMFaith ProofsSMRT.
Import ListNotations.
Local Open Scope N_scope.

(* constants re-extracted from the source: max_key_size 16, stack[8], current_key[16 + 2] *)
Theorem sm_params_ok_now : ProofsSM.sm_params_ok = true.
Proof. exact ProofsSM.sm_params_ok_now. Qed.
Print Assumptions sm_params_ok_now.

(* generated obligation: the four REAL key tables (re-extracted on every run) satisfy the side
   condition of the theorems below (indices inside the value array, keys of <= 15 non-NUL chars) *)
Theorem real_tables_ok : forallb table_ok [ext_handshake; ext_pex; ext_metadata; dht] = true.
Proof. exact ProofsSM.real_tables_ok. Qed.
Print Assumptions real_tables_ok.

(* ... and the writer's extra condition (every ':' / '[' of a key is part of "::" / "[]") *)
Theorem real_tables_w_ok : forallb table_w_ok [ext_handshake; ext_pex; ext_metadata; dht] = true.
Proof. exact ProofsSM.real_tables_w_ok. Qed.
Print Assumptions real_tables_w_ok.

(* Totality and memory safety of static_map_read_bencode_c on ARBITRARY input (shorter than 2^32
   bytes) for EVERY table with table_ok: never Fault — no read outside the input, no write outside
   char current_key[18], no read outside key[16], stack index < 8 (the depth bound is DERIVED from the
   key length: each "::" level advances next_key by >= 2 and next_key <= 15), no store outside the
   value array, the internal_error default branch unreachable — never OutOfFuel with the fuel of
   the top-level definition; an accepting run consumes at least one byte and keeps the array size. *)
Theorem static_map_total : forall tbl l, table_ok tbl = true -> short l ->
  sm_read tbl l <> Fault /\ sm_read tbl l <> OutOfFuel /\
  (forall e r, sm_read tbl l = Ok e r -> (length r < length l)%nat /\ length e = length tbl).
Proof. exact ProofsSMTotal.static_map_total. Qed.
Print Assumptions static_map_total.

Example static_map_total_nonvacuous :
  table_ok dht = true /\ short [100; 49; 58; 116; 50; 58; 97; 97; 101] /\
  exists e, sm_read dht [100; 49; 58; 116; 50; 58; 97; 97; 101] = Ok e [] /\ nth 12 e None = Some (SRaw RawS [97; 97]).
Proof. split; [reflexivity|]. split; [unfold short, two32; cbn; reflexivity|]. eexists. split; vm_compute; reflexivity. Qed.

(* the same when reading into a map that already holds values (duplicate reads into one object) *)
Theorem static_map_total_into : forall tbl e l, table_ok tbl = true -> short l -> length e = length tbl ->
  sm_read_into tbl e l <> Fault /\ sm_read_into tbl e l <> OutOfFuel /\
  (forall e' r, sm_read_into tbl e l = Ok e' r -> (length r < length l)%nat /\ length e' = length tbl).
Proof. exact ProofsSMTotal.sm_read_into_total. Qed.
Print Assumptions static_map_total_into.

(* the raw reader (object_read_bencode_raw_c) is total as well *)
Theorem raw_c_total : forall k l, short l ->
  raw_c k l <> Fault /\ raw_c k l <> OutOfFuel /\ (forall x r, raw_c k l = Ok x r -> (length r < length l)%nat).
Proof. exact ProofsSMTotal.raw_c_total. Qed.
Print Assumptions raw_c_total.

(* Raw readers return exactly the bytes the skip reader delimits: the consumed prefix `pre` is what
   skip_c consumes; the untyped view is `pre` itself, the string view is `pre` minus its
   "<digits>:" header, the list/map views are `pre` minus its first and last byte. *)
Theorem raw_readers_exact : forall k l o r, short l -> raw_c k l = Ok o r ->
  skip_c l = Ok tt r /\
  exists pre, l = pre ++ r /\
    match o with
    | None => True
    | Some b =>
        match k with
        | RawAny => b = pre
        | RawS => exists ds, all_digits ds /\ pre = ds ++ ch_colon :: b
        | RawL => exists c0 cl, ch_l <= c0 /\ pre = c0 :: b ++ [cl]
        | RawM => exists c0 cl, ch_d <= c0 /\ pre = c0 :: b ++ [cl]
        end
    end.
Proof. exact ProofsSMFaith.raw_c_exact. Qed.
Print Assumptions raw_readers_exact.

Example raw_readers_exact_nonvacuous :
  raw_c RawS [50; 58; 97; 98; 101] = Ok (Some [97; 98]) [101] /\ raw_c RawL [108; 105; 49; 101; 101] = Ok (Some [105; 49; 101]) [].
Proof. split; vm_compute; reflexivity. Qed.

(* ... but the map view is handed out for values that are NOT dictionaries (raw_bencode::is_raw_map
   tests m_data[0] >= 'd', which 'i' and 'l' satisfy): a "*M" key stores raw_map("5") for "i5e" *)
Theorem raw_map_type_refuted :
  exists l b r, raw_c RawM l = Ok (Some b) r /\ hd 0 l <> ch_d /\
                sm_read [(0, [107; 42; 77])] (ch_d :: [49; 58; 107] ++ l ++ [ch_e]) = Ok [Some (SRaw RawM b)] [].
Proof. exact ProofsSMFaith.raw_map_type_refuted. Qed.
Print Assumptions raw_map_type_refuted.

(* Unknown keys (longer than the room left in current_key, or not found from the first_key cursor):
   one loop iteration continues at exactly the position the skip reader delimits, with the same
   cursor, stack and entries (only the scratch buffer current_key may differ). *)
Theorem unknown_keys_skipped_exactly : forall tbl f st l rk rest u rest',
  hd 0 l <> ch_e -> c_string l = Ok rk rest -> key_unknown tbl st rk -> skip_c rest = Ok u rest' ->
  exists cur', sm_loop tbl (S f) st l = sm_loop tbl f (mkst (s_cursor st) (s_stack st) cur' (s_ents st)) rest'.
Proof. exact ProofsSMFaith.unknown_keys_skipped_exactly. Qed.
Print Assumptions unknown_keys_skipped_exactly.

Example unknown_keys_nonvacuous :
  sm_read ext_metadata [100; 49; 58; 122; 108; 105; 49; 101; 101; 101] = Ok [None; None; None] [].
Proof. vm_compute. reflexivity. Qed.

(* Faithfulness at segment level, for EVERY table and input shorter than 2^31 bytes: every value the
   reader stores was read from a segment of the input, and is what that segment denotes — plain
   entries in the liberal bencode relation `denotes` of ProofsFaith.v (true decimal values, never
   wrapped), raw entries byte-for-byte. *)
Theorem static_map_faithful : forall tbl l e r, small l -> sm_read tbl l = Ok e r ->
  forall i sv, nth_error e i = Some (Some sv) ->
  exists pre vb suf, l = pre ++ vb ++ suf /\
    match sv with
    | SObj v _ => denotes vb v
    | SRaw RawAny b => b = vb
    | SRaw RawS b => exists ds, all_digits ds /\ vb = ds ++ ch_colon :: b
    | SRaw RawL b => exists c0 cl, ch_l <= c0 /\ vb = c0 :: b ++ [cl]
    | SRaw RawM b => exists c0 cl, ch_d <= c0 /\ vb = c0 :: b ++ [cl]
    end.
Proof. exact ProofsSMFaith.static_map_faithful. Qed.
Print Assumptions static_map_faithful.

(* The stronger reading "the stored value is the value of THE TABLE'S KEY in the dictionary the input
   denotes" is FALSE of the code: (1) C-string semantics of current_key: the input key "v\0x" fills the
   entry of "v" (real extension-handshake table) *)
Theorem static_map_key_exact_refuted :
  exists l e, table_ok ext_handshake = true /\
    sm_read ext_handshake l = Ok e [] /\ nth 6 e None = Some (SObj (VStr [97]) false) /\
    nth_error ext_handshake 6 = Some (6, [118]) /\
    l = [100; 51; 58; 118; 0; 120; 49; 58; 97; 101].
Proof. exact ProofsSMFaith.static_map_key_exact_refuted. Qed.
Print Assumptions static_map_key_exact_refuted.

(* (2) an input key that spells the table's path syntax literally ("m::ut_pex" as ONE key) reaches the
   nested entry *)
Theorem static_map_key_alias_refuted :
  exists l e, sm_read ext_handshake l = Ok e [] /\ nth 2 e None = Some (SObj (VInt 1) false) /\
    l = [100; 57; 58; 109; 58; 58; 117; 116; 95; 112; 101; 120; 105; 49; 101; 101].
Proof. exact ProofsSMFaith.static_map_key_alias_refuted. Qed.
Print Assumptions static_map_key_alias_refuted.

(* Round trip. PARTIAL (see the header of ProofsSMRT.v for what is missing): explicit instances over
   each real table and a synthetic nested table (computed), and the empty map for EVERY table. *)
Theorem static_map_roundtrip_partial :
  rt_holds ext_handshake inst_handshake = true /\ rt_holds ext_handshake inst_handshake2 = true /\
  rt_holds ext_pex inst_pex = true /\ rt_holds ext_metadata inst_metadata = true /\
  rt_holds dht inst_dht_query = true /\ rt_holds dht inst_dht_reply = true /\
  table_ok synth_tbl = true /\ rt_holds synth_tbl inst_synth = true.
Proof. exact ProofsSMRT.static_map_roundtrip_instances. Qed.
Print Assumptions static_map_roundtrip_partial.

Theorem static_map_roundtrip_empty : forall tbl r, table_ok tbl = true ->
  sm_write tbl (empty_entries tbl) = WOk [] [ch_d; ch_e] /\
  sm_read tbl ([ch_d; ch_e] ++ r) = Ok (empty_entries tbl) r.
Proof. exact ProofsSMRT.static_map_roundtrip_empty. Qed.
Print Assumptions static_map_roundtrip_empty.
