(* C07 — static-map / raw reader theorems. Statements only; proofs are in ProofsSM*.v. Each theorem
   is followed by Print Assumptions. Model: coq/C07/StaticMap.v (+ Model.v), tied to /repo by the
   correspondence check props/c07sm.py. *)
From Coq Require Import List NArith ZArith Bool.
From LTV Require Import Common.Bytes.
From LTV.C07 Require Import Model ProofsDec ProofsSafe ProofsRT ProofsFaith StaticMap ProofsSM ProofsSMTotal ProofsSMFaith ProofsSMRT ProofsSMRound ProofsSMWrite.
Import ListNotations.
Local Open Scope N_scope.

(* constants re-extracted from the source: max_key_size 16, stack[8], current_key[16 + 2] *)
Theorem sm_params_ok_now : ProofsSM.sm_params_ok = true.
Proof. exact ProofsSM.sm_params_ok_now. Qed.
Print Assumptions sm_params_ok_now.

(* generated obligation: the four REAL key tables (re-extracted on every run) satisfy the side
   condition of the theorems below (indices inside the value array, keys of <= 15 non-NUL chars) *)
Theorem real_tables_ok : forallb table_ok [ext_handshake; ext_pex; ext_metadata; dht] = true.
Proof. exact ProofsSM.real_tables_ok. Qed.
Print Assumptions real_tables_ok.

(* ... and the writer's extra condition (every ':' / '[' of a key is part of "::" / "[]") *)
Theorem real_tables_w_ok : forallb table_w_ok [ext_handshake; ext_pex; ext_metadata; dht] = true.
Proof. exact ProofsSM.real_tables_w_ok. Qed.
Print Assumptions real_tables_w_ok.

(* Totality and memory safety of static_map_read_bencode_c on ARBITRARY input (shorter than 2^32
   bytes) for EVERY table with table_ok: never Fault — no read outside the input, no write outside
   char current_key[18], no read outside key[16], stack index < 8 (the depth bound is DERIVED from the
   key length: each "::" level advances next_key by >= 2 and next_key <= 15), no store outside the
   value array, the internal_error default branch unreachable — never OutOfFuel with the fuel of
   the top-level definition; an accepting run consumes at least one byte and keeps the array size. *)
Theorem static_map_total : forall tbl l, table_ok tbl = true -> short l ->
  sm_read tbl l <> Fault /\ sm_read tbl l <> OutOfFuel /\
  (forall e r, sm_read tbl l = Ok e r -> (length r < length l)%nat /\ length e = length tbl).
Proof. exact ProofsSMTotal.static_map_total. Qed.
Print Assumptions static_map_total.

Example static_map_total_nonvacuous :
  table_ok dht = true /\ short [100; 49; 58; 116; 50; 58; 97; 97; 101] /\
  exists e, sm_read dht [100; 49; 58; 116; 50; 58; 97; 97; 101] = Ok e [] /\ nth 12 e None = Some (SRaw RawS [97; 97]).
Proof. split; [reflexivity|]. split; [unfold short, two32; cbn; reflexivity|]. eexists. split; vm_compute; reflexivity. Qed.

(* the same when reading into a map that already holds values (duplicate reads into one object) *)
Theorem static_map_total_into : forall tbl e l, table_ok tbl = true -> short l -> length e = length tbl ->
  sm_read_into tbl e l <> Fault /\ sm_read_into tbl e l <> OutOfFuel /\
  (forall e' r, sm_read_into tbl e l = Ok e' r -> (length r < length l)%nat /\ length e' = length tbl).
Proof. exact ProofsSMTotal.sm_read_into_total. Qed.
Print Assumptions static_map_total_into.

(* the raw reader (object_read_bencode_raw_c) is total as well *)
Theorem raw_c_total : forall k l, short l ->
  raw_c k l <> Fault /\ raw_c k l <> OutOfFuel /\ (forall x r, raw_c k l = Ok x r -> (length r < length l)%nat).
Proof. exact ProofsSMTotal.raw_c_total. Qed.
Print Assumptions raw_c_total.

(* Raw readers return exactly the bytes the skip reader delimits: the consumed prefix `pre` is what
   skip_c consumes; the untyped view is `pre` itself, the string view is `pre` minus its
   "<digits>:" header, the list/map views are `pre` minus its first and last byte. *)
Theorem raw_readers_exact : forall k l o r, short l -> raw_c k l = Ok o r ->
  skip_c l = Ok tt r /\
  exists pre, l = pre ++ r /\
    match o with
    | None => True
    | Some b =>
        match k with
        | RawAny => b = pre
        | RawS => exists ds, all_digits ds /\ pre = ds ++ ch_colon :: b
        | RawL => exists cl, pre = ch_l :: b ++ [cl]
        | RawM => exists cl, pre = ch_d :: b ++ [cl]
        end
    end.
Proof. exact ProofsSMFaith.raw_c_exact. Qed.
Print Assumptions raw_readers_exact.

Example raw_readers_exact_nonvacuous :
  raw_c RawS [50; 58; 97; 98; 101] = Ok (Some [97; 98]) [101] /\ raw_c RawL [108; 105; 49; 101; 101] = Ok (Some [105; 49; 101]) [].
Proof. split; vm_compute; reflexivity. Qed.

(* Raw views have the right type (after fix 100e504: raw_bencode::is_value / is_raw_list / is_raw_map
   compare with ==): whenever a view is stored, the input starts with a value of exactly that kind and
   the view is its content — a string's bytes, the bytes between 'l' / 'd' and the container's own
   closing 'e' — and the reader stops right after that value. *)
Theorem raw_type_exact : forall k l b r, short l -> raw_c k l = Ok (Some b) r ->
  skip_c l = Ok tt r /\
  match k with
  | RawAny => l = b ++ r
  | RawS => exists ds, all_digits ds /\ l = ds ++ ch_colon :: b ++ r
  | RawL => l = ch_l :: b ++ ch_e :: r
  | RawM => l = ch_d :: b ++ ch_e :: r
  end.
Proof. exact ProofsSMFaith.raw_type_exact. Qed.
Print Assumptions raw_type_exact.

(* regression of the former witness: a "*M" key over an integer or a list stores nothing *)
Example raw_type_regression :
  raw_c RawM [105; 53; 101] = Ok None [] /\ raw_c RawM [108; 105; 53; 101; 101] = Ok None [] /\
  raw_c RawL [100; 101] = Ok None [] /\ raw_c RawM [100; 101] = Ok (Some []) [] /\
  sm_read [(0, [107; 42; 77])] [100; 49; 58; 107; 105; 53; 101; 101] = Ok [None] [].
Proof. repeat split; vm_compute; reflexivity. Qed.

(* Unknown keys (longer than the room left in current_key, holding NUL / ':' / '[' / '*', or not found
   from the first_key cursor):
   one loop iteration continues at exactly the position the skip reader delimits, with the same
   cursor, stack and entries (only the scratch buffer current_key may differ). *)
Theorem unknown_keys_skipped_exactly : forall tbl f st l rk rest u rest',
  hd 0 l <> ch_e -> c_string l = Ok rk rest -> key_unknown tbl st rk -> skip_c rest = Ok u rest' ->
  exists cur', sm_loop tbl (S f) st l = sm_loop tbl f (mkst (s_cursor st) (s_stack st) cur' (s_ents st)) rest'.
Proof. exact ProofsSMFaith.unknown_keys_skipped_exactly. Qed.
Print Assumptions unknown_keys_skipped_exactly.

Example unknown_keys_nonvacuous :
  sm_read ext_metadata [100; 49; 58; 122; 108; 105; 49; 101; 101; 101] = Ok [None; None; None] [].
Proof. vm_compute. reflexivity. Qed.

(* Faithfulness at segment level, for EVERY table and input shorter than 2^31 bytes: every value the
   reader stores was read from a segment of the input, and is what that segment denotes — plain
   entries in the liberal bencode relation `denotes` of ProofsFaith.v (true decimal values, never
   wrapped), raw entries byte-for-byte. *)
Theorem static_map_faithful : forall tbl l e r, small l -> sm_read tbl l = Ok e r ->
  forall i sv, nth_error e i = Some (Some sv) ->
  exists pre vb suf, l = pre ++ vb ++ suf /\
    match sv with
    | SObj v _ => denotes vb v
    | SRaw RawAny b => b = vb
    | SRaw RawS b => exists ds, all_digits ds /\ vb = ds ++ ch_colon :: b
    | SRaw RawL b => vb = ch_l :: b ++ [ch_e]
    | SRaw RawM b => vb = ch_d :: b ++ [ch_e]
    end.
Proof. exact ProofsSMFaith.static_map_faithful. Qed.
Print Assumptions static_map_faithful.

(* Destination independence: static_map_read_bencode_c INTO a map that already holds (stale) values
   leaves every entry either read from the input — denoting its segment as above — or exactly the
   value the map held before at that index. (Checked on the implementation by the RI cases: stale
   values of the same kind, trees with the unordered flag set, other kinds.) *)
Theorem static_map_faithful_into : forall tbl e0 l e r, small l -> sm_read_into tbl e0 l = Ok e r ->
  forall i sv, nth_error e i = Some (Some sv) ->
  (exists pre vb suf, l = pre ++ vb ++ suf /\
    match sv with
    | SObj v _ => denotes vb v
    | SRaw RawAny b => b = vb
    | SRaw RawS b => exists ds, all_digits ds /\ vb = ds ++ ch_colon :: b
    | SRaw RawL b => vb = ch_l :: b ++ [ch_e]
    | SRaw RawM b => vb = ch_d :: b ++ [ch_e]
    end) \/ nth_error e0 i = Some (Some sv).
Proof. exact ProofsSMFaith.static_map_faithful_into. Qed.
Print Assumptions static_map_faithful_into.

Example static_map_into_nonvacuous :
  sm_read_into ext_handshake [None; None; None; None; None; None; Some (SObj (VStr [111; 108; 100]) true)]
    [100; 49; 58; 118; 50; 58; 120; 121; 101]
  = Ok [None; None; None; None; None; None; Some (SObj (VStr [120; 121]) false)] [].
Proof. vm_compute. reflexivity. Qed.

(* Key exactness (after fix a215a35): an entry is filled only through an input key that equals the
   table key's path component byte for byte. `inv` is the loop invariant of the reader: it holds
   initially (init_inv) and is re-established at every recursive call in the proof of static_map_total,
   hence in every state the loop reaches; it includes pref_ok: the part of current_key below next_key
   is the "::"-terminated prefix of the table row matched when the enclosing dictionary was entered.
   In such a state, if the lookup of the input key rk (not skipped: it fits and holds no NUL / ':' /
   '[' / '*') succeeds at row (idx, k) with terminator position base, then base = next_key + |rk|
   (nothing truncated), k[next_key + j] = rk[j] for every j < |rk|, k[j] = current_key[j] below
   next_key, and k[base] is a terminator (NUL, '*', "::" or "[]"). *)
Theorem static_map_key_exact : forall tbl st rk b1 b2 len pos base,
  table_ok tbl = true -> inv tbl st ->
  N.of_nat (length rk) < 16 - top_key st -> existsb is_not_key_char rk = false ->
  buf_write (s_cur st) (N.to_nat (top_key st)) rk = Some b1 ->
  set_nth b1 (N.to_nat (top_key st + N.of_nat (length rk))) 0 = Some b2 ->
  c_strlen b2 = Some len ->
  find_key (skipn (s_cursor st) tbl) (s_cursor st) (firstn len b2) = FkSome pos base ->
  exists idx k, nth_error tbl pos = Some (idx, k) /\ is_term k base /\
    base = top_key st + N.of_nat (length rk) /\
    (forall j, (j < length rk)%nat -> nth (N.to_nat (top_key st) + j) k 0 = nth j rk 0) /\
    (forall j, (j < N.to_nat (top_key st))%nat -> nth j k 0 = nth j (s_cur st) 0).
Proof. exact ProofsSMTotal.static_map_key_exact. Qed.
Print Assumptions static_map_key_exact.

Theorem static_map_inv_initial : forall tbl e, length e = length tbl -> inv tbl (init_st e).
Proof. exact ProofsSMTotal.init_inv. Qed.
Print Assumptions static_map_inv_initial.

(* regression of the former witnesses: "d3:v\0x1:ae", "d9:m::ut_pexi1ee" (extension handshake) and
   "d3:e[]li1eee" (DHT) are accepted and fill NOTHING; the genuine nested form still fills m -> ut_pex *)
Example static_map_key_regression :
  sm_read ext_handshake [100; 51; 58; 118; 0; 120; 49; 58; 97; 101] = Ok (empty_entries ext_handshake) [] /\
  sm_read ext_handshake [100; 57; 58; 109; 58; 58; 117; 116; 95; 112; 101; 120; 105; 49; 101; 101]
    = Ok (empty_entries ext_handshake) [] /\
  sm_read dht [100; 51; 58; 101; 91; 93; 108; 105; 49; 101; 101; 101] = Ok (empty_entries dht) [] /\
  exists e, sm_read ext_handshake [100; 49; 58; 109; 100; 54; 58; 117; 116; 95; 112; 101; 120; 105; 49; 101; 101; 101] = Ok e [] /\
            nth 2 e None = Some (SObj (VInt 1) false).
Proof. repeat split; try (vm_compute; reflexivity). eexists. split; vm_compute; reflexivity. Qed.

(* ---------------------------------------------------------------- round trip (writer, then reader)
   generated obligation: the four real key tables satisfy the round-trip side condition table_rt_ok
   (StaticMap.v: index = position; from every dictionary level of every key, every component lookup
   succeeds from every cursor position — the leaf at the row itself, no earlier match, no blocking
   sibling; same leaf kind from every level) *)
Theorem real_tables_rt_ok : forallb table_rt_ok [ext_handshake; ext_pex; ext_metadata; dht] = true.
Proof. exact ProofsSM.real_tables_rt_ok. Qed.
Print Assumptions real_tables_rt_ok.

(* the condition is not vacuous in the other direction either: it refuses a table whose sibling blocks a
   lookup (find_key_match's `break`: "ab" before "a"), a duplicate key, and an upper-case sibling
   sorting before "::" *)
Example table_rt_ok_refuses :
  table_rt_ok [(0, [97; 98]); (1, [97])] = false /\ table_rt_ok [(0, [97]); (1, [97])] = false /\
  table_rt_ok [(0, [97; 66]); (1, [97; 58; 58; 98])] = false /\ table_rt_ok [(0, [97]); (1, [97; 98])] = true.
Proof. repeat split; vm_compute; reflexivity. Qed.

(* For EVERY table with table_rt_ok and EVERY entry assignment e with entries_rt_ok (one entry per
   row; a filled entry sits on a row without "[]" and its value round-trips through the reader the
   row selects: value_rt, established below for every kind of row) followed by ANY bytes r: the writer
   succeeds (never Fault / internal_error, stack within 8 entries), and reading its output back — the
   whole shorter than 2^32 bytes — returns exactly e and stops exactly at r. Nested "::" dictionaries
   of any depth are covered. *)
Theorem static_map_roundtrip : forall tbl e r,
  table_rt_ok tbl = true -> entries_rt_ok tbl e ->
  exists out, sm_write tbl e = WOk [] out /\
    (N.of_nat (length (out ++ r)) < two32 -> sm_read tbl (out ++ r) = Ok e r).
Proof. exact ProofsSMRound.static_map_roundtrip. Qed.
Print Assumptions static_map_roundtrip.

(* per-kind value lemmas: what value_rt holds for *)
Theorem value_rt_plain : forall v, wf v -> height v < depth_limit_c -> value_rt None (SObj v false).
Proof. exact ProofsSMRound.value_rt_plain. Qed.
Print Assumptions value_rt_plain.
Theorem value_rt_string : forall b, N.of_nat (length b) < two32 -> value_rt (Some RawS) (SRaw RawS b).
Proof. exact ProofsSMRound.value_rt_string. Qed.
Print Assumptions value_rt_string.
Theorem value_rt_any : forall v, wf v -> height v < skip_stack_limit -> value_rt (Some RawAny) (SRaw RawAny (enc v)).
Proof. exact ProofsSMRound.value_rt_any. Qed.
Print Assumptions value_rt_any.
Theorem value_rt_list : forall vs, wf (VList vs) -> height (VList vs) < skip_stack_limit ->
  value_rt (Some RawL) (SRaw RawL (flat_map enc vs)).
Proof. exact ProofsSMRound.value_rt_list. Qed.
Print Assumptions value_rt_list.
Theorem value_rt_map : forall m, wf (VMap m) -> height (VMap m) < skip_stack_limit ->
  value_rt (Some RawM) (SRaw RawM (flat_map (fun kv => enc_str (fst kv) ++ enc (snd kv)) m)).
Proof. exact ProofsSMRound.value_rt_map. Qed.
Print Assumptions value_rt_map.

(* hypotheses satisfiable: a DHT get_peers reply (nested r:: rows, "*S", "*L" and "*" kinds) *)
Example static_map_roundtrip_nonvacuous :
  let e := [None; None; None; None; None; None; None; None;
            Some (SRaw RawS [105; 100]); None; Some (SRaw RawS [116]);
            Some (SRaw RawL (flat_map enc [VStr [1; 2; 3; 4; 5; 6]])); Some (SRaw RawS [116; 116]);
            Some (SRaw RawAny (enc (VStr [76; 84]))); Some (SRaw RawS [114])] in
  table_rt_ok dht = true /\ entries_rt_ok dht e.
Proof.
  split; [vm_compute; reflexivity|]. split; [reflexivity|].
  intros j sv H.
  do 15 (destruct j as [|j]; [cbn in H; try discriminate; inversion H; subst sv; eexists _, _;
    (split; [reflexivity|]); (split; [vm_compute; reflexivity|]);
    first [apply ProofsSMRound.value_rt_string; vm_compute; reflexivity
          |apply (ProofsSMRound.value_rt_list [VStr [1; 2; 3; 4; 5; 6]]); [cbn; repeat split; vm_compute; reflexivity|vm_compute; reflexivity]
          |apply (ProofsSMRound.value_rt_any (VStr [76; 84])); [vm_compute; reflexivity|vm_compute; reflexivity]]|]).
  destruct j; discriminate.
Qed.

(* Writer totality: for EVERY table with table_ww_ok (from every level start of every key the walk
   reaches a leaf through well-formed "::" / "[]") and EVERY entry assignment of the table's size — any
   values, list rows included — static_map_write_bencode_c_values returns output: no access outside
   the value array or key[16], no prev_key dereference while NULL, stack index < 8 (derived from the
   key length), no internal_error "static_map_type key is invalid". *)
Theorem real_tables_ww_ok : forallb table_ww_ok [ext_handshake; ext_pex; ext_metadata; dht] = true.
Proof. exact ProofsSM.real_tables_ww_ok. Qed.
Print Assumptions real_tables_ww_ok.

Theorem static_map_write_total : forall tbl e, table_ww_ok tbl = true -> length e = length tbl ->
  exists out, sm_write tbl e = WOk [] out.
Proof. exact ProofsSMWrite.static_map_write_total. Qed.
Print Assumptions static_map_write_total.

Example static_map_write_total_nonvacuous :
  table_ww_ok dht = true /\ table_ww_ok [(0, [97; 58; 98])] = false /\
  sm_write [(0, [97; 58; 98])] [Some (SObj (VInt 1) false)] = WInternal.
Proof. repeat split; vm_compute; reflexivity. Qed.

(* List rows ("x[]…", the two error rows of the DHT table). PARTIAL: the for-all round trip above
   requires their entries to be empty; with filled list rows only explicit instances are proved
   (computed), among them inst_dht_reply / inst_synth with list groups filled from their first row.
   Missing: the lock-step through sm_list (element loop) and the writer's list level. Covered
   dynamically by the W cases of the correspondence run (oracle class static-map-roundtrip). *)
Theorem static_map_roundtrip_lists_partial :
  rt_holds ext_handshake inst_handshake = true /\ rt_holds ext_handshake inst_handshake2 = true /\
  rt_holds ext_pex inst_pex = true /\ rt_holds ext_metadata inst_metadata = true /\
  rt_holds dht inst_dht_query = true /\ rt_holds dht inst_dht_reply = true /\
  table_ok synth_tbl = true /\ rt_holds synth_tbl inst_synth = true.
Proof. exact ProofsSMRT.static_map_roundtrip_instances. Qed.
Print Assumptions static_map_roundtrip_lists_partial.

Theorem static_map_roundtrip_empty : forall tbl r, table_ok tbl = true ->
  sm_write tbl (empty_entries tbl) = WOk [] [ch_d; ch_e] /\
  sm_read tbl ([ch_d; ch_e] ++ r) = Ok (empty_entries tbl) r.
Proof. exact ProofsSMRT.static_map_roundtrip_empty. Qed.
Print Assumptions static_map_roundtrip_empty.
