(* C07 — buffered writer, object_write_to_buffer on ANY capacity (fitting or not): what has been written
   is always a prefix of the encoding, never longer than the buffer, and the run never needs more fuel. *)
From Coq Require Import List NArith ZArith Bool Arith Lia.
From LTV Require Import Common.Bytes.
From LTV.C07 Require Import Model WriteBuf ProofsRT ProofsWB.
Import ListNotations.

(* nothing more can be written: an exception is propagating, or the callback handed back the empty buffer *)
Definition deadS (st : wst) : Prop :=
  w_status st = WbInternal \/ (w_status st = WbOk /\ w_cap st = 0 /\ w_pend st = []).

Definition invB2 (C : nat) (st : wst) : Prop :=
  w_sink st = SinkBuffer /\ length (written st) <= C /\
  ((w_status st = WbOk /\ w_cap st = C /\ w_chunks st = []) \/
   (w_status st = WbOk /\ w_cap st = 0 /\ w_pend st = []) \/
   w_status st = WbInternal).

Definition spec2 (C : nat) (f : wst -> wst) (bs : bytes) : Prop :=
  forall st, invB2 C st ->
    invB2 C (f st) /\
    (deadS st -> deadS (f st) /\ written (f st) = written st) /\
    (written (f st) = written st ++ bs \/
     (deadS (f st) /\ exists k, written (f st) = written st ++ firstn k bs)).

Lemma firstn_app_len : forall (a b : bytes) k, firstn (length a + k) (a ++ b) = a ++ firstn k b.
Proof.
  intros a b k. rewrite firstn_app. rewrite firstn_all2 by lia.
  replace (length a + k - length a) with k by lia. reflexivity.
Qed.

Lemma spec2_seq : forall C f g bs1 bs2, spec2 C f bs1 -> spec2 C g bs2 -> spec2 C (fun st => g (f st)) (bs1 ++ bs2).
Proof.
  intros C f g bs1 bs2 Hf Hg st I.
  destruct (Hf st I) as (I1 & D1 & T1). destruct (Hg (f st) I1) as (I2 & D2 & T2).
  split; [exact I2|]. split.
  - intros D. destruct (D1 D) as [Da Wa]. destruct (D2 Da) as [Db Wb]. split; [exact Db|]. congruence.
  - destruct T1 as [W1 | (Dd & k1 & W1)].
    + destruct T2 as [W2 | (Dd & k2 & W2)].
      * left. rewrite W2, W1, app_assoc. reflexivity.
      * right. split; [exact Dd|]. exists (length bs1 + k2).
        rewrite W2, W1, firstn_app_len, app_assoc. reflexivity.
    + destruct (D2 Dd) as [Db Wb]. right. split; [exact Db|].
      destruct (le_lt_dec k1 (length bs1)) as [L|L].
      * exists k1. rewrite Wb, W1. rewrite firstn_app.
        replace (k1 - length bs1) with 0 by lia. cbn [firstn]. rewrite app_nil_r. reflexivity.
      * exists (length bs1). rewrite Wb, W1. rewrite firstn_all2 by lia.
        rewrite firstn_app, firstn_all, Nat.sub_diag. cbn [firstn].
        rewrite app_nil_r. reflexivity.
Qed.

Lemma spec2_fold : forall C (A : Type) (g : wst -> A -> wst) (e : A -> bytes) (l : list A),
  Forall (fun x => spec2 C (fun st => g st x) (e x)) l ->
  forall f0 bs0, spec2 C f0 bs0 -> spec2 C (fun st => fold_left g l (f0 st)) (bs0 ++ flat_map e l).
Proof.
  intros C A g e l H. induction H as [|x l Hx Hl IH]; intros f0 bs0 H0.
  - cbn. rewrite app_nil_r. exact H0.
  - cbn [fold_left flat_map]. rewrite app_assoc.
    apply (IH (fun st => g (f0 st) x) (bs0 ++ e x)).
    apply (spec2_seq C f0 (fun st => g st x)); assumption.
Qed.

Ltac dead_contra D :=
  let H := fresh in destruct D as [H | (_ & H & _)]; cbn in H; try discriminate; try lia.

Lemma spec2_char : forall C c, spec2 C (fun st => wb_char st c) [c].
Proof.
  intros C c [k cap pend chunks status]. unfold invB2, written. cbn.
  intros (-> & HL & [(-> & -> & ->) | [(-> & -> & ->) | ->]]); unfold wb_char; cbn.
  - cbn in HL.
    destruct (Nat.eqb_spec (length pend) C) as [E|E].
    + unfold wb_flush. cbn. destruct (Nat.eqb_spec C 0) as [Z|Z].
      * cbn. unfold invB2, deadS, written. cbn. repeat split; auto.
        right. split; [auto|]. exists 0. cbn. rewrite !app_nil_r. reflexivity.
      * cbn. unfold invB2, deadS, written. cbn. rewrite !app_nil_r.
        split; [repeat split; auto|]. split.
        -- intros D. split; [right; auto|reflexivity].
        -- right. split; [right; auto|]. exists 0. cbn. rewrite !app_nil_r. reflexivity.
    + unfold set_pend, invB2, deadS, written. cbn. rewrite app_length. cbn [length].
      split; [split; [reflexivity|]; split; [lia|]; left; auto|]. split.
      * intros [D | (_ & D1 & D2)]; [discriminate|]. subst. cbn in E. lia.
      * left. reflexivity.
  - unfold wb_flush. cbn. unfold invB2, deadS, written. cbn.
    split; [repeat split; auto|]. split.
    + intros _. split; [left; reflexivity|reflexivity].
    + right. split; [left; reflexivity|]. exists 0. cbn. rewrite !app_nil_r. reflexivity.
  - unfold invB2, deadS, written. cbn. split; [repeat split; auto|]. split.
    + intros _. split; [left; reflexivity|reflexivity].
    + right. split; [left; reflexivity|]. exists 0. cbn. rewrite !app_nil_r. reflexivity.
Qed.

Lemma spec2_string : forall C bs, spec2 C (fun st => wb_string st bs) bs.
Proof.
  intros C bs st I. unfold wb_string.
  destruct bs as [|b bs'].
  { replace (if negb (w_is_ok st) then st else wb_string_f (S (length (@nil N))) st []) with st
      by (destruct (negb (w_is_ok st)); reflexivity).
    split; [exact I|]. split; [auto|]. left. rewrite app_nil_r. reflexivity. }
  remember (b :: bs') as bs eqn:Ebs.
  assert (Hne : bs <> []) by (subst; discriminate).
  assert (Hlen : 1 <= length bs) by (subst; cbn; lia).
  clear Ebs b bs'.
  destruct st as [k cap pend chunks status]. unfold invB2, written in I. cbn in I.
  destruct I as (-> & HL & [(-> & -> & ->) | [(-> & -> & ->) | ->]]); cbn [w_is_ok w_status negb].
  - rewrite wb_string_f_S by exact Hne. cbv zeta. unfold set_pend. cbn [w_sink w_cap w_pend w_chunks w_status].
    cbn in HL.
    set (len := Nat.min (length bs) (C - length pend)).
    assert (Hp1 : length (pend ++ firstn len bs) = length pend + len).
    { rewrite app_length, firstn_length. unfold len. lia. }
    destruct (Nat.eqb_spec (length (pend ++ firstn len bs)) C) as [E|E].
    + unfold wb_flush. cbn [w_sink w_cap w_pend w_chunks w_status].
      destruct (Nat.eqb_spec C 0) as [Z|Z].
      * assert (len = 0) by lia. rewrite H. cbn [firstn]. rewrite app_nil_r.
        unfold set_status, invB2, deadS, written. cbn. repeat split; auto.
        right. split; [auto|]. exists 0. cbn. rewrite !app_nil_r. reflexivity.
      * cbn [w_is_ok w_status negb w_cap Nat.eqb].
        unfold invB2, deadS, written. cbn. rewrite !app_nil_r.
        split; [split; [reflexivity|]; split; [lia|]; right; left; auto|]. split.
        -- intros [D | (_ & D1 & D2)]; [discriminate|]. lia.
        -- right. split; [right; auto|]. exists len. reflexivity.
    + assert (Hl : len = length bs) by (unfold len in *; lia).
      rewrite Hl. rewrite firstn_all, skipn_all, wb_string_f_nil.
      unfold invB2, deadS, written. cbn. rewrite app_length.
      split; [split; [reflexivity|]; split; [unfold len in *; lia|]; left; auto|]. split.
      * intros [D | (_ & D1 & D2)]; [discriminate|]. subst. cbn in *. lia.
      * left. reflexivity.
  - rewrite wb_string_f_S by exact Hne. cbv zeta. unfold set_pend. cbn [w_sink w_cap w_pend w_chunks w_status length].
    rewrite Nat.min_0_r. cbn [firstn app length Nat.eqb].
    unfold wb_flush. cbn. unfold invB2, deadS, written. cbn.
    split; [repeat split; auto|]. split.
    + intros _. split; [left; reflexivity|reflexivity].
    + right. split; [left; reflexivity|]. exists 0. cbn. rewrite !app_nil_r. reflexivity.
  - unfold invB2, deadS, written. cbn. split; [repeat split; auto|]. split.
    + intros _. split; [left; reflexivity|reflexivity].
    + right. split; [left; reflexivity|]. exists 0. cbn. rewrite !app_nil_r. reflexivity.
Qed.

Lemma spec2_value : forall C z, spec2 C (fun st => wb_value st z) (enc_int z).
Proof.
  intros C z. unfold wb_value, enc_int.
  destruct (z =? 0)%Z; [apply spec2_char|].
  destruct (z <? 0)%Z.
  - apply (spec2_seq C (fun st => wb_char st ch_minus) (fun st => wb_string st _) [ch_minus]).
    + apply spec2_char. + apply spec2_string.
  - apply spec2_string.
Qed.

Lemma spec2_obj_string : forall C s, spec2 C (fun st => wb_obj_string st s) (enc_str s).
Proof.
  intros C s. unfold wb_obj_string, enc_str.
  set (n := (N.of_nat (length s) mod two32)%N).
  assert (E : enc_int (Z.of_N n) = dec_of_N n).
  { unfold enc_int. destruct (Z.eqb_spec (Z.of_N n) 0) as [Z0|Z0].
    - assert (n = 0%N) by lia. subst n. rewrite H. reflexivity.
    - destruct (Z.ltb_spec (Z.of_N n) 0); [lia|]. rewrite N2Z.id. reflexivity. }
  rewrite <- E.
  change (enc_int (Z.of_N n) ++ ch_colon :: firstn (N.to_nat n) s)
    with (enc_int (Z.of_N n) ++ [ch_colon] ++ firstn (N.to_nat n) s).
  apply (spec2_seq C (fun st => wb_value st (Z.of_N n)) (fun st => wb_string (wb_char st ch_colon) _)).
  - apply spec2_value.
  - apply (spec2_seq C (fun st => wb_char st ch_colon) (fun st => wb_string st _)).
    + apply spec2_char. + apply spec2_string.
Qed.

Lemma spec2_object : forall C v, spec2 C (fun st => wb_object st v) (enc v).
Proof.
  intros C. apply value_ind2.
  - intros z. cbn [wb_object enc].
    change (ch_i :: enc_int z ++ [ch_e]) with ([ch_i] ++ enc_int z ++ [ch_e]).
    apply (spec2_seq C (fun st => wb_char st ch_i) (fun st => wb_char (wb_value st z) ch_e)); [apply spec2_char|].
    apply (spec2_seq C (fun st => wb_value st z) (fun st => wb_char st ch_e)); [apply spec2_value|apply spec2_char].
  - intros s. cbn [wb_object enc]. apply spec2_obj_string.
  - intros l H. cbn [wb_object enc].
    change (ch_l :: flat_map enc l ++ [ch_e]) with (([ch_l] ++ flat_map enc l) ++ [ch_e]).
    apply (spec2_seq C (fun st => fold_left wb_object l (wb_char st ch_l)) (fun st => wb_char st ch_e)); [|apply spec2_char].
    apply (spec2_fold C value wb_object enc l H (fun st => wb_char st ch_l) [ch_l]). apply spec2_char.
  - intros m H. cbn [wb_object enc].
    change (ch_d :: flat_map (fun kv => enc_str (fst kv) ++ enc (snd kv)) m ++ [ch_e])
      with (([ch_d] ++ flat_map (fun kv => enc_str (fst kv) ++ enc (snd kv)) m) ++ [ch_e]).
    apply (spec2_seq C (fun st => fold_left (fun s kv => wb_object (wb_obj_string s (fst kv)) (snd kv)) m (wb_char st ch_d))
                       (fun st => wb_char st ch_e)); [|apply spec2_char].
    apply (spec2_fold C (bytes * value)%type (fun s kv => wb_object (wb_obj_string s (fst kv)) (snd kv))
             (fun kv => enc_str (fst kv) ++ enc (snd kv)) m); [|apply spec2_char].
    induction H as [|kv m Hkv Hm IH]; constructor; [|exact IH].
    apply (spec2_seq C (fun st => wb_obj_string st (fst kv)) (fun st => wb_object st (snd kv))); [apply spec2_obj_string|exact Hkv].
Qed.

Lemma written_finish : forall st, written (wb_finish st) = written st /\ w_status (wb_finish st) = w_status st.
Proof.
  intros [k cap pend chunks status]. unfold wb_finish, written. cbn.
  destruct status; cbn; auto.
  destruct pend as [|p pend]; cbn; auto.
  rewrite concat_app. cbn. rewrite !app_nil_r. auto.
Qed.

(* object_write_bencode(first, last, object) for ANY capacity: status is Ok or internal_error (never out
   of fuel), at most C bytes were written, and they are a prefix of the encoding. *)
Theorem wb_buffer_prefix : forall C v,
  let st := wb_run SinkBuffer C v in
  w_status st <> WbFuel /\ length (written st) <= C /\ exists k, written st = firstn k (enc v).
Proof.
  intros C v. unfold wb_run.
  destruct (spec2_object C v (wb_init SinkBuffer C)) as (I & _ & T).
  { unfold invB2, wb_init, written. cbn. split; [reflexivity|]. split; [lia|]. left. auto. }
  destruct (written_finish (wb_object (wb_init SinkBuffer C) v)) as [W S].
  cbv zeta. rewrite W, S.
  destruct I as (_ & HL & HS).
  split.
  - destruct HS as [(H & _) | [(H & _) | H]]; rewrite H; discriminate.
  - split; [exact HL|].
    assert (W0 : written (wb_init SinkBuffer C) = []) by reflexivity. rewrite W0 in T. cbn [app] in T.
    destruct T as [T | (_ & k & T)].
    + exists (length (enc v)). rewrite T, firstn_all. reflexivity.
    + exists k. exact T.
Qed.
