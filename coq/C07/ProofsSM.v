(* Static-map part: constants, generated obligation over the real tables, basic facts. *)
From Coq Require Import List NArith ZArith Bool Lia ZifyBool ZifyNat ZifyN.
From LTV Require Import Common.Bytes.
From LTV.C07 Require Import ParamsGen Model StaticMap.
Import ListNotations.
Local Open Scope N_scope.

(* the generated constants have the values the proofs use *)
Definition sm_params_ok : bool :=
  (Params.static_map_max_key_size =? 16) && (Params.static_map_stack =? 8) && (Params.sm_key_buf_extra =? 2).
Lemma sm_params_ok_now : sm_params_ok = true.
Proof. vm_compute. reflexivity. Qed.

Lemma max_key_val : max_key = 16. Proof. reflexivity. Qed.
Lemma sm_stack_size_val : sm_stack_size = 8. Proof. reflexivity. Qed.
Lemma key_buf_len_val : key_buf_len = 18. Proof. reflexivity. Qed.

(* generated obligation: the four real key tables satisfy the side conditions of the theorems *)
Lemma real_tables_ok : forallb table_ok real_tables = true.
Proof. vm_compute. reflexivity. Qed.
Lemma real_tables_w_ok : forallb table_w_ok real_tables = true.
Proof. vm_compute. reflexivity. Qed.
Lemma real_tables_nonempty : forallb (fun t => negb (N.of_nat (length t) =? 0)) real_tables = true.
Proof. vm_compute. reflexivity. Qed.
