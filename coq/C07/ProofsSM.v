(* Static-map part: constants, generated obligation over the real tables, basic facts. *)
From Coq Require Import List NArith ZArith Bool Lia ZifyBool ZifyNat ZifyN.
From LTV Require Import Common.Bytes.
From LTV.C07 Require Import ParamsGen Model StaticMap.
Import ListNotations.
Local Open Scope N_scope.

(* the generated constants have the values the proofs use *)
Definition sm_params_ok : bool :=
  (Params.static_map_max_key_size =? 16) && (Params.static_map_stack =? 8) && (Params.sm_key_buf_extra =? 2).
Lemma sm_params_ok_now : sm_params_ok = true.
Proof. vm_compute. reflexivity. Qed.

Lemma max_key_val : max_key = 16. Proof. reflexivity. Qed.
Lemma sm_stack_size_val : sm_stack_size = 8. Proof. reflexivity. Qed.
Lemma key_buf_len_val : key_buf_len = 18. Proof. reflexivity. Qed.

(* generated obligation: the four real key tables satisfy the side conditions of the theorems *)
Lemma real_tables_ok : forallb table_ok real_tables = true.
Proof. vm_compute. reflexivity. Qed.
Lemma real_tables_w_ok : forallb table_w_ok real_tables = true.
Proof. vm_compute. reflexivity. Qed.
Lemma real_tables_nonempty : forallb (fun t => negb (N.of_nat (length t) =? 0)) real_tables = true.
Proof. vm_compute. reflexivity. Qed.

(* ---------------------------------------------------------------- list / buffer helpers *)
Lemma set_nth_some {A} : forall (l : list A) i x, (i < length l)%nat ->
  exists l', set_nth l i x = Some l' /\ length l' = length l /\
    (forall j d, nth j l' d = if Nat.eqb j i then x else nth j l d).
Proof.
  induction l as [|h t IH]; intros i x Hi; cbn [length] in Hi; [lia|].
  destruct i as [|i].
  - exists (x :: t). cbn [set_nth]. repeat split. intros [|j] d; reflexivity.
  - destruct (IH i x) as (t' & E & L & Hn); [lia|].
    exists (h :: t'). cbn [set_nth]. rewrite E. repeat split; [cbn [length]; lia|].
    intros [|j] d; [reflexivity|]. cbn [nth Nat.eqb]. apply Hn.
Qed.

Lemma set_nth_inv {A} : forall (l : list A) i x l', set_nth l i x = Some l' ->
  (i < length l)%nat /\ length l' = length l /\
  (forall j d, nth j l' d = if Nat.eqb j i then x else nth j l d).
Proof.
  induction l as [|h t IH]; intros i x l' H; [destruct i; discriminate|].
  destruct i as [|i]; cbn [set_nth] in H.
  - inversion H; subst. cbn [length]. repeat split; [lia|]. intros [|j] d; reflexivity.
  - destruct (set_nth t i x) as [t'|] eqn:E; [|discriminate]. inversion H; subst.
    destruct (IH _ _ _ E) as (Hi & L & Hn). cbn [length]. repeat split; [lia|lia|].
    intros [|j] d; [reflexivity|]. cbn [nth Nat.eqb]. apply Hn.
Qed.

Lemma buf_write_some : forall data b off, (off + length data <= length b)%nat ->
  exists b', buf_write b off data = Some b' /\ length b' = length b /\
    (forall j d, (j < off)%nat -> nth j b' d = nth j b d).
Proof.
  induction data as [|x data IH]; intros b off H; cbn [buf_write].
  - exists b. repeat split.
  - cbn [length] in H. destruct (set_nth_some b off x) as (b1 & E & L & Hn); [lia|].
    rewrite E. destruct (IH b1 (S off)) as (b2 & E2 & L2 & Hn2); [lia|].
    exists b2. repeat split; [exact E2|lia|].
    intros j d Hj. rewrite Hn2 by lia. rewrite Hn.
    destruct (Nat.eqb_spec j off); [lia|reflexivity].
Qed.

Lemma buf_write_inv : forall data b off b', buf_write b off data = Some b' ->
  length b' = length b /\ (forall j d, (j < off)%nat -> nth j b' d = nth j b d).
Proof.
  induction data as [|x data IH]; intros b off b' H; cbn [buf_write] in H.
  - inversion H; subst. split; reflexivity.
  - destruct (set_nth b off x) as [b1|] eqn:E; [|discriminate].
    destruct (set_nth_inv _ _ _ _ E) as (_ & L & Hn).
    destruct (IH _ _ _ H) as (L2 & Hn2). split; [lia|].
    intros j d Hj. rewrite Hn2 by lia. rewrite Hn. destruct (Nat.eqb_spec j off); [lia|reflexivity].
Qed.

Lemma c_strlen_spec : forall b n, c_strlen b = Some n ->
  (n < length b)%nat /\ nth n b 0 = 0 /\ forall i, (i < n)%nat -> nth i b 0 <> 0.
Proof.
  induction b as [|c b IH]; intros n H; cbn [c_strlen] in H; [discriminate|].
  destruct (N.eqb_spec c 0) as [->|Hc].
  - inversion H; subst. cbn [length nth]. repeat split; [lia|]. intros; lia.
  - destruct (c_strlen b) as [m|] eqn:E; [|discriminate]. inversion H; subst.
    destruct (IH m eq_refl) as (A & B & C). cbn [length nth]. repeat split; [lia|exact B|].
    intros [|i] Hi; [exact Hc|]. apply C. lia.
Qed.

Lemma c_strlen_exists : forall b i, (i < length b)%nat -> nth i b 0 = 0 ->
  exists n, c_strlen b = Some n /\ (n <= i)%nat.
Proof.
  induction b as [|c b IH]; intros i Hi Hz; cbn [length] in Hi; [lia|].
  cbn [c_strlen]. destruct (N.eqb_spec c 0) as [->|Hc].
  - exists O. split; [reflexivity|lia].
  - destruct i as [|i]; [cbn [nth] in Hz; congruence|].
    cbn [nth] in Hz. destruct (IH i) as (n & E & Hn); [lia|exact Hz|].
    rewrite E. exists (S n). split; [reflexivity|lia].
Qed.

Lemma count_base_le : forall a b, count_base a b <= N.of_nat (length a).
Proof.
  induction a as [|x a IH]; intros b; cbn [count_base length]; [lia|].
  destruct b as [|y b]; [lia|]. destruct (x =? y); [|lia]. specialize (IH b). lia.
Qed.

Lemma nth_nonzero_lt : forall (k : bytes) i, nth i k 0 <> 0 -> (i < length k)%nat.
Proof.
  intros k i H. destruct (Nat.lt_ge_cases i (length k)) as [|Hge]; [assumption|].
  rewrite nth_overflow in H by exact Hge. congruence.
Qed.

Lemma kat_some k i : i < 16 -> kat k i = Some (nth (N.to_nat i) k 0).
Proof. intros H. unfold kat. rewrite max_key_val. destruct (N.ltb_spec i 16); [reflexivity|lia]. Qed.

Lemma kat_inv k i c : kat k i = Some c -> i < 16 /\ c = nth (N.to_nat i) k 0.
Proof. unfold kat. rewrite max_key_val. destruct (N.ltb_spec i 16) as [Hlt|Hge]; [|discriminate]. intros E; inversion E; auto. Qed.

Lemma nth_error_skipn {A} : forall c (l : list A) j, nth_error (skipn c l) j = nth_error l (c + j).
Proof.
  induction c as [|c IH]; intros l j; [reflexivity|].
  destruct l as [|h t]; [destruct j; reflexivity|]. cbn [skipn Nat.add nth_error]. apply IH.
Qed.

Lemma key_ok_len k : key_ok k = true -> (length k <= 15)%nat.
Proof. unfold key_ok. rewrite andb_true_iff, max_key_val. intros [H _]. apply N.ltb_lt in H. lia. Qed.

Definition keys_ok (tl : ktable) : Prop := Forall (fun ik => key_ok (snd ik) = true) tl.

Lemma table_ok_keys tbl : table_ok tbl = true -> keys_ok tbl.
Proof.
  unfold table_ok, keys_ok. rewrite forallb_forall, Forall_forall. intros H x Hx.
  specialize (H x Hx). apply andb_true_iff in H. tauto.
Qed.

Lemma table_ok_idx tbl : table_ok tbl = true ->
  forall p idx k, nth_error tbl p = Some (idx, k) -> (N.to_nat idx < length tbl)%nat /\ key_ok k = true.
Proof.
  unfold table_ok. rewrite forallb_forall. intros H p idx k E.
  apply nth_error_In in E. specialize (H _ E). cbn [fst snd] in H.
  apply andb_true_iff in H. destruct H as [H1 H2]. apply N.ltb_lt in H1. split; [lia|exact H2].
Qed.

Lemma keys_ok_skipn c tl : keys_ok tl -> keys_ok (skipn c tl).
Proof.
  unfold keys_ok. rewrite !Forall_forall. intros H x Hx. apply H.
  rewrite <- (firstn_skipn c tl). apply in_or_app. right. exact Hx.
Qed.

(* ---------------------------------------------------------------- find_key_match *)
Definition is_term (k : bytes) (base : N) : Prop :=
  exists c0, kat k base = Some c0 /\
    ((c0 = 0 \/ c0 = ch_star) \/ (c0 = ch_colon /\ kat k (base + 1) = Some ch_colon) \/
     (c0 = ch_lbr /\ kat k (base + 1) = Some ch_rbr)).

Lemma find_key_spec : forall tl p cs, keys_ok tl -> (length cs <= 15)%nat ->
  find_key tl p cs <> FkFault /\
  forall pos base, find_key tl p cs = FkSome pos base ->
    (p <= pos)%nat /\ base = N.of_nat (length cs) /\ base <> 0 /\
    exists idx k, nth_error tl (pos - p) = Some (idx, k) /\ is_term k base /\
                  base = count_base cs (pad_key k).
Proof.
  induction tl as [|[idx k] tl IH]; intros p cs Hk Hcs; cbn [find_key].
  - split; [discriminate|]. intros; discriminate.
  - inversion Hk as [|? ? Hk1 Hk2]; subst. cbn [snd] in Hk1.
    pose proof (count_base_le cs (pad_key k)) as Hb.
    set (base := count_base cs (pad_key k)) in *.
    destruct (N.ltb_spec base (N.of_nat (length cs))) as [Hlt|Hge].
    { destruct (IH (S p) cs Hk2 Hcs) as [A B]. split; [exact A|].
      intros pos b H. destruct (B _ _ H) as (P1 & P2 & P3 & i & k' & E & T).
      repeat split; [lia|exact P2|exact P3|]. exists i, k'. split; [|exact T].
      replace (pos - p)%nat with (S (pos - S p)) by lia. exact E. }
    assert (Hbase : base = N.of_nat (length cs)) by lia.
    assert (Hb16 : base < 16) by lia.
    rewrite (kat_some k base Hb16).
    set (c0 := nth (N.to_nat base) k 0).
    assert (Hfound : fk_found p base <> FkFault /\
                     forall pos b, fk_found p base = FkSome pos b -> pos = p /\ b = base /\ base <> 0).
    { unfold fk_found. destruct (N.eqb_spec base 0); split; try discriminate; intros pos b H; inversion H; auto. }
    assert (Hnext : c0 <> 0 -> base + 1 < 16).
    { intros Hc. apply nth_nonzero_lt in Hc. apply key_ok_len in Hk1. lia. }
    assert (Hdone : forall (T : is_term k base),
              fk_found p base <> FkFault /\
              (forall pos b, fk_found p base = FkSome pos b ->
                 (p <= pos)%nat /\ b = N.of_nat (length cs) /\ b <> 0 /\
                 exists idx0 k0, nth_error ((idx, k) :: tl) (pos - p) = Some (idx0, k0) /\ is_term k0 b /\
                                 b = count_base cs (pad_key k0))).
    { intros T. destruct Hfound as [F1 F2]. split; [exact F1|].
      intros pos b H. destruct (F2 _ _ H) as (-> & -> & Hnz).
      repeat split; [lia|exact Hbase|exact Hnz|]. exists idx, k.
      rewrite Nat.sub_diag. repeat split. exact T. }
    destruct ((c0 =? 0) || (c0 =? ch_star)) eqn:E1.
    { apply Hdone. exists c0. split; [apply kat_some; exact Hb16|]. left.
      apply orb_true_iff in E1. destruct E1 as [E|E]; apply N.eqb_eq in E; auto. }
    apply orb_false_iff in E1. destruct E1 as [E10 E1s]. apply N.eqb_neq in E10.
    destruct (N.eqb_spec c0 ch_colon) as [Ec|Ec].
    { rewrite (kat_some k (base + 1) (Hnext E10)).
      destruct (N.eqb_spec (nth (N.to_nat (base + 1)) k 0) ch_colon) as [E2|E2].
      - apply Hdone. exists c0. split; [apply kat_some; exact Hb16|]. right. left.
        split; [exact Ec|]. rewrite (kat_some k (base + 1) (Hnext E10)). rewrite E2. reflexivity.
      - split; [discriminate|intros; discriminate]. }
    destruct (N.eqb_spec c0 ch_lbr) as [El|El].
    { rewrite (kat_some k (base + 1) (Hnext E10)).
      destruct (N.eqb_spec (nth (N.to_nat (base + 1)) k 0) ch_rbr) as [E2|E2].
      - apply Hdone. exists c0. split; [apply kat_some; exact Hb16|]. right. right.
        split; [exact El|]. rewrite (kat_some k (base + 1) (Hnext E10)). rewrite E2. reflexivity.
      - split; [discriminate|intros; discriminate]. }
    split; [discriminate|intros; discriminate].
Qed.

(* a separator "::" / "[]" at base leaves room for two more characters *)
Lemma sep_room k base c : key_ok k = true -> c <> 0 ->
  kat k base = Some c -> kat k (base + 1) = Some c -> base + 2 <= 15.
Proof.
  intros Hk Hc H0 H1. apply kat_inv in H1. destruct H1 as [H16 H1].
  assert (nth (N.to_nat (base + 1)) k 0 <> 0) by congruence.
  apply nth_nonzero_lt in H. apply key_ok_len in Hk. lia.
Qed.

(* ---------------------------------------------------------------- facts for key exactness *)
Lemma buf_write_content : forall data b off b', buf_write b off data = Some b' ->
  forall i d, (i < length data)%nat -> nth (off + i) b' d = nth i data d.
Proof.
  induction data as [|x data IH]; intros b off b' H i d Hi; cbn [length] in Hi; [lia|].
  cbn [buf_write] in H. destruct (set_nth b off x) as [b1|] eqn:E; [|discriminate].
  destruct (set_nth_inv _ _ _ _ E) as (_ & _ & Hn).
  destruct i as [|i].
  - destruct (buf_write_inv _ _ _ _ H) as (_ & Hk). rewrite Nat.add_0_r, Hk by lia.
    rewrite Hn, Nat.eqb_refl. reflexivity.
  - replace (off + S i)%nat with (S off + i)%nat by lia. cbn [nth]. apply (IH _ _ _ H). lia.
Qed.

Lemma firstn_nth_ext : forall n (a b : bytes), (n <= length a)%nat -> (n <= length b)%nat ->
  (forall j, (j < n)%nat -> nth j a 0 = nth j b 0) -> firstn n a = firstn n b.
Proof.
  induction n as [|n IH]; intros a b Ha Hb H; [reflexivity|].
  destruct a as [|x a]; [cbn in Ha; lia|]. destruct b as [|y b]; [cbn in Hb; lia|].
  cbn [firstn]. f_equal.
  - apply (H O). lia.
  - apply IH; cbn [length] in *; [lia|lia|]. intros j Hj. apply (H (S j)). lia.
Qed.

Lemma firstn_eq_nth : forall n (a b : bytes), firstn n a = firstn n b ->
  forall j, (j < n)%nat -> nth j a 0 = nth j b 0.
Proof.
  induction n as [|n IH]; intros a b H j Hj; [lia|].
  destruct a as [|x a]; destruct b as [|y b]; cbn [firstn] in H; try discriminate.
  - reflexivity.
  - inversion H; subst. destruct j as [|j]; [reflexivity|]. cbn [nth]. apply IH; [assumption|lia].
Qed.

Lemma count_base_full : forall a b, count_base a b = N.of_nat (length a) ->
  forall j, (j < length a)%nat -> nth j a 0 = nth j b 0.
Proof.
  induction a as [|x a IH]; intros b H j Hj; cbn [length] in Hj; [lia|].
  cbn [count_base length] in H. destruct b as [|y b]; [lia|].
  destruct (N.eqb_spec x y) as [->|]; [|lia].
  destruct j as [|j]; [reflexivity|]. cbn [nth]. apply IH; [|lia].
  pose proof (count_base_le a b). lia.
Qed.

Lemma nth_firstn_lt {A} : forall n (l : list A) j d, (j < n)%nat -> nth j (firstn n l) d = nth j l d.
Proof.
  induction n as [|n IH]; intros l j d Hj; [lia|].
  destruct l as [|h t]; [destruct j; reflexivity|]. destruct j as [|j]; [reflexivity|].
  cbn [firstn nth]. apply IH. lia.
Qed.

Lemma nth_pad_key k j : (j < 16)%nat -> nth j (pad_key k) 0 = nth j k 0.
Proof.
  intros Hj. unfold pad_key. rewrite max_key_val. change (N.to_nat 16) with 16%nat.
  rewrite nth_firstn_lt by exact Hj.
  destruct (Nat.lt_ge_cases j (length k)) as [Hlt|Hge].
  - apply app_nth1. exact Hlt.
  - rewrite app_nth2 by exact Hge. rewrite (nth_overflow k) by exact Hge.
    destruct (Nat.lt_ge_cases (j - length k) 16) as [H1|H1].
    + apply nth_repeat.
    + apply nth_overflow. rewrite repeat_length. exact H1.
Qed.

Lemma not_key_char_nonzero rk : existsb is_not_key_char rk = false ->
  forall j, (j < length rk)%nat ->
    nth j rk 0 <> 0 /\ nth j rk 0 <> ch_colon /\ nth j rk 0 <> ch_lbr /\ nth j rk 0 <> ch_star.
Proof.
  induction rk as [|c rk IH]; intros H j Hj; cbn [length] in Hj; [lia|].
  cbn [existsb] in H. apply orb_false_iff in H. destruct H as [Hc Hr].
  destruct j as [|j]; [|cbn [nth]; apply IH; [exact Hr|lia]].
  cbn [nth]. unfold is_not_key_char in Hc. rewrite !orb_false_iff in Hc.
  destruct Hc as [[[H0 H1] H2] H3]. apply N.eqb_neq in H0, H1, H2, H3. tauto.
Qed.

(* generated obligation: the four real key tables satisfy the round-trip side condition *)
Lemma real_tables_rt_ok : forallb table_rt_ok real_tables = true.
Proof. vm_compute. reflexivity. Qed.

Lemma real_tables_ww_ok : forallb table_ww_ok real_tables = true.
Proof. vm_compute. reflexivity. Qed.
