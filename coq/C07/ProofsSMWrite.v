(* static_map_write_total: for every table with table_ww_ok and EVERY entry assignment of the table's
   size (any values, list rows included) static_map_write_bencode_c_values neither faults (value array,
   key[16], prev_key, 8-entry stack) nor raises internal_error. *)
From Coq Require Import List NArith ZArith Bool Lia ZifyBool ZifyNat ZifyN.
Ltac Zify.zify_post_hook ::= Z.div_mod_to_equations.
From LTV Require Import Common.Bytes.
From LTV.C07 Require Import ParamsGen Model StaticMap ProofsSM ProofsSMTotal ProofsSMRound.
Import ListNotations.
Local Open Scope N_scope.

Definition WInv (k : bytes) (W : list (N * bool)) : Prop :=
  stack_ok (map fst W) /\ Forall (fun x => wlevel k (fst x) = true) W.

Lemma WInv_top k W : WInv k W -> top W <= 15 /\ 2 * N.of_nat (length W) <= top W.
Proof.
  intros [Hok _]. pose proof (stack_top_le _ Hok). pose proof (stack_depth _ Hok).
  rewrite top_map in *. rewrite map_length in *. lia.
Qed.

Lemma wkey_total k obj : key_ok k = true -> forall fw F W kb out,
  wwalk fw k kb = true -> WInv k W -> kb = top W -> 16 - kb < 2 * N.of_nat F ->
  exists W' out', sm_write_key F k obj W kb out = WOk W' out' /\ WInv k W'.
Proof.
  intros Hk. pose proof (key_ok_len k Hk) as Hkl.
  induction fw as [|fw IH]; intros F W kb out Hw HI Hkb HF; [discriminate|].
  destruct (WInv_top _ _ HI) as (Htop & Hdep).
  cbn [wwalk] in Hw. fold kfuel in Hw. remember (find_key_end kfuel k kb) as ke eqn:Eke.
  apply andb_true_iff in Hw. destruct Hw as [Hke16 Hw]. rewrite max_key_val in Hke16. apply N.ltb_lt in Hke16.
  destruct (find_key_end_spec k kfuel kb) as (Hle & _); [rewrite kfuel_val; lia|]. cbv zeta in Hle. rewrite <- Eke in Hle.
  destruct F as [|F]; [lia|]. cbn [sm_write_key]. fold kfuel. rewrite <- Eke.
  set (out1 := if match W with (_, b) :: _ => b | [] => false end then out else out ++ enc_str (sub_key k kb ke)).
  rewrite (kat_some k ke Hke16).
  set (c0 := nth (N.to_nat ke) k 0) in *. set (c1 := nth (N.to_nat (ke + 1)) k 0) in *.
  assert (Hnext : c0 <> 0 -> ke + 1 < 16) by (intros Hc; apply nth_nonzero_lt in Hc; lia).
  destruct (((c0 =? ch_colon) && (c1 =? ch_colon)) || ((c0 =? ch_lbr) && (c1 =? ch_rbr))) eqn:Esep.
  - assert (Hc0 : (c0 =? ch_colon) || (c0 =? ch_lbr) = true).
    { apply orb_true_iff in Esep. destruct Esep as [E|E]; apply andb_true_iff in E; destruct E as [E _]; rewrite E; [reflexivity|apply orb_true_r]. }
    rewrite Hc0.
    assert (Hnz : c0 <> 0).
    { intros Hz. rewrite Hz in Hc0. discriminate. }
    rewrite (kat_some k (ke + 1) (Hnext Hnz)). fold c1.
    assert (Hc1nz : c1 <> 0).
    { intros Hz. rewrite Hz in Esep. rewrite !andb_false_r in Esep. discriminate. }
    assert (Hke2 : ke + 2 <= 15) by (apply nth_nonzero_lt in Hc1nz; lia).
    rewrite sm_stack_size_val.
    assert (Hstk : (8 <=? N.of_nat (length W) + 1) = false) by (apply N.leb_gt; lia).
    assert (Hnew : forall b, WInv k ((ke + 2, b) :: W)).
    { intros b. destruct HI as [Hok Hlev]. split.
      - cbn [map fst stack_ok]. rewrite top_map. repeat split; [lia|lia|exact Hok].
      - constructor; [|exact Hlev]. cbn [fst]. unfold wlevel.
        replace (ke + 2 - 2) with ke by lia. replace (ke + 2 - 1) with (ke + 1) by lia. fold c0 c1. rewrite Esep.
        destruct (N.leb_spec 2 (ke + 2)); [reflexivity|lia]. }
    destruct ((c0 =? ch_colon) && (c1 =? ch_colon)) eqn:Ed.
    + rewrite Hstk. apply (IH F _ (ke + 2)); [exact Hw|apply Hnew|reflexivity|lia].
    + cbn [orb] in Esep. rewrite Esep, Hstk. apply (IH F _ (ke + 2)); [exact Hw|apply Hnew|reflexivity|lia].
  - apply orb_false_iff in Esep. destruct Esep as [Ed El].
    assert (Hc0 : (c0 =? ch_colon) || (c0 =? ch_lbr) = false).
    { apply orb_true_iff in Hw. destruct Hw as [E|E]; apply N.eqb_eq in E; rewrite E; reflexivity. }
    rewrite Hc0.
    apply orb_false_iff in Hc0. destruct Hc0 as [Hc Hl]. rewrite Hc, Hl. cbn [andb]. rewrite Hw.
    eexists _, _. split; [reflexivity|exact HI].
Qed.

Lemma sm_pop_spec : forall W b out, exists m, (m <= length W)%nat /\
  sm_pop W b out = (skipn m W, out ++ repeat ch_e m) /\ top (skipn m W) <= b.
Proof.
  induction W as [|[nk bl] W IH]; intros b out.
  - exists O. cbn. rewrite app_nil_r. repeat split; lia.
  - cbn [sm_pop]. destruct (N.ltb_spec b nk).
    + destruct (IH b (out ++ [ch_e])) as (m & Hm & E & Ht). exists (S m). cbn [length skipn repeat].
      split; [lia|]. split; [rewrite E, <- app_assoc; reflexivity|exact Ht].
    + exists O. cbn [skipn repeat top length]. rewrite app_nil_r. repeat split; lia.
Qed.

Lemma stack_ok_skipn : forall m (s : list N), stack_ok s -> stack_ok (skipn m s).
Proof.
  induction m as [|m IH]; intros s H; [exact H|]. destruct s as [|n s]; [exact I|].
  cbn [skipn]. apply IH. cbn [stack_ok] in H. tauto.
Qed.

Lemma Forall_skipn {A} (P : A -> Prop) : forall m l, Forall P l -> Forall P (skipn m l).
Proof.
  induction m as [|m IH]; intros l H; [exact H|]. destruct l as [|x l]; [constructor|].
  cbn [skipn]. apply IH. inversion H; assumption.
Qed.

Lemma WInv_transfer kp kj W b : WInv kp W -> top W <= b ->
  (forall i, (i < N.to_nat b)%nat -> nth i kp 0 = nth i kj 0) -> WInv kj W.
Proof.
  intros [Hok Hlev] Ht Heq. split; [exact Hok|].
  pose proof (stack_ok_le_top W Hok) as Hle. rewrite Forall_forall in *. intros x Hx.
  specialize (Hlev x Hx). specialize (Hle x Hx). cbn beta in *. unfold wlevel in *.
  destruct (N.leb_spec 2 (fst x)) as [H2|]; [|discriminate]. cbn [andb] in *.
  rewrite <- (Heq (N.to_nat (fst x - 2))) by lia. rewrite <- (Heq (N.to_nat (fst x - 1))) by lia. exact Hlev.
Qed.

Lemma key_ww_ok_spec k kb : key_ww_ok k = true -> kb <= 15 -> (kb = 0 \/ wlevel k kb = true) ->
  wwalk walk_fuel k kb = true.
Proof.
  unfold key_ww_ok. rewrite forallb_forall. intros H Hkb Hl. specialize (H kb). rewrite in_map_iff in H.
  specialize (H ltac:(exists (N.to_nat kb); split; [lia|apply in_seq; lia])).
  assert (E : (kb =? 0) || wlevel k kb = true) by (destruct Hl as [-> | ->]; [reflexivity|apply orb_true_r]).
  rewrite E in H. exact H.
Qed.

Theorem static_map_write_total tbl e : table_ww_ok tbl = true -> length e = length tbl ->
  exists out, sm_write tbl e = WOk [] out.
Proof.
  intros Hww Hel. unfold table_ww_ok in Hww. apply andb_true_iff in Hww. destruct Hww as [Ht Hkeys].
  assert (Hloop : forall tl prev W out, (forall ik, In ik tl -> In ik tbl) ->
            WInv (pkey prev) W -> (prev = None -> W = []) ->
            exists W' out', sm_write_loop tl e prev W out = WOk W' out').
  { induction tl as [|[idx k] tl IH]; intros prev W out Hin HI Hnone.
    - eexists _, _. reflexivity.
    - assert (Hrow : In (idx, k) tbl) by (apply Hin; left; reflexivity).
      assert (Hin' : forall ik, In ik tl -> In ik tbl) by (intros ik H; apply Hin; right; exact H).
      unfold table_ok in Ht. rewrite forallb_forall in Ht, Hkeys.
      pose proof (Ht _ Hrow) as Hr. cbn [fst snd] in Hr. apply andb_true_iff in Hr. destruct Hr as [Hidx Hk].
      apply N.ltb_lt in Hidx. pose proof (Hkeys _ Hrow) as Hkw. cbn [snd] in Hkw.
      cbn [sm_write_loop].
      destruct (nth_error e (N.to_nat idx)) as [[sv|]|] eqn:Ee; [| |apply nth_error_None in Ee; lia].
      2:{ apply IH; assumption. }
      destruct (WInv_top _ _ HI) as (Htop & _).
      change (match W with (n, _) :: _ => n | [] => 0 end) with (top W).
      set (bs := count_base (firstn (N.to_nat (top W)) (pad_key k)) (firstn (N.to_nat (top W)) (pad_key (pkey prev)))).
      assert (Ebs : match prev with
                    | Some p => Some (count_base (firstn (N.to_nat (top W)) (pad_key k)) (firstn (N.to_nat (top W)) (pad_key p)))
                    | None => if top W =? 0 then Some 0 else None
                    end = Some bs).
      { destruct prev as [p|]; [reflexivity|]. pose proof (Hnone eq_refl) as HW. subst W. reflexivity. }
      rewrite Ebs. destruct (sm_pop_spec W bs out) as (m & Hm & Ep & Ht1). rewrite Ep.
      assert (HI1 : WInv k (skipn m W)).
      { eapply (WInv_transfer (pkey prev) k _ bs); [|exact Ht1|].
        - destruct HI as [A B]. split; [rewrite <- skipn_map; apply stack_ok_skipn, A|apply Forall_skipn, B].
        - intros i Hi. apply (common_prefix k (pkey prev) (top W) i); [lia|]. fold bs. lia. }
      change (match skipn m W with (n, _) :: _ => n | [] => 0 end) with (top (skipn m W)).
      destruct (WInv_top _ _ HI1) as (Htop1 & _).
      assert (Hlev : top (skipn m W) = 0 \/ wlevel k (top (skipn m W)) = true).
      { destruct HI1 as [_ Hl]. destruct (skipn m W) as [|[n b] W1]; [left; reflexivity|]. right. inversion Hl; subst. assumption. }
      destruct (wkey_total k (enc_sval sv) Hk walk_fuel (N.to_nat max_key + 2) (skipn m W) (top (skipn m W)) (out ++ repeat ch_e m))
        as (W2 & out2 & Ew & HI2); [apply key_ww_ok_spec; assumption|exact HI1|reflexivity|rewrite max_key_val; lia|].
      rewrite Ew. apply IH; [exact Hin'|exact HI2|discriminate]. }
  destruct (Hloop tbl None [] [ch_d]) as (W' & out' & E); [auto|split; [exact I|constructor]|reflexivity|].
  unfold sm_write. rewrite E. eexists. reflexivity.
Qed.
