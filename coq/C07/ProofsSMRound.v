(* Static-map round trip for ALL tables with table_rt_ok and ALL entry assignments whose values
   round-trip through their reader (value_rt) — writer/reader lock-step over the table rows.
   Rows whose key contains "[]" must be empty (see the end of the file for what is missing). *)
From Coq Require Import List NArith ZArith Bool Lia ZifyBool ZifyNat ZifyN.
Ltac Zify.zify_post_hook ::= Z.div_mod_to_equations.
From LTV Require Import Common.Bytes.
From LTV.C07 Require Import ParamsGen Model ProofsDec ProofsSafe ProofsRT ProofsSkip StaticMap ProofsSM ProofsSMTotal ProofsSMFaith.
Import ListNotations.
Local Open Scope N_scope.

(* ---------------------------------------------------------------- reader runs *)
Definition bounded (l : bytes) : Prop := N.of_nat (length l) < two32.

(* the reader loop, started in R on w followed by any fut (the whole below 2^32 bytes), reaches R'
   on fut after exactly n iterations *)
Definition Run (tbl : ktable) (n : nat) (R R' : smst) (w : bytes) : Prop :=
  forall fut f, bounded (w ++ fut) -> sm_loop tbl (n + f) R (w ++ fut) = sm_loop tbl f R' fut.

Lemma Run_refl tbl R : Run tbl 0 R R [].
Proof. intros fut f _. reflexivity. Qed.

Lemma bounded_app_r a b : bounded (a ++ b) -> bounded b.
Proof. unfold bounded. rewrite app_length. lia. Qed.

Lemma Run_trans tbl n1 n2 R R1 R2 w1 w2 :
  Run tbl n1 R R1 w1 -> Run tbl n2 R1 R2 w2 -> Run tbl (n1 + n2) R R2 (w1 ++ w2).
Proof.
  intros H1 H2 fut f Hb. rewrite <- app_assoc in *. rewrite <- Nat.add_assoc.
  rewrite H1 by exact Hb. apply H2. eapply bounded_app_r; exact Hb.
Qed.

Definition top (W : list (N * bool)) : N := match W with (n, _) :: _ => n | [] => 0 end.

Lemma top_map W : hd 0 (map fst W) = top W.
Proof. destruct W as [|[n b] W]; reflexivity. Qed.

(* 'e' with a non-empty stack: one level is left *)
Lemma run_pop tbl R n stk : s_stack R = n :: stk ->
  Run tbl 1 R (mkst (s_cursor R) stk (s_cur R) (s_ents R)) [ch_e].
Proof.
  intros Hs fut f _. cbn [Nat.add app sm_loop]. change (ch_e =? ch_e) with true. cbv iota. rewrite Hs. reflexivity.
Qed.

(* ---------------------------------------------------------------- keys and the scratch buffer *)
Lemma key_ok_nonzero k i : key_ok k = true -> (i < length k)%nat -> nth i k 0 <> 0.
Proof.
  unfold key_ok. rewrite andb_true_iff, forallb_forall. intros [_ H] Hi.
  specialize (H (nth i k 0) (nth_In k 0 Hi)). apply negb_true_iff, N.eqb_neq in H. exact H.
Qed.

Lemma c_strlen_exact b n : (n < length b)%nat -> nth n b 0 = 0 -> (forall i, (i < n)%nat -> nth i b 0 <> 0) ->
  c_strlen b = Some n.
Proof.
  intros Hn Hz Hnz. destruct (c_strlen_exists b n Hn Hz) as (m & E & Hm).
  destruct (c_strlen_spec b m E) as (_ & Hz' & _).
  destruct (Nat.eq_dec m n) as [->|Hne]; [exact E|]. exfalso. apply (Hnz m); [lia|exact Hz'].
Qed.

Lemma nth_skipn_add {A} : forall a (l : list A) i d, nth i (skipn a l) d = nth (a + i) l d.
Proof.
  induction a as [|a IH]; intros l i d; [reflexivity|].
  destruct l as [|h t]; [destruct i; reflexivity|]. cbn [skipn Nat.add nth]. apply IH.
Qed.

Lemma sub_key_length k a b : a <= b -> b <= 16 -> length (sub_key k a b) = N.to_nat (b - a).
Proof.
  intros Hab Hb. unfold sub_key. rewrite firstn_length, skipn_length.
  assert (length (pad_key k) = 16%nat).
  { unfold pad_key. rewrite max_key_val. change (N.to_nat 16) with 16%nat.
    rewrite firstn_length, app_length, repeat_length. lia. }
  lia.
Qed.

Lemma sub_key_nth k a b i : b <= 16 -> (i < N.to_nat (b - a))%nat ->
  nth i (sub_key k a b) 0 = nth (N.to_nat a + i) k 0.
Proof.
  intros Hb Hi. unfold sub_key. rewrite nth_firstn_lt by exact Hi. rewrite nth_skipn_add.
  apply nth_pad_key. lia.
Qed.

(* find_key_end: the component [pos, end) holds no terminator character, the end does (or is 16) *)
Lemma find_key_end_spec k : forall fuel pos, (16 - pos < N.of_nat fuel) ->
  let ke := find_key_end fuel k pos in
  pos <= ke /\ (pos <= 16 -> ke <= 16) /\
  (forall i, pos <= i < ke -> is_not_key_char (nth (N.to_nat i) k 0) = false) /\
  (ke < 16 -> is_not_key_char (nth (N.to_nat ke) k 0) = true).
Proof.
  induction fuel as [|f IH]; intros pos Hf; [lia|]. cbn [find_key_end]. rewrite max_key_val.
  destruct (N.leb_spec 16 pos) as [Hge|Hlt].
  { cbv zeta. repeat split; [lia|lia|intros; lia|lia]. }
  destruct (is_not_key_char (nth (N.to_nat pos) k 0)) eqn:E.
  { cbv zeta. repeat split; [lia|lia|intros; lia|intros _; exact E]. }
  destruct (IH (pos + 1)) as (A & B & C & D); [lia|]. cbv zeta in *.
  repeat split; [lia|intros; apply B; lia| |exact D].
  intros i Hi. destruct (N.eq_dec i pos) as [->|Hne]; [exact E|]. apply C. lia.
Qed.

(* the buffer after copying a component name behind the prefix of key k and terminating it *)
Lemma key_buffer k cur nk ke name :
  length cur = 18%nat -> key_ok k = true -> nk <= ke -> ke <= N.of_nat (length k) ->
  (forall i, (i < N.to_nat nk)%nat -> nth i cur 0 = nth i k 0) ->
  length name = N.to_nat (ke - nk) ->
  (forall i, (i < length name)%nat -> nth i name 0 = nth (N.to_nat nk + i) k 0) ->
  exists b1 b2, buf_write cur (N.to_nat nk) name = Some b1 /\
    set_nth b1 (N.to_nat (nk + N.of_nat (length name))) 0 = Some b2 /\
    length b2 = 18%nat /\ c_strlen b2 = Some (N.to_nat ke) /\
    firstn (N.to_nat ke) b2 = firstn (N.to_nat ke) k /\
    (forall i, (i < N.to_nat ke)%nat -> nth i b2 0 = nth i k 0).
Proof.
  intros Hlen Hk Hnk Hke Hpre Hnl Hname. pose proof (key_ok_len k Hk) as Hkl.
  destruct (buf_write_some name cur (N.to_nat nk)) as (b1 & E1 & L1 & P1); [lia|].
  pose proof (buf_write_content _ _ _ _ E1) as C1.
  destruct (set_nth_some b1 (N.to_nat (nk + N.of_nat (length name))) 0) as (b2 & E2 & L2 & N2); [lia|].
  exists b1, b2. split; [exact E1|]. split; [exact E2|]. split; [lia|].
  assert (Hke' : N.to_nat (nk + N.of_nat (length name)) = N.to_nat ke) by lia.
  assert (Hall : forall i, (i < N.to_nat ke)%nat -> nth i b2 0 = nth i k 0).
  { intros i Hi. rewrite N2. destruct (Nat.eqb_spec i (N.to_nat (nk + N.of_nat (length name)))); [lia|].
    destruct (Nat.lt_ge_cases i (N.to_nat nk)) as [Hl|Hg].
    - rewrite P1 by exact Hl. apply Hpre, Hl.
    - replace i with (N.to_nat nk + (i - N.to_nat nk))%nat by lia. rewrite C1 by lia.
      rewrite Hname by lia. reflexivity. }
  split; [|split; [|exact Hall]].
  - apply c_strlen_exact; [lia| |].
    + rewrite N2, Hke', Nat.eqb_refl. reflexivity.
    + intros i Hi. rewrite Hall by exact Hi. apply key_ok_nonzero; [exact Hk|lia].
  - apply firstn_nth_ext; [lia|lia|exact Hall].
Qed.

(* ---------------------------------------------------------------- one reader iteration on a key
   sm_found is, verbatim, the `FkSome pos base` branch of sm_loop (StaticMap.v): what the loop does
   once the key has been copied into current_key (buffer b2) and found at row pos. *)
Definition sm_found (tbl : ktable) (f : nat) (st : smst) (b2 : bytes) (rest : bytes) (pos : nat) (base : N) : res entries :=
  let st1 := mkst (s_cursor st) (s_stack st) b2 (s_ents st) in
                      match nth_error tbl pos with
                      | None => Fault
                      | Some (idx, k) =>
                      match kat k base with
                      | None => Fault
                      | Some c0 =>
                        if (c0 =? 0) || (c0 =? ch_star) then
                          match (if c0 =? 0 then Some None
                                 else match kat k (base + 1) with
                                      | Some c1 => Some (Some (kind_of_char c1))
                                      | None => None
                                      end) with
                          | None => Fault
                          | Some raw =>
                              match read_value raw rest with
                              | Ok o rest' =>
                                  match store (s_ents st) idx o with
                                  | None => Fault
                                  | Some e' => sm_loop tbl f (mkst (S pos) (s_stack st) b2 e') rest'
                                  end
                              | Reject => Reject | Fault => Fault | OutOfFuel => OutOfFuel
                              end
                          end
                        else if c0 =? ch_colon then
                          match rest with
                          | [] => Reject
                          | c1 :: rest1 =>
                              if c1 =? ch_d then
                                if sm_stack_size <=? N.of_nat (length (s_stack st)) + 1 then Fault   (* stack[8] *)
                                else match set_nth b2 (N.to_nat base) ch_colon with
                                     | None => Fault
                                     | Some b3 =>
                                     match set_nth b3 (N.to_nat (base + 1)) ch_colon with
                                     | None => Fault
                                     | Some b4 =>
                                         sm_loop tbl f (mkst (s_cursor st) ((base + 2) :: s_stack st) b4 (s_ents st)) rest1
                                     end
                                     end
                              else match skip_c rest with
                                   | Ok _ rest' => sm_loop tbl f st1 rest'
                                   | Reject => Reject | Fault => Fault | OutOfFuel => OutOfFuel
                                   end
                          end
                        else if c0 =? ch_lbr then
                          match rest with
                          | [] => Reject
                          | c1 :: rest1 =>
                              if c1 =? ch_l then
                                match sm_list tbl (S (length rest1)) pos k base (s_ents st) rest1 with
                                | Ok (fk', e') rest' => sm_loop tbl f (mkst fk' (s_stack st) b2 e') rest'
                                | Reject => Reject | Fault => Fault | OutOfFuel => OutOfFuel
                                end
                              else match skip_c rest with
                                   | Ok _ rest' => sm_loop tbl f st1 rest'
                                   | Reject => Reject | Fault => Fault | OutOfFuel => OutOfFuel
                                   end
                          end
                        else Fault                         (* internal_error: invalid character *)
                      end
                      end.

Lemma sm_loop_found tbl f st name rest b1 b2 len pos base :
  bounded (enc_str name ++ rest) -> top_key st <= 15 ->
  N.of_nat (length name) < 16 - top_key st -> existsb is_not_key_char name = false ->
  buf_write (s_cur st) (N.to_nat (top_key st)) name = Some b1 ->
  set_nth b1 (N.to_nat (top_key st + N.of_nat (length name))) 0 = Some b2 ->
  c_strlen b2 = Some len ->
  find_key (skipn (s_cursor st) tbl) (s_cursor st) (firstn len b2) = FkSome pos base ->
  sm_loop tbl (S f) st (enc_str name ++ rest) = sm_found tbl f st b2 rest pos base.
Proof.
  intros Hb Htop Hfit Hplain E1 E2 E3 E4.
  destruct (enc_str_head name) as (c & tl & E & Hc).
  destruct (digit_not_tag c Hc) as (_ & _ & _ & Hce).
  assert (Hcs : c_string (enc_str name ++ rest) = Ok name rest)
    by (apply c_string_enc; [unfold two32; lia|exact Hb]).
  revert Hcs. rewrite E. cbn [app]. intros Hcs. cbn [sm_loop]. rewrite Hce, Hcs. cbv zeta.
  assert (Hlong : ((max_key + two64 - top_key st) mod two64 <=? N.of_nat (length name)) || existsb is_not_key_char name = false).
  { rewrite Hplain, orb_false_r. apply N.leb_gt. rewrite max_key_val. unfold two64. lia. }
  rewrite Hlong, E1, E2, E3, E4. reflexivity.
Qed.

(* ---------------------------------------------------------------- lock-step state relation *)
Definition SimSt (k : bytes) (W : list (N * bool)) (R : smst) : Prop :=
  length (s_cur R) = 18%nat /\ s_stack R = map fst W /\ Forall (fun x => snd x = false) W /\
  stack_ok (map fst W) /\
  (forall i, (i < N.to_nat (top W))%nat -> nth i (s_cur R) 0 = nth i k 0) /\
  Forall (fun x => level_start k (fst x) = true) W.

Lemma SimSt_top k W R : SimSt k W R -> top_key R = top W /\ top W <= 15 /\ 2 * N.of_nat (length W) <= top W.
Proof.
  intros (_ & Hs & _ & Hok & _). unfold top_key. rewrite Hs, top_map. split; [reflexivity|].
  pose proof (stack_top_le _ Hok). pose proof (stack_depth _ Hok). rewrite top_map in *. rewrite map_length in *. lia.
Qed.

(* a component name of key k between a level start kb and its terminator ke *)
Definition is_name (k : bytes) (kb ke : N) (name : bytes) : Prop :=
  length name = N.to_nat (ke - kb) /\
  (forall i, (i < length name)%nat -> nth i name 0 = nth (N.to_nat kb + i) k 0) /\
  existsb is_not_key_char name = false.

Lemma existsb_nth_false (p : N -> bool) l : (forall i, (i < length l)%nat -> p (nth i l 0) = false) -> existsb p l = false.
Proof.
  induction l as [|x l IH]; intros H; [reflexivity|]. cbn [existsb].
  pose proof (H O ltac:(cbn [length]; lia)) as H0. cbn [nth] in H0. rewrite H0. cbn [orb]. apply IH. intros i Hi. apply (H (S i)). cbn [length]. lia.
Qed.

Definition kfuel : nat := (N.to_nat max_key + 1)%nat.
Lemma kfuel_val : kfuel = 17%nat. Proof. reflexivity. Qed.

Lemma sub_key_is_name k kb ke : kb <= 15 -> ke = find_key_end kfuel k kb -> ke <= 16 ->
  kb <= ke /\ is_name k kb ke (sub_key k kb ke) /\ (ke < 16 -> is_not_key_char (nth (N.to_nat ke) k 0) = true).
Proof.
  intros Hkb Eke Hke.
  destruct (find_key_end_spec k kfuel kb) as (A & _ & C & D); [rewrite kfuel_val; lia|].
  cbv zeta in A, C, D. rewrite <- Eke in A, C, D.
  pose proof (sub_key_length k kb ke A Hke) as L.
  split; [exact A|]. split; [|exact D]. split; [exact L|]. split.
  - intros i Hi. apply sub_key_nth; [exact Hke|lia].
  - apply existsb_nth_false. intros i Hi. rewrite sub_key_nth by (try exact Hke; lia).
    replace (N.to_nat kb + i)%nat with (N.to_nat (kb + N.of_nat i)) by lia. apply C. lia.
Qed.

(* "::" component: the reader enters the nested dictionary *)
Lemma reader_dict_step tbl k W R kb ke name p idx' k' :
  key_ok k = true -> SimSt k W R -> kb = top W -> kb <= ke -> ke <= N.of_nat (length k) ->
  nth (N.to_nat ke) k 0 = ch_colon -> nth (N.to_nat (ke + 1)) k 0 = ch_colon ->
  is_name k kb ke name ->
  find_key (skipn (s_cursor R) tbl) (s_cursor R) (firstn (N.to_nat ke) k) = FkSome p ke ->
  nth_error tbl p = Some (idx', k') -> nth (N.to_nat ke) k' 0 = ch_colon ->
  exists R', Run tbl 1 R R' (enc_str name ++ [ch_d]) /\ SimSt k ((ke + 2, false) :: W) R' /\
             s_cursor R' = s_cursor R /\ s_ents R' = s_ents R.
Proof.
  intros Hk HS Hkb Hle Hkel Hc0 Hc1 (Nl & Nn & Np) Hfind Hrow Hrow0.
  destruct (SimSt_top _ _ _ HS) as (Htk & Htop & Hdep).
  destruct HS as (Hlen & Hstk & Hfalse & Hok & Hpre & Hlev).
  pose proof (key_ok_len k Hk) as Hkl.
  assert (Hke1 : (N.to_nat (ke + 1) < length k)%nat) by (apply nth_nonzero_lt; rewrite Hc1; discriminate).
  destruct (key_buffer k (s_cur R) kb ke name Hlen Hk Hle Hkel) as (b1 & b2 & E1 & E2 & L2 & E3 & E4 & Hall);
    [rewrite Hkb; exact Hpre|exact Nl|exact Nn|].
  destruct (set_nth_some b2 (N.to_nat ke) ch_colon) as (b3 & E5 & L3 & N3); [lia|].
  destruct (set_nth_some b3 (N.to_nat (ke + 1)) ch_colon) as (b4 & E6 & L4 & N4); [lia|].
  exists (mkst (s_cursor R) ((ke + 2) :: s_stack R) b4 (s_ents R)).
  split; [|split; [|split; reflexivity]].
  - intros fut f Hb. cbn [Nat.add]. rewrite <- app_assoc. cbn [app].
    rewrite (sm_loop_found tbl f R name (ch_d :: fut) b1 b2 (N.to_nat ke) p ke);
      [|rewrite <- app_assoc in Hb; exact Hb|lia|lia|exact Np|rewrite Htk, <- Hkb; exact E1
       |rewrite Htk, <- Hkb; exact E2|exact E3|rewrite E4; exact Hfind].
    unfold sm_found. cbv zeta. rewrite Hrow.
    assert (Hke16 : ke < 16) by lia. rewrite (kat_some k' ke Hke16), Hrow0.
    change ((ch_colon =? 0) || (ch_colon =? ch_star)) with false. change (ch_colon =? ch_colon) with true. cbv iota.
    change (ch_d =? ch_d) with true. cbv iota. rewrite sm_stack_size_val.
    rewrite Hstk, map_length.
    destruct (N.leb_spec 8 (N.of_nat (length W) + 1)) as [Hbad|_]; [lia|].
    rewrite E5, E6. reflexivity.
  - unfold SimSt. cbn [s_cur s_stack map fst top]. split; [lia|]. split; [rewrite Hstk; reflexivity|].
    split; [constructor; [reflexivity|exact Hfalse]|]. split.
    + cbn [stack_ok]. rewrite top_map. repeat split; [lia|lia|exact Hok].
    + split.
      * intros i Hi. rewrite N4, N3.
        destruct (Nat.eqb_spec i (N.to_nat (ke + 1))) as [->|]; [symmetry; exact Hc1|].
        destruct (Nat.eqb_spec i (N.to_nat ke)) as [->|]; [symmetry; exact Hc0|]. apply Hall. lia.
      * constructor; [|exact Hlev]. cbn [fst]. unfold level_start.
        replace (ke + 2 - 2) with ke by lia. replace (ke + 2 - 1) with (ke + 1) by lia.
        rewrite Hc0, Hc1. change (ch_colon =? ch_colon) with true.
        destruct (N.leb_spec 2 (ke + 2)); [|lia]. apply orb_true_r.
Qed.

(* values that round-trip through their reader *)
Definition value_rt (raw : option raw_kind) (sv : sval) : Prop :=
  forall rest, bounded (enc_sval sv ++ rest) -> read_value raw (enc_sval sv ++ rest) = Ok (Some sv) rest.

(* leaf component: the reader stores the value into row j's entry and advances the cursor *)
Lemma reader_leaf_step tbl k W R kb ke name j raw sv e' :
  key_ok k = true -> SimSt k W R -> kb = top W -> kb <= ke -> ke <= N.of_nat (length k) -> ke < 16 ->
  is_name k kb ke name ->
  find_key (skipn (s_cursor R) tbl) (s_cursor R) (firstn (N.to_nat ke) k) = FkSome j ke ->
  nth_error tbl j = Some (N.of_nat j, k) ->
  (nth (N.to_nat ke) k 0 = 0 /\ raw = None \/
   nth (N.to_nat ke) k 0 = ch_star /\ raw = Some (kind_of_char (nth (N.to_nat (ke + 1)) k 0))) ->
  value_rt raw sv -> set_nth (s_ents R) j (Some sv) = Some e' ->
  exists R', Run tbl 1 R R' (enc_str name ++ enc_sval sv) /\ SimSt k W R' /\
             s_cursor R' = S j /\ s_ents R' = e'.
Proof.
  intros Hk HS Hkb Hle Hkel Hke16 (Nl & Nn & Np) Hfind Hrow Hterm Hv Hset.
  destruct (SimSt_top _ _ _ HS) as (Htk & Htop & Hdep).
  destruct HS as (Hlen & Hstk & Hfalse & Hok & Hpre & Hlev).
  pose proof (key_ok_len k Hk) as Hkl.
  destruct (key_buffer k (s_cur R) kb ke name Hlen Hk Hle Hkel) as (b1 & b2 & E1 & E2 & L2 & E3 & E4 & Hall);
    [rewrite Hkb; exact Hpre|exact Nl|exact Nn|].
  exists (mkst (S j) (s_stack R) b2 e').
  split; [|split; [|split; reflexivity]].
  - intros fut f Hb. cbn [Nat.add]. rewrite <- app_assoc.
    rewrite (sm_loop_found tbl f R name (enc_sval sv ++ fut) b1 b2 (N.to_nat ke) j ke);
      [|rewrite <- app_assoc in Hb; exact Hb|lia|lia|exact Np|rewrite Htk, <- Hkb; exact E1
       |rewrite Htk, <- Hkb; exact E2|exact E3|rewrite E4; exact Hfind].
    unfold sm_found. cbv zeta. rewrite Hrow. rewrite (kat_some k ke Hke16).
    assert (Hbv : bounded (enc_sval sv ++ fut)) by (rewrite <- app_assoc in Hb; eapply bounded_app_r; exact Hb).
    destruct Hterm as [[Hc0 ->]|[Hc0 ->]]; rewrite Hc0.
    + change ((0 =? 0) || (0 =? ch_star)) with true. change (0 =? 0) with true. cbv iota.
      rewrite (Hv fut Hbv). unfold store. rewrite Nat2N.id, Hset. reflexivity.
    + change ((ch_star =? 0) || (ch_star =? ch_star)) with true. change (ch_star =? 0) with false. cbv iota.
      assert (Hke1 : ke + 1 < 16).
      { assert (N.to_nat ke < length k)%nat by (apply nth_nonzero_lt; rewrite Hc0; discriminate). lia. }
      rewrite (kat_some k (ke + 1) Hke1). rewrite (Hv fut Hbv). unfold store. rewrite Nat2N.id, Hset. reflexivity.
  - unfold SimSt. cbn [s_cur s_stack]. split; [lia|]. split; [exact Hstk|]. split; [exact Hfalse|].
    split; [exact Hok|]. split; [|exact Hlev]. intros i Hi. apply Hall. lia.
Qed.

(* ---------------------------------------------------------------- one key: writer and reader in lock-step *)
Lemma lookups_ok_spec tbl j cs ke leaf c : lookups_ok tbl j cs ke leaf = true -> (c <= j)%nat ->
  exists p, find_key (skipn c tbl) c cs = FkSome p ke /\
    (if leaf then p = j
     else exists i k', nth_error tbl p = Some (i, k') /\ nth (N.to_nat ke) k' 0 = ch_colon).
Proof.
  unfold lookups_ok. rewrite forallb_forall. intros H Hc.
  specialize (H c). rewrite in_seq in H. specialize (H ltac:(lia)).
  destruct (find_key (skipn c tbl) c cs) as [| |p b]; try discriminate.
  apply andb_true_iff in H. destruct H as [Hb Hl]. apply N.eqb_eq in Hb. subst b.
  exists p. split; [reflexivity|]. destruct leaf.
  - apply Nat.eqb_eq in Hl. exact Hl.
  - destruct (nth_error tbl p) as [[i k']|]; [|discriminate]. apply N.eqb_eq in Hl. eauto.
Qed.

Section Row.
Variables (tbl : ktable) (j : nat) (k : bytes) (raw : option raw_kind) (sv : sval).
Hypothesis Hk : key_ok k = true.
Hypothesis Hrow : nth_error tbl j = Some (N.of_nat j, k).
Hypothesis Hv : value_rt raw sv.

Lemma walk_sim : forall fw F W kb out R e',
  walk fw tbl j k kb = Some (LLeaf raw) ->
  SimSt k W R -> kb = top W -> (s_cursor R <= j)%nat -> 16 - kb < 2 * N.of_nat F ->
  set_nth (s_ents R) j (Some sv) = Some e' ->
  exists W' w n R', sm_write_key F k (enc_sval sv) W kb out = WOk W' (out ++ w) /\
    Run tbl n R R' w /\ (n <= length w)%nat /\ SimSt k W' R' /\ s_cursor R' = S j /\ s_ents R' = e'.
Proof.
  pose proof (key_ok_len k Hk) as Hkl.
  induction fw as [|fw IH]; intros F W kb out R e' Hw HS Hkb Hcur HF Hset; [discriminate|].
  destruct (SimSt_top _ _ _ HS) as (Htk & Htop & Hdep).
  cbn [walk] in Hw. fold kfuel in Hw.
  remember (find_key_end kfuel k kb) as ke eqn:Eke.
  destruct ((ke <? max_key) && (ke <=? N.of_nat (length k))) eqn:Echk; cbn [negb] in Hw; [|discriminate].
  apply andb_true_iff in Echk. destruct Echk as [Hke16 Hkel]. rewrite max_key_val in Hke16.
  apply N.ltb_lt in Hke16. apply N.leb_le in Hkel.
  destruct (sub_key_is_name k kb ke) as (Hle & Hname & Hterm); [lia|exact Eke|lia|].
  destruct F as [|F]; [lia|]. cbn [sm_write_key]. fold kfuel. rewrite <- Eke.
  assert (Hnl : match W with (_, b) :: _ => b | [] => false end = false).
  { destruct HS as (_ & _ & Hf & _). destruct W as [|[n b] W']; [reflexivity|]. inversion Hf; subst. assumption. }
  rewrite Hnl. rewrite (kat_some k ke Hke16).
  set (c0 := nth (N.to_nat ke) k 0) in *. set (c1 := nth (N.to_nat (ke + 1)) k 0) in *.
  assert (Hnext : c0 <> 0 -> ke + 1 < 16).
  { intros Hc. apply nth_nonzero_lt in Hc. lia. }
  destruct ((c0 =? ch_colon) && (c1 =? ch_colon)) eqn:Edict.
  { (* "::" *)
    apply andb_true_iff in Edict. destruct Edict as [Ec0 Ec1]. apply N.eqb_eq in Ec0, Ec1.
    destruct (lookups_ok tbl j (firstn (N.to_nat ke) k) ke false) eqn:Elk; [|discriminate].
    destruct (lookups_ok_spec _ _ _ _ _ (s_cursor R) Elk Hcur) as (p & Hfind & i' & k' & Hrow' & Hrow0).
    rewrite Ec0. change ((ch_colon =? ch_colon) || (ch_colon =? ch_lbr)) with true. cbv iota.
    rewrite (kat_some k (ke + 1)) by (apply Hnext; rewrite Ec0; discriminate).
    fold c1. rewrite Ec1. change ((ch_colon =? ch_colon) && (ch_colon =? ch_colon)) with true. cbv iota.
    assert (Hke2 : ke + 2 <= 15).
    { assert (N.to_nat (ke + 1) < length k)%nat by (apply nth_nonzero_lt; fold c1; rewrite Ec1; discriminate). lia. }
    rewrite sm_stack_size_val.
    destruct (N.leb_spec 8 (N.of_nat (length W) + 1)) as [Hbad|_]; [lia|].
    destruct (reader_dict_step tbl k W R kb ke (sub_key k kb ke) p i' k' Hk HS Hkb Hle Hkel Ec0 Ec1 Hname Hfind Hrow' Hrow0)
      as (R1 & Hrun1 & HS1 & Hc1' & He1).
    destruct (IH F ((ke + 2, false) :: W) (ke + 2) ((out ++ enc_str (sub_key k kb ke)) ++ [ch_d]) R1 e')
      as (W' & w & n & R' & Ew & Hrun & Hn & HS' & Hc' & He'); [exact Hw|exact HS1|reflexivity|lia|lia|rewrite He1; exact Hset|].
    exists W', ((enc_str (sub_key k kb ke) ++ [ch_d]) ++ w), (1 + n)%nat, R'.
    split; [rewrite Ew; f_equal; rewrite <- !app_assoc; reflexivity|].
    split; [eapply Run_trans; [exact Hrun1|exact Hrun]|]. split; [rewrite !app_length; cbn [length]; lia|].
    split; [exact HS'|]. split; assumption. }
  destruct ((c0 =? ch_lbr) && (c1 =? ch_rbr)) eqn:Elist; [discriminate|].
  assert (Hleaf : (c0 = 0 /\ raw = None \/ c0 = ch_star /\ raw = Some (kind_of_char c1)) /\
            lookups_ok tbl j (firstn (N.to_nat ke) k) ke true = true).
  { destruct (N.eqb_spec c0 0) as [E0|E0].
    - destruct (lookups_ok _ _ _ _ true); [|discriminate]. inversion Hw; subst. split; [left; split; [exact E0|reflexivity]|reflexivity].
    - destruct (N.eqb_spec c0 ch_star) as [Es|Es]; [|discriminate].
      destruct (lookups_ok _ _ _ _ true); [|discriminate]. inversion Hw; subst. split; [right; split; [exact Es|reflexivity]|reflexivity]. }
  destruct Hleaf as (Hterm' & Elk).
  destruct (lookups_ok_spec _ _ _ _ _ (s_cursor R) Elk Hcur) as (p & Hfind & ->).
  destruct (reader_leaf_step tbl k W R kb ke (sub_key k kb ke) j raw sv e' Hk HS Hkb Hle Hkel Hke16 Hname Hfind Hrow Hterm' Hv Hset)
    as (R' & Hrun & HS' & Hc' & He').
  exists W, (enc_str (sub_key k kb ke) ++ enc_sval sv), 1%nat, R'.
  split.
  - assert (Ewr : (if (c0 =? ch_colon) || (c0 =? ch_lbr) then kat k (ke + 1) else Some 0) = Some (if (c0 =? ch_colon) || (c0 =? ch_lbr) then c1 else 0)).
    { destruct ((c0 =? ch_colon) || (c0 =? ch_lbr)) eqn:E; [|reflexivity].
      rewrite (kat_some k (ke + 1)); [reflexivity|]. apply Hnext. intros Hz. rewrite Hz in E. discriminate. }
    rewrite Ewr.
    assert (E1 : (c0 =? ch_colon) && ((if (c0 =? ch_colon) || (c0 =? ch_lbr) then c1 else 0) =? ch_colon) = false).
    { destruct (c0 =? ch_colon); [|reflexivity]. cbn [orb andb] in *. exact Edict. }
    assert (E2 : (c0 =? ch_lbr) && ((if (c0 =? ch_colon) || (c0 =? ch_lbr) then c1 else 0) =? ch_rbr) = false).
    { destruct (c0 =? ch_lbr); [|reflexivity]. rewrite orb_true_r. cbn [andb] in *. exact Elist. }
    rewrite E1, E2.
    assert (E3 : (c0 =? 0) || (c0 =? ch_star) = true) by (destruct Hterm' as [[-> _]|[-> _]]; reflexivity).
    rewrite E3. rewrite <- app_assoc. reflexivity.
  - split; [exact Hrun|]. split; [rewrite app_length; destruct (enc_str_head (sub_key k kb ke)) as (c & tl & E & _); rewrite E; cbn [length]; lia|].
    split; [exact HS'|]. split; assumption.
Qed.
End Row.

(* ---------------------------------------------------------------- between rows: closing levels *)
Lemma stack_ok_le_top : forall W, stack_ok (map fst W) -> Forall (fun x => fst x <= top W) W.
Proof.
  induction W as [|[n b] W IH]; intros H; [constructor|].
  cbn [map fst stack_ok] in H. destruct H as (H1 & H2 & H3). rewrite top_map in H1.
  constructor; [cbn; lia|]. specialize (IH H3). cbn [top].
  eapply Forall_impl; [|exact IH]. cbn beta. intros x Hx. lia.
Qed.

Lemma pop_sim tbl kp : forall W R b out, SimSt kp W R ->
  exists m R1, (m <= length W)%nat /\ sm_pop W b out = (skipn m W, out ++ repeat ch_e m) /\
    Run tbl m R R1 (repeat ch_e m) /\ SimSt kp (skipn m W) R1 /\ (top (skipn m W) <= b) /\
    s_cursor R1 = s_cursor R /\ s_ents R1 = s_ents R.
Proof.
  induction W as [|[nk bl] W IH]; intros R b out HS.
  - exists O, R. cbn [length skipn sm_pop repeat top]. rewrite app_nil_r.
    split; [lia|]. split; [reflexivity|]. split; [apply Run_refl|]. split; [exact HS|]. split; [lia|]. split; reflexivity.
  - cbn [sm_pop]. destruct (N.ltb_spec b nk) as [Hlt|Hge].
    + destruct HS as (Hlen & Hstk & Hfalse & Hok & Hpre & Hlev).
      cbn [map fst] in Hstk, Hok. cbn [stack_ok] in Hok. destruct Hok as (O1 & O2 & O3). rewrite top_map in O1.
      set (R' := mkst (s_cursor R) (map fst W) (s_cur R) (s_ents R)).
      assert (HS' : SimSt kp W R').
      { unfold SimSt, R'. cbn [s_cur s_stack]. split; [exact Hlen|]. split; [reflexivity|].
        split; [inversion Hfalse; assumption|]. split; [exact O3|]. split; [|inversion Hlev; assumption].
        intros i Hi. apply Hpre. cbn [top]. lia. }
      destruct (IH R' b (out ++ [ch_e]) HS') as (m & R1 & Hm & Ep & Hrun & HS1 & Ht & Hc & He).
      exists (S m), R1. cbn [length skipn repeat]. split; [lia|]. split; [rewrite Ep, <- app_assoc; reflexivity|].
      split; [|split; [exact HS1|split; [exact Ht|split; assumption]]].
      change (ch_e :: repeat ch_e m) with ([ch_e] ++ repeat ch_e m). change (S m) with (1 + m)%nat.
      eapply Run_trans; [|exact Hrun]. apply (run_pop tbl R nk (map fst W)). exact Hstk.
    + exists O, R. cbn [skipn repeat top]. rewrite app_nil_r.
      split; [lia|]. split; [reflexivity|]. split; [apply Run_refl|]. split; [exact HS|]. split; [exact Hge|]. split; reflexivity.
Qed.

Lemma count_base_prefix : forall a c i, N.of_nat i < count_base a c -> nth i a 0 = nth i c 0.
Proof.
  induction a as [|x a IH]; intros c i H; cbn [count_base] in H; [lia|].
  destruct c as [|y c]; [lia|]. destruct (N.eqb_spec x y) as [->|]; [|lia].
  destruct i as [|i]; [reflexivity|]. cbn [nth]. apply IH. lia.
Qed.

Lemma SimSt_transfer kp kj W R b : SimSt kp W R -> top W <= b ->
  (forall i, (i < N.to_nat b)%nat -> nth i kp 0 = nth i kj 0) -> SimSt kj W R.
Proof.
  intros (Hlen & Hstk & Hfalse & Hok & Hpre & Hlev) Ht Heq.
  split; [exact Hlen|]. split; [exact Hstk|]. split; [exact Hfalse|]. split; [exact Hok|]. split.
  - intros i Hi. rewrite Hpre by exact Hi. apply Heq. lia.
  - pose proof (stack_ok_le_top W Hok) as Hle.
    rewrite Forall_forall in *. intros x Hx. specialize (Hlev x Hx). specialize (Hle x Hx). cbn beta in *.
    unfold level_start in *. destruct (N.eqb_spec (fst x) 0) as [|Hnz]; [reflexivity|]. cbn [orb] in *.
    destruct (N.leb_spec 2 (fst x)) as [H2|]; [|discriminate]. cbn [andb] in *.
    rewrite <- (Heq (N.to_nat (fst x - 2))) by lia. rewrite <- (Heq (N.to_nat (fst x - 1))) by lia. exact Hlev.
Qed.

Lemma common_prefix kj kp nk i : nk <= 16 ->
  N.of_nat i < count_base (firstn (N.to_nat nk) (pad_key kj)) (firstn (N.to_nat nk) (pad_key kp)) ->
  nth i kp 0 = nth i kj 0.
Proof.
  intros Hnk H.
  pose proof (count_base_le (firstn (N.to_nat nk) (pad_key kj)) (firstn (N.to_nat nk) (pad_key kp))) as Hle.
  rewrite firstn_length in Hle.
  assert (Hi : (i < N.to_nat nk)%nat) by lia.
  apply count_base_prefix in H. rewrite !nth_firstn_lt in H by exact Hi.
  rewrite !nth_pad_key in H by lia. symmetry. exact H.
Qed.

(* ---------------------------------------------------------------- table facts *)
Lemma leafkind_eqb_eq a b : leafkind_eqb a b = true -> a = b.
Proof.
  destruct a as [|[x|]], b as [|[y|]]; cbn; try discriminate; try reflexivity.
  destruct x, y; cbn; try discriminate; reflexivity.
Qed.

Lemma row_ok_spec tbl j k lk kb : row_ok tbl j k = true -> row_kind tbl j k = Some lk ->
  kb <= 15 -> level_start k kb = true -> walk walk_fuel tbl j k kb = Some lk.
Proof.
  unfold row_ok. intros H Hk Hkb Hl. rewrite Hk in H. rewrite forallb_forall in H.
  specialize (H kb). rewrite in_map_iff in H.
  specialize (H ltac:(exists (N.to_nat kb); split; [lia|apply in_seq; lia])).
  rewrite Hl in H. cbn [negb orb] in H.
  destruct (walk walk_fuel tbl j k kb) as [lk'|]; [|discriminate]. apply leafkind_eqb_eq in H. congruence.
Qed.

Lemma skipn_cons_S {A} : forall j (l : list A) x t, skipn j l = x :: t -> skipn (S j) l = t /\ nth_error l j = Some x.
Proof.
  induction j as [|j IH]; intros l x t H.
  - cbn [skipn] in H. subst l. split; reflexivity.
  - destruct l as [|h l']; [discriminate|]. cbn [skipn] in H. apply IH in H. exact H.
Qed.

Lemma ents_absent : forall (e : entries) j, nth_error e j = Some None ->
  firstn j e ++ repeat None (length e - j) = firstn (S j) e ++ repeat None (length e - S j).
Proof.
  induction e as [|x e IH]; intros j H; [destruct j; discriminate|].
  destruct j as [|j].
  - cbn in H. inversion H; subst. cbn [firstn length app Nat.sub]. rewrite Nat.sub_0_r.
    destruct (length e) eqn:E; reflexivity.
  - cbn [nth_error] in H. cbn [firstn length app Nat.sub]. f_equal. apply IH, H.
Qed.

Lemma ents_present : forall (e : entries) j sv, nth_error e j = Some (Some sv) ->
  set_nth (firstn j e ++ repeat None (length e - j)) j (Some sv) = Some (firstn (S j) e ++ repeat None (length e - S j)).
Proof.
  induction e as [|x e IH]; intros j sv H; [destruct j; discriminate|].
  destruct j as [|j].
  - cbn in H. inversion H; subst. cbn [firstn length app Nat.sub repeat set_nth]. rewrite Nat.sub_0_r.
    reflexivity.
  - cbn [nth_error] in H. cbn [firstn length app Nat.sub set_nth]. rewrite (IH j sv H). reflexivity.
Qed.

(* ---------------------------------------------------------------- the loop over the rows *)
(* entry assignments the round trip is claimed for: one entry per row; a filled entry sits on a leaf
   row (no "[]") and its value round-trips through the reader that row selects *)
Definition entries_rt_ok (tbl : ktable) (e : entries) : Prop :=
  length e = length tbl /\
  forall j sv, nth_error e j = Some (Some sv) ->
    exists k raw, nth_error tbl j = Some (N.of_nat j, k) /\ row_kind tbl j k = Some (LLeaf raw) /\ value_rt raw sv.

Definition pkey (prev : option bytes) : bytes := match prev with Some kp => kp | None => [] end.

Definition LoopInv (e : entries) (j : nat) (prev : option bytes) (W : list (N * bool)) (R : smst) : Prop :=
  SimSt (pkey prev) W R /\ (prev = None -> W = []) /\ (s_cursor R <= j)%nat /\
  s_ents R = firstn j e ++ repeat None (length e - j).

Section Loop.
Variables (tbl : ktable) (e : entries).
Hypothesis Ht : table_ok tbl = true.
Hypothesis He : entries_rt_ok tbl e.

Lemma rows_sim : forall tl j prev W out R,
  skipn j tbl = tl -> (j <= length tbl)%nat -> idx_pos_ok tl (N.of_nat j) = true -> rows_ok tbl tl j = true ->
  LoopInv e j prev W R ->
  exists prev' W' w n R', sm_write_loop tl e prev W out = WOk W' (out ++ w) /\
    Run tbl n R R' w /\ (n <= length w)%nat /\ LoopInv e (length tbl) prev' W' R'.
Proof.
  destruct He as [Hel Hev].
  induction tl as [|[idx k] tl IH]; intros j prev W out R Hsk Hjle Hidx Hrows Hinv.
  - exists prev, W, [], O, R. cbn [sm_write_loop]. rewrite app_nil_r.
    split; [reflexivity|]. split; [apply Run_refl|]. split; [cbn; lia|].
    assert (Hj : (length tbl <= j)%nat).
    { destruct (Nat.le_gt_cases (length tbl) j) as [|Hlt]; [assumption|].
      assert (length (skipn j tbl) = (length tbl - j)%nat) by apply skipn_length. rewrite Hsk in H. cbn in H. lia. }
    destruct Hinv as (A & B & C & D). split; [exact A|]. split; [exact B|]. split; [lia|].
    rewrite D. rewrite <- Hel. rewrite !firstn_all2 by lia. replace (length e - j)%nat with O by lia.
    rewrite Nat.sub_diag. reflexivity.
  - destruct (skipn_cons_S _ _ _ _ Hsk) as [Hsk' Hrow].
    cbn [idx_pos_ok] in Hidx. apply andb_true_iff in Hidx. destruct Hidx as [Hi Hidx]. apply N.eqb_eq in Hi. subst idx.
    cbn [rows_ok] in Hrows. apply andb_true_iff in Hrows. destruct Hrows as [Hrok Hrows].
    replace (N.of_nat j + 1) with (N.of_nat (S j)) in Hidx by lia.
    assert (Hjl : (j < length tbl)%nat) by (apply nth_error_Some; congruence).
    destruct (table_ok_idx tbl Ht _ _ _ Hrow) as [_ Hk].
    cbn [sm_write_loop]. rewrite Nat2N.id.
    destruct (nth_error e j) as [[sv|]|] eqn:Eej; [| |apply nth_error_None in Eej; lia].
    2:{ (* empty entry: the writer skips the row *)
      apply (IH (S j) prev W out R Hsk' Hjl Hidx Hrows).
      destruct Hinv as (A & B & C & D). split; [exact A|]. split; [exact B|]. split; [lia|].
      rewrite D. apply ents_absent, Eej. }
    destruct (Hev j sv Eej) as (k0 & raw & Hrow0 & Hkind & Hv). rewrite Hrow in Hrow0. inversion Hrow0; subst k0. clear Hrow0.
    destruct Hinv as (HS & Hnone & Hcur & Hents).
    destruct (SimSt_top _ _ _ HS) as (Htk & Htop & _).
    (* base_size *)
    set (nk := match W with (n, _) :: _ => n | [] => 0 end). change nk with (top W) in *.
    set (bs := count_base (firstn (N.to_nat (top W)) (pad_key k)) (firstn (N.to_nat (top W)) (pad_key (pkey prev)))).
    assert (Ebs : match prev with
                  | Some p => Some (count_base (firstn (N.to_nat (top W)) (pad_key k)) (firstn (N.to_nat (top W)) (pad_key p)))
                  | None => if top W =? 0 then Some 0 else None
                  end = Some bs).
    { destruct prev as [p|]; [reflexivity|]. pose proof (Hnone eq_refl) as HW. subst W. reflexivity. }
    rewrite Ebs.
    destruct (pop_sim tbl (pkey prev) W R bs out HS) as (m & R1 & Hm & Epop & Hrun1 & HS1 & Ht1 & Hc1 & He1).
    rewrite Epop.
    assert (HSk : SimSt k (skipn m W) R1).
    { eapply SimSt_transfer; [exact HS1|exact Ht1|]. intros i Hi.
      apply (common_prefix k (pkey prev) (top W) i); [lia|]. fold bs. lia. }
    set (W1 := skipn m W) in *.
    assert (Hkb : top W1 <= 15) by (destruct (SimSt_top _ _ _ HSk) as (_ & H & _); exact H).
    assert (Hlev : level_start k (top W1) = true).
    { destruct HSk as (_ & _ & _ & _ & _ & Hl). destruct W1 as [|[n b] W1']; [reflexivity|]. inversion Hl; subst. assumption. }
    pose proof (row_ok_spec tbl j k (LLeaf raw) (top W1) Hrok Hkind Hkb Hlev) as Hwalk.
    destruct (walk_sim tbl j k raw sv Hk Hrow Hv walk_fuel (N.to_nat max_key + 2) W1 (top W1) (out ++ repeat ch_e m) R1
                (firstn (S j) e ++ repeat None (length e - S j)) Hwalk HSk eq_refl)
      as (W2 & w2 & n2 & R2 & Ew & Hrun2 & Hn2 & HS2 & Hc2 & He2);
      [lia|rewrite max_key_val; lia|rewrite He1, Hents; apply ents_present, Eej|].
    replace (match W1 with (n, _) :: _ => n | [] => 0 end) with (top W1) by reflexivity.
    rewrite Ew.
    destruct (IH (S j) (Some k) W2 ((out ++ repeat ch_e m) ++ w2) R2 Hsk' Hjl Hidx Hrows)
      as (prev' & W' & w & n & R' & Ew' & Hrun & Hn & Hinv').
    { split; [exact HS2|]. split; [discriminate|]. split; [lia|exact He2]. }
    exists prev', W', ((repeat ch_e m ++ w2) ++ w), ((m + n2) + n)%nat, R'.
    split; [rewrite Ew'; f_equal; rewrite <- !app_assoc; reflexivity|].
    split; [eapply Run_trans; [eapply Run_trans; [exact Hrun1|exact Hrun2]|exact Hrun]|].
    split; [rewrite !app_length, repeat_length; lia|exact Hinv'].
Qed.
End Loop.

(* ---------------------------------------------------------------- the round trip *)
Lemma repeat_snoc {A} (a : A) n : repeat a (S n) = repeat a n ++ [a].
Proof. induction n as [|n IH]; [reflexivity|]. cbn [repeat app] in *. rewrite <- IH. reflexivity. Qed.

Lemma init_sim tbl : SimSt [] [] (init_st (empty_entries tbl)).
Proof.
  unfold SimSt, init_st, init_buf. cbn [s_cur s_stack map top]. rewrite repeat_length, key_buf_len_val.
  split; [reflexivity|]. split; [reflexivity|]. split; [constructor|]. split; [exact I|]. split; [|constructor].
  intros i Hi. cbn in Hi. lia.
Qed.

Theorem static_map_roundtrip tbl e r :
  table_rt_ok tbl = true -> entries_rt_ok tbl e ->
  exists out, sm_write tbl e = WOk [] out /\
    (bounded (out ++ r) -> sm_read tbl (out ++ r) = Ok e r).
Proof.
  intros Hrt He. unfold table_rt_ok in Hrt. apply andb_true_iff in Hrt. destruct Hrt as [Hrt Hrows].
  apply andb_true_iff in Hrt. destruct Hrt as [Ht Hidx]. pose proof He as [Hel _].
  destruct (rows_sim tbl e Ht He tbl O None [] [ch_d] (init_st (empty_entries tbl)) eq_refl ltac:(lia) Hidx Hrows)
    as (prev' & W' & w & n & R' & Ew & Hrun & Hn & HS' & _ & _ & Hents).
  { split; [apply init_sim|]. split; [reflexivity|]. split; [cbn; lia|].
    cbn [init_st s_ents firstn app]. unfold empty_entries. rewrite Nat.sub_0_r, Hel. reflexivity. }
  destruct (pop_sim tbl (pkey prev') W' R' 0 [] HS') as (m & R1 & Hm & _ & Hrun1 & HS1 & Ht1 & _ & He1).
  assert (Hnil : skipn m W' = []).
  { destruct HS1 as (_ & _ & _ & Hok & _). destruct (skipn m W') as [|[x b] t]; [reflexivity|].
    cbn [map fst stack_ok top] in *. lia. }
  assert (Hml : m = length W').
  { pose proof (skipn_length m W') as L. rewrite Hnil in L. cbn in L. lia. }
  exists (([ch_d] ++ w) ++ repeat ch_e (S (length W'))).
  split; [unfold sm_write; rewrite Ew; reflexivity|].
  intros Hb. unfold sm_read, sm_read_into. cbn [app]. change (ch_d =? ch_d) with true. cbv iota.
  rewrite <- Hml, repeat_snoc.
  set (l' := (w ++ repeat ch_e m ++ [ch_e]) ++ r).
  assert (El : l' = w ++ (repeat ch_e m ++ (ch_e :: r))).
  { unfold l'. rewrite <- !app_assoc. reflexivity. }
  assert (Hbl : bounded l').
  { unfold bounded in *. revert Hb. rewrite <- Hml, repeat_snoc. cbn [app length]. fold l'. lia. }
  assert (Hlen : (n + m < length l')%nat).
  { rewrite El, !app_length, repeat_length. cbn [length]. lia. }
  replace (S (length l')) with (n + (m + S (length l' - n - m)))%nat by lia.
  rewrite El. rewrite Hrun by (rewrite <- El; exact Hbl).
  rewrite Hrun1 by (rewrite El in Hbl; eapply bounded_app_r; exact Hbl).
  cbn [sm_loop]. change (ch_e =? ch_e) with true. cbv iota.
  destruct HS1 as (_ & Hstk & _). rewrite Hnil in Hstk. cbn [map] in Hstk. rewrite Hstk.
  rewrite He1, Hents, <- Hel, firstn_all, Nat.sub_diag. cbn [repeat]. rewrite app_nil_r. reflexivity.
Qed.

(* ---------------------------------------------------------------- per-kind value lemmas *)
(* plain rows: every well-formed tree below the depth limit (the base round trip enc_dec_c) *)
Lemma value_rt_plain v : wf v -> height v < depth_limit_c -> value_rt None (SObj v false).
Proof.
  intros Hw Hh rest Hb. unfold read_value. cbn [enc_sval] in *. rewrite enc_dec_c by assumption. reflexivity.
Qed.

(* "*S" rows: every byte string a raw_string can hold (uint32 size) *)
Lemma value_rt_string b : N.of_nat (length b) < two32 -> value_rt (Some RawS) (SRaw RawS b).
Proof.
  intros Hlb rest Hb. cbn [enc_sval] in *. unfold read_value, raw_c.
  pose proof (c_string_enc b rest Hlb Hb) as Hc.
  destruct (enc_str_head b) as (c & tl & E & Hd).
  assert (Hsk : skip_c (enc_str b ++ rest) = Ok tt rest).
  { revert Hc. rewrite E. cbn [app]. intros Hc. unfold skip_c. cbn [skip_loop].
    destruct (digit_not_tag c Hd) as (H1 & H2 & H3 & H4). rewrite H4, H1, H2, H3. cbn [orb]. rewrite Hc. reflexivity. }
  rewrite Hsk.
  assert (Hf : firstn (length (enc_str b ++ rest) - length rest) (enc_str b ++ rest) = enc_str b) by apply firstn_app_exact.
  rewrite Hf.
  assert (Hsz : (2 <=? N.of_nat (length (enc_str b))) && is_digit (hd 0 (enc_str b)) = true).
  { apply andb_true_iff. split; [|rewrite E; cbn [hd]; exact Hd]. apply N.leb_le.
    unfold enc_str. rewrite app_length. cbn [length].
    destruct (dec_of_N_head (N.of_nat (length b) mod two32)) as (c' & ds & E' & _). rewrite E'. cbn [length]. lia. }
  rewrite Hsz.
  assert (Hac : after_colon (enc_str b) = Some b).
  { unfold enc_str. rewrite N.mod_small by exact Hlb. rewrite Nat2N.id, firstn_all.
    pose proof (dec_of_N_digits (N.of_nat (length b))) as Hds.
    induction Hds as [|d ds Hdd _ IHd]; cbn [app after_colon].
    - change (ch_colon =? ch_colon) with true. reflexivity.
    - assert (d =? ch_colon = false) by (apply is_digit_spec in Hdd; apply N.eqb_neq; unfold ch_colon; lia).
      rewrite H. exact IHd. }
  rewrite Hac. reflexivity.
Qed.

(* "*" rows: the encoding of any well-formed tree nested below the skip reader's stack *)
Lemma value_rt_any v : wf v -> height v < skip_stack_limit -> value_rt (Some RawAny) (SRaw RawAny (enc v)).
Proof.
  intros Hw Hh rest Hb. cbn [enc_sval] in *. unfold read_value, raw_c. rewrite enc_skip by assumption.
  rewrite firstn_app_exact. reflexivity.
Qed.

(* "*L" / "*M" rows: the inside of an encoded list / dictionary *)
Lemma value_rt_list vs : wf (VList vs) -> height (VList vs) < skip_stack_limit ->
  value_rt (Some RawL) (SRaw RawL (flat_map enc vs)).
Proof.
  intros Hw Hh rest Hb. cbn [enc_sval] in *. unfold read_value, raw_c.
  change (ch_l :: flat_map enc vs ++ [ch_e]) with (enc (VList vs)) in *.
  rewrite enc_skip by assumption. rewrite firstn_app_exact. cbn [enc hd].
  change (ch_l =? ch_l) with true. rewrite andb_true_r.
  assert (Hsz : 2 <=? N.of_nat (length (ch_l :: flat_map enc vs ++ [ch_e])) = true)
    by (apply N.leb_le; cbn [length]; rewrite app_length; cbn [length]; lia).
  rewrite Hsz. unfold strip_ends. cbn [tl]. rewrite removelast_last. reflexivity.
Qed.

Lemma value_rt_map m : wf (VMap m) -> height (VMap m) < skip_stack_limit ->
  value_rt (Some RawM) (SRaw RawM (flat_map (fun kv => enc_str (fst kv) ++ enc (snd kv)) m)).
Proof.
  intros Hw Hh rest Hb. cbn [enc_sval] in *. unfold read_value, raw_c.
  change (ch_d :: flat_map (fun kv => enc_str (fst kv) ++ enc (snd kv)) m ++ [ch_e]) with (enc (VMap m)) in *.
  rewrite enc_skip by assumption. rewrite firstn_app_exact. cbn [enc hd].
  change (ch_d =? ch_d) with true. rewrite andb_true_r.
  assert (Hsz : 2 <=? N.of_nat (length (ch_d :: flat_map (fun kv => enc_str (fst kv) ++ enc (snd kv)) m ++ [ch_e])) = true)
    by (apply N.leb_le; cbn [length]; rewrite app_length; cbn [length]; lia).
  rewrite Hsz. unfold strip_ends. cbn [tl]. rewrite removelast_last. reflexivity.
Qed.
