(* Round trip: decoding the encoding of a well-formed tree returns the tree, the unordered flag
   clear, and consumes exactly the encoding (buffer reader). *)
From Coq Require Import List NArith ZArith Bool Lia ZifyBool ZifyNat ZifyN.
Ltac Zify.zify_post_hook ::= Z.to_euclidean_division_equations.
From LTV Require Import Common.Bytes.
From LTV.C07 Require Import ParamsGen.
From LTV.C07 Require Import Model ProofsDec ProofsSafe.
Import ListNotations.
Local Open Scope N_scope.

(* ---------------------------------------------------------------- induction principle *)
Section value_ind2.
  Variable P : value -> Prop.
  Hypothesis Hint : forall z, P (VInt z).
  Hypothesis Hstr : forall s, P (VStr s).
  Hypothesis Hlist : forall l, Forall P l -> P (VList l).
  Hypothesis Hmap : forall m, Forall (fun kv => P (snd kv)) m -> P (VMap m).
  Fixpoint value_ind2 (v : value) : P v :=
    match v with
    | VInt z => Hint z
    | VStr s => Hstr s
    | VList l => Hlist l ((fix go (l : list value) : Forall P l :=
                             match l with
                             | [] => Forall_nil _
                             | x :: xs => Forall_cons _ (value_ind2 x) (go xs)
                             end) l)
    | VMap m => Hmap m ((fix go (m : list (bytes * value)) : Forall (fun kv => P (snd kv)) m :=
                           match m with
                           | [] => Forall_nil _
                           | kv :: xs => Forall_cons _ (value_ind2 (snd kv)) (go xs)
                           end) m)
    end.
End value_ind2.

(* ---------------------------------------------------------------- order facts *)
Lemma bytes_ltb_irrefl a : bytes_ltb a a = false.
Proof. induction a as [|x a IH]; cbn; [reflexivity|]. rewrite N.ltb_irrefl. exact IH. Qed.

Lemma bytes_ltb_asym : forall a b, bytes_ltb a b = true -> bytes_ltb b a = false.
Proof.
  induction a as [|x a IH]; intros [|y b] H; cbn in *; try congruence.
  destruct (N.ltb_spec x y) as [Hxy|Hxy].
  - destruct (N.ltb_spec y x); [lia|]. reflexivity.
  - destruct (N.ltb_spec y x) as [Hyx|Hyx]; [discriminate|]. apply IH, H.
Qed.

Lemma bytes_ltb_trans : forall a b c, bytes_ltb a b = true -> bytes_ltb b c = true -> bytes_ltb a c = true.
Proof.
  induction a as [|x a IH]; intros [|y b] [|z c] H1 H2; cbn in *; try congruence.
  destruct (N.ltb_spec x y) as [Hxy|Hxy]; destruct (N.ltb_spec y z) as [Hyz|Hyz];
    destruct (N.ltb_spec x z) as [Hxz|Hxz]; try reflexivity; try lia.
  - destruct (N.ltb_spec z y); [discriminate|lia].
  - destruct (N.ltb_spec y x); [discriminate|lia].
  - destruct (N.ltb_spec y x) as [|Hyx]; [discriminate|]. destruct (N.ltb_spec z y) as [|Hzy]; [discriminate|].
    destruct (N.ltb_spec z x); [lia|]. eapply IH; eassumption.
Qed.

(* ---------------------------------------------------------------- well-formed trees *)
Fixpoint keys_sorted (prev : option bytes) (m : list (bytes * value)) : bool :=
  match m with
  | [] => true
  | (k, _) :: m' => (match prev with None => true | Some p => bytes_ltb p k end) && keys_sorted (Some k) m'
  end.

Fixpoint wf (v : value) : Prop :=
  match v with
  | VInt z => in_int64 z = true
  | VStr s => N.of_nat (length s) < two32
  | VList l => (fix go (l : list value) : Prop := match l with [] => True | x :: xs => wf x /\ go xs end) l
  | VMap m => keys_sorted None m = true /\
              (fix go (m : list (bytes * value)) : Prop :=
                 match m with [] => True | kv :: xs => (N.of_nat (length (fst kv)) < two32 /\ wf (snd kv)) /\ go xs end) m
  end.

Fixpoint height (v : value) : N :=
  match v with
  | VInt _ | VStr _ => 0
  | VList l => 1 + fold_right (fun x a => N.max (height x) a) 0 l
  | VMap m => 1 + fold_right (fun kv a => N.max (height (snd kv)) a) 0 m
  end.

Fixpoint fuel_need (v : value) : nat :=
  match v with
  | VInt _ | VStr _ => 1
  | VList l => S (fold_right (fun x a => S (Nat.max (fuel_need x) a)) 1%nat l)
  | VMap m => S (fold_right (fun kv a => S (Nat.max (fuel_need (snd kv)) a)) 1%nat m)
  end.

(* ---------------------------------------------------------------- digit strings in the parsers *)
Definition nondigit_head (l : bytes) : Prop := match l with [] => True | c :: _ => is_digit c = false end.

Lemma c_len_digits_run : forall ds acc rest,
  all_digits ds -> dval acc ds < two32 -> nondigit_head rest ->
  c_len_digits (ds ++ rest) acc true = Some (dval acc ds, rest).
Proof.
  induction ds as [|c ds IH]; intros acc rest Hd Hv Hr.
  - cbn [app dval fold_left]. destruct rest as [|c r]; cbn [c_len_digits]; [reflexivity|].
    cbn in Hr. rewrite Hr. reflexivity.
  - inversion Hd as [|? ? Hc Hds]; subst. cbn [app c_len_digits]. rewrite Hc.
    assert (Hge : acc * 10 + digit_val c <= dval (acc * 10 + digit_val c) ds) by apply dval_ge.
    change (dval acc (c :: ds)) with (dval (acc * 10 + digit_val c) ds) in *.
    unfold two32 in *.
    destruct (N.ltb_spec ((4294967296 - 1 - digit_val c) / 10) acc) as [Hlt|Hlt]; cbn [andb].
    + exfalso. lia.
    + rewrite N.mod_small by lia. apply IH; assumption.
Qed.

Lemma c_len_digits_start c ds rest :
  is_digit c = true -> all_digits ds -> dval 0 (c :: ds) < two32 -> nondigit_head rest ->
  c_len_digits ((c :: ds) ++ rest) two31 false = Some (dval 0 (c :: ds), rest).
Proof.
  intros Hc Hds Hv Hr. cbn [app c_len_digits]. rewrite Hc. cbn [andb].
  assert (E : (two31 * 10 + digit_val c) mod two32 = digit_val c).
  { unfold two31, two32, digit_val. apply is_digit_spec in Hc. lia. }
  rewrite E. change (dval 0 (c :: ds)) with (dval (0 * 10 + digit_val c) ds) in *.
  rewrite N.mul_0_l, N.add_0_l in *. apply c_len_digits_run; assumption.
Qed.

Lemma c_string_enc s rest :
  N.of_nat (length s) < two32 ->
  N.of_nat (length (enc_str s ++ rest)) < two32 ->
  c_string (enc_str s ++ rest) = Ok s rest.
Proof.
  intros Hs Hshort. unfold enc_str in *.
  rewrite N.mod_small in * by exact Hs. rewrite Nat2N.id in *. rewrite firstn_all in *.
  set (n := N.of_nat (length s)) in *.
  destruct (dec_of_N_head n) as (c & ds & E & Hc & _).
  pose proof (dec_of_N_digits n) as Hd. pose proof (dec_of_N_val n) as Hv.
  rewrite E in *. inversion Hd as [|? ? _ Hds]; subst.
  unfold c_string. rewrite <- app_assoc.
  rewrite c_len_digits_start; try assumption; [| rewrite Hv; exact Hs | cbn; reflexivity].
  rewrite Hv.
  rewrite !app_length in Hshort. cbn [length] in Hshort.
  cbn [app length]. rewrite app_length.
  assert (E1 : N.of_nat (S (length s + length rest)) mod two32 = N.of_nat (S (length s + length rest))).
  { apply N.mod_small. unfold two32 in *. lia. }
  rewrite E1.
  assert (E2 : (n + 1) mod two32 = n + 1) by (apply N.mod_small; unfold two32, n in *; lia).
  rewrite E2.
  destruct (N.ltb_spec (N.of_nat (S (length s + length rest))) (n + 1)) as [Hlt|_]; [unfold n in Hlt; lia|].
  destruct (N.eqb_spec (n + 1) 0) as [|_]; [lia|]. cbn [orb].
  change (ch_colon =? ch_colon) with true. cbn iota.
  destruct (N.ltb_spec (N.of_nat (length s + length rest)) n) as [Hlt|_]; [unfold n in Hlt; lia|].
  unfold n. rewrite Nat2N.id.
  rewrite firstn_app, Nat.sub_diag, firstn_all. cbn [firstn]. rewrite app_nil_r.
  rewrite skipn_app, Nat.sub_diag, skipn_all. reflexivity.
Qed.

Lemma c_digits_pos_run : forall ds a rest,
  all_digits ds -> (Z.of_N (dval a ds) <= int64_max)%Z -> nondigit_head rest ->
  c_digits_pos (ds ++ rest) (Z.of_N a) = Some (Z.of_N (dval a ds), rest).
Proof.
  induction ds as [|c ds IH]; intros a rest Hd Hv Hr.
  - cbn [app dval fold_left]. destruct rest as [|c r]; cbn [c_digits_pos]; [reflexivity|].
    cbn in Hr. rewrite Hr. reflexivity.
  - inversion Hd as [|? ? Hc Hds]; subst. cbn [app c_digits_pos]. rewrite Hc.
    assert (Hge : a * 10 + digit_val c <= dval (a * 10 + digit_val c) ds) by apply dval_ge.
    change (dval a (c :: ds)) with (dval (a * 10 + digit_val c) ds) in *.
    unfold int64_max in *.
    destruct (Z.gtb_spec (Z.of_N a) ((9223372036854775807 - Z.of_N (digit_val c)) / 10)) as [Hgt|Hle].
    + exfalso. lia.
    + replace (Z.of_N a * 10 + Z.of_N (digit_val c))%Z with (Z.of_N (a * 10 + digit_val c)) by lia.
      apply IH; assumption.
Qed.

Lemma c_digits_neg_run : forall ds a rest,
  all_digits ds -> (Z.of_N (dval a ds) <= - int64_min)%Z -> nondigit_head rest ->
  c_digits_neg (ds ++ rest) (- Z.of_N a) = Some ((- Z.of_N (dval a ds))%Z, rest).
Proof.
  induction ds as [|c ds IH]; intros a rest Hd Hv Hr.
  - cbn [app dval fold_left]. destruct rest as [|c r]; cbn [c_digits_neg]; [reflexivity|].
    cbn in Hr. rewrite Hr. reflexivity.
  - inversion Hd as [|? ? Hc Hds]; subst. cbn [app c_digits_neg]. rewrite Hc.
    assert (Hge : a * 10 + digit_val c <= dval (a * 10 + digit_val c) ds) by apply dval_ge.
    change (dval a (c :: ds)) with (dval (a * 10 + digit_val c) ds) in *.
    unfold int64_min in *.
    destruct (Z.ltb_spec (- Z.of_N a) (Z.quot (-9223372036854775808 + Z.of_N (digit_val c)) 10)) as [Hlt|Hle].
    + exfalso. lia.
    + replace (- Z.of_N a * 10 - Z.of_N (digit_val c))%Z with (- Z.of_N (a * 10 + digit_val c))%Z by lia.
      apply IH; assumption.
Qed.

Lemma c_value_enc z rest :
  in_int64 z = true -> nondigit_head rest -> c_value (enc_int z ++ rest) = Some (z, rest).
Proof.
  intros Hz Hr. unfold in_int64, int64_min, int64_max in Hz. apply andb_true_iff in Hz.
  destruct Hz as [Hlo Hhi]. apply Z.leb_le in Hlo, Hhi.
  unfold enc_int. destruct (Z.eqb_spec z 0) as [->|Hz0].
  - cbn [app c_value]. change (48 =? ch_minus) with false. cbn iota. change (is_digit 48) with true. cbn iota.
    apply (c_digits_pos_run [48] 0 rest); [repeat constructor|cbn; unfold int64_max; lia|exact Hr].
  - destruct (Z.ltb_spec z 0) as [Hneg|Hpos].
    + set (n := Z.to_N (- z)).
      destruct (dec_of_N_head n) as (c & ds & E & Hc & Hc1).
      pose proof (dec_of_N_digits n) as Hd. pose proof (dec_of_N_val n) as Hv.
      assert (Hn0 : n <> 0) by (unfold n; lia). specialize (Hc1 Hn0).
      rewrite E in *. cbn [app c_value]. change (ch_minus =? ch_minus) with true. cbn iota.
      apply is_digit_spec in Hc.
      destruct (N.leb_spec c 48) as [|_]; [lia|]. destruct (N.ltb_spec 57 c) as [|_]; [lia|]. cbn [orb].
      change (c :: ds ++ rest) with ((c :: ds) ++ rest).
      change 0%Z with (- Z.of_N 0)%Z.
      rewrite c_digits_neg_run; [|exact Hd| rewrite Hv; unfold int64_min, n; lia | exact Hr].
      rewrite Hv. unfold n. f_equal. f_equal. lia.
    + set (n := Z.to_N z).
      destruct (dec_of_N_head n) as (c & ds & E & Hc & Hc1).
      pose proof (dec_of_N_digits n) as Hd. pose proof (dec_of_N_val n) as Hv.
      rewrite E in *. cbn [app c_value].
      assert (Hcm : (c =? ch_minus) = false) by (apply is_digit_spec in Hc; unfold ch_minus; lia).
      rewrite Hcm, Hc.
      change (c :: ds ++ rest) with ((c :: ds) ++ rest).
      change 0%Z with (Z.of_N 0).
      rewrite c_digits_pos_run; [|exact Hd| rewrite Hv; unfold int64_max, n; lia | exact Hr].
      rewrite Hv. unfold n. f_equal. f_equal. lia.
Qed.

(* ---------------------------------------------------------------- heads of encodings *)
Lemma digit_not_tag c : is_digit c = true ->
  (c =? ch_i) = false /\ (c =? ch_l) = false /\ (c =? ch_d) = false /\ (c =? ch_e) = false.
Proof. intros H. apply is_digit_spec in H. unfold ch_i, ch_l, ch_d, ch_e. lia. Qed.

Lemma enc_str_head s : exists c tl, enc_str s = c :: tl /\ is_digit c = true.
Proof.
  unfold enc_str. destruct (dec_of_N_head (N.of_nat (length s) mod two32)) as (c & ds & E & Hc & _).
  rewrite E. exists c, (ds ++ ch_colon :: firstn (N.to_nat (N.of_nat (length s) mod two32)) s). split; [reflexivity|exact Hc].
Qed.

Lemma enc_head v : exists c tl, enc v = c :: tl /\ (c =? ch_e) = false.
Proof.
  destruct v as [z|s|l|m]; cbn [enc].
  - eexists _, _; split; reflexivity.
  - destruct (enc_str_head s) as (c & tl & E & Hc). rewrite E. exists c, tl. split; [reflexivity|].
    apply digit_not_tag in Hc. tauto.
  - eexists _, _; split; reflexivity.
  - eexists _, _; split; reflexivity.
Qed.

Lemma map_insert_append : forall m k v,
  Forall (fun kv => bytes_ltb (fst kv) k = true) m -> map_insert k v m = m ++ [(k, v)].
Proof.
  induction m as [|[k' v'] m IH]; intros k v H; cbn [map_insert app]; [reflexivity|].
  inversion H as [|? ? Hk Hm]; subst. cbn [fst] in Hk.
  rewrite (bytes_ltb_asym _ _ Hk), Hk. f_equal. apply IH, Hm.
Qed.

(* ---------------------------------------------------------------- the round trip *)
Definition RT (v : value) : Prop :=
  forall f d r, wf v -> (fuel_need v <= f)%nat -> d + height v < depth_limit_c ->
    N.of_nat (length (enc v ++ r)) < two32 ->
    dec_c f d (enc v ++ r) = Ok (v, false) r.

Definition items_fuel (l : list value) : nat := fold_right (fun x a => S (Nat.max (fuel_need x) a)) 1%nat l.
Definition items_height (l : list value) : N := fold_right (fun x a => N.max (height x) a) 0 l.
Fixpoint wf_list (l : list value) : Prop := match l with [] => True | x :: xs => wf x /\ wf_list xs end.

Lemma items_rt : forall vs, Forall RT vs -> forall f d r acc fl,
  wf_list vs -> (items_fuel vs <= f)%nat -> d + items_height vs < depth_limit_c ->
  N.of_nat (length (flat_map enc vs ++ ch_e :: r)) < two32 ->
  items_c f d (flat_map enc vs ++ ch_e :: r) acc fl = Ok (VList (rev acc ++ vs), fl) r.
Proof.
  induction vs as [|v vs IH]; intros HRT f d r acc fl Hwf Hf Hh Hs.
  - cbn [flat_map app]. destruct f as [|f]; [cbn in Hf; lia|]. cbn [items_c].
    change (ch_e =? ch_e) with true. cbn iota. rewrite app_nil_r. reflexivity.
  - inversion HRT as [|? ? Hv Hvs]; subst. destruct Hwf as [Hwv Hwvs].
    cbn [items_fuel fold_right] in Hf. fold (items_fuel vs) in Hf.
    cbn [items_height fold_right] in Hh. fold (items_height vs) in Hh.
    destruct f as [|f]; [lia|]. cbn [flat_map]. rewrite <- app_assoc.
    destruct (enc_head v) as (c & tl & E & Hce).
    cbn [items_c]. rewrite E at 1. cbn [app]. rewrite Hce.
    rewrite Hv; [| exact Hwv | lia | lia | cbn [flat_map] in Hs; rewrite <- app_assoc in Hs; exact Hs ].
    rewrite orb_false_r.
    rewrite IH; [| exact Hvs | exact Hwvs | lia | lia | ].
    + cbn [rev]. rewrite <- app_assoc. reflexivity.
    + cbn [flat_map] in Hs. rewrite <- app_assoc, app_length in Hs. lia.
Qed.

Definition entries_fuel (m : list (bytes * value)) : nat := fold_right (fun kv a => S (Nat.max (fuel_need (snd kv)) a)) 1%nat m.
Definition entries_height (m : list (bytes * value)) : N := fold_right (fun kv a => N.max (height (snd kv)) a) 0 m.
Fixpoint wf_entries (m : list (bytes * value)) : Prop :=
  match m with [] => True | kv :: xs => (N.of_nat (length (fst kv)) < two32 /\ wf (snd kv)) /\ wf_entries xs end.
Definition enc_entries (m : list (bytes * value)) : bytes := flat_map (fun kv => enc_str (fst kv) ++ enc (snd kv)) m.

Lemma entries_rt : forall ms, Forall (fun kv => RT (snd kv)) ms -> forall f d r m prev prevopt fl,
  wf_entries ms -> (entries_fuel ms <= f)%nat -> d + entries_height ms < depth_limit_c ->
  N.of_nat (length (enc_entries ms ++ ch_e :: r)) < two32 ->
  match m with [] => prevopt = None | _ => prevopt = Some prev end ->
  Forall (fun kv => fst kv = prev \/ bytes_ltb (fst kv) prev = true) m ->
  keys_sorted prevopt ms = true ->
  entries_c f d (enc_entries ms ++ ch_e :: r) m prev fl = Ok (VMap (m ++ ms), fl) r.
Proof.
  induction ms as [|[k v] ms IH]; intros HRT f d r m prev prevopt fl Hwf Hf Hh Hs Hpo Hinv Hsorted.
  - cbn [enc_entries flat_map app]. destruct f as [|f]; [cbn in Hf; lia|]. cbn [entries_c].
    change (ch_e =? ch_e) with true. cbn iota. rewrite app_nil_r. reflexivity.
  - inversion HRT as [|? ? Hv Hvs]; subst. cbn [snd] in Hv. destruct Hwf as [[Hwk Hwv] Hwvs]. cbn [fst snd] in *.
    cbn [entries_fuel fold_right snd] in Hf. fold (entries_fuel ms) in Hf.
    cbn [entries_height fold_right snd] in Hh. fold (entries_height ms) in Hh.
    cbn [keys_sorted] in Hsorted. apply andb_true_iff in Hsorted. destruct Hsorted as [Hpk Hsorted].
    destruct f as [|f]; [lia|].
    unfold enc_entries in *. cbn [flat_map fst snd] in *. rewrite <- !app_assoc in *.
    destruct (enc_str_head k) as (c & tl & E & Hc).
    cbn [entries_c]. rewrite E at 1. cbn [app].
    destruct (digit_not_tag c Hc) as (_ & _ & _ & Hce). rewrite Hce.
    rewrite c_string_enc; [| exact Hwk | exact Hs].
    rewrite Hv; [| exact Hwv | lia | lia | rewrite app_length in Hs; lia ].
    assert (Hflag : bytes_leb k prev && negb (map_is_empty m) = false).
    { destruct m as [|kv0 m0]; [cbn; apply andb_false_r|].
      subst prevopt. unfold bytes_leb. rewrite Hpk. reflexivity. }
    rewrite Hflag, !orb_false_r.
    assert (Hlt : Forall (fun kv => bytes_ltb (fst kv) k = true) m).
    { destruct m as [|kv0 m0]; [constructor|]. subst prevopt.
      eapply Forall_impl; [|exact Hinv]. intros kv [->|Hlt]; [exact Hpk|].
      eapply bytes_ltb_trans; eassumption. }
    rewrite map_insert_append by exact Hlt.
    rewrite (IH Hvs f d r (m ++ [(k, v)]) k (Some k) fl); try assumption; try lia.
    + rewrite <- app_assoc. reflexivity.
    + rewrite !app_length in Hs. rewrite app_length. lia.
    + destruct m; reflexivity.
    + apply Forall_app. split.
      * eapply Forall_impl; [|exact Hlt]. intros kv H; right; exact H.
      * constructor; [left; reflexivity|constructor].
Qed.

Lemma wf_list_eq l : (fix go (l : list value) : Prop := match l with [] => True | x :: xs => wf x /\ go xs end) l = wf_list l.
Proof. induction l as [|x xs IH]; cbn; [reflexivity|]. rewrite IH. reflexivity. Qed.

Lemma wf_entries_eq m :
  (fix go (m : list (bytes * value)) : Prop :=
     match m with [] => True | kv :: xs => (N.of_nat (length (fst kv)) < two32 /\ wf (snd kv)) /\ go xs end) m = wf_entries m.
Proof. induction m as [|x xs IH]; cbn; [reflexivity|]. rewrite IH. reflexivity. Qed.

Lemma roundtrip_c_all : forall v, RT v.
Proof.
  apply value_ind2.
  - (* VInt *) intros z f d r Hwf Hf _ Hs. cbn [wf] in Hwf. cbn [fuel_need] in Hf.
    destruct f as [|f]; [lia|]. cbn [enc app dec_c]. change (ch_i =? ch_i) with true. cbn iota.
    rewrite <- app_assoc. rewrite c_value_enc; [|exact Hwf|cbn; reflexivity].
    cbn [app]. change (ch_e =? ch_e) with true. reflexivity.
  - (* VStr *) intros s f d r Hwf Hf _ Hs. cbn [wf] in Hwf. cbn [fuel_need] in Hf.
    destruct f as [|f]; [lia|]. cbn [enc] in *.
    destruct (enc_str_head s) as (c & tl & E & Hc).
    cbn [dec_c]. rewrite E at 1. cbn [app].
    destruct (digit_not_tag c Hc) as (H1 & H2 & H3 & _). rewrite H1, H2, H3, Hc.
    rewrite c_string_enc; [reflexivity|exact Hwf|exact Hs].
  - (* VList *) intros l HRT f d r Hwf Hf Hh Hs. cbn [wf] in Hwf. rewrite wf_list_eq in Hwf.
    cbn [fuel_need] in Hf. fold (items_fuel l) in Hf. cbn [height] in Hh. fold (items_height l) in Hh.
    destruct f as [|f]; [lia|]. cbn [enc app dec_c] in *.
    change (ch_l =? ch_i) with false. change (ch_l =? ch_l) with true. cbn iota.
    destruct (N.leb_spec depth_limit_c (d + 1)) as [|_]; [lia|].
    rewrite <- app_assoc. cbn [app].
    rewrite items_rt; try assumption; try lia; [reflexivity|].
    rewrite <- app_assoc in Hs. cbn [app length] in Hs. lia.
  - (* VMap *) intros m HRT f d r Hwf Hf Hh Hs. cbn [wf] in Hwf. destruct Hwf as [Hsorted Hwf]. rewrite wf_entries_eq in Hwf.
    cbn [fuel_need] in Hf. fold (entries_fuel m) in Hf. cbn [height] in Hh. fold (entries_height m) in Hh.
    destruct f as [|f]; [lia|]. cbn [enc app dec_c] in *.
    change (ch_d =? ch_i) with false. change (ch_d =? ch_l) with false. change (ch_d =? ch_d) with true. cbn iota.
    destruct (N.leb_spec depth_limit_c (d + 1)) as [|_]; [lia|].
    rewrite <- app_assoc. cbn [app]. fold (enc_entries m).
    rewrite (entries_rt m HRT f (d + 1) r [] [] None false); try assumption; try lia; try reflexivity; [|constructor].
    fold (enc_entries m) in Hs. rewrite <- app_assoc in Hs. cbn [app length] in Hs. lia.
Qed.

(* ---------------------------------------------------------------- fuel of the top-level call *)
Lemma enc_nonempty v : (1 <= length (enc v))%nat.
Proof. destruct (enc_head v) as (c & tl & E & _). rewrite E. cbn [length]. lia. Qed.

Lemma fuel_need_le_enc : forall v, (fuel_need v <= length (enc v))%nat.
Proof.
  apply value_ind2.
  - intros z. cbn [fuel_need enc length]. lia.
  - intros s. cbn [fuel_need]. apply enc_nonempty with (v := VStr s).
  - intros l H. cbn [fuel_need enc length]. rewrite app_length. cbn [length].
    assert (fold_right (fun x a => S (Nat.max (fuel_need x) a)) 1%nat l <= 1 + length (flat_map enc l))%nat; [|lia].
    induction H as [|v vs Hv _ IH]; cbn [fold_right flat_map]; [lia|].
    rewrite app_length. pose proof (enc_nonempty v). lia.
  - intros m H. cbn [fuel_need enc length]. rewrite app_length. cbn [length].
    assert (fold_right (fun kv a => S (Nat.max (fuel_need (snd kv)) a)) 1%nat m
            <= 1 + length (flat_map (fun kv => enc_str (fst kv) ++ enc (snd kv)) m))%nat; [|lia].
    induction H as [|kv vs Hv _ IH]; cbn [fold_right flat_map]; [lia|].
    rewrite !app_length. pose proof (enc_nonempty (snd kv)). lia.
Qed.

Theorem enc_dec_c : forall v r,
  wf v -> height v < depth_limit_c -> N.of_nat (length (enc v ++ r)) < two32 ->
  decode_c (enc v ++ r) = Ok (v, false) r.
Proof.
  intros v r Hwf Hh Hs. unfold decode_c. apply roundtrip_c_all; try assumption.
  pose proof (fuel_need_le_enc v). rewrite app_length. lia.
Qed.

(* the encoder is injective on well-formed trees: the info-hash clause of the property
   ("an info dictionary hashes identically after a round trip") reduces to this *)
Theorem enc_injective : forall v1 v2,
  wf v1 -> wf v2 -> height v1 < depth_limit_c -> height v2 < depth_limit_c ->
  N.of_nat (length (enc v1)) < two32 -> enc v1 = enc v2 -> v1 = v2.
Proof.
  intros v1 v2 W1 W2 H1 H2 Hs E.
  pose proof (enc_dec_c v1 [] W1 H1) as R1. pose proof (enc_dec_c v2 [] W2 H2) as R2.
  rewrite app_nil_r in *. rewrite <- E in R2. specialize (R1 Hs). specialize (R2 Hs).
  congruence.
Qed.

Theorem reencode_stable : forall v l v' fl r,
  wf v -> height v < depth_limit_c -> N.of_nat (length (enc v ++ l)) < two32 ->
  decode_c (enc v ++ l) = Ok (v', fl) r -> enc v' = enc v /\ fl = false /\ r = l.
Proof.
  intros v l v' fl r W H Hs D. rewrite enc_dec_c in D by assumption. inversion D; subst. auto.
Qed.

(* ---------------------------------------------------------------- canonical form *)
(* minimal decimal representation of an integer *)
Definition min_digits (n : N) (ds : bytes) : Prop :=
  all_digits ds /\ dval 0 ds = n /\ (exists c tl, ds = c :: tl /\ (n <> 0 -> c <> 48) /\ (n = 0 -> tl = [])).

Inductive canon : value -> bytes -> Prop :=
| canon_int z ds : min_digits (Z.abs_N z) ds ->
    canon (VInt z) (ch_i :: (if (z <? 0)%Z then [ch_minus] else []) ++ ds ++ [ch_e])
| canon_str s ds : min_digits (N.of_nat (length s)) ds -> canon (VStr s) (ds ++ ch_colon :: s)
| canon_list l bs : Forall2 canon l bs -> canon (VList l) (ch_l :: concat bs ++ [ch_e])
| canon_map m bs : keys_sorted None m = true ->
    Forall2 (fun kv b => exists ds eb, min_digits (N.of_nat (length (fst kv))) ds /\ canon (snd kv) eb /\
                                       b = ds ++ ch_colon :: fst kv ++ eb) m bs ->
    canon (VMap m) (ch_d :: concat bs ++ [ch_e]).

Lemma dec_of_N_min n : min_digits n (dec_of_N n).
Proof.
  split; [apply dec_of_N_digits|]. split; [apply dec_of_N_val|].
  destruct (dec_of_N_head n) as (c & tl & E & _ & Hc). exists c, tl. split; [exact E|]. split.
  - intros Hn. specialize (Hc Hn). lia.
  - intros ->. cbn in E. inversion E; reflexivity.
Qed.

Lemma enc_str_canon s : N.of_nat (length s) < two32 -> enc_str s = dec_of_N (N.of_nat (length s)) ++ ch_colon :: s.
Proof.
  intros H. unfold enc_str. rewrite N.mod_small by exact H. rewrite Nat2N.id, firstn_all. reflexivity.
Qed.

Lemma enc_canonical_all : forall v, wf v -> canon v (enc v).
Proof.
  apply (value_ind2 (fun v => wf v -> canon v (enc v))).
  - intros z Hz. cbn [enc]. unfold enc_int.
    destruct (Z.eqb_spec z 0) as [->|Hz0].
    + apply (canon_int 0%Z [48]). apply (dec_of_N_min 0).
    + destruct (Z.ltb_spec z 0) as [Hneg|Hpos].
      * pose proof (canon_int z (dec_of_N (Z.to_N (- z)))) as C.
        destruct (Z.ltb_spec z 0); [|lia]. cbn [app] in C. apply C.
        replace (Z.abs_N z) with (Z.to_N (- z)) by lia. apply dec_of_N_min.
      * pose proof (canon_int z (dec_of_N (Z.to_N z))) as C.
        destruct (Z.ltb_spec z 0); [lia|]. cbn [app] in C. apply C.
        replace (Z.abs_N z) with (Z.to_N z) by lia. apply dec_of_N_min.
  - intros s Hs. cbn [wf] in Hs. cbn [enc]. rewrite enc_str_canon by exact Hs. apply canon_str, dec_of_N_min.
  - intros l IH Hwf. cbn [wf] in Hwf. rewrite wf_list_eq in Hwf. cbn [enc].
    replace (flat_map enc l) with (concat (map enc l)) by (symmetry; apply flat_map_concat_map).
    apply canon_list. induction IH as [|v vs Hv _ IHvs]; cbn [map]; [constructor|].
    destruct Hwf as [Hw Hws]. constructor; [apply Hv, Hw|apply IHvs, Hws].
  - intros m IH [Hsorted Hwf]. rewrite wf_entries_eq in Hwf. cbn [enc].
    replace (flat_map (fun kv => enc_str (fst kv) ++ enc (snd kv)) m)
      with (concat (map (fun kv => enc_str (fst kv) ++ enc (snd kv)) m)) by (symmetry; apply flat_map_concat_map).
    apply canon_map; [exact Hsorted|]. clear Hsorted.
    induction IH as [|kv vs Hv _ IHvs]; cbn [map]; [constructor|].
    destruct Hwf as [[Hk Hw] Hws]. constructor; [|apply IHvs, Hws].
    exists (dec_of_N (N.of_nat (length (fst kv)))), (enc (snd kv)). split; [apply dec_of_N_min|]. split; [apply Hv, Hw|].
    rewrite enc_str_canon by exact Hk. rewrite <- app_assoc. reflexivity.
Qed.
