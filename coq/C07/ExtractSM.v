From Coq Require Import Extraction ExtrOcamlBasic.
From LTV.C07 Require Import Model StaticMap.
Set Extraction Optimize.
Extraction Language OCaml.
Extraction "extracted/c07sm_model.ml" sm_read sm_read_into sm_write empty_entries table_ok table_w_ok key_depth
  ext_handshake ext_pex ext_metadata dht normalize encode decode_c skip_c raw_c.
