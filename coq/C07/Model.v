(* C07 — executable model of libtorrent's bencode codec (src/torrent/object_stream.cc,
   object_raw_bencode.h). Definitions only. The model follows the code as it is after the three
   "fix:" commits recorded in known_findings.txt (integer / string-length overflow checks, digits
   required), including the quirks that remain (istream number parsing liberalities, uint32
   length arithmetic, (raw_bencode type tests are exact since the fix)).

   Input positions: a decoder works on the remaining input (list of bytes = [first,last) ).
   Every dereference the code performs WITHOUT a preceding first != last test is modelled as
   Fault on the empty list, so "never reads outside the given range" is the theorem
   "result <> Fault". Recursion is on fuel; OutOfFuel is a separate result excluded by theorem. *)
From Coq Require Import List NArith ZArith Bool.
From LTV Require Import Common.Bytes.
From LTV.C07 Require Import ParamsGen.
Import ListNotations.
Local Open Scope N_scope.

Inductive value :=
| VInt (z : Z)
| VStr (s : bytes)
| VList (l : list value)
| VMap (m : list (bytes * value)).

Inductive res (A : Type) :=
| Ok (a : A) (rest : bytes)
| Reject
| Fault
| OutOfFuel.
Arguments Ok {A}. Arguments Reject {A}. Arguments Fault {A}. Arguments OutOfFuel {A}.

(* ASCII *)
Definition ch_i := 105. Definition ch_l := 108. Definition ch_d := 100. Definition ch_e := 101.
Definition ch_colon := 58. Definition ch_minus := 45. Definition ch_plus := 43.

(* std::map<std::string, Object>::operator[] followed by assignment: insert or overwrite *)
Fixpoint map_insert (k : bytes) (v : value) (m : list (bytes * value)) : list (bytes * value) :=
  match m with
  | [] => [(k, v)]
  | (k', v') :: m' =>
      if bytes_ltb k k' then (k, v) :: m
      else if bytes_ltb k' k then (k', v') :: map_insert k v m'
      else (k, v) :: m'
  end.

Definition map_normalize (m : list (bytes * value)) : list (bytes * value) :=
  fold_left (fun acc kv => map_insert (fst kv) (snd kv) acc) m [].

(* ---------------------------------------------------------------- encoder
   object_write_bencode_c_object. int64 values; string sizes pass through uint32_t. *)

Definition two32 : N := 4294967296.
Definition two31 : N := 2147483648.
Definition int64_min : Z := (-9223372036854775808)%Z.
Definition int64_max : Z := 9223372036854775807%Z.
Definition in_int64 (z : Z) : bool := (int64_min <=? z)%Z && (z <=? int64_max)%Z.

Definition enc_int (z : Z) : bytes :=
  if (z =? 0)%Z then [48]
  else if (z <? 0)%Z then ch_minus :: dec_of_N (Z.to_N (- z))
  else dec_of_N (Z.to_N z).

Definition enc_str (s : bytes) : bytes :=
  let n := N.of_nat (length s) mod two32 in
  dec_of_N n ++ ch_colon :: firstn (N.to_nat n) s.

Fixpoint enc (v : value) : bytes :=
  match v with
  | VInt z => ch_i :: enc_int z ++ [ch_e]
  | VStr s => enc_str s
  | VList l => ch_l :: flat_map enc l ++ [ch_e]
  | VMap m => ch_d :: flat_map (fun kv => enc_str (fst kv) ++ enc (snd kv)) m ++ [ch_e]
  end.

(* the Object the harness builds from a tree holds maps as std::map: normalise recursively *)
Fixpoint normalize (v : value) : value :=
  match v with
  | VInt z => VInt z
  | VStr s => VStr s
  | VList l => VList (map normalize l)
  | VMap m => VMap (map_normalize (map (fun kv => (fst kv, normalize (snd kv))) m))
  end.

Definition encode (v : value) : bytes := enc (normalize v).

(* ---------------------------------------------------------------- buffer ("C") reader *)

(* object_read_bencode_c_value after the "(first + 1, last)" offset: returns Some (value, rest)
   or None when the function returns a position the caller rejects ('last' or a non-'e'). *)
Fixpoint c_digits_pos (l : bytes) (acc : Z) : option (Z * bytes) :=
  match l with
  | c :: l' =>
      if is_digit c then
        let d := Z.of_N (digit_val c) in
        if (acc >? (int64_max - d) / 10)%Z then None
        else c_digits_pos l' (acc * 10 + d)%Z
      else Some (acc, l)
  | [] => Some (acc, l)
  end.

Fixpoint c_digits_neg (l : bytes) (acc : Z) : option (Z * bytes) :=
  match l with
  | c :: l' =>
      if is_digit c then
        let d := Z.of_N (digit_val c) in
        (* C++ '/' truncates towards zero: Z.quot *)
        if (acc <? Z.quot (int64_min + d) 10)%Z then None
        else c_digits_neg l' (acc * 10 - d)%Z
      else Some (acc, l)
  | [] => Some (acc, l)
  end.

(* returns the position the caller sees: Some (value, first') ; None = returned 'last' (caller
   breaks) or left first at a char that cannot be 'e' *)
Definition c_value (l : bytes) : option (Z * bytes) :=
  match l with
  | [] => None
  | c :: l' =>
      if c =? ch_minus then
        match l' with
        | [] => None                         (* returns first (at '-'): caller sees '-' <> 'e' *)
        | c1 :: _ =>
            if (c1 <=? 48) || (57 <? c1) then None
            else c_digits_neg l' 0%Z
        end
      else if is_digit c then c_digits_pos l 0%Z
      else None
  end.

(* object_read_bencode_c_string: uint32 length with marker bit. Returns the string and the
   position after it. dist = std::distance(first,last) truncated to unsigned int. *)
Fixpoint c_len_digits (l : bytes) (len : N) (has_digit : bool) : option (N * bytes) :=
  match l with
  | c :: l' =>
      if is_digit c then
        let d := digit_val c in
        if has_digit && ((two32 - 1 - d) / 10 <? len) then None
        else c_len_digits l' ((len * 10 + d) mod two32) true
      else Some (len, l)
  | [] => Some (len, l)
  end.

Definition c_string (l : bytes) : res bytes :=
  match c_len_digits l two31 false with
  | None => Reject
  | Some (len, l1) =>
      let dist := N.of_nat (length l1) mod two32 in
      let len1 := (len + 1) mod two32 in
      if (dist <? len1) || (len1 =? 0) then Reject
      else match l1 with
           | [] => Fault                                  (* *first++ with first == last *)
           | c :: l2 =>
               if c =? ch_colon then
                 if N.of_nat (length l2) <? len then Fault (* raw_string beyond 'last' *)
                 else Ok (firstn (N.to_nat len) l2) (skipn (N.to_nat len) l2)
               else Reject
           end
  end.

Definition depth_limit_c := Params.bencode_c_depth_limit.

(* object_read_bencode_c. Returns (value, unordered flag). The two while-loops are the mutually
   recursive items_c / entries_c. *)
Definition map_is_empty (m : list (bytes * value)) : bool := match m with [] => true | _ => false end.

Fixpoint dec_c (fuel : nat) (depth : N) (l : bytes) {struct fuel} : res (value * bool) :=
  match fuel with
  | O => OutOfFuel
  | S f =>
      match l with
      | [] => Reject
      | c :: l' =>
          if c =? ch_i then
            match c_value l' with
            | Some (z, e :: rest) => if e =? ch_e then Ok (VInt z, false) rest else Reject
            | _ => Reject
            end
          else if c =? ch_l then
            if depth_limit_c <=? depth + 1 then Reject else items_c f (depth + 1) l' [] false
          else if c =? ch_d then
            if depth_limit_c <=? depth + 1 then Reject else entries_c f (depth + 1) l' [] [] false
          else if is_digit c then
            match c_string l with
            | Ok s rest => Ok (VStr s, false) rest
            | Reject => Reject | Fault => Fault | OutOfFuel => OutOfFuel
            end
          else Reject
      end
  end
with items_c (fuel : nat) (depth : N) (l : bytes) (acc : list value) (fl : bool) {struct fuel} : res (value * bool) :=
  match fuel with
  | O => OutOfFuel
  | S f =>
      match l with
      | [] => Reject
      | c :: l' =>
          if c =? ch_e then Ok (VList (rev acc), fl) l'
          else match dec_c f depth l with
               | Ok (v, uf) rest => items_c f depth rest (v :: acc) (fl || uf)
               | Reject => Reject | Fault => Fault | OutOfFuel => OutOfFuel
               end
      end
  end
with entries_c (fuel : nat) (depth : N) (l : bytes) (m : list (bytes * value)) (prev : bytes) (fl : bool) {struct fuel} : res (value * bool) :=
  match fuel with
  | O => OutOfFuel
  | S f =>
      match l with
      | [] => Reject
      | c :: l' =>
          if c =? ch_e then Ok (VMap m, fl) l'
          else match c_string l with
               | Ok k rest =>
                   let fl1 := fl || (bytes_leb k prev && negb (map_is_empty m)) in
                   match dec_c f depth rest with
                   | Ok (v, uf) rest' => entries_c f depth rest' (map_insert k v m) k (fl1 || uf)
                   | Reject => Reject | Fault => Fault | OutOfFuel => OutOfFuel
                   end
               | Reject => Reject | Fault => Fault | OutOfFuel => OutOfFuel
               end
      end
  end.

Definition decode_c (l : bytes) : res (value * bool) := dec_c (2 * length l + 2) 0 l.

(* ---------------------------------------------------------------- skip reader
   object_read_bencode_skip_c: explicit stack of "is dictionary" marks; stack[0] = false. *)

Definition skip_stack_limit := Params.bencode_skip_stack.

Fixpoint skip_digits (l : bytes) : bytes :=
  match l with
  | c :: l' => if is_digit c then skip_digits l' else l
  | [] => []
  end.

(* 'i' case; l is the input after the 'i' *)
Definition skip_int (l : bytes) : res unit :=
  match l with
  | [] => Reject
  | c :: l1 =>
      let l2 := if c =? ch_minus then l1 else l in
      if (c =? ch_minus) && (match l1 with [] => true | c1 :: _ => c1 =? 48 end) then Reject
      else match l2 with
           | [] => Reject
           | c2 :: _ =>
               if negb (is_digit c2) then Reject
               else match skip_digits l2 with
                    | [] => Reject
                    | e :: rest => if e =? ch_e then Ok tt rest else Reject
                    end
           end
  end.

(* stack: list of marks for levels 1..itr, innermost first; [] means itr = 0 *)
Fixpoint skip_loop (fuel : nat) (stack : list bool) (l : bytes) : res unit :=
  match fuel with
  | O => OutOfFuel
  | S f =>
      match l with
      | [] => Reject
      | c :: l' =>
          if c =? ch_e then
            match stack with
            | [] => Reject
            | _ :: st' => match st' with [] => Ok tt l' | _ => skip_loop f st' l' end
            end
          else
            (* in a dictionary: read the key first *)
            let after_key :=
              match stack with
              | true :: _ => match c_string l with
                             | Ok _ rest => Ok tt rest
                             | Reject => Reject | Fault => Fault | OutOfFuel => OutOfFuel
                             end
              | _ => Ok tt l
              end in
            match after_key with
            | Ok _ [] => match stack with true :: _ => Reject | _ => Fault end
            | Ok _ ((c1 :: l1) as lk) =>
                if c1 =? ch_i then
                  match skip_int l1 with
                  | Ok _ rest => match stack with [] => Ok tt rest | _ => skip_loop f stack rest end
                  | Reject => Reject | Fault => Fault | OutOfFuel => OutOfFuel
                  end
                else if (c1 =? ch_l) || (c1 =? ch_d) then
                  if skip_stack_limit <=? N.of_nat (length stack) + 1 then Reject
                  else skip_loop f ((c1 =? ch_d) :: stack) l1
                else
                  match c_string lk with
                  | Ok _ rest => match stack with [] => Ok tt rest | _ => skip_loop f stack rest end
                  | Reject => Reject | Fault => Fault | OutOfFuel => OutOfFuel
                  end
            | Reject => Reject | Fault => Fault | OutOfFuel => OutOfFuel
            end
      end
  end.

Definition skip_c (l : bytes) : res unit := skip_loop (S (S (length l))) [] l.
(* ---------------------------------------------------------------- stream reader
   object_read_bencode on a std::istream, with a model of libstdc++ num_get (classic locale, dec). *)

Definition is_space (c : N) : bool := (c =? 32) || ((9 <=? c) && (c <=? 13)).

Fixpoint skip_ws (l : bytes) : bytes :=
  match l with
  | c :: l' => if is_space c then skip_ws l' else l
  | [] => []
  end.

(* accumulate all digits; overflow flag sticks; returns (magnitude, overflow, ndigits>0, rest) *)
Fixpoint num_digits (l : bytes) (max : N) (acc : N) (ovf : bool) (any : bool) : N * bool * bool * bytes :=
  match l with
  | c :: l' =>
      if is_digit c then
        let d := digit_val c in
        let ovf' := ovf || (max / 10 <? acc) || (max - d <? acc * 10) in
        num_digits l' max (if ovf' then acc else acc * 10 + d) ovf' true
      else (acc, ovf, any, l)
  | [] => (acc, ovf, any, [])
  end.

(* operator>>(long&): None = failbit *)
Definition stream_int64 (l : bytes) : option (Z * bytes) :=
  let l0 := skip_ws l in
  let '(neg, l1) := match l0 with
                    | c :: l' => if c =? ch_minus then (true, l') else if c =? ch_plus then (false, l') else (false, l0)
                    | [] => (false, l0)
                    end in
  let max := if neg then 9223372036854775808 else 9223372036854775807 in
  let '(mag, ovf, any, rest) := num_digits l1 max 0 false false in
  if negb any || ovf then None
  else Some (if neg then (- Z.of_N mag)%Z else Z.of_N mag, rest).

(* operator>>(unsigned int&): a minus sign negates modulo 2^32 *)
Definition stream_uint32 (l : bytes) : option (N * bytes) :=
  let l0 := skip_ws l in
  let '(neg, l1) := match l0 with
                    | c :: l' => if c =? ch_minus then (true, l') else if c =? ch_plus then (false, l') else (false, l0)
                    | [] => (false, l0)
                    end in
  let '(mag, ovf, any, rest) := num_digits l1 (two32 - 1) 0 false false in
  if negb any || ovf then None
  else Some (if neg then (two32 - mag) mod two32 else mag, rest).

Definition string_limit_stream := Params.bencode_stream_string_limit.

(* object_read_string *)
Definition stream_string (l : bytes) : option (bytes * bytes) :=
  match stream_uint32 l with
  | None => None
  | Some (n, c :: rest) =>
      if negb (c =? ch_colon) then None
      else if string_limit_stream <? n then None
      else if N.of_nat (length rest) <? n then None
      else Some (firstn (N.to_nat n) rest, skipn (N.to_nat n) rest)
  | Some (_, []) => None
  end.

Definition depth_limit_stream := Params.bencode_stream_depth_limit.

Fixpoint dec_s (fuel : nat) (depth : N) (l : bytes) {struct fuel} : res (value * bool) :=
  match fuel with
  | O => OutOfFuel
  | S f =>
      match l with
      | [] => Reject
      | c :: l' =>
          if c =? ch_i then
            match stream_int64 l' with
            | Some (z, e :: rest) => if e =? ch_e then Ok (VInt z, false) rest else Reject
            | _ => Reject
            end
          else if c =? ch_l then
            if depth_limit_stream <=? depth + 1 then Reject else items_s f (depth + 1) l' [] false
          else if c =? ch_d then
            if depth_limit_stream <=? depth + 1 then Reject else entries_s f (depth + 1) l' [] [] false
          else if is_digit c then
            match stream_string l with
            | Some (s, rest) => Ok (VStr s, false) rest
            | None => Reject
            end
          else Reject
      end
  end
with items_s (fuel : nat) (depth : N) (l : bytes) (acc : list value) (fl : bool) {struct fuel} : res (value * bool) :=
  match fuel with
  | O => OutOfFuel
  | S f =>
      match l with
      | [] => Reject
      | c :: l' =>
          if c =? ch_e then Ok (VList (rev acc), fl) l'
          else match dec_s f depth l with
               | Ok (v, uf) rest => items_s f depth rest (v :: acc) (fl || uf)
               | Reject => Reject | Fault => Fault | OutOfFuel => OutOfFuel
               end
      end
  end
with entries_s (fuel : nat) (depth : N) (l : bytes) (m : list (bytes * value)) (prev : bytes) (fl : bool) {struct fuel} : res (value * bool) :=
  match fuel with
  | O => OutOfFuel
  | S f =>
      match l with
      | [] => Reject
      | c :: l' =>
          if c =? ch_e then Ok (VMap m, fl) l'
          else match stream_string l with
               | Some (k, rest) =>
                   let fl1 := fl || (bytes_leb k prev && negb (map_is_empty m)) in
                   match dec_s f depth rest with
                   | Ok (v, uf) rest' => entries_s f depth rest' (map_insert k v m) k (fl1 || uf)
                   | Reject => Reject | Fault => Fault | OutOfFuel => OutOfFuel
                   end
               | None => Reject
               end
      end
  end.

Definition decode_stream (l : bytes) : res (value * bool) := dec_s (2 * length l + 2) 0 l.

(* ---------------------------------------------------------------- raw reader
   object_read_bencode_raw_c + raw_bencode::{is_raw_string,is_raw_list,is_raw_map,as_*}.
   Result: Some raw bytes stored into the object / None = object left untouched. *)

Inductive raw_kind := RawAny | RawS | RawL | RawM.

Definition strip_ends (l : bytes) : bytes := removelast (tl l).

Fixpoint after_colon (l : bytes) : option bytes :=
  match l with
  | [] => None
  | c :: l' => if c =? ch_colon then Some l' else after_colon l'
  end.

Definition raw_c (k : raw_kind) (l : bytes) : res (option bytes) :=
  match skip_c l with
  | Ok _ rest =>
      let raw := firstn (length l - length rest) l in
      let size := N.of_nat (length raw) in
      let c0 := hd 0 raw in
      match k with
      | RawAny => Ok (Some raw) rest
      | RawS => if (2 <=? size) && is_digit c0
                then match after_colon raw with Some s => Ok (Some s) rest | None => Fault end
                else Ok None rest
      | RawL => if (2 <=? size) && (c0 =? ch_l) then Ok (Some (strip_ends raw)) rest else Ok None rest
      | RawM => if (2 <=? size) && (c0 =? ch_d) then Ok (Some (strip_ends raw)) rest else Ok None rest
      end
  | Reject => Reject | Fault => Fault | OutOfFuel => OutOfFuel
  end.
