(* Skip reader round trip: skipping the encoding of a well-formed tree consumes exactly the
   encoding (so static-map "unknown key" skipping and the raw readers delimit values exactly as
   the buffer reader does). *)
From Coq Require Import List NArith ZArith Bool Lia ZifyBool ZifyNat ZifyN.
Ltac Zify.zify_post_hook ::= Z.to_euclidean_division_equations.
From LTV Require Import Common.Bytes.
From LTV.C07 Require Import ParamsGen Model ProofsDec ProofsSafe ProofsRT.
Import ListNotations.
Local Open Scope N_scope.

(* the part of one loop iteration after the (optional) key has been read *)
Definition skip_body (f : nat) (stack : list bool) (lk : bytes) : res unit :=
  match lk with
  | [] => match stack with true :: _ => Reject | _ => Fault end
  | c1 :: l1 =>
      if c1 =? ch_i then
        match skip_int l1 with
        | Ok _ rest => match stack with [] => Ok tt rest | _ => skip_loop f stack rest end
        | Reject => Reject | Fault => Fault | OutOfFuel => OutOfFuel
        end
      else if (c1 =? ch_l) || (c1 =? ch_d) then
        if skip_stack_limit <=? N.of_nat (length stack) + 1 then Reject
        else skip_loop f ((c1 =? ch_d) :: stack) l1
      else
        match c_string lk with
        | Ok _ rest => match stack with [] => Ok tt rest | _ => skip_loop f stack rest end
        | Reject => Reject | Fault => Fault | OutOfFuel => OutOfFuel
        end
  end.

Definition continue (f : nat) (st : list bool) (r : bytes) : res unit :=
  match st with [] => Ok tt r | _ => skip_loop f st r end.

Definition top_not_dict (st : list bool) : Prop := match st with true :: _ => False | _ => True end.

Lemma skip_loop_value f st c l' :
  (c =? ch_e) = false -> top_not_dict st -> skip_loop (S f) st (c :: l') = skip_body f st (c :: l').
Proof.
  intros He Ht. cbn [skip_loop]. rewrite He.
  destruct st as [|[|] st']; [reflexivity|destruct Ht|reflexivity].
Qed.

Lemma skip_loop_entry f st k lv :
  N.of_nat (length k) < two32 -> N.of_nat (length (enc_str k ++ lv)) < two32 ->
  skip_loop (S f) (true :: st) (enc_str k ++ lv) = skip_body f (true :: st) lv.
Proof.
  intros Hk Hs. destruct (enc_str_head k) as (c & tl & E & Hc).
  destruct (digit_not_tag c Hc) as (_ & _ & _ & Hce).
  cbn [skip_loop]. rewrite E at 1. cbn [app]. rewrite Hce.
  rewrite c_string_enc by assumption. reflexivity.
Qed.

Lemma skip_digits_run : forall ds rest, all_digits ds -> nondigit_head rest -> skip_digits (ds ++ rest) = rest.
Proof.
  induction ds as [|c ds IH]; intros rest Hd Hr.
  - cbn [app]. destruct rest as [|c r]; cbn [skip_digits]; [reflexivity|]. cbn in Hr. rewrite Hr. reflexivity.
  - inversion Hd as [|? ? Hc Hds]; subst. cbn [app skip_digits]. rewrite Hc. apply IH; assumption.
Qed.

Lemma skip_int_enc z r : skip_int (enc_int z ++ ch_e :: r) = Ok tt r.
Proof.
  assert (Hr : nondigit_head (ch_e :: r)) by reflexivity.
  unfold enc_int. destruct (Z.eqb_spec z 0) as [->|Hz0].
  - cbn. reflexivity.
  - destruct (Z.ltb_spec z 0) as [Hneg|Hpos].
    + set (n := Z.to_N (- z)).
      destruct (dec_of_N_head n) as (c & ds & E & Hc & Hc1).
      pose proof (dec_of_N_digits n) as Hd.
      assert (Hn0 : n <> 0) by (unfold n; lia). specialize (Hc1 Hn0).
      rewrite E in *. unfold skip_int. cbn [app]. change (ch_minus =? ch_minus) with true. cbn iota.
      assert (H48 : (c =? 48) = false) by (apply is_digit_spec in Hc; lia). rewrite H48. cbn [andb].
      rewrite Hc. cbn [negb].
      change (c :: ds ++ ch_e :: r) with ((c :: ds) ++ ch_e :: r).
      rewrite skip_digits_run by assumption. change (ch_e =? ch_e) with true. reflexivity.
    + set (n := Z.to_N z).
      destruct (dec_of_N_head n) as (c & ds & E & Hc & Hc1).
      pose proof (dec_of_N_digits n) as Hd.
      rewrite E in *. unfold skip_int. cbn [app].
      assert (Hcm : (c =? ch_minus) = false) by (apply is_digit_spec in Hc; unfold ch_minus; lia).
      rewrite Hcm. cbn [andb]. rewrite Hc. cbn [negb].
      change (c :: ds ++ ch_e :: r) with ((c :: ds) ++ ch_e :: r).
      rewrite skip_digits_run by assumption. change (ch_e =? ch_e) with true. reflexivity.
Qed.

(* loop iterations a value costs *)
Fixpoint iters (v : value) : nat :=
  match v with
  | VInt _ | VStr _ => 1
  | VList l => S (S (fold_right (fun x a => iters x + a)%nat 0%nat l))
  | VMap m => S (S (fold_right (fun kv a => iters (snd kv) + a)%nat 0%nat m))
  end.

Lemma iters_pos v : (1 <= iters v)%nat.
Proof. destruct v; cbn [iters]; lia. Qed.

Definition SK (v : value) : Prop :=
  forall f st r, wf v -> N.of_nat (length st) + height v < skip_stack_limit ->
    N.of_nat (length (enc v ++ r)) < two32 ->
    skip_body (pred (iters v) + f) st (enc v ++ r) = continue f st r.

Lemma skip_close f b st r : skip_loop (S f) (b :: st) (ch_e :: r) = continue f st r.
Proof. cbn [skip_loop]. change (ch_e =? ch_e) with true. cbn iota. destruct st; reflexivity. Qed.

Lemma items_skip : forall vs, Forall SK vs -> forall f st r,
  wf_list vs -> N.of_nat (length st) + 1 + items_height vs < skip_stack_limit ->
  N.of_nat (length (flat_map enc vs ++ ch_e :: r)) < two32 ->
  skip_loop (fold_right (fun x a => iters x + a)%nat 0%nat vs + S f) (false :: st) (flat_map enc vs ++ ch_e :: r)
  = continue f st r.
Proof.
  induction vs as [|v vs IH]; intros HSK f st r Hwf Hh Hs.
  - cbn [flat_map app fold_right Nat.add]. apply skip_close.
  - inversion HSK as [|? ? Hv Hvs]; subst. destruct Hwf as [Hwv Hwvs].
    cbn [items_height fold_right] in Hh. fold (items_height vs) in Hh.
    cbn [flat_map fold_right] in *. rewrite <- app_assoc in *.
    destruct (enc_head v) as (c & tl & E & Hce).
    pose proof (iters_pos v) as Hp.
    replace (iters v + fold_right (fun x a => iters x + a) 0 vs + S f)%nat
      with (S (pred (iters v) + (fold_right (fun x a => iters x + a) 0 vs + S f)))%nat by lia.
    rewrite E at 1. cbn [app]. rewrite skip_loop_value; [|exact Hce|exact I].
    change (c :: tl ++ ?x) with ((c :: tl) ++ x). rewrite <- E.
    rewrite Hv; [| exact Hwv | cbn [length]; lia | exact Hs ].
    cbn [continue]. apply IH; try assumption; [lia|]. rewrite app_length in Hs. lia.
Qed.

Lemma entries_skip : forall ms, Forall (fun kv => SK (snd kv)) ms -> forall f st r,
  wf_entries ms -> N.of_nat (length st) + 1 + entries_height ms < skip_stack_limit ->
  N.of_nat (length (enc_entries ms ++ ch_e :: r)) < two32 ->
  skip_loop (fold_right (fun kv a => iters (snd kv) + a)%nat 0%nat ms + S f) (true :: st) (enc_entries ms ++ ch_e :: r)
  = continue f st r.
Proof.
  induction ms as [|[k v] ms IH]; intros HSK f st r Hwf Hh Hs.
  - cbn [enc_entries flat_map app fold_right Nat.add]. apply skip_close.
  - inversion HSK as [|? ? Hv Hvs]; subst. cbn [snd] in Hv. destruct Hwf as [[Hwk Hwv] Hwvs]. cbn [fst snd] in *.
    cbn [entries_height fold_right snd] in Hh. fold (entries_height ms) in Hh.
    unfold enc_entries in *. cbn [flat_map fold_right fst snd] in *. rewrite <- !app_assoc in *.
    pose proof (iters_pos v) as Hp.
    replace (iters v + fold_right (fun kv a => iters (snd kv) + a) 0 ms + S f)%nat
      with (S (pred (iters v) + (fold_right (fun kv a => iters (snd kv) + a) 0 ms + S f)))%nat by lia.
    rewrite skip_loop_entry; [| exact Hwk | exact Hs].
    rewrite Hv; [| exact Hwv | cbn [length]; lia | rewrite app_length in Hs; lia ].
    cbn [continue]. apply IH; try assumption; [lia|]. rewrite !app_length in Hs. rewrite app_length. lia.
Qed.

Lemma skip_all : forall v, SK v.
Proof.
  apply value_ind2.
  - intros z f st r _ _ _. cbn [iters pred Nat.add enc app skip_body].
    change (ch_i =? ch_i) with true. cbn iota. rewrite <- app_assoc. cbn [app].
    rewrite skip_int_enc. destruct st; reflexivity.
  - intros s f st r Hwf _ Hs. cbn [wf] in Hwf. cbn [iters pred Nat.add enc].
    destruct (enc_str_head s) as (c & tl & E & Hc).
    destruct (digit_not_tag c Hc) as (H1 & H2 & H3 & _).
    unfold skip_body. rewrite E at 1. cbn [app]. rewrite H1, H2, H3. cbn [orb].
    rewrite c_string_enc by assumption. destruct st; reflexivity.
  - intros l HSK f st r Hwf Hh Hs. cbn [wf] in Hwf. rewrite wf_list_eq in Hwf.
    cbn [height] in Hh. fold (items_height l) in Hh.
    cbn [iters pred enc app skip_body].
    change (ch_l =? ch_i) with false. change (ch_l =? ch_l) with true. cbn [orb]. cbn iota.
    destruct (N.leb_spec skip_stack_limit (N.of_nat (length st) + 1)) as [|_]; [lia|].
    change (ch_l =? ch_d) with false.
    rewrite <- app_assoc. cbn [app].
    replace (S (fold_right (fun x a => iters x + a) 0 l) + f)%nat
      with (fold_right (fun x a => iters x + a) 0 l + S f)%nat by lia.
    apply items_skip; try assumption; [lia|].
    cbn [enc app] in Hs. rewrite <- app_assoc in Hs. cbn [app length] in Hs. lia.
  - intros m HSK f st r [Hsorted Hwf] Hh Hs. rewrite wf_entries_eq in Hwf.
    cbn [height] in Hh. fold (entries_height m) in Hh.
    cbn [iters pred enc app skip_body].
    change (ch_d =? ch_i) with false. change (ch_d =? ch_l) with false. change (ch_d =? ch_d) with true. cbn [orb]. cbn iota.
    destruct (N.leb_spec skip_stack_limit (N.of_nat (length st) + 1)) as [|_]; [lia|].
    rewrite <- app_assoc. cbn [app]. fold (enc_entries m).
    replace (S (fold_right (fun kv a => iters (snd kv) + a) 0 m) + f)%nat
      with (fold_right (fun kv a => iters (snd kv) + a) 0 m + S f)%nat by lia.
    apply entries_skip; try assumption; [lia|].
    cbn [enc app] in Hs. fold (enc_entries m) in Hs. rewrite <- app_assoc in Hs. cbn [app length] in Hs. lia.
Qed.

Lemma iters_le_enc : forall v, (iters v <= length (enc v))%nat.
Proof.
  apply value_ind2.
  - intros z. cbn [iters enc length]. lia.
  - intros s. cbn [iters]. apply enc_nonempty with (v := VStr s).
  - intros l H. cbn [iters enc length]. rewrite app_length. cbn [length].
    assert (fold_right (fun x a => iters x + a)%nat 0%nat l <= length (flat_map enc l))%nat; [|lia].
    induction H as [|v vs Hv _ IH]; cbn [fold_right flat_map]; [lia|]. rewrite app_length. lia.
  - intros m H. cbn [iters enc length]. rewrite app_length. cbn [length].
    assert (fold_right (fun kv a => iters (snd kv) + a)%nat 0%nat m
            <= length (flat_map (fun kv => enc_str (fst kv) ++ enc (snd kv)) m))%nat; [|lia].
    induction H as [|kv vs Hv _ IH]; cbn [fold_right flat_map]; [lia|]. rewrite !app_length. lia.
Qed.

(* fuel monotonicity is avoided: the top-level fuel is rewritten as iters + slack *)
Theorem enc_skip : forall v r,
  wf v -> height v < skip_stack_limit -> N.of_nat (length (enc v ++ r)) < two32 ->
  skip_c (enc v ++ r) = Ok tt r.
Proof.
  intros v r Hwf Hh Hs. unfold skip_c.
  destruct (enc_head v) as (c & tl & E & Hce).
  pose proof (iters_le_enc v) as Hle. pose proof (iters_pos v) as Hp.
  rewrite app_length.
  set (F := (S (S (length (enc v) + length r)) - iters v)%nat).
  replace (S (S (length (enc v) + length r))) with (S (pred (iters v) + F))%nat by (unfold F; lia).
  clearbody F.
  assert (Hstep : skip_loop (S (pred (iters v) + F)) [] (enc v ++ r) = skip_body (pred (iters v) + F) [] (enc v ++ r)).
  { rewrite E. cbn [app]. apply skip_loop_value; [exact Hce|exact I]. }
  rewrite Hstep.
  rewrite skip_all; try assumption; try reflexivity; cbn [length]; lia.
Qed.

(* the skip reader and the buffer reader delimit encoded values identically *)
Corollary skip_agrees_with_decode_on_encodings : forall v r,
  wf v -> height v < skip_stack_limit -> height v < depth_limit_c -> N.of_nat (length (enc v ++ r)) < two32 ->
  skip_c (enc v ++ r) = Ok tt r /\ decode_c (enc v ++ r) = Ok (v, false) r.
Proof. intros. split; [apply enc_skip|apply enc_dec_c]; assumption. Qed.
