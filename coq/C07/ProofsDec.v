(* Decimal printing / parsing facts used by the round-trip and faithfulness proofs. *)
From Coq Require Import List NArith ZArith Bool Lia ZifyBool ZifyNat ZifyN.
Ltac Zify.zify_post_hook ::= Z.div_mod_to_equations.
From LTV Require Import Common.Bytes.
From LTV.C07 Require Import Model.
Import ListNotations.
Local Open Scope N_scope.

(* numeric value of a digit string, accumulating from acc *)
Definition dval (acc : N) (ds : bytes) : N := fold_left (fun a c => a * 10 + digit_val c) ds acc.

Definition all_digits (ds : bytes) : Prop := Forall (fun c => is_digit c = true) ds.

Lemma is_digit_spec c : is_digit c = true <-> 48 <= c <= 57.
Proof. unfold is_digit. rewrite andb_true_iff, !N.leb_le. tauto. Qed.

Lemma dval_app acc a b : dval acc (a ++ b) = dval (dval acc a) b.
Proof. unfold dval. apply fold_left_app. Qed.

Lemma ddf_app fuel : forall n acc, dec_digits_fuel fuel n acc = dec_digits_fuel fuel n [] ++ acc.
Proof.
  induction fuel as [|f IH]; intros n acc; cbn [dec_digits_fuel]; [reflexivity|].
  destruct (n =? 0); [reflexivity|].
  rewrite IH. rewrite (IH _ [_]). rewrite <- app_assoc. reflexivity.
Qed.

Lemma div10_lt_pow2 n f : n < 2 ^ N.of_nat (S f) -> n / 10 < 2 ^ N.of_nat f.
Proof.
  intros H. rewrite Nat2N.inj_succ, N.pow_succ_r' in H.
  set (X := 2 ^ N.of_nat f) in *. clearbody X.
  apply N.div_lt_upper_bound; lia.
Qed.

Lemma ddf_digits fuel : forall n, all_digits (dec_digits_fuel fuel n []).
Proof.
  induction fuel as [|f IH]; intros n; cbn [dec_digits_fuel]; [constructor|].
  destruct (n =? 0); [constructor|].
  rewrite ddf_app. apply Forall_app; split; [apply IH|].
  constructor; [|constructor]. apply is_digit_spec.
  assert (n mod 10 < 10) by (apply N.mod_lt; lia). lia.
Qed.

Lemma ddf_val fuel : forall n, n < 2 ^ N.of_nat fuel -> dval 0 (dec_digits_fuel fuel n []) = n.
Proof.
  induction fuel as [|f IH]; intros n H; cbn [dec_digits_fuel].
  - cbn in H. assert (n = 0) by lia. subst. reflexivity.
  - destruct (N.eqb_spec n 0) as [->|Hn]; [reflexivity|].
    rewrite ddf_app, dval_app, IH by (apply div10_lt_pow2; exact H).
    unfold dval; cbn [fold_left]. unfold digit_val.
    assert (n = 10 * (n / 10) + n mod 10) by (apply N.div_mod; lia). lia.
Qed.

(* the first digit of a positive number is not '0' *)
Lemma ddf_head fuel : forall n, n < 2 ^ N.of_nat fuel -> n <> 0 ->
  exists c tl, dec_digits_fuel fuel n [] = c :: tl /\ 49 <= c <= 57.
Proof.
  induction fuel as [|f IH]; intros n H Hn; cbn [dec_digits_fuel].
  - cbn in H. lia.
  - destruct (N.eqb_spec n 0) as [->|_]; [lia|].
    rewrite ddf_app.
    destruct (N.eqb_spec (n / 10) 0) as [Hz|Hz].
    + rewrite Hz. destruct f; cbn [dec_digits_fuel N.eqb]; cbn [app];
        exists (48 + n mod 10), []; split; try reflexivity;
        assert (n mod 10 < 10) by (apply N.mod_lt; lia); assert (n = 10 * (n / 10) + n mod 10) by (apply N.div_mod; lia); lia.
    + destruct (IH (n / 10)) as (c & tl & E & Hc); [apply div10_lt_pow2; exact H|exact Hz|].
      rewrite E. exists c, (tl ++ [48 + n mod 10]). split; [reflexivity|exact Hc].
Qed.

Lemma size_bound n : n < 2 ^ N.of_nat (S (N.to_nat (N.size n))).
Proof.
  rewrite Nat2N.inj_succ, N2Nat.id.
  destruct n as [|p]; [cbn; lia|].
  pose proof (N.size_gt (N.pos p)).
  eapply N.lt_trans; [exact H|]. apply N.pow_lt_mono_r; lia.
Qed.

Lemma dec_of_N_digits n : all_digits (dec_of_N n).
Proof.
  unfold dec_of_N. destruct (n =? 0); [repeat constructor|apply ddf_digits].
Qed.

Lemma dec_of_N_val n : dval 0 (dec_of_N n) = n.
Proof.
  unfold dec_of_N. destruct (N.eqb_spec n 0) as [->|Hn]; [reflexivity|].
  apply ddf_val, size_bound.
Qed.

Lemma dec_of_N_head n : exists c tl, dec_of_N n = c :: tl /\ is_digit c = true /\ (n <> 0 -> 49 <= c).
Proof.
  unfold dec_of_N. destruct (N.eqb_spec n 0) as [->|Hn].
  - exists 48, []. repeat split; try reflexivity. intros; lia.
  - destruct (ddf_head _ n (size_bound n) Hn) as (c & tl & E & Hc).
    exists c, tl. repeat split; [exact E| apply is_digit_spec; lia | lia].
Qed.

(* dval is monotone: prefixes of a digit string have smaller-or-equal value scaled *)
Lemma dval_ge acc ds : acc <= dval acc ds.
Proof.
  revert acc; induction ds as [|c ds IH]; intros acc; [apply N.le_refl|].
  unfold dval in *; cbn [fold_left]. etransitivity; [|apply IH]. lia.
Qed.

Lemma dval_mono a b ds : a <= b -> dval a ds <= dval b ds.
Proof.
  revert a b; induction ds as [|c ds IH]; intros a b H; [exact H|].
  unfold dval in *; cbn [fold_left]. apply IH. lia.
Qed.
