(* C07 (static-map part) — executable model of
     static_map_read_bencode_c, static_map_write_bencode_c_values   (src/torrent/object_stream.cc)
     find_key_match                                                 (src/torrent/object_static_map.cc)
     static_map_mapping_type::find_key_end                          (src/torrent/object_static_map.h)
     utils::count_base                                              (src/utils/functional.h)
   for an ARBITRARY key table. Definitions only. Values are read with the existing models
   decode_c / skip_c / raw_c / c_string of Model.v.

   Memory: the `current_key` buffer is a list of max_key_size+2 bytes, every write goes through
   set_nth (None = outside the buffer = Fault); a key of the table is a byte list standing for the
   NUL padded char[16], reads of key[i] go through kat (None for i >= 16 = Fault); the 8-entry
   stack is a list whose length is checked on push; entry_values[] is a list whose length is the
   table's tmpl_length, a store outside it is Fault; the internal_error of the reader's `default:`
   branch is Fault as well. "Never Fault" is the model-level statement of "no access outside".

   The model follows the code after the fix commits a215a35 (input keys holding NUL / ':' / '[' / '*'
   are skipped) and 100e504 (raw type tests use ==). Quirks reproduced as they are: the advancing
   first_key cursor, `break` in find_key_match on the
   first table key that properly extends the searched one, the raw type of "x[]*" elements being
   taken from key[base+1] == ']' (always the untyped raw_bencode). *)
From Coq Require Import List NArith ZArith Bool.
From LTV Require Import Common.Bytes.
From LTV.C07 Require Import ParamsGen Model.
Import ListNotations.
Local Open Scope N_scope.

Definition ch_star := 42. Definition ch_lbr := 91. Definition ch_rbr := 93.
Definition ch_S := 83. Definition ch_L := 76. Definition ch_M := 77.

Definition max_key : N := Params.static_map_max_key_size.          (* 16 *)
Definition sm_stack_size : N := Params.static_map_stack.           (* 8 *)
Definition key_buf_len : N := max_key + Params.sm_key_buf_extra.   (* char current_key[16 + 2] *)

(* a key table: (index, key characters); the C array element is the key NUL-padded to 16 *)
Definition ktable := list (N * bytes).

(* what an entry's Object holds: a decoded tree with its unordered flag, or a raw_* view *)
Inductive sval :=
| SObj (v : value) (unordered : bool)
| SRaw (k : raw_kind) (b : bytes).
Definition entries := list (option sval).

Fixpoint set_nth {A} (l : list A) (i : nat) (x : A) : option (list A) :=
  match l, i with
  | [], _ => None
  | _ :: t, O => Some (x :: t)
  | h :: t, S i' => match set_nth t i' x with Some t' => Some (h :: t') | None => None end
  end.

(* memcpy(buf + off, data, |data|) *)
Fixpoint buf_write (b : bytes) (off : nat) (data : bytes) : option bytes :=
  match data with
  | [] => Some b
  | x :: d' => match set_nth b off x with Some b' => buf_write b' (S off) d' | None => None end
  end.

(* strlen inside the buffer; None = no NUL before the end of the buffer *)
Fixpoint c_strlen (b : bytes) : option nat :=
  match b with
  | [] => None
  | c :: b' => if c =? 0 then Some O else match c_strlen b' with Some n => Some (S n) | None => None end
  end.

(* key[i] of a mapping_type; None = outside char key[16] *)
Definition kat (k : bytes) (i : N) : option N :=
  if i <? max_key then Some (nth (N.to_nat i) k 0) else None.

Definition pad_key (k : bytes) : bytes := firstn (N.to_nat max_key) (k ++ repeat 0 (N.to_nat max_key)).

(* utils::count_base: length of the common prefix of the two ranges *)
Fixpoint count_base (a b : bytes) : N :=
  match a, b with
  | x :: a', y :: b' => if x =? y then 1 + count_base a' b' else 0
  | _, _ => 0
  end.

(* strcmp(a, b) == 0 on the NUL terminated keys *)
Fixpoint trunc0 (k : bytes) : bytes :=
  match k with [] => [] | c :: k' => if c =? 0 then [] else c :: trunc0 k' end.
Definition key_streq (a b : bytes) : bool := bytes_eqb (trunc0 a) (trunc0 b).

(* ---------------------------------------------------------------- find_key_match
   tl = [first, last) of the table, pos = absolute position of its head, cs = the C string in
   current_key. FkNone = result.second == 0. *)
Inductive fk_res := FkFault | FkNone | FkSome (pos : nat) (base : N).

Definition fk_found (pos : nat) (base : N) : fk_res := if base =? 0 then FkNone else FkSome pos base.

Fixpoint find_key (tl : ktable) (pos : nat) (cs : bytes) : fk_res :=
  match tl with
  | [] => FkNone
  | (_, k) :: tl' =>
      let base := count_base cs (pad_key k) in
      if base <? N.of_nat (length cs) then find_key tl' (S pos) cs     (* key_first[base] != '\0' *)
      else match kat k base with
           | None => FkFault
           | Some c0 =>
               if (c0 =? 0) || (c0 =? ch_star) then fk_found pos base
               else if c0 =? ch_colon then
                 match kat k (base + 1) with
                 | None => FkFault
                 | Some c1 => if c1 =? ch_colon then fk_found pos base else FkNone
                 end
               else if c0 =? ch_lbr then
                 match kat k (base + 1) with
                 | None => FkFault
                 | Some c1 => if c1 =? ch_rbr then fk_found pos base else FkNone
                 end
               else FkNone
           end
  end.

Definition kind_of_char (c : N) : raw_kind :=
  if c =? ch_S then RawS else if c =? ch_L then RawL else if c =? ch_M then RawM else RawAny.

(* ---------------------------------------------------------------- reader state *)
Record smst := mkst {
  s_cursor : nat;            (* first_key - keys *)
  s_stack : list N;          (* next_key of stack[1..itr], innermost first; [] = stack[0], next_key 0 *)
  s_cur : bytes;             (* char current_key[18] *)
  s_ents : entries }.

Definition top_key (st : smst) : N := hd 0 (s_stack st).

Definition store (e : entries) (idx : N) (o : option sval) : option entries :=
  match o with
  | None => Some e                                     (* object left untouched *)
  | Some sv => set_nth e (N.to_nat idx) (Some sv)
  end.

(* the loop  while (first != last): on 'e' step over it and stop, else first = skip(first, last) *)
Fixpoint sm_skip_rest (fuel : nat) (l : bytes) : res unit :=
  match fuel with
  | O => OutOfFuel
  | S f =>
      match l with
      | [] => Reject
      | c :: l' =>
          if c =? ch_e then Ok tt l'
          else match skip_c l with
               | Ok _ rest => sm_skip_rest f rest
               | Reject => Reject | Fault => Fault | OutOfFuel => OutOfFuel
               end
      end
  end.

(* read one value into an entry: plain (object_read_bencode_c) or raw (object_read_bencode_raw_c) *)
Definition read_value (raw : option raw_kind) (l : bytes) : res (option sval) :=
  match raw with
  | None => match decode_c l with
            | Ok (v, fl) rest => Ok (Some (SObj v fl)) rest
            | Reject => Reject | Fault => Fault | OutOfFuel => OutOfFuel
            end
  | Some k => match raw_c k l with
              | Ok (Some b) rest => Ok (Some (SRaw k b)) rest
              | Ok None rest => Ok None rest
              | Reject => Reject | Fault => Fault | OutOfFuel => OutOfFuel
              end
  end.

(* the element loop of the "[]" case. fk = first_key (absolute position), mk = key_search.first->key,
   base = key_search.second. Returns the new first_key and the entries. *)
Fixpoint sm_list (tbl : ktable) (fuel : nat) (fk : nat) (mk : bytes) (base : N) (e : entries) (l : bytes)
  : res (nat * entries) :=
  match fuel with
  | O => OutOfFuel
  | S f =>
      match l with
      | [] => Reject                                   (* loop ends with first == last: caller throws *)
      | c :: l' =>
          if c =? ch_e then Ok (fk, e) l'
          else match nth_error tbl fk with
               | None => Fault                         (* first_key == last_key dereferenced *)
               | Some (idx, k) =>
                   match kat k (base + 2), kat mk (base + 1) with
                   | Some c2, Some c1 =>
                       let raw := if c2 =? ch_star then Some (kind_of_char c1) else None in
                       match read_value raw l with
                       | Ok o rest =>
                           match store e idx o with
                           | None => Fault
                           | Some e' =>
                               let fk' := S fk in
                               let same := match nth_error tbl fk' with
                                           | Some (_, k') => key_streq k' k
                                           | None => false
                                           end in
                               if same then sm_list tbl f fk' mk base e' rest
                               else match sm_skip_rest (S (length rest)) rest with
                                    | Ok _ rest' => Ok (fk', e') rest'
                                    | Reject => Reject | Fault => Fault | OutOfFuel => OutOfFuel
                                    end
                           end
                       | Reject => Reject | Fault => Fault | OutOfFuel => OutOfFuel
                       end
                   | _, _ => Fault
                   end
               end
      end
  end.

Definition two64 : N := 18446744073709551616.

(* static_map_mapping_type::is_not_key_char *)
Definition is_not_key_char (c : N) : bool := (c =? 0) || (c =? ch_colon) || (c =? ch_lbr) || (c =? ch_star).

(* the main loop of static_map_read_bencode_c *)
Fixpoint sm_loop (tbl : ktable) (fuel : nat) (st : smst) (l : bytes) : res entries :=
  match fuel with
  | O => OutOfFuel
  | S f =>
      match l with
      | [] => Reject
      | c :: l' =>
          if c =? ch_e then
            match s_stack st with
            | [] => Ok (s_ents st) l'
            | _ :: stk' => sm_loop tbl f (mkst (s_cursor st) stk' (s_cur st) (s_ents st)) l'
            end
          else
            match c_string l with
            | Ok rk rest =>
                let nk := top_key st in
                let klen := N.of_nat (length rk) in
                (* raw_key.size() >= max_key_size - next_key   (size_t arithmetic), or the key holds a
                   NUL / ':' / '[' / '*' (find_if is_not_key_char): never a component of a table key *)
                if ((max_key + two64 - nk) mod two64 <=? klen) || existsb is_not_key_char rk then
                  match skip_c rest with
                  | Ok _ rest' => sm_loop tbl f st rest'
                  | Reject => Reject | Fault => Fault | OutOfFuel => OutOfFuel
                  end
                else
                  match buf_write (s_cur st) (N.to_nat nk) rk with
                  | None => Fault
                  | Some b1 =>
                  match set_nth b1 (N.to_nat (nk + klen)) 0 with
                  | None => Fault
                  | Some b2 =>
                  match c_strlen b2 with
                  | None => Fault
                  | Some len =>
                  let st1 := mkst (s_cursor st) (s_stack st) b2 (s_ents st) in
                  match find_key (skipn (s_cursor st) tbl) (s_cursor st) (firstn len b2) with
                  | FkFault => Fault
                  | FkNone =>
                      match skip_c rest with
                      | Ok _ rest' => sm_loop tbl f st1 rest'
                      | Reject => Reject | Fault => Fault | OutOfFuel => OutOfFuel
                      end
                  | FkSome pos base =>
                      match nth_error tbl pos with
                      | None => Fault
                      | Some (idx, k) =>
                      match kat k base with
                      | None => Fault
                      | Some c0 =>
                        if (c0 =? 0) || (c0 =? ch_star) then
                          match (if c0 =? 0 then Some None
                                 else match kat k (base + 1) with
                                      | Some c1 => Some (Some (kind_of_char c1))
                                      | None => None
                                      end) with
                          | None => Fault
                          | Some raw =>
                              match read_value raw rest with
                              | Ok o rest' =>
                                  match store (s_ents st) idx o with
                                  | None => Fault
                                  | Some e' => sm_loop tbl f (mkst (S pos) (s_stack st) b2 e') rest'
                                  end
                              | Reject => Reject | Fault => Fault | OutOfFuel => OutOfFuel
                              end
                          end
                        else if c0 =? ch_colon then
                          match rest with
                          | [] => Reject
                          | c1 :: rest1 =>
                              if c1 =? ch_d then
                                if sm_stack_size <=? N.of_nat (length (s_stack st)) + 1 then Fault   (* stack[8] *)
                                else match set_nth b2 (N.to_nat base) ch_colon with
                                     | None => Fault
                                     | Some b3 =>
                                     match set_nth b3 (N.to_nat (base + 1)) ch_colon with
                                     | None => Fault
                                     | Some b4 =>
                                         sm_loop tbl f (mkst (s_cursor st) ((base + 2) :: s_stack st) b4 (s_ents st)) rest1
                                     end
                                     end
                              else match skip_c rest with
                                   | Ok _ rest' => sm_loop tbl f st1 rest'
                                   | Reject => Reject | Fault => Fault | OutOfFuel => OutOfFuel
                                   end
                          end
                        else if c0 =? ch_lbr then
                          match rest with
                          | [] => Reject
                          | c1 :: rest1 =>
                              if c1 =? ch_l then
                                match sm_list tbl (S (length rest1)) pos k base (s_ents st) rest1 with
                                | Ok (fk', e') rest' => sm_loop tbl f (mkst fk' (s_stack st) b2 e') rest'
                                | Reject => Reject | Fault => Fault | OutOfFuel => OutOfFuel
                                end
                              else match skip_c rest with
                                   | Ok _ rest' => sm_loop tbl f st1 rest'
                                   | Reject => Reject | Fault => Fault | OutOfFuel => OutOfFuel
                                   end
                          end
                        else Fault                         (* internal_error: invalid character *)
                      end
                      end
                  end
                  end
                  end
                  end
            | Reject => Reject | Fault => Fault | OutOfFuel => OutOfFuel
            end
      end
  end.

Definition empty_entries (tbl : ktable) : entries := repeat None (length tbl).
Definition init_buf : bytes := repeat 0 (N.to_nat key_buf_len).
Definition init_st (e : entries) : smst := mkst O [] init_buf e.

(* static_map_read_bencode_c on a map whose entries are e (fresh map: empty_entries) *)
Definition sm_read_into (tbl : ktable) (e : entries) (l : bytes) : res entries :=
  match l with
  | [] => Reject
  | c :: l' => if c =? ch_d then sm_loop tbl (S (length l')) (init_st e) l' else Reject
  end.

Definition sm_read (tbl : ktable) (l : bytes) : res entries := sm_read_into tbl (empty_entries tbl) l.

(* ---------------------------------------------------------------- writer
   static_map_write_bencode_c_values. Result None = Fault (out-of-range access / stack overflow),
   Some None = internal_error "static_map_type key is invalid.", Some (Some bytes) = output. *)

Definition enc_sval (sv : sval) : bytes :=
  match sv with
  | SObj v _ => enc v
  | SRaw RawAny b => b
  | SRaw RawS b => enc_str b
  | SRaw RawL b => ch_l :: b ++ [ch_e]
  | SRaw RawM b => ch_d :: b ++ [ch_e]
  end.


(* find_key_end: first position >= pos (< 16) holding a non-key character, else 16 *)
Fixpoint find_key_end (fuel : nat) (k : bytes) (pos : N) : N :=
  match fuel with
  | O => pos
  | S f => if max_key <=? pos then pos
           else if is_not_key_char (nth (N.to_nat pos) k 0) then pos else find_key_end f k (pos + 1)
  end.

Inductive wres := WFault | WInternal | WOk (stack : list (N * bool)) (out : bytes).

Definition sub_key (k : bytes) (a b : N) : bytes :=
  firstn (N.to_nat (b - a)) (skipn (N.to_nat a) (pad_key k)).

(* the do { } while (true) loop over the components of one key. stack entries: (next_key, is_list) *)
Fixpoint sm_write_key (fuel : nat) (k : bytes) (obj : bytes) (stack : list (N * bool)) (kb : N) (out : bytes) : wres :=
  match fuel with
  | O => WFault
  | S f =>
      let ke := find_key_end (N.to_nat max_key + 1) k kb in
      let is_list := match stack with (_, b) :: _ => b | [] => false end in
      let out1 := if is_list then out else out ++ enc_str (sub_key k kb ke) in
      match kat k ke with
      | None => WFault
      | Some c0 =>
          let c1 := if (c0 =? ch_colon) || (c0 =? ch_lbr) then kat k (ke + 1) else Some 0 in
          match c1 with
          | None => WFault
          | Some c1 =>
              if (c0 =? ch_colon) && (c1 =? ch_colon) then
                if sm_stack_size <=? N.of_nat (length stack) + 1 then WFault
                else sm_write_key f k obj ((ke + 2, false) :: stack) (ke + 2) (out1 ++ [ch_d])
              else if (c0 =? ch_lbr) && (c1 =? ch_rbr) then
                if sm_stack_size <=? N.of_nat (length stack) + 1 then WFault
                else sm_write_key f k obj ((ke + 2, true) :: stack) (ke + 2) (out1 ++ [ch_l])
              else if (c0 =? 0) || (c0 =? ch_star) then WOk stack (out1 ++ obj)
              else WInternal
          end
      end
  end.

(* while (base_size < stack_itr->next_key) { 'e'; stack_itr--; } *)
Fixpoint sm_pop (stack : list (N * bool)) (base_size : N) (out : bytes) : list (N * bool) * bytes :=
  match stack with
  | [] => ([], out)
  | (nk, _) :: st' => if base_size <? nk then sm_pop st' base_size (out ++ [ch_e]) else (stack, out)
  end.

Fixpoint sm_write_loop (tl : ktable) (e : entries) (prev : option bytes) (stack : list (N * bool)) (out : bytes) : wres :=
  match tl with
  | [] => WOk stack out
  | (idx, k) :: tl' =>
      match nth_error e (N.to_nat idx) with
      | None => WFault                                        (* entry_values[index] outside the array *)
      | Some None => sm_write_loop tl' e prev stack out        (* is_empty(): skipped, prev_key unchanged *)
      | Some (Some sv) =>
          let nk := match stack with (n, _) :: _ => n | [] => 0 end in
          match (match prev with
                 | Some p => Some (count_base (firstn (N.to_nat nk) (pad_key k)) (firstn (N.to_nat nk) (pad_key p)))
                 | None => if nk =? 0 then Some 0 else None   (* prev_key == NULL dereferenced *)
                 end) with
          | None => WFault
          | Some base_size =>
              let '(stack1, out1) := sm_pop stack base_size out in
              let kb := match stack1 with (n, _) :: _ => n | [] => 0 end in
              match sm_write_key (N.to_nat max_key + 2) k (enc_sval sv) stack1 kb out1 with
              | WOk stack2 out2 => sm_write_loop tl' e (Some k) stack2 out2
              | WFault => WFault
              | WInternal => WInternal
              end
          end
      end
  end.

Definition sm_write (tbl : ktable) (e : entries) : wres :=
  match sm_write_loop tbl e None [] [ch_d] with
  | WOk stack out => WOk [] (out ++ repeat ch_e (S (length stack)))
  | r => r
  end.

(* ---------------------------------------------------------------- table side condition
   What the theorems need of a key table: every index addresses the value array, every key fits
   char key[16] with its terminating NUL and holds no NUL character. (The nesting bound of the
   8-entry stack FOLLOWS from the key length: proved, not assumed.) *)
Definition key_ok (k : bytes) : bool :=
  (N.of_nat (length k) <? max_key) && forallb (fun c => negb (c =? 0)) k.

Definition table_ok (tbl : ktable) : bool :=
  forallb (fun ik => (fst ik <? N.of_nat (length tbl)) && key_ok (snd ik)) tbl.

(* number of "::" / "[]" separators of a key (reported; bounded by 7 for every ok key) *)
Fixpoint key_depth (k : bytes) : N :=
  match k with
  | a :: ((b :: k'') as k') =>
      if ((a =? ch_colon) && (b =? ch_colon)) || ((a =? ch_lbr) && (b =? ch_rbr)) then 1 + key_depth k''
      else key_depth k'
  | _ => 0
  end.

(* the writer additionally needs every separator of a key to be well formed *)
Fixpoint key_syntax_ok (fuel : nat) (k : bytes) : bool :=
  match fuel with
  | O => false
  | S f =>
      match k with
      | [] => true
      | c :: k' =>
          if c =? ch_star then true
          else if c =? ch_colon then match k' with c1 :: k'' => (c1 =? ch_colon) && key_syntax_ok f k'' | [] => false end
          else if c =? ch_lbr then match k' with c1 :: k'' => (c1 =? ch_rbr) && key_syntax_ok f k'' | [] => false end
          else key_syntax_ok f k'
      end
  end.

Definition table_w_ok (tbl : ktable) : bool :=
  table_ok tbl && forallb (fun ik => key_syntax_ok 17 (snd ik)) tbl.

(* the real tables (re-extracted from the sources on every run) *)
Definition ext_handshake : ktable := Params.sm_ext_handshake_keys.
Definition ext_pex : ktable := Params.sm_ext_pex_keys.
Definition ext_metadata : ktable := Params.sm_ext_metadata_keys.
Definition dht : ktable := Params.sm_dht_keys.
Definition real_tables : list ktable := [ext_handshake; ext_pex; ext_metadata; dht].

(* ---------------------------------------------------------------- round-trip side condition
   table_rt_ok: what the writer/reader round trip needs of a key table, as a boolean that is
   checked by computation on the real tables:
   * the index of every row is its position (true of every static_map_type: enum order = array order);
   * for every row j and every position kb at which a dictionary level of its key starts (0, or right
     after a "::"), walking the key from kb as the writer does succeeds: every component ends at a
     well-formed terminator inside the key, and for EVERY cursor position c <= j the reader's lookup
     of the key prefix up to that terminator (find_key_match from row c) finds a row with exactly that
     terminator position — row j itself when the terminator is the leaf's (NUL or '*'), a row that has
     "::" there when it is a dictionary's: no earlier
     row matches first, no sibling blocks the search (the `break` of find_key_match);
   * the leaf kind found from every level start is the same.
   Rows whose key contains "[]" are accepted by the check but the round-trip theorem requires their
   entries to be empty (list rows: see static_map_roundtrip_lists_partial). *)
Inductive leafkind := LList | LLeaf (raw : option raw_kind).

Definition level_start (k : bytes) (kb : N) : bool :=
  (kb =? 0) || ((2 <=? kb) && (nth (N.to_nat (kb - 2)) k 0 =? ch_colon) && (nth (N.to_nat (kb - 1)) k 0 =? ch_colon)).

Definition lookups_ok (tbl : ktable) (j : nat) (cs : bytes) (ke : N) (leaf : bool) : bool :=
  forallb (fun c => match find_key (skipn c tbl) c cs with
                    | FkSome p b =>
                        (b =? ke) &&
                        (if leaf then Nat.eqb p j
                         else match nth_error tbl p with       (* the row found opens a dictionary too *)
                              | Some (_, k') => nth (N.to_nat ke) k' 0 =? ch_colon
                              | None => false
                              end)
                    | _ => false
                    end) (seq 0 (S j)).

Fixpoint walk (fuel : nat) (tbl : ktable) (j : nat) (k : bytes) (kb : N) : option leafkind :=
  match fuel with
  | O => None
  | S f =>
      let ke := find_key_end (N.to_nat max_key + 1) k kb in
      if negb ((ke <? max_key) && (ke <=? N.of_nat (length k))) then None
      else
        let c0 := nth (N.to_nat ke) k 0 in
        let c1 := nth (N.to_nat (ke + 1)) k 0 in
        let cs := firstn (N.to_nat ke) k in
        if (c0 =? ch_colon) && (c1 =? ch_colon) then
          if lookups_ok tbl j cs ke false then walk f tbl j k (ke + 2) else None
        else if (c0 =? ch_lbr) && (c1 =? ch_rbr) then Some LList
        else if c0 =? 0 then
          if lookups_ok tbl j cs ke true then Some (LLeaf None) else None
        else if c0 =? ch_star then
          if lookups_ok tbl j cs ke true then Some (LLeaf (Some (kind_of_char c1))) else None
        else None
  end.

Definition raw_kind_eqb (a b : raw_kind) : bool :=
  match a, b with RawAny, RawAny | RawS, RawS | RawL, RawL | RawM, RawM => true | _, _ => false end.

Definition leafkind_eqb (a b : leafkind) : bool :=
  match a, b with
  | LList, LList => true
  | LLeaf None, LLeaf None => true
  | LLeaf (Some x), LLeaf (Some y) => raw_kind_eqb x y
  | _, _ => false
  end.

Definition walk_fuel : nat := 9.
Definition row_kind (tbl : ktable) (j : nat) (k : bytes) : option leafkind := walk walk_fuel tbl j k 0.

Definition row_ok (tbl : ktable) (j : nat) (k : bytes) : bool :=
  match row_kind tbl j k with
  | None => false
  | Some lk =>
      forallb (fun kb => negb (level_start k kb) ||
                         match walk walk_fuel tbl j k kb with Some lk' => leafkind_eqb lk' lk | None => false end)
              (map N.of_nat (seq 0 16))
  end.

Fixpoint idx_pos_ok (tl : ktable) (p : N) : bool :=
  match tl with
  | [] => true
  | (i, _) :: t => (i =? p) && idx_pos_ok t (p + 1)
  end.

Fixpoint rows_ok (tbl : ktable) (tl : ktable) (j : nat) : bool :=
  match tl with
  | [] => true
  | (_, k) :: t => row_ok tbl j k && rows_ok tbl t (S j)
  end.

Definition table_rt_ok (tbl : ktable) : bool :=
  table_ok tbl && idx_pos_ok tbl 0 && rows_ok tbl tbl 0.

(* ---------------------------------------------------------------- writer side condition
   table_ww_ok: from every position at which a level of a key starts (0, or right after "::" / "[]")
   the writer's walk over the key reaches a leaf through well-formed separators. Implies that
   static_map_write_bencode_c_values never raises internal_error and never leaves its 8-entry stack,
   whatever the entries hold (static_map_write_total). *)
Definition wlevel (k : bytes) (kb : N) : bool :=
  (2 <=? kb) &&
  (((nth (N.to_nat (kb - 2)) k 0 =? ch_colon) && (nth (N.to_nat (kb - 1)) k 0 =? ch_colon)) ||
   ((nth (N.to_nat (kb - 2)) k 0 =? ch_lbr) && (nth (N.to_nat (kb - 1)) k 0 =? ch_rbr))).

Fixpoint wwalk (fuel : nat) (k : bytes) (kb : N) : bool :=
  match fuel with
  | O => false
  | S f =>
      let ke := find_key_end (N.to_nat max_key + 1) k kb in
      let c0 := nth (N.to_nat ke) k 0 in
      let c1 := nth (N.to_nat (ke + 1)) k 0 in
      (ke <? max_key) &&
      (if ((c0 =? ch_colon) && (c1 =? ch_colon)) || ((c0 =? ch_lbr) && (c1 =? ch_rbr)) then wwalk f k (ke + 2)
       else (c0 =? 0) || (c0 =? ch_star))
  end.

Definition key_ww_ok (k : bytes) : bool :=
  forallb (fun kb => negb ((kb =? 0) || wlevel k kb) || wwalk walk_fuel k kb) (map N.of_nat (seq 0 16)).

Definition table_ww_ok (tbl : ktable) : bool :=
  table_ok tbl && forallb (fun ik => key_ww_ok (snd ik)) tbl.
