(* static_map_total: on ANY input shorter than 2^32 bytes and ANY key table satisfying table_ok the
   static-map reader terminates within its fuel and never faults: no read outside the input, no
   write outside char current_key[18], no access outside key[16], stack index below 8 (derived from
   the key length bound), no store outside the value array, internal_error branch unreachable. *)
From Coq Require Import List NArith ZArith Bool Lia ZifyBool ZifyNat ZifyN.
Ltac Zify.zify_post_hook ::= Z.div_mod_to_equations.
From LTV Require Import Common.Bytes.
From LTV.C07 Require Import ParamsGen Model ProofsDec ProofsSafe StaticMap ProofsSM.
Import ListNotations.
Local Open Scope N_scope.

(* ---- consumed input is a prefix: rest is a suffix of the input *)
Lemma c_len_digits_suffix : forall l acc hd len l1,
  c_len_digits l acc hd = Some (len, l1) -> exists ds, l = ds ++ l1 /\ all_digits ds.
Proof.
  induction l as [|c l IH]; intros acc hd len l1 H; cbn [c_len_digits] in H.
  - inversion H; subst. exists []. split; [reflexivity|constructor].
  - destruct (is_digit c) eqn:Hc.
    + destruct (hd && _); [discriminate|]. apply IH in H. destruct H as (ds & -> & Hd).
      exists (c :: ds). split; [reflexivity|constructor; assumption].
    + inversion H; subst. exists []. split; [reflexivity|constructor].
Qed.

Lemma c_string_suffix l s rest : c_string l = Ok s rest ->
  exists ds, all_digits ds /\ l = ds ++ ch_colon :: s ++ rest.
Proof.
  unfold c_string. destruct (c_len_digits l two31 false) as [[len l1]|] eqn:E; [|discriminate].
  apply c_len_digits_suffix in E. destruct E as (ds & -> & Hd).
  destruct (_ || _); [discriminate|].
  destruct l1 as [|c l2]; [discriminate|].
  destruct (N.eqb_spec c ch_colon) as [->|]; [|discriminate].
  destruct (_ <? len); [discriminate|]. intros H; inversion H; subst.
  exists ds. split; [exact Hd|]. rewrite firstn_skipn. reflexivity.
Qed.

Lemma after_colon_app : forall a b, exists s, after_colon (a ++ ch_colon :: b) = Some s.
Proof.
  induction a as [|c a IH]; intros b; cbn [app after_colon].
  - change (ch_colon =? ch_colon) with true. eauto.
  - destruct (c =? ch_colon); eauto.
Qed.

(* when the skip reader accepts at top level an input starting with a digit, it consumed one string *)
Lemma skip_c_digit c l' rest : is_digit c = true -> skip_c (c :: l') = Ok tt rest ->
  exists s, c_string (c :: l') = Ok s rest.
Proof.
  intros Hc. unfold skip_c. cbn [skip_loop].
  assert (c =? ch_e = false /\ c =? ch_i = false /\ c =? ch_l = false /\ c =? ch_d = false) as (H1 & H2 & H3 & H4).
  { apply is_digit_spec in Hc. unfold ch_e, ch_i, ch_l, ch_d. repeat split; apply N.eqb_neq; lia. }
  rewrite H1, H2, H3, H4. cbn [orb].
  destruct (c_string (c :: l')) as [s r| | |]; try discriminate.
  intros H; inversion H; subst. eauto.
Qed.

Definition goodu (l : bytes) {A} (R : res A) : Prop :=
  R <> Fault /\ R <> OutOfFuel /\ (forall x r, R = Ok x r -> (length r < length l)%nat).

Lemma raw_c_total k l : short l -> goodu l (raw_c k l).
Proof.
  intros Hs. unfold raw_c. destruct (skip_c_total l Hs) as (A & B & C).
  destruct (skip_c l) as [u rest| | |] eqn:E; try (repeat split; congruence).
  specialize (C _ _ eq_refl).
  destruct l as [|c l']; [cbn [length] in C; lia|].
  set (raw := firstn (length (c :: l') - length rest) (c :: l')).
  destruct k.
  - repeat split; try discriminate. intros x r H; inversion H; subst; exact C.
  - destruct ((2 <=? N.of_nat (length raw)) && is_digit (hd 0 raw)) eqn:Hd.
    + apply andb_true_iff in Hd. destruct Hd as [Hsz Hdig].
      assert (Hraw : hd 0 raw = c).
      { unfold raw. destruct (length (c :: l') - length rest)%nat eqn:En; [cbn [length] in *; lia|reflexivity]. }
      rewrite Hraw in Hdig. clear Hraw. destruct u.
      destruct (skip_c_digit c l' rest Hdig E) as (s & Es).
      apply c_string_suffix in Es. destruct Es as (ds & _ & El).
      assert (Hr : raw = ds ++ ch_colon :: s).
      { unfold raw. rewrite El.
        replace (length (ds ++ ch_colon :: s ++ rest) - length rest)%nat with (length (ds ++ ch_colon :: s) + 0)%nat
          by (rewrite !app_length; cbn [length]; rewrite !app_length; lia).
        replace (ds ++ ch_colon :: s ++ rest) with ((ds ++ ch_colon :: s) ++ rest) by (rewrite <- app_assoc; reflexivity).
        rewrite firstn_app_2. cbn [firstn]. apply app_nil_r. }
      rewrite Hr. clear Hr Hsz. clearbody raw. destruct (after_colon_app ds s) as (s' & ->).
      repeat split; try discriminate. intros x r H; inversion H; subst; exact C.
    + repeat split; try discriminate. intros x r H; inversion H; subst; exact C.
  - destruct (_ && _); repeat split; try discriminate; intros x r H; inversion H; subst; exact C.
  - destruct (_ && _); repeat split; try discriminate; intros x r H; inversion H; subst; exact C.
Qed.

Lemma read_value_total raw l : short l -> goodu l (read_value raw l).
Proof.
  intros Hs. unfold read_value. destruct raw as [k|].
  - destruct (raw_c_total k l Hs) as (A & B & C).
    destruct (raw_c k l) as [[b|] rest| | |]; try (repeat split; congruence);
      repeat split; try discriminate; intros x r H; inversion H; subst; eapply C; reflexivity.
  - destruct (decode_c_total l Hs) as (A & B & C).
    destruct (decode_c l) as [[v fl] rest| | |]; try (repeat split; congruence).
    repeat split; try discriminate. intros x r H; inversion H; subst. eapply C; reflexivity.
Qed.

Lemma sm_skip_rest_total : forall f l, short l ->
  sm_skip_rest f l <> Fault /\ ((length l + 1 <= f)%nat -> sm_skip_rest f l <> OutOfFuel) /\
  (forall u r, sm_skip_rest f l = Ok u r -> (length r < length l)%nat).
Proof.
  induction f as [|f IH]; intros l Hs.
  - cbn. repeat split; try discriminate. lia.
  - cbn [sm_skip_rest]. destruct l as [|c l']; [repeat split; discriminate|].
    destruct (c =? ch_e).
    { repeat split; try discriminate. intros u r H; inversion H; subst. cbn [length]; lia. }
    destruct (skip_c_total (c :: l') Hs) as (A & B & C).
    destruct (skip_c (c :: l')) as [u rest| | |]; try (repeat split; congruence).
    specialize (C _ _ eq_refl).
    destruct (IH rest) as (A' & B' & C'); [eapply short_suffix; [exact Hs|lia]|].
    repeat split; [exact A'|intros Hf; apply B'; lia|]. intros u0 r H. apply C' in H. lia.
Qed.

(* ---- the element loop of the "[]" case *)
Definition goodl (n : nat) (l : bytes) (fuel_ok : Prop) (R : res (nat * entries)) : Prop :=
  R <> Fault /\ (fuel_ok -> R <> OutOfFuel) /\
  (forall x r, R = Ok x r -> (length r < length l)%nat /\ length (snd x) = n).

Lemma store_total tbl e p idx k o :
  table_ok tbl = true -> nth_error tbl p = Some (idx, k) -> length e = length tbl ->
  exists e', store e idx o = Some e' /\ length e' = length tbl.
Proof.
  intros Ht Hn He. destruct o as [sv|]; cbn [store]; [|eauto].
  destruct (table_ok_idx tbl Ht _ _ _ Hn) as [Hi _].
  destruct (set_nth_some e (N.to_nat idx) (Some sv)) as (e' & E & L & _); [lia|].
  exists e'. split; [exact E|lia].
Qed.

Lemma sm_list_total tbl : table_ok tbl = true -> forall f fk mk base e l,
  short l -> base + 2 < 16 -> (fk < length tbl)%nat -> length e = length tbl ->
  goodl (length tbl) l (length l + 1 <= f)%nat (sm_list tbl f fk mk base e l).
Proof.
  intros Ht. induction f as [|f IH]; intros fk mk base e l Hs Hb Hfk He.
  - cbn. repeat split; try discriminate. lia.
  - cbn [sm_list]. destruct l as [|c l']; [repeat split; discriminate|].
    destruct (c =? ch_e).
    { repeat split; try discriminate; inversion H; subst; cbn [length snd]; [lia|exact He]. }
    destruct (nth_error tbl fk) as [[idx k]|] eqn:En; [|apply nth_error_None in En; lia].
    rewrite (kat_some k (base + 2)) by lia. rewrite (kat_some mk (base + 1)) by lia.
    set (raw := if _ =? ch_star then _ else _).
    destruct (read_value_total raw (c :: l') Hs) as (A & B & C).
    destruct (read_value raw (c :: l')) as [o rest| | |]; try (repeat split; congruence).
    specialize (C _ _ eq_refl).
    destruct (store_total tbl e fk idx k o Ht En He) as (e' & -> & He').
    assert (Hsr : short rest) by (eapply short_suffix; [exact Hs|lia]).
    destruct (nth_error tbl (S fk)) as [[idx' k']|] eqn:En'.
    + destruct (key_streq k' k).
      * assert (Hfk' : (S fk < length tbl)%nat) by (apply nth_error_Some; congruence).
        destruct (IH (S fk) mk base e' rest Hsr Hb Hfk' He') as (A' & B' & C').
        split; [exact A'|]. split; [intros Hf; apply B'; cbn [length] in *; lia|].
        intros x r H. apply C' in H. cbn [length] in *. split; [lia|tauto].
      * destruct (sm_skip_rest_total (S (length rest)) rest Hsr) as (A' & B' & C').
        destruct (sm_skip_rest (S (length rest)) rest) as [u rest'| | |]; try (repeat split; congruence).
        -- specialize (C' _ _ eq_refl). repeat split; try discriminate; inversion H; subst; cbn [snd length] in *; [lia|exact He'].
        -- repeat split; try discriminate. exfalso. apply B'; [lia|reflexivity].
    + destruct (sm_skip_rest_total (S (length rest)) rest Hsr) as (A' & B' & C').
      destruct (sm_skip_rest (S (length rest)) rest) as [u rest'| | |]; try (repeat split; congruence).
      * specialize (C' _ _ eq_refl). repeat split; try discriminate; inversion H; subst; cbn [snd length] in *; [lia|exact He'].
      * repeat split; try discriminate. exfalso. apply B'; [lia|reflexivity].
Qed.

(* ---- the main loop: state invariant *)
Fixpoint stack_ok (s : list N) : Prop :=
  match s with
  | [] => True
  | n :: s' => hd 0 s' + 2 <= n /\ n <= 15 /\ stack_ok s'
  end.

Lemma stack_depth : forall s, stack_ok s -> 2 * N.of_nat (length s) <= hd 0 s.
Proof.
  induction s as [|n s IH]; intros H; cbn [length hd]; [lia|].
  destruct H as (H1 & H2 & H3). specialize (IH H3). lia.
Qed.

Lemma stack_top_le : forall s, stack_ok s -> hd 0 s <= 15.
Proof. destruct s as [|n s]; cbn [hd stack_ok]; [lia|tauto]. Qed.

(* the part of current_key below next_key spells the first next_key characters of a table key *)
Definition pref_ok (tbl : ktable) (nk : N) (b : bytes) : Prop :=
  nk = 0 \/ exists p idx k, nth_error tbl p = Some (idx, k) /\ firstn (N.to_nat nk) b = firstn (N.to_nat nk) k.

Definition inv (tbl : ktable) (st : smst) : Prop :=
  length (s_cur st) = 18%nat /\ stack_ok (s_stack st) /\
  (forall i, (i < N.to_nat (top_key st))%nat -> nth i (s_cur st) 0 <> 0) /\
  length (s_ents st) = length tbl /\ pref_ok tbl (top_key st) (s_cur st).

Lemma firstn_le_eq (a b : bytes) n m : firstn n a = firstn n b -> (m <= n)%nat -> firstn m a = firstn m b.
Proof.
  intros H Hm. rewrite <- (Nat.min_l m n Hm), <- !firstn_firstn, H. reflexivity.
Qed.

Lemma pref_ok_le tbl n m b : pref_ok tbl n b -> m <= n -> pref_ok tbl m b.
Proof.
  intros [->|(p & idx & k & E & F)] Hm; [left; lia|]. right. exists p, idx, k. split; [exact E|].
  eapply firstn_le_eq; [exact F|lia].
Qed.

Lemma pref_ok_buf tbl n b b' : pref_ok tbl n b -> firstn (N.to_nat n) b' = firstn (N.to_nat n) b -> pref_ok tbl n b'.
Proof.
  intros [->|(p & idx & k & E & F)] Hb; [left; reflexivity|]. right. exists p, idx, k. split; [exact E|congruence].
Qed.

Definition goodr (n : nat) (l : bytes) (fuel_ok : Prop) (R : res entries) : Prop :=
  R <> Fault /\ (fuel_ok -> R <> OutOfFuel) /\
  (forall e r, R = Ok e r -> (length r < length l)%nat /\ length e = n).

Lemma goodr_weaken n l l' (P P' : Prop) R :
  goodr n l' P' R -> (length l' <= length l)%nat -> (P -> P') -> goodr n l P R.
Proof.
  intros (A & B & C) Hl HP. split; [exact A|]. split; [intros p; apply B, HP, p|].
  intros e r H. destruct (C _ _ H). split; [lia|assumption].
Qed.

Lemma goodr_reject n l P : goodr n l P Reject.
Proof. repeat split; discriminate. Qed.

Lemma init_inv tbl e : length e = length tbl -> inv tbl (init_st e).
Proof.
  intros He. unfold inv, init_st, init_buf, top_key. cbn [s_cur s_stack s_ents hd stack_ok].
  rewrite repeat_length. split; [reflexivity|]. split; [exact I|]. split; [|split; [exact He|left; reflexivity]]. intros i Hi. cbn in Hi. lia.
Qed.

Lemma sm_loop_total tbl : table_ok tbl = true -> forall f st l,
  short l -> inv tbl st -> goodr (length tbl) l (length l + 1 <= f)%nat (sm_loop tbl f st l).
Proof.
  intros Ht. pose proof (table_ok_keys tbl Ht) as Hkeys.
  induction f as [|f IH]; intros st l Hs Hinv.
  { cbn. repeat split; try discriminate. lia. }
  cbn [sm_loop]. destruct l as [|c l']; [apply goodr_reject|].
  destruct Hinv as (Hlen & Hstk & Hnz & Hents & Hpref).
  assert (Hs' : short l') by (eapply short_suffix; [exact Hs|cbn [length]; lia]).
  destruct (c =? ch_e).
  { destruct (s_stack st) as [|n stk'] eqn:Estk.
    - repeat split; try discriminate; inversion H; subst; cbn [length]; [lia|exact Hents].
    - eapply goodr_weaken; [apply IH; [exact Hs'|]|cbn [length]; lia|cbn [length]; lia].
      unfold inv, top_key in *. cbn [s_cur s_stack s_ents]. rewrite Estk in *.
      cbn [stack_ok hd] in *. destruct Hstk as (H1 & H2 & H3).
      split; [exact Hlen|]. split; [exact H3|]. split; [intros i Hi; apply Hnz; lia|]. split; [exact Hents|].
      eapply pref_ok_le; [exact Hpref|lia]. }
  destruct (c_string_safe (c :: l') Hs) as (A0 & B0 & C0).
  destruct (c_string (c :: l')) as [rk rest| | |] eqn:Ecs; try congruence; [|apply goodr_reject].
  specialize (C0 _ _ eq_refl).
  assert (Hsr : short rest) by (eapply short_suffix; [exact Hs|lia]).
  pose proof (stack_top_le _ Hstk) as Htop. fold (top_key st) in Htop.
  set (nk := top_key st) in *. set (klen := N.of_nat (length rk)).
  (* a continuation after skipping the value: same stack / entries, any 18-byte buffer that keeps the prefix *)
  assert (Hskip : forall b, length b = 18%nat -> (forall i, (i < N.to_nat nk)%nat -> nth i b 0 <> 0) ->
            pref_ok tbl nk b ->
            goodr (length tbl) (c :: l') (length (c :: l') + 1 <= S f)%nat
              match skip_c rest with
              | Ok _ rest' => sm_loop tbl f (mkst (s_cursor st) (s_stack st) b (s_ents st)) rest'
              | Reject => Reject | Fault => Fault | OutOfFuel => OutOfFuel
              end).
  { intros b Hb Hbz Hbp. destruct (skip_c_total rest Hsr) as (A & B & C).
    destruct (skip_c rest) as [u rest'| | |]; try congruence; [|apply goodr_reject].
    specialize (C _ _ eq_refl).
    eapply goodr_weaken; [apply IH; [eapply short_suffix; [exact Hsr|lia]|]|lia|cbn [length] in *; lia].
    unfold inv, top_key. cbn [s_cur s_stack s_ents]. repeat split; assumption. }
  replace ((max_key + two64 - nk) mod two64) with (16 - nk)
    by (rewrite max_key_val; unfold two64; lia).
  destruct ((16 - nk <=? klen) || existsb is_not_key_char rk) eqn:Eskip.
  { destruct st as [cu sk cb en]. cbn [s_cursor s_stack s_cur s_ents] in *. apply (Hskip cb Hlen Hnz Hpref). }
  apply orb_false_iff in Eskip. destruct Eskip as [Hfit Hplain]. apply N.leb_gt in Hfit.
  assert (Hroom : (N.to_nat nk + length rk <= 15)%nat) by (unfold klen in Hfit; lia).
  destruct (buf_write_some rk (s_cur st) (N.to_nat nk)) as (b1 & -> & Lb1 & Hb1); [lia|].
  destruct (set_nth_some b1 (N.to_nat (nk + klen)) 0) as (b2 & -> & Lb2 & Hb2); [unfold klen; lia|].
  assert (Hz2 : nth (N.to_nat (nk + klen)) b2 0 = 0) by (rewrite Hb2, Nat.eqb_refl; reflexivity).
  destruct (c_strlen_exists b2 (N.to_nat (nk + klen))) as (len & Elen & Hlen2); [unfold klen; lia|exact Hz2|].
  rewrite Elen. destruct (c_strlen_spec b2 len Elen) as (Hl1 & Hl2 & Hl3).
  assert (Hnz2 : forall i, (i < N.to_nat nk)%nat -> nth i b2 0 <> 0).
  { intros i Hi. rewrite Hb2. destruct (Nat.eqb_spec i (N.to_nat (nk + klen))); [lia|].
    rewrite Hb1 by exact Hi. apply Hnz, Hi. }
  assert (Hpref2 : pref_ok tbl nk b2).
  { eapply pref_ok_buf; [exact Hpref|]. apply firstn_nth_ext; [lia|lia|].
    intros i Hi. rewrite Hb2. destruct (Nat.eqb_spec i (N.to_nat (nk + klen))); [lia|]. apply Hb1, Hi. }
  assert (Hge : (N.to_nat nk <= len)%nat).
  { destruct (Nat.le_gt_cases (N.to_nat nk) len) as [|Hlt]; [assumption|]. exfalso. apply (Hnz2 len Hlt), Hl2. }
  assert (Hcs : length (firstn len b2) = len) by (apply firstn_length_le; lia).
  destruct (find_key_spec (skipn (s_cursor st) tbl) (s_cursor st) (firstn len b2)) as [FA FB];
    [apply keys_ok_skipn, Hkeys|rewrite Hcs; unfold klen in *; lia|].
  destruct (find_key (skipn (s_cursor st) tbl) (s_cursor st) (firstn len b2)) as [| |pos base] eqn:Efk;
    [congruence|apply (Hskip b2); [lia|exact Hnz2|exact Hpref2]|].
  destruct (FB _ _ eq_refl) as (Hpos & Hbase & Hbnz & idx & k & Enth & Hterm & Hcb).
  rewrite Hcs in Hbase.
  rewrite nth_error_skipn in Enth. replace (s_cursor st + (pos - s_cursor st))%nat with pos in Enth by lia.
  rewrite Enth.
  destruct (table_ok_idx tbl Ht _ _ _ Enth) as [Hidx Hkok].
  assert (Hpos_lt : (pos < length tbl)%nat) by (apply nth_error_Some; congruence).
  destruct Hterm as (c0 & Ek0 & Hc0). rewrite Ek0.
  destruct Hc0 as [Hleaf | [[-> Ek1] | [-> Ek1]]].
  - (* leaf: plain or raw value *)
    assert (Eor : (c0 =? 0) || (c0 =? ch_star) = true)
      by (destruct Hleaf as [->| ->]; reflexivity).
    rewrite Eor.
    assert (Eraw : exists raw, (if c0 =? 0 then Some None
                   else match kat k (base + 1) with
                        | Some c1 => Some (Some (kind_of_char c1))
                        | None => None
                        end) = Some raw).
    { destruct Hleaf as [->| ->]; [eexists; reflexivity|].
      change (ch_star =? 0) with false. cbv iota.
      apply kat_inv in Ek0. destruct Ek0 as [_ Ek0].
      assert (nth (N.to_nat base) k 0 <> 0) by (rewrite <- Ek0; discriminate).
      apply nth_nonzero_lt in H. apply key_ok_len in Hkok.
      rewrite (kat_some k (base + 1)) by lia. eexists; reflexivity. }
    destruct Eraw as (raw & ->).
    destruct (read_value_total raw rest Hsr) as (A & B & C).
    destruct (read_value raw rest) as [o rest'| | |]; try congruence; [|apply goodr_reject].
    specialize (C _ _ eq_refl).
    destruct (store_total tbl (s_ents st) pos idx k o Ht Enth Hents) as (e' & -> & He').
    eapply goodr_weaken; [apply IH; [eapply short_suffix; [exact Hsr|lia]|]|lia|cbn [length] in *; lia].
    unfold inv, top_key. cbn [s_cur s_stack s_ents]. split; [lia|]. split; [exact Hstk|]. split; [exact Hnz2|]. split; [exact He'|exact Hpref2].
  - (* "::" : enter a nested dictionary *)
    change ((ch_colon =? 0) || (ch_colon =? ch_star)) with false. change (ch_colon =? ch_colon) with true. cbv iota.
    destruct rest as [|c1 rest1]; [apply goodr_reject|].
    destruct (c1 =? ch_d).
    + pose proof (sep_room k base ch_colon Hkok ltac:(discriminate) Ek0 Ek1) as Hsep.
      pose proof (stack_depth _ Hstk) as Hdep. fold (top_key st) in Hdep. fold nk in Hdep.
      rewrite sm_stack_size_val.
      destruct (N.leb_spec 8 (N.of_nat (length (s_stack st)) + 1)) as [Hbad|_]; [lia|].
      destruct (set_nth_some b2 (N.to_nat base) ch_colon) as (b3 & -> & Lb3 & Hb3); [lia|].
      destruct (set_nth_some b3 (N.to_nat (base + 1)) ch_colon) as (b4 & -> & Lb4 & Hb4); [lia|].
      eapply goodr_weaken; [apply IH; [eapply short_suffix; [exact Hsr|cbn [length]; lia]|]|cbn [length] in *; lia|cbn [length] in *; lia].
      unfold inv, top_key. cbn [s_cur s_stack s_ents hd stack_ok]. split; [lia|].
      split; [fold (top_key st); fold nk; repeat split; [lia|lia|exact Hstk]|].
      split; [|split; [exact Hents|]].
      { intros i Hi. rewrite Hb4, Hb3.
        destruct (Nat.eqb_spec i (N.to_nat (base + 1))); [discriminate|].
        destruct (Nat.eqb_spec i (N.to_nat base)); [discriminate|]. apply Hl3. lia. }
      right. exists pos, idx, k. split; [exact Enth|].
      apply kat_inv in Ek0, Ek1. destruct Ek0 as [_ Ek0]. destruct Ek1 as [_ Ek1].
      assert (Hlk : (N.to_nat (base + 2) <= length k)%nat).
      { assert (nth (N.to_nat (base + 1)) k 0 <> 0) by (rewrite <- Ek1; discriminate).
        apply nth_nonzero_lt in H. lia. }
      apply firstn_nth_ext; [lia|exact Hlk|].
      intros i Hi. rewrite Hb4, Hb3.
      destruct (Nat.eqb_spec i (N.to_nat (base + 1))) as [->|]; [exact Ek1|].
      destruct (Nat.eqb_spec i (N.to_nat base)) as [->|]; [exact Ek0|].
      assert (Hi' : (i < len)%nat) by lia.
      rewrite <- (nth_firstn_lt len b2 i 0 Hi'). rewrite <- (nth_pad_key k i) by lia.
      apply count_base_full; [rewrite Hcs; lia|rewrite Hcs; exact Hi'].
    + apply (Hskip b2); [lia|exact Hnz2|exact Hpref2].
  - (* "[]" : list elements into consecutive entries *)
    change ((ch_lbr =? 0) || (ch_lbr =? ch_star)) with false. change (ch_lbr =? ch_colon) with false.
    change (ch_lbr =? ch_lbr) with true. cbv iota.
    destruct rest as [|c1 rest1]; [apply goodr_reject|].
    destruct (c1 =? ch_l).
    + pose proof (sep_room k base ch_lbr Hkok ltac:(discriminate) Ek0) as Hsep.
      assert (Hsep' : base + 2 <= 15).
      { apply kat_inv in Ek1. destruct Ek1 as [H16 Ek1].
        assert (nth (N.to_nat (base + 1)) k 0 <> 0) by (rewrite <- Ek1; discriminate).
        apply nth_nonzero_lt in H. apply key_ok_len in Hkok. lia. }
      assert (Hsr1 : short rest1) by (eapply short_suffix; [exact Hsr|cbn [length]; lia]).
      destruct (sm_list_total tbl Ht (S (length rest1)) pos k base (s_ents st) rest1 Hsr1 ltac:(lia) Hpos_lt Hents) as (A & B & C).
      destruct (sm_list tbl (S (length rest1)) pos k base (s_ents st) rest1) as [[fk' e'] rest'| | |];
        try congruence; [|apply goodr_reject|exfalso; apply B; [lia|reflexivity]].
      destruct (C _ _ eq_refl) as [C1 C2]. cbn [snd] in C2.
      eapply goodr_weaken; [apply IH; [eapply short_suffix; [exact Hsr1|lia]|]|cbn [length] in *; lia|cbn [length] in *; lia].
      unfold inv, top_key. cbn [s_cur s_stack s_ents]. split; [lia|]. split; [exact Hstk|]. split; [exact Hnz2|]. split; [exact C2|exact Hpref2].
    + apply (Hskip b2); [lia|exact Hnz2|exact Hpref2].
Qed.

(* static_map_read_bencode_c on a map of the table's size *)
Theorem sm_read_into_total tbl e l : table_ok tbl = true -> short l -> length e = length tbl ->
  sm_read_into tbl e l <> Fault /\ sm_read_into tbl e l <> OutOfFuel /\
  (forall e' r, sm_read_into tbl e l = Ok e' r -> (length r < length l)%nat /\ length e' = length tbl).
Proof.
  intros Ht Hs He. unfold sm_read_into. destruct l as [|c l']; [repeat split; discriminate|].
  destruct (c =? ch_d); [|repeat split; discriminate].
  destruct (sm_loop_total tbl Ht (S (length l')) (init_st e) l') as (A & B & C);
    [eapply short_suffix; [exact Hs|cbn [length]; lia]|apply init_inv, He|].
  split; [exact A|]. split; [apply B; lia|]. intros e' r H. destruct (C _ _ H). cbn [length]. split; [lia|assumption].
Qed.

Theorem static_map_total tbl l : table_ok tbl = true -> short l ->
  sm_read tbl l <> Fault /\ sm_read tbl l <> OutOfFuel /\
  (forall e r, sm_read tbl l = Ok e r -> (length r < length l)%nat /\ length e = length tbl).
Proof.
  intros Ht Hs. apply sm_read_into_total; [exact Ht|exact Hs|]. unfold empty_entries. apply repeat_length.
Qed.

(* ---- key exactness (after fix a215a35). `inv` holds for the initial state and is re-established at
   every recursive call in the proof of sm_loop_total, i.e. at every iteration of every run. In any
   such state, when the lookup of an input key rk succeeds at table row (idx, k) with terminator
   position base, then rk is byte for byte the component k[next_key .. base) of the table key, the
   terminator follows it directly (no truncation: base = next_key + |rk|), and the part of the buffer
   below next_key is k's own prefix (and, by pref_ok, the "::"-terminated prefix of the row matched
   when the enclosing dictionary was entered). *)
Theorem static_map_key_exact tbl st rk b1 b2 len pos base :
  table_ok tbl = true -> inv tbl st ->
  N.of_nat (length rk) < 16 - top_key st -> existsb is_not_key_char rk = false ->
  buf_write (s_cur st) (N.to_nat (top_key st)) rk = Some b1 ->
  set_nth b1 (N.to_nat (top_key st + N.of_nat (length rk))) 0 = Some b2 ->
  c_strlen b2 = Some len ->
  find_key (skipn (s_cursor st) tbl) (s_cursor st) (firstn len b2) = FkSome pos base ->
  exists idx k, nth_error tbl pos = Some (idx, k) /\ is_term k base /\
    base = top_key st + N.of_nat (length rk) /\
    (forall j, (j < length rk)%nat -> nth (N.to_nat (top_key st) + j) k 0 = nth j rk 0) /\
    (forall j, (j < N.to_nat (top_key st))%nat -> nth j k 0 = nth j (s_cur st) 0).
Proof.
  intros Ht (Hlen & Hstk & Hnz & Hents & Hpref) Hfit Hplain E1 E2 E3 E4.
  pose proof (stack_top_le _ Hstk) as Htop. fold (top_key st) in Htop.
  set (nk := top_key st) in *.
  destruct (buf_write_inv _ _ _ _ E1) as (L1 & P1). pose proof (buf_write_content _ _ _ _ E1) as C1.
  destruct (set_nth_inv _ _ _ _ E2) as (_ & L2 & N2).
  destruct (c_strlen_spec _ _ E3) as (S1 & S2 & S3).
  assert (Hlenv : len = (N.to_nat nk + length rk)%nat).
  { destruct (Nat.lt_trichotomy len (N.to_nat nk + length rk)) as [Hlt|[Heq|Hgt]]; [exfalso|exact Heq|exfalso].
    - rewrite N2 in S2. destruct (Nat.eqb_spec len (N.to_nat (nk + N.of_nat (length rk)))); [lia|].
      destruct (Nat.lt_ge_cases len (N.to_nat nk)) as [Hl|Hg].
      + rewrite P1 in S2 by exact Hl. apply (Hnz len Hl S2).
      + replace len with (N.to_nat nk + (len - N.to_nat nk))%nat in S2 by lia.
        rewrite C1 in S2 by lia. destruct (not_key_char_nonzero rk Hplain (len - N.to_nat nk)%nat) as [Hz _]; [lia|]. apply Hz, S2.
    - apply (S3 (N.to_nat nk + length rk)%nat Hgt). rewrite N2.
      replace (N.to_nat (nk + N.of_nat (length rk))) with (N.to_nat nk + length rk)%nat by lia.
      rewrite Nat.eqb_refl. reflexivity. }
  assert (Hcs : length (firstn len b2) = len) by (apply firstn_length_le; lia).
  destruct (find_key_spec (skipn (s_cursor st) tbl) (s_cursor st) (firstn len b2)) as [_ FB];
    [apply keys_ok_skipn, table_ok_keys, Ht|rewrite Hcs; lia|].
  destruct (FB _ _ E4) as (Hpos & Hbase & _ & idx & k & Enth & Hterm & Hcb).
  rewrite Hcs in Hbase.
  rewrite nth_error_skipn in Enth. replace (s_cursor st + (pos - s_cursor st))%nat with pos in Enth by lia.
  exists idx, k. split; [exact Enth|]. split; [exact Hterm|]. split; [lia|].
  assert (Hk : forall j, (j < len)%nat -> nth j k 0 = nth j b2 0).
  { intros j Hj. rewrite <- (nth_pad_key k j) by lia. rewrite <- (nth_firstn_lt len b2 j 0 Hj).
    symmetry. apply count_base_full; [rewrite Hcs; lia|rewrite Hcs; exact Hj]. }
  split.
  - intros j Hj. rewrite Hk by lia. rewrite N2.
    destruct (Nat.eqb_spec (N.to_nat nk + j) (N.to_nat (nk + N.of_nat (length rk)))); [lia|]. apply C1, Hj.
  - intros j Hj. rewrite Hk by lia. rewrite N2.
    destruct (Nat.eqb_spec j (N.to_nat (nk + N.of_nat (length rk)))); [lia|]. apply P1, Hj.
Qed.
