(* Stream reader round trip (full): same statement as enc_dec_c for decode_stream, for trees whose
   strings and keys do not exceed the stream reader's 32 MiB cap. *)
From Coq Require Import List NArith ZArith Bool Lia ZifyBool ZifyNat ZifyN.
Ltac Zify.zify_post_hook ::= Z.to_euclidean_division_equations.
From LTV Require Import Common.Bytes.
From LTV.C07 Require Import ParamsGen Model Proofs ProofsDec ProofsSafe ProofsRT ProofsFaith ProofsAgree.
Import ListNotations.
Local Open Scope N_scope.

Lemma string_limit_val : string_limit_stream = 33554432.
Proof. reflexivity. Qed.

Lemma s_value_enc z rest :
  in_int64 z = true -> nondigit_head rest -> stream_int64 (enc_int z ++ rest) = Some (z, rest).
Proof. intros Hz Hr. apply stream_int64_of_c, c_value_enc; assumption. Qed.

Lemma s_string_enc s rest :
  N.of_nat (length s) <= string_limit_stream ->
  N.of_nat (length (enc_str s ++ rest)) < two31 ->
  stream_string (enc_str s ++ rest) = Some (s, rest).
Proof.
  intros Hl Hs. rewrite string_limit_val in Hl.
  assert (Hc : c_string (enc_str s ++ rest) = Ok s rest).
  { apply c_string_enc; unfold two31, two32 in *; lia. }
  pose proof Hc as Hc'. apply stream_string_of_c in Hc'; [|exact Hs].
  destruct Hc' as [H|H]; [exact H|exfalso].
  (* None only through the cap *)
  apply c_string_spec in Hc; [|exact Hs]. destruct Hc as (ds & (Hne & Hds & Hv) & E).
  unfold stream_string, stream_uint32 in H. rewrite E in H.
  destruct ds as [|c ds]; [congruence|]. inversion Hds as [|? ? Hcd _]; subst.
  destruct (digit_not_space c Hcd) as (S1 & S2 & S3).
  cbn [app] in H. rewrite skip_ws_nonspace in H by exact S1. rewrite S2, S3 in H.
  change (c :: ds ++ ch_colon :: s ++ rest) with ((c :: ds) ++ ch_colon :: s ++ rest) in H.
  rewrite num_digits_run in H; [|exact Hds|unfold two32; rewrite Hv; lia|reflexivity].
  cbn [orb negb] in H. change (ch_colon =? ch_colon) with true in H. cbn [negb] in H. rewrite Hv in H.
  rewrite string_limit_val in H.
  destruct (N.ltb_spec 33554432 (N.of_nat (length s))) as [|_]; [lia|].
  rewrite app_length in H.
  destruct (N.ltb_spec (N.of_nat (length s + length rest)) (N.of_nat (length s))) as [|_]; [lia|discriminate].
Qed.

(* strings and keys within the stream cap *)
Fixpoint sok (v : value) : Prop :=
  match v with
  | VInt _ => True
  | VStr s => N.of_nat (length s) <= string_limit_stream
  | VList l => (fix go (l : list value) : Prop := match l with [] => True | x :: xs => sok x /\ go xs end) l
  | VMap m => (fix go (m : list (bytes * value)) : Prop :=
                 match m with [] => True | kv :: xs => (N.of_nat (length (fst kv)) <= string_limit_stream /\ sok (snd kv)) /\ go xs end) m
  end.
Fixpoint sok_list (l : list value) : Prop := match l with [] => True | x :: xs => sok x /\ sok_list xs end.
Fixpoint sok_entries (m : list (bytes * value)) : Prop :=
  match m with [] => True | kv :: xs => (N.of_nat (length (fst kv)) <= string_limit_stream /\ sok (snd kv)) /\ sok_entries xs end.
Lemma sok_list_eq l : (fix go (l : list value) : Prop := match l with [] => True | x :: xs => sok x /\ go xs end) l = sok_list l.
Proof. induction l as [|x xs IH]; cbn; [reflexivity|]. rewrite IH. reflexivity. Qed.
Lemma sok_entries_eq m :
  (fix go (m : list (bytes * value)) : Prop :=
     match m with [] => True | kv :: xs => (N.of_nat (length (fst kv)) <= string_limit_stream /\ sok (snd kv)) /\ go xs end) m = sok_entries m.
Proof. induction m as [|x xs IH]; cbn; [reflexivity|]. rewrite IH. reflexivity. Qed.

Definition RTS (v : value) : Prop :=
  forall f d r, wf v -> sok v -> (fuel_need v <= f)%nat -> d + height v < depth_limit_stream ->
    N.of_nat (length (enc v ++ r)) < two31 ->
    dec_s f d (enc v ++ r) = Ok (v, false) r.

Lemma items_rts : forall vs, Forall RTS vs -> forall f d r acc fl,
  wf_list vs -> sok_list vs -> (items_fuel vs <= f)%nat -> d + items_height vs < depth_limit_stream ->
  N.of_nat (length (flat_map enc vs ++ ch_e :: r)) < two31 ->
  items_s f d (flat_map enc vs ++ ch_e :: r) acc fl = Ok (VList (rev acc ++ vs), fl) r.
Proof.
  induction vs as [|v vs IH]; intros HRT f d r acc fl Hwf Hsok Hf Hh Hs.
  - cbn [flat_map app]. destruct f as [|f]; [cbn in Hf; lia|]. cbn [items_s].
    change (ch_e =? ch_e) with true. cbn iota. rewrite app_nil_r. reflexivity.
  - inversion HRT as [|? ? Hv Hvs]; subst. destruct Hwf as [Hwv Hwvs]. destruct Hsok as [Hsv Hsvs].
    cbn [items_fuel fold_right] in Hf. fold (items_fuel vs) in Hf.
    cbn [items_height fold_right] in Hh. fold (items_height vs) in Hh.
    destruct f as [|f]; [lia|]. cbn [flat_map] in *. rewrite <- app_assoc in *.
    destruct (enc_head v) as (c & tl & E & Hce).
    cbn [items_s]. rewrite E at 1. cbn [app]. rewrite Hce.
    rewrite Hv; [| exact Hwv | exact Hsv | lia | lia | exact Hs ].
    rewrite orb_false_r.
    rewrite IH; [| exact Hvs | exact Hwvs | exact Hsvs | lia | lia | ].
    + cbn [rev]. rewrite <- app_assoc. reflexivity.
    + rewrite app_length in Hs. lia.
Qed.

Lemma entries_rts : forall ms, Forall (fun kv => RTS (snd kv)) ms -> forall f d r m prev prevopt fl,
  wf_entries ms -> sok_entries ms -> (entries_fuel ms <= f)%nat -> d + entries_height ms < depth_limit_stream ->
  N.of_nat (length (enc_entries ms ++ ch_e :: r)) < two31 ->
  match m with [] => prevopt = None | _ => prevopt = Some prev end ->
  Forall (fun kv => fst kv = prev \/ bytes_ltb (fst kv) prev = true) m ->
  keys_sorted prevopt ms = true ->
  entries_s f d (enc_entries ms ++ ch_e :: r) m prev fl = Ok (VMap (m ++ ms), fl) r.
Proof.
  induction ms as [|[k v] ms IH]; intros HRT f d r m prev prevopt fl Hwf Hsok Hf Hh Hs Hpo Hinv Hsorted.
  - cbn [enc_entries flat_map app]. destruct f as [|f]; [cbn in Hf; lia|]. cbn [entries_s].
    change (ch_e =? ch_e) with true. cbn iota. rewrite app_nil_r. reflexivity.
  - inversion HRT as [|? ? Hv Hvs]; subst. cbn [snd] in Hv. destruct Hwf as [[Hwk Hwv] Hwvs].
    destruct Hsok as [[Hsk Hsv] Hsvs]. cbn [fst snd] in *.
    cbn [entries_fuel fold_right snd] in Hf. fold (entries_fuel ms) in Hf.
    cbn [entries_height fold_right snd] in Hh. fold (entries_height ms) in Hh.
    cbn [keys_sorted] in Hsorted. apply andb_true_iff in Hsorted. destruct Hsorted as [Hpk Hsorted].
    destruct f as [|f]; [lia|].
    unfold enc_entries in *. cbn [flat_map fst snd] in *. rewrite <- !app_assoc in *.
    destruct (enc_str_head k) as (c & tl & E & Hc).
    cbn [entries_s]. rewrite E at 1. cbn [app].
    destruct (digit_not_tag c Hc) as (_ & _ & _ & Hce). rewrite Hce.
    rewrite s_string_enc; [| exact Hsk | exact Hs].
    rewrite Hv; [| exact Hwv | exact Hsv | lia | lia | rewrite app_length in Hs; lia ].
    assert (Hflag : bytes_leb k prev && negb (map_is_empty m) = false).
    { destruct m as [|kv0 m0]; [cbn; apply andb_false_r|].
      subst prevopt. unfold bytes_leb. rewrite Hpk. reflexivity. }
    rewrite Hflag, !orb_false_r.
    assert (Hlt : Forall (fun kv => bytes_ltb (fst kv) k = true) m).
    { destruct m as [|kv0 m0]; [constructor|]. subst prevopt.
      eapply Forall_impl; [|exact Hinv]. intros kv [->|Hlt]; [exact Hpk|].
      eapply bytes_ltb_trans; eassumption. }
    rewrite map_insert_append by exact Hlt.
    rewrite (IH Hvs f d r (m ++ [(k, v)]) k (Some k) fl); try assumption; try lia.
    + rewrite <- app_assoc. reflexivity.
    + rewrite !app_length in Hs. rewrite app_length. lia.
    + destruct m; reflexivity.
    + apply Forall_app. split.
      * eapply Forall_impl; [|exact Hlt]. intros kv H; right; exact H.
      * constructor; [left; reflexivity|constructor].
Qed.

Lemma roundtrip_s_all : forall v, RTS v.
Proof.
  apply value_ind2.
  - intros z f d r Hwf _ Hf _ Hs. cbn [wf] in Hwf. cbn [fuel_need] in Hf.
    destruct f as [|f]; [lia|]. cbn [enc app dec_s]. change (ch_i =? ch_i) with true. cbn iota.
    rewrite <- app_assoc. rewrite s_value_enc; [|exact Hwf|cbn; reflexivity].
    cbn [app]. change (ch_e =? ch_e) with true. reflexivity.
  - intros s f d r Hwf Hsok Hf _ Hs. cbn [wf] in Hwf. cbn [sok] in Hsok. cbn [fuel_need] in Hf.
    destruct f as [|f]; [lia|]. cbn [enc] in *.
    destruct (enc_str_head s) as (c & tl & E & Hc).
    cbn [dec_s]. rewrite E at 1. cbn [app].
    destruct (digit_not_tag c Hc) as (H1 & H2 & H3 & _). rewrite H1, H2, H3, Hc.
    rewrite s_string_enc; [reflexivity|exact Hsok|exact Hs].
  - intros l HRT f d r Hwf Hsok Hf Hh Hs. cbn [wf] in Hwf. rewrite wf_list_eq in Hwf.
    cbn [sok] in Hsok. rewrite sok_list_eq in Hsok.
    cbn [fuel_need] in Hf. fold (items_fuel l) in Hf. cbn [height] in Hh. fold (items_height l) in Hh.
    destruct f as [|f]; [lia|]. cbn [enc app dec_s] in *.
    change (ch_l =? ch_i) with false. change (ch_l =? ch_l) with true. cbn iota.
    destruct (N.leb_spec depth_limit_stream (d + 1)) as [|_]; [lia|].
    rewrite <- app_assoc. cbn [app].
    rewrite items_rts; try assumption; try lia; [reflexivity|].
    rewrite <- app_assoc in Hs. cbn [app length] in Hs. lia.
  - intros m HRT f d r Hwf Hsok Hf Hh Hs. cbn [wf] in Hwf. destruct Hwf as [Hsorted Hwf]. rewrite wf_entries_eq in Hwf.
    cbn [sok] in Hsok. rewrite sok_entries_eq in Hsok.
    cbn [fuel_need] in Hf. fold (entries_fuel m) in Hf. cbn [height] in Hh. fold (entries_height m) in Hh.
    destruct f as [|f]; [lia|]. cbn [enc app dec_s] in *.
    change (ch_d =? ch_i) with false. change (ch_d =? ch_l) with false. change (ch_d =? ch_d) with true. cbn iota.
    destruct (N.leb_spec depth_limit_stream (d + 1)) as [|_]; [lia|].
    rewrite <- app_assoc. cbn [app]. fold (enc_entries m).
    rewrite (entries_rts m HRT f (d + 1) r [] [] None false); try assumption; try lia; try reflexivity; [|constructor].
    fold (enc_entries m) in Hs. rewrite <- app_assoc in Hs. cbn [app length] in Hs. lia.
Qed.

Theorem enc_dec_stream : forall v r,
  wf v -> sok v -> height v < depth_limit_stream -> N.of_nat (length (enc v ++ r)) < two31 ->
  decode_stream (enc v ++ r) = Ok (v, false) r.
Proof.
  intros v r Hwf Hsok Hh Hs. unfold decode_stream. apply roundtrip_s_all; try assumption.
  pose proof (fuel_need_le_enc v). rewrite app_length. lia.
Qed.
