(* Totality and in-range reads: no decoder returns Fault or runs out of the fuel given by the
   top-level definitions, on any input shorter than 2^32 bytes. *)
From Coq Require Import List NArith ZArith Bool Lia ZifyBool ZifyNat ZifyN.
Ltac Zify.zify_post_hook ::= Z.div_mod_to_equations.
From LTV Require Import Common.Bytes.
From LTV.C07 Require Import Model.
Import ListNotations.
Local Open Scope N_scope.

Lemma c_len_digits_len : forall l len hd n r,
  c_len_digits l len hd = Some (n, r) -> (length r <= length l)%nat.
Proof.
  induction l as [|c l IH]; intros len hd n r H; cbn [c_len_digits] in H.
  - inversion H; subst; auto.
  - destruct (is_digit c).
    + destruct (hd && _); [discriminate|]. apply IH in H. cbn [length]. lia.
    + inversion H; subst. auto.
Qed.

Lemma c_len_digits_range : forall l len hd n r,
  len < two32 -> c_len_digits l len hd = Some (n, r) -> n < two32.
Proof.
  induction l as [|c l IH]; intros len hd n r Hl H; cbn [c_len_digits] in H.
  - inversion H; subst; auto.
  - destruct (is_digit c).
    + destruct (hd && _); [discriminate|]. eapply IH; [|exact H]. unfold two32. lia.
    + inversion H; subst. auto.
Qed.

Definition short (l : bytes) : Prop := N.of_nat (length l) < two32.

Lemma c_string_safe l : short l ->
  c_string l <> Fault /\ c_string l <> OutOfFuel /\
  (forall s r, c_string l = Ok s r -> (length r < length l)%nat).
Proof.
  intros Hs. unfold c_string.
  destruct (c_len_digits l two31 false) as [[len l1]|] eqn:E; [|repeat split; discriminate].
  pose proof (c_len_digits_len _ _ _ _ _ E) as Hlen.
  assert (Hr : len < two32) by (eapply c_len_digits_range; [|exact E]; unfold two31, two32; lia).
  unfold short in Hs.
  assert (Hd : N.of_nat (length l1) mod two32 = N.of_nat (length l1)) by (apply N.mod_small; lia).
  rewrite Hd.
  destruct ((N.of_nat (length l1) <? (len + 1) mod two32) || ((len + 1) mod two32 =? 0)) eqn:C;
    [repeat split; discriminate|].
  apply orb_false_iff in C. destruct C as [C1 C2].
  apply N.ltb_ge in C1. apply N.eqb_neq in C2.
  assert (Hlen1 : (len + 1) mod two32 = len + 1).
  { unfold two32 in *. destruct (N.eq_dec len 4294967295) as [->|]; [exfalso; apply C2; reflexivity|].
    apply N.mod_small. lia. }
  rewrite Hlen1 in C1.
  destruct l1 as [|c l2]; [cbn [length] in C1; lia|].
  destruct (c =? ch_colon); [|repeat split; discriminate].
  cbn [length] in C1.
  destruct (N.of_nat (length l2) <? len) eqn:C3; [apply N.ltb_lt in C3; lia|].
  repeat split; try discriminate.
  intros s r H. inversion H; subst. rewrite skipn_length. cbn [length] in Hlen. lia.
Qed.

Lemma c_digits_pos_len : forall l acc z r, c_digits_pos l acc = Some (z, r) -> (length r <= length l)%nat.
Proof.
  induction l as [|c l IH]; intros acc z r H; cbn [c_digits_pos] in H.
  - inversion H; subst; auto.
  - destruct (is_digit c).
    + destruct (_ >? _)%Z; [discriminate|]. apply IH in H. cbn [length]. lia.
    + inversion H; subst; auto.
Qed.

Lemma c_digits_neg_len : forall l acc z r, c_digits_neg l acc = Some (z, r) -> (length r <= length l)%nat.
Proof.
  induction l as [|c l IH]; intros acc z r H; cbn [c_digits_neg] in H.
  - inversion H; subst; auto.
  - destruct (is_digit c).
    + destruct (_ <? _)%Z; [discriminate|]. apply IH in H. cbn [length]. lia.
    + inversion H; subst; auto.
Qed.

Lemma c_value_len l z r : c_value l = Some (z, r) -> (length r <= length l)%nat.
Proof.
  unfold c_value. destruct l as [|c l']; [discriminate|].
  destruct (c =? ch_minus).
  - destruct l' as [|c1 l'']; [discriminate|]. destruct (_ || _); [discriminate|].
    intros H. apply c_digits_neg_len in H. cbn [length] in *. lia.
  - destruct (is_digit c); [|discriminate]. apply c_digits_pos_len.
Qed.

Lemma short_suffix l r : short l -> (length r <= length l)%nat -> short r.
Proof. unfold short. lia. Qed.

Definition good (l : bytes) (fuel_ok : Prop) (R : res (value * bool)) : Prop :=
  R <> Fault /\ (fuel_ok -> R <> OutOfFuel) /\ (forall x r, R = Ok x r -> (length r < length l)%nat).

Lemma dec_c_safe : forall f,
  (forall d l, short l -> good l (2 * length l + 1 <= f)%nat (dec_c f d l)) /\
  (forall d l acc fl, short l -> good l (2 * length l + 2 <= f)%nat (items_c f d l acc fl)) /\
  (forall d l m prev fl, short l -> good l (2 * length l + 2 <= f)%nat (entries_c f d l m prev fl)).
Proof.
  induction f as [|f (IHd & IHi & IHe)].
  - repeat split; cbn; try discriminate; lia.
  - split; [|split].
    + intros d l Hs. cbn [dec_c]. destruct l as [|c l']; [repeat split; discriminate|].
      destruct (c =? ch_i).
      { destruct (c_value l') as [[z [|e rest]]|] eqn:E; try (repeat split; discriminate).
        destruct (e =? ch_e); [|repeat split; discriminate].
        repeat split; try discriminate. intros x r H; inversion H; subst.
        apply c_value_len in E. cbn [length] in *. lia. }
      destruct (c =? ch_l).
      { destruct (_ <=? _); [repeat split; discriminate|].
        destruct (IHi (d + 1) l' [] false) as (A & B & C); [eapply short_suffix; [exact Hs|cbn [length]; lia]|].
        repeat split; [exact A| intros Hf; apply B; cbn [length] in Hf; lia |].
        intros x r H. apply C in H. cbn [length]. lia. }
      destruct (c =? ch_d).
      { destruct (_ <=? _); [repeat split; discriminate|].
        destruct (IHe (d + 1) l' [] [] false) as (A & B & C); [eapply short_suffix; [exact Hs|cbn [length]; lia]|].
        repeat split; [exact A| intros Hf; apply B; cbn [length] in Hf; lia |].
        intros x r H. apply C in H. cbn [length]. lia. }
      destruct (is_digit c); [|repeat split; discriminate].
      destruct (c_string_safe (c :: l') Hs) as (A & B & C).
      destruct (c_string (c :: l')) as [s rest| | |] eqn:E; try (repeat split; congruence).
      repeat split; try discriminate. intros x r H; inversion H; subst. eapply C; reflexivity.
    + intros d l acc fl Hs. cbn [items_c]. destruct l as [|c l']; [repeat split; discriminate|].
      destruct (c =? ch_e).
      { repeat split; try discriminate. intros x r H; inversion H; subst. cbn [length]; lia. }
      destruct (IHd d (c :: l') Hs) as (A & B & C).
      destruct (dec_c f d (c :: l')) as [[v uf] rest| | |] eqn:E.
      * specialize (C _ _ eq_refl).
        destruct (IHi d rest (v :: acc) (fl || uf)) as (A' & B' & C'); [eapply short_suffix; [exact Hs|lia]|].
        repeat split; [exact A'| intros Hf; apply B'; lia |].
        intros x r H. apply C' in H. lia.
      * repeat split; discriminate.
      * exfalso; apply A; reflexivity.
      * repeat split; try discriminate. intros Hf. exfalso. apply B; [lia|reflexivity].
    + intros d l m prev fl Hs. cbn [entries_c]. destruct l as [|c l']; [repeat split; discriminate|].
      destruct (c =? ch_e).
      { repeat split; try discriminate. intros x r H; inversion H; subst. cbn [length]; lia. }
      destruct (c_string_safe (c :: l') Hs) as (A0 & B0 & C0).
      destruct (c_string (c :: l')) as [k rest| | |] eqn:E0; try (repeat split; congruence).
      specialize (C0 _ _ eq_refl).
      assert (Hs1 : short rest) by (eapply short_suffix; [exact Hs|lia]).
      destruct (IHd d rest Hs1) as (A & B & C).
      destruct (dec_c f d rest) as [[v uf] rest'| | |] eqn:E.
      * specialize (C _ _ eq_refl).
        destruct (IHe d rest' (map_insert k v m) k (fl || bytes_leb k prev && negb (map_is_empty m) || uf)) as (A' & B' & C');
          [eapply short_suffix; [exact Hs|lia]|].
        repeat split; [exact A'| intros Hf; apply B'; lia |].
        intros x r H. apply C' in H. lia.
      * repeat split; discriminate.
      * exfalso; apply A; reflexivity.
      * repeat split; try discriminate. intros Hf. exfalso. apply B; [lia|reflexivity].
Qed.

Theorem decode_c_total l : short l ->
  decode_c l <> Fault /\ decode_c l <> OutOfFuel /\
  (forall x r, decode_c l = Ok x r -> (length r < length l)%nat).
Proof.
  intros Hs. unfold decode_c.
  destruct (proj1 (dec_c_safe (2 * length l + 2)) 0 l Hs) as (A & B & C).
  repeat split; [exact A | apply B; lia | exact C].
Qed.

(* ---- stream reader: never Fault by construction; fuel sufficient *)

Lemma skip_ws_len l : (length (skip_ws l) <= length l)%nat.
Proof. induction l as [|c l IH]; cbn [skip_ws]; [lia|]. destruct (is_space c); cbn [length]; lia. Qed.

Lemma num_digits_len : forall l max acc ovf any mag ovf' any' r,
  num_digits l max acc ovf any = (mag, ovf', any', r) ->
  (length r <= length l)%nat /\ (any' = true -> any = false -> length r < length l)%nat.
Proof.
  induction l as [|c l IH]; intros max acc ovf any mag ovf' any' r H; cbn [num_digits] in H.
  - inversion H; subst. split; [cbn; lia|]. intros; congruence.
  - destruct (is_digit c).
    + apply IH in H. cbn [length]. destruct H. split; lia.
    + inversion H; subst. split; [lia|]. intros; congruence.
Qed.

Lemma stream_sign_len l0 neg l1 :
  match l0 with
  | c :: l' => if c =? ch_minus then (true, l') else if c =? ch_plus then (false, l') else (false, l0)
  | [] => (false, l0)
  end = (neg, l1) -> (length l1 <= length l0)%nat.
Proof.
  destruct l0 as [|c l']; [intros H; inversion H; subst; lia|].
  destruct (c =? ch_minus); [intros H; inversion H; subst; cbn; lia|].
  destruct (c =? ch_plus); intros H; inversion H; subst; cbn; lia.
Qed.

Lemma stream_uint32_len l n r : stream_uint32 l = Some (n, r) -> (length r < length l)%nat.
Proof.
  unfold stream_uint32.
  destruct (match skip_ws l with [] => _ | _ => _ end) as [neg l1] eqn:E1.
  destruct (num_digits l1 (two32 - 1) 0 false false) as [[[mag ovf] any] rest] eqn:E2.
  destruct (negb any || ovf) eqn:E3; [discriminate|].
  intros H; inversion H; subst.
  apply stream_sign_len in E1. pose proof (skip_ws_len l).
  apply num_digits_len in E2. destruct E2 as [_ E2].
  apply orb_false_iff in E3. destruct E3 as [E3 _]. apply negb_false_iff in E3.
  specialize (E2 E3 eq_refl). lia.
Qed.

Lemma stream_int64_len l z r : stream_int64 l = Some (z, r) -> (length r < length l)%nat.
Proof.
  unfold stream_int64.
  destruct (match skip_ws l with [] => _ | _ => _ end) as [neg l1] eqn:E1.
  destruct (num_digits l1 _ 0 false false) as [[[mag ovf] any] rest] eqn:E2.
  destruct (negb any || ovf) eqn:E3; [discriminate|].
  intros H; inversion H; subst.
  apply stream_sign_len in E1. pose proof (skip_ws_len l).
  apply num_digits_len in E2. destruct E2 as [_ E2].
  apply orb_false_iff in E3. destruct E3 as [E3 _]. apply negb_false_iff in E3.
  specialize (E2 E3 eq_refl). lia.
Qed.

Lemma stream_string_len l s r : stream_string l = Some (s, r) -> (length r < length l)%nat.
Proof.
  unfold stream_string.
  destruct (stream_uint32 l) as [[n [|c rest]]|] eqn:E; try discriminate.
  destruct (negb (c =? ch_colon)); [discriminate|].
  destruct (_ <? n); [discriminate|]. destruct (_ <? n); [discriminate|].
  intros H; inversion H; subst. apply stream_uint32_len in E. rewrite skipn_length. cbn [length] in E. lia.
Qed.

Lemma dec_s_safe : forall f,
  (forall d l, good l (2 * length l + 1 <= f)%nat (dec_s f d l)) /\
  (forall d l acc fl, good l (2 * length l + 2 <= f)%nat (items_s f d l acc fl)) /\
  (forall d l m prev fl, good l (2 * length l + 2 <= f)%nat (entries_s f d l m prev fl)).
Proof.
  induction f as [|f (IHd & IHi & IHe)].
  - repeat split; cbn; try discriminate; lia.
  - split; [|split].
    + intros d l. cbn [dec_s]. destruct l as [|c l']; [repeat split; discriminate|].
      destruct (c =? ch_i).
      { destruct (stream_int64 l') as [[z [|e rest]]|] eqn:E; try (repeat split; discriminate).
        destruct (e =? ch_e); [|repeat split; discriminate].
        repeat split; try discriminate. intros x r H; inversion H; subst.
        apply stream_int64_len in E. cbn [length] in *. lia. }
      destruct (c =? ch_l).
      { destruct (_ <=? _); [repeat split; discriminate|].
        destruct (IHi (d + 1) l' [] false) as (A & B & C).
        repeat split; [exact A| intros Hf; apply B; cbn [length] in Hf; lia |].
        intros x r H. apply C in H. cbn [length]. lia. }
      destruct (c =? ch_d).
      { destruct (_ <=? _); [repeat split; discriminate|].
        destruct (IHe (d + 1) l' [] [] false) as (A & B & C).
        repeat split; [exact A| intros Hf; apply B; cbn [length] in Hf; lia |].
        intros x r H. apply C in H. cbn [length]. lia. }
      destruct (is_digit c); [|repeat split; discriminate].
      destruct (stream_string (c :: l')) as [[s rest]|] eqn:E; [|repeat split; discriminate].
      repeat split; try discriminate. intros x r H; inversion H; subst. eapply stream_string_len; exact E.
    + intros d l acc fl. cbn [items_s]. destruct l as [|c l']; [repeat split; discriminate|].
      destruct (c =? ch_e).
      { repeat split; try discriminate. intros x r H; inversion H; subst. cbn [length]; lia. }
      destruct (IHd d (c :: l')) as (A & B & C).
      destruct (dec_s f d (c :: l')) as [[v uf] rest| | |] eqn:E.
      * specialize (C _ _ eq_refl).
        destruct (IHi d rest (v :: acc) (fl || uf)) as (A' & B' & C').
        repeat split; [exact A'| intros Hf; apply B'; lia |].
        intros x r H. apply C' in H. lia.
      * repeat split; discriminate.
      * exfalso; apply A; reflexivity.
      * repeat split; try discriminate. intros Hf. exfalso. apply B; [lia|reflexivity].
    + intros d l m prev fl. cbn [entries_s]. destruct l as [|c l']; [repeat split; discriminate|].
      destruct (c =? ch_e).
      { repeat split; try discriminate. intros x r H; inversion H; subst. cbn [length]; lia. }
      destruct (stream_string (c :: l')) as [[k rest]|] eqn:E0; [|repeat split; discriminate].
      apply stream_string_len in E0.
      destruct (IHd d rest) as (A & B & C).
      destruct (dec_s f d rest) as [[v uf] rest'| | |] eqn:E.
      * specialize (C _ _ eq_refl).
        destruct (IHe d rest' (map_insert k v m) k (fl || bytes_leb k prev && negb (map_is_empty m) || uf)) as (A' & B' & C').
        repeat split; [exact A'| intros Hf; apply B'; lia |].
        intros x r H. apply C' in H. lia.
      * repeat split; discriminate.
      * exfalso; apply A; reflexivity.
      * repeat split; try discriminate. intros Hf. exfalso. apply B; [lia|reflexivity].
Qed.

Theorem decode_stream_total l :
  decode_stream l <> Fault /\ decode_stream l <> OutOfFuel /\
  (forall x r, decode_stream l = Ok x r -> (length r < length l)%nat).
Proof.
  unfold decode_stream.
  destruct (proj1 (dec_s_safe (2 * length l + 2)) 0 l) as (A & B & C).
  repeat split; [exact A | apply B; lia | exact C].
Qed.

(* ---- skip reader *)

Lemma skip_digits_len l : (length (skip_digits l) <= length l)%nat.
Proof. induction l as [|c l IH]; cbn [skip_digits]; [lia|]. destruct (is_digit c); cbn [length]; lia. Qed.

Lemma skip_int_safe l :
  skip_int l <> Fault /\ skip_int l <> OutOfFuel /\ (forall u r, skip_int l = Ok u r -> (length r < length l)%nat).
Proof.
  unfold skip_int. destruct l as [|c l1]; [repeat split; discriminate|].
  destruct ((c =? ch_minus) && _); [repeat split; discriminate|].
  set (l2 := if c =? ch_minus then l1 else c :: l1).
  assert (H2 : (length l2 <= S (length l1))%nat) by (unfold l2; destruct (c =? ch_minus); cbn [length]; lia).
  destruct l2 as [|c2 l3] eqn:E2; [repeat split; discriminate|].
  destruct (negb (is_digit c2)); [repeat split; discriminate|].
  pose proof (skip_digits_len (c2 :: l3)) as Hd.
  destruct (skip_digits (c2 :: l3)) as [|e rest]; [repeat split; discriminate|].
  destruct (e =? ch_e); [|repeat split; discriminate].
  repeat split; try discriminate. intros u r H; inversion H; subst. cbn [length] in *. lia.
Qed.

Definition goodk (l : bytes) (fuel_ok : Prop) (R : res unit) : Prop :=
  R <> Fault /\ (fuel_ok -> R <> OutOfFuel) /\ (forall u r, R = Ok u r -> (length r < length l)%nat).

Lemma skip_loop_safe : forall f st l, short l -> goodk l (length l + 1 <= f)%nat (skip_loop f st l).
Proof.
  induction f as [|f IH]; intros st l Hs.
  - repeat split; cbn; try discriminate; lia.
  - cbn [skip_loop]. destruct l as [|c l']; [repeat split; discriminate|].
    assert (Hs' : short l') by (eapply short_suffix; [exact Hs|cbn [length]; lia]).
    destruct (c =? ch_e).
    { destruct st as [|b st']; [repeat split; discriminate|].
      destruct st' as [|b' st''].
      - repeat split; try discriminate. intros u r H; inversion H; subst; cbn [length]; lia.
      - destruct (IH (b' :: st'') l' Hs') as (A & B & C).
        repeat split; [exact A|intros Hf; apply B; cbn [length] in Hf; lia|].
        intros u r H; apply C in H; cbn [length]; lia. }
    (* the key, when inside a dictionary *)
    set (after_key := match st with
                      | true :: _ => match c_string (c :: l') with
                                     | Ok _ rest => Ok tt rest
                                     | Reject => Reject | Fault => Fault | OutOfFuel => OutOfFuel
                                     end
                      | _ => Ok tt (c :: l')
                      end).
    assert (Hak : after_key <> Fault /\ after_key <> OutOfFuel /\
                  (forall u r, after_key = Ok u r -> (length r <= length (c :: l'))%nat /\
                     (r = [] -> exists st0, st = true :: st0))).
    { unfold after_key. destruct st as [|[|] st0].
      - repeat split; try discriminate; inversion H; subst; [lia|discriminate].
      - destruct (c_string_safe (c :: l') Hs) as (A & B & C).
        destruct (c_string (c :: l')) as [k rest| | |]; try (repeat split; congruence).
        repeat split; try discriminate; inversion H; subst.
        + specialize (C _ _ eq_refl). lia.
        + eauto.
      - repeat split; try discriminate; inversion H; subst; [lia|discriminate]. }
    destruct Hak as (HA & HB & HC).
    destruct after_key as [u lk| | |]; try congruence; try (repeat split; discriminate).
    destruct (HC u lk eq_refl) as [Hlk Hnil].
    destruct lk as [|c1 l1].
    { destruct (Hnil eq_refl) as [st0 ->]. repeat split; discriminate. }
    assert (Hsk : short (c1 :: l1)) by (eapply short_suffix; [exact Hs|exact Hlk]).
    assert (Hs1 : short l1) by (eapply short_suffix; [exact Hsk|cbn [length]; lia]).
    destruct (c1 =? ch_i).
    { destruct (skip_int_safe l1) as (A & B & C).
      destruct (skip_int l1) as [u' rest| | |]; try congruence; try (repeat split; discriminate).
      specialize (C _ _ eq_refl).
      destruct st as [|b st0].
      - repeat split; try discriminate. intros u0 r H; inversion H; subst. cbn [length] in *. lia.
      - destruct (IH (b :: st0) rest) as (A' & B' & C'); [eapply short_suffix; [exact Hs1|lia]|].
        repeat split; [exact A'|intros Hf; apply B'; cbn [length] in *; lia|].
        intros u0 r H; apply C' in H; cbn [length] in *; lia. }
    destruct ((c1 =? ch_l) || (c1 =? ch_d)).
    { destruct (_ <=? _); [repeat split; discriminate|].
      destruct (IH ((c1 =? ch_d) :: st) l1 Hs1) as (A' & B' & C').
      repeat split; [exact A'|intros Hf; apply B'; cbn [length] in *; lia|].
      intros u0 r H; apply C' in H; cbn [length] in *; lia. }
    destruct (c_string_safe (c1 :: l1) Hsk) as (A & B & C).
    destruct (c_string (c1 :: l1)) as [k rest| | |]; try congruence; try (repeat split; discriminate).
    specialize (C _ _ eq_refl).
    destruct st as [|b st0].
    + repeat split; try discriminate. intros u0 r H; inversion H; subst. cbn [length] in *. lia.
    + destruct (IH (b :: st0) rest) as (A' & B' & C'); [eapply short_suffix; [exact Hsk|lia]|].
      repeat split; [exact A'|intros Hf; apply B'; cbn [length] in *; lia|].
      intros u0 r H; apply C' in H; cbn [length] in *; lia.
Qed.

Theorem skip_c_total l : short l ->
  skip_c l <> Fault /\ skip_c l <> OutOfFuel /\ (forall u r, skip_c l = Ok u r -> (length r < length l)%nat).
Proof.
  intros Hs. unfold skip_c. destruct (skip_loop_safe (S (S (length l))) [] l Hs) as (A & B & C).
  repeat split; [exact A|apply B; lia|exact C].
Qed.
