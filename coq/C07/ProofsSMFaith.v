(* Raw readers return exactly the bytes the skip reader delimits; unknown keys are skipped exactly;
   every value the static-map reader stores is read from a segment of the input (faithfulness at
   segment level); witnesses for the places where the stored value is NOT what the input denotes. *)
From Coq Require Import List NArith ZArith Bool Lia ZifyBool ZifyNat ZifyN.
Ltac Zify.zify_post_hook ::= Z.div_mod_to_equations.
From LTV Require Import Common.Bytes.
From LTV.C07 Require Import ParamsGen Model ProofsDec ProofsSafe ProofsFaith StaticMap ProofsSM ProofsSMTotal.
Import ListNotations.
Local Open Scope N_scope.

(* ---- what the skip reader consumes is a prefix of its input *)
Lemma skip_digits_suffix : forall l, exists ds, l = ds ++ skip_digits l.
Proof.
  induction l as [|c l (ds & IH)]; [exists []; reflexivity|]. cbn [skip_digits].
  destruct (is_digit c); [exists (c :: ds); cbn [app]; congruence|exists []; reflexivity].
Qed.

Lemma skip_int_suffix l u r : skip_int l = Ok u r -> exists pre, l = pre ++ r.
Proof.
  unfold skip_int. destruct l as [|c l1]; [discriminate|].
  destruct ((c =? ch_minus) && _); [discriminate|].
  set (l2 := if c =? ch_minus then l1 else c :: l1).
  assert (H2 : exists p, c :: l1 = p ++ l2) by (unfold l2; destruct (c =? ch_minus); [exists [c]|exists []]; reflexivity).
  destruct l2 as [|c2 l3]; [discriminate|].
  destruct (negb (is_digit c2)); [discriminate|].
  destruct (skip_digits_suffix (c2 :: l3)) as (ds & Hd).
  destruct (skip_digits (c2 :: l3)) as [|e rest]; [discriminate|].
  destruct (e =? ch_e); [|discriminate]. intros H; inversion H; subst.
  destruct H2 as (p & ->). rewrite Hd. exists (p ++ ds ++ [e]). rewrite <- !app_assoc. reflexivity.
Qed.

Lemma skip_loop_suffix : forall f st l u r, skip_loop f st l = Ok u r -> exists pre, l = pre ++ r.
Proof.
  induction f as [|f IH]; intros st l u r H; [discriminate|].
  cbn [skip_loop] in H. destruct l as [|c l']; [discriminate|].
  destruct (c =? ch_e).
  { destruct st as [|b st']; [discriminate|]. destruct st' as [|b' st''].
    - inversion H; subst. exists [c]. reflexivity.
    - apply IH in H. destruct H as (p & ->). exists (c :: p). reflexivity. }
  set (ak := match st with
             | true :: _ => match c_string (c :: l') with
                            | Ok _ rest => Ok tt rest
                            | Reject => Reject | Fault => Fault | OutOfFuel => OutOfFuel
                            end
             | _ => Ok tt (c :: l')
             end) in H.
  assert (Hak : forall x lk, ak = Ok x lk -> exists p, c :: l' = p ++ lk).
  { unfold ak. intros x lk E. destruct st as [|[|] st0].
    - inversion E; subst. exists []. reflexivity.
    - destruct (c_string (c :: l')) as [k rest| | |] eqn:Ec; try discriminate. inversion E; subst.
      apply c_string_suffix in Ec. destruct Ec as (ds & _ & ->). exists (ds ++ ch_colon :: k).
      rewrite <- app_assoc. reflexivity.
    - inversion E; subst. exists []. reflexivity. }
  destruct ak as [x lk| | |]; try discriminate. destruct (Hak _ _ eq_refl) as (p & Ep). rewrite Ep.
  assert (Hfin : forall q, (exists p', lk = p' ++ q) -> exists pre, p ++ lk = pre ++ q).
  { intros q (p' & ->). exists (p ++ p'). rewrite app_assoc. reflexivity. }
  destruct lk as [|c1 l1]; [destruct st as [|[|] ?]; discriminate|].
  destruct (c1 =? ch_i).
  { destruct (skip_int l1) as [u' rest| | |] eqn:Ei; try discriminate.
    apply skip_int_suffix in Ei. destruct Ei as (pi & ->).
    destruct st as [|b st0].
    - inversion H; subst. apply Hfin. exists (c1 :: pi). reflexivity.
    - apply IH in H. destruct H as (p2 & ->). apply Hfin. exists (c1 :: pi ++ p2). cbn [app]. rewrite <- app_assoc. reflexivity. }
  destruct ((c1 =? ch_l) || (c1 =? ch_d)).
  { destruct (_ <=? _); [discriminate|]. apply IH in H. destruct H as (p2 & ->).
    apply Hfin. exists (c1 :: p2). reflexivity. }
  destruct (c_string (c1 :: l1)) as [k rest| | |] eqn:Ec; try discriminate.
  apply c_string_suffix in Ec. destruct Ec as (ds & _ & Ec).
  destruct st as [|b st0].
  - inversion H; subst. apply Hfin. exists (ds ++ ch_colon :: k). rewrite Ec, <- app_assoc. reflexivity.
  - apply IH in H. destruct H as (p2 & ->). apply Hfin. exists (ds ++ ch_colon :: k ++ p2).
    rewrite Ec, <- !app_assoc. cbn [app]. rewrite <- app_assoc. reflexivity.
Qed.

Lemma skip_c_suffix l u r : skip_c l = Ok u r -> exists pre, l = pre ++ r.
Proof. unfold skip_c. apply skip_loop_suffix. Qed.

Lemma firstn_app_exact (pre r : bytes) : firstn (length (pre ++ r) - length r) (pre ++ r) = pre.
Proof.
  rewrite app_length. replace (length pre + length r - length r)%nat with (length pre + 0)%nat by lia.
  rewrite firstn_app_2. cbn [firstn]. apply app_nil_r.
Qed.

Lemma strip_ends_spec (pre : bytes) : (2 <= length pre)%nat ->
  exists c0 cl, pre = c0 :: strip_ends pre ++ [cl].
Proof.
  intros H. destruct pre as [|c0 t]; [cbn in H; lia|]. cbn [length] in H.
  assert (Ht : t <> []) by (destruct t; [cbn in H; lia|discriminate]).
  exists c0, (last t 0). unfold strip_ends. cbn [tl]. rewrite <- app_removelast_last by exact Ht. reflexivity.
Qed.

(* raw readers: the stored bytes are exactly (a fixed part of) what the skip reader delimits *)
Theorem raw_c_exact k l o r : short l -> raw_c k l = Ok o r ->
  skip_c l = Ok tt r /\
  exists pre, l = pre ++ r /\
    match o with
    | None => True
    | Some b =>
        match k with
        | RawAny => b = pre
        | RawS => exists ds, all_digits ds /\ pre = ds ++ ch_colon :: b
        | RawL => exists cl, pre = ch_l :: b ++ [cl]
        | RawM => exists cl, pre = ch_d :: b ++ [cl]
        end
    end.
Proof.
  intros Hs. unfold raw_c. destruct (skip_c l) as [[] rest| | |] eqn:E; try discriminate.
  destruct (skip_c_suffix _ _ _ E) as (pre & ->). rewrite firstn_app_exact.
  destruct k.
  - intros H; inversion H; subst. split; [reflexivity|]. exists pre. split; reflexivity.
  - destruct ((2 <=? N.of_nat (length pre)) && is_digit (hd 0 pre)) eqn:Hd.
    + apply andb_true_iff in Hd. destruct Hd as [Hsz Hdig].
      destruct pre as [|c p']; [cbn in Hsz; discriminate|]. cbn [hd] in Hdig.
      cbn [app] in E. destruct (skip_c_digit c (p' ++ rest) rest Hdig E) as (s & Es).
      apply c_string_suffix in Es. destruct Es as (ds & Hds & Es).
      assert (Epre : c :: p' = ds ++ ch_colon :: s).
      { apply (app_inv_tail rest). cbn [app]. rewrite Es. rewrite <- app_assoc. reflexivity. }
      rewrite Epre.
      assert (Hac : after_colon (ds ++ ch_colon :: s) = Some s).
      { clear - Hds. induction Hds as [|d ds Hd _ IH]; cbn [app after_colon].
        - change (ch_colon =? ch_colon) with true. reflexivity.
        - assert (d =? ch_colon = false) by (apply is_digit_spec in Hd; apply N.eqb_neq; unfold ch_colon; lia).
          rewrite H. exact IH. }
      rewrite Hac. intros H; inversion H; subst. split; [reflexivity|].
      exists (ds ++ ch_colon :: s). split; [rewrite <- Epre; reflexivity|]. exists ds. split; [exact Hds|reflexivity].
    + intros H; inversion H; subst. split; [reflexivity|]. exists pre. split; [reflexivity|exact I].
  - destruct ((2 <=? N.of_nat (length pre)) && (hd 0 pre =? ch_l)) eqn:Hd; intros H; inversion H; subst;
      (split; [reflexivity|]); exists pre; (split; [reflexivity|]); [|exact I].
    apply andb_true_iff in Hd. destruct Hd as [Hsz Hc].
    destruct (strip_ends_spec pre) as (c0 & cl & Ep); [lia|]. exists cl.
    rewrite Ep in Hc. cbn [hd] in Hc. apply N.eqb_eq in Hc. rewrite <- Hc. exact Ep.
  - destruct ((2 <=? N.of_nat (length pre)) && (hd 0 pre =? ch_d)) eqn:Hd; intros H; inversion H; subst;
      (split; [reflexivity|]); exists pre; (split; [reflexivity|]); [|exact I].
    apply andb_true_iff in Hd. destruct Hd as [Hsz Hc].
    destruct (strip_ends_spec pre) as (c0 & cl & Ep); [lia|]. exists cl.
    rewrite Ep in Hc. cbn [hd] in Hc. apply N.eqb_eq in Hc. rewrite <- Hc. exact Ep.
Qed.

(* a container is closed by its own 'e': with a non-empty stack the skip loop stops right after an 'e' *)
Lemma skip_loop_close : forall f b st l u r, skip_loop f (b :: st) l = Ok u r -> exists pre, l = pre ++ ch_e :: r.
Proof.
  induction f as [|f IH]; intros b st l u r H; [discriminate|].
  cbn [skip_loop] in H. destruct l as [|c l']; [discriminate|].
  destruct (N.eqb_spec c ch_e) as [->|Hce].
  { destruct st as [|b' st''].
    - inversion H; subst. exists []. reflexivity.
    - apply IH in H. destruct H as (p & ->). exists (ch_e :: p). reflexivity. }
  set (ak := match b :: st with
             | true :: _ => match c_string (c :: l') with
                            | Ok _ rest => Ok tt rest
                            | Reject => Reject | Fault => Fault | OutOfFuel => OutOfFuel
                            end
             | _ => Ok tt (c :: l')
             end) in H.
  assert (Hak : forall x lk, ak = Ok x lk -> exists p, c :: l' = p ++ lk).
  { unfold ak. intros x lk E. destruct b.
    - destruct (c_string (c :: l')) as [k rest| | |] eqn:Ec; try discriminate. inversion E; subst.
      apply c_string_suffix in Ec. destruct Ec as (ds & _ & ->). exists (ds ++ ch_colon :: k).
      rewrite <- app_assoc. reflexivity.
    - inversion E; subst. exists []. reflexivity. }
  destruct ak as [x lk| | |]; try discriminate. destruct (Hak _ _ eq_refl) as (p & Ep). rewrite Ep.
  assert (Hfin : forall q, (exists p', lk = p' ++ ch_e :: q) -> exists pre, p ++ lk = pre ++ ch_e :: q).
  { intros q (p' & ->). exists (p ++ p'). rewrite app_assoc. reflexivity. }
  destruct lk as [|c1 l1]; [destruct b; discriminate|].
  destruct (c1 =? ch_i).
  { destruct (skip_int l1) as [u' rest| | |] eqn:Ei; try discriminate.
    apply skip_int_suffix in Ei. destruct Ei as (pi & Epi).
    apply IH in H. destruct H as (p2 & Ep2). apply Hfin. exists (c1 :: pi ++ p2).
    rewrite Epi, Ep2. cbn [app]. rewrite <- app_assoc. reflexivity. }
  destruct ((c1 =? ch_l) || (c1 =? ch_d)).
  { destruct (_ <=? _); [discriminate|]. apply IH in H. destruct H as (p2 & Ep2).
    apply Hfin. exists (c1 :: p2). rewrite Ep2. reflexivity. }
  destruct (c_string (c1 :: l1)) as [k rest| | |] eqn:Ec; try discriminate.
  apply c_string_suffix in Ec. destruct Ec as (ds & _ & Ec).
  apply IH in H. destruct H as (p2 & Ep2). apply Hfin. exists (ds ++ ch_colon :: k ++ p2).
  rewrite Ec, Ep2, <- !app_assoc. cbn [app]. rewrite <- app_assoc. reflexivity.
Qed.

Lemma skip_c_container c l1 u r : (c = ch_l \/ c = ch_d) -> skip_c (c :: l1) = Ok u r ->
  exists pre, l1 = pre ++ ch_e :: r.
Proof.
  intros Hc. unfold skip_c. generalize (S (length (c :: l1))). intros f. cbn [skip_loop].
  assert (E : (c =? ch_e) = false /\ (c =? ch_i) = false /\ ((c =? ch_l) || (c =? ch_d)) = true)
    by (destruct Hc as [->| ->]; repeat split; reflexivity).
  destruct E as (E1 & E2 & E3). rewrite E1, E2, E3.
  change (skip_stack_limit <=? N.of_nat (length (@nil bool)) + 1) with false. cbv iota.
  apply skip_loop_close.
Qed.

(* Raw views have the right type and are exactly the value's bytes: the string view is the content of
   a string, the list view the bytes between 'l' and its closing 'e', the map view those between 'd'
   and its closing 'e' (after fix 100e504: == instead of >= in raw_bencode::is_raw_list/is_raw_map) *)
Theorem raw_type_exact k l b r : short l -> raw_c k l = Ok (Some b) r ->
  skip_c l = Ok tt r /\
  match k with
  | RawAny => l = b ++ r
  | RawS => exists ds, all_digits ds /\ l = ds ++ ch_colon :: b ++ r
  | RawL => l = ch_l :: b ++ ch_e :: r
  | RawM => l = ch_d :: b ++ ch_e :: r
  end.
Proof.
  intros Hs H. destruct (raw_c_exact k l (Some b) r Hs H) as (Hk & pre & El & Hp). split; [exact Hk|].
  destruct k.
  - subst. reflexivity.
  - destruct Hp as (ds & Hd & ->). exists ds. split; [exact Hd|]. rewrite El, <- app_assoc. reflexivity.
  - destruct Hp as (cl & ->). rewrite El in Hk. cbn [app] in Hk.
    destruct (skip_c_container ch_l _ _ _ (or_introl eq_refl) Hk) as (p & Ep).
    rewrite <- app_assoc in Ep. cbn [app] in Ep.
    assert (E2 : b ++ [cl] = p ++ [ch_e]).
    { apply (app_inv_tail r). rewrite <- !app_assoc. cbn [app]. exact Ep. }
    apply app_inj_tail in E2. destruct E2 as [-> ->]. rewrite El. cbn [app]. rewrite <- app_assoc. reflexivity.
  - destruct Hp as (cl & ->). rewrite El in Hk. cbn [app] in Hk.
    destruct (skip_c_container ch_d _ _ _ (or_intror eq_refl) Hk) as (p & Ep).
    rewrite <- app_assoc in Ep. cbn [app] in Ep.
    assert (E2 : b ++ [cl] = p ++ [ch_e]).
    { apply (app_inv_tail r). rewrite <- !app_assoc. cbn [app]. exact Ep. }
    apply app_inj_tail in E2. destruct E2 as [-> ->]. rewrite El. cbn [app]. rewrite <- app_assoc. reflexivity.
Qed.

(* ---- unknown keys: the value is skipped exactly, nothing else changes *)
Definition key_unknown (tbl : ktable) (st : smst) (rk : bytes) : Prop :=
  (max_key + two64 - top_key st) mod two64 <= N.of_nat (length rk) \/
  existsb is_not_key_char rk = true \/
  exists b1 b2 len,
    buf_write (s_cur st) (N.to_nat (top_key st)) rk = Some b1 /\
    set_nth b1 (N.to_nat (top_key st + N.of_nat (length rk))) 0 = Some b2 /\
    c_strlen b2 = Some len /\
    find_key (skipn (s_cursor st) tbl) (s_cursor st) (firstn len b2) = FkNone.

Theorem unknown_keys_skipped_exactly tbl f st l rk rest u rest' :
  hd 0 l <> ch_e -> c_string l = Ok rk rest -> key_unknown tbl st rk -> skip_c rest = Ok u rest' ->
  exists cur', sm_loop tbl (S f) st l = sm_loop tbl f (mkst (s_cursor st) (s_stack st) cur' (s_ents st)) rest'.
Proof.
  intros He Hc Hu Hk. cbn [sm_loop]. destruct l as [|c l']; [discriminate|]. cbn [hd] in He.
  destruct (N.eqb_spec c ch_e); [congruence|]. rewrite Hc.
  destruct Hu as [Hlong|[Hsp|(b1 & b2 & len & E1 & E2 & E3 & E4)]].
  - destruct (N.leb_spec ((max_key + two64 - top_key st) mod two64) (N.of_nat (length rk))); [|lia].
    cbn [orb]. rewrite Hk. exists (s_cur st). destruct st; reflexivity.
  - rewrite Hsp, orb_true_r. rewrite Hk. exists (s_cur st). destruct st; reflexivity.
  - destruct (_ || _).
    + rewrite Hk. exists (s_cur st). destruct st; reflexivity.
    + rewrite E1, E2, E3, E4, Hk. exists b2. reflexivity.
Qed.

(* ---- faithfulness at segment level: every stored value is read from a segment of the input and
   is what that segment denotes (plain entries: the liberal bencode relation `denotes` of
   ProofsFaith.v; raw entries: the bytes of the segment the skip reader delimits) *)
Definition seg_here (vb : bytes) (sv : sval) : Prop :=
  match sv with
  | SObj v _ => denotes vb v
  | SRaw RawAny b => b = vb
  | SRaw RawS b => exists ds, all_digits ds /\ vb = ds ++ ch_colon :: b
  | SRaw RawL b => vb = ch_l :: b ++ [ch_e]
  | SRaw RawM b => vb = ch_d :: b ++ [ch_e]
  end.

Definition seg_of (L : bytes) (sv : sval) : Prop :=
  exists pre vb suf, L = pre ++ vb ++ suf /\ seg_here vb sv.

(* every filled entry was read from the input, or is the (stale) value the map held before at that index *)
Definition from_input (L : bytes) (e0 e : entries) : Prop :=
  forall i sv, nth_error e i = Some (Some sv) -> seg_of L sv \/ nth_error e0 i = Some (Some sv).

Definition suffix_of (L l : bytes) : Prop := exists d, L = d ++ l.

Lemma suffix_app L p l : suffix_of L (p ++ l) -> suffix_of L l.
Proof. intros (d & ->). exists (d ++ p). rewrite <- app_assoc. reflexivity. Qed.

Lemma suffix_cons L c l : suffix_of L (c :: l) -> suffix_of L l.
Proof. apply (suffix_app L [c] l). Qed.

Lemma suffix_small L l : small L -> suffix_of L l -> small l.
Proof. intros Hs (d & ->). eapply small_suffix; exact Hs. Qed.

Lemma small_short l : small l -> short l.
Proof. unfold small, short, two31, two32. lia. Qed.

Lemma read_value_spec raw l o r : small l -> read_value raw l = Ok o r ->
  exists vb, l = vb ++ r /\ match o with Some sv => seg_here vb sv | None => True end.
Proof.
  intros Hs. unfold read_value. destruct raw as [k|].
  - destruct (raw_c k l) as [[b|] rest| | |] eqn:E; try discriminate; intros H; inversion H; subst.
    + destruct (raw_type_exact _ _ _ _ (small_short _ Hs) E) as (_ & Hp). destruct k; cbn [seg_here].
      * exists b. split; [exact Hp|reflexivity].
      * destruct Hp as (ds & Hd & ->). exists (ds ++ ch_colon :: b). split; [rewrite <- app_assoc; reflexivity|].
        exists ds. split; [exact Hd|reflexivity].
      * exists (ch_l :: b ++ [ch_e]). split; [rewrite Hp; cbn [app]; rewrite <- app_assoc; reflexivity|reflexivity].
      * exists (ch_d :: b ++ [ch_e]). split; [rewrite Hp; cbn [app]; rewrite <- app_assoc; reflexivity|reflexivity].
    + destruct (raw_c_exact _ _ _ _ (small_short _ Hs) E) as (_ & pre & -> & _). exists pre. split; [reflexivity|exact I].
  - destruct (decode_c l) as [[v fl] rest| | |] eqn:E; try discriminate. intros H; inversion H; subst.
    destruct (decode_c_faithful _ _ _ _ Hs E) as (pre & -> & Hd). exists pre. split; [reflexivity|exact Hd].
Qed.

Lemma set_nth_nth_error {A} : forall (l : list A) i x l', set_nth l i x = Some l' ->
  forall j, nth_error l' j = if Nat.eqb j i then Some x else nth_error l j.
Proof.
  induction l as [|h t IH]; intros i x l' H j; [destruct i; discriminate|].
  destruct i as [|i]; cbn [set_nth] in H.
  - inversion H; subst. destruct j; reflexivity.
  - destruct (set_nth t i x) as [t'|] eqn:E; [|discriminate]. inversion H; subst.
    destruct j as [|j]; [reflexivity|]. cbn [nth_error Nat.eqb]. apply (IH _ _ _ E).
Qed.

Lemma store_from_input L e0 e idx o e' vb pre suf :
  from_input L e0 e -> store e idx o = Some e' -> L = pre ++ vb ++ suf ->
  match o with Some sv => seg_here vb sv | None => True end -> from_input L e0 e'.
Proof.
  intros He Hst HL Ho. destruct o as [sv|]; cbn [store] in Hst; [|inversion Hst; subst; exact He].
  intros j sv' Hj. rewrite (set_nth_nth_error _ _ _ _ Hst) in Hj.
  destruct (Nat.eqb j (N.to_nat idx)); [|apply (He j sv' Hj)].
  inversion Hj; subst sv'. left. exists pre, vb, suf. split; [exact HL|exact Ho].
Qed.

Lemma sm_skip_rest_suffix : forall f l u r, sm_skip_rest f l = Ok u r -> exists p, l = p ++ r.
Proof.
  induction f as [|f IH]; intros l u r H; [discriminate|]. cbn [sm_skip_rest] in H.
  destruct l as [|c l']; [discriminate|]. destruct (c =? ch_e).
  - inversion H; subst. exists [c]. reflexivity.
  - destruct (skip_c (c :: l')) as [u' rest| | |] eqn:E; try discriminate.
    apply skip_c_suffix in E. destruct E as (p & ->). apply IH in H. destruct H as (p2 & ->).
    exists (p ++ p2). rewrite <- app_assoc. reflexivity.
Qed.

Lemma sm_list_faithful tbl L e0 : small L -> forall f fk mk base e l x r,
  sm_list tbl f fk mk base e l = Ok x r -> from_input L e0 e -> suffix_of L l ->
  from_input L e0 (snd x) /\ suffix_of L r.
Proof.
  intros HL. induction f as [|f IH]; intros fk mk base e l x r H He Hsuf; [discriminate|].
  cbn [sm_list] in H. destruct l as [|c l']; [discriminate|].
  destruct (c =? ch_e).
  { inversion H; subst. split; [exact He|eapply suffix_cons; exact Hsuf]. }
  destruct (nth_error tbl fk) as [[idx k]|]; [|discriminate].
  destruct (kat k (base + 2)) as [c2|]; [|discriminate]. destruct (kat mk (base + 1)) as [c1|]; [|discriminate].
  destruct (read_value _ (c :: l')) as [o rest| | |] eqn:Er; try discriminate.
  apply read_value_spec in Er; [|eapply suffix_small; eassumption]. destruct Er as (vb & El & Ho).
  destruct (store e idx o) as [e'|] eqn:Es; [|discriminate].
  assert (He' : from_input L e0 e')
    by (destruct Hsuf as (d & HLd); rewrite El in HLd; eapply store_from_input; eassumption).
  assert (Hsr : suffix_of L rest)
    by (destruct Hsuf as (d & HLd); rewrite El in HLd; exists (d ++ vb); rewrite <- app_assoc; exact HLd).
  destruct (match nth_error tbl (S fk) with Some (_, k') => key_streq k' k | None => false end).
  - eapply IH; eassumption.
  - destruct (sm_skip_rest _ rest) as [u rest'| | |] eqn:Ek; try discriminate. inversion H; subst. cbn [snd].
    split; [exact He'|]. apply sm_skip_rest_suffix in Ek. destruct Ek as (p & Ep). rewrite Ep in Hsr.
    eapply suffix_app; exact Hsr.
Qed.

Lemma sm_loop_faithful tbl L e0 : small L -> forall f st l e r,
  sm_loop tbl f st l = Ok e r -> from_input L e0 (s_ents st) -> suffix_of L l -> from_input L e0 e.
Proof.
  intros HL. induction f as [|f IH]; intros st l e r H He Hsuf; [discriminate|].
  cbn [sm_loop] in H. destruct l as [|c l']; [discriminate|].
  destruct (c =? ch_e).
  { destruct (s_stack st) as [|n stk'].
    - inversion H; subst. exact He.
    - eapply IH; [exact H|exact He|eapply suffix_cons; exact Hsuf]. }
  destruct (c_string (c :: l')) as [rk rest| | |] eqn:Ecs; try discriminate.
  apply c_string_suffix in Ecs. destruct Ecs as (ds & _ & Ecs).
  assert (Hsr : suffix_of L rest).
  { rewrite Ecs in Hsuf. replace (ds ++ ch_colon :: rk ++ rest) with ((ds ++ ch_colon :: rk) ++ rest) in Hsuf
      by (rewrite <- app_assoc; reflexivity). eapply suffix_app; exact Hsuf. }
  assert (Hskip : forall st', s_ents st' = s_ents st ->
            match skip_c rest with
            | Ok _ rest' => sm_loop tbl f st' rest'
            | Reject => Reject | Fault => Fault | OutOfFuel => OutOfFuel
            end = Ok e r -> from_input L e0 e).
  { intros st' Hst' H'. destruct (skip_c rest) as [u rest'| | |] eqn:Ek; try discriminate.
    apply skip_c_suffix in Ek. destruct Ek as (p & Ep). rewrite Ep in Hsr.
    eapply IH; [exact H'|rewrite Hst'; exact He|eapply suffix_app; exact Hsr]. }
  destruct (_ || _); [apply (Hskip st eq_refl H)|].
  destruct (buf_write _ _ rk) as [b1|]; [|discriminate].
  destruct (set_nth b1 _ 0) as [b2|]; [|discriminate].
  destruct (c_strlen b2) as [len|]; [|discriminate].
  destruct (find_key _ _ _) as [| |pos base]; [discriminate|(refine (Hskip _ _ H); reflexivity)|].
  destruct (nth_error tbl pos) as [[idx k]|]; [|discriminate].
  destruct (kat k base) as [c0|]; [|discriminate].
  destruct ((c0 =? 0) || (c0 =? ch_star)).
  { destruct (if c0 =? 0 then _ else _) as [raw|]; [|discriminate].
    destruct (read_value raw rest) as [o rest'| | |] eqn:Er; try discriminate.
    apply read_value_spec in Er; [|eapply suffix_small; eassumption]. destruct Er as (vb & El & Ho).
    destruct (store (s_ents st) idx o) as [e'|] eqn:Es; [|discriminate].
    destruct Hsr as (d & HLd). rewrite El in HLd.
    eapply IH; [exact H| |exists (d ++ vb); rewrite <- app_assoc; exact HLd].
    cbn [s_ents]. eapply store_from_input; eassumption. }
  destruct (c0 =? ch_colon).
  { destruct rest as [|c1 rest1]; [discriminate|]. destruct (c1 =? ch_d).
    - destruct (_ <=? _); [discriminate|].
      destruct (set_nth b2 _ ch_colon) as [b3|]; [|discriminate].
      destruct (set_nth b3 _ ch_colon) as [b4|]; [|discriminate].
      eapply IH; [exact H|exact He|eapply suffix_cons; exact Hsr].
    - (refine (Hskip _ _ H); reflexivity). }
  destruct (c0 =? ch_lbr); [|discriminate].
  destruct rest as [|c1 rest1]; [discriminate|]. destruct (c1 =? ch_l).
  - destruct (sm_list tbl _ pos k base (s_ents st) rest1) as [[fk' e'] rest'| | |] eqn:El; try discriminate.
    destruct (sm_list_faithful tbl L e0 HL _ _ _ _ _ _ _ _ El He (suffix_cons _ _ _ Hsr)) as [He' Hs'].
    eapply IH; [exact H|exact He'|exact Hs'].
  - (refine (Hskip _ _ H); reflexivity).
Qed.

(* destination independence: reading INTO a map that already holds values leaves every entry either
   read from the input (and denoting its segment) or exactly the value it held before at that index *)
Theorem static_map_faithful_into tbl e0 l e r : small l -> sm_read_into tbl e0 l = Ok e r ->
  forall i sv, nth_error e i = Some (Some sv) -> seg_of l sv \/ nth_error e0 i = Some (Some sv).
Proof.
  intros Hs H. unfold sm_read_into in H. destruct l as [|c l']; [discriminate|].
  destruct (c =? ch_d); [|discriminate].
  eapply (sm_loop_faithful tbl (c :: l') e0 Hs); [exact H| |exists [c]; reflexivity].
  intros i sv Hi. cbn [init_st s_ents] in Hi. right. exact Hi.
Qed.

Theorem static_map_faithful tbl l e r : small l -> sm_read tbl l = Ok e r ->
  forall i sv, nth_error e i = Some (Some sv) -> seg_of l sv.
Proof.
  intros Hs H i sv Hi. destruct (static_map_faithful_into tbl (empty_entries tbl) l e r Hs H i sv Hi) as [A|B]; [exact A|].
  unfold empty_entries in B. apply nth_error_In in B. apply repeat_spec in B. discriminate.
Qed.
