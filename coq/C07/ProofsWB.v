(* C07 — proofs about the buffered writer model (WriteBuf.v): flush-chunking never changes the byte
   stream; object_write_to_buffer returns exactly the encoding when it fits; and the refutation of
   "an encoding that does not fit always raises internal_error". *)
From Coq Require Import List NArith ZArith Bool Arith Lia.
From LTV Require Import Common.Bytes.
From LTV.C07 Require Import Model WriteBuf ProofsRT.
Import ListNotations.

Definition rem (st : wst) : nat := w_cap st - length (w_pend st).

(* callback hands the same buffer back (stream / sha1 / size): every chunk flushed so far is full *)
Definition invK (C : nat) (st : wst) : Prop :=
  w_sink st = SinkKeep /\ w_status st = WbOk /\ w_cap st = C /\ 0 < C /\ length (w_pend st) <= C /\
  Forall (fun c => length c = C) (w_chunks st).

(* object_write_to_buffer: either still inside the caller's buffer, or it has been filled exactly *)
Definition invB (C : nat) (st : wst) : Prop :=
  w_sink st = SinkBuffer /\ w_status st = WbOk /\
  ((w_cap st = C /\ w_chunks st = [] /\ length (w_pend st) <= C) \/
   (w_cap st = 0 /\ w_pend st = [] /\ length (concat (rev (w_chunks st))) = C)).

Definition spec (C : nat) (f : wst -> wst) (bs : bytes) : Prop :=
  forall st,
    (invK C st -> invK C (f st) /\ written (f st) = written st ++ bs) /\
    (invB C st -> length bs <= rem st -> invB C (f st) /\ written (f st) = written st ++ bs).

Lemma invB_len : forall C st, invB C st -> length (written st) + rem st = C.
Proof.
  intros C [k cap pend chunks status]. unfold invB, written, rem. cbn.
  intros (_ & _ & [(-> & -> & H) | (-> & -> & H)]); cbn.
  - lia.
  - rewrite app_nil_r. lia.
Qed.

Lemma spec_seq : forall C f g bs1 bs2, spec C f bs1 -> spec C g bs2 -> spec C (fun st => g (f st)) (bs1 ++ bs2).
Proof.
  intros C f g bs1 bs2 Hf Hg st. split.
  - intros I. destruct (Hf st) as [HK _]. destruct (HK I) as [I1 W1].
    destruct (Hg (f st)) as [HK2 _]. destruct (HK2 I1) as [I2 W2].
    split; [exact I2|]. rewrite W2, W1, app_assoc. reflexivity.
  - intros I L. rewrite app_length in L. destruct (Hf st) as [_ HB].
    destruct (HB I ltac:(lia)) as [I1 W1].
    pose proof (invB_len _ _ I) as E0. pose proof (invB_len _ _ I1) as E1.
    rewrite W1, app_length in E1.
    destruct (Hg (f st)) as [_ HB2]. destruct (HB2 I1 ltac:(lia)) as [I2 W2].
    split; [exact I2|]. rewrite W2, W1, app_assoc. reflexivity.
Qed.

Lemma spec_id : forall C, spec C (fun st => st) [].
Proof. intros C st. split; intros; rewrite app_nil_r; auto. Qed.

Lemma spec_fold : forall C (A : Type) (g : wst -> A -> wst) (e : A -> bytes) (l : list A),
  Forall (fun x => spec C (fun st => g st x) (e x)) l ->
  forall f0 bs0, spec C f0 bs0 -> spec C (fun st => fold_left g l (f0 st)) (bs0 ++ flat_map e l).
Proof.
  intros C A g e l H. induction H as [|x l Hx Hl IH]; intros f0 bs0 H0.
  - cbn. rewrite app_nil_r. exact H0.
  - cbn [fold_left flat_map]. rewrite app_assoc.
    apply (IH (fun st => g (f0 st) x) (bs0 ++ e x)).
    apply (spec_seq C f0 (fun st => g st x)); assumption.
Qed.

Lemma concat_rev_cons : forall (p : bytes) chunks, concat (rev (p :: chunks)) = concat (rev chunks) ++ p.
Proof. intros. cbn [rev]. rewrite concat_app. cbn. rewrite app_nil_r. reflexivity. Qed.

Lemma spec_char : forall C c, spec C (fun st => wb_char st c) [c].
Proof.
  intros C c [k cap pend chunks status]. split.
  - unfold invK. cbn. intros (-> & -> & -> & HC & HL & HF).
    unfold wb_char. cbn.
    destruct (Nat.eqb_spec (length pend) C) as [E|E].
    + unfold wb_flush. cbn. destruct (Nat.eqb_spec C 0) as [Z|Z]; [lia|].
      unfold set_pend, written. cbn [w_sink w_cap w_pend w_chunks w_status app length].
      repeat split; auto; try lia.
      rewrite concat_rev_cons. rewrite <- app_assoc. reflexivity.
    + unfold set_pend, written. cbn [w_sink w_cap w_pend w_chunks w_status].
      rewrite app_length. cbn [length]. repeat split; auto; try lia.
      rewrite app_assoc. reflexivity.
  - unfold invB, rem. cbn. intros (-> & -> & [(-> & -> & HL) | (-> & -> & HL)]) L; [|lia].
    unfold wb_char. cbn.
    destruct (Nat.eqb_spec (length pend) C) as [E|E]; [lia|].
    unfold set_pend, written. cbn [w_sink w_cap w_pend w_chunks w_status rev concat app].
    rewrite app_length. cbn [length]. split; [|reflexivity].
    split; [reflexivity|]. split; [reflexivity|]. left. repeat split; auto; lia.
Qed.

Lemma wb_string_f_S : forall f st bs, bs <> [] ->
  wb_string_f (S f) st bs =
    (let len := Nat.min (length bs) (w_cap st - length (w_pend st)) in
     let st1 := set_pend st (w_pend st ++ firstn len bs) in
     if Nat.eqb (length (w_pend st1)) (w_cap st1) then
       let st2 := wb_flush st1 in
       if negb (w_is_ok st2) then st2
       else if Nat.eqb (w_cap st2) 0 then st2
       else wb_string_f f st2 (skipn len bs)
     else wb_string_f f st1 (skipn len bs)).
Proof. intros f st [|b bs] H; [congruence|reflexivity]. Qed.

Lemma wb_string_f_nil : forall f st, wb_string_f f st [] = st.
Proof. intros [|f] st; reflexivity. Qed.

Lemma string_K : forall C fuel bs st, invK C st ->
  length bs + (if Nat.eqb (length (w_pend st)) C then 1 else 0) <= fuel ->
  invK C (wb_string_f fuel st bs) /\ written (wb_string_f fuel st bs) = written st ++ bs.
Proof.
  intros C fuel. induction fuel as [|f IH]; intros bs st I M.
  - destruct bs as [|b bs]; [cbn; rewrite app_nil_r; auto|]. cbn [length] in M. lia.
  - destruct bs as [|b bs']; [cbn; rewrite app_nil_r; auto|].
    remember (b :: bs') as bs eqn:Ebs.
    assert (Hne : bs <> []) by (subst; discriminate).
    assert (Hlen : 1 <= length bs) by (subst; cbn; lia).
    rewrite wb_string_f_S by exact Hne. clear Ebs b bs'.
    destruct st as [k cap pend chunks status]. unfold invK in I. cbn in I.
    destruct I as (-> & -> & -> & HC & HL & HF). cbn [w_pend w_cap] in M.
    cbv zeta. unfold set_pend. cbn [w_sink w_cap w_pend w_chunks w_status].
    set (len := Nat.min (length bs) (C - length pend)).
    assert (Hp1 : length (pend ++ firstn len bs) = length pend + len).
    { rewrite app_length, firstn_length. unfold len. lia. }
    assert (Hsk : length (skipn len bs) = length bs - len) by apply skipn_length.
    destruct (Nat.eqb_spec (length (pend ++ firstn len bs)) C) as [E|E].
    + unfold wb_flush. cbn [w_sink w_cap w_pend w_chunks w_status w_is_ok negb].
      destruct (Nat.eqb_spec C 0) as [Z|Z]; [lia|].
      destruct (IH (skipn len bs) (mkw SinkKeep C [] ((pend ++ firstn len bs) :: chunks) WbOk)) as [I2 W2].
      * unfold invK. cbn. repeat split; auto; lia.
      * cbn [w_pend length]. destruct (Nat.eqb_spec 0 C); [lia|].
        destruct (Nat.eqb_spec (length pend) C) as [F|F].
        -- lia.
        -- assert (1 <= len) by (unfold len; lia). lia.
      * split; [exact I2|]. etransitivity; [exact W2|]. unfold written. cbn [w_chunks w_pend].
        rewrite concat_rev_cons, app_nil_r. rewrite <- !app_assoc. rewrite firstn_skipn. reflexivity.
    + destruct (IH (skipn len bs) (mkw SinkKeep C (pend ++ firstn len bs) chunks WbOk)) as [I2 W2].
      * unfold invK. cbn. repeat split; auto; lia.
      * cbn [w_pend]. destruct (Nat.eqb_spec (length (pend ++ firstn len bs)) C); [lia|].
        assert (len = length bs) by (unfold len in *; lia). lia.
      * split; [exact I2|]. etransitivity; [exact W2|]. unfold written. cbn [w_chunks w_pend].
        rewrite <- !app_assoc. rewrite firstn_skipn. reflexivity.
Qed.

Lemma string_B : forall C f bs st, invB C st -> length bs <= rem st ->
  invB C (wb_string_f (S f) st bs) /\ written (wb_string_f (S f) st bs) = written st ++ bs.
Proof.
  intros C f bs st I L.
  destruct bs as [|b bs']; [cbn; rewrite app_nil_r; auto|].
  remember (b :: bs') as bs eqn:Ebs.
  assert (Hne : bs <> []) by (subst; discriminate).
  assert (Hlen : 1 <= length bs) by (subst; cbn; lia).
  rewrite wb_string_f_S by exact Hne. clear Ebs b bs'.
  destruct st as [k cap pend chunks status]. unfold invB, rem in *. cbn in I, L.
  destruct I as (-> & -> & [(-> & -> & HL) | (-> & -> & HL)]); [|cbn in L; lia].
  cbv zeta. unfold set_pend. cbn [w_sink w_cap w_pend w_chunks w_status].
  replace (Nat.min (length bs) (C - length pend)) with (length bs) by lia.
  rewrite firstn_all, skipn_all, !wb_string_f_nil.
  destruct (Nat.eqb_spec (length (pend ++ bs)) C) as [E|E].
  - unfold wb_flush. cbn [w_sink w_cap w_pend w_chunks w_status].
    destruct (Nat.eqb_spec C 0) as [Z|Z]; [lia|].
    cbn [w_is_ok w_status negb w_cap Nat.eqb].
    unfold written. cbn. rewrite !app_nil_r. split; [|reflexivity].
    split; [reflexivity|]. split; [reflexivity|]. right. repeat split; auto.
  - rewrite app_length in E.
    unfold written. cbn. split; [|reflexivity].
    split; [reflexivity|]. split; [reflexivity|]. left. rewrite app_length. repeat split; auto. lia.
Qed.

Lemma invK_ok : forall C st, invK C st -> w_is_ok st = true.
Proof. intros C st (_ & H & _). unfold w_is_ok. rewrite H. reflexivity. Qed.
Lemma invB_ok : forall C st, invB C st -> w_is_ok st = true.
Proof. intros C st (_ & H & _). unfold w_is_ok. rewrite H. reflexivity. Qed.

Lemma spec_string : forall C bs, spec C (fun st => wb_string st bs) bs.
Proof.
  intros C bs st. unfold wb_string. split.
  - intros I. rewrite (invK_ok _ _ I). cbn [negb]. apply string_K; [exact I|].
    destruct (Nat.eqb (length (w_pend st)) C); lia.
  - intros I L. rewrite (invB_ok _ _ I). cbn [negb]. apply string_B; assumption.
Qed.

Lemma spec_value : forall C z, spec C (fun st => wb_value st z) (enc_int z).
Proof.
  intros C z. unfold wb_value, enc_int.
  destruct (z =? 0)%Z; [apply spec_char|].
  destruct (z <? 0)%Z.
  - apply (spec_seq C (fun st => wb_char st ch_minus) (fun st => wb_string st _) [ch_minus]).
    + apply spec_char. + apply spec_string.
  - apply spec_string.
Qed.

Lemma spec_obj_string : forall C s, spec C (fun st => wb_obj_string st s) (enc_str s).
Proof.
  intros C s. unfold wb_obj_string, enc_str.
  set (n := (N.of_nat (length s) mod two32)%N).
  assert (E : enc_int (Z.of_N n) = dec_of_N n).
  { unfold enc_int. destruct (Z.eqb_spec (Z.of_N n) 0) as [Z0|Z0].
    - assert (n = 0%N) by lia. subst n. rewrite H. reflexivity.
    - destruct (Z.ltb_spec (Z.of_N n) 0); [lia|]. rewrite N2Z.id. reflexivity. }
  rewrite <- E.
  change (enc_int (Z.of_N n) ++ ch_colon :: firstn (N.to_nat n) s)
    with (enc_int (Z.of_N n) ++ [ch_colon] ++ firstn (N.to_nat n) s).
  apply (spec_seq C (fun st => wb_value st (Z.of_N n)) (fun st => wb_string (wb_char st ch_colon) _)).
  - apply spec_value.
  - apply (spec_seq C (fun st => wb_char st ch_colon) (fun st => wb_string st _)).
    + apply spec_char. + apply spec_string.
Qed.

Lemma spec_object : forall C v, spec C (fun st => wb_object st v) (enc v).
Proof.
  intros C. apply value_ind2.
  - intros z. cbn [wb_object enc].
    change (ch_i :: enc_int z ++ [ch_e]) with ([ch_i] ++ enc_int z ++ [ch_e]).
    apply (spec_seq C (fun st => wb_char st ch_i) (fun st => wb_char (wb_value st z) ch_e)); [apply spec_char|].
    apply (spec_seq C (fun st => wb_value st z) (fun st => wb_char st ch_e)); [apply spec_value|apply spec_char].
  - intros s. cbn [wb_object enc]. apply spec_obj_string.
  - intros l H. cbn [wb_object enc].
    change (ch_l :: flat_map enc l ++ [ch_e]) with (([ch_l] ++ flat_map enc l) ++ [ch_e]).
    apply (spec_seq C (fun st => fold_left wb_object l (wb_char st ch_l)) (fun st => wb_char st ch_e)); [|apply spec_char].
    apply (spec_fold C value wb_object enc l H (fun st => wb_char st ch_l) [ch_l]). apply spec_char.
  - intros m H. cbn [wb_object enc].
    change (ch_d :: flat_map (fun kv => enc_str (fst kv) ++ enc (snd kv)) m ++ [ch_e])
      with (([ch_d] ++ flat_map (fun kv => enc_str (fst kv) ++ enc (snd kv)) m) ++ [ch_e]).
    apply (spec_seq C (fun st => fold_left (fun s kv => wb_object (wb_obj_string s (fst kv)) (snd kv)) m (wb_char st ch_d))
                      (fun st => wb_char st ch_e)); [|apply spec_char].
    apply (spec_fold C (bytes * value)%type (fun s kv => wb_object (wb_obj_string s (fst kv)) (snd kv))
             (fun kv => enc_str (fst kv) ++ enc (snd kv)) m); [|apply spec_char].
    induction H as [|kv m Hkv Hm IH]; constructor; [|exact IH].
    apply (spec_seq C (fun st => wb_obj_string st (fst kv)) (fun st => wb_object st (snd kv))); [apply spec_obj_string|exact Hkv].
Qed.

(* ---------------------------------------------------------------- top-level theorems *)

(* chunk shape: what the callback saw, in order — every chunk but the last is exactly C bytes, the
   last has 1..C bytes; written most-recent-first in w_chunks *)
Definition chunks_shape (C : nat) (chunks : list bytes) : Prop :=
  match chunks with
  | [] => True
  | last :: full => 0 < length last <= C /\ Forall (fun c => length c = C) full
  end.

Theorem wb_keep_stream : forall C v, 0 < C ->
  let st := wb_run SinkKeep C v in
  w_status st = WbOk /\ w_pend st = [] /\ concat (rev (w_chunks st)) = enc v /\ chunks_shape C (w_chunks st).
Proof.
  intros C v HC. unfold wb_run.
  destruct (spec_object C v (wb_init SinkKeep C)) as [HK _].
  destruct HK as [I W]. { unfold invK, wb_init. cbn. repeat split; auto. lia. }
  set (s1 := wb_object (wb_init SinkKeep C) v) in *.
  unfold written, wb_init in W. cbn in W.
  destruct s1 as [k cap pend chunks status]. unfold invK in I. cbn in I, W.
  destruct I as (-> & -> & -> & _ & HL & HF).
  unfold wb_finish. cbn.
  destruct pend as [|p pend].
  - cbn. rewrite app_nil_r in W. repeat split; auto.
    unfold chunks_shape. destruct chunks as [|c cs]; [exact I|].
    inversion HF; subst. split; [lia|assumption].
  - cbn [w_status w_pend w_chunks]. rewrite concat_rev_cons. repeat split; auto.
    cbn [length] in *. lia.
Qed.

(* two buffer sizes give the same stream (chunking is unobservable in the concatenation) *)
Corollary wb_keep_chunking_irrelevant : forall C1 C2 v, 0 < C1 -> 0 < C2 ->
  concat (rev (w_chunks (wb_run SinkKeep C1 v))) = concat (rev (w_chunks (wb_run SinkKeep C2 v))).
Proof.
  intros C1 C2 v H1 H2.
  destruct (wb_keep_stream C1 v H1) as (_ & _ & E1 & _).
  destruct (wb_keep_stream C2 v H2) as (_ & _ & E2 & _).
  rewrite E1, E2. reflexivity.
Qed.

Theorem wb_buffer_fits : forall C v, length (enc v) <= C ->
  let st := wb_run SinkBuffer C v in
  w_status st = WbOk /\ w_pend st = [] /\ concat (rev (w_chunks st)) = enc v.
Proof.
  intros C v HC. unfold wb_run.
  destruct (spec_object C v (wb_init SinkBuffer C)) as [_ HB].
  destruct HB as [I W].
  { unfold invB, wb_init. cbn. split; [reflexivity|]. split; [reflexivity|]. left. repeat split; auto; lia. }
  { unfold rem, wb_init. cbn. lia. }
  set (s1 := wb_object (wb_init SinkBuffer C) v) in *.
  unfold written, wb_init in W. cbn in W.
  destruct s1 as [k cap pend chunks status]. unfold invB in I. cbn in I, W.
  destruct I as (-> & -> & [(-> & -> & HL) | (-> & -> & HL)]).
  - unfold wb_finish. cbn. cbn in W. destruct pend as [|p pend]; cbn; repeat split; auto.
    rewrite app_nil_r. exact W.
  - unfold wb_finish. cbn. rewrite app_nil_r in W. repeat split; auto.
Qed.

(* "an encoding that does not fit the buffer raises internal_error" is FALSE of the code: when the
   buffer is filled exactly by object_write_bencode_c_char and exactly one more _c_char follows, the
   callback hands back the empty buffer, the byte is dropped and nothing throws: "le" into a 1-byte
   buffer returns normally having written "l"; "i0e" into 2 bytes writes "i0". *)
Theorem wb_buffer_overflow_detected_refuted : exists C v,
  C < length (enc v) /\ w_status (wb_run SinkBuffer C v) = WbOk /\
  concat (rev (w_chunks (wb_run SinkBuffer C v))) = firstn C (enc v).
Proof. exists 1, (VList []). vm_compute. repeat split; auto. Qed.

Local Open Scope N_scope.
Example wb_examples :
  wb_encode SinkKeep 3%nat (VList [VInt 10; VStr [97; 98]]) = (WbOk, [[108; 105; 49]; [48; 101; 50]; [58; 97; 98]; [101]]) /\
  wb_encode SinkBuffer 2%nat (VInt 0) = (WbOk, [[105; 48]]) /\
  wb_encode SinkBuffer 2%nat (VInt 5) = (WbInternal, [[105; 53]]) /\
  wb_encode SinkBuffer 3%nat (VInt 5) = (WbOk, [[105; 53; 101]]) /\
  wb_encode SinkKeep 0%nat (VInt 5) = (WbOk, [[]; []; []]).
Proof. repeat split; vm_compute; reflexivity. Qed.
