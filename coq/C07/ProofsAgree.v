(* Agreement of the decoders: on every input the buffer reader accepts, the stream reader either
   returns exactly the same value, flag and rest, or rejects (strings above its 32 MiB cap).
   Hence whenever both accept they agree. Also: stream round trip. *)
From Coq Require Import List NArith ZArith Bool Lia ZifyBool ZifyNat ZifyN.
Ltac Zify.zify_post_hook ::= Z.to_euclidean_division_equations.
From LTV Require Import Common.Bytes.
From LTV.C07 Require Import ParamsGen Model ProofsDec ProofsSafe ProofsRT ProofsFaith.
Import ListNotations.
Local Open Scope N_scope.

Lemma c_digits_pos_rest : forall l a z rest, c_digits_pos l a = Some (z, rest) -> nondigit_head rest.
Proof.
  induction l as [|c l IH]; intros a z rest H; cbn [c_digits_pos] in H.
  - inversion H; subst; exact I.
  - destruct (is_digit c) eqn:Hc.
    + destruct (_ >? _)%Z; [discriminate|]. eapply IH, H.
    + inversion H; subst. exact Hc.
Qed.

Lemma c_digits_neg_rest : forall l a z rest, c_digits_neg l a = Some (z, rest) -> nondigit_head rest.
Proof.
  induction l as [|c l IH]; intros a z rest H; cbn [c_digits_neg] in H.
  - inversion H; subst; exact I.
  - destruct (is_digit c) eqn:Hc.
    + destruct (_ <? _)%Z; [discriminate|]. eapply IH, H.
    + inversion H; subst. exact Hc.
Qed.

Lemma c_value_rest l z rest : c_value l = Some (z, rest) -> nondigit_head rest.
Proof.
  unfold c_value. destruct l as [|c l']; [discriminate|].
  destruct (c =? ch_minus).
  - destruct l' as [|c1 l'']; [discriminate|]. destruct (_ || _); [discriminate|]. apply c_digits_neg_rest.
  - destruct (is_digit c); [|discriminate]. apply c_digits_pos_rest.
Qed.

Lemma c_len_digits_rest : forall l acc hd len l1, c_len_digits l acc hd = Some (len, l1) -> nondigit_head l1.
Proof.
  induction l as [|c l IH]; intros acc hd len l1 H; cbn [c_len_digits] in H.
  - inversion H; subst; exact I.
  - destruct (is_digit c) eqn:Hc.
    + destruct (hd && _); [discriminate|]. eapply IH, H.
    + inversion H; subst. exact Hc.
Qed.

(* libstdc++ digit accumulation on a digit run that does not overflow *)
Lemma num_digits_run : forall ds max acc any rest,
  all_digits ds -> dval acc ds <= max -> nondigit_head rest ->
  num_digits (ds ++ rest) max acc false any = (dval acc ds, false, any || negb (match ds with [] => true | _ => false end), rest).
Proof.
  induction ds as [|c ds IH]; intros max acc any rest Hd Hv Hr.
  - cbn [app dval fold_left]. rewrite orb_false_r. destruct rest as [|c r]; cbn [num_digits]; [reflexivity|].
    cbn in Hr. rewrite Hr. reflexivity.
  - inversion Hd as [|? ? Hc Hds]; subst. cbn [app num_digits]. rewrite Hc.
    assert (Hge : acc * 10 + digit_val c <= dval (acc * 10 + digit_val c) ds) by apply dval_ge.
    change (dval acc (c :: ds)) with (dval (acc * 10 + digit_val c) ds) in *.
    destruct (N.ltb_spec (max / 10) acc) as [|_]; [exfalso; lia|].
    destruct (N.ltb_spec (max - digit_val c) (acc * 10)) as [|_]; [exfalso; lia|]. cbn [orb].
    rewrite IH by assumption. rewrite orb_true_r. destruct ds; reflexivity.
Qed.

Lemma skip_ws_nonspace c l : is_space c = false -> skip_ws (c :: l) = c :: l.
Proof. intros H. cbn [skip_ws]. rewrite H. reflexivity. Qed.

Lemma digit_not_space c : is_digit c = true -> is_space c = false /\ (c =? ch_minus) = false /\ (c =? ch_plus) = false.
Proof. intros H. apply is_digit_spec in H. unfold is_space, ch_minus, ch_plus. lia. Qed.

Lemma stream_int64_of_c l z rest : c_value l = Some (z, rest) -> stream_int64 l = Some (z, rest).
Proof.
  intros H. pose proof (c_value_rest _ _ _ H) as Hr. apply c_value_spec in H.
  destruct H as [Hz [(ds & n & (Hne & Hds & Hv) & -> & ->)|(c & ds & n & (Hne & Hds & Hv) & Hc & -> & ->)]];
    unfold in_int64, int64_min, int64_max in Hz; apply andb_true_iff in Hz; destruct Hz as [Hlo Hhi];
    apply Z.leb_le in Hlo, Hhi.
  - destruct ds as [|c ds]; [congruence|]. inversion Hds as [|? ? Hc _]; subst.
    destruct (digit_not_space c Hc) as (S1 & S2 & S3).
    unfold stream_int64. cbn [app]. rewrite skip_ws_nonspace by exact S1. rewrite S2, S3.
    change (c :: ds ++ rest) with ((c :: ds) ++ rest).
    rewrite num_digits_run; [|exact Hds|lia|exact Hr]. cbn [orb negb]. reflexivity.
  - unfold stream_int64. cbn [app].
    assert (S1 : is_space ch_minus = false) by reflexivity. rewrite skip_ws_nonspace by exact S1.
    change (ch_minus =? ch_minus) with true. cbn iota.
    change (c :: ds ++ rest) with ((c :: ds) ++ rest).
    rewrite num_digits_run; [|exact Hds|lia|exact Hr]. cbn [orb negb]. rewrite Hv. reflexivity.
Qed.

Lemma stream_string_of_c l s rest :
  small l -> c_string l = Ok s rest -> stream_string l = Some (s, rest) \/ stream_string l = None.
Proof.
  intros Hs H.
  assert (Hr : exists len l1, c_len_digits l two31 false = Some (len, l1)).
  { unfold c_string in H. destruct (c_len_digits l two31 false) as [[len l1]|]; [eauto|discriminate]. }
  apply c_string_spec in H; [|exact Hs]. destruct H as (ds & (Hne & Hds & Hv) & ->).
  destruct ds as [|c ds]; [congruence|]. inversion Hds as [|? ? Hc _]; subst.
  destruct (digit_not_space c Hc) as (S1 & S2 & S3).
  unfold stream_string, stream_uint32. cbn [app]. rewrite skip_ws_nonspace by exact S1. rewrite S2, S3.
  change (c :: ds ++ ch_colon :: s ++ rest) with ((c :: ds) ++ ch_colon :: s ++ rest).
  assert (Hlen : N.of_nat (length s) < two31).
  { unfold small in Hs. rewrite !app_length in Hs. cbn [length] in Hs. rewrite app_length in Hs. lia. }
  rewrite num_digits_run; [|exact Hds|unfold two31, two32 in *; lia|reflexivity]. cbn [orb negb].
  change (ch_colon =? ch_colon) with true. cbn [negb]. rewrite Hv.
  destruct (string_limit_stream <? N.of_nat (length s)); [right; reflexivity|].
  rewrite app_length.
  destruct (N.ltb_spec (N.of_nat (length s + length rest)) (N.of_nat (length s))) as [|_]; [lia|].
  left. rewrite Nat2N.id.
  rewrite firstn_app, Nat.sub_diag, firstn_all. cbn [firstn]. rewrite app_nil_r.
  rewrite skipn_app, Nat.sub_diag, skipn_all. reflexivity.
Qed.

Definition same_or_reject (A B : res (value * bool)) : Prop := B = A \/ B = Reject.

Lemma depth_limits_equal : depth_limit_stream = depth_limit_c.
Proof. reflexivity. Qed.

Lemma dec_c_implies_dec_s : forall f,
  (forall d l x r, small l -> dec_c f d l = Ok x r -> same_or_reject (Ok x r) (dec_s f d l)) /\
  (forall d l acc fl x r, small l -> items_c f d l acc fl = Ok x r -> same_or_reject (Ok x r) (items_s f d l acc fl)) /\
  (forall d l m prev fl x r, small l -> entries_c f d l m prev fl = Ok x r -> same_or_reject (Ok x r) (entries_s f d l m prev fl)).
Proof.
  unfold same_or_reject.
  induction f as [|f (IHd & IHi & IHe)].
  - repeat split; intros; cbn in *; discriminate.
  - split; [|split].
    + intros d l x r Hs H. cbn [dec_c] in H. cbn [dec_s]. destruct l as [|c l']; [discriminate|].
      destruct (c =? ch_i).
      { destruct (c_value l') as [[z [|e rest]]|] eqn:E; try discriminate.
        apply stream_int64_of_c in E. rewrite E. destruct (e =? ch_e); [left; exact H|discriminate]. }
      destruct (c =? ch_l).
      { rewrite depth_limits_equal. destruct (_ <=? _); [discriminate|].
        apply IHi; [apply (small_suffix [c]); exact Hs|exact H]. }
      destruct (c =? ch_d).
      { rewrite depth_limits_equal. destruct (_ <=? _); [discriminate|].
        apply IHe; [apply (small_suffix [c]); exact Hs|exact H]. }
      destruct (is_digit c); [|discriminate].
      destruct (c_string (c :: l')) as [s rest| | |] eqn:E; try discriminate.
      apply stream_string_of_c in E; [|exact Hs]. destruct E as [E|E]; rewrite E; [left; exact H|right; reflexivity].
    + intros d l acc fl x r Hs H. cbn [items_c] in H. cbn [items_s]. destruct l as [|c l']; [discriminate|].
      destruct (c =? ch_e); [left; exact H|].
      destruct (dec_c f d (c :: l')) as [[v uf] rest| | |] eqn:E; try discriminate.
      pose proof E as E'. apply (proj1 (dec_c_faithful_all f)) in E'; [|exact Hs]. destruct E' as (pre & Epre & _).
      apply IHd in E; [|exact Hs]. destruct E as [E|E]; rewrite E; [|right; reflexivity].
      apply IHi; [rewrite Epre in Hs; eapply small_suffix; exact Hs|exact H].
    + intros d l m prev fl x r Hs H. cbn [entries_c] in H. cbn [entries_s]. destruct l as [|c l']; [discriminate|].
      destruct (c =? ch_e); [left; exact H|].
      destruct (c_string (c :: l')) as [k rest| | |] eqn:E0; try discriminate.
      pose proof E0 as E0'. apply c_string_spec in E0'; [|exact Hs]. destruct E0' as (ds & _ & E0').
      assert (Hsr : small rest).
      { rewrite E0' in Hs. replace (ds ++ ch_colon :: k ++ rest) with ((ds ++ ch_colon :: k) ++ rest) in Hs
          by (rewrite <- app_assoc; reflexivity). eapply small_suffix; exact Hs. }
      apply stream_string_of_c in E0; [|exact Hs]. destruct E0 as [E0|E0]; rewrite E0; [|right; reflexivity].
      destruct (dec_c f d rest) as [[v uf] rest'| | |] eqn:E; try discriminate.
      pose proof E as E'. apply (proj1 (dec_c_faithful_all f)) in E'; [|exact Hsr]. destruct E' as (pre & Epre & _).
      apply IHd in E; [|exact Hsr]. destruct E as [E|E]; rewrite E; [|right; reflexivity].
      apply IHe; [rewrite Epre in Hsr; eapply small_suffix; exact Hsr|exact H].
Qed.

Theorem decoders_agree l v1 f1 r1 v2 f2 r2 :
  small l -> decode_c l = Ok (v1, f1) r1 -> decode_stream l = Ok (v2, f2) r2 ->
  v1 = v2 /\ f1 = f2 /\ r1 = r2.
Proof.
  intros Hs H1 H2. unfold decode_c, decode_stream in *.
  apply (proj1 (dec_c_implies_dec_s _)) in H1; [|exact Hs].
  destruct H1 as [H1|H1]; rewrite H1 in H2; [|discriminate]. inversion H2; subst. auto.
Qed.

(* stream round trip, from the buffer round trip + agreement: the stream reader returns the tree
   unless it rejects; it rejects only strings above its cap, which well-formed-for-stream trees
   do not contain — proved directly for the leaf, lifted through agreement *)
Theorem enc_dec_stream_partial : forall v r,
  wf v -> height v < depth_limit_c -> N.of_nat (length (enc v ++ r)) < two31 ->
  decode_stream (enc v ++ r) = Ok (v, false) r \/ decode_stream (enc v ++ r) = Reject.
Proof.
  intros v r Hwf Hh Hs.
  assert (H : decode_c (enc v ++ r) = Ok (v, false) r).
  { apply enc_dec_c; try assumption. unfold two31, two32 in *. lia. }
  unfold decode_c, decode_stream in *.
  apply (proj1 (dec_c_implies_dec_s _)) in H; [|exact Hs]. exact H.
Qed.
