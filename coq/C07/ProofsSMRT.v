(* Static-map round trip, computed instances and the empty map. The for-all theorem
   (static_map_roundtrip: every table with table_rt_ok, every entry assignment on rows without "[]")
   is in ProofsSMRound.v. What is still PARTIAL: filled list rows ("x[]…"), for which only the
   explicit instances below are proved (finite, computed by vm_compute). *)
From Coq Require Import List NArith ZArith Bool Lia.
From LTV Require Import Common.Bytes.
From LTV.C07 Require Import ParamsGen Model StaticMap ProofsSM.
Import ListNotations.
Local Open Scope N_scope.

Definition rt_holds (tbl : ktable) (e : entries) : bool :=
  match sm_write tbl e with
  | WOk _ out =>
      match sm_read tbl (out ++ [120; 121]) with        (* followed by two unrelated bytes *)
      | Ok e' rest =>
          (match rest with [120; 121] => true | _ => false end) &&
          (N.of_nat (length e') =? N.of_nat (length e)) &&
          forallb (fun p =>
            match fst p, snd p with
            | None, None => true
            | Some (SObj v1 f1), Some (SObj v2 f2) => bytes_eqb (enc v1) (enc v2) && Bool.eqb f1 f2
            | Some (SRaw k1 b1), Some (SRaw k2 b2) =>
                bytes_eqb b1 b2 && match k1, k2 with
                                   | RawAny, RawAny | RawS, RawS | RawL, RawL | RawM, RawM => true
                                   | _, _ => false end
            | _, _ => false
            end) (combine e e')
      | _ => false
      end
  | _ => false
  end.

Definition inst_handshake : entries :=
  [Some (SObj (VInt 1) false); Some (SObj (VInt 2) false); Some (SObj (VInt 0) false);
   Some (SObj (VInt 9223372036854775807) false); Some (SObj (VInt 6881) false);
   Some (SObj (VInt (-9223372036854775808)) false); Some (SObj (VStr [108; 105; 98; 0; 255]) false)].
Definition inst_handshake2 : entries :=
  [None; None; Some (SObj (VMap [([97], VList [VInt 1; VStr []])]) false); None; None; None;
   Some (SObj (VList []) false)].
Definition inst_pex : entries := [Some (SRaw RawS [1; 2; 3; 4; 26; 225; 0; 58; 101])].
Definition inst_metadata : entries := [Some (SObj (VInt 1) false); Some (SObj (VInt 0) false); Some (SObj (VInt 16384) false)].
Definition inst_dht_query : entries :=
  [Some (SRaw RawS [97; 97]); Some (SRaw RawS [98; 0; 98]); Some (SObj (VInt 6881) false); None; Some (SRaw RawS []);
   None; None; Some (SRaw RawS [112; 105; 110; 103]); None; None; None; None;
   Some (SRaw RawS [116; 116]); Some (SRaw RawAny [52; 58; 76; 84; 0; 1]); Some (SRaw RawS [113])].
Definition inst_dht_reply : entries :=
  [None; None; None; None; None;
   Some (SRaw RawAny [105; 50; 48; 49; 101]); Some (SRaw RawAny [53; 58; 104; 101; 108; 108; 111]);
   None; Some (SRaw RawS [105; 100]); Some (SRaw RawS [110; 110]); Some (SRaw RawS [116]);
   Some (SRaw RawL [54; 58; 1; 2; 3; 4; 5; 6; 54; 58; 6; 5; 4; 3; 2; 1]);
   Some (SRaw RawS [116; 116]); None; Some (SRaw RawS [114])].
Definition synth_tbl : ktable :=
  [(0, [97; 58; 58; 98; 58; 58; 99]); (1, [97; 58; 58; 98; 58; 58; 100; 42; 83]); (2, [97; 58; 58; 101; 91; 93; 42]);
   (3, [97; 58; 58; 101; 91; 93; 42]); (4, [102; 42; 77]); (5, [103; 91; 93]); (6, [103; 91; 93]); (7, [122])].
Definition inst_synth : entries :=
  [Some (SObj (VInt 5) false); Some (SRaw RawS [120]); Some (SRaw RawAny [105; 49; 101]); Some (SRaw RawAny [108; 101]);
   Some (SRaw RawM [49; 58; 97; 105; 49; 101]); Some (SObj (VList [VInt 1]) false); Some (SObj (VStr [113]) false);
   Some (SObj (VMap []) false)].

Theorem static_map_roundtrip_instances :
  rt_holds ext_handshake inst_handshake = true /\ rt_holds ext_handshake inst_handshake2 = true /\
  rt_holds ext_pex inst_pex = true /\ rt_holds ext_metadata inst_metadata = true /\
  rt_holds dht inst_dht_query = true /\ rt_holds dht inst_dht_reply = true /\
  table_ok synth_tbl = true /\ rt_holds synth_tbl inst_synth = true.
Proof. repeat split; vm_compute; reflexivity. Qed.

(* the empty map: for EVERY table the writer emits "de" and the reader returns the empty map *)
Lemma sm_write_loop_empty : forall tl n stack out, (length tl <= n)%nat ->
  Forall (fun ik => N.to_nat (fst ik) < n)%nat tl ->
  sm_write_loop tl (repeat None n) None stack out = WOk stack out.
Proof.
  induction tl as [|[idx k] tl IH]; intros n stack out Hn Hi; cbn [sm_write_loop]; [reflexivity|].
  inversion Hi as [|? ? H1 H2]; subst. cbn [fst] in H1.
  assert (E : nth_error (repeat (@None sval) n) (N.to_nat idx) = Some None).
  { rewrite nth_error_nth' with (d := None) by (rewrite repeat_length; exact H1).
    f_equal. apply nth_repeat. }
  rewrite E. apply IH; [cbn [length] in Hn; lia|exact H2].
Qed.

Theorem static_map_roundtrip_empty tbl r : table_ok tbl = true ->
  sm_write tbl (empty_entries tbl) = WOk [] [ch_d; ch_e] /\
  sm_read tbl ([ch_d; ch_e] ++ r) = Ok (empty_entries tbl) r.
Proof.
  intros Ht. split.
  - unfold sm_write, empty_entries. rewrite sm_write_loop_empty; [reflexivity|lia|].
    apply Forall_forall. intros [idx k] Hin. cbn [fst].
    unfold table_ok in Ht. rewrite forallb_forall in Ht. specialize (Ht _ Hin). cbn [fst snd] in Ht.
    apply andb_true_iff in Ht. destruct Ht as [Ht _]. apply N.ltb_lt in Ht. lia.
  - reflexivity.
Qed.
