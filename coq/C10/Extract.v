From Coq Require Import Extraction ExtrOcamlBasic NArith ZArith.
From LTV.C10 Require Import Model.
Set Extraction Optimize.
Extraction Language OCaml.
Extraction "extracted/c10_model.ml" load opened check hash_succeeded uncertain_saved saved_mtime resave_unchecked unc_kept_flag Z.of_N.
