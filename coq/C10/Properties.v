(* C10 — property theorems. Statements only; proofs are in Proofs.v.  Model: coq/C10/Model.v. *)
From Coq Require Import List NArith ZArith Bool Arith.
From LTV.C10 Require Import ParamsGen Model Proofs.
Import ListNotations.

Theorem params_ok_now : Proofs.params_ok = true.
Proof. exact Proofs.params_ok_now. Qed.
Print Assumptions params_ok_now.

(* resume_total: ANY resume object is Ignored (state unchanged), Loaded or Threw; bitfield and
   ranges never reach the piece count *)
Theorem resume_total : forall n ld fs nf r,
  let s0 := opened n nf in
  (length (l_ranges (fst (load n ld fs s0 r))) = n /\
   forall b, l_bits (fst (load n ld fs s0 r)) = Some b -> length b = n) /\
  (snd (load n ld fs s0 r) = Ignored -> fst (load n ld fs s0 r) = s0).
Proof. exact Proofs.resume_total. Qed.
Print Assumptions resume_total.

(* resume_sound (check step): after the requested check every set bit is valid, provided every
   piece the loader trusted (bit set, outside the ranges) is valid *)
Theorem resume_sound_check : forall n s valid,
  (length (l_ranges s) = n /\ forall b, l_bits s = Some b -> length b = n) -> length valid = n ->
  (forall b i, l_bits s = Some b -> i < n -> nth i b false = true -> nth i (l_ranges s) false = false ->
               nth i valid false = true) ->
  forall i, i < n -> nth i (check s valid) false = true -> nth i valid false = true.
Proof. exact Proofs.resume_sound_check. Qed.
Print Assumptions resume_sound_check.

(* resume_keeps_progress: an untouched, synced file (same size, same real mtime) is left alone *)
Theorem resume_keeps_progress : forall n s k f m,
  fi_pad f = false -> fi_stat f = Some (fi_size f, m) ->
  m <> m0 -> m <> m1 -> m <> m2 -> m <> m3 ->
  load_file n s k f (FMap (MVal m)) = Some (set_flags s k (false, false)).
Proof. exact Proofs.resume_keeps_progress. Qed.
Print Assumptions resume_keeps_progress.

Example resume_keeps_progress_nonvacuous :
  let f := mkFI 0 4 false 8192%N (Some (8192%N, 500%Z)) in
  load_file 8 (mkL (Some (repeat true 8)) (repeat false 8) [(true, true)]) 0 f (FMap (MVal 500%Z))
  = Some (mkL (Some (repeat true 8)) (repeat false 8) [(false, false)]).
Proof. vm_compute. reflexivity. Qed.

(* a deleted / resized / re-timed / ~2 / mtime-less file always has its whole range rechecked *)
Theorem resume_distrusts : forall n s k f e s',
  fi_pad f = false ->
  (e = FMap MNone \/
   exists m, e = FMap (MVal m) /\ m <> m0 /\ m <> m1 /\
     (fi_stat f = None \/ (exists sz mt, fi_stat f = Some (sz, mt) /\ (sz <> fi_size f \/ (m <> m3 /\ (m = m2 \/ m <> mt)))))) ->
  load_file n s k f e = Some s' ->
  exists s1, update_range n s1 true (fi_first f) (fi_last f) = Some s'.
Proof. exact Proofs.resume_distrusts. Qed.
Print Assumptions resume_distrusts.

(* the 15-minute look-back of the save is inside what TransferList retains *)
Theorem uncertain_window_kept : forall l now now' t i,
  In (t, i) (hash_succeeded l now' i) \/ In (t, i) l ->
  In (t, i) l -> (now - Params.c10_uncertain_window_min <= t)%Z ->
  In i (uncertain_saved l now).
Proof. exact Proofs.uncertain_window_kept. Qed.
Print Assumptions uncertain_window_kept.

(* resume_sound, end to end on the model (save record -> crash / perturbations -> load -> check).
   The one hypothesis [trust] spells out what the code relies on: a piece completed by the previous
   session, all of whose files exist with the saved size and either were saved as ~3 or still carry
   the saved mtime, and which the uncertain list does not name, is still valid on disk (i.e. pieces
   were verified when set; a rewrite changes size or mtime; a file saved while active (~3) is not
   rewritten afterwards — the recorded known finding; crash losses lie in the uncertain window). *)
From LTV.C10 Require Import ProofsSound.
Theorem resume_sound : forall n ld fs ms bits_s flags0 u ts valid r,
  r_map r = true -> r_files r = Some (map (fun m => FMap (MVal m)) ms) -> length ms = length fs ->
  r_unc r = Some u -> r_unc_ts r = Some ts -> (ts < ld)%Z ->
  load_bitfield n (opened n (length fs)) (r_bits r) = Some (mkL (Some bits_s) (repeat false n) flags0) ->
  length valid = n ->
  snd (load n ld fs (opened n (length fs)) r) = Loaded ->
  (forall i, i < n -> nth i bits_s false = true ->
     Forall2 (fun f m => fi_pad f = false -> covers f i -> kept f m) fs ms ->
     ~ In i (unc_indices u (length u)) -> nth i valid false = true) ->
  forall i, i < n ->
    nth i (check (fst (load n ld fs (opened n (length fs)) r)) valid) false = true -> nth i valid false = true.
Proof. exact ProofsSound.resume_sound. Qed.
Print Assumptions resume_sound.

(* two files of 4 pieces each, all saved complete; the second was rewritten (mtime 507 instead of 500)
   and piece 2 was lost in the crash but is named by the uncertain list: the load is accepted, pieces
   2 and 4..7 are rechecked, and the final bitfield is exactly the valid pieces *)
Example resume_sound_nonvacuous :
  let fs := [mkFI 0 4 false 8192%N (Some (8192%N, 500%Z)); mkFI 4 8 false 8192%N (Some (8192%N, 507%Z))] in
  let r := mkR true (Some [FMap (MVal 500%Z); FMap (MVal 500%Z)]) (BVal 8) (Some [0;0;0;2]%N) (Some 5%Z) in
  let valid := [true; true; false; true; false; false; true; false] in
  snd (load 8 10%Z fs (opened 8 2) r) = Loaded /\
  l_ranges (fst (load 8 10%Z fs (opened 8 2) r)) = [false; false; true; false; true; true; true; true] /\
  check (fst (load 8 10%Z fs (opened 8 2) r)) valid = valid.
Proof. vm_compute. repeat split; reflexivity. Qed.

(* resume_sound with the loss subset and the perturbations quantified explicitly: for EVERY subset [lost]
   of the pieces named by the saved uncertain list and EVERY set of touched files whose keep-test fails
   (size or mtime changed, not saved ~3), every bit set after load + check is valid on the perturbed disk
   (valid_after = valid before /\ not lost /\ under no touched file). *)
Theorem resume_sound_loss : forall n ld fs ms bits_s flags0 u ts r valid_before lost touched,
  r_map r = true -> r_files r = Some (map (fun m => FMap (MVal m)) ms) -> length ms = length fs ->
  r_unc r = Some u -> r_unc_ts r = Some ts -> (ts < ld)%Z ->
  load_bitfield n (opened n (length fs)) (r_bits r) = Some (mkL (Some bits_s) (repeat false n) flags0) ->
  snd (load n ld fs (opened n (length fs)) r) = Loaded ->
  (forall i, i < n -> nth i bits_s false = true -> nth i valid_before false = true) ->
  incl lost (unc_indices u (length u)) ->
  (forall k f m, nth_error fs k = Some f -> nth_error ms k = Some m -> touched k = true -> fi_pad f = false -> ~ kept f m) ->
  let valid := valid_after n fs valid_before lost touched in
  forall i, i < n ->
    nth i (check (fst (load n ld fs (opened n (length fs)) r)) valid) false = true -> nth i valid false = true.
Proof. exact ProofsSound.resume_sound_loss. Qed.
Print Assumptions resume_sound_loss.

Example resume_sound_loss_nonvacuous :
  let fs := [mkFI 0 4 false 8192%N (Some (8192%N, 500%Z)); mkFI 4 8 false 8192%N (Some (8192%N, 507%Z))] in
  let r := mkR true (Some [FMap (MVal 500%Z); FMap (MVal 500%Z)]) (BVal 8) (Some [0;0;0;2]%N) (Some 5%Z) in
  let touched := fun k => Nat.eqb k 1 in
  valid_after 8 fs (repeat true 8) [2] touched = [true; true; false; true; false; false; false; false] /\
  check (fst (load 8 10%Z fs (opened 8 2) r)) (valid_after 8 fs (repeat true 8) [2] touched)
  = valid_after 8 fs (repeat true 8) [2] touched.
Proof. vm_compute. split; reflexivity. Qed.

(* crash -> load -> the client saves the session before the requested check has completed -> restart.
   resave_unchecked is what that intermediate save does to the stored record (Model.v); whether the stored
   uncertain list survives it is probed on the compiled code (c10_unc_kept_while_unchecked). *)
Theorem resume_sound_resave : forall n ld fs r cl now valid,
  (0 <? Params.c10_unc_kept_while_unchecked)%N = true ->
  load n ld fs (opened n (length fs)) (resave_unchecked r cl now) = load n ld fs (opened n (length fs)) r /\
  check (fst (load n ld fs (opened n (length fs)) (resave_unchecked r cl now))) valid =
  check (fst (load n ld fs (opened n (length fs)) r)) valid.
Proof. exact ProofsSound.resume_sound_resave. Qed.
Print Assumptions resume_sound_resave.

(* as long as the save erases the list in that situation, the history resurrects a lost piece *)
Theorem resume_sound_resave_refuted :
  (Params.c10_unc_kept_while_unchecked =? 0)%N = true ->
  exists n ld fs r valid i,
    snd (load n ld fs (opened n (length fs)) r) = Loaded /\
    nth i (check (fst (load n ld fs (opened n (length fs)) r)) valid) false = false /\
    nth i (check (fst (load n ld fs (opened n (length fs)) (resave_unchecked r [] 1%Z))) valid) false = true /\
    nth i valid false = false.
Proof. exact ProofsSound.resume_sound_resave_refuted. Qed.
Print Assumptions resume_sound_resave_refuted.
