(* C10 — property theorems. Statements only; proofs are in Proofs.v.  Model: coq/C10/Model.v. *)
From Coq Require Import List NArith ZArith Bool Arith.
From LTV.C10 Require Import ParamsGen Model Proofs.
Import ListNotations.

Theorem params_ok_now : Proofs.params_ok = true.
Proof. exact Proofs.params_ok_now. Qed.
Print Assumptions params_ok_now.

(* resume_total: ANY resume object is Ignored (state unchanged), Loaded or Threw; bitfield and
   ranges never reach the piece count *)
Theorem resume_total : forall n ld fs nf r,
  let s0 := opened n nf in
  (length (l_ranges (fst (load n ld fs s0 r))) = n /\
   forall b, l_bits (fst (load n ld fs s0 r)) = Some b -> length b = n) /\
  (snd (load n ld fs s0 r) = Ignored -> fst (load n ld fs s0 r) = s0).
Proof. exact Proofs.resume_total. Qed.
Print Assumptions resume_total.

(* resume_sound (check step): after the requested check every set bit is valid, provided every
   piece the loader trusted (bit set, outside the ranges) is valid *)
Theorem resume_sound_check : forall n s valid,
  (length (l_ranges s) = n /\ forall b, l_bits s = Some b -> length b = n) -> length valid = n ->
  (forall b i, l_bits s = Some b -> i < n -> nth i b false = true -> nth i (l_ranges s) false = false ->
               nth i valid false = true) ->
  forall i, i < n -> nth i (check s valid) false = true -> nth i valid false = true.
Proof. exact Proofs.resume_sound_check. Qed.
Print Assumptions resume_sound_check.

(* resume_keeps_progress: an untouched, synced file (same size, same real mtime) is left alone *)
Theorem resume_keeps_progress : forall n s k f m,
  fi_pad f = false -> fi_stat f = Some (fi_size f, m) ->
  m <> m0 -> m <> m1 -> m <> m2 -> m <> m3 ->
  load_file n s k f (FMap (MVal m)) = Some (set_flags s k (false, false)).
Proof. exact Proofs.resume_keeps_progress. Qed.
Print Assumptions resume_keeps_progress.

Example resume_keeps_progress_nonvacuous :
  let f := mkFI 0 4 false 8192%N (Some (8192%N, 500%Z)) in
  load_file 8 (mkL (Some (repeat true 8)) (repeat false 8) [(true, true)]) 0 f (FMap (MVal 500%Z))
  = Some (mkL (Some (repeat true 8)) (repeat false 8) [(false, false)]).
Proof. vm_compute. reflexivity. Qed.

(* a deleted / resized / re-timed / ~2 / mtime-less file always has its whole range rechecked *)
Theorem resume_distrusts : forall n s k f e s',
  fi_pad f = false ->
  (e = FMap MNone \/
   exists m, e = FMap (MVal m) /\ m <> m0 /\ m <> m1 /\
     (fi_stat f = None \/ (exists sz mt, fi_stat f = Some (sz, mt) /\ (sz <> fi_size f \/ (m <> m3 /\ (m = m2 \/ m <> mt)))))) ->
  load_file n s k f e = Some s' ->
  exists s1, update_range n s1 true (fi_first f) (fi_last f) = Some s'.
Proof. exact Proofs.resume_distrusts. Qed.
Print Assumptions resume_distrusts.

(* the 15-minute look-back of the save is inside what TransferList retains *)
Theorem uncertain_window_kept : forall l now now' t i,
  In (t, i) (hash_succeeded l now' i) \/ In (t, i) l ->
  In (t, i) l -> (now - Params.c10_uncertain_window_min <= t)%Z ->
  In i (uncertain_saved l now).
Proof. exact Proofs.uncertain_window_kept. Qed.
Print Assumptions uncertain_window_kept.

(* resume_sound, end to end on the model (save record -> crash / perturbations -> load -> check).
   The one hypothesis [trust] spells out what the code relies on: a piece completed by the previous
   session, all of whose files exist with the saved size and either were saved as ~3 or still carry
   the saved mtime, and which the uncertain list does not name, is still valid on disk (i.e. pieces
   were verified when set; a rewrite changes size or mtime; a file saved while active (~3) is not
   rewritten afterwards — the recorded known finding; crash losses lie in the uncertain window). *)
From LTV.C10 Require Import ProofsSound.
Theorem resume_sound : forall n ld fs ms bits_s flags0 u ts valid r,
  r_map r = true -> r_files r = Some (map (fun m => FMap (MVal m)) ms) -> length ms = length fs ->
  r_unc r = Some u -> r_unc_ts r = Some ts -> (ts < ld)%Z ->
  load_bitfield n (opened n (length fs)) (r_bits r) = Some (mkL (Some bits_s) (repeat false n) flags0) ->
  length valid = n ->
  snd (load n ld fs (opened n (length fs)) r) = Loaded ->
  (forall i, i < n -> nth i bits_s false = true ->
     Forall2 (fun f m => fi_pad f = false -> covers f i -> kept f m) fs ms ->
     ~ In i (unc_indices u (length u)) -> nth i valid false = true) ->
  forall i, i < n ->
    nth i (check (fst (load n ld fs (opened n (length fs)) r)) valid) false = true -> nth i valid false = true.
Proof. exact ProofsSound.resume_sound. Qed.
Print Assumptions resume_sound.

(* two files of 4 pieces each, all saved complete; the second was rewritten (mtime 507 instead of 500)
   and piece 2 was lost in the crash but is named by the uncertain list: the load is accepted, pieces
   2 and 4..7 are rechecked, and the final bitfield is exactly the valid pieces *)
Example resume_sound_nonvacuous :
  let fs := [mkFI 0 4 false 8192%N (Some (8192%N, 500%Z)); mkFI 4 8 false 8192%N (Some (8192%N, 507%Z))] in
  let r := mkR true (Some [FMap (MVal 500%Z); FMap (MVal 500%Z)]) (BVal 8) (Some [0;0;0;2]%N) (Some 5%Z) in
  let valid := [true; true; false; true; false; false; true; false] in
  snd (load 8 10%Z fs (opened 8 2) r) = Loaded /\
  l_ranges (fst (load 8 10%Z fs (opened 8 2) r)) = [false; false; true; false; true; true; true; true] /\
  check (fst (load 8 10%Z fs (opened 8 2) r)) valid = valid.
Proof. vm_compute. repeat split; reflexivity. Qed.

(* resume_sound with the loss subset and the perturbations quantified explicitly: for EVERY subset [lost]
   of the pieces named by the saved uncertain list and EVERY set of touched files whose keep-test fails
   (size or mtime changed, not saved ~3), every bit set after load + check is valid on the perturbed disk
   (valid_after = valid before /\ not lost /\ under no touched file). *)
Theorem resume_sound_loss : forall n ld fs ms bits_s flags0 u ts r valid_before lost touched,
  r_map r = true -> r_files r = Some (map (fun m => FMap (MVal m)) ms) -> length ms = length fs ->
  r_unc r = Some u -> r_unc_ts r = Some ts -> (ts < ld)%Z ->
  load_bitfield n (opened n (length fs)) (r_bits r) = Some (mkL (Some bits_s) (repeat false n) flags0) ->
  snd (load n ld fs (opened n (length fs)) r) = Loaded ->
  (forall i, i < n -> nth i bits_s false = true -> nth i valid_before false = true) ->
  incl lost (unc_indices u (length u)) ->
  (forall k f m, nth_error fs k = Some f -> nth_error ms k = Some m -> touched k = true -> fi_pad f = false -> ~ kept f m) ->
  let valid := valid_after n fs valid_before lost touched in
  forall i, i < n ->
    nth i (check (fst (load n ld fs (opened n (length fs)) r)) valid) false = true -> nth i valid false = true.
Proof. exact ProofsSound.resume_sound_loss. Qed.
Print Assumptions resume_sound_loss.

Example resume_sound_loss_nonvacuous :
  let fs := [mkFI 0 4 false 8192%N (Some (8192%N, 500%Z)); mkFI 4 8 false 8192%N (Some (8192%N, 507%Z))] in
  let r := mkR true (Some [FMap (MVal 500%Z); FMap (MVal 500%Z)]) (BVal 8) (Some [0;0;0;2]%N) (Some 5%Z) in
  let touched := fun k => Nat.eqb k 1 in
  valid_after 8 fs (repeat true 8) [2] touched = [true; true; false; true; false; false; false; false] /\
  check (fst (load 8 10%Z fs (opened 8 2) r)) (valid_after 8 fs (repeat true 8) [2] touched)
  = valid_after 8 fs (repeat true 8) [2] touched.
Proof. vm_compute. split; reflexivity. Qed.

(* crash -> load -> the client saves the session before the requested check has completed -> restart.
   resave_unchecked is what that intermediate save does to the stored record (Model.v); whether the stored
   uncertain list survives it is probed on the compiled code (c10_unc_kept_while_unchecked). *)
Theorem resume_sound_resave : forall n ld fs r cl now valid,
  (0 <? Params.c10_unc_kept_while_unchecked)%N = true ->
  load n ld fs (opened n (length fs)) (resave_unchecked r cl now) = load n ld fs (opened n (length fs)) r /\
  check (fst (load n ld fs (opened n (length fs)) (resave_unchecked r cl now))) valid =
  check (fst (load n ld fs (opened n (length fs)) r)) valid.
Proof. exact ProofsSound.resume_sound_resave. Qed.
Print Assumptions resume_sound_resave.

(* as long as the save erases the list in that situation, the history resurrects a lost piece *)
Theorem resume_sound_resave_refuted :
  (Params.c10_unc_kept_while_unchecked =? 0)%N = true ->
  exists n ld fs r valid i,
    snd (load n ld fs (opened n (length fs)) r) = Loaded /\
    nth i (check (fst (load n ld fs (opened n (length fs)) r)) valid) false = false /\
    nth i (check (fst (load n ld fs (opened n (length fs)) (resave_unchecked r [] 1%Z))) valid) false = true /\
    nth i valid false = false.
Proof. exact ProofsSound.resume_sound_resave_refuted. Qed.
Print Assumptions resume_sound_resave_refuted.

(* ---------------------------------------------------------------- the per-file decision table *)
From LTV.C10 Require Import ProofsTable.

(* resume_file_table_total: for EVERY file, stat result and entry, load_file is the action named by the
   case table ProofsTable.file_verdict (PadSkip | Throw | Trust | Clear flags recheck) *)
Theorem resume_file_table_total : forall n s k f e,
  load_file n s k f e =
  match file_verdict f e with
  | PadSkip => Some s
  | Throw => None
  | Trust => Some (set_flags s k (false, false))
  | Clear fl rc => update_range n (set_flags s k fl) rc (fi_first f) (fi_last f)
  end.
Proof. exact ProofsTable.load_file_table. Qed.
Print Assumptions resume_file_table_total.

(* resume_file_table: non-padding file, saved mtime other than ~0 / ~1.  Over all combinations of
   (missing | smaller | larger | same size) x (~3 | ~2 | on-disk mtime | any other mtime) the file is
   trusted (flags cleared, bits and ranges untouched) when it exists with the saved size and the entry
   is ~3 or (not ~2 and) the on-disk mtime; in EVERY other combination the result is exactly
   update_range over the whole file range with recheck, resize queued iff missing / other size; and
   when that update_range is visible (non-empty range starting at a piece not yet queued) the trusted
   outcome characterises the condition (iff). *)
Theorem resume_file_table : forall n s k f m,
  fi_pad f = false -> m <> m0 -> m <> m1 ->
  let trusted := exists mt, fi_stat f = Some (fi_size f, mt) /\ (m = m3 \/ (m <> m2 /\ m = mt)) in
  let resize := match fi_stat f with Some (sz, _) => negb (N.eqb sz (fi_size f)) | None => true end in
  (trusted -> load_file n s k f (FMap (MVal m)) = Some (set_flags s k (false, false))) /\
  (~ trusted ->
     load_file n s k f (FMap (MVal m)) =
     update_range n (set_flags s k (false, resize)) true (fi_first f) (fi_last f)) /\
  (fi_first f < fi_last f -> fi_first f < length (l_ranges s) ->
   nth (fi_first f) (l_ranges s) false = false ->
   (load_file n s k f (FMap (MVal m)) = Some (set_flags s k (false, false)) <-> trusted)).
Proof. exact ProofsTable.resume_file_table. Qed.
Print Assumptions resume_file_table.

(* the remaining rows (~0, ~1, no mtime, entry not a map), making the table total *)
Theorem resume_file_table_special : forall n s k f,
  fi_pad f = false ->
  let ex := match fi_stat f with Some _ => true | None => false end in
  load_file n s k f (FMap (MVal m0)) = update_range n (set_flags s k (true, true)) ex (fi_first f) (fi_last f) /\
  load_file n s k f (FMap (MVal m1)) = update_range n (set_flags s k (false, false)) ex (fi_first f) (fi_last f) /\
  load_file n s k f (FMap MNone) = update_range n (set_flags s k (true, true)) true (fi_first f) (fi_last f) /\
  load_file n s k f FNotMap = None.
Proof. exact ProofsTable.resume_file_table_special. Qed.
Print Assumptions resume_file_table_special.

(* all 4 x 4 cells (stat: missing | smaller | larger | equal) x (entry: ~3 | ~2 | disk mtime | other):
   exactly the three cells (equal, ~3), (equal, disk mtime) are Trust; every other cell rechecks, with
   resize queued exactly in the first three rows *)
Example resume_file_table_nonvacuous :
  let fi st := mkFI 0 4 false 8192%N st in
  let stats := [None; Some (100%N, 500%Z); Some (9000%N, 500%Z); Some (8192%N, 500%Z)] in
  let ents := [m3; m2; 500%Z; 501%Z] in
  map (fun st => map (fun m => file_verdict (fi st) (FMap (MVal m))) ents) stats =
  [ [Clear (false, true) true; Clear (false, true) true; Clear (false, true) true; Clear (false, true) true];
    [Clear (false, true) true; Clear (false, true) true; Clear (false, true) true; Clear (false, true) true];
    [Clear (false, true) true; Clear (false, true) true; Clear (false, true) true; Clear (false, true) true];
    [Trust; Clear (false, false) true; Trust; Clear (false, false) true] ] /\
  load_file 8 (mkL (Some (repeat true 8)) (repeat false 8) [(true, true)]) 0 (fi (Some (8192%N, 500%Z))) (FMap (MVal 501%Z))
  = Some (mkL (Some [false; false; false; false; true; true; true; true])
              [true; true; true; true; false; false; false; false] [(false, false)]) /\
  load_file 8 (mkL (Some (repeat true 8)) (repeat false 8) [(true, true)]) 0 (fi (Some (8192%N, 500%Z))) (FMap (MVal m3))
  = Some (mkL (Some (repeat true 8)) (repeat false 8) [(false, false)]).
Proof. vm_compute. repeat split; reflexivity. Qed.

(* resume_save_load_file_roundtrip: saving a file's entry and loading it with nothing changed on disk is
   stable — a present file is trusted both when saved synced (real mtime) and when saved active (~3);
   a missing file is saved as ~0 / ~1 and loading clears its bits without queueing a recheck *)
Theorem resume_save_load_file_roundtrip : forall n s k f cq all_set active,
  fi_pad f = false ->
  let e := FMap (MVal (saved_mtime (fi_stat f) cq all_set active)) in
  (forall mt, fi_stat f = Some (fi_size f, mt) -> mt <> m0 -> mt <> m1 -> mt <> m2 -> mt <> m3 ->
     load_file n s k f e = Some (set_flags s k (false, false))) /\
  (fi_stat f = None ->
     load_file n s k f e = update_range n (set_flags s k (cq, cq)) false (fi_first f) (fi_last f) /\
     forall s', load_file n s k f e = Some s' -> l_ranges s' = l_ranges s).
Proof. exact ProofsTable.save_load_file_roundtrip. Qed.
Print Assumptions resume_save_load_file_roundtrip.

Example resume_save_load_file_roundtrip_nonvacuous :
  let s := mkL (Some (repeat true 8)) (repeat false 8) [(true, true)] in
  let f := mkFI 0 4 false 8192%N (Some (8192%N, 500%Z)) in
  let g := mkFI 0 4 false 8192%N None in
  load_file 8 s 0 f (FMap (MVal (saved_mtime (fi_stat f) false true true))) = Some (set_flags s 0 (false, false)) /\
  load_file 8 s 0 f (FMap (MVal (saved_mtime (fi_stat f) false false true))) = Some (set_flags s 0 (false, false)) /\
  saved_mtime (fi_stat f) false false true = m3 /\
  load_file 8 s 0 g (FMap (MVal (saved_mtime (fi_stat g) true false true)))
  = Some (mkL (Some [false; false; false; false; true; true; true; true]) (repeat false 8) [(true, true)]).
Proof. vm_compute. repeat split; reflexivity. Qed.

(* resume_unc_ranges_merge: resume_load_uncertain_pieces MERGES into what the per-file pass left: a
   piece is queued for the check afterwards iff it was queued before or is named by one of the complete
   4-byte groups of the uncertain string; a bit is set afterwards iff it was set before and the piece is
   not named; the file flags are untouched *)
Theorem resume_unc_ranges_merge : forall n s u b s',
  l_bits s = Some b -> length b = n -> length (l_ranges s) = n ->
  load_unc n s u (length u) = (s', true) ->
  exists b', l_bits s' = Some b' /\ l_flags s' = l_flags s /\
    forall i, i < n ->
      (nth i (l_ranges s') false = true <-> nth i (l_ranges s) false = true \/ In i (unc_indices u (length u))) /\
      (nth i b' false = true <-> nth i b false = true /\ ~ In i (unc_indices u (length u))).
Proof. exact ProofsTable.unc_ranges_merge. Qed.
Print Assumptions resume_unc_ranges_merge.

(* pieces 1 and 6 named (plus one trailing byte, ignored); piece 4 was already queued and stays queued *)
Example resume_unc_ranges_merge_nonvacuous :
  let s := mkL (Some [true; true; false; true; true; true; true; true])
               [false; false; false; false; true; false; false; false] [(false, false)] in
  let u := [0; 0; 0; 1; 0; 0; 0; 6; 9]%N in
  unc_indices u (length u) = [1; 6] /\
  load_unc 8 s u (length u) =
  (mkL (Some [true; false; false; true; true; true; false; true])
       [false; true; false; false; true; false; true; false] [(false, false)], true).
Proof. vm_compute. split; reflexivity. Qed.
