(* C10 — property theorems. Statements only; proofs are in Proofs.v.  Model: coq/C10/Model.v. *)
From Coq Require Import List NArith ZArith Bool Arith.
From LTV.C10 Require Import ParamsGen Model Proofs.
Import ListNotations.

Theorem params_ok_now : Proofs.params_ok = true.
Proof. exact Proofs.params_ok_now. Qed.
Print Assumptions params_ok_now.

(* resume_total: ANY resume object is Ignored (state unchanged), Loaded or Threw; bitfield and
   ranges never reach the piece count *)
Theorem resume_total : forall n ld fs nf r,
  let s0 := opened n nf in
  (length (l_ranges (fst (load n ld fs s0 r))) = n /\
   forall b, l_bits (fst (load n ld fs s0 r)) = Some b -> length b = n) /\
  (snd (load n ld fs s0 r) = Ignored -> fst (load n ld fs s0 r) = s0).
Proof. exact Proofs.resume_total. Qed.
Print Assumptions resume_total.

(* resume_sound (check step): after the requested check every set bit is valid, provided every
   piece the loader trusted (bit set, outside the ranges) is valid *)
Theorem resume_sound_check : forall n s valid,
  (length (l_ranges s) = n /\ forall b, l_bits s = Some b -> length b = n) -> length valid = n ->
  (forall b i, l_bits s = Some b -> i < n -> nth i b false = true -> nth i (l_ranges s) false = false ->
               nth i valid false = true) ->
  forall i, i < n -> nth i (check s valid) false = true -> nth i valid false = true.
Proof. exact Proofs.resume_sound_check. Qed.
Print Assumptions resume_sound_check.

(* resume_keeps_progress: an untouched, synced file (same size, same real mtime) is left alone *)
Theorem resume_keeps_progress : forall n s k f m,
  fi_pad f = false -> fi_stat f = Some (fi_size f, m) ->
  m <> m0 -> m <> m1 -> m <> m2 -> m <> m3 ->
  load_file n s k f (FMap (MVal m)) = Some (set_flags s k (false, false)).
Proof. exact Proofs.resume_keeps_progress. Qed.
Print Assumptions resume_keeps_progress.

Example resume_keeps_progress_nonvacuous :
  let f := mkFI 0 4 false 8192%N (Some (8192%N, 500%Z)) in
  load_file 8 (mkL (Some (repeat true 8)) (repeat false 8) [(true, true)]) 0 f (FMap (MVal 500%Z))
  = Some (mkL (Some (repeat true 8)) (repeat false 8) [(false, false)]).
Proof. vm_compute. reflexivity. Qed.

(* a deleted / resized / re-timed / ~2 / mtime-less file always has its whole range rechecked *)
Theorem resume_distrusts : forall n s k f e s',
  fi_pad f = false ->
  (e = FMap MNone \/
   exists m, e = FMap (MVal m) /\ m <> m0 /\ m <> m1 /\
     (fi_stat f = None \/ (exists sz mt, fi_stat f = Some (sz, mt) /\ (sz <> fi_size f \/ (m <> m3 /\ (m = m2 \/ m <> mt)))))) ->
  load_file n s k f e = Some s' ->
  exists s1, update_range n s1 true (fi_first f) (fi_last f) = Some s'.
Proof. exact Proofs.resume_distrusts. Qed.
Print Assumptions resume_distrusts.

(* the 15-minute look-back of the save is inside what TransferList retains *)
Theorem uncertain_window_kept : forall l now now' t i,
  In (t, i) (hash_succeeded l now' i) \/ In (t, i) l ->
  In (t, i) l -> (now - Params.c10_uncertain_window_min <= t)%Z ->
  In i (uncertain_saved l now).
Proof. exact Proofs.uncertain_window_kept. Qed.
Print Assumptions uncertain_window_kept.
