(* C10 — the complete per-file decision table of the resume loader (resume_load_progress's loop body),
   the save -> load round trip of one file, and the merge done by resume_load_uncertain_pieces. *)
From Coq Require Import List NArith ZArith Bool Arith Lia.
From LTV.C10 Require Import ParamsGen Model Proofs ProofsSound.
Import ListNotations.

(* ---------------------------------------------------------------- flags bookkeeping *)
Lemma upd_upd {A} (l : list A) : forall k a b, upd (upd l k a) k b = upd l k b.
Proof. induction l as [|x l IH]; intros [|k] a b; simpl; try reflexivity. rewrite IH. reflexivity. Qed.

Lemma nth_upd_same {A} (l : list A) : forall k d, nth k (upd l k d) d = d.
Proof. induction l as [|x l IH]; intros [|k] d; simpl; try reflexivity. apply IH. Qed.

Lemma set_flags_twice s k a b : set_flags (set_flags s k a) k b = set_flags s k b.
Proof. unfold set_flags. simpl. rewrite upd_upd. reflexivity. Qed.

Lemma flags_at_reset s k : flags_at (set_flags s k (false, false)) k = (false, false).
Proof. unfold flags_at, set_flags. simpl. apply nth_upd_same. Qed.

(* ---------------------------------------------------------------- the decision table *)
(* what the loader does with one file: skip it (padding), throw, trust it (flags cleared, bits and
   ranges untouched), or clear its piece range with the given create/resize flags and with or
   without queueing the range for the hash check *)
Inductive verdict := PadSkip | Throw | Trust | Clear (fl : bool * bool) (recheck : bool).

Definition file_verdict (f : finfo) (e : fent) : verdict :=
  if fi_pad f then PadSkip
  else match e with
  | FNotMap => Throw
  | FMap MNone => Clear (true, true) true
  | FMap (MVal m) =>
      let ex := match fi_stat f with Some _ => true | None => false end in
      if Z.eqb m m0 then Clear (true, true) ex
      else if Z.eqb m m1 then Clear (false, false) ex
      else match fi_stat f with
      | None => Clear (false, true) true
      | Some (sz, mtime) =>
          if negb (N.eqb sz (fi_size f)) then Clear (false, true) true
          else if Z.eqb m m3 then Trust
          else if Z.eqb m m2 then Clear (false, false) true
          else if Z.eqb m mtime then Trust
          else Clear (false, false) true
      end
  end.

Definition apply_verdict (n : nat) (s : lst) (k : nat) (f : finfo) (v : verdict) : option lst :=
  match v with
  | PadSkip => Some s
  | Throw => None
  | Trust => Some (set_flags s k (false, false))
  | Clear fl rc => update_range n (set_flags s k fl) rc (fi_first f) (fi_last f)
  end.

Theorem load_file_table n s k f e : load_file n s k f e = apply_verdict n s k f (file_verdict f e).
Proof.
  unfold load_file, file_verdict. cbv zeta.
  destruct (fi_pad f); [reflexivity|].
  destruct e as [|[|m]]; [reflexivity|reflexivity|].
  rewrite flags_at_reset. cbn [fst].
  destruct (Z.eqb m m0); cbn [orb apply_verdict].
  { rewrite set_flags_twice. reflexivity. }
  destruct (Z.eqb m m1); cbn [orb apply_verdict]; [reflexivity|].
  destruct (fi_stat f) as [[sz mt]|]; [|rewrite set_flags_twice; reflexivity].
  destruct (negb (N.eqb sz (fi_size f))); [rewrite set_flags_twice; reflexivity|].
  destruct (Z.eqb m m3); [reflexivity|].
  destruct (Z.eqb m m2); cbn [orb apply_verdict]; [reflexivity|].
  destruct (Z.eqb m mt); reflexivity.
Qed.

(* the only reasons to trust a file *)
Definition trusted (f : finfo) (m : Z) : Prop :=
  exists mt, fi_stat f = Some (fi_size f, mt) /\ (m = m3 \/ (m <> m2 /\ m = mt)).

Definition size_differs (f : finfo) : bool :=
  match fi_stat f with Some (sz, _) => negb (N.eqb sz (fi_size f)) | None => true end.

Lemma verdict_cases f m : fi_pad f = false -> m <> m0 -> m <> m1 ->
  (trusted f m /\ file_verdict f (FMap (MVal m)) = Trust) \/
  (~ trusted f m /\ file_verdict f (FMap (MVal m)) = Clear (false, size_differs f) true).
Proof.
  intros Hp H0 H1. unfold file_verdict, size_differs, trusted. rewrite Hp. cbv zeta.
  destruct (Z.eqb_spec m m0) as [|_]; [contradiction|].
  destruct (Z.eqb_spec m m1) as [|_]; [contradiction|].
  destruct (fi_stat f) as [[sz mt]|] eqn:Hs.
  - destruct (N.eqb_spec sz (fi_size f)) as [Es|Es]; cbn [negb].
    + subst sz. destruct (Z.eqb_spec m m3) as [E3|E3].
      { left. split; [exists mt; auto | reflexivity]. }
      destruct (Z.eqb_spec m m2) as [E2|E2].
      { right. split; [|reflexivity]. intros (mt' & _ & [?|[? _]]); contradiction. }
      destruct (Z.eqb_spec m mt) as [Em|Em].
      { left. split; [exists mt; auto | reflexivity]. }
      right. split; [|reflexivity]. intros (mt' & H & [?|[_ ?]]); [contradiction|]. inversion H; congruence.
    + right. split; [|reflexivity]. intros (mt' & H & _). inversion H; congruence.
  - right. split; [|reflexivity]. intros (mt' & H & _). discriminate.
Qed.

Lemma update_range_marks n s a b s' :
  update_range n s true a b = Some s' -> a < b -> a < length (l_ranges s) ->
  nth a (l_ranges s') false = true.
Proof.
  intros Hu Hab Hl. unfold update_range in Hu. destruct (l_bits s); [|discriminate].
  destruct (Nat.ltb b a || Nat.ltb n b); [discriminate|]. inversion Hu; subst; simpl.
  rewrite set_range_nth. simpl.
  destruct (Nat.ltb_spec a (length (l_ranges s))); [|lia].
  destruct (Nat.leb_spec a a); [|lia]. destruct (Nat.ltb_spec a b); [|lia]. reflexivity.
Qed.

(* resume_file_table: for a real (non-padding) file and a saved mtime other than ~0 / ~1, over all
   combinations of (missing | smaller | larger | same size) x (~3 | ~2 | the on-disk mtime | another
   mtime): the file is trusted exactly when it exists with the saved size and the entry is ~3 or the
   on-disk mtime (and not ~2); in EVERY other combination the result is exactly update_range over the
   whole file range with recheck, resize queued iff the file is missing or has another size. *)
Theorem resume_file_table n s k f m :
  fi_pad f = false -> m <> m0 -> m <> m1 ->
  (trusted f m -> load_file n s k f (FMap (MVal m)) = Some (set_flags s k (false, false))) /\
  (~ trusted f m ->
     load_file n s k f (FMap (MVal m)) =
     update_range n (set_flags s k (false, size_differs f)) true (fi_first f) (fi_last f)) /\
  (fi_first f < fi_last f -> fi_first f < length (l_ranges s) ->
   nth (fi_first f) (l_ranges s) false = false ->
   (load_file n s k f (FMap (MVal m)) = Some (set_flags s k (false, false)) <-> trusted f m)).
Proof.
  intros Hp H0 H1. rewrite load_file_table.
  destruct (verdict_cases f m Hp H0 H1) as [[Ht Hv]|[Ht Hv]]; rewrite Hv; cbn [apply_verdict].
  - split; [reflexivity|]. split; [contradiction|]. intros _ _ _. split; auto.
  - split; [contradiction|]. split; [reflexivity|]. intros Hlt Hlen Hnth. split; [|contradiction].
    intros Hu. exfalso. apply update_range_marks in Hu; [|assumption|simpl; assumption].
    simpl in Hu. rewrite Hnth in Hu. discriminate.
Qed.

(* the ~0 / ~1 / no-mtime rows: the range is always cleared; it is queued for the check iff the file
   exists (always for a missing mtime); ~0 and a missing mtime queue create and resize *)
Theorem resume_file_table_special n s k f :
  fi_pad f = false ->
  let ex := match fi_stat f with Some _ => true | None => false end in
  load_file n s k f (FMap (MVal m0)) = update_range n (set_flags s k (true, true)) ex (fi_first f) (fi_last f) /\
  load_file n s k f (FMap (MVal m1)) = update_range n (set_flags s k (false, false)) ex (fi_first f) (fi_last f) /\
  load_file n s k f (FMap MNone) = update_range n (set_flags s k (true, true)) true (fi_first f) (fi_last f) /\
  load_file n s k f FNotMap = None.
Proof.
  intros Hp ex. rewrite !load_file_table. unfold file_verdict. rewrite Hp. cbv zeta.
  rewrite Z.eqb_refl. replace (Z.eqb m1 m0) with false by reflexivity. rewrite Z.eqb_refl.
  repeat split; reflexivity.
Qed.

(* ---------------------------------------------------------------- save -> load of one file *)
Theorem save_load_file_roundtrip n s k f cq all_set active :
  fi_pad f = false ->
  let e := FMap (MVal (saved_mtime (fi_stat f) cq all_set active)) in
  (forall mt, fi_stat f = Some (fi_size f, mt) -> mt <> m0 -> mt <> m1 -> mt <> m2 -> mt <> m3 ->
     load_file n s k f e = Some (set_flags s k (false, false))) /\
  (fi_stat f = None ->
     load_file n s k f e = update_range n (set_flags s k (cq, cq)) false (fi_first f) (fi_last f) /\
     forall s', load_file n s k f e = Some s' -> l_ranges s' = l_ranges s).
Proof.
  intros Hp e. subst e. split.
  - intros mt Hs A0 A1 A2 A3. rewrite load_file_table. unfold file_verdict, saved_mtime. rewrite Hp, Hs. cbv zeta.
    destruct (all_set || negb active).
    + apply Z.eqb_neq in A0, A1, A2, A3. rewrite A0, A1, A2, A3, N.eqb_refl, Z.eqb_refl. reflexivity.
    + replace (Z.eqb m3 m0) with false by reflexivity. replace (Z.eqb m3 m1) with false by reflexivity.
      rewrite N.eqb_refl, Z.eqb_refl. reflexivity.
  - intros Hs.
    assert (E : load_file n s k f (FMap (MVal (saved_mtime (fi_stat f) cq all_set active))) =
                update_range n (set_flags s k (cq, cq)) false (fi_first f) (fi_last f)).
    { rewrite load_file_table. unfold file_verdict, saved_mtime. rewrite Hp, Hs. cbv zeta.
      destruct cq.
      - rewrite Z.eqb_refl. reflexivity.
      - replace (Z.eqb m1 m0) with false by reflexivity. rewrite Z.eqb_refl. reflexivity. }
    split; [exact E|]. intros s' Hl. rewrite E in Hl. unfold update_range in Hl.
    destruct (l_bits (set_flags s k (cq, cq))); [|discriminate].
    destruct (Nat.ltb (fi_last f) (fi_first f) || Nat.ltb n (fi_last f)); [discriminate|].
    inversion Hl; subst. reflexivity.
Qed.

(* ---------------------------------------------------------------- the uncertain list is merged in *)
Definition named (l : list N) (fuel : nat) (i : nat) : bool := existsb (Nat.eqb i) (unc_indices l fuel).

Lemma named_in l fuel i : named l fuel i = true <-> In i (unc_indices l fuel).
Proof.
  unfold named. rewrite existsb_exists. split.
  - intros (x & Hin & E). apply Nat.eqb_eq in E. subst. assumption.
  - intros H. exists i. split; [assumption | apply Nat.eqb_refl].
Qed.

Lemma set_range_single l v idx i : i < length l ->
  nth i (set_range l idx (S idx) v 0) false = if Nat.eqb i idx then v else nth i l false.
Proof.
  intros Hi. rewrite set_range_nth. simpl.
  destruct (Nat.ltb_spec i (length l)); [|lia].
  destruct (Nat.eqb_spec i idx) as [E|E].
  - subst. destruct (Nat.leb_spec idx idx); [|lia]. destruct (Nat.ltb_spec idx (S idx)); [|lia]. reflexivity.
  - destruct (Nat.leb_spec idx i); destruct (Nat.ltb_spec i (S idx)); simpl; try reflexivity. lia.
Qed.

Theorem load_unc_merge n fuel : forall s l b s',
  l_bits s = Some b -> length b = n -> length (l_ranges s) = n ->
  load_unc n s l fuel = (s', true) ->
  exists b', l_bits s' = Some b' /\ length b' = n /\ length (l_ranges s') = n /\ l_flags s' = l_flags s /\
    forall i, i < n ->
      nth i (l_ranges s') false = nth i (l_ranges s) false || named l fuel i /\
      nth i b' false = nth i b false && negb (named l fuel i).
Proof.
  unfold named.
  induction fuel as [|fu IH]; intros s l b s' Hb Hn Hr Hl; simpl in *.
  - inversion Hl; subst. exists b. repeat split; auto; [rewrite orb_false_r | rewrite andb_true_r]; reflexivity.
  - destruct l as [|a0 [|a1 [|a2 [|a3 r]]]];
      try (inversion Hl; subst; exists b; repeat split; auto;
           [rewrite orb_false_r | rewrite andb_true_r]; reflexivity).
    simpl. set (idx := N.to_nat (be32 a0 a1 a2 a3)) in *.
    destruct (N.leb_spec (N.of_nat n) (be32 a0 a1 a2 a3)) as [Hge|Hlt].
    + match type of Hl with (if ?c then _ else _) = _ => destruct c; [|discriminate] | _ => idtac end.
      destruct (IH _ _ _ _ Hb Hn Hr Hl) as (b' & A & B & C & D & E). exists b'. repeat split; auto.
      * destruct (Nat.eqb_spec i idx) as [Ei|Ei]; [unfold idx in Ei; lia|]. simpl. apply E; assumption.
      * destruct (Nat.eqb_spec i idx) as [Ei|Ei]; [unfold idx in Ei; lia|]. simpl. apply E; assumption.
    + destruct (update_range n s true idx (S idx)) as [s1|] eqn:Eu; [|discriminate].
      unfold update_range in Eu. rewrite Hb in Eu.
      destruct (Nat.ltb (S idx) idx || Nat.ltb n (S idx)); [discriminate|]. inversion Eu; subst s1; clear Eu.
      assert (P1 : length (set_range b idx (S idx) false 0) = n) by (rewrite set_range_length; assumption).
      assert (P2 : length (set_range (l_ranges s) idx (S idx) true 0) = n) by (rewrite set_range_length; assumption).
      destruct (IH (mkL (Some (set_range b idx (S idx) false 0)) (set_range (l_ranges s) idx (S idx) true 0) (l_flags s))
                   r (set_range b idx (S idx) false 0) s' eq_refl P1 P2 Hl) as (b' & A & B & C & D & E).
      simpl in D, E. exists b'. repeat split; auto.
      * destruct (E i H) as [E1 _]. rewrite E1. rewrite set_range_single by lia.
        destruct (Nat.eqb i idx); simpl; [rewrite orb_true_r|]; reflexivity.
      * destruct (E i H) as [_ E2]. rewrite E2. rewrite set_range_single by lia.
        destruct (Nat.eqb i idx); simpl; [rewrite andb_false_r|]; reflexivity.
Qed.

(* the statement used in Properties.v, with membership instead of the boolean *)
Theorem unc_ranges_merge n s u b s' :
  l_bits s = Some b -> length b = n -> length (l_ranges s) = n ->
  load_unc n s u (length u) = (s', true) ->
  exists b', l_bits s' = Some b' /\ l_flags s' = l_flags s /\
    forall i, i < n ->
      (nth i (l_ranges s') false = true <-> nth i (l_ranges s) false = true \/ In i (unc_indices u (length u))) /\
      (nth i b' false = true <-> nth i b false = true /\ ~ In i (unc_indices u (length u))).
Proof.
  intros Hb Hn Hr Hl. destruct (load_unc_merge n (length u) s u b s' Hb Hn Hr Hl) as (b' & A & _ & _ & D & E).
  exists b'. split; [assumption|]. split; [assumption|]. intros i Hi. destruct (E i Hi) as [E1 E2].
  rewrite E1, E2, orb_true_iff, andb_true_iff, negb_true_iff, <- not_true_iff_false, named_in. tauto.
Qed.
