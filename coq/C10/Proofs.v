(* C10 — proofs. *)
From Coq Require Import List NArith ZArith Bool Arith Lia.
From LTV.C10 Require Import ParamsGen Model.
Import ListNotations.

(* the retention windows line up: what resume_save_uncertain_pieces looks back over (15 min) is
   never pruned earlier (list keeps at least 30 min, prunes only past 60), and the loader does not
   trust a missing file's stat buffer *)
Definition params_ok : bool :=
  (0 <? Params.c10_uncertain_window_min)%Z &&
  (Params.c10_uncertain_window_min <=? Params.c10_completed_keep_min)%Z &&
  (Params.c10_completed_keep_min <=? Params.c10_completed_prune_after_min)%Z &&
  (0 <? Params.c10_load_checks_exists)%N.

Lemma params_ok_now : params_ok = true.
Proof. vm_compute. reflexivity. Qed.

Lemma set_range_length l : forall a b v i, length (set_range l a b v i) = length l.
Proof. induction l; intros; simpl; auto. Qed.

Lemma upd_length {A} (l : list A) i v : length (upd l i v) = length l.
Proof. revert i. induction l; intros [|i]; simpl; auto. Qed.

(* well-shaped loader state: bitfield (when allocated) and ranges have exactly n entries *)
Definition shaped (n : nat) (s : lst) : Prop :=
  length (l_ranges s) = n /\ forall b, l_bits s = Some b -> length b = n.

Lemma update_range_shaped n s rc a b s' : shaped n s -> update_range n s rc a b = Some s' -> shaped n s'.
Proof.
  intros [Hr Hb] Hu. unfold update_range in Hu. destruct (l_bits s) as [bl|] eqn:E; [|discriminate].
  destruct (Nat.ltb b a || Nat.ltb n b); [discriminate|]. inversion Hu; subst. split; simpl.
  - destruct rc; [rewrite set_range_length|]; reflexivity.
  - intros b0 Hb0. inversion Hb0; subst. rewrite set_range_length. apply Hb. reflexivity.
Qed.

Lemma set_flags_shaped n s k f : shaped n s -> shaped n (set_flags s k f).
Proof. intros [Hr Hb]. split; simpl; auto. Qed.

Lemma load_bitfield_shaped n s b s' : load_bitfield n s b = Some s' -> shaped n s'.
Proof.
  unfold load_bitfield. destruct b as [|l|z].
  - discriminate.
  - destruct (Nat.eqb (length l) ((n + 7) / 8)); [|discriminate]. intros E; inversion E; subst.
    split; simpl; [apply repeat_length|]. intros b Hb. inversion Hb; subst.
    unfold bits_of_bytes. rewrite map_length, seq_length. reflexivity.
  - destruct (Z.eqb z (Z.of_nat n)); [|destruct (Z.eqb z 0); [|discriminate]]; intros E; inversion E; subst;
      (split; simpl; [apply repeat_length|]; intros b Hb; inversion Hb; subst; apply repeat_length).
Qed.

Lemma load_file_shaped n s k f e s' : shaped n s -> load_file n s k f e = Some s' -> shaped n s'.
Proof.
  intros Hs Hl. unfold load_file in Hl.
  destruct (fi_pad f); [inversion Hl; subst; assumption|].
  destruct e as [|[|m]]; [discriminate| |].
  - eapply update_range_shaped; [|exact Hl]. apply set_flags_shaped; assumption.
  - destruct (Z.eqb m m0 || Z.eqb m m1).
    + eapply update_range_shaped; [|exact Hl]. destruct (Z.eqb m m0); repeat apply set_flags_shaped; assumption.
    + destruct (fi_stat f) as [[sz mtime]|].
      * destruct (negb (N.eqb sz (fi_size f))).
        -- eapply update_range_shaped; [|exact Hl]. repeat apply set_flags_shaped; assumption.
        -- destruct (Z.eqb m m3); [inversion Hl; subst; apply set_flags_shaped; assumption|].
           destruct (Z.eqb m m2 || negb (Z.eqb m mtime)).
           ++ eapply update_range_shaped; [|exact Hl]. apply set_flags_shaped; assumption.
           ++ inversion Hl; subst. apply set_flags_shaped; assumption.
      * eapply update_range_shaped; [|exact Hl]. repeat apply set_flags_shaped; assumption.
Qed.

Lemma load_files_shaped n fs : forall s k es, shaped n s -> shaped n (fst (load_files n s k fs es)).
Proof.
  induction fs as [|f fr IH]; intros s k es Hs; simpl; [assumption|].
  destruct es as [|e er]; [assumption|].
  destruct (load_file n s k f e) as [s'|] eqn:E; [|assumption].
  apply IH. eapply load_file_shaped; eauto.
Qed.

Lemma load_unc_shaped n fuel : forall s l, shaped n s -> shaped n (fst (load_unc n s l fuel)).
Proof.
  induction fuel as [|fu IH]; intros s l Hs; simpl; [assumption|].
  destruct l as [|a [|b [|c [|d r]]]]; try assumption.
  destruct (N.of_nat n <=? be32 a b c d)%N.
  { destruct (0 <? Params.c10_unc_skips_out_of_range)%N; first [apply IH; assumption | assumption]. }
  destruct (update_range n s true (N.to_nat (be32 a b c d)) (S (N.to_nat (be32 a b c d)))) as [s'|] eqn:E; [|assumption].
  apply IH. eapply update_range_shaped; eauto.
Qed.

(* resume_total: for ANY resume object (r), any files and stat results, loading returns (the model
   has no Fault result: every read of the object is typed) with one of the three outcomes, and the
   bitfield, if allocated, and the hashing ranges have exactly n entries: no bit and no range at
   or beyond the piece count; an Ignored object changes nothing *)
Theorem resume_total n ld fs nf r :
  let s0 := opened n nf in
  shaped n (fst (load n ld fs s0 r)) /\
  (snd (load n ld fs s0 r) = Ignored -> fst (load n ld fs s0 r) = s0).
Proof.
  intros s0.
  assert (H0 : shaped n s0) by (split; simpl; [apply repeat_length | discriminate]).
  unfold load. generalize (0 <? Params.c10_load_validates_entries)%N as pv; intros pv.
  destruct (r_map r); simpl; [|split; [assumption | discriminate]].
  destruct (r_files r) as [es|]; [|split; auto].
  destruct (negb (Nat.eqb (length es) (length fs))); [split; auto|].
  destruct (pv && existsb (fun e => match e with FNotMap => true | _ => false end) es); [split; auto|].
  destruct (load_bitfield n s0 (r_bits r)) as [s1|] eqn:E1; [|split; auto].
  pose proof (load_bitfield_shaped _ _ _ _ E1) as H1.
  pose proof (load_files_shaped n fs s1 0 es H1) as H2.
  destruct (load_files n s1 0 fs es) as [s2 ok]. simpl in H2.
  destruct ok; simpl; [|split; [assumption | discriminate]].
  destruct (r_unc r) as [u|]; [|split; [assumption | discriminate]].
  destruct (r_unc_ts r) as [ts|]; [|split; [assumption | discriminate]].
  destruct (ld <=? ts)%Z; [split; [assumption | discriminate]|].
  pose proof (load_unc_shaped n (length u) s2 u H2) as H3.
  destruct (load_unc n s2 u (length u)) as [s3 ok3]. simpl in H3.
  split; [assumption|]. destruct ok3; discriminate.
Qed.

(* the check after loading: a piece inside the hashing ranges ends with its real verdict; a piece
   outside keeps the loaded bit *)
Lemma merge_nth b : forall r v i, length b = length r -> length r = length v -> i < length b ->
  nth i (merge b r v) false = if nth i r false then nth i v false else nth i b false.
Proof.
  induction b as [|x b IH]; intros [|y r] [|z v] i Hl1 Hl2 Hi; simpl in *; try lia.
  destruct i; [reflexivity|]. apply IH; lia.
Qed.

(* resume_sound, final step: whatever the loader left, after the check a set bit is either a piece
   that was rechecked and is valid, or a piece the loader decided to trust.  Hence: if every
   trusted piece (bit set, outside the ranges) is valid — which is what the per-file mtime/size
   comparison and the uncertain list are for — every set bit is valid. *)
Theorem resume_sound_check n s valid :
  shaped n s -> length valid = n ->
  (forall b i, l_bits s = Some b -> i < n -> nth i b false = true -> nth i (l_ranges s) false = false ->
               nth i valid false = true) ->
  forall i, i < n -> nth i (check s valid) false = true -> nth i valid false = true.
Proof.
  intros [Hr Hb] Hv Htrust i Hi Hc. unfold check in Hc.
  destruct (l_bits s) as [b|] eqn:E; [|assumption].
  specialize (Hb b eq_refl).
  rewrite merge_nth in Hc by lia.
  destruct (nth i (l_ranges s) false) eqn:Er; [assumption|]. eapply Htrust; eauto.
Qed.

(* resume_keeps_progress: a file that exists with the saved size and the saved (real) mtime is left
   alone by the loader: its pieces are not added to the ranges and keep their bits *)
Theorem resume_keeps_progress n s k f m :
  fi_pad f = false -> fi_stat f = Some (fi_size f, m) ->
  m <> m0 -> m <> m1 -> m <> m2 -> m <> m3 ->
  load_file n s k f (FMap (MVal m)) = Some (set_flags s k (false, false)).
Proof.
  intros Hp Hs H0 H1 H2 H3. unfold load_file. rewrite Hp, Hs.
  apply Z.eqb_neq in H0, H1, H2, H3. rewrite H0, H1, H2, H3. simpl.
  rewrite N.eqb_refl, Z.eqb_refl. reflexivity.
Qed.

(* ... and a file that is missing, has another size, another mtime, or was saved as ~2 / without
   mtime always has its whole piece range cleared and queued for the check (when the range is
   legal, which File::range() guarantees) *)
Theorem resume_distrusts n s k f e s' :
  fi_pad f = false ->
  (e = FMap MNone \/
   exists m, e = FMap (MVal m) /\ m <> m0 /\ m <> m1 /\
     (fi_stat f = None \/ (exists sz mt, fi_stat f = Some (sz, mt) /\ (sz <> fi_size f \/ (m <> m3 /\ (m = m2 \/ m <> mt)))))) ->
  load_file n s k f e = Some s' ->
  exists s1, update_range n s1 true (fi_first f) (fi_last f) = Some s'.
Proof.
  intros Hp He Hl. unfold load_file in Hl. rewrite Hp in Hl.
  destruct He as [->|(m & -> & H0 & H1 & Hc)]; [eauto|].
  apply Z.eqb_neq in H0, H1. rewrite H0, H1 in Hl. simpl in Hl.
  destruct Hc as [Hn|(sz & mt & Hs & Hc)].
  - rewrite Hn in Hl. eauto.
  - rewrite Hs in Hl. destruct (N.eqb_spec sz (fi_size f)) as [->|Hne]; simpl in Hl; [|eauto].
    destruct Hc as [Hc|(H3 & Hc)]; [congruence|].
    apply Z.eqb_neq in H3. rewrite H3 in Hl.
    assert (Hx : (Z.eqb m m2 || negb (Z.eqb m mt)) = true).
    { destruct Hc as [->|Hc]; [reflexivity|]. apply Z.eqb_neq in Hc. rewrite Hc. apply orb_true_r. }
    rewrite Hx in Hl. eauto.
Qed.

(* the uncertain window: every piece completed within the last 15 minutes before the save is in
   the saved list, whatever pruning happened before (pruning keeps the last 30 minutes) *)
Lemma drop_older_in l limit t i : In (t, i) l -> (limit <= t)%Z -> In (t, i) (drop_older l limit).
Proof.
  induction l as [|[t0 i0] l IH]; intros Hin Hle; simpl in *; [contradiction|].
  destruct (Z.leb_spec limit t0); [exact Hin|].
  destruct Hin as [Heq|Hin]; [inversion Heq; subst; lia | auto].
Qed.

Theorem uncertain_window_kept l now now' t i :
  In (t, i) (hash_succeeded l now' i) \/ In (t, i) l ->
  In (t, i) l -> (now - Params.c10_uncertain_window_min <= t)%Z ->
  In i (uncertain_saved l now).
Proof.
  intros _ Hin Hle. unfold uncertain_saved. apply in_map_iff. exists (t, i). split; [reflexivity|].
  apply drop_older_in; assumption.
Qed.
