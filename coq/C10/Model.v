(* C10 — executable model of resume data: what is saved (resume_save_progress,
   resume_save_bitfield, resume_save_uncertain_pieces, TransferList's completed-list retention),
   what loading it does to the bitfield / hashing ranges / per-file flags (resume_load_progress,
   resume_load_bitfield, resume_load_uncertain_pieces, Download::set_bitfield, Download::update_range),
   and the check that follows (C09: pieces inside the hashing ranges get their real verdict, pieces
   outside keep the loaded bit).  Definitions only.  src/torrent/utils/resume.cc,
   src/torrent/download.cc, src/torrent/data/transfer_list.cc. *)
From Coq Require Import List NArith ZArith Bool Arith.
From LTV.C10 Require Import ParamsGen.
Import ListNotations.

(* ---------------------------------------------------------------- the resume object, abstractly *)
Inductive mt := MNone | MVal (z : Z).                 (* files[k].mtime: absent / not an integer | value *)
Inductive fent := FNotMap | FMap (m : mt).
Inductive bfield := BMissing | BStr (l : list N) | BVal (z : Z).

Record robj := mkR {
  r_map : bool;                        (* the resume object is a map *)
  r_files : option (list fent);        (* None: no list under "files" *)
  r_bits : bfield;
  r_unc : option (list N);             (* "uncertain_pieces" string (bytes) *)
  r_unc_ts : option Z                  (* "uncertain_pieces.timestamp" *)
}.

(* a file of the torrent and what stat() says about it now *)
Record finfo := mkFI {
  fi_first : nat; fi_last : nat;       (* File::range(): pieces [first, last) *)
  fi_pad : bool;
  fi_size : N;
  fi_stat : option (N * Z)             (* size, mtime in seconds; None: stat fails *)
}.

Record lst := mkL {
  l_bits : option (list bool);         (* None: bitfield not allocated *)
  l_ranges : list bool;                (* hashing ranges, membership *)
  l_flags : list (bool * bool)         (* per file: create_queued, resize_queued *)
}.

Inductive outcome := Ignored | Loaded | Threw.

Definition m0 : Z := (-1)%Z.  Definition m1 : Z := (-2)%Z.  Definition m2 : Z := (-3)%Z.  Definition m3 : Z := (-4)%Z.

(* ---------------------------------------------------------------- small list helpers *)
Fixpoint set_range (l : list bool) (a b : nat) (v : bool) (i : nat) : list bool :=
  match l with
  | [] => []
  | x :: r => (if Nat.leb a i && Nat.ltb i b then v else x) :: set_range r a b v (S i)
  end.

Fixpoint upd {A} (l : list A) (i : nat) (v : A) : list A :=
  match l, i with
  | [], _ => []
  | _ :: r, O => v :: r
  | x :: r, S j => x :: upd r j v
  end.

(* bit i of a byte string, most significant bit first (Bitfield::get) *)
Definition bit_of (l : list N) (i : nat) : bool :=
  N.testbit (nth (i / 8) l 0%N) (N.of_nat (7 - i mod 8)).

Definition bits_of_bytes (l : list N) (n : nat) : list bool := map (bit_of l) (seq 0 n).

(* Download::update_range(flags, first, last); None = input_error *)
Definition update_range (n : nat) (s : lst) (recheck : bool) (first last : nat) : option lst :=
  match l_bits s with
  | None => None
  | Some b =>
      if Nat.ltb last first || Nat.ltb n last then None
      else Some (mkL (Some (set_range b first last false 0))
                     (if recheck then set_range (l_ranges s) first last true 0 else l_ranges s)
                     (l_flags s))
  end.

(* resume_load_bitfield + Download::set_bitfield *)
Definition load_bitfield (n : nat) (s : lst) (b : bfield) : option lst :=
  match b with
  | BMissing => None
  | BStr l =>
      if Nat.eqb (length l) ((n + 7) / 8)
      then Some (mkL (Some (bits_of_bytes l n)) (repeat false n) (l_flags s))
      else None
  | BVal z =>
      if Z.eqb z (Z.of_nat n) then Some (mkL (Some (repeat true n)) (repeat false n) (l_flags s))
      else if Z.eqb z 0 then Some (mkL (Some (repeat false n)) (repeat false n) (l_flags s))
      else None
  end.

Definition set_flags (s : lst) (k : nat) (f : bool * bool) : lst :=
  mkL (l_bits s) (l_ranges s) (upd (l_flags s) k f).

Definition flags_at (s : lst) (k : nat) : bool * bool := nth k (l_flags s) (false, false).

(* the body of resume_load_progress's loop for one file *)
Definition load_file (n : nat) (s : lst) (k : nat) (f : finfo) (e : fent) : option lst :=
  if fi_pad f then Some s
  else match e with
  | FNotMap => None                                       (* has_key_value on a non-map throws *)
  | FMap MNone =>
      update_range n (set_flags s k (true, true)) true (fi_first f) (fi_last f)
  | FMap (MVal m) =>
      let exists_ := match fi_stat f with Some _ => true | None => false end in
      let s0 := set_flags s k (false, false) in
      if Z.eqb m m0 || Z.eqb m m1 then
        let s1 := if Z.eqb m m0 then set_flags s0 k (true, true) else s0 in
        update_range n s1 exists_ (fi_first f) (fi_last f)
      else
        match fi_stat f with
        | None =>
            (* the repaired code: a missing file is never trusted *)
            update_range n (set_flags s0 k (fst (flags_at s0 k), true)) true (fi_first f) (fi_last f)
        | Some (sz, mtime) =>
            if negb (N.eqb sz (fi_size f)) then
              update_range n (set_flags s0 k (fst (flags_at s0 k), true)) true (fi_first f) (fi_last f)
            else if Z.eqb m m3 then Some s0
            else if Z.eqb m m2 || negb (Z.eqb m mtime) then update_range n s0 true (fi_first f) (fi_last f)
            else Some s0
        end
  end.

Fixpoint load_files (n : nat) (s : lst) (k : nat) (fs : list finfo) (es : list fent) : lst * bool :=
  match fs, es with
  | f :: fr, e :: er =>
      match load_file n s k f e with
      | Some s' => load_files n s' (S k) fr er
      | None => (s, false)
      end
  | _, _ => (s, true)
  end.

Definition be32 (a b c d : N) : N := (((a * 256 + b) * 256 + c) * 256 + d)%N.

(* resume_load_uncertain_pieces's loop: groups of four bytes, trailing bytes ignored;
   update_range(index, index + 1) with index + 1 computed in uint32_t: it throws iff
   index + 1 wraps to 0 (first > last) or index + 1 > piece count, i.e. iff index >= piece count *)
Fixpoint load_unc (n : nat) (s : lst) (l : list N) (fuel : nat) {struct fuel} : lst * bool :=
  match fuel with
  | O => (s, true)
  | S fuel' =>
      match l with
      | a :: b :: c :: d :: r =>
          let i := be32 a b c d in
          if (N.of_nat n <=? i)%N then
            (if (0 <? Params.c10_unc_skips_out_of_range)%N then load_unc n s r fuel' else (s, false))
          else match update_range n s true (N.to_nat i) (S (N.to_nat i)) with
               | Some s' => load_unc n s' r fuel'
               | None => (s, false)
               end
      | _ => (s, true)
      end
  end.

(* resume_load_progress *)
Definition load (n : nat) (load_date : Z) (fs : list finfo) (s : lst) (r : robj) : lst * outcome :=
  if negb (r_map r) then (s, Threw)
  else match r_files r with
  | None => (s, Ignored)
  | Some es =>
      if negb (Nat.eqb (length es) (length fs)) then (s, Ignored)
      else if (0 <? Params.c10_load_validates_entries)%N &&
              existsb (fun e => match e with FNotMap => true | _ => false end) es then (s, Ignored)
      else match load_bitfield n s (r_bits r) with
      | None => (s, Ignored)
      | Some s1 =>
          let (s2, ok) := load_files n s1 0 fs es in
          if negb ok then (s2, Threw)
          else match r_unc r with
          | None => (s2, Loaded)
          | Some u =>
              match r_unc_ts r with
              | None => (s2, Loaded)
              | Some ts =>
                  if (load_date <=? ts)%Z then (s2, Loaded)
                  else let (s3, ok3) := load_unc n s2 u (length u) in
                       (s3, if ok3 then Loaded else Threw)
              end
          end
      end
  end.

(* state of a freshly opened download (Download::open): nothing allocated, everything to check,
   every file create|resize queued *)
Definition opened (n nfiles : nat) : lst := mkL None (repeat true n) (repeat (true, true) nfiles).

(* Download::hash_check(false) run to completion on a readable disk (C09 check_exact): without a
   bitfield everything is checked; otherwise pieces in the ranges get their verdict, the others
   keep the loaded bit *)
Fixpoint merge (bits ranges valid : list bool) : list bool :=
  match bits, ranges, valid with
  | b :: bt, r :: rt, v :: vt => (if r then v else b) :: merge bt rt vt
  | _, _, _ => []
  end.

Definition check (s : lst) (valid : list bool) : list bool :=
  match l_bits s with
  | None => valid
  | Some b => merge b (l_ranges s) valid
  end.

(* ---------------------------------------------------------------- saving *)
(* TransferList::hash_succeeded: append (now, index); prune only when the oldest entry is older than
   60 minutes, then drop everything older than 30 minutes.  Times in minutes. *)
Fixpoint drop_older (l : list (Z * nat)) (limit : Z) : list (Z * nat) :=
  match l with
  | [] => []
  | (t, i) :: r => if (limit <=? t)%Z then l else drop_older r limit
  end.

Definition hash_succeeded (l : list (Z * nat)) (now : Z) (i : nat) : list (Z * nat) :=
  let l' := l ++ [(now, i)] in
  match l' with
  | (t0, _) :: _ =>
      if (t0 + Params.c10_completed_prune_after_min <? now)%Z
      then drop_older l' (now - Params.c10_completed_keep_min)%Z
      else l'
  | [] => l'
  end.

(* resume_save_uncertain_pieces: everything from the first entry within the last 15 minutes on *)
Definition uncertain_saved (l : list (Z * nat)) (now : Z) : list nat :=
  map snd (drop_older l (now - Params.c10_uncertain_window_min)%Z).

(* resume_save_progress: the mtime written for one file *)
Definition saved_mtime (stat : option (N * Z)) (create_q all_set active : bool) : Z :=
  match stat with
  | None => if create_q then m0 else m1
  | Some (_, mtime) => if all_set || negb active then mtime else m3
  end.

(* A session that loaded the resume data and saves again BEFORE the requested check has completed:
   resume_save_progress declines ("hash not checked": files and bitfield stay as stored);
   resume_save_uncertain_pieces either leaves the stored uncertain list alone (the repaired code) or
   erases it and writes this session's — empty — completed list.  [cl], [now]: that session's
   completed list and time. *)
Definition unc_kept_flag : bool := (0 <? Params.c10_unc_kept_while_unchecked)%N.

Definition resave_unchecked (r : robj) (cl : list (Z * nat)) (now : Z) : robj :=
  if (0 <? Params.c10_unc_kept_while_unchecked)%N then r
  else match uncertain_saved cl now with
       | [] => mkR (r_map r) (r_files r) (r_bits r) None None
       | _ => r   (* not reachable: nothing completes before the check *)
       end.
