(* C10 — resume_sound end to end on the model: save record -> crash / perturbation (as the stat results
   and the validity vector of the second lifetime) -> load -> check. *)
From Coq Require Import List NArith ZArith Bool Arith Lia.
From LTV.C10 Require Import ParamsGen Model Proofs.
Import ListNotations.

Lemma set_range_nth l : forall a b v j i,
  nth i (set_range l a b v j) false =
  if (i <? length l) && (a <=? j + i) && (j + i <? b) then v else nth i l false.
Proof.
  induction l as [|x l IH]; intros a b v j i; simpl.
  - destruct i; reflexivity.
  - destruct i; simpl.
    + rewrite Nat.add_0_r. reflexivity.
    + rewrite IH. replace (S j + i) with (j + S i) by lia.
      destruct (i <? length l) eqn:E1; destruct (S i <? S (length l)) eqn:E2; try reflexivity;
        apply Nat.ltb_lt in E1 || apply Nat.ltb_ge in E1; apply Nat.ltb_lt in E2 || apply Nat.ltb_ge in E2; lia.
Qed.

Definition covers (f : finfo) (i : nat) : Prop := fi_first f <= i /\ i < fi_last f.

(* the loader's reasons to leave a file's pieces alone *)
Definition kept (f : finfo) (m : Z) : Prop :=
  exists mt, fi_stat f = Some (fi_size f, mt) /\ m <> m0 /\ m <> m1 /\ (m = m3 \/ (m <> m2 /\ m = mt)).

Lemma update_range_bits n s rc a b s' bl :
  update_range n s rc a b = Some s' -> l_bits s = Some bl ->
  exists bl', l_bits s' = Some bl' /\ length bl' = length bl /\
    forall i, nth i bl' false = true -> nth i bl false = true /\ ~ (a <= i /\ i < b).
Proof.
  intros Hu Hb. unfold update_range in Hu. rewrite Hb in Hu.
  destruct (Nat.ltb b a || Nat.ltb n b); [discriminate|]. inversion Hu; subst; simpl.
  exists (set_range bl a b false 0). split; [reflexivity|]. split; [apply set_range_length|].
  intros i Hi. rewrite set_range_nth in Hi. simpl in Hi.
  destruct ((i <? length bl) && (a <=? i) && (i <? b)) eqn:E; [discriminate|].
  split; [assumption|]. intros [H1 H2].
  destruct (Nat.ltb_spec i (length bl)) as [Hl|Hl].
  - apply Nat.leb_le in H1. apply Nat.ltb_lt in H2. simpl in E. rewrite H1, H2 in E. discriminate.
  - rewrite nth_overflow in Hi by lia. discriminate.
Qed.

Lemma set_flags_bits s k f : l_bits (set_flags s k f) = l_bits s.
Proof. reflexivity. Qed.

Lemma load_file_bits n s k f m s' bl :
  load_file n s k f (FMap (MVal m)) = Some s' -> l_bits s = Some bl ->
  exists bl', l_bits s' = Some bl' /\ length bl' = length bl /\
    forall i, nth i bl' false = true ->
      nth i bl false = true /\ (fi_pad f = false -> covers f i -> kept f m).
Proof.
  intros Hl Hb. unfold load_file in Hl. destruct (fi_pad f) eqn:Hp.
  { inversion Hl; subst. exists bl. repeat split; auto. discriminate. }
  assert (Hur : forall s1 rc, l_bits s1 = Some bl -> update_range n s1 rc (fi_first f) (fi_last f) = Some s' ->
    exists bl', l_bits s' = Some bl' /\ length bl' = length bl /\
      forall i, nth i bl' false = true -> nth i bl false = true /\ (false = false -> covers f i -> kept f m)).
  { intros s1 rc Hb1 Hu. destruct (update_range_bits _ _ _ _ _ _ _ Hu Hb1) as (bl' & A & B & C).
    exists bl'. repeat split; auto; try (apply C; assumption). intros _ Hc. exfalso. apply (C i H); assumption. }
  destruct (Z.eqb_spec m m0) as [E0|E0]; simpl in Hl.
  { eapply Hur; [|exact Hl]; simpl; exact Hb. }
  destruct (Z.eqb_spec m m1) as [E1|E1]; simpl in Hl.
  { eapply Hur; [|exact Hl]; simpl; exact Hb. }
  destruct (fi_stat f) as [[sz mt]|] eqn:Hs.
  2:{ eapply Hur; [|exact Hl]; simpl; exact Hb. }
  destruct (N.eqb_spec sz (fi_size f)) as [Es|Es]; simpl in Hl.
  2:{ eapply Hur; [|exact Hl]; simpl; exact Hb. }
  subst sz.
  destruct (Z.eqb_spec m m3) as [E3|E3].
  { inversion Hl; subst s'. exists bl. repeat split; auto. intros _ _. exists mt. repeat split; auto. }
  destruct (Z.eqb_spec m m2) as [E2|E2]; simpl in Hl.
  { eapply Hur; [|exact Hl]; simpl; exact Hb. }
  destruct (Z.eqb_spec m mt) as [Em|Em]; simpl in Hl.
  - inversion Hl; subst s'. exists bl. repeat split; auto. intros _ _. exists mt. repeat split; auto.
  - eapply Hur; [|exact Hl]; simpl; exact Hb.
Qed.

Lemma load_files_bits n fs : forall s k ms bl s',
  length ms = length fs ->
  load_files n s k fs (map (fun m => FMap (MVal m)) ms) = (s', true) -> l_bits s = Some bl ->
  exists bl', l_bits s' = Some bl' /\ length bl' = length bl /\
    forall i, nth i bl' false = true ->
      nth i bl false = true /\
      Forall2 (fun f m => fi_pad f = false -> covers f i -> kept f m) fs ms.
Proof.
  induction fs as [|f fr IH]; intros s k ms bl s' Hlen Hl Hb; destruct ms as [|m mr]; simpl in *; try discriminate.
  - inversion Hl; subst. exists bl. repeat split; auto.
  - destruct (load_file n s k f (FMap (MVal m))) as [s1|] eqn:E; [|inversion Hl].
    destruct (load_file_bits _ _ _ _ _ _ _ E Hb) as (b1 & A1 & B1 & C1).
    destruct (IH s1 (S k) mr b1 s' ltac:(lia) Hl A1) as (b2 & A2 & B2 & C2).
    exists b2. split; [assumption|]. split; [congruence|].
    intros i Hi. destruct (C2 i Hi) as [D1 D2]. destruct (C1 i D1) as [D3 D4].
    split; [assumption|]. constructor; assumption.
Qed.

(* the indices the uncertain string names *)
Fixpoint unc_indices (l : list N) (fuel : nat) {struct fuel} : list nat :=
  match fuel with
  | O => []
  | S fuel' =>
      match l with
      | a :: b :: c :: d :: r => N.to_nat (be32 a b c d) :: unc_indices r fuel'
      | _ => []
      end
  end.

Lemma load_unc_bits n fuel : forall s l bl s',
  load_unc n s l fuel = (s', true) -> l_bits s = Some bl -> length bl = n ->
  exists bl', l_bits s' = Some bl' /\ length bl' = n /\
    forall i, i < n -> nth i bl' false = true -> nth i bl false = true /\ ~ In i (unc_indices l fuel).
Proof.
  induction fuel as [|fu IH]; intros s l bl s' Hl Hb Hn; simpl in *.
  - inversion Hl; subst. exists bl. repeat split; auto.
  - destruct l as [|a [|b [|c [|d r]]]]; try (inversion Hl; subst; exists bl; repeat split; auto; fail).
    destruct (N.leb_spec (N.of_nat n) (be32 a b c d)) as [Hge|Hlt].
    + match type of Hl with (if ?c then _ else _) = _ => destruct c; [|discriminate] | _ => idtac end.
      destruct (IH _ _ _ _ Hl Hb Hn) as (b' & A & B & C). exists b'. repeat split; auto; try (apply C; assumption).
      intros [Heq|Hin]; [lia | apply (C i H H0); assumption].
    + destruct (update_range n s true (N.to_nat (be32 a b c d)) (S (N.to_nat (be32 a b c d)))) as [s1|] eqn:E; [|discriminate].
      destruct (update_range_bits _ _ _ _ _ _ _ E Hb) as (b1 & A1 & B1 & C1).
      destruct (IH _ _ _ _ Hl A1 ltac:(congruence)) as (b2 & A2 & B2 & C2).
      exists b2. repeat split; auto.
      * apply C1. apply C2; assumption.
      * intros [Heq|Hin]; [|apply (C2 i H H0); assumption].
        destruct (C2 i H H0) as [D _]. destruct (C1 i D) as [_ F]. apply F. lia.
Qed.

(* resume_sound.  The second lifetime sees: the files fs with their stat results, the validity vector
   [valid] of what is on disk after the crash and the perturbations, and the saved record: per-file
   mtime values ms, a bitfield that loads as bits_s, the uncertain string u with a timestamp older than
   this process.  ASSUMPTION [trust]: a piece the previous session had completed, all of whose files
   exist with the saved size and either were saved as ~3 or still carry the saved real mtime, and which
   is not named by the uncertain list, is still valid.  That single hypothesis contains: "pieces were
   verified when their bit was set" (C01), "a rewrite changes size or mtime", "a file saved while
   active (~3) is not rewritten afterwards" (known finding resume-active-rewrite-not-detected), and
   "what the crash loses was completed within the uncertain window" (uncertain_window_kept).
   CONCLUSION: loading succeeds and after the check every set bit is a valid piece. *)
Theorem resume_sound n ld fs ms bits_s flags0 u ts valid r :
  r_map r = true -> r_files r = Some (map (fun m => FMap (MVal m)) ms) -> length ms = length fs ->
  r_unc r = Some u -> r_unc_ts r = Some ts -> (ts < ld)%Z ->
  load_bitfield n (opened n (length fs)) (r_bits r) = Some (mkL (Some bits_s) (repeat false n) flags0) ->
  length valid = n ->
  snd (load n ld fs (opened n (length fs)) r) = Loaded ->
  (forall i, i < n -> nth i bits_s false = true ->
     Forall2 (fun f m => fi_pad f = false -> covers f i -> kept f m) fs ms ->
     ~ In i (unc_indices u (length u)) -> nth i valid false = true) ->
  forall i, i < n ->
    nth i (check (fst (load n ld fs (opened n (length fs)) r)) valid) false = true -> nth i valid false = true.
Proof.
  intros Hmap Hfiles Hlen Hunc Hts Hlt Hbf Hv Hout Htrust.
  pose proof (resume_total n ld fs (length fs) r) as [Hshape _]. cbv zeta in Hshape.
  apply resume_sound_check; [exact Hshape | exact Hv|].
  (* a trusted piece *)
  revert Hout. unfold load. generalize (0 <? Params.c10_load_validates_entries)%N as pv; intros pv.
  rewrite Hmap, Hfiles. simpl.
  rewrite map_length, Hlen, Nat.eqb_refl. simpl.
  assert (Hnx : existsb (fun e => match e with FNotMap => true | _ => false end) (map (fun m => FMap (MVal m)) ms) = false).
  { clear. induction ms; simpl; auto. }
  rewrite Hnx, andb_false_r. rewrite Hbf.
  assert (Hlb : length bits_s = n).
  { pose proof (load_bitfield_shaped _ _ _ _ Hbf) as [_ Hb]. apply Hb. reflexivity. }
  destruct (load_files n (mkL (Some bits_s) (repeat false n) flags0) 0 fs (map (fun m => FMap (MVal m)) ms)) as [s2 ok] eqn:E2.
  destruct ok; simpl; [|discriminate].
  destruct (load_files_bits n fs _ 0 ms bits_s s2 Hlen E2 eq_refl) as (b2 & A2 & B2 & C2).
  rewrite Hunc, Hts. destruct (Z.leb_spec ld ts); [lia|].
  destruct (load_unc n s2 u (length u)) as [s3 ok3] eqn:E3. destruct ok3; simpl; [|discriminate].
  intros _ b i Hb Hi Hbit Hr.
  destruct (load_unc_bits n (length u) s2 u b2 s3 E3 A2 ltac:(congruence)) as (b3 & A3 & B3 & C3).
  rewrite A3 in Hb. inversion Hb; subst b.
  destruct (C3 i Hi Hbit) as [D1 D2]. destruct (C2 i D1) as [D3 D4].
  apply Htrust; assumption.
Qed.

(* ---------------------------------------------------------------- the loss subset and the perturbations, explicit *)
Lemma Forall2_nth {A B} (R : A -> B -> Prop) l1 l2 k a b :
  Forall2 R l1 l2 -> nth_error l1 k = Some a -> nth_error l2 k = Some b -> R a b.
Proof.
  intros HF; revert k. induction HF; intros [|k] Ha Hb; simpl in *; try discriminate.
  - inversion Ha; inversion Hb; subst; assumption.
  - eauto.
Qed.

Definition covered (fs : list finfo) (k i : nat) : bool :=
  match nth_error fs k with
  | Some f => negb (fi_pad f) && Nat.leb (fi_first f) i && Nat.ltb i (fi_last f)
  | None => false
  end.

(* what is valid on disk in the second lifetime: valid before the crash, not lost, under no touched file *)
Definition valid_after (n : nat) (fs : list finfo) (valid_before : list bool) (lost : list nat) (touched : nat -> bool) : list bool :=
  map (fun i => nth i valid_before false && negb (existsb (Nat.eqb i) lost) &&
                negb (existsb (fun k => touched k && covered fs k i) (seq 0 (length fs)))) (seq 0 n).

Lemma valid_after_nth n fs vb lost touched i : i < n ->
  nth i (valid_after n fs vb lost touched) false =
  nth i vb false && negb (existsb (Nat.eqb i) lost) &&
  negb (existsb (fun k => touched k && covered fs k i) (seq 0 (length fs))).
Proof.
  intros Hi. unfold valid_after.
  match goal with |- nth i (map ?f _) false = _ => set (g := f) end.
  rewrite (nth_indep (map g (seq 0 n)) false (g 0)) by (rewrite map_length, seq_length; assumption).
  rewrite map_nth, seq_nth by assumption. reflexivity.
Qed.

(* resume_sound for EVERY loss subset and EVERY set of touched files:
     - the previous session only set bits of pieces that were valid then (C01),
     - the crash loses ANY subset [lost] of the pieces the saved uncertain list names,
     - afterwards ANY set of files is touched (deleted, truncated, extended, rewritten), where touching a
       file makes the loader's keep-test fail for it (size or mtime changes, and the file was not saved ~3
       — the recorded known finding is exactly the failure of this for ~3),
   then after load + check every set bit is a piece valid on the perturbed disk. *)
Theorem resume_sound_loss n ld fs ms bits_s flags0 u ts r valid_before lost touched :
  r_map r = true -> r_files r = Some (map (fun m => FMap (MVal m)) ms) -> length ms = length fs ->
  r_unc r = Some u -> r_unc_ts r = Some ts -> (ts < ld)%Z ->
  load_bitfield n (opened n (length fs)) (r_bits r) = Some (mkL (Some bits_s) (repeat false n) flags0) ->
  snd (load n ld fs (opened n (length fs)) r) = Loaded ->
  (forall i, i < n -> nth i bits_s false = true -> nth i valid_before false = true) ->
  incl lost (unc_indices u (length u)) ->
  (forall k f m, nth_error fs k = Some f -> nth_error ms k = Some m -> touched k = true -> fi_pad f = false -> ~ kept f m) ->
  let valid := valid_after n fs valid_before lost touched in
  forall i, i < n ->
    nth i (check (fst (load n ld fs (opened n (length fs)) r)) valid) false = true -> nth i valid false = true.
Proof.
  intros Hmap Hfiles Hlen Hunc Hts Hlt Hbf Hout Hvb Hlost Htouch valid.
  apply (resume_sound n ld fs ms bits_s flags0 u ts valid r); auto.
  { unfold valid, valid_after. rewrite map_length, seq_length. reflexivity. }
  intros i Hi Hbit Hkept Hnu. unfold valid. rewrite valid_after_nth by assumption.
  rewrite (Hvb i Hi Hbit). simpl.
  assert (H1 : existsb (Nat.eqb i) lost = false).
  { destruct (existsb (Nat.eqb i) lost) eqn:E; [|reflexivity]. apply existsb_exists in E.
    destruct E as (x & Hin & Hx). apply Nat.eqb_eq in Hx. subst x. exfalso. apply Hnu. apply Hlost. assumption. }
  rewrite H1. simpl.
  destruct (existsb (fun k => touched k && covered fs k i) (seq 0 (length fs))) eqn:E; [|reflexivity].
  apply existsb_exists in E. destruct E as (k & Hin & Hk). apply andb_true_iff in Hk. destruct Hk as [Ht Hc].
  unfold covered in Hc. destruct (nth_error fs k) as [f|] eqn:Hf; [|discriminate].
  apply andb_true_iff in Hc. destruct Hc as [Hc H3]. apply andb_true_iff in Hc. destruct Hc as [Hp H2].
  apply negb_true_iff in Hp. apply Nat.leb_le in H2. apply Nat.ltb_lt in H3.
  destruct (nth_error ms k) as [m|] eqn:Hm.
  - exfalso. apply (Htouch k f m Hf Hm Ht Hp).
    apply (Forall2_nth _ _ _ k f m Hkept Hf Hm Hp). split; assumption.
  - exfalso. apply nth_error_None in Hm. assert (k < length fs) by (apply nth_error_Some; rewrite Hf; discriminate). lia.
Qed.

(* ---------------------------------------------------------------- crash -> load -> save before the check is done -> restart *)
(* With the repaired save (the stored uncertain list is left alone while the download is not hash
   checked) the intermediate session does not change the resume record at all, so what the final
   session loads is what the first one saved: resume_sound / resume_sound_loss apply unchanged. *)
Theorem resave_unchecked_identity r cl now :
  (0 <? Params.c10_unc_kept_while_unchecked)%N = true -> resave_unchecked r cl now = r.
Proof. intros Hf. unfold resave_unchecked. rewrite Hf. reflexivity. Qed.

Corollary resume_sound_resave n ld fs r cl now valid :
  (0 <? Params.c10_unc_kept_while_unchecked)%N = true ->
  load n ld fs (opened n (length fs)) (resave_unchecked r cl now) = load n ld fs (opened n (length fs)) r /\
  check (fst (load n ld fs (opened n (length fs)) (resave_unchecked r cl now))) valid =
  check (fst (load n ld fs (opened n (length fs)) r)) valid.
Proof. intros Hf. rewrite (resave_unchecked_identity r cl now Hf). split; reflexivity. Qed.

(* Without the repair the history is unsound: the save erases the list (this session completed nothing),
   the final load keeps the lost piece's bit and requests no recheck. *)
Theorem resume_sound_resave_refuted :
  (Params.c10_unc_kept_while_unchecked =? 0)%N = true ->
  exists n ld fs r valid i,
    snd (load n ld fs (opened n (length fs)) r) = Loaded /\
    nth i (check (fst (load n ld fs (opened n (length fs)) r)) valid) false = false /\          (* lost piece caught by the first load *)
    nth i (check (fst (load n ld fs (opened n (length fs)) (resave_unchecked r [] 1%Z))) valid) false = true /\
    nth i valid false = false.
Proof.
  intros Hf.
  exists 8, 10%Z, [mkFI 0 4 false 8192%N (Some (8192%N, 500%Z)); mkFI 4 8 false 8192%N (Some (8192%N, 500%Z))].
  exists (mkR true (Some [FMap (MVal 500%Z); FMap (MVal 500%Z)]) (BVal 8) (Some [0;0;0;2]%N) (Some 5%Z)).
  exists [true; true; false; true; true; true; true; true], 2.
  revert Hf. vm_compute. intros Hq. repeat split; first [reflexivity | exact Hq | (exfalso; discriminate Hq)].
Qed.
