(* C03 proofs, part A: one_msg (one read_message call) -- never reads outside the unread range,
   is monotone in the bytes that follow, consumes between 4 and 17 header bytes. *)
From Coq Require Import NArith List Bool Arith Lia.
From LTV.C03 Require Import ParamsGen Model.
Import ListNotations.

Lemma ltb_app (l x : list N) k : (length l <? k)%nat = false -> (length (l ++ x) <? k)%nat = false.
Proof. rewrite !Nat.ltb_ge, app_length. lia. Qed.

Lemma rd_app (l x : list N) k : (length l <? S k)%nat = false -> rd (l ++ x) k = rd l k.
Proof. rewrite Nat.ltb_ge. intros. unfold rd. apply nth_error_app1. lia. Qed.

Lemma rd_some (l : list N) k : (length l <? S k)%nat = false -> exists v, rd l k = Some v.
Proof.
  rewrite Nat.ltb_ge. intros. unfold rd. destruct (nth_error l k) eqn:E; eauto.
  apply nth_error_None in E. lia.
Qed.

Lemma rd16_app (l x : list N) k : (length l <? k + 2)%nat = false -> rd16 (l ++ x) k = rd16 l k.
Proof.
  intros H. rewrite Nat.ltb_ge in H. unfold rd16.
  rewrite !rd_app by (rewrite Nat.ltb_ge; lia). reflexivity.
Qed.

Lemma rd32_app (l x : list N) k : (length l <? k + 4)%nat = false -> rd32 (l ++ x) k = rd32 l k.
Proof.
  intros H. rewrite Nat.ltb_ge in H. unfold rd32.
  rewrite !rd_app by (rewrite Nat.ltb_ge; lia). reflexivity.
Qed.

Lemma rd16_some (l : list N) k : (length l <? k + 2)%nat = false -> exists v, rd16 l k = Some v.
Proof.
  intros H. rewrite Nat.ltb_ge in H. unfold rd16.
  destruct (rd_some l k) as [a Ha]; [rewrite Nat.ltb_ge; lia|].
  destruct (rd_some l (k + 1)) as [b Hb]; [rewrite Nat.ltb_ge; lia|].
  rewrite Ha, Hb. eauto.
Qed.

Lemma rd32_some (l : list N) k : (length l <? k + 4)%nat = false -> exists v, rd32 l k = Some v.
Proof.
  intros H. rewrite Nat.ltb_ge in H. unfold rd32.
  destruct (rd_some l k) as [a Ha]; [rewrite Nat.ltb_ge; lia|].
  destruct (rd_some l (k + 1)) as [b Hb]; [rewrite Nat.ltb_ge; lia|].
  destruct (rd_some l (k + 2)) as [c Hc]; [rewrite Nat.ltb_ge; lia|].
  destruct (rd_some l (k + 3)) as [d Hd]; [rewrite Nat.ltb_ge; lia|].
  rewrite Ha, Hb, Hc, Hd. eauto.
Qed.

Ltac body_tac x :=
  repeat match goal with
  | |- context [(length ?l <? ?k)%nat] =>
      lazymatch l with
      | (_ ++ _) => fail
      | _ => let E := fresh "E" in
             destruct (length l <? k)%nat eqn:E;
             [ try congruence
             | try rewrite (ltb_app l x k E);
               let E' := fresh "E" in
               pose proof E as E'; rewrite Nat.ltb_ge in E'; simpl in E';
               rewrite ?(rd32_app l x 5), ?(rd32_app l x 9), ?(rd32_app l x 13), ?(rd16_app l x 5), ?(rd_app l x 5)
                 by (rewrite Nat.ltb_ge; lia);
               try reflexivity ]
      end
  end.

Lemma one_body_mono pol r len id l x : one_body pol r len id l <> NeedMore -> one_body pol r len id (l ++ x) = one_body pol r len id l.
Proof.
  unfold one_body.
  destruct (p_hdr pol len id); [reflexivity|].
  destruct (id =? 0)%N; [reflexivity|]. destruct (id =? 1)%N; [reflexivity|].
  destruct (id =? 2)%N; [reflexivity|]. destruct (id =? 3)%N; [reflexivity|].
  destruct (id =? 4)%N; [body_tac x|].
  destruct (id =? 6)%N; [body_tac x|].
  destruct (id =? 7)%N; [destruct (negb (is_leech r)); [reflexivity|]; destruct (len <? Params.c03_piece_min_len)%N; [reflexivity|]; body_tac x|].
  destruct (id =? 8)%N; [body_tac x|].
  destruct (id =? 9)%N; [body_tac x|].
  destruct (id =? Params.c03_id_extension)%N; [body_tac x|].
  reflexivity.
Qed.

Lemma one_msg_mono pol r l x : one_msg pol r l <> NeedMore -> one_msg pol r (l ++ x) = one_msg pol r l.
Proof.
  unfold one_msg.
  destruct (length l <? 4)%nat eqn:E4; [congruence|].
  rewrite (ltb_app l x 4 E4), (rd32_app l x 0 E4).
  destruct (rd32 l 0) as [len|]; [|reflexivity].
  destruct (len =? 0)%N; [reflexivity|].
  destruct (length l <? 5)%nat eqn:E5; [congruence|].
  rewrite (ltb_app l x 5 E5), (rd_app l x 4 E5).
  destruct (Params.c03_max_msg_len <? len)%N; [reflexivity|].
  destruct (rd l 4) as [id|]; [|reflexivity].
  apply one_body_mono.
Qed.

Ltac some_tac :=
  repeat match goal with
  | |- context [(length ?l <? ?k)%nat] =>
      let E := fresh "E" in destruct (length l <? k)%nat eqn:E; [ try congruence | ]
  | E : (length ?l <? _)%nat = false |- context [match rd32 ?l ?k with _ => _ end] =>
      let v := fresh "v" in let H := fresh "H" in
      destruct (rd32_some l k) as [v H]; [ rewrite Nat.ltb_ge in *; simpl in *; lia | rewrite H ]
  | E : (length ?l <? _)%nat = false |- context [match rd16 ?l ?k with _ => _ end] =>
      let v := fresh "v" in let H := fresh "H" in
      destruct (rd16_some l k) as [v H]; [ rewrite Nat.ltb_ge in *; simpl in *; lia | rewrite H ]
  | E : (length ?l <? _)%nat = false |- context [match rd ?l ?k with _ => _ end] =>
      let v := fresh "v" in let H := fresh "H" in
      destruct (rd_some l k) as [v H]; [ rewrite Nat.ltb_ge in *; simpl in *; lia | rewrite H ]
  end.

Lemma one_body_no_fault pol r len id l : one_body pol r len id l <> HFault.
Proof.
  unfold one_body.
  repeat match goal with
  | |- context [if (?a =? ?b)%N then _ else _] => destruct (a =? b)%N
  end; some_tac;
  repeat match goal with |- context [if ?c then _ else _] => destruct c end; congruence.
Qed.

Lemma one_msg_no_fault pol r l : one_msg pol r l <> HFault.
Proof.
  unfold one_msg.
  destruct (length l <? 4)%nat eqn:E4; [congruence|].
  destruct (rd32_some l 0) as [len H]; [exact E4|]. rewrite H.
  destruct (len =? 0)%N; [congruence|].
  destruct (length l <? 5)%nat eqn:E5; [congruence|].
  destruct (Params.c03_max_msg_len <? len)%N; [congruence|].
  destruct (rd_some l 4) as [id H4]; [exact E5|]. rewrite H4.
  apply one_body_no_fault.
Qed.

Lemma one_body_got_len pol r len id l m n :
  (5 <= length l)%nat -> one_body pol r len id l = Got m n -> (4 <= n <= length l)%nat /\ (n <= 17)%nat.
Proof.
  intros L. unfold one_body.
  repeat match goal with
  | |- context [if (?a =? ?b)%N then _ else _] => destruct (a =? b)%N
  end;
  repeat match goal with
  | |- context [(length ?l <? ?k)%nat] =>
      let E := fresh "E" in destruct (length l <? k)%nat eqn:E; [ try congruence | rewrite Nat.ltb_ge in E; simpl in E ]
  | |- context [match rd32 ?l ?k with _ => _ end] => destruct (rd32 l k)
  | |- context [match rd16 ?l ?k with _ => _ end] => destruct (rd16 l k)
  | |- context [match rd ?l ?k with _ => _ end] => destruct (rd l k)
  | |- context [if ?c then _ else _] => destruct c
  end; try congruence; intros H; inversion H; subst; lia.
Qed.

(* header sizes *)
Lemma one_msg_got_len pol r l m n : one_msg pol r l = Got m n -> (4 <= n <= length l)%nat /\ (n <= 17)%nat.
Proof.
  unfold one_msg.
  destruct (length l <? 4)%nat eqn:E4; [congruence|]. rewrite Nat.ltb_ge in E4.
  destruct (rd32 l 0) as [len|]; [|congruence].
  destruct (len =? 0)%N; [intros H; inversion H; subst; lia|].
  destruct (length l <? 5)%nat eqn:E5; [congruence|]. rewrite Nat.ltb_ge in E5.
  destruct (Params.c03_max_msg_len <? len)%N; [congruence|].
  destruct (rd l 4) as [id|]; [|congruence].
  apply one_body_got_len. exact E5.
Qed.
