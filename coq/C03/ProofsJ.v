(* C03 proofs, part J: the pausing decoder `feedb` (extension "waiting for a write") for ARBITRARY
   reply oracles -- the general case that ProofsI leaves out.
   - feedb_total: with enough fuel, never PBFault / PBOut.
   - feedb_refines: feedb is a decoder that may stop early and loses nothing: what it dispatched
     followed by decoding from where it stopped (the waiting message with lft = 0 plus the kept
     buffer rest) IS the decode of the whole input; when it does not end waiting it is exactly
     `feed`; when it ends waiting, the mode is RPay KExt 0, a reply is pending and the waiting
     message is one that generates a reply.
   - feedb_resume: from a waiting state, once the pending reply is written (pend = false) the
     waiting message is dispatched at once (progress of wready).
   - runW / runW_refines: the decoder-level machine over segments and write-ready events (bytes
     that arrive while a message waits stay in the socket): for every interleaving, effects ++
     decode from the end state over (buffer ++ socket) = decode of all bytes; after a final
     write-ready event nothing waits, the socket is empty and the result is exactly `decode`. *)
From Coq Require Import NArith List Bool Arith Lia ZifyBool ZifyNat ZifyN.
From LTV.C03 Require Import ParamsGen Model Proofs ProofsA ProofsB.
Import ListNotations.
Local Open Scope nat_scope.

Arguments ProofsB.feedx : simpl never.
Arguments ProofsB.mu : simpl never.

Section WaitGeneral.
Variable HS : Type.
Variable handle : HS -> msg -> HS * verdict.
Variable rl : role.
Variable pol : policy.
Variable reply : HS -> bool.

Notation feedb := (feedb HS handle rl pol reply).
Notation feedx := (feedx HS handle rl pol).
Notation papp := (papp HS).
Notation PB := (PB HS).

Lemma papp_pcons e es r : pcons HS e (papp es r) = papp (e :: es) r.
Proof. destruct r; reflexivity. Qed.

Lemma feedb_total : forall f h pend m l, mu m l < f ->
  exists h1 p1 w1 m1 b1 es1, feedb f h pend m l = PB h1 p1 w1 m1 b1 es1.
Proof.
  induction f as [|f IH]; intros h pend m l Hf; [lia|].
  cbn [Model.feedb]. destruct m as [|k lft|]; [| |do 6 eexists; reflexivity].
  - destruct (one_msg pol rl l) eqn:E; try (do 6 eexists; reflexivity).
    + exfalso. eapply one_msg_no_fault; eauto.
    + destruct (one_msg_got_len _ _ _ _ _ E) as [[L1 L2] _].
      destruct (handle h m) as [h' v]. destruct v; try (do 6 eexists; reflexivity).
      assert (LS : length (skipn n l) + 4 <= length l) by (rewrite skipn_length; lia).
      unfold mu in Hf.
      destruct (after m) as [[k len]|].
      * destruct (IH h' pend (RPay k len) (skipn n l)) as (a & b & c & d & e & g & Q); [unfold mu; lia|].
        rewrite Q. cbn. do 6 eexists; reflexivity.
      * destruct (IH h' pend RIdle (skipn n l)) as (a & b & c & d & e & g & Q); [unfold mu; lia|].
        rewrite Q. cbn. do 6 eexists; reflexivity.
  - destruct (N.of_nat (length l) <? lft)%N; [do 6 eexists; reflexivity|].
    destruct (is_kext k && reply h && pend); [do 6 eexists; reflexivity|].
    destruct (handle h (pay_done k)) as [h' v]. destruct v; try (do 6 eexists; reflexivity).
    pose proof (skipn_length_le (N.to_nat lft) l). unfold mu in Hf.
    destruct (IH h' (pend || is_kext k && reply h) RIdle (skipn (N.to_nat lft) l)) as (a & b & c & d & e & g & Q); [unfold mu; lia|].
    rewrite Q. cbn. do 6 eexists; reflexivity.
Qed.

(* the core: one call of the pausing decoder versus the decoder *)
Lemma feedb_core : forall f h pend m l h1 p1 w1 m1 b1 es1,
  mu m l < f -> feedb f h pend m l = PB h1 p1 w1 m1 b1 es1 ->
  if w1
  then m1 = RPay KExt 0%N /\ p1 = true /\ reply h1 = true /\ length b1 <= length l /\
       feedx h m l = papp es1 (feedx h1 m1 b1)
  else feedx h m l = PRes h1 m1 b1 es1 /\ (pend = true -> p1 = true).
Proof.
  induction f as [|f IH]; intros h pend m l h1 p1 w1 m1 b1 es1 Hf; [lia|].
  cbn [Model.feedb]. destruct m as [|k lft|].
  - rewrite feedx_idle.
    destruct (one_msg pol rl l) eqn:E; try discriminate;
      try (intros Q; inversion Q; subst; split; [reflexivity|tauto]).
    destruct (one_msg_got_len _ _ _ _ _ E) as [[L1 L2] _].
    destruct (handle h m) as [h' v].
    destruct v; try (intros Q; inversion Q; subst; split; [reflexivity|tauto]).
    assert (LS : length (skipn n l) + 4 <= length l) by (rewrite skipn_length; lia).
    unfold mu in Hf.
    destruct (after m) as [[k len]|].
    + destruct (feedb f h' pend (RPay k len) (skipn n l)) as [h2 p2 w2 m2 b2 es2| |] eqn:Q1; cbn; try discriminate.
      intros Q; inversion Q; subst.
      assert (M : mu (RPay k len) (skipn n l) < f) by (unfold mu; lia).
      pose proof (IH _ _ _ _ _ _ _ _ _ _ M Q1) as R. destruct w1.
      * destruct R as (R1 & R2 & R3 & R4 & R5). repeat split; auto; [lia|].
        rewrite R5. apply papp_pcons.
      * destruct R as (R5 & R6). rewrite R5. split; [reflexivity|exact R6].
    + destruct (feedb f h' pend RIdle (skipn n l)) as [h2 p2 w2 m2 b2 es2| |] eqn:Q1; cbn; try discriminate.
      intros Q; inversion Q; subst.
      assert (M : mu RIdle (skipn n l) < f) by (unfold mu; lia).
      pose proof (IH _ _ _ _ _ _ _ _ _ _ M Q1) as R. destruct w1.
      * destruct R as (R1 & R2 & R3 & R4 & R5). repeat split; auto; [lia|].
        rewrite R5. apply papp_pcons.
      * destruct R as (R5 & R6). rewrite R5. split; [reflexivity|exact R6].
  - rewrite feedx_pay.
    destruct (N.of_nat (length l) <? lft)%N eqn:EL.
    { intros Q; inversion Q; subst. split; [reflexivity|tauto]. }
    destruct (is_kext k && reply h && pend) eqn:EW.
    + (* the message waits *)
      intros Q; inversion Q; subst.
      apply andb_true_iff in EW. destruct EW as [EW EP]. apply andb_true_iff in EW. destruct EW as [EK ER].
      destruct k; try discriminate. repeat split; auto.
      * apply skipn_length_le.
      * cbn [ProofsB.papp]. rewrite feedx_pay.
        replace (N.of_nat (length (skipn (N.to_nat lft) l)) <? 0)%N with false by (symmetry; apply N.ltb_ge; lia).
        change (N.to_nat 0) with 0. cbn [skipn].
        destruct (handle h1 (pay_done KExt)) as [h' v].
        destruct v; try reflexivity.
        destruct (feedx h' RIdle (skipn (N.to_nat lft) l)); reflexivity.
    + destruct (handle h (pay_done k)) as [h' v].
      destruct v; try (intros Q; inversion Q; subst; split; [reflexivity|intros ->; reflexivity]).
      pose proof (skipn_length_le (N.to_nat lft) l). unfold mu in Hf.
      destruct (feedb f h' (pend || is_kext k && reply h) RIdle (skipn (N.to_nat lft) l)) as [h2 p2 w2 m2 b2 es2| |] eqn:Q1; cbn; try discriminate.
      intros Q; inversion Q; subst.
      assert (M : mu RIdle (skipn (N.to_nat lft) l) < f) by (unfold mu; lia).
      pose proof (IH _ _ _ _ _ _ _ _ _ _ M Q1) as R. destruct w1.
      * destruct R as (R1 & R2 & R3 & R4 & R5). repeat split; auto; [lia|].
        rewrite R5. apply papp_pcons.
      * destruct R as (R5 & R6). rewrite R5. split; [reflexivity|].
        intros ->. apply R6. reflexivity.
  - intros Q; inversion Q; subst. split; [reflexivity|tauto].
Qed.

(* the statement exported to Properties.v *)
Theorem feedb_refines : forall f h pend m l, mu m l < f ->
  exists h1 p1 w1 m1 b1 es1,
    feedb f h pend m l = PB h1 p1 w1 m1 b1 es1 /\
    (forall y, feedx h m (l ++ y) = papp es1 (feedx h1 m1 (b1 ++ y))) /\
    (if w1 then m1 = RPay KExt 0%N /\ p1 = true /\ reply h1 = true /\ length b1 <= length l
     else feed HS handle rl pol f h m l = PRes h1 m1 b1 es1).
Proof.
  intros f h pend m l Hf.
  destruct (feedb_total f h pend m l Hf) as (h1 & p1 & w1 & m1 & b1 & es1 & Q).
  exists h1, p1, w1, m1, b1, es1. split; [exact Q|].
  pose proof (feedb_core _ _ _ _ _ _ _ _ _ _ _ Hf Q) as R.
  assert (C : feedx h m l = papp es1 (feedx h1 m1 b1)).
  { destruct w1; [tauto|]. destruct R as [R _]. rewrite R.
    rewrite (feedx_idem _ _ _ _ _ _ _ _ _ _ _ R). cbn. rewrite app_nil_r. reflexivity. }
  split.
  - intros y. rewrite feedx_app', C, pbind_papp. f_equal. symmetry. apply feedx_app'.
  - destruct w1; [tauto|]. destruct R as [R _]. rewrite <- R. apply feedx_fuel. exact Hf.
Qed.

(* progress of a write-ready event: with the pending reply written the waiting message is dispatched *)
Theorem feedb_resume : forall f h b,
  feedb (S f) h false (RPay KExt 0%N) b =
  let (h', v) := handle h MExtDone in
  match v with
  | VCont => pbcons HS (EMsg MExtDone) (feedb f h' (reply h) RIdle b)
  | VClose => PB h' (reply h) false RClosed [] [EMsg MExtDone; EClose RHandler]
  | VFatal => PB h' (reply h) false RClosed [] [EMsg MExtDone; EFatal]
  end.
Proof.
  intros f h b. cbn [Model.feedb].
  replace (N.of_nat (length b) <? 0)%N with false by (symmetry; apply N.ltb_ge; lia).
  rewrite andb_false_r. cbn [is_kext andb orb pay_done]. change (N.to_nat 0) with 0. cbn [skipn].
  reflexivity.
Qed.

(* ---- decoder-level machine over segments and write-ready events ----------------------------- *)
(* state: handler state, pending reply, waiting message, mode, buffer rest, socket (bytes that
   arrived while a message waits: reads are disabled, they stay in the socket).
   BSeg c: if a message waits the bytes queue up in the socket, else they are decoded.
   BWrite: the pending reply is written (pend := false); if a message waits it is dispatched, the
   buffer rest and the socket are decoded, and -- as the write side keeps writing -- this repeats
   until nothing waits (each round dispatches at least the waiting message: fuel = bytes + 1). *)
Inductive wres := WRes (h : HS) (pend wait : bool) (m : rmode) (buf sock : list N) (effs : list effect) | WBad.

Definition wapp (es : list effect) (r : wres) : wres :=
  match r with WRes h p w m b s es' => WRes h p w m b s (es ++ es') | x => x end.

Fixpoint wwrite (fuel : nat) (h : HS) (wait : bool) (m : rmode) (buf sock : list N) : wres :=
  match fuel with
  | O => WBad
  | S f =>
    if wait then
      match feedb (S (S (length (buf ++ sock)))) h false m (buf ++ sock) with
      | Model.PB _ h1 p1 w1 m1 b1 es1 =>
        if w1 then wapp es1 (wwrite f h1 true m1 b1 []) else WRes h1 p1 false m1 b1 [] es1
      | _ => WBad
      end
    else WRes h false false m buf sock []
  end.

Fixpoint runW (h : HS) (pend wait : bool) (m : rmode) (buf sock : list N) (evs : list bevent) : wres :=
  match evs with
  | [] => WRes h pend wait m buf sock []
  | BSeg c :: r =>
    if wait then runW h pend true m buf (sock ++ c) r
    else match feedb (S (S (length (buf ++ sock ++ c)))) h pend m (buf ++ sock ++ c) with
         | Model.PB _ h1 p1 w1 m1 b1 es1 => wapp es1 (runW h1 p1 w1 m1 b1 [] r)
         | _ => WBad
         end
  | BWrite :: r =>
    match wwrite (S (S (length (buf ++ sock)))) h wait m buf sock with
    | WRes h1 p1 w1 m1 b1 s1 es1 => wapp es1 (runW h1 p1 w1 m1 b1 s1 r)
    | WBad => WBad
    end
  end.

Fixpoint wbytes (evs : list bevent) : list N :=
  match evs with [] => [] | BSeg c :: r => c ++ wbytes r | BWrite :: r => wbytes r end.

Lemma mu_le m (l : list N) : mu m l < S (S (length l)).
Proof. unfold mu. destruct m; lia. Qed.

Lemma wwrite_refines : forall fuel h wait m buf sock,
  length (buf ++ sock) < fuel ->
  (wait = true -> m = RPay KExt 0%N) ->
  exists h1 p1 m1 b1 s1 es1,
    wwrite fuel h wait m buf sock = WRes h1 p1 false m1 b1 s1 es1 /\
    (forall y, feedx h m ((buf ++ sock) ++ y) = papp es1 (feedx h1 m1 ((b1 ++ s1) ++ y))) /\
    (wait = true -> s1 = [] /\ feedx h m (buf ++ sock) = PRes h1 m1 b1 es1) /\
    (wait = false -> h1 = h /\ m1 = m /\ b1 = buf /\ s1 = sock /\ es1 = []).
Proof.
  induction fuel as [|fuel IH]; intros h wait m buf sock Hf Hw; [lia|].
  cbn [wwrite]. destruct wait.
  - specialize (Hw eq_refl). subst m.
    destruct (feedb_refines (S (S (length (buf ++ sock)))) h false (RPay KExt 0%N) (buf ++ sock) (mu_le _ _))
      as (h1 & p1 & w1 & m1 & b1 & es1 & Q & C & R).
    pose proof Q as Q'. rewrite feedb_resume in Q'.
    rewrite Q. destruct w1.
    + destruct R as (R1 & R2 & R3 & R4). subst m1.
      (* the waiting message was dispatched; a new wait can only come from a LATER message, whose
         header (4+ bytes) has been consumed: the kept rest is strictly shorter *)
      assert (LT : length b1 < length (buf ++ sock)).
      { destruct (handle h MExtDone) as [h' v]. destruct v; try discriminate.
        destruct (feedb (S (length (buf ++ sock))) h' (reply h) RIdle (buf ++ sock)) as [h2 p2 w2 m2 b2 es2| |] eqn:Q2;
          cbn in Q'; try discriminate.
        inversion Q'; subst.
        clear - Q2. revert Q2. generalize (buf ++ sock) as l. intros l.
        cbn [Model.feedb].
        destruct (one_msg pol rl l) eqn:E; try discriminate.
        destruct (one_msg_got_len _ _ _ _ _ E) as [[L1 L2] _].
        destruct (handle h' m) as [h3 v3]. destruct v3; try discriminate.
        assert (LS : length (skipn n l) + 4 <= length l) by (rewrite skipn_length; lia).
        destruct (after m) as [[k len]|].
        - destruct (feedb (length l) h3 (reply h) (RPay k len) (skipn n l)) as [h4 p4 w4 m4 b4 es4| |] eqn:Q3; cbn; try discriminate.
          intros Q; inversion Q; subst.
          destruct (length l) as [|f] eqn:EL; [lia|].
          assert (M : mu (RPay k len) (skipn n l) < S f) by (unfold mu; lia).
          pose proof (feedb_core _ _ _ _ _ _ _ _ _ _ _ M Q3) as R. cbn in R. lia.
        - destruct (feedb (length l) h3 (reply h) RIdle (skipn n l)) as [h4 p4 w4 m4 b4 es4| |] eqn:Q3; cbn; try discriminate.
          intros Q; inversion Q; subst.
          destruct (length l) as [|f] eqn:EL; [lia|].
          assert (M : mu RIdle (skipn n l) < S f) by (unfold mu; lia).
          pose proof (feedb_core _ _ _ _ _ _ _ _ _ _ _ M Q3) as R. cbn in R. lia. }
      destruct (IH h1 true (RPay KExt 0%N) b1 []) as (h2 & p2 & m2 & b2 & s2 & es2 & Q2 & C2 & R2' & _);
        [rewrite app_nil_r; lia|reflexivity|].
      destruct (R2' eq_refl) as [S2 F2]. subst s2.
      rewrite Q2. cbn [wapp]. do 6 eexists. split; [reflexivity|]. split; [|split; [|discriminate]].
      * intros y. rewrite C. rewrite app_nil_r in C2. rewrite C2. rewrite papp_papp. reflexivity.
      * intros _. split; [reflexivity|].
        pose proof (C []) as C0. rewrite !app_nil_r in C0. rewrite C0.
        rewrite app_nil_r in F2. rewrite F2. reflexivity.
    + do 6 eexists. split; [reflexivity|]. split; [|split; [|discriminate]].
      * intros y. rewrite app_nil_r. apply C.
      * intros _. split; [reflexivity|]. rewrite <- R. symmetry. apply feedx_fuel. apply mu_le.
  - do 6 eexists. split; [reflexivity|]. split; [|split; [discriminate|]].
    + intros y. destruct (feedx h m ((buf ++ sock) ++ y)); cbn; reflexivity.
    + intros _. repeat split; reflexivity.
Qed.

Lemma wapp_nil r : wapp [] r = r.
Proof. destruct r; reflexivity. Qed.

Lemma wapp_wapp a b r : wapp a (wapp b r) = wapp (a ++ b) r.
Proof. destruct r; cbn; [rewrite app_assoc|]; reflexivity. Qed.

Lemma runW_app : forall a b h p w m buf sock,
  runW h p w m buf sock (a ++ b) =
  match runW h p w m buf sock a with
  | WRes h1 p1 w1 m1 b1 s1 es1 => wapp es1 (runW h1 p1 w1 m1 b1 s1 b)
  | WBad => WBad
  end.
Proof.
  induction a as [|e r IH]; intros b h p w m buf sock.
  - cbn. rewrite wapp_nil. reflexivity.
  - cbn [app runW]. destruct e as [c|].
    + destruct w; [apply IH|].
      destruct (feedb _ h p m _) as [h1 p1 w1 m1 b1 es1| |]; try reflexivity.
      rewrite IH. destruct (runW h1 p1 w1 m1 b1 [] r); cbn [wapp]; [rewrite wapp_wapp|]; reflexivity.
    + destruct (wwrite _ h w m buf sock) as [h1 p1 w1 m1 b1 s1 es1|]; try reflexivity.
      rewrite IH. destruct (runW h1 p1 w1 m1 b1 s1 r); cbn [wapp]; [rewrite wapp_wapp|]; reflexivity.
Qed.

(* invariant of the runs: a waiting message is an extension message with lft = 0; when nothing
   waits the socket has been read empty and the state is settled *)
Definition winv (h : HS) (wait : bool) (m : rmode) (buf sock : list N) : Prop :=
  (wait = true -> m = RPay KExt 0%N) /\
  (wait = false -> sock = [] /\ feedx h m buf = PRes h m buf []).

(* every interleaving of segments and write-ready events: the run is total, and what was
   dispatched followed by the decode from the end state over buffer ++ socket ++ (any further
   bytes) is the decode of all the bytes: nothing is lost, duplicated or reordered by waiting *)
Theorem runW_refines : forall evs h pend wait m buf sock,
  winv h wait m buf sock ->
  exists h1 p1 w1 m1 b1 s1 es1,
    runW h pend wait m buf sock evs = WRes h1 p1 w1 m1 b1 s1 es1 /\
    winv h1 w1 m1 b1 s1 /\
    (forall y, feedx h m (buf ++ sock ++ wbytes evs ++ y) = papp es1 (feedx h1 m1 (b1 ++ s1 ++ y))).
Proof.
  induction evs as [|e r IH]; intros h pend wait m buf sock Hi.
  - cbn [runW wbytes]. do 7 eexists. split; [reflexivity|]. split; [exact Hi|].
    intros y. cbn [app]. destruct (feedx h m (buf ++ sock ++ y)); reflexivity.
  - destruct e as [c|]; cbn [runW wbytes].
    + destruct wait.
      * destruct (IH h pend true m buf (sock ++ c)) as (h1 & p1 & w1 & m1 & b1 & s1 & es1 & Q & I1 & C).
        { destruct Hi as [A B]. split; [exact A|discriminate]. }
        exists h1, p1, w1, m1, b1, s1, es1. split; [exact Q|]. split; [exact I1|].
        intros y. rewrite <- C. rewrite <- !app_assoc. reflexivity.
      * destruct Hi as [_ Hi]. destruct (Hi eq_refl) as [Hs Hset]. subst sock. cbn [app].
        destruct (feedb_refines (S (S (length (buf ++ c)))) h pend m (buf ++ c) (mu_le _ _))
          as (h1 & p1 & w1 & m1 & b1 & es1 & Q & C & R).
        rewrite Q.
        destruct (IH h1 p1 w1 m1 b1 []) as (h2 & p2 & w2 & m2 & b2 & s2 & es2 & Q2 & I2 & C2).
        { split.
          - intros ->. tauto.
          - intros ->. split; [reflexivity|].
            rewrite feedx_fuel in R by apply mu_le.
            eapply feedx_idem; eauto. }
        rewrite Q2. cbn [wapp]. do 7 eexists. split; [reflexivity|]. split; [exact I2|].
        intros y. rewrite <- (app_assoc c (wbytes r) y), (app_assoc buf c (wbytes r ++ y)), C. cbn [app] in C2. rewrite C2, papp_papp. reflexivity.
    + destruct (wwrite_refines (S (S (length (buf ++ sock)))) h wait m buf sock) as
        (h1 & p1 & m1 & b1 & s1 & es1 & Q & C & R & R0); [lia|apply Hi|].
      rewrite Q.
      destruct (IH h1 p1 false m1 b1 s1) as (h2 & p2 & w2 & m2 & b2 & s2 & es2 & Q2 & I2 & C2).
      { split; [discriminate|]. intros _. destruct wait.
        - destruct (R eq_refl) as [-> F]. split; [reflexivity|]. eapply feedx_idem; eauto.
        - destruct (R0 eq_refl) as (-> & -> & -> & -> & _). apply Hi. reflexivity. }
      rewrite Q2. cbn [wapp]. do 7 eexists. split; [reflexivity|]. split; [exact I2|].
      intros y. specialize (C (wbytes r ++ y)). rewrite <- !app_assoc in C. rewrite C.
      rewrite C2, papp_papp. reflexivity.
Qed.

(* the full statement at the decoder level: from a fresh connection, ANY interleaving of segments
   and write-ready events followed by a final write-ready event ends with nothing waiting, the
   socket read empty, and handler state / mode / unread rest / effects exactly those of decoding
   the concatenated bytes at once *)
Theorem runW_decode : forall evs h,
  exists h1 p1 m1 b1 es1,
    runW h false false RIdle [] [] (evs ++ [BWrite]) = WRes h1 p1 false m1 b1 [] es1 /\
    decode HS handle rl pol h (wbytes evs) = PRes h1 m1 b1 es1.
Proof.
  intros evs h. rewrite runW_app.
  destruct (runW_refines evs h false false RIdle [] []) as (h1 & p1 & w1 & m1 & b1 & s1 & es1 & Q & I1 & C).
  { split; [discriminate|]. intros _. split; reflexivity. }
  rewrite Q. cbn [runW].
  destruct (wwrite_refines (S (S (length (b1 ++ s1)))) h1 w1 m1 b1 s1) as
    (h2 & p2 & m2 & b2 & s2 & es2 & Q2 & C2 & R & R0); [lia|apply I1|].
  rewrite Q2. cbn [wapp].
  specialize (C []). cbn [app] in C. rewrite !app_nil_r in C.
  assert (D : decode HS handle rl pol h (wbytes evs) = feedx h RIdle (wbytes evs)).
  { unfold decode. apply feedx_fuel. unfold mu. lia. }
  rewrite D, C. destruct w1.
  - destruct (R eq_refl) as [-> F]. rewrite F. cbn. rewrite app_nil_r.
    do 5 eexists. split; reflexivity.
  - destruct (R0 eq_refl) as (-> & -> & -> & -> & ->).
    destruct I1 as [_ I1]. destruct (I1 eq_refl) as [-> F]. rewrite !app_nil_r, F. cbn. rewrite ?app_nil_r.
    do 5 eexists. split; reflexivity.
Qed.

End WaitGeneral.
