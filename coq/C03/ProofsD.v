(* C03 proofs, part D: the machine (event_read over a socket with per-read budgets and the
   13/512 fill target) refines the decoder: whatever the segmentation, the recv budgets and the
   target choices, the effects it emits are those of decoding the concatenated stream. *)
From Coq Require Import NArith List Bool Arith Lia.
From LTV.C03 Require Import ParamsGen Model Proofs ProofsA ProofsB ProofsC.
Import ListNotations.
Local Open Scope nat_scope.
Arguments ProofsB.feedx : simpl never.
Arguments ProofsB.papp : simpl never.

Section MachineProofs.
Variable HS : Type.
Variable handle : HS -> msg -> HS * verdict.
Variable rl : role.
Variable pol : policy.
Variable budget : nat -> nat.
Variable short : nat -> bool.

Notation feedx := (feedx HS handle rl pol).
Notation papp := (papp HS).
Notation ev := (ev HS handle rl pol budget short).
Notation drain := (drain HS handle rl pol budget short).
Notation run_segs := (run_segs HS handle rl pol budget short).
Notation mst := (mst HS).

(* what the decoder would do from machine state s with the bytes y *)
Definition A (s : mst) (y : list N) := feedx (m_h s) (m_mode s) (m_buf s ++ y).

Definition good (s : mst) : Prop :=
  feedx (m_h s) (m_mode s) (m_buf s) = PRes (m_h s) (m_mode s) (m_buf s) [] /\
  match m_mode s with RIdle => one_msg pol rl (m_buf s) = NeedMore | _ => m_buf s = [] end.

Lemma good_of_feed h m l h1 m1 b1 es1 c :
  feedx h m l = PRes h1 m1 b1 es1 -> good (mk_mst h1 m1 b1 c).
Proof.
  intros H. split; cbn.
  - eapply feedx_idem; eauto.
  - exact (feedx_shape HS handle rl pol (S (mu m l)) _ _ _ _ _ _ _ (Nat.lt_succ_diag_r _) H).
Qed.

Lemma A_step h m b got h1 m1 b1 es1 :
  feedx h m (b ++ got) = PRes h1 m1 b1 es1 ->
  forall y, feedx h m (b ++ got ++ y) = papp es1 (feedx h1 m1 (b1 ++ y)).
Proof.
  intros H y. rewrite app_assoc, (feedx_app' HS handle rl pol h m (b ++ got) y), H. reflexivity.
Qed.

Lemma mapp_ret es r s' a' es' :
  mapp HS es r = MRet s' a' es' -> exists e2, r = MRet s' a' e2 /\ es' = es ++ e2.
Proof. destruct r; cbn; intros Q; inversion Q; subst; eauto. Qed.

Lemma target_pos s : good s -> m_mode s = RIdle -> length (m_buf s) < target_of HS rl short s.
Proof.
  intros [_ G] M. rewrite M in G. apply needmore_short in G.
  unfold target_of, bufsz.
  destruct (is_leech rl && (length (m_buf s) =? 0) && short (m_cnt s)) eqn:E.
  - apply andb_true_iff in E. destruct E as [E _]. apply andb_true_iff in E. destruct E as [_ E].
    apply Nat.eqb_eq in E. rewrite E. vm_compute. lia.
  - change (N.to_nat Params.c03_buffer_size) with 512. lia.
Qed.

Definition refines (s : mst) (avail : list N) (s' : mst) (avail' : list N) (es : list effect) : Prop :=
  good s' /\ exists c, avail = c ++ avail' /\ forall y, A s (c ++ y) = papp es (A s' y).

Lemma refines_refl s avail : good s -> refines s avail s avail [].
Proof.
  intros G. split; [exact G|]. exists []. split; [reflexivity|].
  intros y. cbn. symmetry. apply papp_nil.
Qed.

Lemma refines_trans s a s1 a1 e1 s2 a2 e2 :
  refines s a s1 a1 e1 -> refines s1 a1 s2 a2 e2 -> refines s a s2 a2 (e1 ++ e2).
Proof.
  intros [G1 (c1 & Q1 & R1)] [G2 (c2 & Q2 & R2)]. split; [exact G2|].
  exists (c1 ++ c2). split; [subst; rewrite app_assoc; reflexivity|].
  intros y. rewrite <- app_assoc, R1, R2. apply papp_papp.
Qed.

Lemma ev_refines : forall fuel s avail s' avail' es,
  good s -> ev fuel s avail = MRet s' avail' es -> refines s avail s' avail' es.
Proof.
  induction fuel as [|f IH]; intros s avail s' avail' es G H; [discriminate|].
  cbn [Model.ev] in H. cbv zeta in H.
  destruct (m_mode s) as [|k lft|] eqn:M.
  - (* RIdle *)
    pose proof (target_pos s G M) as TP. apply Nat.ltb_lt in TP. rewrite TP in H.
    set (want := Nat.min (target_of HS rl short s - length (m_buf s)) (cap budget (m_cnt s))) in *.
    pose proof (firstn_skipn want avail) as FS.
    destruct (firstn want avail) as [|g0 gs] eqn:GOT.
    + (* 0-byte read: the buffer is parsed; from a settled state that is a no-op *)
      rewrite (feedx_fuel HS handle rl pol) in H by (unfold mu; lia).
      destruct G as [GS GM]. rewrite M in GS. rewrite GS in H. inversion H; subst.
      assert (G' : good (mk_mst (m_h s) RIdle (m_buf s) (S (m_cnt s)))).
      { split; cbn [m_h m_mode m_buf]; [exact GS|]. rewrite M in GM. exact GM. }
      split; [exact G'|]. exists []. split; [reflexivity|].
      intros y. cbn [app]. unfold A. cbn [m_h m_mode m_buf]. rewrite M. symmetry. apply papp_nil.
    + set (got := g0 :: gs) in *.
      destruct (bufcap <? length (m_buf s) + length got); [discriminate|].
      rewrite (feedx_fuel HS handle rl pol) in H by (unfold mu; rewrite app_length; lia).
      destruct (ProofsB.feedx HS handle rl pol (m_h s) RIdle (m_buf s ++ got)) as [h1 m1 b1 es1| |] eqn:F1; try discriminate.
      pose proof (good_of_feed _ _ _ _ _ _ _ (S (m_cnt s)) F1) as G1.
      assert (R1 : refines s avail (mk_mst h1 m1 b1 (S (m_cnt s))) (skipn want avail) es1).
      { split; [exact G1|]. exists got. split; [symmetry; exact FS|].
        intros y. unfold A. cbn [m_h m_mode m_buf]. rewrite M. apply A_step. exact F1. }
      destruct m1 as [|k1 lft1|].
      * (* RIdle *)
        destruct (negb (length b1 =? 0) || (length (m_buf s) + length got =? target_of HS rl short s)).
        -- apply mapp_ret in H. destruct H as (e2 & H & ->).
           eapply refines_trans; [exact R1|]. eapply IH; eauto.
        -- inversion H; subst. exact R1.
      * destruct k1.
        -- (* KPiece *)
           destruct (negb (length b1 =? 0) || (length (m_buf s) + length got =? target_of HS rl short s)).
           ++ apply mapp_ret in H. destruct H as (e2 & H & ->).
              eapply refines_trans; [exact R1|]. eapply IH; eauto.
           ++ inversion H; subst. exact R1.
        -- (* KExt: one more recv inside read_message *)
           pose proof (firstn_skipn (Nat.min (N.to_nat lft1) (cap budget (S (m_cnt s)))) (skipn want avail)) as FS2.
           remember (firstn (Nat.min (N.to_nat lft1) (cap budget (S (m_cnt s)))) (skipn want avail)) as got2.
           remember (skipn (Nat.min (N.to_nat lft1) (cap budget (S (m_cnt s)))) (skipn want avail)) as avail2.
           rewrite (feedx_fuel HS handle rl pol) in H by (unfold mu; lia).
           destruct (ProofsB.feedx HS handle rl pol h1 (RPay KExt lft1) got2) as [h2 m2 b2 es2| |] eqn:F2; try discriminate.
           pose proof (good_of_feed _ _ _ _ _ _ _ (S (S (m_cnt s))) F2) as G2.
           assert (B1 : b1 = []) by (destruct G1 as [_ X]; exact X). subst b1.
           assert (R2 : refines (mk_mst h1 (RPay KExt lft1) [] (S (m_cnt s))) (skipn want avail)
                                (mk_mst h2 m2 b2 (S (S (m_cnt s)))) avail2 es2).
           { split; [exact G2|]. exists got2. split; [symmetry; exact FS2|].
             intros y. unfold A. cbn [m_h m_mode m_buf]. apply (A_step h1 (RPay KExt lft1) [] got2). exact F2. }
           pose proof (refines_trans _ _ _ _ _ _ _ _ R1 R2) as R12.
           destruct (negb (length b2 =? 0) || (length (m_buf s) + length got =? target_of HS rl short s)).
           ++ apply mapp_ret in H. destruct H as (e2 & H & ->).
              eapply refines_trans; [exact R12|]. eapply IH; eauto.
           ++ inversion H; subst. exact R12.
        -- (* KBits *)
           destruct (negb (length b1 =? 0) || (length (m_buf s) + length got =? target_of HS rl short s)).
           ++ apply mapp_ret in H. destruct H as (e2 & H & ->).
              eapply refines_trans; [exact R1|]. eapply IH; eauto.
           ++ inversion H; subst. exact R1.
      * (* RClosed *)
        destruct (negb (length b1 =? 0) || (length (m_buf s) + length got =? target_of HS rl short s)).
        -- apply mapp_ret in H. destruct H as (e2 & H & ->).
           eapply refines_trans; [exact R1|]. eapply IH; eauto.
        -- inversion H; subst. exact R1.
  - (* RPay *)
    set (want := Nat.min (N.to_nat lft) (cap budget (m_cnt s))) in *.
    pose proof (firstn_skipn want avail) as FS.
    destruct (firstn want avail) as [|g0 gs] eqn:GOT.
    + inversion H; subst. apply refines_refl. exact G.
    + set (got := g0 :: gs) in *.
      rewrite (feedx_fuel HS handle rl pol) in H by (unfold mu; lia).
      destruct (ProofsB.feedx HS handle rl pol (m_h s) (RPay k lft) got) as [h1 m1 b1 es1| |] eqn:F1; try discriminate.
      pose proof (good_of_feed _ _ _ _ _ _ _ (S (m_cnt s)) F1) as G1.
      assert (B : m_buf s = []) by (destruct G as [_ X]; rewrite M in X; exact X).
      assert (R1 : refines s avail (mk_mst h1 m1 b1 (S (m_cnt s))) (skipn want avail) es1).
      { split; [exact G1|]. exists got. split; [symmetry; exact FS|].
        intros y. unfold A. cbn [m_h m_mode m_buf]. rewrite M, B. apply (A_step (m_h s) (RPay k lft) [] got). exact F1. }
      destruct m1 as [|k1 lft1|].
      * apply mapp_ret in H. destruct H as (e2 & H & ->).
        eapply refines_trans; [exact R1|]. eapply IH; eauto.
      * inversion H; subst. exact R1.
      * inversion H; subst. exact R1.
  - inversion H; subst. apply refines_refl. exact G.
Qed.

Lemma drain_refines : forall fuel s avail s' avail' es,
  good s -> drain fuel s avail = MRet s' avail' es ->
  good s' /\ exists c rest, avail = c ++ rest /\ (m_mode s' = RClosed \/ rest = []) /\
                           forall y, A s (c ++ y) = papp es (A s' y).
Proof.
  induction fuel as [|f IH]; intros s avail s' avail' es G H; [discriminate|].
  cbn [Model.drain] in H.
  destruct avail as [|a0 av].
  { inversion H; subst. split; [exact G|]. exists [], []. split; [reflexivity|]. split; [right; reflexivity|].
    intros y. cbn. symmetry. apply papp_nil. }
  assert (STEP : forall s1 a1 e1 e2,
            ev (ev_fuel (a0 :: av)) s (a0 :: av) = MRet s1 a1 e1 ->
            drain f s1 a1 = MRet s' avail' e2 ->
            good s' /\ exists c rest, a0 :: av = c ++ rest /\ (m_mode s' = RClosed \/ rest = []) /\
                                     forall y, A s (c ++ y) = papp (e1 ++ e2) (A s' y)).
  { intros s1 a1 e1 e2 E D.
    destruct (ev_refines _ _ _ _ _ _ G E) as [G1 (c1 & Q1 & R1)].
    destruct (IH _ _ _ _ _ G1 D) as [G2 (c2 & rest & Q2 & CL & R2)].
    split; [exact G2|]. exists (c1 ++ c2), rest. split; [rewrite Q1, Q2, app_assoc; reflexivity|].
    split; [exact CL|].
    intros y. rewrite <- app_assoc, R1, R2. apply papp_papp. }
  destruct (m_mode s) eqn:M.
  - destruct (ev (ev_fuel (a0 :: av)) s (a0 :: av)) as [s1 a1 e1| |] eqn:E; try discriminate.
    apply mapp_ret in H. destruct H as (e2 & H & ->). eapply STEP; eauto.
  - destruct (ev (ev_fuel (a0 :: av)) s (a0 :: av)) as [s1 a1 e1| |] eqn:E; try discriminate.
    apply mapp_ret in H. destruct H as (e2 & H & ->). eapply STEP; eauto.
  - inversion H; subst. split; [exact G|]. exists [], (a0 :: av). split; [reflexivity|]. split; [left; exact M|].
    intros y. cbn. symmetry. apply papp_nil.
Qed.

(* once closed, the decoder ignores everything *)
Lemma A_closed s y z : m_mode s = RClosed -> good s -> A s y = A s z.
Proof.
  intros M [_ G]. rewrite M in G. unfold A. rewrite M, G. reflexivity.
Qed.

Lemma run_segs_refines : forall segs s s' avail' es,
  good s -> run_segs s segs = MRet s' avail' es ->
  good s' /\ A s (concat segs) = papp es (A s' []).
Proof.
  induction segs as [|seg more IH]; intros s s' avail' es G H.
  - cbn in H. inversion H; subst. split; [exact G|]. cbn. symmetry. apply papp_nil.
  - cbn [Model.run_segs] in H.
    destruct (drain (drain_fuel seg) s seg) as [s1 a1 e1| |] eqn:D; try discriminate.
    apply mapp_ret in H. destruct H as (e2 & H & ->).
    destruct (drain_refines _ _ _ _ _ _ G D) as [G1 (c & rest & Q & CL & R)].
    destruct (IH _ _ _ _ G1 H) as [G2 R2].
    split; [exact G2|]. cbn [concat]. rewrite Q, <- app_assoc, R.
    destruct CL as [CL|CL].
    + rewrite (A_closed s1 (rest ++ concat more) (concat more) CL G1), R2. apply papp_papp.
    + subst rest. cbn [app]. rewrite R2. apply papp_papp.
Qed.

(* ---- totality: the machine never writes past the buffer (MFault) and never spins (MOut) ---- *)
Lemma good_pay_pos s k lft : good s -> m_mode s = RPay k lft -> (0 < lft)%N.
Proof.
  intros [G1 G2] M. rewrite M in G1, G2. rewrite G2 in G1. rewrite feedx_pay in G1. cbn [length] in G1.
  destruct (N.of_nat 0 <? lft)%N eqn:E; [apply N.ltb_lt in E; exact E|].
  exfalso. destruct (handle (m_h s) (pay_done k)) as [h' v]. destruct v.
  - destruct (ProofsB.feedx HS handle rl pol h' RIdle (skipn (N.to_nat lft) [])); cbn in G1; inversion G1.
  - inversion G1.
  - inversion G1.
Qed.

Lemma mapp_MRet es s a e : mapp HS es (MRet s a e) = MRet s a (es ++ e).
Proof. reflexivity. Qed.

Lemma firstn_nonempty (n : nat) (l : list N) : 0 < n -> l <> [] -> firstn n l <> [].
Proof. destruct n; [lia|]. destruct l; [congruence|]. cbn. congruence. Qed.

Lemma target_le_cap s : target_of HS rl short s <= bufcap.
Proof.
  unfold target_of, bufsz, bufcap.
  destruct (is_leech rl && (length (m_buf s) =? 0) && short (m_cnt s)); vm_compute; lia.
Qed.

Lemma ev_total : forall fuel s avail, good s -> length avail < fuel ->
  exists s' a' es, ev fuel s avail = MRet s' a' es /\ length a' <= length avail /\
                   (avail <> [] -> m_mode s <> RClosed -> length a' < length avail).
Proof.
  induction fuel as [|f IH]; intros s avail G L; [lia|].
  cbn [Model.ev]. cbv zeta.
  destruct (m_mode s) as [|k lft|] eqn:M.
  - pose proof (target_pos s G M) as TP. pose proof TP as TP'. apply Nat.ltb_lt in TP'. rewrite TP'.
    set (want := Nat.min (target_of HS rl short s - length (m_buf s)) (cap budget (m_cnt s))).
    assert (W : 0 < want) by (unfold want, cap; lia).
    pose proof (firstn_skipn want avail) as FS.
    pose proof (firstn_le_length want avail) as FL.
    assert (FL2 : length (firstn want avail) <= want) by (rewrite firstn_length; lia).
    destruct (firstn want avail) as [|g0 gs] eqn:GOT.
    + rewrite (feedx_fuel HS handle rl pol) by (unfold mu; lia).
      destruct G as [GS GM]. rewrite M in GS. rewrite GS.
      do 3 eexists. split; [reflexivity|]. split; [lia|].
      intros NE _. exfalso. apply (firstn_nonempty want avail W NE). exact GOT.
    + set (got := g0 :: gs) in *.
      assert (SK : length (skipn want avail) < length avail).
      { pose proof (f_equal (@length N) FS) as FSL. rewrite app_length in FSL. subst got. cbn [length] in FSL. lia. }
      pose proof (target_le_cap s) as TC.
      assert (CAP : (bufcap <? length (m_buf s) + length got) = false).
      { apply Nat.ltb_ge. unfold want in FL2. lia. }
      rewrite CAP.
      rewrite (feedx_fuel HS handle rl pol) by (unfold mu; rewrite app_length; lia).
      destruct (feedx_total' HS handle rl pol (m_h s) RIdle (m_buf s ++ got)) as (h1 & m1 & b1 & es1 & F1).
      rewrite F1.
      pose proof (good_of_feed _ _ _ _ _ _ _ (S (m_cnt s)) F1) as G1.
      assert (REC : forall (c : nat) (h2 : HS) (m2 : rmode) (b2 : list N) (a2 : list N) (e0 : list effect) (bb : bool),
                 good (mk_mst h2 m2 b2 c) -> length a2 <= length (skipn want avail) ->
                 exists s' a' es,
                   (if bb then mapp HS e0 (ev f (mk_mst h2 m2 b2 c) a2) else MRet (mk_mst h2 m2 b2 c) a2 e0) = MRet s' a' es /\
                   length a' <= length avail /\ (avail <> [] -> RIdle <> RClosed -> length a' < length avail)).
      { intros c h2 m2 b2 a2 e0 bb G2 L2. destruct bb.
        - destruct (IH (mk_mst h2 m2 b2 c) a2 G2) as (s' & a' & es & E & LE & _); [lia|].
          rewrite E, mapp_MRet. do 3 eexists. split; [reflexivity|]. split; lia.
        - do 3 eexists. split; [reflexivity|]. split; lia. }
      destruct m1 as [|k1 lft1|].
      * apply REC; [exact G1|lia].
      * destruct k1.
        -- apply REC; [exact G1|lia].
        -- rewrite (feedx_fuel HS handle rl pol) by (unfold mu; lia).
           destruct (feedx_total' HS handle rl pol h1 (RPay KExt lft1)
                       (firstn (Nat.min (N.to_nat lft1) (cap budget (S (m_cnt s)))) (skipn want avail)))
             as (h2 & m2 & b2 & es2 & F2).
           rewrite F2.
           pose proof (good_of_feed _ _ _ _ _ _ _ (S (S (m_cnt s))) F2) as G2.
           apply REC; [exact G2|]. rewrite skipn_length. lia.
        -- apply REC; [exact G1|lia].
      * apply REC; [exact G1|lia].
  - pose proof (good_pay_pos s k lft G M) as LP.
    set (want := Nat.min (N.to_nat lft) (cap budget (m_cnt s))).
    assert (W : 0 < want) by (unfold want, cap; lia).
    pose proof (firstn_skipn want avail) as FS.
    destruct (firstn want avail) as [|g0 gs] eqn:GOT.
    + do 3 eexists. split; [reflexivity|]. split; [lia|].
      intros NE _. exfalso. apply (firstn_nonempty want avail W NE). exact GOT.
    + set (got := g0 :: gs) in *.
      assert (SK : length (skipn want avail) < length avail).
      { pose proof (f_equal (@length N) FS) as FSL. rewrite app_length in FSL. subst got. cbn [length] in FSL. lia. }
      rewrite (feedx_fuel HS handle rl pol) by (unfold mu; lia).
      destruct (feedx_total' HS handle rl pol (m_h s) (RPay k lft) got) as (h1 & m1 & b1 & es1 & F1).
      rewrite F1.
      pose proof (good_of_feed _ _ _ _ _ _ _ (S (m_cnt s)) F1) as G1.
      destruct m1 as [|k1 lft1|].
      * destruct (IH (mk_mst h1 RIdle b1 (S (m_cnt s))) (skipn want avail) G1) as (s' & a' & es & E & LE & _); [lia|].
        rewrite E, mapp_MRet. do 3 eexists. split; [reflexivity|]. split; lia.
      * do 3 eexists. split; [reflexivity|]. split; lia.
      * do 3 eexists. split; [reflexivity|]. split; lia.
  - do 3 eexists. split; [reflexivity|]. split; [lia|]. intros _ X. congruence.
Qed.

Lemma drain_total : forall fuel s avail, good s -> length avail < fuel ->
  exists s' es, drain fuel s avail = MRet s' [] es.
Proof.
  induction fuel as [|f IH]; intros s avail G L; [lia|].
  cbn [Model.drain]. destruct avail as [|a0 av]; [do 2 eexists; reflexivity|].
  destruct (ev_total (ev_fuel (a0 :: av)) s (a0 :: av) G) as (s1 & a1 & e1 & E & LE & LT); [unfold ev_fuel; lia|].
  destruct (ev_refines _ _ _ _ _ _ G E) as [G1 _].
  destruct (m_mode s) eqn:M.
  - rewrite E. destruct (IH s1 a1 G1) as (s' & es & D).
    { assert (length a1 < length (a0 :: av)) by (apply LT; congruence). lia. }
    rewrite D, mapp_MRet. do 2 eexists; reflexivity.
  - rewrite E. destruct (IH s1 a1 G1) as (s' & es & D).
    { assert (length a1 < length (a0 :: av)) by (apply LT; congruence). lia. }
    rewrite D, mapp_MRet. do 2 eexists; reflexivity.
  - do 2 eexists; reflexivity.
Qed.

Lemma run_segs_total : forall segs s, good s -> exists s' es, run_segs s segs = MRet s' [] es.
Proof.
  induction segs as [|seg more IH]; intros s G; [do 2 eexists; reflexivity|].
  cbn [Model.run_segs].
  destruct (drain_total (drain_fuel seg) s seg G) as (s1 & e1 & D); [unfold drain_fuel; lia|].
  rewrite D. destruct (drain_refines _ _ _ _ _ _ G D) as [G1 _].
  destruct (IH s1 G1) as (s' & es & R). rewrite R, mapp_MRet. do 2 eexists; reflexivity.
Qed.

(* ---- the theorem ------------------------------------------------------------------------- *)
Theorem machine_refines_decode : forall (h : HS) (segs : list (list N)) s' avail' es,
  run HS handle rl pol budget short h [] segs = MRet s' avail' es ->
  decode HS handle rl pol h (concat segs) = PRes (m_h s') (m_mode s') (m_buf s') es.
Proof.
  intros h segs s' avail' es H. unfold run, handover in H.
  apply mapp_ret in H. destruct H as (e2 & H & ->). cbn [app].
  assert (G0 : good (mk_mst h RIdle [] 0)).
  { split; cbn; [rewrite feedx_idle|]; reflexivity. }
  destruct (run_segs_refines _ _ _ _ _ G0 H) as [[G1 _] R].
  rewrite decode_feedx. unfold A in R. cbn [m_h m_mode m_buf app] in R. rewrite R, app_nil_r, G1.
  unfold ProofsB.papp. rewrite app_nil_r. reflexivity.
Qed.

(* ---- handover from the handshake ---------------------------------------------------------- *)
(* push_unread(pre) + one event_read on an empty socket: every complete message contained in
   the handed-over bytes is dispatched (the state reached is the decode of pre, and what stays
   in the buffer is an incomplete message).  |pre| < 512: HandshakeManager refuses more than
   512 (C06), and exactly 512 would leave no room to complete a message. *)
Theorem handover_dispatches_complete : forall (h : HS) (pre : list N),
  length pre < bufsz ->
  exists s0 es0,
    handover HS handle rl pol budget short h pre [] = MRet s0 [] es0 /\
    decode HS handle rl pol h pre = PRes (m_h s0) (m_mode s0) (m_buf s0) es0 /\
    good s0.
Proof.
  intros h pre L. unfold handover. destruct pre as [|p0 ps] eqn:P.
  - exists (mk_mst h RIdle [] 0), []. split; [reflexivity|]. split.
    + rewrite decode_feedx, feedx_idle. reflexivity.
    + split; cbn; [rewrite feedx_idle|]; reflexivity.
  - rewrite <- P in *. unfold ev_fuel. cbn [length Model.ev m_mode m_buf m_h m_cnt]. cbv zeta.
    assert (T : target_of HS rl short (mk_mst h RIdle pre 0) = bufsz).
    { unfold target_of. cbn [m_buf m_cnt]. subst pre. cbn [length Nat.eqb]. rewrite andb_false_r. reflexivity. }
    rewrite T. assert (LT : (length pre <? bufsz) = true) by (apply Nat.ltb_lt; exact L). rewrite LT.
    assert (W : firstn (Nat.min (bufsz - length pre) (cap budget 0)) (@nil N) = []) by apply firstn_nil.
    rewrite W. rewrite (feedx_fuel HS handle rl pol) by (unfold mu; lia).
    destruct (feedx_total' HS handle rl pol h RIdle pre) as (h1 & m1 & b1 & es1 & F1).
    rewrite F1. exists (mk_mst h1 m1 b1 1), es1. split; [reflexivity|]. split.
    + rewrite decode_feedx. exact F1.
    + eapply good_of_feed; eauto.
Qed.

(* Machine-level segmentation independence, buffer safety and no-spin in one statement: for
   every handler, role, recv budget oracle, target oracle and every list of segments, the run
   ends normally (no MFault = no write past the 512-byte buffer / no read outside the unread
   bytes; no MOut = every loop iteration consumed input or returned) and its handler state,
   read mode, unread rest and effect sequence are those of decoding the concatenation. *)
Theorem machine_segmentation_independent : forall (h : HS) (pre : list N) (segs : list (list N)),
  length pre < bufsz ->
  exists s' es,
    run HS handle rl pol budget short h pre segs = MRet s' [] es /\
    decode HS handle rl pol h (pre ++ concat segs) = PRes (m_h s') (m_mode s') (m_buf s') es.
Proof.
  intros h pre segs L.
  destruct (handover_dispatches_complete h pre L) as (s0 & es0 & HO & D0 & G0).
  destruct (run_segs_total segs _ G0) as (s' & es & R).
  destruct (run_segs_refines _ _ _ _ _ G0 R) as [[G1 _] RR].
  exists s', (es0 ++ es). split.
  - unfold run. rewrite HO, R. reflexivity.
  - rewrite decode_feedx in *. rewrite (feedx_app' HS handle rl pol h RIdle pre (concat segs)), D0.
    unfold ProofsB.pbind. unfold A in RR. rewrite RR, app_nil_r, G1.
    unfold ProofsB.papp. rewrite app_nil_r. reflexivity.
Qed.

End MachineProofs.
