(* C03 proofs, part F: the metadata connection (PeerConnectionMetadata::event_read after commit
   37af099) refines the same decoder. *)
From Coq Require Import NArith List Bool Arith Lia.
From LTV.C03 Require Import ParamsGen Model Proofs ProofsA ProofsB ProofsC ProofsD.
Import ListNotations.
Local Open Scope nat_scope.
Arguments ProofsB.feedx : simpl never.
Arguments ProofsB.papp : simpl never.

Section MetaProofs.
Variable HS : Type.
Variable handle : HS -> msg -> HS * verdict.
Variable rl : role.
Variable budget : nat -> nat.

Notation feedx := (feedx HS handle rl).
Notation feeds := (feeds HS handle rl).
Notation papp := (papp HS).
Notation ev_meta := (ev_meta HS handle rl budget).
Notation drain_meta := (drain_meta HS handle rl budget).
Notation run_segs_meta := (run_segs_meta HS handle rl budget).
Notation mst := (mst HS).
Notation A := (A HS handle rl).
Notation good := (good HS handle rl).

(* the parse that stops at a BITFIELD header: what it emitted plus decoding what it left is
   decoding everything; and what it leaves is settled unless it stopped at a BITFIELD *)
Lemma feeds_refines : forall f h m l h1 m1 b1 es1,
  mu m l < f -> feeds f h m l = PRes h1 m1 b1 es1 ->
  (forall y, feedx h m (l ++ y) = papp es1 (feedx h1 m1 (b1 ++ y))) /\
  ((exists lft, m1 = RPay KBits lft) \/ good (mk_mst h1 m1 b1 0)).
Proof.
  induction f as [|f IH]; intros h m l h1 m1 b1 es1 Hf H; [lia|].
  cbn [Model.feeds] in H. destruct m as [|k lft|].
  - (* RIdle *)
    destruct (one_msg rl l) eqn:E; try discriminate.
    + inversion H; subst. split.
      * intros y. cbn [app]. symmetry. apply papp_nil.
      * right. split; cbn [m_h m_mode m_buf]; [rewrite feedx_idle, E; reflexivity|exact E].
    + inversion H; subst. split.
      * intros y. rewrite feedx_idle, one_msg_mono, E by congruence. reflexivity.
      * right. split; reflexivity.
    + inversion H; subst. split.
      * intros y. rewrite feedx_idle, one_msg_mono, E by congruence. reflexivity.
      * right. split; reflexivity.
    + destruct (one_msg_got_len _ _ _ _ E) as [[L1 L2] _].
      assert (LS : length (skipn n l) + 4 <= length l) by (rewrite skipn_length; lia).
      unfold mu in Hf.
      assert (HD : forall y, feedx h RIdle (l ++ y) =
                   let (h', v) := handle h m in
                   match v with
                   | VCont => match after m with
                              | Some (k, len) => pcons HS (EMsg m) (feedx h' (RPay k len) (skipn n l ++ y))
                              | None => pcons HS (EMsg m) (feedx h' RIdle (skipn n l ++ y))
                              end
                   | VClose => PRes h' RClosed [] [EMsg m; EClose RHandler]
                   | VFatal => PRes h' RClosed [] [EMsg m; EFatal]
                   end).
      { intros y. rewrite feedx_idle, one_msg_mono, E by congruence. rewrite skipn_app_le by lia. reflexivity. }
      destruct (handle h m) as [h' v] eqn:HV. destruct v.
      * destruct (after m) as [[k len]|] eqn:AF.
        -- destruct k.
           ++ destruct (feeds f h' (RPay KPiece len) (skipn n l)) as [h2 m2 b2 es2| |] eqn:F; cbn in H; try discriminate.
              inversion H; subst. destruct (IH _ _ _ _ _ _ _ ltac:(unfold mu; lia) F) as [R G]. split; [|exact G].
              intros y. rewrite HD, R, pcons_papp, papp_papp. reflexivity.
           ++ destruct (feeds f h' (RPay KExt len) (skipn n l)) as [h2 m2 b2 es2| |] eqn:F; cbn in H; try discriminate.
              inversion H; subst. destruct (IH _ _ _ _ _ _ _ ltac:(unfold mu; lia) F) as [R G]. split; [|exact G].
              intros y. rewrite HD, R, pcons_papp, papp_papp. reflexivity.
           ++ inversion H; subst. split; [|left; eauto].
              intros y. rewrite HD. rewrite pcons_papp. reflexivity.
        -- destruct (feeds f h' RIdle (skipn n l)) as [h2 m2 b2 es2| |] eqn:F; cbn in H; try discriminate.
           inversion H; subst. destruct (IH _ _ _ _ _ _ _ ltac:(unfold mu; lia) F) as [R G]. split; [|exact G].
           intros y. rewrite HD, R, pcons_papp, papp_papp. reflexivity.
      * inversion H; subst. split; [|right; split; reflexivity].
        intros y. rewrite HD. reflexivity.
      * inversion H; subst. split; [|right; split; reflexivity].
        intros y. rewrite HD. reflexivity.
  - (* RPay *)
    assert (HD : forall y, feedx h (RPay k lft) (l ++ y) = pbind HS handle rl (feedx h (RPay k lft) l) y)
      by (intros; apply feedx_app').
    rewrite feedx_pay in HD.
    destruct (N.of_nat (length l) <? lft)%N eqn:E.
    + inversion H; subst. split.
      * intros y. rewrite HD. reflexivity.
      * right. apply N.ltb_lt in E. split; cbn [m_h m_mode m_buf]; [|reflexivity].
        rewrite feedx_pay. cbn [length].
        assert (X : (N.of_nat 0 <? lft - N.of_nat (length l))%N = true) by (apply N.ltb_lt; lia).
        rewrite X. f_equal. f_equal. lia.
    + destruct (handle h (pay_done k)) as [h' v] eqn:HV. destruct v.
      * pose proof (skipn_length_le (N.to_nat lft) l). unfold mu in Hf.
        destruct (feeds f h' RIdle (skipn (N.to_nat lft) l)) as [h2 m2 b2 es2| |] eqn:F; cbn in H; try discriminate.
        inversion H; subst. destruct (IH _ _ _ _ _ _ _ ltac:(unfold mu; lia) F) as [R G]. split; [|exact G].
        intros y. rewrite HD. rewrite pcons_papp, pbind_papp. unfold pbind.
        destruct (ProofsB.feedx HS handle rl h' RIdle (skipn (N.to_nat lft) l)) as [h3 m3 b3 es3| |] eqn:F3.
        -- rewrite <- (app_nil_r (skipn (N.to_nat lft) l)) in F3 at 1.
           pose proof (R []) as R0. rewrite app_nil_r in R0.
           (* both describe decoding skipn ... ++ y *)
           rewrite <- (feedx_app' HS handle rl h' RIdle (skipn (N.to_nat lft) l) y) at 1 || idtac.
           admit.
        -- admit.
        -- admit.
      * inversion H; subst. split; [|right; split; reflexivity].
        intros y. rewrite HD. reflexivity.
      * inversion H; subst. split; [|right; split; reflexivity].
        intros y. rewrite HD. reflexivity.
  - inversion H; subst. split; [|right; split; reflexivity].
    intros y. reflexivity.
Admitted.

End MetaProofs.
