(* C03 proofs, part F: the metadata connection (PeerConnectionMetadata::event_read after commit
   37af099) refines the same decoder. *)
From Coq Require Import NArith List Bool Arith Lia.
From LTV.C03 Require Import ParamsGen Model Proofs ProofsA ProofsB ProofsC ProofsD.
Import ListNotations.
Local Open Scope nat_scope.
Arguments ProofsB.feedx : simpl never.
Arguments ProofsB.papp : simpl never.

Section MetaProofs.
Variable HS : Type.
Variable handle : HS -> msg -> HS * verdict.
Variable rl : role.
Variable pol : policy.
Variable budget : nat -> nat.

Notation feedx := (feedx HS handle rl pol).
Notation feeds := (feeds HS handle rl pol).
Notation papp := (papp HS).
Notation ev_meta := (ev_meta HS handle rl pol budget).
Notation drain_meta := (drain_meta HS handle rl pol budget).
Notation run_segs_meta := (run_segs_meta HS handle rl pol budget).
Notation mst := (mst HS).
Notation A := (A HS handle rl pol).
Notation good := (good HS handle rl pol).

(* the parse that stops at a BITFIELD header: what it emitted plus decoding what it left is
   decoding everything; and what it leaves is settled unless it stopped at a BITFIELD *)
Lemma feeds_refines : forall f h m l h1 m1 b1 es1,
  mu m l < f -> feeds f h m l = PRes h1 m1 b1 es1 ->
  (forall y, feedx h m (l ++ y) = papp es1 (feedx h1 m1 (b1 ++ y))) /\
  ((exists lft, m1 = RPay KBits lft) \/ good (mk_mst h1 m1 b1 0)).
Proof.
  induction f as [|f IH]; intros h m l h1 m1 b1 es1 Hf H; [lia|].
  cbn [Model.feeds] in H. destruct m as [|k lft|].
  - (* RIdle *)
    destruct (one_msg pol rl l) eqn:E; try discriminate.
    + inversion H; subst. split.
      * intros y. cbn [app]. symmetry. apply papp_nil.
      * right. split; cbn [m_h m_mode m_buf]; [rewrite feedx_idle, E; reflexivity|exact E].
    + inversion H; subst. split.
      * intros y. rewrite feedx_idle, one_msg_mono, E by congruence. reflexivity.
      * right. split; reflexivity.
    + inversion H; subst. split.
      * intros y. rewrite feedx_idle, one_msg_mono, E by congruence. reflexivity.
      * right. split; reflexivity.
    + destruct (one_msg_got_len _ _ _ _ _ E) as [[L1 L2] _].
      assert (LS : length (skipn n l) + 4 <= length l) by (rewrite skipn_length; lia).
      unfold mu in Hf.
      assert (HD : forall y, feedx h RIdle (l ++ y) =
                   let (h', v) := handle h m in
                   match v with
                   | VCont => match after m with
                              | Some (k, len) => pcons HS (EMsg m) (feedx h' (RPay k len) (skipn n l ++ y))
                              | None => pcons HS (EMsg m) (feedx h' RIdle (skipn n l ++ y))
                              end
                   | VClose => PRes h' RClosed [] [EMsg m; EClose RHandler]
                   | VFatal => PRes h' RClosed [] [EMsg m; EFatal]
                   end).
      { intros y. rewrite feedx_idle, one_msg_mono, E by congruence. rewrite (skipn_app_le n l y L2). reflexivity. }
      destruct (handle h m) as [h' v] eqn:HV. destruct v.
      * destruct (after m) as [[k len]|] eqn:AF.
        -- destruct k.
           ++ destruct (feeds f h' (RPay KPiece len) (skipn n l)) as [h2 m2 b2 es2| |] eqn:F; cbn in H; try discriminate.
              inversion H; subst. match type of F with feeds _ _ ?mm ?ll = _ => assert (MU : mu mm ll < f) by (unfold mu; lia) end. destruct (IH _ _ _ _ _ _ _ MU F) as [R G]. split; [|exact G].
              intros y. rewrite HD, R, pcons_papp, papp_papp. reflexivity.
           ++ destruct (feeds f h' (RPay KExt len) (skipn n l)) as [h2 m2 b2 es2| |] eqn:F; cbn in H; try discriminate.
              inversion H; subst. match type of F with feeds _ _ ?mm ?ll = _ => assert (MU : mu mm ll < f) by (unfold mu; lia) end. destruct (IH _ _ _ _ _ _ _ MU F) as [R G]. split; [|exact G].
              intros y. rewrite HD, R, pcons_papp, papp_papp. reflexivity.
           ++ inversion H; subst. split; [|left; eauto].
              intros y. rewrite HD. rewrite pcons_papp. reflexivity.
        -- destruct (feeds f h' RIdle (skipn n l)) as [h2 m2 b2 es2| |] eqn:F; cbn in H; try discriminate.
           inversion H; subst. match type of F with feeds _ _ ?mm ?ll = _ => assert (MU : mu mm ll < f) by (unfold mu; lia) end. destruct (IH _ _ _ _ _ _ _ MU F) as [R G]. split; [|exact G].
           intros y. rewrite HD, R, pcons_papp, papp_papp. reflexivity.
      * inversion H; subst. split; [|right; split; reflexivity].
        intros y. rewrite HD. reflexivity.
      * inversion H; subst. split; [|right; split; reflexivity].
        intros y. rewrite HD. reflexivity.
  - (* RPay *)
    destruct (N.of_nat (length l) <? lft)%N eqn:E.
    + injection H as E1 E2 E3 E4; subst h1 m1 b1 es1. apply N.ltb_lt in E. split.
      * intros y. rewrite (feedx_app' HS handle rl pol h (RPay k lft) l y), feedx_pay.
        assert (X : (N.of_nat (length l) <? lft)%N = true) by (apply N.ltb_lt; exact E).
        rewrite X. reflexivity.
      * right. split; cbn [m_h m_mode m_buf]; [|reflexivity].
        rewrite feedx_pay. cbn [length].
        assert (X : (N.of_nat 0 <? lft - N.of_nat (length l))%N = true) by (apply N.ltb_lt; lia).
        rewrite X. f_equal. f_equal. lia.
    + apply N.ltb_ge in E.
      assert (HD : forall y, feedx h (RPay k lft) (l ++ y) =
                   let (h', v) := handle h (pay_done k) in
                   match v with
                   | VCont => pcons HS (EMsg (pay_done k)) (feedx h' RIdle (skipn (N.to_nat lft) l ++ y))
                   | VClose => PRes h' RClosed [] [EMsg (pay_done k); EClose RHandler]
                   | VFatal => PRes h' RClosed [] [EMsg (pay_done k); EFatal]
                   end).
      { intros y. rewrite feedx_pay, app_length.
        assert (X : (N.of_nat (length l + length y) <? lft)%N = false) by (apply N.ltb_ge; lia).
        rewrite X. rewrite skipn_app_le by lia. reflexivity. }
      destruct (handle h (pay_done k)) as [h' v] eqn:HV. destruct v.
      * pose proof (skipn_length_le (N.to_nat lft) l). unfold mu in Hf.
        destruct (feeds f h' RIdle (skipn (N.to_nat lft) l)) as [h2 m2 b2 es2| |] eqn:F; cbn in H; try discriminate.
        inversion H; subst. match type of F with feeds _ _ ?mm ?ll = _ => assert (MU : mu mm ll < f) by (unfold mu; lia) end. destruct (IH _ _ _ _ _ _ _ MU F) as [R G]. split; [|exact G].
        intros y. rewrite HD, R, pcons_papp, papp_papp. reflexivity.
      * inversion H; subst. split; [|right; split; reflexivity].
        intros y. rewrite HD. reflexivity.
      * inversion H; subst. split; [|right; split; reflexivity].
        intros y. rewrite HD. reflexivity.
  - inversion H; subst. split; [|right; split; reflexivity].
    intros y. reflexivity.
Qed.

Lemma good_cnt h m b c c' : good (mk_mst h m b c) -> good (mk_mst h m b c').
Proof. intros G. exact G. Qed.

(* decoding a payload slice that is not longer than the payload leaves no buffer rest, and if the
   payload is still incomplete afterwards the slice was the whole input *)
Lemma pay_slice h k lft l h1 m1 b1 es1 :
  (N.of_nat (length l) <= lft)%N -> feedx h (RPay k lft) l = PRes h1 m1 b1 es1 ->
  b1 = [] /\ (forall k1 l1, m1 = RPay k1 l1 -> (N.of_nat (length l) < lft)%N).
Proof.
  intros L H. rewrite feedx_pay in H.
  destruct (N.of_nat (length l) <? lft)%N eqn:E.
  - inversion H; subst. split; [reflexivity|]. intros. apply N.ltb_lt. exact E.
  - apply N.ltb_ge in E. assert (EQ : N.to_nat lft = length l) by lia.
    rewrite EQ, skipn_all in H.
    destruct (handle h (pay_done k)) as [h' v]. destruct v.
    + rewrite feedx_idle in H. cbn in H. inversion H; subst. split; [reflexivity|]. intros; discriminate.
    + inversion H; subst. split; [reflexivity|]. intros; discriminate.
    + inversion H; subst. split; [reflexivity|]. intros; discriminate.
Qed.

Definition refinesW (s : mst) (avail : list N) (s' : mst) (avail' : list N) (es : list effect) : Prop :=
  exists c, avail = c ++ avail' /\ forall y, A s (c ++ y) = papp es (A s' y).

Lemma refinesW_refl s avail : refinesW s avail s avail [].
Proof. exists []. split; [reflexivity|]. intros y. cbn [app]. symmetry. apply papp_nil. Qed.

Lemma refinesW_trans s a s1 a1 e1 s2 a2 e2 :
  refinesW s a s1 a1 e1 -> refinesW s1 a1 s2 a2 e2 -> refinesW s a s2 a2 (e1 ++ e2).
Proof.
  intros (c1 & Q1 & R1) (c2 & Q2 & R2). exists (c1 ++ c2). split; [subst; rewrite app_assoc; reflexivity|].
  intros y. rewrite <- app_assoc, R1, R2. apply papp_papp.
Qed.

Lemma good_closed h c : good (mk_mst h RClosed [] c).
Proof. split; reflexivity. Qed.

Lemma ev_meta_refines : forall fuel s avail s' avail' es,
  (m_mode s = RClosed -> good s) ->
  ev_meta fuel s avail = MRet s' avail' es -> refinesW s avail s' avail' es /\ good s'.
Proof.
  induction fuel as [|f IH]; intros s avail s' avail' es GC H; [discriminate|].
  cbn [Model.ev_meta] in H. cbv zeta in H.
  destruct (m_mode s) as [|k lft|] eqn:M.
  - (* RIdle *)
    set (want := if length (m_buf s) <? bufsz then Nat.min (bufsz - length (m_buf s)) (cap budget (m_cnt s)) else 0) in *.
    pose proof (firstn_skipn want avail) as FS.
    remember (firstn want avail) as got.
    destruct (bufcap <? length (m_buf s) + length got); [discriminate|].
    destruct (Model.feeds HS handle rl pol (S (length (m_buf s) + length got)) (m_h s) RIdle (m_buf s ++ got))
      as [h1 m1 b1 es1| |] eqn:F1; try discriminate.
    assert (MU : mu RIdle (m_buf s ++ got) < S (length (m_buf s) + length got)) by (unfold mu; rewrite app_length; lia).
    destruct (feeds_refines _ _ _ _ _ _ _ _ MU F1) as [R1 G1].
    assert (RW1 : forall c, refinesW s avail (mk_mst h1 m1 b1 c) (skipn want avail) es1).
    { intros c. exists got. split; [symmetry; exact FS|]. intros y. unfold ProofsD.A. cbn [m_h m_mode m_buf].
      rewrite M, app_assoc. apply R1. }
    assert (GC1 : forall c, m1 = RClosed -> good (mk_mst h1 m1 b1 c)).
    { intros c ->. destruct G1 as [[? X]|G1]; [discriminate|exact G1]. }
    assert (STEP : forall c,
              (if (length (m_buf s) + length got =? bufsz) || negb (is_idle m1)
               then mapp HS es1 (ev_meta f (mk_mst h1 m1 b1 c) (skipn want avail))
               else MRet (mk_mst h1 m1 b1 c) (skipn want avail) es1) = MRet s' avail' es ->
              (forall lft, m1 <> RPay KExt lft) -> (forall lft, m1 = RPay KBits lft -> True) ->
              refinesW s avail s' avail' es /\ good s').
    { intros c H' NE _.
      destruct ((length (m_buf s) + length got =? bufsz) || negb (is_idle m1)) eqn:C.
      - apply mapp_ret in H'. destruct H' as (e2 & H' & ->).
        destruct (IH (mk_mst h1 m1 b1 c) _ _ _ _ (GC1 c) H') as [R2 G2].
        split; [|exact G2]. eapply refinesW_trans; [apply RW1|exact R2].
      - inversion H'; subst. split; [apply RW1|].
        apply orb_false_iff in C. destruct C as [_ C]. apply negb_false_iff in C.
        destruct m1; try discriminate. destruct G1 as [[? X]|G1]; [discriminate|exact G1]. }
    destruct m1 as [|k1 lft1|].
    + eapply STEP; eauto; intros; discriminate.
    + destruct k1.
      * eapply STEP; eauto; intros; discriminate.
      * (* KExt: one recv inside read_message *)
        assert (B1 : b1 = []).
        { destruct G1 as [[? X]|[_ G1]]; [discriminate|exact G1]. }
        subst b1.
        set (want2 := Nat.min (N.to_nat lft1) (cap budget (S (m_cnt s)))) in *.
        pose proof (firstn_skipn want2 (skipn want avail)) as FS2.
        remember (firstn want2 (skipn want avail)) as got2.
        remember (skipn want2 (skipn want avail)) as avail2.
        rewrite (feedx_fuel HS handle rl pol) in H by (unfold mu; lia).
        destruct (ProofsB.feedx HS handle rl pol h1 (RPay KExt lft1) got2) as [h2 m2 b2 es2| |] eqn:F2; try discriminate.
        pose proof (good_of_feed HS handle rl pol _ _ _ _ _ _ _ (S (S (m_cnt s))) F2) as G2.
        assert (RW2 : refinesW (mk_mst h1 (RPay KExt lft1) [] (S (m_cnt s))) (skipn want avail)
                               (mk_mst h2 m2 b2 (S (S (m_cnt s)))) avail2 es2).
        { exists got2. split; [symmetry; exact FS2|]. intros y. unfold ProofsD.A. cbn [m_h m_mode m_buf].
          apply (A_step HS handle rl pol h1 (RPay KExt lft1) [] got2). exact F2. }
        pose proof (refinesW_trans _ _ _ _ _ _ _ _ (RW1 (S (m_cnt s))) RW2) as RW12.
        destruct ((length (m_buf s) + length got =? bufsz) || negb (is_idle m2)).
        -- apply mapp_ret in H. destruct H as (e2 & H & ->).
           destruct (IH (mk_mst h2 m2 b2 (S (S (m_cnt s)))) _ _ _ _ (fun _ => G2) H) as [R3 G3].
           split; [|exact G3]. eapply refinesW_trans; [exact RW12|exact R3].
        -- inversion H; subst. split; [exact RW12|exact G2].
      * eapply STEP; eauto; intros; discriminate.
    + eapply STEP; eauto; intros; discriminate.
  - (* RPay: from the buffer first, then one recv *)
    set (c := Nat.min (N.to_nat lft) (length (m_buf s))) in *.
    pose proof (firstn_skipn c (m_buf s)) as FSB.
    assert (LC : (N.of_nat (length (firstn c (m_buf s))) <= lft)%N) by (rewrite firstn_length; unfold c; lia).
    assert (LC2 : length (firstn c (m_buf s)) = c) by (rewrite firstn_length; unfold c; lia).
    rewrite (feedx_fuel HS handle rl pol) in H by (unfold mu; lia).
    destruct (ProofsB.feedx HS handle rl pol (m_h s) (RPay k lft) (firstn c (m_buf s))) as [h1 m1 b1 es1| |] eqn:F1; try discriminate.
    destruct (pay_slice _ _ _ _ _ _ _ _ LC F1) as [B1 PL]. subst b1.
    pose proof (good_of_feed HS handle rl pol _ _ _ _ _ _ _ (m_cnt s) F1) as G1.
    assert (RW1 : forall cc, refinesW s avail (mk_mst h1 m1 (skipn c (m_buf s)) cc) avail es1).
    { intros cc. exists []. split; [reflexivity|]. intros y. cbn [app]. unfold ProofsD.A. cbn [m_h m_mode m_buf].
      rewrite M.
      replace (m_buf s ++ y) with (firstn c (m_buf s) ++ skipn c (m_buf s) ++ y) by (rewrite app_assoc, FSB; reflexivity).
      pose proof (A_step HS handle rl pol (m_h s) (RPay k lft) [] (firstn c (m_buf s)) _ _ _ _ F1 (skipn c (m_buf s) ++ y)) as X.
      cbn [app] in X. exact X. }
    destruct m1 as [|k1 lft1|].
    + apply mapp_ret in H. destruct H as (e2 & H & ->).
      assert (GCI : m_mode (mk_mst h1 RIdle (skipn c (m_buf s)) (m_cnt s)) = RClosed -> good (mk_mst h1 RIdle (skipn c (m_buf s)) (m_cnt s)))
        by (cbn [m_mode]; discriminate).
      destruct (IH (mk_mst h1 RIdle (skipn c (m_buf s)) (m_cnt s)) _ _ _ _ GCI H) as [R2 G2].
      split; [|exact G2]. eapply refinesW_trans; [apply RW1|exact R2].
    + (* payload still incomplete: the buffer is exhausted *)
      assert (REST : skipn c (m_buf s) = []).
      { pose proof (PL _ _ eq_refl) as LT. rewrite LC2 in LT. apply skipn_all2. unfold c in *. lia. }
      rewrite REST in *.
      set (want := Nat.min (N.to_nat lft1) (cap budget (m_cnt s))) in *.
      pose proof (firstn_skipn want avail) as FS.
      destruct (firstn want avail) as [|g0 gs] eqn:GOT.
      * inversion H; subst. split; [apply RW1|exact G1].
      * set (got := g0 :: gs) in *.
        rewrite (feedx_fuel HS handle rl pol) in H by (unfold mu; lia).
        destruct (ProofsB.feedx HS handle rl pol h1 (RPay k1 lft1) got) as [h2 m2 b2 es2| |] eqn:F2; try discriminate.
        pose proof (good_of_feed HS handle rl pol _ _ _ _ _ _ _ (S (m_cnt s)) F2) as G2.
        assert (RW2 : refinesW (mk_mst h1 (RPay k1 lft1) [] (m_cnt s)) avail (mk_mst h2 m2 b2 (S (m_cnt s))) (skipn want avail) es2).
        { exists got. split; [symmetry; exact FS|]. intros y. unfold ProofsD.A. cbn [m_h m_mode m_buf].
          apply (A_step HS handle rl pol h1 (RPay k1 lft1) [] got). exact F2. }
        pose proof (refinesW_trans _ _ _ _ _ _ _ _ (RW1 (m_cnt s)) RW2) as RW12.
        assert (LG : (N.of_nat (length got) <= lft1)%N).
        { pose proof (firstn_le_length want avail) as FL. rewrite GOT in FL. fold got in FL. unfold want in FL. lia. }
        destruct (pay_slice _ _ _ _ _ _ _ _ LG F2) as [B2 _]. subst b2.
        destruct m2 as [|k2 lft2|].
        -- apply mapp_ret in H. destruct H as (e2 & H & ->).
           assert (GCI : m_mode (mk_mst h2 RIdle [] (S (m_cnt s))) = RClosed -> good (mk_mst h2 RIdle [] (S (m_cnt s))))
             by (cbn [m_mode]; discriminate).
           destruct (IH (mk_mst h2 RIdle [] (S (m_cnt s))) _ _ _ _ GCI H) as [R3 G3].
           split; [|exact G3]. eapply refinesW_trans; [exact RW12|exact R3].
        -- inversion H; subst. split; [exact RW12|exact G2].
        -- inversion H; subst. split; [exact RW12|exact G2].
    + inversion H; subst. split; [|apply good_closed].
      destruct (RW1 (m_cnt s)) as (c0 & Q & R). exists c0. split; [exact Q|].
      intros y. rewrite R. unfold ProofsD.A. cbn [m_h m_mode m_buf]. reflexivity.
  - inversion H; subst. split; [apply refinesW_refl|apply GC; reflexivity].
Qed.

Lemma drain_meta_refines : forall fuel s avail s' avail' es,
  good s -> drain_meta fuel s avail = MRet s' avail' es ->
  good s' /\ exists c rest, avail = c ++ rest /\ (m_mode s' = RClosed \/ rest = []) /\
                           forall y, A s (c ++ y) = papp es (A s' y).
Proof.
  induction fuel as [|f IH]; intros s avail s' avail' es G H; [discriminate|].
  cbn [Model.drain_meta] in H.
  destruct avail as [|a0 av].
  { inversion H; subst. split; [exact G|]. exists [], []. split; [reflexivity|]. split; [right; reflexivity|].
    intros y. cbn. symmetry. apply papp_nil. }
  assert (STEP : forall (s1 : mst) (a1 : list N) (e1 : list effect),
            ev_meta (evm_fuel HS s (a0 :: av)) s (a0 :: av) = MRet s1 a1 e1 ->
            (if length a1 <? length (a0 :: av) then mapp HS e1 (drain_meta f s1 a1)
             else match m_mode s1 with RClosed => MRet s1 [] e1 | _ => MOut end) = MRet s' avail' es ->
            good s' /\ exists c rest, a0 :: av = c ++ rest /\ (m_mode s' = RClosed \/ rest = []) /\
                                     forall y, A s (c ++ y) = papp es (A s' y)).
  { intros s1 a1 e1 E D.
    destruct (ev_meta_refines _ _ _ _ _ _ (fun _ => G) E) as [(c1 & Q1 & R1) G1].
    destruct (length a1 <? length (a0 :: av)).
    - apply mapp_ret in D. destruct D as (e2 & D & ->).
      destruct (IH _ _ _ _ _ G1 D) as [G2 (c2 & rest & Q2 & CL & R2)].
      split; [exact G2|]. exists (c1 ++ c2), rest. split; [rewrite Q1, Q2, app_assoc; reflexivity|].
      split; [exact CL|].
      intros y. rewrite <- app_assoc, R1, R2. apply papp_papp.
    - destruct (m_mode s1) eqn:M1; try discriminate. inversion D; subst.
      split; [exact G1|]. exists c1, a1. split; [exact Q1|]. split; [left; exact M1|]. exact R1. }
  destruct (m_mode s) eqn:M.
  - destruct (ev_meta (evm_fuel HS s (a0 :: av)) s (a0 :: av)) as [s1 a1 e1| |] eqn:E; try discriminate. eapply STEP; eauto.
  - destruct (ev_meta (evm_fuel HS s (a0 :: av)) s (a0 :: av)) as [s1 a1 e1| |] eqn:E; try discriminate. eapply STEP; eauto.
  - inversion H; subst. split; [exact G|]. exists [], (a0 :: av). split; [reflexivity|]. split; [left; exact M|].
    intros y. cbn. symmetry. apply papp_nil.
Qed.

Lemma run_segs_meta_refines : forall segs s s' avail' es,
  good s -> run_segs_meta s segs = MRet s' avail' es ->
  good s' /\ A s (concat segs) = papp es (A s' []).
Proof.
  induction segs as [|seg more IH]; intros s s' avail' es G H.
  - cbn in H. inversion H; subst. split; [exact G|]. cbn. symmetry. apply papp_nil.
  - cbn [Model.run_segs_meta] in H.
    destruct (drain_meta (drain_fuel seg) s seg) as [s1 a1 e1| |] eqn:D; try discriminate.
    apply mapp_ret in H. destruct H as (e2 & H & ->).
    destruct (drain_meta_refines _ _ _ _ _ _ G D) as [G1 (c & rest & Q & CL & R)].
    destruct (IH _ _ _ _ G1 H) as [G2 R2].
    split; [exact G2|]. cbn [concat]. rewrite Q, <- app_assoc, R.
    destruct CL as [CL|CL].
    + rewrite (A_closed HS handle rl pol s1 (rest ++ concat more) (concat more) CL G1), R2. apply papp_papp.
    + subst rest. cbn [app]. rewrite R2. apply papp_papp.
Qed.

(* The metadata connection: whatever the segmentation and the recv budgets, a run that ends
   normally has emitted exactly the effects of decoding the handed-over bytes followed by the
   concatenated segments, and is in the state that decode denotes (after commit 37af099 this
   includes a BITFIELD and everything buffered behind it). *)
Theorem meta_machine_refines_decode : forall (h : HS) (pre : list N) (segs : list (list N)) s' avail' es,
  run_meta HS handle rl pol budget h pre segs = MRet s' avail' es ->
  decode HS handle rl pol h (pre ++ concat segs) = PRes (m_h s') (m_mode s') (m_buf s') es.
Proof.
  intros h pre segs s' avail' es H. unfold run_meta in H.
  assert (FIN : forall s0 es0 e2, good s0 ->
            (forall y, feedx h RIdle (pre ++ y) = papp es0 (A s0 y)) ->
            run_segs_meta s0 segs = MRet s' avail' e2 ->
            decode HS handle rl pol h (pre ++ concat segs) = PRes (m_h s') (m_mode s') (m_buf s') (es0 ++ e2)).
  { intros s0 es0 e2 G0 R0 RS.
    destruct (run_segs_meta_refines _ _ _ _ _ G0 RS) as [[G1 _] RR].
    rewrite decode_feedx, R0, RR, papp_papp. unfold ProofsD.A. rewrite app_nil_r, G1.
    unfold ProofsB.papp. rewrite app_nil_r. reflexivity. }
  destruct pre as [|p0 ps] eqn:P.
  - apply mapp_ret in H. destruct H as (e2 & H & ->).
    apply (FIN (mk_mst h RIdle [] 0) [] e2); [split; cbn; [rewrite feedx_idle|]; reflexivity| |exact H].
    intros y. cbn [app]. symmetry. apply papp_nil.
  - rewrite <- P in *.
    destruct (ev_meta (evm_fuel HS (mk_mst h RIdle pre 0) []) (mk_mst h RIdle pre 0) []) as [s0 a0 es0| |] eqn:E; try discriminate.
    apply mapp_ret in H. destruct H as (e2 & H & ->).
    assert (GC : m_mode (mk_mst h RIdle pre 0) = RClosed -> good (mk_mst h RIdle pre 0)) by (cbn [m_mode]; discriminate).
    destruct (ev_meta_refines _ _ _ _ _ _ GC E) as [(c & Q & R) G0].
    destruct c; [|discriminate]. 
    apply (FIN s0 es0 e2 G0); [|exact H].
    intros y. pose proof (R y) as RY. unfold ProofsD.A in RY at 1. cbn [m_h m_mode m_buf app] in RY. exact RY.
Qed.

End MetaProofs.
