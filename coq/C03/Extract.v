From Coq Require Import Extraction ExtrOcamlBasic NArith ZArith.
From LTV.C03 Require Import Model.
Set Extraction Optimize.
Extraction Language OCaml.
Extraction "extracted/c03_model.ml" run_real run_b_real decode_real hinit one_msg close_eof Z.of_N.
